(** * SolveFloat: the solver's accumulators stay finite at binary64 (instance [FNum]).

    Property C05 at binary64, positive counterpart of the finding D13 (payoffs of
    magnitude 1e308 overflow the accumulated regret: bound [inf], then NaN strategies).
    For the unsampled and the chance-sampled method ([vrec], every sampling oracle, every
    stopping predicate), the vanilla parameter set (no discounting), CFR+, and more
    generally every parameter set whose discount factors are numbers in [0,1] and whose
    regret-matching fallback is not the softmax:

    if the payoffs are finite with [|payoff| <= 2^e] and
    [reg_cap g T = max (leaves, 2 * max(1, #infosets of a player) * T * rcount(tree))]
    satisfies [reg_cap g T < 2^53] and [reg_cap g T * 2^e < 2^1024] (for instance
    [e <= 971]), [T * scount(tree) < 2^53], [T < 2^53], then in [T] iterations no NaN and
    no infinity arises anywhere: every value returned by a traversal, every cumulative
    regret, every cumulative strategy entry is a finite float with an explicit bound,
    every strategy row is a row of finite numbers in [0,1], the returned profile consists
    of finite numbers in [0,1] and the reported bounds are finite and non-negative.

    The analysis has no [(1+eps)^k] factors: all bounds are of the form [m * 2^e] with [m]
    a natural number below [2^53].  Such numbers are binary64 numbers, rounding to nearest
    is monotone and fixes them, hence [|x| <= m1 * 2^e], [|y| <= m2 * 2^e] gives
    [|fl (x + y)| <= (m1 + m2) * 2^e] exactly, and multiplying by a probability cannot
    increase a bound.  No assumption on the shape of the tree or of the state is needed
    (infoset indices out of range, rows of the wrong length, imperfect recall: all covered;
    strategy rows need not sum to one).

    Tree constants: [nleaves] (EvalFloat), [rcount] (regret budget of one traversal, in
    units of [2^e]: sum over the decision nodes of twice their number of leaves), [scount]
    (number of decision nodes).

    Main results
    - [vrec_float_ok] / [vrec_float_finite]   item 1: one traversal, from any state [StOK];
    - [advance_ok], [advance_all_ok]           the update between two traversals;
    - [solve_loop_float_ok] / [solve_loop_float_state]   item 2: the state after the loop;
    - [solve_single_float_valid]               item 3: vanilla parameters;
    - [solve_single_float_valid_simple]        the same with [e <= 971];
    - [solve_single_float_valid_params]        item 4: any parameter set with [nosoftmax]
                                               and [disc_ok] (discount factors in [0,1]);
    - [solve_single_float_valid_cfr_plus]      item 4: CFR+ (factors 1, 0, (t/(t+1))^2);
    - [exs_run], [exs_valid], [exs_overflow]   a concrete game; the range condition is
                                               necessary ([2^1023]: NaN after 6 iterations). *)
From Coq Require Import List ZArith NArith Reals Floats Bool Lia Lra Arith Psatz.
From Flocq Require Import Core IEEE754.BinarySingleNaN IEEE754.PrimFloat.
From Cfr.theories Require Import Num FInst Tree GameWF Strat Eval Solve
  TruncFloat DistFloat NormFloat EvalFloat.
Import ListNotations.

Local Existing Instance Flocq.IEEE754.PrimFloat.Hprec.
Local Existing Instance Flocq.IEEE754.PrimFloat.Hmax.

Local Open Scope R_scope.
Local Notation float := PrimFloat.float.
Local Notation Hp := Flocq.IEEE754.PrimFloat.Hprec.
Local Notation Hm := Flocq.IEEE754.PrimFloat.Hmax.
Local Notation node := (@node FNum).
Local Notation game := (@game FNum).
Local Notation rinfo := (@rinfo FNum).
Local Notation pstate := (@pstate FNum).

Local Instance fexp_valid3 : Valid_exp (SpecFloat.fexp prec emax) := fexp_correct prec emax Hp.

(** ** Signed probabilities: finite, magnitude at most one *)

Definition fin11 (x : float) : Prop := Ffin x /\ Rabs (FR x) <= 1.

Lemma fin01_fin11 : forall x, fin01 x -> fin11 x.
Proof. intros x [Hf [H0 H1]]. split; [exact Hf|]. rewrite Rabs_pos_eq; assumption. Qed.

Lemma fin01_one : fin01 1%float.
Proof. split; [apply Ffin_one | rewrite FR_one; lra]. Qed.

Lemma Ffin_opp : forall x, Ffin x -> Ffin (- x)%float.
Proof. intros x Hx. unfold Ffin. rewrite opp_equiv, is_finite_Bopp. exact Hx. Qed.

Lemma FR_opp : forall x, FR (- x)%float = - FR x.
Proof. intros x. unfold FR. rewrite opp_equiv. apply B2R_Bopp. Qed.

Lemma fin11_opp : forall x, fin11 x -> fin11 (- x)%float.
Proof.
  intros x [Hf H1]. split; [apply Ffin_opp; exact Hf|]. rewrite FR_opp, Rabs_Ropp. exact H1.
Qed.

Lemma rnd_abs_le : forall x M, fmt M -> Rabs x <= M -> Rabs (rnd x) <= M.
Proof.
  intros x M HM Hx. apply Rabs_le_inv in Hx. apply Rabs_le. split.
  - apply rnd_ge_fmt; [apply generic_format_opp; exact HM | lra].
  - apply rnd_le_fmt; [exact HM | lra].
Qed.

Lemma fin11_mul : forall a b, fin11 a -> fin11 b -> fin11 (a * b)%float.
Proof.
  intros a b [Ha Ha1] [Hb Hb1].
  assert (Hab : Rabs (FR a * FR b) <= 1).
  { rewrite Rabs_mult. replace 1 with (1 * 1) by ring.
    apply Rmult_le_compat; try apply Rabs_pos; assumption. }
  assert (Hr := rnd_abs_le _ 1 fmt_1 Hab).
  assert (Hlt : Rabs (rnd (FR a * FR b)) < bpow radix2 emax).
  { apply Rle_lt_trans with (1 := Hr). apply one_lt_Omax. }
  destruct (mul_ok a b Ha Hb Hlt) as [Hf He].
  split; [exact Hf | rewrite He; exact Hr].
Qed.

(** ** Bounds of the form [m * 2^e] *)

Section Bnd.
  Context (e : Z) (He : (-1074 <= e)%Z).
  Context (Mx : nat) (HMx : (Z.of_nat Mx < 2 ^ 53)%Z).
  Context (Hov : INR Mx * bpow radix2 e < bpow radix2 emax).

  (** finite, of magnitude at most [m * 2^e] *)
  Definition bnd (m : nat) (x : float) : Prop :=
    Ffin x /\ Rabs (FR x) <= INR m * bpow radix2 e.

  Lemma fmt_mB : forall m : nat, (m <= Mx)%nat -> fmt (INR m * bpow radix2 e).
  Proof.
    intros m Hm. unfold fmt.
    apply (generic_format_FLT radix2 (SpecFloat.emin prec emax) prec).
    apply (FLT_spec radix2 (SpecFloat.emin prec emax) prec _ (Float radix2 (Z.of_nat m) e)).
    - unfold F2R. cbn [Fnum Fexp]. rewrite INR_IZR_INZ. reflexivity.
    - cbn [Fnum]. change (radix2 ^ prec)%Z with (2 ^ 53)%Z. lia.
    - cbn [Fexp]. change (SpecFloat.emin prec emax) with (-1074)%Z. exact He.
  Qed.

  Lemma mB_lt_emax : forall m : nat, (m <= Mx)%nat -> INR m * bpow radix2 e < bpow radix2 emax.
  Proof.
    intros m Hm. apply Rle_lt_trans with (2 := Hov).
    apply Rmult_le_compat_r; [apply bpow_ge_0 | apply le_INR; exact Hm].
  Qed.

  Lemma mB_nonneg : forall m : nat, 0 <= INR m * bpow radix2 e.
  Proof. intros m. apply Rmult_le_pos; [apply pos_INR | apply bpow_ge_0]. Qed.

  Lemma bnd_weaken : forall m m' x, bnd m x -> (m <= m')%nat -> bnd m' x.
  Proof.
    intros m m' x [Hf Hb] Hm. split; [exact Hf|].
    apply Rle_trans with (1 := Hb).
    apply Rmult_le_compat_r; [apply bpow_ge_0 | apply le_INR; exact Hm].
  Qed.

  Lemma bnd_zero : forall m, bnd m 0%float.
  Proof. intros m. split; [apply Ffin_zero|]. rewrite FR_zero, Rabs_R0. apply mB_nonneg. Qed.

  Lemma bnd_Ffin : forall m x, bnd m x -> Ffin x.
  Proof. intros m x [H _]. exact H. Qed.

  Lemma bnd_add : forall m1 m2 x y, bnd m1 x -> bnd m2 y -> (m1 + m2 <= Mx)%nat ->
    bnd (m1 + m2) (x + y)%float.
  Proof.
    intros m1 m2 x y [Hx Hbx] [Hy Hby] Hm.
    assert (Hs : Rabs (FR x + FR y) <= INR (m1 + m2) * bpow radix2 e).
    { apply Rle_trans with (1 := Rabs_triang _ _). rewrite plus_INR. lra. }
    assert (Hr := rnd_abs_le _ _ (fmt_mB _ Hm) Hs).
    assert (Hlt : Rabs (rnd (FR x + FR y)) < bpow radix2 emax).
    { apply Rle_lt_trans with (1 := Hr). apply mB_lt_emax. exact Hm. }
    destruct (add_ok x y Hx Hy Hlt) as [Hf Heq].
    split; [exact Hf | rewrite Heq; exact Hr].
  Qed.

  Lemma bnd_sub : forall m1 m2 x y, bnd m1 x -> bnd m2 y -> (m1 + m2 <= Mx)%nat ->
    bnd (m1 + m2) (x - y)%float.
  Proof.
    intros m1 m2 x y [Hx Hbx] [Hy Hby] Hm.
    assert (Hs : Rabs (FR x - FR y) <= INR (m1 + m2) * bpow radix2 e).
    { unfold Rminus. apply Rle_trans with (1 := Rabs_triang _ _).
      rewrite Rabs_Ropp, plus_INR. lra. }
    assert (Hr := rnd_abs_le _ _ (fmt_mB _ Hm) Hs).
    assert (Hlt : Rabs (rnd (FR x - FR y)) < bpow radix2 emax).
    { apply Rle_lt_trans with (1 := Hr). apply mB_lt_emax. exact Hm. }
    destruct (sub_ok x y Hx Hy Hlt) as [Hf Heq].
    split; [exact Hf | rewrite Heq; exact Hr].
  Qed.

  Lemma bnd_mul_l : forall m p x, fin11 p -> bnd m x -> (m <= Mx)%nat -> bnd m (p * x)%float.
  Proof.
    intros m p x [Hp Hp1] [Hx Hbx] Hm.
    assert (Hs : Rabs (FR p * FR x) <= INR m * bpow radix2 e).
    { rewrite Rabs_mult. apply Rle_trans with (2 := Hbx).
      rewrite <- (Rmult_1_l (Rabs (FR x))) at 2.
      apply Rmult_le_compat_r; [apply Rabs_pos | exact Hp1]. }
    assert (Hr := rnd_abs_le _ _ (fmt_mB _ Hm) Hs).
    assert (Hlt : Rabs (rnd (FR p * FR x)) < bpow radix2 emax).
    { apply Rle_lt_trans with (1 := Hr). apply mB_lt_emax. exact Hm. }
    destruct (mul_ok p x Hp Hx Hlt) as [Hf Heq].
    split; [exact Hf | rewrite Heq; exact Hr].
  Qed.

  Lemma bnd_mul_r : forall m p x, bnd m x -> fin11 p -> (m <= Mx)%nat -> bnd m (x * p)%float.
  Proof.
    intros m p x [Hx Hbx] [Hp Hp1] Hm.
    assert (Hs : Rabs (FR x * FR p) <= INR m * bpow radix2 e).
    { rewrite Rabs_mult. apply Rle_trans with (2 := Hbx).
      rewrite <- (Rmult_1_r (Rabs (FR x))) at 2.
      apply Rmult_le_compat_l; [apply Rabs_pos | exact Hp1]. }
    assert (Hr := rnd_abs_le _ _ (fmt_mB _ Hm) Hs).
    assert (Hlt : Rabs (rnd (FR x * FR p)) < bpow radix2 emax).
    { apply Rle_lt_trans with (1 := Hr). apply mB_lt_emax. exact Hm. }
    destruct (mul_ok x p Hx Hp Hlt) as [Hf Heq].
    split; [exact Hf | rewrite Heq; exact Hr].
  Qed.
End Bnd.

(** ** The inner loops of [vrec] at [FNum], abstracted over the recursive call *)

Section InnerLoopsF.
  Context (rec : node -> float -> float -> float -> pstate -> float * pstate).

  Definition fpick (pc p1 p2 : float) (st : pstate) :=
    fix pick (ks : list node) (k : nat) {struct ks} : float * pstate :=
      match ks with
      | [] => (0%float, st)
      | c :: r =>
          match k with
          | O => let (pay, st') := rec c (pc * 1)%float p1 p2 st in ((0 + 1 * pay)%float, st')
          | S k' => pick r k'
          end
      end.

  Definition fgo_chance (pc p1 p2 : float) :=
    fix go (ps : list float) (ks : list node) (expected : float) (st : pstate) {struct ks}
      : float * pstate :=
      match ps, ks with
      | p :: ps', c :: ks' =>
          let (pay, st') := rec c (pc * p)%float p1 p2 st in
          go ps' ks' (expected + p * pay)%float st'
      | _, _ => (expected, st)
      end.

  Definition fgo_player (pl : bool) (i : nat) (pc p1 p2 mult : float) :=
    fix go (ks : list node) (ss : list float) (ai : nat) (e1 e : float) (st : pstate)
           {struct ks} : float * float * pstate :=
      match ks, ss with
      | c :: ks', prob :: ss' =>
          let '(q1, q2) := if pl then ((p1 * prob)%float, p2) else (p1, (p2 * prob)%float) in
          let (util_one, st') := rec c pc q1 q2 st in
          let util := (util_one * mult)%float in
          let ri' := @ri_get FNum st' pl i in
          let cr := cum_regret ri' in
          let st'' := @ri_set FNum st' pl i
                             (@mkRinfo FNum (upd cr ai (nth ai cr 0 + util)%float)
                                      (cum_strat ri') (strat ri')) in
          go ks' ss' (S ai) (e1 + prob * util_one)%float (e + util * prob)%float st''
      | _, _ => (e1, e, st)
      end.
End InnerLoopsF.

Lemma fvrec_Term chance sampled draw pass x pc p1 p2 st :
  @vrec FNum chance sampled draw pass (Term x) pc p1 p2 st = (x, st).
Proof. reflexivity. Qed.

Lemma fvrec_Chance chance sampled draw pass ci kids pc p1 p2 st :
  @vrec FNum chance sampled draw pass (Chance ci kids) pc p1 p2 st =
  if sampled
  then fpick (@vrec FNum chance sampled draw pass) pc p1 p2 st kids
             (draw true ci pass (@row FNum chance ci))
  else fgo_chance (@vrec FNum chance sampled draw pass) pc p1 p2 (@row FNum chance ci) kids
                  0%float st.
Proof. reflexivity. Qed.

Lemma fvrec_Player chance sampled draw pass pl i kids pc p1 p2 st :
  @vrec FNum chance sampled draw pass (Player pl i kids) pc p1 p2 st =
  let ri := @ri_get FNum st pl i in
  let mine := if pl then p1 else p2 in
  let cs := map (fun vc : float * float => (snd vc + mine * fst vc)%float)
                (combine (strat ri) (cum_strat ri)) in
  let st0 := @ri_set FNum st pl i (@mkRinfo FNum (cum_regret ri) cs (strat ri)) in
  let mult := if pl then (pc * p2)%float else (- p1 * pc)%float in
  let '(e1, e, st2) := fgo_player (@vrec FNum chance sampled draw pass) pl i pc p1 p2 mult
                                  kids (strat ri) O 0%float 0%float st0 in
  let ri2 := @ri_get FNum st2 pl i in
  (e1, @ri_set FNum st2 pl i (@mkRinfo FNum (map (fun v => (v - e)%float) (cum_regret ri2))
                                      (cum_strat ri2) (strat ri2))).
Proof. reflexivity. Qed.

(** ** Tree constants *)

(** total regret increment a traversal can add to one cell, in units of [2^e]:
    every decision node adds at most [leaves(child)] to a cell (the action's utility)
    and subtracts the node's expected utility, at most [leaves(node)] *)
Fixpoint rcount (n : node) : nat :=
  match n with
  | Term _ => O
  | Chance _ kids => list_sum (map rcount kids)
  | Player _ _ kids => (list_sum (map rcount kids) + 2 * list_sum (map nleaves kids))%nat
  end.

(** number of decision nodes: every visit adds at most 1 to a cumulative-strategy cell *)
Fixpoint scount (n : node) : nat :=
  match n with
  | Term _ => O
  | Chance _ kids => list_sum (map scount kids)
  | Player _ _ kids => S (list_sum (map scount kids))
  end.

Local Notation LS ks := (list_sum (map nleaves ks)).
Local Notation RS ks := (list_sum (map rcount ks)).
Local Notation SS ks := (list_sum (map scount ks)).

(** ** Generic list facts *)

Lemma Forall_upd : forall (A : Type) (P : A -> Prop) (l : list A) (i : nat) (v : A),
  Forall P l -> P v -> Forall P (upd l i v).
Proof.
  intros A P l i v Hl Hv. revert i.
  induction Hl as [|x l Hx Hl IH]; intros i; destruct i; cbn [upd]; constructor; auto.
Qed.

Lemma Forall_nth_d : forall (A : Type) (P : A -> Prop) (l : list A) (i : nat) (d : A),
  Forall P l -> P d -> P (nth i l d).
Proof.
  intros A P l i d Hl Hd. revert i.
  induction Hl as [|x l Hx Hl IH]; intros i; destruct i; cbn [nth]; auto.
Qed.

Lemma upd_length' : forall (A : Type) (l : list A) (i : nat) (v : A), length (upd l i v) = length l.
Proof.
  intros A l. induction l as [|x l IH]; intros i v; destruct i; cbn [upd length]; auto.
Qed.

(** ** The state invariant *)

Definition small (l : list float) : Prop := (Z.of_nat (length l) < 2 ^ 53)%Z.

(** a cumulative-strategy cell: finite, non-negative, at most [ms] *)
Definition cs_ok (ms : nat) (x : float) : Prop := Ffin x /\ 0 <= FR x <= IZR (Z.of_nat ms).

Lemma cs_ok_weaken : forall ms ms' x, cs_ok ms x -> (ms <= ms')%nat -> cs_ok ms' x.
Proof.
  intros ms ms' x [Hf [H0 H1]] Hm. split; [exact Hf|]. split; [exact H0|].
  apply Rle_trans with (1 := H1). apply IZR_le. lia.
Qed.

Lemma cs_ok_finnn : forall ms x, cs_ok ms x -> finnn x.
Proof. intros ms x [Hf [H0 _]]. split; assumption. Qed.

Lemma cs_ok_add : forall ms x y, cs_ok ms x -> fin01 y -> (Z.of_nat ms + 1 < 2 ^ 53)%Z ->
  cs_ok (S ms) (x + y)%float.
Proof.
  intros ms x y [Hx Hx01] Hy Hm.
  destruct (add_step x y (Z.of_nat ms) Hx Hy Hx01 ltac:(lia) Hm) as [Hf [_ [H1 [_ H3]]]].
  split; [exact Hf|]. split; [lra|]. rewrite Nat2Z.inj_succ. exact H3.
Qed.

Section Traversal.
  Context (e : Z) (He : (-1074 <= e)%Z).
  Context (Mx : nat) (HMx : (Z.of_nat Mx < 2 ^ 53)%Z).
  Context (Hov : INR Mx * bpow radix2 e < bpow radix2 emax).
  Context (Ms : nat) (HMs : (Z.of_nat Ms < 2 ^ 53)%Z).

  Local Notation bnd := (bnd e).

  (** one infoset: the strategy row is a row of probabilities, every cumulative regret is
      finite of magnitude at most [mr * 2^e], every cumulative strategy entry is finite
      in [0, ms] *)
  Definition RiOK (mr ms : nat) (ri : rinfo) : Prop :=
    Forall fin01 (strat ri) /\ Forall (bnd mr) (cum_regret ri) /\
    Forall (cs_ok ms) (cum_strat ri) /\ small (cum_regret ri) /\ small (cum_strat ri).

  Definition StOK (mr ms : nat) (st : pstate) : Prop :=
    Forall (RiOK mr ms) (fst st) /\ Forall (RiOK mr ms) (snd st).

  Lemma RiOK_default : forall mr ms, RiOK mr ms (@mkRinfo FNum [] [] []).
  Proof.
    intros mr ms. unfold RiOK, small. cbn [strat cum_regret cum_strat length].
    repeat split; try constructor.
  Qed.

  Lemma RiOK_weaken : forall mr ms mr' ms' ri,
    RiOK mr ms ri -> (mr <= mr')%nat -> (ms <= ms')%nat -> RiOK mr' ms' ri.
  Proof.
    intros mr ms mr' ms' ri (H1 & H2 & H3 & H4 & H5) Hr Hs.
    split; [exact H1|]. split; [|split; [|split; assumption]].
    - apply Forall_impl with (2 := H2). intros x Hx. apply (bnd_weaken e mr mr' x Hx Hr).
    - apply Forall_impl with (2 := H3). intros x Hx. apply (cs_ok_weaken ms ms' x Hx Hs).
  Qed.

  Lemma StOK_weaken : forall mr ms mr' ms' st,
    StOK mr ms st -> (mr <= mr')%nat -> (ms <= ms')%nat -> StOK mr' ms' st.
  Proof.
    intros mr ms mr' ms' st [H1 H2] Hr Hs.
    split; [apply Forall_impl with (2 := H1) | apply Forall_impl with (2 := H2)];
      intros ri Hri; apply (RiOK_weaken mr ms mr' ms' ri Hri Hr Hs).
  Qed.

  Lemma StOK_get : forall mr ms st pl i, StOK mr ms st -> RiOK mr ms (@ri_get FNum st pl i).
  Proof.
    intros mr ms st pl i [H1 H2]. unfold ri_get, ps_get.
    destruct pl; apply Forall_nth_d; try assumption; apply RiOK_default.
  Qed.

  Lemma StOK_set : forall mr ms st pl i ri,
    StOK mr ms st -> RiOK mr ms ri -> StOK mr ms (@ri_set FNum st pl i ri).
  Proof.
    intros mr ms st pl i ri [H1 H2] Hri. unfold ri_set, ps_set, ps_get, StOK.
    destruct pl; cbn [fst snd]; split; try assumption; apply Forall_upd; assumption.
  Qed.

  (** *** the three writes *)

  (** [cum_strat += mine * strat] *)
  Lemma RiOK_cum_strat : forall mr ms ri mine,
    RiOK mr ms ri -> fin01 mine -> (S ms <= Ms)%nat ->
    RiOK mr (S ms)
         (@mkRinfo FNum (cum_regret ri)
            (map (fun vc : float * float => (snd vc + mine * fst vc)%float)
                 (combine (strat ri) (cum_strat ri)))
            (strat ri)).
  Proof.
    clear He Mx HMx Hov.
    intros mr ms ri mine (H1 & H2 & H3 & H4 & H5) Hmine Hm.
    unfold RiOK. cbn [strat cum_regret cum_strat].
    split; [exact H1|]. split; [exact H2|]. split; [|split; [exact H4|]].
    - apply Forall_forall. intros y Hy.
      apply in_map_iff in Hy. destruct Hy as [[s c] [Hy Hin]]. subst y. cbn [fst snd].
      rewrite Forall_forall in H1, H3.
      assert (Hs := H1 s (in_combine_l _ _ _ _ Hin)).
      assert (Hc := H3 c (in_combine_r _ _ _ _ Hin)).
      apply cs_ok_add; [exact Hc | apply (mul_reach mine s Hmine Hs) | lia].
    - unfold small in H4, H5 |- *. rewrite map_length, combine_length.
      assert (Hle := Nat.le_min_r (length (strat ri)) (length (cum_strat ri))).
      apply Nat2Z.inj_le in Hle. apply Z.le_lt_trans with (1 := Hle). exact H5.
  Qed.

  (** [cum_regret[ai] += util] *)
  Lemma RiOK_reg_add : forall mr ms ri ai util m,
    RiOK mr ms ri -> bnd m util -> (mr + m <= Mx)%nat ->
    RiOK (mr + m) ms
         (@mkRinfo FNum (upd (cum_regret ri) ai (nth ai (cum_regret ri) 0 + util)%float)
                   (cum_strat ri) (strat ri)).
  Proof.
    clear Ms HMs.
    intros mr ms ri ai util m (H1 & H2 & H3 & H4 & H5) Hu Hm.
    unfold RiOK. cbn [strat cum_regret cum_strat].
    split; [exact H1|]. split; [|split; [exact H3|split; [|exact H5]]].
    - apply Forall_upd.
      + apply Forall_impl with (2 := H2). intros x Hx. apply (bnd_weaken e mr _ x Hx). lia.
      + apply (bnd_add e He Mx HMx Hov); [|exact Hu|exact Hm].
        apply Forall_nth_d; [exact H2 | apply bnd_zero].
    - unfold small in H4, H5 |- *. rewrite upd_length'. exact H4.
  Qed.

  (** every cell of [cum_regret] [-= x] *)
  Lemma RiOK_reg_sub : forall mr ms ri x m,
    RiOK mr ms ri -> bnd m x -> (mr + m <= Mx)%nat ->
    RiOK (mr + m) ms
         (@mkRinfo FNum (map (fun v => (v - x)%float) (cum_regret ri)) (cum_strat ri) (strat ri)).
  Proof.
    clear Ms HMs.
    intros mr ms ri x m (H1 & H2 & H3 & H4 & H5) Hx Hm.
    unfold RiOK. cbn [strat cum_regret cum_strat].
    split; [exact H1|]. split; [|split; [exact H3|split; [|exact H5]]].
    - apply Forall_forall. intros y Hy. apply in_map_iff in Hy. destruct Hy as [v [Hy Hin]].
      subst y. rewrite Forall_forall in H2.
      apply (bnd_sub e He Mx HMx Hov); [apply H2; exact Hin | exact Hx | exact Hm].
    - unfold small in H4, H5 |- *. rewrite map_length. exact H4.
  Qed.
End Traversal.

(** ** 1. The traversal *)

Section Vrec.
  Context (e : Z) (He : (-1074 <= e)%Z).
  Context (Mx : nat) (HMx : (Z.of_nat Mx < 2 ^ 53)%Z).
  Context (Hov : INR Mx * bpow radix2 e < bpow radix2 emax).
  Context (Ms : nat) (HMs : (Z.of_nat Ms < 2 ^ 53)%Z).

  Local Notation bnd := (bnd e).
  Local Notation StOK := (StOK e).
  Local Notation RiOK := (RiOK e).

  (** what a traversal of subtree [c] does: the value is finite with magnitude at most
      [leaves(c) * 2^e]; every cumulative regret moves by at most [rcount c * 2^e], every
      cumulative strategy entry by at most [scount c]; all of them stay finite *)
  Definition VPf (rec : node -> float -> float -> float -> pstate -> float * pstate)
             (c : node) : Prop :=
    forall pc p1 p2 st mr ms,
      fin01 pc -> fin01 p1 -> fin01 p2 -> StOK mr ms st ->
      (nleaves c <= Mx)%nat -> (mr + rcount c <= Mx)%nat -> (ms + scount c <= Ms)%nat ->
      bnd (nleaves c) (fst (rec c pc p1 p2 st)) /\
      StOK (mr + rcount c) (ms + scount c) (snd (rec c pc p1 p2 st)).

  Context (rec : node -> float -> float -> float -> pstate -> float * pstate).

  Lemma fpick_ok : forall pc p1 p2 st mr ms ks k,
    Forall (VPf rec) ks ->
    fin01 pc -> fin01 p1 -> fin01 p2 -> StOK mr ms st ->
    (LS ks <= Mx)%nat -> (mr + RS ks <= Mx)%nat -> (ms + SS ks <= Ms)%nat ->
    bnd (LS ks) (fst (fpick rec pc p1 p2 st ks k)) /\
    StOK (mr + RS ks) (ms + SS ks) (snd (fpick rec pc p1 p2 st ks k)).
  Proof.
    intros pc p1 p2 st mr ms ks k HK Hpc Hp1 Hp2 Hst. revert k.
    induction HK as [|c ks Hc HK IH]; intros k HL HR HS; cbn [fpick].
    - cbn [fst snd]. split; [apply bnd_zero|]. apply (StOK_weaken e mr ms); [exact Hst | lia | lia].
    - cbn [map list_sum fold_right] in HL, HR, HS |- *.
      fold (LS ks) in HL |- *. fold (RS ks) in HR |- *. fold (SS ks) in HS |- *.
      destruct k as [|k].
      + assert (Hpc' : fin01 (pc * 1)%float) by (apply mul_reach; [exact Hpc | apply fin01_one]).
        pose proof (Hc (pc * 1)%float p1 p2 st mr ms Hpc' Hp1 Hp2 Hst ltac:(lia) ltac:(lia) ltac:(lia))
          as [Hv Hs].
        destruct (rec c (pc * 1)%float p1 p2 st) as [pay st']. cbn [fst snd] in Hv, Hs |- *.
        split.
        * apply (bnd_weaken e (0 + nleaves c)); [|lia].
          apply (bnd_add e He Mx HMx Hov); [apply bnd_zero | | lia].
          apply (bnd_mul_l e He Mx HMx Hov); [apply fin01_fin11, fin01_one | exact Hv | lia].
        * apply (StOK_weaken e _ _ _ _ _ Hs); lia.
      + destruct (IH k ltac:(lia) ltac:(lia) ltac:(lia)) as [Hv Hs].
        split; [apply (bnd_weaken e _ _ _ Hv); lia | apply (StOK_weaken e _ _ _ _ _ Hs); lia].
  Qed.

  Lemma fgo_chance_ok : forall pc p1 p2 ks,
    Forall (VPf rec) ks -> fin01 pc -> fin01 p1 -> fin01 p2 ->
    forall ps ex st a mr ms,
    Forall fin01 ps -> bnd a ex -> StOK mr ms st ->
    (a + LS ks <= Mx)%nat -> (mr + RS ks <= Mx)%nat -> (ms + SS ks <= Ms)%nat ->
    bnd (a + LS ks) (fst (fgo_chance rec pc p1 p2 ps ks ex st)) /\
    StOK (mr + RS ks) (ms + SS ks) (snd (fgo_chance rec pc p1 p2 ps ks ex st)).
  Proof.
    intros pc p1 p2 ks HK Hpc Hp1 Hp2.
    induction HK as [|c ks Hc HK IH]; intros ps ex st a mr ms Hps Hex Hst HL HR HS.
    - destruct ps; cbn [fgo_chance fst snd]; (split;
        [apply (bnd_weaken e _ _ _ Hex); lia | apply (StOK_weaken e _ _ _ _ _ Hst); lia]).
    - destruct ps as [|p ps].
      + cbn [fgo_chance fst snd]. split;
          [apply (bnd_weaken e _ _ _ Hex); lia | apply (StOK_weaken e _ _ _ _ _ Hst); lia].
      + inversion Hps as [|? ? Hp Hps']; subst.
        cbn [fgo_chance].
        cbn [map list_sum fold_right] in HL, HR, HS |- *.
        fold (LS ks) in HL |- *. fold (RS ks) in HR |- *. fold (SS ks) in HS |- *.
        assert (Hpc' : fin01 (pc * p)%float) by (apply mul_reach; assumption).
        pose proof (Hc (pc * p)%float p1 p2 st mr ms Hpc' Hp1 Hp2 Hst ltac:(lia) ltac:(lia) ltac:(lia))
          as [Hv Hs].
        destruct (rec c (pc * p)%float p1 p2 st) as [pay st']. cbn [fst snd] in Hv, Hs.
        assert (Hex' : bnd (a + nleaves c) (ex + p * pay)%float).
        { apply (bnd_add e He Mx HMx Hov); [exact Hex | | lia].
          apply (bnd_mul_l e He Mx HMx Hov); [apply fin01_fin11; exact Hp | exact Hv | lia]. }
        destruct (IH ps _ st' _ _ _ Hps' Hex' Hs ltac:(lia) ltac:(lia) ltac:(lia)) as [G1 G2].
        split; [apply (bnd_weaken e _ _ _ G1); lia | apply (StOK_weaken e _ _ _ _ _ G2); lia].
  Qed.

  Lemma fgo_player_ok : forall pl i pc p1 p2 mult ks,
    Forall (VPf rec) ks -> fin01 pc -> fin01 p1 -> fin01 p2 -> fin11 mult ->
    forall ss ai e1 ee st a1 a mr ms,
    Forall fin01 ss -> bnd a1 e1 -> bnd a ee -> StOK mr ms st ->
    (a1 + LS ks <= Mx)%nat -> (a + LS ks <= Mx)%nat ->
    (mr + RS ks + LS ks <= Mx)%nat -> (ms + SS ks <= Ms)%nat ->
    let r := fgo_player rec pl i pc p1 p2 mult ks ss ai e1 ee st in
    bnd (a1 + LS ks) (fst (fst r)) /\ bnd (a + LS ks) (snd (fst r)) /\
    StOK (mr + RS ks + LS ks) (ms + SS ks) (snd r).
  Proof.
    intros pl i pc p1 p2 mult ks HK Hpc Hp1 Hp2 Hmult.
    induction HK as [|c ks Hc HK IH]; intros ss ai e1 ee st a1 a mr ms Hss He1 Hee Hst HL1 HL HR HS r.
    - unfold r. destruct ss; cbn [fgo_player fst snd]; (split; [|split];
        [apply (bnd_weaken e _ _ _ He1); lia | apply (bnd_weaken e _ _ _ Hee); lia
        | apply (StOK_weaken e _ _ _ _ _ Hst); lia]).
    - destruct ss as [|prob ss].
      + unfold r. cbn [fgo_player fst snd]. split; [|split];
          [apply (bnd_weaken e _ _ _ He1); lia | apply (bnd_weaken e _ _ _ Hee); lia
          | apply (StOK_weaken e _ _ _ _ _ Hst); lia].
      + inversion Hss as [|? ? Hprob Hss']; subst.
        unfold r. cbn [fgo_player].
        cbn [map list_sum fold_right] in HL1, HL, HR, HS |- *.
        fold (LS ks) in HL1, HL, HR |- *. fold (RS ks) in HR |- *. fold (SS ks) in HS |- *.
        set (q := if pl then ((p1 * prob)%float, p2) else (p1, (p2 * prob)%float)).
        assert (Hq : fin01 (fst q) /\ fin01 (snd q)).
        { unfold q. destruct pl; cbn [fst snd]; split; try assumption; apply mul_reach; assumption. }
        destruct q as [q1 q2]. cbn [fst snd] in Hq. destruct Hq as [Hq1 Hq2].
        pose proof (Hc pc q1 q2 st mr ms Hpc Hq1 Hq2 Hst ltac:(lia) ltac:(lia) ltac:(lia))
          as [Hv Hs].
        destruct (rec c pc q1 q2 st) as [u st']. cbn [fst snd] in Hv, Hs. cbv zeta.
        assert (Hutil : bnd (nleaves c) (u * mult)%float).
        { apply (bnd_mul_r e He Mx HMx Hov); [exact Hv | exact Hmult | lia]. }
        assert (Hri := StOK_get e _ _ st' pl i Hs).
        assert (Hst'' : StOK (mr + rcount c + nleaves c) (ms + scount c)
                  (@ri_set FNum st' pl i
                     (@mkRinfo FNum
                        (upd (cum_regret (@ri_get FNum st' pl i)) ai
                             (nth ai (cum_regret (@ri_get FNum st' pl i)) 0 + u * mult)%float)
                        (cum_strat (@ri_get FNum st' pl i)) (strat (@ri_get FNum st' pl i))))).
        { apply StOK_set.
          - apply (StOK_weaken e _ _ _ _ _ Hs); lia.
          - apply (RiOK_reg_add e He Mx HMx Hov); [exact Hri | exact Hutil | lia]. }
        assert (He1' : bnd (a1 + nleaves c) (e1 + prob * u)%float).
        { apply (bnd_add e He Mx HMx Hov); [exact He1 | | lia].
          apply (bnd_mul_l e He Mx HMx Hov); [apply fin01_fin11; exact Hprob | exact Hv | lia]. }
        assert (Hee' : bnd (a + nleaves c) (ee + u * mult * prob)%float).
        { apply (bnd_add e He Mx HMx Hov); [exact Hee | | lia].
          apply (bnd_mul_r e He Mx HMx Hov); [exact Hutil | apply fin01_fin11; exact Hprob | lia]. }
        destruct (IH ss (S ai) _ _ _ _ _ _ _ Hss' He1' Hee' Hst''
                     ltac:(lia) ltac:(lia) ltac:(lia) ltac:(lia)) as [G1 [G2 G3]].
        split; [|split];
          [apply (bnd_weaken e _ _ _ G1); lia | apply (bnd_weaken e _ _ _ G2); lia
          | apply (StOK_weaken e _ _ _ _ _ G3); lia].
  Qed.
End Vrec.

(** Item 1: every value returned by [vrec] is finite with [|value| <= leaves * 2^e]; every
    cumulative regret stays finite and moves by at most [rcount * 2^e]; every cumulative
    strategy entry stays finite, non-negative and moves by at most [scount]; the strategy
    rows stay rows of probabilities.  Unsampled and chance-sampled traversal, every oracle. *)
Theorem vrec_float_ok : forall (e : Z) (Mx Ms : nat),
  (-1074 <= e)%Z ->
  (Z.of_nat Mx < 2 ^ 53)%Z -> INR Mx * bpow radix2 e < bpow radix2 emax ->
  (Z.of_nat Ms < 2 ^ 53)%Z ->
  forall (chance : list (list float)) (sampled : bool) (draw : @oracle FNum) (pass : N),
  TblOK chance ->
  forall n : node, PayOK (bpow radix2 e) n ->
  VPf e Mx Ms (@vrec FNum chance sampled draw pass) n.
Proof.
  intros e Mx Ms He HMx Hov HMs chance sampled draw pass Hch.
  induction n as [x|ci kids IH|pl i kids IH] using node_ind'; intros Hpay.
  - inversion Hpay as [x' Hxf HxB| |]; subst.
    intros pc p1 p2 st mr ms Hpc Hp1 Hp2 Hst HL HR HS.
    rewrite fvrec_Term. cbn [fst snd nleaves rcount scount].
    split.
    + split; [exact Hxf|]. cbn [INR]. rewrite Rmult_1_l. exact HxB.
    + apply (StOK_weaken e _ _ _ _ _ Hst); lia.
  - inversion Hpay as [|ci' kids' Hkids|]; subst.
    assert (HK : Forall (VPf e Mx Ms (@vrec FNum chance sampled draw pass)) kids).
    { rewrite Forall_forall in IH, Hkids |- *. intros k Hk. apply IH; [exact Hk | apply Hkids; exact Hk]. }
    intros pc p1 p2 st mr ms Hpc Hp1 Hp2 Hst HL HR HS.
    rewrite fvrec_Chance. cbn [nleaves rcount scount] in HL, HR, HS |- *.
    destruct sampled.
    + apply (fpick_ok e He Mx HMx Hov Ms); assumption.
    + destruct (fgo_chance_ok e He Mx HMx Hov Ms _ pc p1 p2 kids HK Hpc Hp1 Hp2
                  (@row FNum chance ci) 0%float st O mr ms (row_fin01 chance ci Hch)
                  (bnd_zero e O) Hst ltac:(lia) HR HS) as [G1 G2].
      split; [exact G1 | exact G2].
  - inversion Hpay as [| |pl' i' kids' Hkids]; subst.
    assert (HK : Forall (VPf e Mx Ms (@vrec FNum chance sampled draw pass)) kids).
    { rewrite Forall_forall in IH, Hkids |- *. intros k Hk. apply IH; [exact Hk | apply Hkids; exact Hk]. }
    intros pc p1 p2 st mr ms Hpc Hp1 Hp2 Hst HL HR HS.
    rewrite fvrec_Player. cbv zeta.
    cbn [nleaves rcount scount] in HL, HR, HS |- *.
    set (ri := @ri_get FNum st pl i).
    assert (Hri : RiOK e mr ms ri) by (apply StOK_get; exact Hst).
    set (mine := if pl then p1 else p2).
    assert (Hmine : fin01 mine) by (unfold mine; destruct pl; assumption).
    set (mult := if pl then (pc * p2)%float else (- p1 * pc)%float).
    assert (Hmult : fin11 mult).
    { unfold mult. destruct pl.
      - apply fin01_fin11. apply mul_reach; assumption.
      - apply fin11_mul; [apply fin11_opp|]; apply fin01_fin11; assumption. }
    set (st0 := @ri_set FNum st pl i _).
    assert (Hst0 : StOK e mr (S ms) st0).
    { apply StOK_set.
      - apply (StOK_weaken e _ _ _ _ _ Hst); lia.
      - apply (RiOK_cum_strat e Ms HMs); [exact Hri | exact Hmine | lia]. }
    destruct Hri as [Hstrat _].
    destruct (fgo_player_ok e He Mx HMx Hov Ms _ pl i pc p1 p2 mult kids HK Hpc Hp1 Hp2 Hmult
                (strat ri) O 0%float 0%float st0 O O mr (S ms) Hstrat
                (bnd_zero e O) (bnd_zero e O) Hst0
                ltac:(lia) ltac:(lia) ltac:(lia) ltac:(lia)) as [G1 [G2 G3]].
    destruct (fgo_player _ _ _ _ _ _ _ _ _ _ _ _ _) as [[e1 ee] st2].
    cbn [fst snd] in G1, G2, G3 |- *.
    split; [exact G1|].
    apply (StOK_weaken e (mr + RS kids + LS kids + LS kids) (S ms + SS kids)); [|lia|lia].
    apply StOK_set.
    + apply (StOK_weaken e _ _ _ _ _ G3); lia.
    + apply (RiOK_reg_sub e He Mx HMx Hov); [apply StOK_get; exact G3 | exact G2 | lia].
Qed.

(** ** 2. [advance] for parameter sets whose discount factors are probabilities *)

Lemma advance_FNum : forall (p : @params FNum) (it ia : N) (ri : rinfo),
  @advance FNum p it ia ri =
  let cr := @discount_cum_regret FNum p it (cum_regret ri) in
  (@mkRinfo FNum cr (@discount_average_strat FNum p ia (cum_strat ri))
            (@regret_match FNum p (cum_regret ri)),
   @cum_regret_bound FNum it cr).
Proof. reflexivity. Qed.

Lemma discount_cum_regret_FNum : forall (p : @params FNum) (it : N) (cr : list float),
  @discount_cum_regret FNum p it cr =
  map (fun r => if PrimFloat.ltb 0 r then (r * @gen_discount FNum it (a_pos p))%float
                else if PrimFloat.ltb r 0 then (r * @gen_discount FNum it (a_neg p))%float
                else r) cr.
Proof. reflexivity. Qed.

(** regret matching never takes the softmax branch: the fallback is the uniform row
    ([Fin 0], vanilla) or a one-hot row ([+-inf]) *)
Definition nosoftmax (p : @params FNum) : Prop :=
  match a_nopos p with Fin w => PrimFloat.eqb w 0 = true | _ => True end.

(** the factor [ (t/(t+1))^gamma ] of the average-strategy discount is a probability *)
Definition strat_factor_ok (p : @params FNum) (ia : N) : Prop :=
  match a_strat p with
  | Fin gm => PrimFloat.ltb 0 gm = true ->
              fin01 (fpow (f_of_N ia / (f_of_N ia + 1))%float gm)
  | _ => True
  end.

(** all three discount factors of iteration [it] are finite numbers in [0,1] *)
Definition disc_ok (p : @params FNum) (it ia : N) : Prop :=
  fin01 (@gen_discount FNum it (a_pos p)) /\ fin01 (@gen_discount FNum it (a_neg p)) /\
  strat_factor_ok p ia.

Lemma cs_ok_mul : forall ms a r, cs_ok ms a -> fin01 r -> (Z.of_nat ms < 2 ^ 53)%Z ->
  cs_ok ms (a * r)%float.
Proof.
  intros ms a r [Ha [Ha0 Ha1]] [Hr [Hr0 Hr1]] Hms.
  assert (H0 : 0 <= FR a * FR r) by (apply Rmult_le_pos; assumption).
  assert (H1 : FR a * FR r <= IZR (Z.of_nat ms)).
  { apply Rle_trans with (2 := Ha1). rewrite <- (Rmult_1_r (FR a)) at 2.
    apply Rmult_le_compat_l; assumption. }
  assert (Hlo : 0 <= rnd (FR a * FR r)) by (apply rnd_ge_fmt; [apply fmt_0 | exact H0]).
  assert (Hup : rnd (FR a * FR r) <= IZR (Z.of_nat ms)).
  { apply rnd_le_fmt; [apply fmt_IZR; lia | exact H1]. }
  assert (Hlt : Rabs (rnd (FR a * FR r)) < bpow radix2 emax).
  { apply small_lt_emax. rewrite Rabs_pos_eq by exact Hlo.
    apply Rle_trans with (1 := Hup). apply IZR_le. lia. }
  destruct (mul_ok a r Ha Hr Hlt) as [Hf He].
  split; [exact Hf | rewrite He; split; assumption].
Qed.

Lemma discount_average_strat_ok : forall (p : @params FNum) (ia : N) (cs : list float) (ms : nat),
  strat_factor_ok p ia -> Forall (cs_ok ms) cs -> (Z.of_nat ms < 2 ^ 53)%Z ->
  Forall (cs_ok ms) (@discount_average_strat FNum p ia cs) /\
  length (@discount_average_strat FNum p ia cs) = length cs.
Proof.
  intros p ia cs ms Hsf Hcs Hms. unfold discount_average_strat, strat_factor_ok in *.
  destruct (a_strat p) as [|gm|].
  - split; [exact Hcs | reflexivity].
  - cbn [ltb zero FNum]. destruct (PrimFloat.ltb 0 gm) eqn:Hgm; [|split; [exact Hcs | reflexivity]].
    specialize (Hsf eq_refl). split; [|apply map_length].
    apply Forall_forall. intros y Hy. apply in_map_iff in Hy. destruct Hy as [a [Hy Hin]]. subst y.
    rewrite Forall_forall in Hcs.
    apply (cs_ok_mul ms a _ (Hcs a Hin) Hsf Hms).
  - split; [|apply map_length].
    apply Forall_forall. intros y Hy. apply in_map_iff in Hy. destruct Hy as [a [Hy Hin]]. subst y.
    split; [apply Ffin_zero|]. change (zero FNum) with 0%float. rewrite FR_zero.
    split; [lra | apply IZR_le; lia].
Qed.

Lemma cum_regret_bound_FNum : forall (it : N) (cr : list float),
  @cum_regret_bound FNum it cr =
  (2 * f_max (match cr with [] => 0%float | x :: r => fold_left f_max r x end) 0 / f_of_N it)%float.
Proof. intros it cr. destruct cr; reflexivity. Qed.

Lemma f_of_N_pos : forall it : N, (1 <= it)%N -> (Z.of_N it < 2 ^ 53)%Z ->
  Ffin (f_of_N it) /\ 1 <= FR (f_of_N it).
Proof.
  intros it H1 H2.
  assert (Hk : it = N.of_nat (N.to_nat it)) by (rewrite N2Nat.id; reflexivity).
  rewrite Hk.
  destruct (f_of_N_small (N.to_nat it)) as [Hf Hv].
  { rewrite N_nat_Z. exact H2. }
  split; [exact Hf|]. rewrite Hv. change 1 with (INR 1). apply le_INR. lia.
Qed.

Section Advance.
  Context (e : Z) (He : (-1074 <= e)%Z).
  Context (Mx : nat) (HMx : (Z.of_nat Mx < 2 ^ 53)%Z).
  Context (Hov : INR Mx * bpow radix2 e < bpow radix2 emax).

  Local Notation bnd := (bnd e).
  Local Notation StOK := (StOK e).
  Local Notation RiOK := (RiOK e).

  (** finite, non-negative, at most [m * 2^e] *)
  Definition bnn (m : nat) (x : float) : Prop := bnd m x /\ 0 <= FR x.

  Lemma bnn_finnn : forall m x, bnn m x -> finnn x.
  Proof. intros m x [[Hf _] H0]. split; assumption. Qed.

  Lemma bnn_zero : forall m, bnn m 0%float.
  Proof. intros m. split; [apply bnd_zero | rewrite FR_zero; lra]. Qed.

  Lemma bnn_add : forall m1 m2 x y, bnn m1 x -> bnn m2 y -> (m1 + m2 <= Mx)%nat ->
    bnn (m1 + m2) (x + y)%float.
  Proof.
    intros m1 m2 x y [Hx Hx0] [Hy Hy0] Hm.
    assert (Hb := bnd_add e He Mx HMx Hov m1 m2 x y Hx Hy Hm).
    split; [exact Hb|].
    destruct (add_nn x y (conj (proj1 Hx) Hx0) (conj (proj1 Hy) Hy0)) as [[_ [_ [H1 _]]]|Hi].
    - lra.
    - exfalso. exact (Fpinf_not_fin _ Hi (proj1 Hb)).
  Qed.

  Lemma crb_ok : forall (it : N) (cr : list float) (mr : nat),
    Forall (bnd mr) cr -> (2 * mr <= Mx)%nat -> (1 <= it)%N -> (Z.of_N it < 2 ^ 53)%Z ->
    bnn (2 * mr) (@cum_regret_bound FNum it cr).
  Proof.
    intros it cr mr Hcr Hm Hit1 Hit2. rewrite cum_regret_bound_FNum.
    set (m := match cr with [] => 0%float | x :: r => fold_left f_max r x end).
    assert (Hmb : bnd mr m).
    { unfold m. destruct cr as [|x r]; [apply bnd_zero|].
      inversion Hcr as [|? ? Hx Hr]; subst.
      assert (HrF : Forall Ffin r) by (apply Forall_impl with (2 := Hr); intros a Ha; apply Ha).
      destruct (fold_fmax r x HrF (proj1 Hx)) as [_ [_ [_ [Heq|Hin]]]].
      - rewrite Heq. exact Hx.
      - rewrite Forall_forall in Hr. apply Hr. exact Hin. }
    destruct (fmax_fin m 0%float (proj1 Hmb) Ffin_zero) as [Hf [_ [H0 Hc]]].
    rewrite FR_zero in H0.
    set (y := f_max m 0) in *.
    assert (Hyb : bnd mr y).
    { destruct Hc as [Hc|Hc]; rewrite Hc; [exact Hmb | apply bnd_zero]. }
    (* 2 * y *)
    destruct FR_two as [H2f H2e].
    assert (H2y : Rabs (FR 2%float * FR y) <= INR (2 * mr) * bpow radix2 e).
    { rewrite H2e, Rabs_mult, (Rabs_pos_eq 2) by lra. rewrite mult_INR. cbn [INR].
      destruct Hyb as [_ Hyb]. lra. }
    assert (Hr2 := rnd_abs_le _ _ (fmt_mB e He Mx HMx _ Hm) H2y).
    assert (Hlt2 : Rabs (rnd (FR 2%float * FR y)) < bpow radix2 emax).
    { apply Rle_lt_trans with (1 := Hr2). apply (mB_lt_emax e Mx Hov). exact Hm. }
    destruct (mul_ok 2%float y H2f Hf Hlt2) as [Hzf Hze].
    set (z := (2 * y)%float) in *.
    assert (Hz0 : 0 <= FR z).
    { rewrite Hze. apply rnd_ge_fmt; [apply fmt_0|]. rewrite H2e. lra. }
    (* / it *)
    destruct (f_of_N_pos it Hit1 Hit2) as [Hnf Hn1].
    set (d := f_of_N it) in *.
    assert (Hq0 : 0 <= FR z / FR d).
    { apply Rmult_le_pos; [exact Hz0 | left; apply Rinv_0_lt_compat; lra]. }
    assert (Hq1 : FR z / FR d <= FR z).
    { apply Rmult_le_reg_r with (FR d); [lra|].
      unfold Rdiv. rewrite Rmult_assoc, Rinv_l, Rmult_1_r by lra. nra. }
    assert (Hqb : Rabs (FR z / FR d) <= INR (2 * mr) * bpow radix2 e).
    { rewrite Rabs_pos_eq by exact Hq0. apply Rle_trans with (1 := Hq1).
      rewrite Hze. rewrite <- (Rabs_pos_eq (rnd _)); [exact Hr2 | rewrite <- Hze; exact Hz0]. }
    assert (Hr3 := rnd_abs_le _ _ (fmt_mB e He Mx HMx _ Hm) Hqb).
    assert (Hlt3 : Rabs (rnd (FR z / FR d)) < bpow radix2 emax).
    { apply Rle_lt_trans with (1 := Hr3). apply (mB_lt_emax e Mx Hov). exact Hm. }
    destruct (div_ok z d Hzf ltac:(lra) Hlt3) as [Hwf Hwe].
    split; [split; [exact Hwf | rewrite Hwe; exact Hr3]|].
    rewrite Hwe. apply rnd_ge_fmt; [apply fmt_0 | exact Hq0].
  Qed.

  (** [advance]: the new row is a row of probabilities, the regrets do not grow, the
      cumulative strategy does not grow, the bound contribution is finite and non-negative *)
  Lemma advance_ok : forall (p : @params FNum) (it ia : N) (ri : rinfo) (mr ms : nat),
    nosoftmax p -> disc_ok p it ia ->
    RiOK mr ms ri -> (2 * mr <= Mx)%nat -> (Z.of_nat ms < 2 ^ 53)%Z ->
    (1 <= it)%N -> (Z.of_N it < 2 ^ 53)%Z ->
    RiOK mr ms (fst (@advance FNum p it ia ri)) /\
    bnn (2 * mr) (snd (@advance FNum p it ia ri)).
  Proof.
    intros p it ia ri mr ms Hns (Hpos & Hneg & Hsf) (H1 & H2 & H3 & H4 & H5) Hm Hms Hit1 Hit2.
    rewrite advance_FNum. cbv zeta. cbn [fst snd].
    set (cr := @discount_cum_regret FNum p it (cum_regret ri)).
    assert (Hcr : Forall (bnd mr) cr).
    { unfold cr. rewrite discount_cum_regret_FNum.
      apply Forall_forall. intros y Hy. apply in_map_iff in Hy.
      destruct Hy as [r [Hy Hin]]. subst y. rewrite Forall_forall in H2.
      assert (Hr := H2 r Hin).
      assert (Hr1 : bnd mr (r * @gen_discount FNum it (a_pos p))%float).
      { apply (bnd_mul_r e He Mx HMx Hov); [exact Hr | apply fin01_fin11; exact Hpos | lia]. }
      assert (Hr2 : bnd mr (r * @gen_discount FNum it (a_neg p))%float).
      { apply (bnd_mul_r e He Mx HMx Hov); [exact Hr | apply fin01_fin11; exact Hneg | lia]. }
      destruct (PrimFloat.ltb 0 r); [exact Hr1|]. destruct (PrimFloat.ltb r 0); assumption. }
    destruct (discount_average_strat_ok p ia (cum_strat ri) ms Hsf H3 Hms) as [Hcs Hcsl].
    split; [|apply crb_ok; assumption].
    unfold RiOK. cbn [strat cum_regret cum_strat].
    split; [|split; [exact Hcr|split; [exact Hcs|split]]].
    - apply regret_match_float_valid.
      + apply Forall_impl with (2 := H2). intros a Ha. apply Ha.
      + exact H4.
      + right. exact Hns.
    - unfold small in H4 |- *. unfold cr. rewrite discount_cum_regret_FNum, map_length. exact H4.
    - unfold small in H5 |- *.
      exact (eq_ind_r (fun n : nat => (Z.of_nat n < 2 ^ 53)%Z) H5 Hcsl).
  Qed.

  Lemma advance_all_ok : forall (p : @params FNum) (it ia : N) (l : list rinfo) (acc : float)
                                (a mr ms : nat),
    nosoftmax p -> disc_ok p it ia ->
    Forall (RiOK mr ms) l -> bnn a acc ->
    (a + length l * (2 * mr) <= Mx)%nat -> (2 * mr <= Mx)%nat -> (Z.of_nat ms < 2 ^ 53)%Z ->
    (1 <= it)%N -> (Z.of_N it < 2 ^ 53)%Z ->
    Forall (RiOK mr ms) (fst (@advance_all FNum p it ia l acc)) /\
    length (fst (@advance_all FNum p it ia l acc)) = length l /\
    bnn (a + length l * (2 * mr)) (snd (@advance_all FNum p it ia l acc)).
  Proof.
    intros p it ia l. induction l as [|ri l IH];
      intros acc a mr ms Hns Hd Hl Hacc Ha Hm Hms Hit1 Hit2.
    - cbn [advance_all fst snd length]. split; [constructor|]. split; [reflexivity|].
      replace (a + 0 * (2 * mr))%nat with a by lia. exact Hacc.
    - inversion Hl as [|? ? Hri Hl']; subst.
      cbn [advance_all]. cbn [length] in Ha |- *.
      destruct (advance_ok p it ia ri mr ms Hns Hd Hri Hm Hms Hit1 Hit2) as [G1 G2].
      destruct (@advance FNum p it ia ri) as [ri' b]. cbn [fst snd] in G1, G2.
      assert (Hacc' : bnn (a + 2 * mr) (acc + b)%float) by (apply bnn_add; [exact Hacc | exact G2 | lia]).
      destruct (IH (acc + b)%float (a + 2 * mr)%nat mr ms Hns Hd Hl' Hacc' ltac:(lia) Hm Hms Hit1 Hit2)
        as [K1 [K2 K3]].
      change (add FNum acc b) with (acc + b)%float.
      destruct (@advance_all FNum p it ia l (acc + b)%float) as [r' acc''].
      cbn [fst snd] in K1, K2, K3 |- *.
      split; [constructor; assumption|]. split; [cbn [length]; rewrite K2; reflexivity|].
      replace (a + S (length l) * (2 * mr))%nat with (a + 2 * mr + length l * (2 * mr))%nat by lia.
      exact K3.
  Qed.
End Advance.

(** ** The traversal keeps the number of infosets *)

Definition lens2 (st : pstate) : nat * nat := (length (fst st), length (snd st)).

Lemma ri_set_lens2 : forall (st : pstate) pl i ri, lens2 (@ri_set FNum st pl i ri) = lens2 st.
Proof.
  intros [l1 l2] pl i ri. unfold lens2, ri_set, ps_set, ps_get.
  destruct pl; cbn [fst snd]; rewrite upd_length'; reflexivity.
Qed.

Section VrecLen.
  Definition LPf (rec : node -> float -> float -> float -> pstate -> float * pstate)
             (c : node) : Prop :=
    forall pc p1 p2 st, lens2 (snd (rec c pc p1 p2 st)) = lens2 st.

  Context (rec : node -> float -> float -> float -> pstate -> float * pstate).

  Lemma fpick_len : forall pc p1 p2 st ks k,
    Forall (LPf rec) ks -> lens2 (snd (fpick rec pc p1 p2 st ks k)) = lens2 st.
  Proof.
    intros pc p1 p2 st ks k HK. revert k.
    induction HK as [|c ks Hc HK IH]; intros k; cbn [fpick]; [reflexivity|].
    destruct k as [|k]; [|apply IH].
    pose proof (Hc (pc * 1)%float p1 p2 st) as H.
    destruct (rec c (pc * 1)%float p1 p2 st) as [pay st']. exact H.
  Qed.

  Lemma fgo_chance_len : forall pc p1 p2 ks,
    Forall (LPf rec) ks -> forall ps ex st,
    lens2 (snd (fgo_chance rec pc p1 p2 ps ks ex st)) = lens2 st.
  Proof.
    intros pc p1 p2 ks HK.
    induction HK as [|c ks Hc HK IH]; intros ps ex st; destruct ps as [|p ps];
      cbn [fgo_chance]; try reflexivity.
    pose proof (Hc (pc * p)%float p1 p2 st) as H.
    destruct (rec c (pc * p)%float p1 p2 st) as [pay st']. cbn [snd] in H.
    rewrite IH. exact H.
  Qed.

  Lemma fgo_player_len : forall pl i pc p1 p2 mult ks,
    Forall (LPf rec) ks -> forall ss ai e1 ee st,
    lens2 (snd (fgo_player rec pl i pc p1 p2 mult ks ss ai e1 ee st)) = lens2 st.
  Proof.
    intros pl i pc p1 p2 mult ks HK.
    induction HK as [|c ks Hc HK IH]; intros ss ai e1 ee st; destruct ss as [|prob ss];
      cbn [fgo_player]; try reflexivity.
    set (q := if pl then ((p1 * prob)%float, p2) else (p1, (p2 * prob)%float)).
    destruct q as [q1 q2].
    pose proof (Hc pc q1 q2 st) as H.
    destruct (rec c pc q1 q2 st) as [u st']. cbn [snd] in H. cbv zeta.
    rewrite IH, ri_set_lens2. exact H.
  Qed.
End VrecLen.

Lemma vrec_float_len : forall chance sampled draw pass (n : node),
  LPf (@vrec FNum chance sampled draw pass) n.
Proof.
  intros chance sampled draw pass.
  induction n as [x|ci kids IH|pl i kids IH] using node_ind'; intros pc p1 p2 st.
  - reflexivity.
  - rewrite fvrec_Chance. destruct sampled; [apply fpick_len | apply fgo_chance_len]; exact IH.
  - rewrite fvrec_Player. cbv zeta.
    set (st0 := @ri_set FNum st pl i _).
    pose proof (fgo_player_len (@vrec FNum chance sampled draw pass) pl i pc p1 p2
                  (if pl then (pc * p2)%float else (- p1 * pc)%float) kids IH
                  (strat (@ri_get FNum st pl i)) O 0%float 0%float st0) as H.
    destruct (fgo_player _ _ _ _ _ _ _ _ _ _ _ _ _) as [[e1 ee] st2]. cbn [snd] in H |- *.
    rewrite ri_set_lens2, H. unfold st0. apply ri_set_lens2.
Qed.

(** ** One iteration, the loop, and [solve_single] *)

Lemma vanilla_iter_F_eq : forall (g : game) sampled draw p it st,
  @vanilla_iter FNum g sampled draw p it st =
  let st1 := snd (@vrec FNum (g_chance g) sampled draw (it - 1)%N (g_root g)
                        1%float 1%float 1%float st) in
  let A1 := @advance_all FNum p it it (fst st1) 0%float in
  let A2 := @advance_all FNum p it it (snd st1) 0%float in
  ((fst A1, fst A2), (snd A1, snd A2)).
Proof.
  intros g sampled draw p it st. unfold vanilla_iter. cbn [one zero FNum].
  destruct (vrec _ _ _ _ _ _ _ _ _) as [x st1]. cbn [snd].
  destruct (advance_all p it it (fst st1) 0%float), (advance_all p it it (snd st1) 0%float).
  reflexivity.
Qed.

Lemma repeatT_length_F : forall (x : float) n, length (@repeatT FNum x n) = n.
Proof. intros x n. induction n as [|n IH]; cbn [repeatT length]; [reflexivity | rewrite IH; reflexivity]. Qed.

Lemma Forall_concat_map : forall (A B : Type) (P : B -> Prop) (f : A -> list B) (l : list A),
  (forall a, In a l -> Forall P (f a)) -> Forall P (concat (map f l)).
Proof.
  intros A B P f l. induction l as [|a l IH]; intros H; cbn [map concat]; [constructor|].
  apply Forall_app. split; [apply H; left; reflexivity | apply IH; intros b Hb; apply H; right; exact Hb].
Qed.

Section Iter.
  Context (e : Z) (He : (-1074 <= e)%Z).
  Context (Mx : nat) (HMx : (Z.of_nat Mx < 2 ^ 53)%Z).
  Context (Hov : INR Mx * bpow radix2 e < bpow radix2 emax).
  Context (Ms : nat) (HMs : (Z.of_nat Ms < 2 ^ 53)%Z).
  Context (g : game) (Hch : TblOK (g_chance g)) (Hpay : PayOK (bpow radix2 e) (g_root g)).
  Context (draw : @oracle FNum) (stop : float -> bool).
  Context (Tb : nat) (HTb : (Z.of_nat Tb < 2 ^ 53)%Z).
  Context (N1 N2 : nat).
  Context (p : @params FNum) (Hns : nosoftmax p).
  Context (Hdisc : forall k : nat, (k < Tb)%nat -> disc_ok p (N.of_nat (S k)) (N.of_nat (S k))).

  Local Notation Rr := (rcount (g_root g)).
  Local Notation Sr := (scount (g_root g)).
  Local Notation Nmax := (Nat.max 1 (Nat.max N1 N2)).

  Context (HcapL : (nleaves (g_root g) <= Mx)%nat).
  Context (HcapR : (2 * Nmax * (Tb * Rr) <= Mx)%nat).
  Context (HcapS : (Tb * Sr <= Ms)%nat).

  (** the state after [k] iterations *)
  Definition SInv (k : nat) (st : pstate) : Prop :=
    StOK e (k * Rr) (k * Sr) st /\ lens2 st = (N1, N2).

  (** reported bounds: finite, non-negative, at most [Mx * 2^e] *)
  Definition regs_ok (regs : option (float * float)) : Prop :=
    match regs with
    | None => True
    | Some (r1, r2) => bnn e Mx r1 /\ bnn e Mx r2
    end.

  Lemma vanilla_iter_ok : forall sampled k st,
    (k < Tb)%nat -> SInv k st ->
    let res := @vanilla_iter FNum g sampled draw p (N.of_nat (S k)) st in
    SInv (S k) (fst res) /\ bnn e Mx (fst (snd res)) /\ bnn e Mx (snd (snd res)).
  Proof.
    intros sampled k st Hk [Hst Hlen] res. unfold res. clear res.
    rewrite vanilla_iter_F_eq. cbv zeta. cbn [fst snd].
    remember (N.of_nat (S k) - 1)%N as pass eqn:Epass. clear Epass.
    assert (HkR : (S k * Rr <= Tb * Rr)%nat) by (apply Nat.mul_le_mono_r; lia).
    assert (HkS : (S k * Sr <= Tb * Sr)%nat) by (apply Nat.mul_le_mono_r; lia).
    assert (HN1 : (N1 * (2 * (S k * Rr)) <= Nmax * (2 * (Tb * Rr)))%nat)
      by (apply Nat.mul_le_mono; lia).
    assert (HN2 : (N2 * (2 * (S k * Rr)) <= Nmax * (2 * (Tb * Rr)))%nat)
      by (apply Nat.mul_le_mono; lia).
    assert (H1x : (1 * (2 * (S k * Rr)) <= Nmax * (2 * (Tb * Rr)))%nat)
      by (apply Nat.mul_le_mono; lia).
    pose proof (vrec_float_ok e Mx Ms He HMx Hov HMs (g_chance g) sampled draw
                  pass Hch (g_root g) Hpay
                  1%float 1%float 1%float st (k * Rr)%nat (k * Sr)%nat
                  fin01_one fin01_one fin01_one Hst HcapL ltac:(lia) ltac:(lia)) as [_ Hst1].
    pose proof (vrec_float_len (g_chance g) sampled draw pass (g_root g)
                  1%float 1%float 1%float st) as Hlen1.
    set (st1 := snd (@vrec FNum (g_chance g) sampled draw pass (g_root g)
                           1%float 1%float 1%float st)) in *.
    rewrite Hlen in Hlen1. unfold lens2 in Hlen1.
    assert (HL1 : length (fst st1) = N1) by (apply (f_equal fst) in Hlen1; exact Hlen1).
    assert (HL2 : length (snd st1) = N2) by (apply (f_equal snd) in Hlen1; exact Hlen1).
    assert (Hst1' : StOK e (S k * Rr) (S k * Sr) st1).
    { apply (StOK_weaken e _ _ _ _ _ Hst1); lia. }
    destruct Hst1' as [HA HB].
    assert (Hit1 : (1 <= N.of_nat (S k))%N) by lia.
    assert (Hit2 : (Z.of_N (N.of_nat (S k)) < 2 ^ 53)%Z) by (rewrite nat_N_Z; lia).
    assert (Hms : (Z.of_nat (S k * Sr) < 2 ^ 53)%Z) by lia.
    destruct (advance_all_ok e He Mx HMx Hov p (N.of_nat (S k)) (N.of_nat (S k))
                (fst st1) 0%float O (S k * Rr)%nat (S k * Sr)%nat Hns (Hdisc k Hk) HA (bnn_zero e O)
                ltac:(rewrite HL1; lia) ltac:(lia) Hms Hit1 Hit2) as [A1 [A2 A3]].
    destruct (advance_all_ok e He Mx HMx Hov p (N.of_nat (S k)) (N.of_nat (S k))
                (snd st1) 0%float O (S k * Rr)%nat (S k * Sr)%nat Hns (Hdisc k Hk) HB (bnn_zero e O)
                ltac:(rewrite HL2; lia) ltac:(lia) Hms Hit1 Hit2) as [B1 [B2 B3]].
    split; [split|split].
    - split; cbn [fst snd]; assumption.
    - unfold lens2. cbn [fst snd]. rewrite A2, B2, HL1, HL2. reflexivity.
    - destruct A3 as [A3 A3']. split; [|exact A3'].
      apply (bnd_weaken e _ _ _ A3). rewrite HL1. lia.
    - destruct B3 as [B3 B3']. split; [|exact B3'].
      apply (bnd_weaken e _ _ _ B3). rewrite HL2. lia.
  Qed.

  Lemma one_iter_ok : forall m k st,
    m <> External -> (k < Tb)%nat -> SInv k st ->
    let res := @one_iter FNum g m draw p (N.of_nat (S k)) st in
    SInv (S k) (fst res) /\ bnn e Mx (fst (snd res)) /\ bnn e Mx (snd (snd res)).
  Proof.
    intros m k st Hm Hk Hst.
    destruct m; cbn [one_iter]; [apply vanilla_iter_ok; assumption
                                | apply vanilla_iter_ok; assumption | contradiction].
  Qed.

  (** Item 2: the loop.  Whatever the stopping predicate, the state after the loop is the
      state after some [k' <= Tb] iterations: all accumulators finite and bounded. *)
  Lemma solve_loop_float_ok : forall m rem k st regs ran,
    m <> External -> (k + rem <= Tb)%nat -> SInv k st -> regs_ok regs ->
    let res := @solve_loop FNum g m draw p stop rem (N.of_nat (S k)) st regs ran in
    (exists k', (k' <= Tb)%nat /\ SInv k' (fst (fst res))) /\ regs_ok (snd (fst res)).
  Proof.
    intros m rem. induction rem as [|r IH]; intros k st regs ran Hm Hk Hst Hregs res; unfold res.
    - cbn [solve_loop fst snd]. split; [exists k; split; [lia | exact Hst] | exact Hregs].
    - cbn [solve_loop].
      pose proof (one_iter_ok m k st Hm ltac:(lia) Hst) as [G1 [G2 G3]].
      destruct (@one_iter FNum g m draw p (N.of_nat (S k)) st) as [st' [r1 r2]].
      cbn [fst snd] in G1, G2, G3.
      destruct (stop _).
      + cbn [fst snd]. split; [exists (S k); split; [lia | exact G1] | split; assumption].
      + replace (N.of_nat (S k) + 1)%N with (N.of_nat (S (S k))) by lia.
        apply IH; [exact Hm | lia | exact G1 | split; assumption].
  Qed.
End Iter.

(** ** Initial state and final strategies *)

Definition arity_small (pi : pinfo) : Prop := (Z.of_nat (length (pi_actions pi)) < 2 ^ 53)%Z.

(** every infoset has fewer than [2^53] actions *)
Definition arities_small (g : game) : Prop :=
  Forall arity_small (g_infos1 g) /\ Forall arity_small (g_infos2 g).

Lemma rinfo_new_ok : forall (e : Z) (n : nat), (Z.of_nat n < 2 ^ 53)%Z ->
  RiOK e 0 0 (@rinfo_new FNum n).
Proof.
  intros e n Hn. unfold RiOK, rinfo_new, small. cbn [strat cum_regret cum_strat].
  rewrite !repeatT_length_F.
  split; [|split; [|split; [|split; exact Hn]]].
  - destruct n as [|n]; [constructor|]. apply Forall_repeatT.
    change (fin01 (1 / f_of_N (N.of_nat (S n)))%float).
    destruct (f_of_N_small (S n) Hn) as [Hf Hv].
    assert (H1 : 1 <= INR (S n)) by (rewrite S_INR; assert (H := pos_INR n); lra).
    apply (div_part_ok 1%float _ Ffin_one Hf); rewrite ?FR_one, ?Hv; lra.
  - apply Forall_repeatT. apply bnd_zero.
  - apply Forall_repeatT. split; [apply Ffin_zero|]. change (zero FNum) with 0%float.
    rewrite FR_zero. cbn. lra.
Qed.

Lemma init_state_ok : forall (e : Z) (g : game), arities_small g ->
  StOK e 0 0 (@init_state FNum g) /\
  lens2 (@init_state FNum g) = (length (g_infos1 g), length (g_infos2 g)).
Proof.
  intros e g [H1 H2]. unfold init_state, StOK, lens2. cbn [fst snd]. rewrite !map_length.
  split; [|reflexivity].
  split; apply Forall_forall; intros ri Hri; apply in_map_iff in Hri;
    destruct Hri as [pi [Hri Hin]]; subst ri; apply rinfo_new_ok.
  - rewrite Forall_forall in H1. apply H1. exact Hin.
  - rewrite Forall_forall in H2. apply H2. exact Hin.
Qed.

Lemma final_strats_ok : forall (e : Z) (mr ms : nat) (st : pstate),
  StOK e mr ms st ->
  Forall fin01 (fst (@final_strats FNum st)) /\ Forall fin01 (snd (@final_strats FNum st)).
Proof.
  intros e mr ms st [H1 H2]. unfold final_strats. cbn [fst snd].
  split; apply Forall_concat_map; intros ri Hri.
  - rewrite Forall_forall in H1. destruct (H1 ri Hri) as (_ & _ & K3 & _ & K5).
    apply avg_strat_float_valid; [|exact K5].
    apply Forall_impl with (2 := K3). intros a Ha. apply (cs_ok_finnn ms a Ha).
  - rewrite Forall_forall in H2. destruct (H2 ri Hri) as (_ & _ & K3 & _ & K5).
    apply avg_strat_float_valid; [|exact K5].
    apply Forall_impl with (2 := K3). intros a Ha. apply (cs_ok_finnn ms a Ha).
Qed.

(** ** 3. [solve_single] at binary64: vanilla parameters, and every parameter set whose
    discount factors are probabilities *)

(** the number that has to stay below [2^53] and, times [2^e], below [2^1024]:
    [max (leaves, 2 * max(1, #infosets of a player) * budget * rcount)] *)
Definition reg_cap (g : game) (budget : nat) : nat :=
  Nat.max (nleaves (g_root g))
          (2 * Nat.max 1 (Nat.max (length (g_infos1 g)) (length (g_infos2 g)))
           * (budget * rcount (g_root g))).

Theorem solve_single_float_valid_params :
  forall (g : @Tree.game FNum) (m : method) (draw : @oracle FNum) (p : @params FNum)
         (budget : nat) (stop : float -> bool) (e : Z),
  m <> External ->
  nosoftmax p ->
  (forall k : nat, (k < budget)%nat -> disc_ok p (N.of_nat (S k)) (N.of_nat (S k))) ->
  TblOK (g_chance g) ->
  arities_small g ->
  (-1074 <= e)%Z ->
  PayOK (bpow radix2 e) (g_root g) ->
  (Z.of_nat budget < 2 ^ 53)%Z ->
  (Z.of_nat (budget * scount (g_root g)) < 2 ^ 53)%Z ->
  (Z.of_nat (reg_cap g budget) < 2 ^ 53)%Z ->
  INR (reg_cap g budget) * bpow radix2 e < bpow radix2 emax ->
  let res := @solve_single FNum g m draw p budget stop in
  Forall fin01 (fst (fst (fst res))) /\
  Forall fin01 (snd (fst (fst res))) /\
  match snd (fst res) with
  | None => True
  | Some (r1, r2) =>
      (Ffin r1 /\ 0 <= FR r1 <= INR (reg_cap g budget) * bpow radix2 e) /\
      (Ffin r2 /\ 0 <= FR r2 <= INR (reg_cap g budget) * bpow radix2 e)
  end.
Proof.
  intros g m draw p budget stop e Hm Hns Hdisc Hch Har He Hpay HT HS HMx Hov res.
  unfold res, solve_single.
  destruct (init_state_ok e g Har) as [Hst0 Hlen0].
  set (Mx := reg_cap g budget) in *.
  assert (HcapL : (nleaves (g_root g) <= Mx)%nat) by (unfold Mx, reg_cap; apply Nat.le_max_l).
  assert (HcapR : (2 * Nat.max 1 (Nat.max (length (g_infos1 g)) (length (g_infos2 g)))
                   * (budget * rcount (g_root g)) <= Mx)%nat)
    by (unfold Mx, reg_cap; apply Nat.le_max_r).
  assert (Hinv0 : SInv e g (length (g_infos1 g)) (length (g_infos2 g)) O (@init_state FNum g)).
  { split; [exact Hst0 | exact Hlen0]. }
  pose proof (solve_loop_float_ok e He Mx HMx Hov (budget * scount (g_root g))%nat HS g Hch Hpay
                draw stop budget HT (length (g_infos1 g)) (length (g_infos2 g))
                p Hns Hdisc HcapL HcapR (le_n _) m budget O (@init_state FNum g) None 0%N Hm
                ltac:(lia) Hinv0 I) as [[k' [_ [Hst _]]] Hregs].
  change (N.of_nat 1) with 1%N in Hst, Hregs.
  match goal with
  | |- context [@solve_loop ?a ?b ?c ?d ?p0 ?f ?h ?i ?j ?k ?l] =>
      set (L := @solve_loop a b c d p0 f h i j k l)
  end.
  change (StOK e (k' * rcount (g_root g)) (k' * scount (g_root g)) (fst (fst L))) in Hst.
  change (regs_ok e Mx (snd (fst L))) in Hregs.
  destruct L as [[st regs] ran].
  cbn [fst snd] in Hst, Hregs |- *.
  destruct (final_strats_ok e _ _ st Hst) as [F1 F2].
  split; [exact F1|]. split; [exact F2|].
  destruct regs as [[r1 r2]|]; [|exact I].
  destruct Hregs as [[[R1f R1b] R10] [[R2f R2b] R20]].
  rewrite Rabs_pos_eq in R1b by exact R10. rewrite Rabs_pos_eq in R2b by exact R20.
  split; (split; [assumption | split; assumption]).
Qed.

(** *** the vanilla parameters: every discount factor is exactly 1, uniform fallback *)

Lemma nosoftmax_vanilla : nosoftmax (@p_vanilla FNum).
Proof. reflexivity. Qed.

Lemma disc_ok_vanilla : forall it ia : N, disc_ok (@p_vanilla FNum) it ia.
Proof.
  intros it ia. split; [exact fin01_one|]. split; [exact fin01_one|].
  unfold strat_factor_ok. cbn [a_strat p_vanilla]. intros H.
  assert (E : PrimFloat.ltb 0 (zero FNum) = false) by reflexivity.
  rewrite E in H. discriminate H.
Qed.

(** Item 3.  [reg_cap g budget * 2^e < 2^1024] (with [reg_cap g budget < 2^53]) is the explicit
    form of "T * c(tree) * B is within range". *)
Theorem solve_single_float_valid :
  forall (g : @Tree.game FNum) (m : method) (draw : @oracle FNum) (budget : nat)
         (stop : float -> bool) (e : Z),
  m <> External ->
  TblOK (g_chance g) ->
  arities_small g ->
  (-1074 <= e)%Z ->
  PayOK (bpow radix2 e) (g_root g) ->
  (Z.of_nat budget < 2 ^ 53)%Z ->
  (Z.of_nat (budget * scount (g_root g)) < 2 ^ 53)%Z ->
  (Z.of_nat (reg_cap g budget) < 2 ^ 53)%Z ->
  INR (reg_cap g budget) * bpow radix2 e < bpow radix2 emax ->
  let res := @solve_single FNum g m draw (@p_vanilla FNum) budget stop in
  Forall fin01 (fst (fst (fst res))) /\
  Forall fin01 (snd (fst (fst res))) /\
  match snd (fst res) with
  | None => True
  | Some (r1, r2) =>
      (Ffin r1 /\ 0 <= FR r1 <= INR (reg_cap g budget) * bpow radix2 e) /\
      (Ffin r2 /\ 0 <= FR r2 <= INR (reg_cap g budget) * bpow radix2 e)
  end.
Proof.
  intros g m draw budget stop e Hm.
  apply (solve_single_float_valid_params g m draw (@p_vanilla FNum) budget stop e Hm
           nosoftmax_vanilla).
  intros k _. apply disc_ok_vanilla.
Qed.

(** *** 4. CFR+ : factors 1 (positive regrets), 0 (negative regrets), (t/(t+1))^2, one-hot
    fallback: closed form, no transcendental function *)

Lemma fpow_2_fin01 : forall x : float, fin01 x -> fin01 (fpow x 2).
Proof.
  intros x Hx. assert (Hx' := Hx). destruct Hx' as [Hf [H0 H1]].
  rewrite fpow_unfold.
  change (PrimFloat.eqb 2 0) with false.
  destruct (PrimFloat.eqb x 1); [exact fin01_one|].
  rewrite (f_is_nan_fin x Hf). change (f_is_nan 2) with false. cbn [orb].
  destruct (PrimFloat.eqb x 0).
  - change (PrimFloat.ltb 0 2) with true. exact fin01_zero.
  - rewrite (ltb_fin x 0 Hf Ffin_zero), FR_zero, Rlt_bool_false by exact H0.
    change (PrimFloat.eqb 2 1) with false. change (PrimFloat.eqb 2 2) with true.
    apply mul_reach; exact Hx.
Qed.

Lemma strat_ratio_fin01 : forall it : N, (Z.of_N it + 1 < 2 ^ 53)%Z ->
  fin01 (f_of_N it / (f_of_N it + 1))%float.
Proof.
  intros it Hit.
  assert (Hk : it = N.of_nat (N.to_nat it)) by (rewrite N2Nat.id; reflexivity).
  rewrite Hk.
  assert (Hn : (Z.of_nat (N.to_nat it) < 2 ^ 53)%Z) by (rewrite N_nat_Z; lia).
  destruct (f_of_N_small (N.to_nat it) Hn) as [Hf Hv].
  set (f := f_of_N (N.of_nat (N.to_nat it))) in *.
  assert (Hb : 0 <= FR f <= IZR (Z.of_nat (N.to_nat it))).
  { rewrite Hv, INR_IZR_INZ. split; [apply IZR_le; lia | lra]. }
  destruct (add_step f 1%float (Z.of_nat (N.to_nat it)) Hf fin01_one Hb ltac:(lia)
              ltac:(rewrite N_nat_Z; lia)) as [Hsf [_ [H1 [H2 _]]]].
  rewrite FR_one in H2.
  apply (div_part_ok f (f + 1)%float Hf Hsf); [split; [apply Hb | exact H1] | lra].
Qed.

Lemma nosoftmax_cfr_plus : nosoftmax (@p_cfr_plus FNum).
Proof. exact I. Qed.

Lemma disc_ok_cfr_plus : forall it ia : N, (Z.of_N ia + 1 < 2 ^ 53)%Z ->
  disc_ok (@p_cfr_plus FNum) it ia.
Proof.
  intros it ia Hia. split; [exact fin01_one|]. split; [exact fin01_zero|].
  unfold strat_factor_ok. cbn [a_strat p_cfr_plus]. intros _.
  change (@two FNum) with 2%float.
  apply fpow_2_fin01. apply strat_ratio_fin01. exact Hia.
Qed.

Theorem solve_single_float_valid_cfr_plus :
  forall (g : @Tree.game FNum) (m : method) (draw : @oracle FNum) (budget : nat)
         (stop : float -> bool) (e : Z),
  m <> External ->
  TblOK (g_chance g) ->
  arities_small g ->
  (-1074 <= e)%Z ->
  PayOK (bpow radix2 e) (g_root g) ->
  (Z.of_nat budget + 1 < 2 ^ 53)%Z ->
  (Z.of_nat (budget * scount (g_root g)) < 2 ^ 53)%Z ->
  (Z.of_nat (reg_cap g budget) < 2 ^ 53)%Z ->
  INR (reg_cap g budget) * bpow radix2 e < bpow radix2 emax ->
  let res := @solve_single FNum g m draw (@p_cfr_plus FNum) budget stop in
  Forall fin01 (fst (fst (fst res))) /\
  Forall fin01 (snd (fst (fst res))) /\
  match snd (fst res) with
  | None => True
  | Some (r1, r2) =>
      (Ffin r1 /\ 0 <= FR r1 <= INR (reg_cap g budget) * bpow radix2 e) /\
      (Ffin r2 /\ 0 <= FR r2 <= INR (reg_cap g budget) * bpow radix2 e)
  end.
Proof.
  intros g m draw budget stop e Hm Hch Har He Hpay HT.
  apply (solve_single_float_valid_params g m draw (@p_cfr_plus FNum) budget stop e Hm
           nosoftmax_cfr_plus); try assumption; [|lia].
  intros k Hk. apply disc_ok_cfr_plus. rewrite nat_N_Z. lia.
Qed.

(** ** Readable forms *)

(** Item 1, unfolded: value and state after one traversal of the subtree [n] *)
Corollary vrec_float_finite : forall (e : Z) (Mx Ms : nat),
  (-1074 <= e)%Z ->
  (Z.of_nat Mx < 2 ^ 53)%Z -> INR Mx * bpow radix2 e < bpow radix2 emax ->
  (Z.of_nat Ms < 2 ^ 53)%Z ->
  forall (chance : list (list float)) (sampled : bool) (draw : @oracle FNum) (pass : N),
  TblOK chance ->
  forall n : node, PayOK (bpow radix2 e) n ->
  forall (pc p1 p2 : float) (st : pstate) (mr ms : nat),
  fin01 pc -> fin01 p1 -> fin01 p2 -> StOK e mr ms st ->
  (nleaves n <= Mx)%nat -> (mr + rcount n <= Mx)%nat -> (ms + scount n <= Ms)%nat ->
  let r := @vrec FNum chance sampled draw pass n pc p1 p2 st in
  Ffin (fst r) /\ Rabs (FR (fst r)) <= INR (nleaves n) * bpow radix2 e /\
  StOK e (mr + rcount n) (ms + scount n) (snd r).
Proof.
  intros e Mx Ms He HMx Hov HMs chance sampled draw pass Hch n Hpay pc p1 p2 st mr ms
         Hpc Hp1 Hp2 Hst HL HR HS r.
  destruct (vrec_float_ok e Mx Ms He HMx Hov HMs chance sampled draw pass Hch n Hpay
              pc p1 p2 st mr ms Hpc Hp1 Hp2 Hst HL HR HS) as [[Hf Hb] Hs].
  split; [exact Hf|]. split; [exact Hb | exact Hs].
Qed.

(** Item 2, unfolded: every accumulator of the state the loop ends in *)
Theorem solve_loop_float_state :
  forall (g : @Tree.game FNum) (m : method) (draw : @oracle FNum) (p : @params FNum)
         (budget : nat) (stop : float -> bool) (e : Z),
  m <> External ->
  nosoftmax p ->
  (forall k : nat, (k < budget)%nat -> disc_ok p (N.of_nat (S k)) (N.of_nat (S k))) ->
  TblOK (g_chance g) ->
  arities_small g ->
  (-1074 <= e)%Z ->
  PayOK (bpow radix2 e) (g_root g) ->
  (Z.of_nat budget < 2 ^ 53)%Z ->
  (Z.of_nat (budget * scount (g_root g)) < 2 ^ 53)%Z ->
  (Z.of_nat (reg_cap g budget) < 2 ^ 53)%Z ->
  INR (reg_cap g budget) * bpow radix2 e < bpow radix2 emax ->
  let st := fst (fst (@solve_loop FNum g m draw p stop budget 1%N (@init_state FNum g) None 0%N)) in
  exists k : nat, (k <= budget)%nat /\
    forall (pl : bool) (i : nat),
      let ri := @ri_get FNum st pl i in
      Forall fin01 (strat ri) /\
      Forall (fun x => Ffin x /\ Rabs (FR x) <= INR (k * rcount (g_root g)) * bpow radix2 e)
             (cum_regret ri) /\
      Forall (fun x => Ffin x /\ 0 <= FR x <= INR (k * scount (g_root g))) (cum_strat ri).
Proof.
  intros g m draw p budget stop e Hm Hns Hdisc Hch Har He Hpay HT HS HMx Hov st.
  destruct (init_state_ok e g Har) as [Hst0 Hlen0].
  set (Mx := reg_cap g budget) in *.
  assert (HcapL : (nleaves (g_root g) <= Mx)%nat) by (unfold Mx, reg_cap; apply Nat.le_max_l).
  assert (HcapR : (2 * Nat.max 1 (Nat.max (length (g_infos1 g)) (length (g_infos2 g)))
                   * (budget * rcount (g_root g)) <= Mx)%nat)
    by (unfold Mx, reg_cap; apply Nat.le_max_r).
  assert (Hinv0 : SInv e g (length (g_infos1 g)) (length (g_infos2 g)) O (@init_state FNum g)).
  { split; [exact Hst0 | exact Hlen0]. }
  pose proof (solve_loop_float_ok e He Mx HMx Hov (budget * scount (g_root g))%nat HS g Hch Hpay
                draw stop budget HT (length (g_infos1 g)) (length (g_infos2 g))
                p Hns Hdisc HcapL HcapR (le_n _) m budget O (@init_state FNum g) None 0%N Hm
                ltac:(lia) Hinv0 I) as [[k' [Hk' [Hst _]]] _].
  change (N.of_nat 1) with 1%N in Hst.
  exists k'. split; [exact Hk'|]. intros pl i ri.
  assert (Hri : RiOK e (k' * rcount (g_root g)) (k' * scount (g_root g)) ri).
  { unfold ri, st. apply StOK_get. exact Hst. }
  destruct Hri as (K1 & K2 & K3 & _ & _).
  split; [exact K1|]. split; [exact K2|].
  apply Forall_impl with (2 := K3). intros x [Hf Hx]. split; [exact Hf|].
  rewrite INR_IZR_INZ. exact Hx.
Qed.

(** the overflow condition in its simplest form: payoffs at most [2^971] *)
Lemma cap_no_overflow : forall (m : nat) (e : Z),
  (Z.of_nat m < 2 ^ 53)%Z -> (e <= 971)%Z -> INR m * bpow radix2 e < bpow radix2 emax.
Proof.
  intros m e Hm He.
  apply Rlt_le_trans with (bpow radix2 53 * bpow radix2 e).
  - apply Rmult_lt_compat_r; [apply bpow_gt_0|].
    rewrite INR_IZR_INZ. change (bpow radix2 53) with (IZR (2 ^ 53)). apply IZR_lt. exact Hm.
  - rewrite <- bpow_plus. apply bpow_le. change emax with 1024%Z. lia.
Qed.

Corollary solve_single_float_valid_simple :
  forall (g : @Tree.game FNum) (m : method) (draw : @oracle FNum) (budget : nat)
         (stop : float -> bool) (e : Z),
  m <> External ->
  TblOK (g_chance g) ->
  arities_small g ->
  (-1074 <= e <= 971)%Z ->
  PayOK (bpow radix2 e) (g_root g) ->
  (Z.of_nat budget < 2 ^ 53)%Z ->
  (Z.of_nat (budget * scount (g_root g)) < 2 ^ 53)%Z ->
  (Z.of_nat (reg_cap g budget) < 2 ^ 53)%Z ->
  let res := @solve_single FNum g m draw (@p_vanilla FNum) budget stop in
  Forall fin01 (fst (fst (fst res))) /\
  Forall fin01 (snd (fst (fst res))) /\
  match snd (fst res) with
  | None => True
  | Some (r1, r2) => finnn r1 /\ finnn r2
  end.
Proof.
  intros g m draw budget stop e Hm Hch Har [He1 He2] Hpay HT HS HMx res.
  destruct (solve_single_float_valid g m draw budget stop e Hm Hch Har He1 Hpay HT HS HMx
              (cap_no_overflow _ e HMx He2)) as [F1 [F2 F3]].
  fold res in F1, F2, F3.
  split; [exact F1|]. split; [exact F2|].
  destruct (snd (fst res)) as [[r1 r2]|]; [|exact I].
  destruct F3 as [[A1 [A2 _]] [B1 [B2 _]]]. split; split; assumption.
Qed.

(** ** Example: the hypotheses are satisfiable, and what comes out *)

(** chance (1/2, 1/2): a 2x2 matrix game (payoffs 2, -1, -1, 1) or the payoff 3 *)
Definition exs_root : node :=
  @Chance FNum 0
    [ @Player FNum true 0
        [ @Player FNum false 0 [ @Term FNum 2%float; @Term FNum (-1)%float ];
          @Player FNum false 0 [ @Term FNum (-1)%float; @Term FNum 1%float ] ];
      @Term FNum 3%float ].
Definition exs_g : game :=
  @mkGame FNum [[0.5; 0.5]%float] [mkPinfo 0%N [0%N; 1%N] None] [mkPinfo 0%N [0%N; 1%N] None]
          [] [] exs_root.
Definition exs_draw : @oracle FNum := fun _ _ _ _ => O.

Example exs_shape :
  nleaves exs_root = 5%nat /\ rcount exs_root = 16%nat /\ scount exs_root = 3%nat /\
  reg_cap exs_g 10 = 320%nat.
Proof. repeat split; reflexivity. Qed.

Example exs_run :
  @solve_single FNum exs_g Full exs_draw (@p_vanilla FNum) 10 (fun _ => false) =
  (* = ([0.4036...; 0.5963...], [0.5833...; 0.4166...], Some (0.3932..., 0.1639...), 10) *)
  (([0x1.9d505b9c2bc46p-2; 0x1.3157d231ea1dep-1]%float,
    [0x1.2aaaaaaaaaaaap-1; 0x1.aaaaaaaaaaaabp-2]%float),
   Some (0x1.92b997d6275d6p-2, 0x1.4fce3ec460568p-3)%float, 10%N).
Proof. vm_compute. reflexivity. Qed.

Lemma FR_four : Ffin 4%float /\ FR 4%float = bpow radix2 2.
Proof.
  replace 4%float with (f_of_N (N.of_nat 4)) by (vm_compute; reflexivity).
  destruct (of_N_ok 4 ltac:(cbv; reflexivity)) as [Hf Hv].
  split; [exact Hf|]. rewrite Hv. change (bpow radix2 2) with (IZR (Z.pow_pos 2 2)).
  rewrite INR_IZR_INZ. reflexivity.
Qed.

Example exs_valid :
  let res := @solve_single FNum exs_g Full exs_draw (@p_vanilla FNum) 10 (fun _ => false) in
  Forall fin01 (fst (fst (fst res))) /\ Forall fin01 (snd (fst (fst res))) /\
  match snd (fst res) with None => True | Some (r1, r2) => finnn r1 /\ finnn r2 end.
Proof.
  destruct FR_four as [H4f H4].
  apply (solve_single_float_valid_simple exs_g Full exs_draw 10 (fun _ => false) 2).
  - discriminate.
  - apply tblokb_spec. vm_compute. reflexivity.
  - split; repeat constructor; unfold arity_small; cbn; lia.
  - lia.
  - rewrite <- H4. apply payokb_spec; [exact H4f | vm_compute; reflexivity].
  - cbn; lia.
  - cbn; lia.
  - cbn; lia.
Qed.

(** The range condition cannot be dropped (finding D13): with payoffs of magnitude [2^1023]
    the cumulative regret overflows, [inf - inf] follows, and after six iterations the
    strategy of player one is NaN. *)
Definition exs_big : float := 0x1p+1023%float.
Definition exs_root_big : node :=
  @Player FNum true 0
    [ @Player FNum false 0 [ @Term FNum exs_big; @Term FNum (- exs_big)%float ];
      @Player FNum false 0 [ @Term FNum (- exs_big)%float; @Term FNum (exs_big / 2)%float ] ].
Definition exs_g_big : game :=
  @mkGame FNum [] [mkPinfo 0%N [0%N; 1%N] None] [mkPinfo 0%N [0%N; 1%N] None] [] [] exs_root_big.

Example exs_overflow :
  fst (fst (fst (@solve_single FNum exs_g_big Full exs_draw (@p_vanilla FNum) 6 (fun _ => false))))
  = [nan; nan]%float.
Proof. vm_compute. reflexivity. Qed.
