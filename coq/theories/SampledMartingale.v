(** * SampledMartingale: over a whole run of the chance-sampled solver the sampled regret
    increments are a martingale-difference estimator of the true counterfactual regret
    increments.

    [Unbiased.v] proves the one-step statement: for a *fixed* state, the expectation over
    one draw per chance infoset of the regret increment the sampled pass makes is the
    increment [cfr_inc] of the unsampled pass.  Here the state of iteration [t] is the one
    the sampled run itself has reached, a function of the draws of iterations [1..t-1].

    - [expect_run rows n f]: expectation over the draw vectors of [n] successive
      iterations (independent, each distributed as the product of the chance rows).
    - [run_state g p ds]: the solver state after the iterations whose draw vectors are
      [ds] (oldest first), obtained by iterating the model's own [one_iter g Sampled].
      It is the state [solve_loop] holds under the oracle [draw_run ds]
      ([run_state_solve_loop]).
    - [sampled_inc_at]/[true_inc_at]: the sampled / the true increment of iteration [t+1]
      along the run [ds].
    - [sampled_md_conditional]: conditional on any history the sampled increment of the
      next iteration has the true increment as its mean (martingale difference).
    - [sampled_md_orthogonal]: the difference is orthogonal to every function of the past.
    - [sampled_run_tower]: E[sum_t sampled_t] = E[sum_t true_t].
    - [sampled_run_regret_tower]: for the undiscounted parameters the expected cumulative
      regret held by the solver after [T] sampled iterations is the expected sum of the true
      increments along the run. *)
From Coq Require Import Reals List Lra Lia Bool Arith NArith.
From Cfr.theories Require Import Num RInst Tree GameWF Strat Eval Solve Valid TruncProofs
     SolveValidProofs LoopProofs Incr IterChar RmPotential CfMass CfrRate SampledRate Unbiased.
Import ListNotations.
Open Scope R_scope.

Local Notation nodeR := (@node RNum).
Local Notation gameR := (@game RNum).
Local Notation pstateR := (@pstate RNum).
Local Notation paramsR := (@params RNum).
Local Notation oracleR := (@oracle RNum).

(** ** The expectation over a run: the first iteration outermost *)
Fixpoint expect_run (rows : list (list R)) (n : nat) (f : list (list nat) -> R) : R :=
  match n with
  | O => f []
  | S n' => expect rows (fun d => expect_run rows n' (fun ds => f (d :: ds)))
  end.

(** the histories that carry weight: [n] draw vectors, one index per chance infoset *)
Definition history (rows : list (list R)) (n : nat) (ds : list (list nat)) : Prop :=
  length ds = n /\ Forall (fun d => length d = length rows) ds.

Lemma expect_run_ext rows n (f h : list (list nat) -> R) :
  (forall ds, history rows n ds -> f ds = h ds) -> expect_run rows n f = expect_run rows n h.
Proof.
  revert f h; induction n as [|n IH]; intros f h H; cbn [expect_run].
  - apply H. split; [reflexivity|constructor].
  - apply expect_ext. intros d Hd. apply IH. intros ds [Hl HF]. apply H.
    split; [cbn [length]; now rewrite Hl|now constructor].
Qed.

Lemma expect_run_plus rows n (f h : list (list nat) -> R) :
  expect_run rows n (fun ds => f ds + h ds) = expect_run rows n f + expect_run rows n h.
Proof.
  revert f h; induction n as [|n IH]; intros f h; cbn [expect_run]; [reflexivity|].
  rewrite <- expect_plus. apply expect_ext. intros d _. apply IH.
Qed.

Lemma expect_run_scal rows n c (f : list (list nat) -> R) :
  expect_run rows n (fun ds => c * f ds) = c * expect_run rows n f.
Proof.
  revert f; induction n as [|n IH]; intros f; cbn [expect_run]; [reflexivity|].
  rewrite <- expect_scal. apply expect_ext. intros d _. apply IH.
Qed.

Lemma expect_run_const rows n c :
  Forall (fun r => Rsum r = 1) rows -> expect_run rows n (fun _ => c) = c.
Proof.
  intros Hr. induction n as [|n IH]; cbn [expect_run]; [reflexivity|].
  rewrite (expect_ext rows _ (fun _ => c)) by (intros; apply IH). now apply expect_const.
Qed.

Lemma expect_run_minus rows n (f h : list (list nat) -> R) :
  expect_run rows n (fun ds => f ds - h ds) = expect_run rows n f - expect_run rows n h.
Proof.
  rewrite (expect_run_ext rows n _ (fun ds => f ds + (-1) * h ds)) by (intros; lra).
  rewrite expect_run_plus, expect_run_scal. lra.
Qed.

Lemma expect_run_le rows n (f h : list (list nat) -> R) :
  Forall (Forall (fun x => 0 <= x)) rows -> (forall ds, f ds <= h ds) ->
  expect_run rows n f <= expect_run rows n h.
Proof.
  intros Hr. revert f h; induction n as [|n IH]; intros f h H; cbn [expect_run]; [apply H|].
  apply expect_le; [assumption|]. intros d. apply IH. intros ds. apply H.
Qed.

(** peeling the *last* iteration: the tower property of the product measure *)
Lemma expect_run_S rows n (f : list (list nat) -> R) :
  expect_run rows (S n) f = expect rows (fun d => expect_run rows n (fun ds => f (d :: ds))).
Proof. reflexivity. Qed.

Lemma expect_run_snoc rows n (f : list (list nat) -> R) :
  expect_run rows (S n) f = expect_run rows n (fun ds => expect rows (fun d => f (ds ++ [d]))).
Proof.
  revert f; induction n as [|n IH]; intros f; [reflexivity|].
  rewrite (expect_run_S rows (S n) f).
  rewrite (expect_run_S rows n (fun ds => expect rows (fun d => f (ds ++ [d])))).
  apply expect_ext. intros d _. now rewrite IH.
Qed.

(** a function of the first [n] iterations only: the last draw is irrelevant *)
Lemma expect_run_S_irrelevant rows n (f : list (list nat) -> R) :
  Forall (fun r => Rsum r = 1) rows ->
  expect_run rows (S n) (fun ds => f (firstn n ds)) = expect_run rows n f.
Proof.
  intros Hr. rewrite expect_run_snoc. apply expect_run_ext. intros ds [Hl _].
  rewrite (expect_ext rows _ (fun _ => f ds)); [now apply expect_const|].
  intros d _. rewrite firstn_app, Hl, Nat.sub_diag. cbn [firstn].
  now rewrite app_nil_r, <- Hl, firstn_all.
Qed.

(** finite sums over [0 .. n-1] *)
Fixpoint sum_upto (n : nat) (f : nat -> R) : R :=
  match n with
  | O => 0
  | S k => sum_upto k f + f k
  end.

Lemma sum_upto_ext n (f h : nat -> R) :
  (forall t, (t < n)%nat -> f t = h t) -> sum_upto n f = sum_upto n h.
Proof.
  induction n as [|n IH]; intros H; cbn [sum_upto]; [reflexivity|].
  rewrite IH by (intros t Ht; apply H; lia). now rewrite (H n) by lia.
Qed.

Lemma sum_upto_minus n (f h : nat -> R) :
  sum_upto n (fun t => f t - h t) = sum_upto n f - sum_upto n h.
Proof. induction n as [|n IH]; cbn [sum_upto]; [lra|]. rewrite IH. lra. Qed.

(** ** The run of the chance-sampled solver along given draw vectors *)
Section Run.
  Context (g : gameR) (p : paramsR).

  (** one iteration of the model's chance-sampled solver, its draws being [d] *)
  Definition run_step (it : N) (st : pstateR) (d : list nat) : pstateR :=
    fst (@one_iter RNum g Sampled (draw_of d) p it st).

  Fixpoint run_from (it : N) (st : pstateR) (ds : list (list nat)) : pstateR :=
    match ds with
    | [] => st
    | d :: ds' => run_from (it + 1) (run_step it st d) ds'
    end.

  (** the state after the iterations [1 .. length ds], iteration [t] drawing [nth (t-1) ds] *)
  Definition run_state (ds : list (list nat)) : pstateR := run_from 1 (@init_state RNum g) ds.

  Lemma run_from_app it st ds es :
    run_from it st (ds ++ es) = run_from (it + N.of_nat (length ds)) (run_from it st ds) es.
  Proof.
    revert it st; induction ds as [|d ds IH]; intros it st; cbn [app run_from length].
    - now rewrite N.add_0_r.
    - rewrite IH. f_equal. lia.
  Qed.

  Lemma run_state_snoc ds d :
    run_state (ds ++ [d]) = run_step (N.of_nat (S (length ds))) (run_state ds) d.
  Proof.
    unfold run_state. rewrite run_from_app. cbn [run_from]. f_equal. lia.
  Qed.

  Lemma run_state_nil : run_state [] = @init_state RNum g.
  Proof. reflexivity. Qed.

  (** *** Every reachable state satisfies the invariant of the one-step theorem *)
  Local Notation IA := (InvA (arities g true) (arities g false)).

  Lemma run_step_inv it st d : IA st -> IA (run_step it st d).
  Proof. intros H. exact (one_iter_inv _ _ g Sampled (draw_of d) p it st H). Qed.

  Lemma run_from_inv it st ds : IA st -> IA (run_from it st ds).
  Proof.
    revert it st; induction ds as [|d ds IH]; intros it st H; cbn [run_from]; [exact H|].
    apply IH. now apply run_step_inv.
  Qed.

  Lemma run_state_inv ds : WFgame g -> IA (run_state ds).
  Proof. intros HWF. apply run_from_inv. now apply init_InvA. Qed.

  (** *** The increments of one iteration *)

  (** what the traversal of iteration [it] (draws [d], state [st] before it) adds to
      [cum_regret[pl][i][a]], before the discounting of [advance] *)
  Definition sampled_inc (pl : bool) (i a : nat) (it : N) (st : pstateR) (d : list nat) : R :=
    reg_sum pl i a (@vincs RNum (g_chance g) true (draw_of d) (it - 1)%N (strat_view st)
                           (g_root g) 1 1 1).

  (** the true (unsampled) counterfactual regret increment at the strategy of [st] *)
  Definition true_inc (pl : bool) (i a : nat) (st : pstateR) : R :=
    cfr_inc (g_chance g) (strat_view st) pl i a (g_root g) 1 1 1.

  (** [sampled_inc] is what the model's traversal does to the state *)
  Lemma sampled_inc_spec pl i a it st d :
    (a < length (cum_regret (@ri_get RNum st pl i)))%nat ->
    nth a (cum_regret (@ri_get RNum
       (snd (@vrec RNum (g_chance g) true (draw_of d) (it - 1)%N (g_root g) 1 1 1 st)) pl i)) 0 =
    nth a (cum_regret (@ri_get RNum st pl i)) 0 + sampled_inc pl i a it st d.
  Proof.
    intros Ha. rewrite vrec_incs. cbn [snd]. now rewrite fold_incr_regret_nth.
  Qed.

  (** along a run: iteration [t+1] of the run [ds] (0-based index [t]) *)
  Definition sampled_inc_at (pl : bool) (i a : nat) (ds : list (list nat)) (t : nat) : R :=
    sampled_inc pl i a (N.of_nat (S t)) (run_state (firstn t ds)) (nth t ds []).
  Definition true_inc_at (pl : bool) (i a : nat) (ds : list (list nat)) (t : nat) : R :=
    true_inc pl i a (run_state (firstn t ds)).

  Lemma sampled_inc_at_prefix pl i a ds es t :
    (t < length ds)%nat -> sampled_inc_at pl i a (ds ++ es) t = sampled_inc_at pl i a ds t.
  Proof.
    intros Ht. unfold sampled_inc_at. rewrite firstn_app, app_nth1 by assumption.
    replace (t - length ds)%nat with O by lia. cbn [firstn]. now rewrite app_nil_r.
  Qed.

  Lemma true_inc_at_prefix pl i a ds es t :
    (t <= length ds)%nat -> true_inc_at pl i a (ds ++ es) t = true_inc_at pl i a ds t.
  Proof.
    intros Ht. unfold true_inc_at. rewrite firstn_app.
    replace (t - length ds)%nat with O by lia. cbn [firstn]. now rewrite app_nil_r.
  Qed.

  Lemma sampled_inc_at_last pl i a ds d :
    sampled_inc_at pl i a (ds ++ [d]) (length ds) =
    sampled_inc pl i a (N.of_nat (S (length ds))) (run_state ds) d.
  Proof.
    unfold sampled_inc_at. rewrite firstn_app, Nat.sub_diag, firstn_all. cbn [firstn].
    rewrite app_nil_r, app_nth2, Nat.sub_diag by lia. reflexivity.
  Qed.

  Lemma true_inc_at_last pl i a ds : true_inc_at pl i a ds (length ds) = true_inc pl i a (run_state ds).
  Proof. unfold true_inc_at. now rewrite firstn_all. Qed.

  (** ** The martingale-difference property *)
  Context (HWF : WFgame g) (HCO : ChanceOK g) (HNR : NoRepeat (g_root g)).

  Local Notation rows := (g_chance g).

  (** conditional on *any* history [ds] of the iterations so far — reachable with positive
      probability or not — and whatever the iteration number, the sampled increment of the
      next iteration has the true increment at the reached state as its mean *)
  Theorem sampled_md_step pl i a it ds :
    expect rows (fun d => sampled_inc pl i a it (run_state ds) d) = true_inc pl i a (run_state ds).
  Proof.
    unfold sampled_inc, true_inc.
    apply (sampled_unbiased_game g (run_state ds) (it - 1)%N pl i a HWF HCO); [|exact HNR].
    now apply run_state_inv.
  Qed.

  Theorem sampled_md_conditional pl i a ds :
    expect rows (fun d => sampled_inc_at pl i a (ds ++ [d]) (length ds)) =
    true_inc_at pl i a ds (length ds).
  Proof.
    rewrite true_inc_at_last, <- (sampled_md_step pl i a (N.of_nat (S (length ds))) ds).
    apply expect_ext. intros d _. apply sampled_inc_at_last.
  Qed.

  (** the difference is orthogonal to every function [h] of the past *)
  Theorem sampled_md_orthogonal pl i a n (h : list (list nat) -> R) :
    expect_run rows (S n)
      (fun ds => h (firstn n ds) * (sampled_inc_at pl i a ds n - true_inc_at pl i a ds n)) = 0.
  Proof.
    pose proof (ChanceOK_sums g HCO) as Hr.
    rewrite expect_run_snoc.
    rewrite (expect_run_ext rows n _ (fun _ => 0)); [now apply expect_run_const|].
    intros ds [Hl _].
    rewrite (expect_ext rows _
               (fun d => h ds * (sampled_inc_at pl i a (ds ++ [d]) (length ds) +
                                 (-1) * true_inc_at pl i a ds (length ds)))).
    - rewrite expect_scal, expect_plus, expect_const, sampled_md_conditional by assumption. lra.
    - intros d _. rewrite firstn_app, <- Hl, Nat.sub_diag, firstn_all. cbn [firstn].
      rewrite app_nil_r, true_inc_at_prefix by lia. lra.
  Qed.

  (** ** The tower theorem: expectation of the sum over a whole run *)
  Theorem sampled_run_tower pl i a T :
    expect_run rows T (fun ds => sum_upto T (sampled_inc_at pl i a ds)) =
    expect_run rows T (fun ds => sum_upto T (true_inc_at pl i a ds)).
  Proof.
    pose proof (ChanceOK_sums g HCO) as Hr.
    induction T as [|T IH]; [reflexivity|].
    rewrite !expect_run_snoc.
    rewrite (expect_run_ext rows T _
               (fun ds => sum_upto T (sampled_inc_at pl i a ds) + true_inc_at pl i a ds T)).
    2:{ intros ds [Hl _]. cbn [sum_upto]. rewrite expect_plus.
        rewrite (expect_ext rows _ (fun _ => sum_upto T (sampled_inc_at pl i a ds))).
        2:{ intros d _. apply sum_upto_ext. intros t Ht. apply sampled_inc_at_prefix. lia. }
        rewrite expect_const by assumption. f_equal.
        rewrite <- Hl. apply sampled_md_conditional. }
    rewrite expect_run_plus, IH, <- expect_run_plus.
    apply expect_run_ext. intros ds [Hl _]. cbn [sum_upto].
    rewrite (expect_ext rows _
               (fun _ => sum_upto T (true_inc_at pl i a ds) + true_inc_at pl i a ds T)).
    - now rewrite expect_const.
    - intros d _. rewrite (true_inc_at_prefix pl i a ds [d] T) by lia. f_equal.
      apply sum_upto_ext. intros t Ht. apply true_inc_at_prefix. lia.
  Qed.

  (** difference form *)
  Corollary sampled_run_diff_zero pl i a T :
    expect_run rows T
      (fun ds => sum_upto T (fun t => sampled_inc_at pl i a ds t - true_inc_at pl i a ds t)) = 0.
  Proof.
    rewrite (expect_run_ext rows T _
               (fun ds => sum_upto T (sampled_inc_at pl i a ds) - sum_upto T (true_inc_at pl i a ds)))
      by (intros; apply sum_upto_minus).
    rewrite expect_run_minus, sampled_run_tower. lra.
  Qed.

  (** the true increments of the first [T] iterations do not depend on the last draw: the
      right-hand side is an expectation over [T-1] iterations *)
  Corollary sampled_run_tower_pred pl i a T :
    expect_run rows (S T) (fun ds => sum_upto (S T) (sampled_inc_at pl i a ds)) =
    expect_run rows T (fun ds => sum_upto (S T) (true_inc_at pl i a ds)).
  Proof.
    pose proof (ChanceOK_sums g HCO) as Hr.
    rewrite sampled_run_tower.
    rewrite <- (expect_run_S_irrelevant rows T (fun ds => sum_upto (S T) (true_inc_at pl i a ds)))
      by assumption.
    apply expect_run_ext. intros ds [Hl _]. apply sum_upto_ext. intros t Ht.
    rewrite <- (firstn_skipn T ds) at 1. apply true_inc_at_prefix.
    rewrite firstn_length. lia.
  Qed.
End Run.

(** ** [run_state] is the state of the model's iteration loop

    [vrec] on pass [pass] consults the oracle at that pass only, so the oracle that answers
    with the [t]-th draw vector on pass [t - 1] makes [solve_loop] follow [run_state]. *)
Lemma incs_pick_ext (F G : nodeR -> R -> R -> R -> list (@incr RNum)) pc p1 p2 ks k :
  Forall (fun c => forall qc q1 q2, F c qc q1 q2 = G c qc q1 q2) ks ->
  @incs_pick RNum F pc p1 p2 ks k = @incs_pick RNum G pc p1 p2 ks k.
Proof.
  intros H; revert k; induction H as [|c ks Hc H IH]; intros k; cbn [incs_pick]; [reflexivity|].
  destruct k as [|k]; [apply Hc|apply IH].
Qed.

Lemma incs_player_ext (f h : nodeR -> R) (F G : nodeR -> R -> R -> R -> list (@incr RNum))
      pl i pc p1 p2 mult ks :
  Forall (fun c => f c = h c) ks ->
  Forall (fun c => forall qc q1 q2, F c qc q1 q2 = G c qc q1 q2) ks ->
  forall ss ai, @incs_player RNum f F pl i pc p1 p2 mult ks ss ai =
                @incs_player RNum h G pl i pc p1 p2 mult ks ss ai.
Proof.
  intros Hv H; induction H as [|c ks Hc H IH]; intros ss ai; destruct ss as [|s ss];
    cbn [incs_player]; try reflexivity.
  inversion Hv as [|? ? Hvc Hvk]; subst.
  destruct pl; rewrite Hc, Hvc, (IH Hvk); reflexivity.
Qed.

Section PassExt.
  Context (chance : list (list R)) (draw draw' : oracleR) (pass : N) (sg : bool -> nat -> list R).
  Context (Hd : forall ci w, draw true ci pass w = draw' true ci pass w).

  Lemma vval_pass_ext n :
    @vval RNum chance true draw pass sg n = @vval RNum chance true draw' pass sg n.
  Proof. apply vval_oracle_ext. intros ci _. apply Hd. Qed.

  Lemma vincs_pass_ext n :
    forall pc p1 p2, @vincs RNum chance true draw pass sg n pc p1 p2 =
                     @vincs RNum chance true draw' pass sg n pc p1 p2.
  Proof.
    induction n as [x|ci kids IH|pl i kids IH] using node_ind'; intros pc p1 p2; cbn [vincs].
    - reflexivity.
    - rewrite Hd. now apply incs_pick_ext.
    - assert (HV : Forall (fun c => @vval RNum chance true draw pass sg c =
                                    @vval RNum chance true draw' pass sg c) kids).
      { apply Forall_forall. intros c _. apply vval_pass_ext. }
      rewrite (incs_player_ext _ _ _ _ pl i pc p1 p2 _ kids HV IH).
      now rewrite (exp_player_ext _ _ _ kids _ 0 HV).
  Qed.
End PassExt.

Lemma vrec_pass_ext chance (draw draw' : oracleR) pass n pc p1 p2 (st : pstateR) :
  (forall ci w, draw true ci pass w = draw' true ci pass w) ->
  @vrec RNum chance true draw pass n pc p1 p2 st = @vrec RNum chance true draw' pass n pc p1 p2 st.
Proof.
  intros Hd. rewrite !vrec_incs.
  now rewrite (vval_pass_ext chance draw draw' pass _ Hd), (vincs_pass_ext chance draw draw' pass _ Hd).
Qed.

Lemma one_iter_sampled_pass_ext (g : gameR) (draw draw' : oracleR) (p : paramsR) it (st : pstateR) :
  (forall ci w, draw true ci (it - 1)%N w = draw' true ci (it - 1)%N w) ->
  @one_iter RNum g Sampled draw p it st = @one_iter RNum g Sampled draw' p it st.
Proof.
  intros Hd. cbn [one_iter]. unfold vanilla_iter.
  now rewrite (vrec_pass_ext (g_chance g) draw draw' (it - 1)%N _ _ _ _ st Hd).
Qed.

(** the oracle of a run: on pass [t] (0-based) it answers with the draw vector [nth t ds] *)
Definition draw_run (ds : list (list nat)) : oracleR :=
  fun _ ci pass _ => nth ci (nth (N.to_nat pass) ds []) O.

Section Loop.
  Context (g : gameR) (p : paramsR).

  Lemma run_step_draw_run all it (st : pstateR) d :
    nth (N.to_nat it - 1) all [] = d ->
    fst (@one_iter RNum g Sampled (draw_run all) p it st) = run_step g p it st d.
  Proof.
    intros E. unfold run_step. f_equal. apply one_iter_sampled_pass_ext.
    intros ci w. unfold draw_run, draw_of. rewrite N2Nat.inj_sub. change (N.to_nat 1) with 1%nat.
    now rewrite E.
  Qed.

  (** whatever the stop predicate: the loop ends in the state of a prefix of the run *)
  Lemma solve_loop_run_from all (stop : R -> bool) rem :
    forall es it (st : pstateR) regs ran,
      (1 <= it)%N -> (rem <= length es)%nat ->
      (forall k, (k < length es)%nat -> nth (N.to_nat it - 1 + k) all [] = nth k es []) ->
      exists k, (k <= rem)%nat /\
        fst (fst (@solve_loop RNum g Sampled (draw_run all) p stop rem it st regs ran)) =
        run_from g p it st (firstn k es).
  Proof.
    induction rem as [|rem IH]; intros es it st regs ran Hit Hlen Hall.
    - exists O. split; [lia|reflexivity].
    - destruct es as [|d es]; [cbn [length] in Hlen; lia|].
      cbn [solve_loop].
      pose proof (Hall O ltac:(cbn [length]; lia)) as E0.
      rewrite Nat.add_0_r in E0. cbn [nth] in E0.
      pose proof (run_step_draw_run all it st d E0) as E.
      destruct (@one_iter RNum g Sampled (draw_run all) p it st) as [st' [r1 r2]]. cbn [fst] in E.
      destruct (stop _).
      + exists 1%nat. split; [lia|]. cbn [fst firstn run_from]. exact E.
      + destruct (IH es (it + 1)%N st' (Some (r1, r2)) it) as (k & Hk & Ek).
        * lia.
        * cbn [length] in Hlen. lia.
        * intros k Hk. pose proof (Hall (S k) ltac:(cbn [length]; lia)) as Ek.
          cbn [nth] in Ek. rewrite <- Ek. f_equal. lia.
        * exists (S k). split; [lia|]. rewrite Ek. cbn [firstn run_from]. now rewrite E.
  Qed.

  (** no early termination: the loop with budget [length ds] ends in [run_state ds] *)
  Theorem run_state_solve_loop ds (stop : R -> bool) :
    (forall b, stop b = false) ->
    fst (fst (@solve_loop RNum g Sampled (draw_run ds) p stop (length ds) 1
                          (@init_state RNum g) None 0%N)) = run_state g p ds.
  Proof.
    intros Hs. unfold run_state. generalize (@init_state RNum g) as st.
    generalize (@None (R * R)) as regs. generalize 0%N as ran.
    assert (H : forall es it ran regs (st : pstateR),
               (1 <= it)%N ->
               (forall k, (k < length es)%nat -> nth (N.to_nat it - 1 + k) ds [] = nth k es []) ->
               fst (fst (@solve_loop RNum g Sampled (draw_run ds) p stop (length es) it st regs ran)) =
               run_from g p it st es).
    { induction es as [|d es IH]; intros it ran regs st Hit Hall; [reflexivity|].
      cbn [length solve_loop run_from].
      pose proof (Hall O ltac:(cbn [length]; lia)) as E0.
      rewrite Nat.add_0_r in E0. cbn [nth] in E0.
      pose proof (run_step_draw_run ds it st d E0) as E.
      destruct (@one_iter RNum g Sampled (draw_run ds) p it st) as [st' [r1 r2]]. cbn [fst] in E.
      rewrite Hs, <- E. apply IH; [lia|].
      intros k Hk. pose proof (Hall (S k) ltac:(cbn [length]; lia)) as Ek.
      cbn [nth] in Ek. rewrite <- Ek. f_equal. lia. }
    intros ran regs st. apply H; [lia|]. intros k _. reflexivity.
  Qed.

  (** ... and with early termination it ends in the state of a prefix of the run *)
  Corollary run_state_solve_loop_prefix ds (stop : R -> bool) budget :
    (budget <= length ds)%nat ->
    exists k, (k <= budget)%nat /\
      fst (fst (@solve_loop RNum g Sampled (draw_run ds) p stop budget 1
                            (@init_state RNum g) None 0%N)) = run_state g p (firstn k ds).
  Proof.
    intros Hb. apply (solve_loop_run_from ds stop budget ds 1%N); [lia|exact Hb|].
    intros k _. reflexivity.
  Qed.
End Loop.

(** ** Undiscounted parameters: the cumulative regret the solver holds is the sum of the
    sampled increments, so its expectation is that of the sum of the true increments *)
Lemma nth_repeatT_0 n a : nth a (@repeatT RNum 0 n) 0 = 0.
Proof. revert a; induction n as [|n IH]; intros [|a]; cbn [repeatT nth]; auto. Qed.

Lemma init_state_regret_zero (g : gameR) pl i a :
  nth a (cum_regret (@ri_get RNum (@init_state RNum g) pl i)) 0 = 0.
Proof.
  assert (H : forall (l : list pinfo),
             nth a (cum_regret (nth i (map (fun pi => @rinfo_new RNum (length (pi_actions pi))) l)
                                    (@mkRinfo RNum [] [] []))) 0 = 0).
  { intros l. destruct (nth_in_or_default i (map (fun pi => @rinfo_new RNum (length (pi_actions pi))) l)
                                          (@mkRinfo RNum [] [] [])) as [Hin| ->].
    - apply in_map_iff in Hin as (pi & <- & _). unfold rinfo_new. cbn [cum_regret].
      apply nth_repeatT_0.
    - cbn [cum_regret]. now destruct a. }
  unfold ri_get, init_state, ps_get. destruct pl; cbn [fst snd]; apply H.
Qed.

Section Undiscounted.
  Context (g : gameR).
  Local Notation pv := (@p_vanilla RNum).
  Local Notation IA := (InvA (arities g true) (arities g false)).

  Lemma InvA_regret_len (st : pstateR) pl i :
    IA st -> (i < length (arities g pl))%nat ->
    length (cum_regret (@ri_get RNum st pl i)) = nth i (arities g pl) O /\
    (i < length (ps_get st pl))%nat.
  Proof.
    intros [H1 H2] Hi.
    assert (HF : Forall2 RInvA (arities g pl) (ps_get st pl)) by (destruct pl; assumption).
    pose proof (Forall2_nth RInvA _ _ i 0%nat (@mkRinfo RNum [] [] []) HF Hi) as H.
    destruct H as (_ & _ & L1 & _ & _). split; [exact L1|].
    apply Forall2_len in HF. lia.
  Qed.

  Lemma run_step_regret_vanilla it (st : pstateR) d pl i a :
    IA st -> (i < length (arities g pl))%nat -> (a < nth i (arities g pl) O)%nat ->
    nth a (cum_regret (@ri_get RNum (run_step g pv it st d) pl i)) 0 =
    nth a (cum_regret (@ri_get RNum st pl i)) 0 + sampled_inc g pl i a it st d.
  Proof.
    intros HI Hi Ha. destruct (InvA_regret_len st pl i HI Hi) as [L Hlen].
    unfold run_step. cbn [one_iter]. rewrite vanilla_iter_state. cbv zeta. cbn [fst].
    rewrite ri_get_map by (now rewrite vrec_len).
    cbn [adv_vanilla cum_regret]. apply sampled_inc_spec. now rewrite L.
  Qed.

  Context (HWF : WFgame g).

  Theorem run_state_regret_vanilla ds pl i a :
    (i < length (arities g pl))%nat -> (a < nth i (arities g pl) O)%nat ->
    nth a (cum_regret (@ri_get RNum (run_state g pv ds) pl i)) 0 =
    sum_upto (length ds) (sampled_inc_at g pv pl i a ds).
  Proof.
    intros Hi Ha. induction ds as [|d ds IH] using rev_ind.
    - cbn [length sum_upto]. apply init_state_regret_zero.
    - rewrite run_state_snoc, run_step_regret_vanilla; try assumption.
      2:{ now apply run_state_inv. }
      rewrite app_length. cbn [length]. rewrite Nat.add_1_r. cbn [sum_upto].
      rewrite IH, sampled_inc_at_last. f_equal.
      apply sum_upto_ext. intros t Ht. symmetry. now apply sampled_inc_at_prefix.
  Qed.

  Context (HCO : ChanceOK g) (HNR : NoRepeat (g_root g)).

  (** the expected cumulative regret after [T] chance-sampled iterations is the expected sum
      of the true counterfactual regret increments at the strategies the run plays *)
  Theorem sampled_run_regret_tower pl i a T :
    (i < length (arities g pl))%nat -> (a < nth i (arities g pl) O)%nat ->
    expect_run (g_chance g) T
      (fun ds => nth a (cum_regret (@ri_get RNum (run_state g pv ds) pl i)) 0) =
    expect_run (g_chance g) T (fun ds => sum_upto T (true_inc_at g pv pl i a ds)).
  Proof.
    intros Hi Ha. rewrite <- (sampled_run_tower g pv HWF HCO HNR pl i a T).
    apply expect_run_ext. intros ds [Hl _]. rewrite <- Hl. now apply run_state_regret_vanilla.
  Qed.
End Undiscounted.

(** ** Non-vacuity: the game with a chance root of [CfrRate.v], two iterations *)
Example seq_run_tower (p : paramsR) pl i a :
  expect_run (g_chance seq_game) 2 (fun ds => sum_upto 2 (sampled_inc_at seq_game p pl i a ds)) =
  expect_run (g_chance seq_game) 2 (fun ds => sum_upto 2 (true_inc_at seq_game p pl i a ds)).
Proof. exact (sampled_run_tower seq_game p seq_WF seq_ChanceOK seq_NoRepeat pl i a 2). Qed.

(** the same, the four equally likely histories spelled out: on the left the two sampled
    increments of each history, on the right the true increment at the initial strategies
    and at the strategies reached after the first iteration under either draw *)
Definition seq_S (p : paramsR) pl i a (d1 d2 t : nat) : R :=
  sampled_inc_at seq_game p pl i a [[d1]; [d2]] t.

Example seq_run_tower_explicit (p : paramsR) pl i a :
  1 / 4 * ((seq_S p pl i a 0 0 0 + seq_S p pl i a 0 0 1) + (seq_S p pl i a 0 1 0 + seq_S p pl i a 0 1 1) +
           (seq_S p pl i a 1 0 0 + seq_S p pl i a 1 0 1) + (seq_S p pl i a 1 1 0 + seq_S p pl i a 1 1 1)) =
  true_inc seq_game pl i a (@init_state RNum seq_game) +
  (1 / 2 * true_inc seq_game pl i a (run_state seq_game p [[0%nat]]) +
   1 / 2 * true_inc seq_game pl i a (run_state seq_game p [[1%nat]])).
Proof.
  pose proof (sampled_run_tower_pred seq_game p seq_WF seq_ChanceOK seq_NoRepeat pl i a 1) as H.
  cbn [seq_game g_chance expect_run expect wsum sum_upto] in H.
  unfold true_inc_at in H. cbn [firstn] in H. rewrite run_state_nil in H.
  unfold seq_S. lra.
Qed.

(** the estimator is not degenerate: in the first iteration of [seq_game] the sampled
    increment at (player one, infoset 0, action 0) is 1/4 or 0 according to the draw, and the
    true increment is their mean *)
Example seq_first_iteration it :
  sampled_inc seq_game true 0 0 it (@init_state RNum seq_game) [0%nat] = 1 / 4 /\
  sampled_inc seq_game true 0 0 it (@init_state RNum seq_game) [1%nat] = 0 /\
  true_inc seq_game true 0 0 (@init_state RNum seq_game) = 1 / 8.
Proof.
  unfold sampled_inc, true_inc, reg_sum, seq_game, init_state, strat_view.
  cbn -[Rplus Rmult Rminus Ropp Rdiv Rinv IZR N.sub].
  unfold node_regret, cfw. cbn -[Rplus Rmult Rminus Ropp Rdiv Rinv IZR N.sub].
  change (INR (Pos.to_nat 2)) with (1 + 1). repeat split; lra.
Qed.

(** ** The final statements *)
Check expect_run_snoc :
  forall rows n (f : list (list nat) -> R),
    expect_run rows (S n) f = expect_run rows n (fun ds => expect rows (fun d => f (ds ++ [d]))).
Check run_state_inv :
  forall (g : gameR) (p : paramsR) ds, WFgame g -> InvA (arities g true) (arities g false) (run_state g p ds).
Check sampled_md_step :
  forall (g : gameR) (p : paramsR), WFgame g -> ChanceOK g -> NoRepeat (g_root g) ->
  forall pl i a it ds,
    expect (g_chance g) (fun d => sampled_inc g pl i a it (run_state g p ds) d) =
    true_inc g pl i a (run_state g p ds).
Check sampled_md_conditional :
  forall (g : gameR) (p : paramsR), WFgame g -> ChanceOK g -> NoRepeat (g_root g) ->
  forall pl i a ds,
    expect (g_chance g) (fun d => sampled_inc_at g p pl i a (ds ++ [d]) (length ds)) =
    true_inc_at g p pl i a ds (length ds).
Check sampled_md_orthogonal :
  forall (g : gameR) (p : paramsR), WFgame g -> ChanceOK g -> NoRepeat (g_root g) ->
  forall pl i a n (h : list (list nat) -> R),
    expect_run (g_chance g) (S n)
      (fun ds => h (firstn n ds) * (sampled_inc_at g p pl i a ds n - true_inc_at g p pl i a ds n)) = 0.
Check sampled_run_tower :
  forall (g : gameR) (p : paramsR), WFgame g -> ChanceOK g -> NoRepeat (g_root g) ->
  forall pl i a T,
    expect_run (g_chance g) T (fun ds => sum_upto T (sampled_inc_at g p pl i a ds)) =
    expect_run (g_chance g) T (fun ds => sum_upto T (true_inc_at g p pl i a ds)).
Check sampled_run_diff_zero :
  forall (g : gameR) (p : paramsR), WFgame g -> ChanceOK g -> NoRepeat (g_root g) ->
  forall pl i a T,
    expect_run (g_chance g) T
      (fun ds => sum_upto T (fun t => sampled_inc_at g p pl i a ds t - true_inc_at g p pl i a ds t)) = 0.
Check sampled_run_tower_pred :
  forall (g : gameR) (p : paramsR), WFgame g -> ChanceOK g -> NoRepeat (g_root g) ->
  forall pl i a T,
    expect_run (g_chance g) (S T) (fun ds => sum_upto (S T) (sampled_inc_at g p pl i a ds)) =
    expect_run (g_chance g) T (fun ds => sum_upto (S T) (true_inc_at g p pl i a ds)).
Check run_state_solve_loop :
  forall (g : gameR) (p : paramsR) ds (stop : R -> bool),
    (forall b, stop b = false) ->
    fst (fst (@solve_loop RNum g Sampled (draw_run ds) p stop (length ds) 1
                          (@init_state RNum g) None 0%N)) = run_state g p ds.
Check sampled_run_regret_tower :
  forall (g : gameR), WFgame g -> ChanceOK g -> NoRepeat (g_root g) ->
  forall pl i a T,
    (i < length (arities g pl))%nat -> (a < nth i (arities g pl) O)%nat ->
    expect_run (g_chance g) T
      (fun ds => nth a (cum_regret (@ri_get RNum (run_state g (@p_vanilla RNum) ds) pl i)) 0) =
    expect_run (g_chance g) T (fun ds => sum_upto T (true_inc_at g (@p_vanilla RNum) pl i a ds)).
