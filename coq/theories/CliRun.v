(** * CliRun: what the options of the binary mean ([main.rs] after argument parsing):
    the composition  reader -> [Game::solve] -> clip decision -> [Output].

    [clap] turns the command line into [Args]; this file starts from [Args].  The option
    table (which constructor each [--discount] value selects, [--max-iters 0] meaning "no
    limit", the method names) is transcribed here and tied to the binary by the end-to-end
    correspondence of check C16 (the Python driver maps the options the same way and compares
    the binary with the library and with this model). *)
From Coq Require Import Reals List Bool NArith Permutation.
From Cfr.theories Require Import Num RInst Tree GameWF Strat Eval Solve Valid SolveValidProofs
     Cli CliProofs SolveApi.
Import ListNotations.
Open Scope R_scope.

Inductive discount := DVanilla | DLcfr | DCfrPlus | DDcfr | DDcfrPrune.

(** [Discount::into_params] *)
Definition discount_params (d : discount) : @params RNum :=
  match d with
  | DVanilla => @p_vanilla RNum
  | DLcfr => @p_lcfr RNum
  | DCfrPlus => @p_cfr_plus RNum
  | DDcfr => @p_dcfr RNum
  | DDcfrPrune => @p_dcfr_prune RNum
  end.

Record args := mkArgs {
  arg_clip : R;            (* -c, default 0 *)
  arg_max_regret : R;      (* -r, default 0 *)
  arg_max_iters : N;       (* -t, default 1000; 0 = no limit *)
  arg_parallel : N;        (* -p, default 0 = available parallelism *)
  arg_method : method;     (* -m, default external *)
  arg_discount : discount  (* -d, default dcfr *)
}.

Definition default_args : args := mkArgs 0 0 1000%N 0%N External DDcfr.

(** [if args.max_iters == 0 { u64::MAX } else { args.max_iters }] *)
Definition effective_iters (n : N) : N := if N.eqb n 0 then (2 ^ 64 - 1)%N else n.

(** [None] = the process panics ([.unwrap()] of a [SolveError], or a rejected input): no
    result object is printed *)
Definition cli_run (a : args) (input : loaded (@game RNum * R)) (draw : @oracle RNum) (par : N)
           (s : schedules) : option (@output RNum * @game RNum) :=
  match input with
  | Rejected _ => None
  | Loaded (g, sum) =>
      match solve_api g (arg_method a) draw (discount_params (arg_discount a))
                      (N.to_nat (effective_iters (arg_max_iters a)))
                      (@stop_at RNum (arg_max_regret a)) (arg_parallel a) par s with
      | ApiThreadOverflow => None
      | ApiOk (strats, _, _) => Some (@cli_choose RNum g sum (arg_clip a) strats, g)
      end
  end.

(** ** the option table *)
Theorem discount_table :
  discount_params DVanilla = @p_vanilla RNum /\ discount_params DLcfr = @p_lcfr RNum /\
  discount_params DCfrPlus = @p_cfr_plus RNum /\ discount_params DDcfr = @p_dcfr RNum /\
  discount_params DDcfrPrune = @p_dcfr_prune RNum /\
  discount_params (arg_discount default_args) = @p_default RNum.
Proof. repeat split. Qed.

Theorem zero_iters_means_unbounded :
  effective_iters 0 = (2 ^ 64 - 1)%N /\ forall n, n <> 0%N -> effective_iters n = n.
Proof.
  split; [reflexivity|]. intros n Hn. unfold effective_iters.
  destruct (N.eqb_spec n 0); [contradiction|reflexivity].
Qed.

(** ** a rejected input prints nothing *)
Theorem cli_run_rejected a r draw par s : cli_run a (Rejected r) draw par s = None.
Proof. reflexivity. Qed.

(** ** what is printed is the clip decision applied to the library's solution for the mapped
    parameters, and — for every method under a fixed oracle — does not depend on the
    parallelism option, the machine's parallelism, the schedule of the workers or the
    reduction order *)
Theorem cli_run_is_library a g sum draw par s :
  WFgame g -> schedules_ok s ->
  solve_api g (arg_method a) draw (discount_params (arg_discount a))
            (N.to_nat (effective_iters (arg_max_iters a))) (@stop_at RNum (arg_max_regret a))
            (arg_parallel a) par s <> ApiThreadOverflow ->
  cli_run a (Loaded (g, sum)) draw par s =
  Some (@cli_choose RNum g sum (arg_clip a)
          (fst (fst (@solve_single RNum g (arg_method a) draw (discount_params (arg_discount a))
                                   (N.to_nat (effective_iters (arg_max_iters a)))
                                   (@stop_at RNum (arg_max_regret a))))), g).
Proof.
  intros HWF Hs Hne. unfold cli_run.
  rewrite (solve_api_thread_independent g _ draw _ _ _ _ par s HWF Hs Hne).
  destruct (@solve_single RNum g (arg_method a) draw (discount_params (arg_discount a))
                          (N.to_nat (effective_iters (arg_max_iters a)))
                          (@stop_at RNum (arg_max_regret a))) as [[strats regs] ran].
  reflexivity.
Qed.

Corollary cli_run_parallel_irrelevant a a' g sum draw par par' s s' :
  WFgame g -> schedules_ok s -> schedules_ok s' ->
  arg_clip a' = arg_clip a -> arg_max_regret a' = arg_max_regret a ->
  arg_max_iters a' = arg_max_iters a -> arg_method a' = arg_method a ->
  arg_discount a' = arg_discount a ->
  cli_run a (Loaded (g, sum)) draw par s <> None ->
  cli_run a' (Loaded (g, sum)) draw par' s' <> None ->
  cli_run a' (Loaded (g, sum)) draw par' s' = cli_run a (Loaded (g, sum)) draw par s.
Proof.
  intros HWF Hs Hs' E1 E2 E3 E4 E5 H1 H2.
  assert (N1 : solve_api g (arg_method a) draw (discount_params (arg_discount a))
                         (N.to_nat (effective_iters (arg_max_iters a)))
                         (@stop_at RNum (arg_max_regret a)) (arg_parallel a) par s
               <> ApiThreadOverflow).
  { intros E. apply H1. unfold cli_run. now rewrite E. }
  assert (N2 : solve_api g (arg_method a') draw (discount_params (arg_discount a'))
                         (N.to_nat (effective_iters (arg_max_iters a')))
                         (@stop_at RNum (arg_max_regret a')) (arg_parallel a') par' s'
               <> ApiThreadOverflow).
  { intros E. apply H2. unfold cli_run. now rewrite E. }
  rewrite (cli_run_is_library a g sum draw par s HWF Hs N1).
  rewrite (cli_run_is_library a' g sum draw par' s' HWF Hs' N2).
  now rewrite E1, E2, E3, E4, E5.
Qed.

(** ** what is printed is always a valid profile (every thread count, every option) *)
Theorem cli_run_valid a g sum draw par s out g' :
  WFgame g -> arities_pos g -> schedules_ok s ->
  cli_run a (Loaded (g, sum)) draw par s = Some (out, g') ->
  g' = g /\ Valid g (o_prof out).
Proof.
  intros HWF Hpos Hs E. unfold cli_run in E.
  destruct (solve_api g (arg_method a) draw (discount_params (arg_discount a))
                      (N.to_nat (effective_iters (arg_max_iters a)))
                      (@stop_at RNum (arg_max_regret a)) (arg_parallel a) par s)
    as [[[strats regs] ran]|] eqn:Ea; [|discriminate].
  injection E as Eo Eg. subst out g'. split; [reflexivity|].
  apply cli_printed_valid.
  pose proof (solve_api_valid g _ draw _ _ _ _ par s strats regs ran HWF Hs Ea) as E1.
  pose proof (solve_single_valid g (arg_method a) draw (discount_params (arg_discount a))
                                 (N.to_nat (effective_iters (arg_max_iters a)))
                                 (@stop_at RNum (arg_max_regret a)) Hpos) as HV.
  rewrite E1 in HV. exact HV.
Qed.
