(** * TruncProofs: [Strategies::truncate] keeps a valid profile and only removes
    small actions (property C18).  All statements are about the real-number
    instance; the threshold is generalised to an arbitrary *monotone* predicate
    [above] on probabilities, which covers every f64 threshold: a finite [h]
    ([above p := h < p]), [-inf] (constantly true), [+inf] and NaN (constantly
    false). *)
From Coq Require Import Reals List Lra Lia Bool Arith.
From Cfr.theories Require Import Num RInst Tree Strat Valid.
Import ListNotations.
Open Scope R_scope.

Definition mono (above : R -> bool) : Prop :=
  forall p q, above p = true -> p <= q -> above q = true.

Lemma mono_thr h : mono (fun p => Rltb h p).
Proof. intros p q H Hq. apply Rltb_true in H. apply Rltb_true. lra. Qed.
Lemma mono_true : mono (fun _ => true).   Proof. intros p q H _; exact H. Qed.
Lemma mono_false : mono (fun _ => false). Proof. intros p q H _; exact H. Qed.

(** ** Sums over filtered / rescaled rows *)
Lemma Rsum_filter_le (f : R -> bool) l :
  Forall (fun x => 0 <= x) l -> 0 <= Rsum (filter f l) <= Rsum l.
Proof.
  induction 1 as [|x l Hx Hl IH]; cbn [filter Rsum]; [lra|].
  destruct (f x); cbn [Rsum]; lra.
Qed.

Lemma Rsum_trunc (f : R -> bool) c l :
  Rsum (map (fun p => if f p then p / c else 0) l) = Rsum (filter f l) / c.
Proof.
  induction l as [|x l IH]; cbn [map filter Rsum]; [unfold Rdiv; lra|].
  rewrite IH. destruct (f x); cbn [Rsum]; unfold Rdiv; lra.
Qed.

Lemma Rsum_filter_all (f : R -> bool) l :
  (forall x, In x l -> f x = true) -> filter f l = l.
Proof.
  induction l as [|x l IH]; intros H; cbn [filter]; [reflexivity|].
  rewrite (H x (or_introl eq_refl)), IH; [reflexivity|]. intros y Hy; apply H; now right.
Qed.

Lemma Rsum_ge_In x l : Forall (fun x => 0 <= x) l -> In x l -> x <= Rsum l.
Proof.
  induction 1 as [|y l Hy Hl IH]; intros Hin; [destruct Hin|].
  pose proof (Rsum_nonneg l Hl). cbn [Rsum]. destruct Hin as [->|Hin]; [lra|]. specialize (IH Hin); lra.
Qed.

Lemma Rsum_filter_pos_all (f : R -> bool) l :
  Forall (fun x => 0 <= x) l ->
  (forall x, In x l -> 0 < x -> f x = true) -> Rsum (filter f l) = Rsum l.
Proof.
  induction 1 as [|x l Hx Hl IH]; intros H; cbn [filter Rsum]; [reflexivity|].
  assert (IH' : Rsum (filter f l) = Rsum l) by (apply IH; intros y Hy; apply H; now right).
  destruct (f x) eqn:E; cbn [Rsum]; [lra|].
  destruct (Rlt_dec 0 x) as [Hp|Hn].
  - rewrite (H x (or_introl eq_refl) Hp) in E; discriminate.
  - assert (x = 0) by lra. lra.
Qed.

Section Trunc.
  Local Notation trunc := (@truncate_row_by RNum).

  Lemma trunc_unfold (above : R -> bool) (row : list R) :
    trunc above row =
    let total := Rsum (filter above row) in
    if Rltb 0 total then map (fun p => if above p then p / total else 0) row else row.
  Proof. unfold truncate_row_by. cbn. rewrite sum_Rsum. reflexivity. Qed.

  Lemma trunc_length (above : R -> bool) (row : list R) : length (trunc above row) = length row.
  Proof.
    rewrite trunc_unfold; cbv zeta. destruct (Rltb 0 _); [apply map_length|reflexivity].
  Qed.

  (** C18.1 on one infoset: the result is a distribution, for *any* predicate *)
  Lemma trunc_valid (above : R -> bool) (row : list R) : VRow row -> VRow (trunc above row).
  Proof.
    intros [Hnn Hs]. rewrite trunc_unfold; cbv zeta.
    destruct (Rltb 0 _) eqn:E; [|split; assumption].
    apply Rltb_true in E. split.
    - apply Forall_forall; intros y Hy. apply in_map_iff in Hy as (x & <- & Hx).
      rewrite Forall_forall in Hnn. specialize (Hnn x Hx).
      destruct (above x); [|lra]. apply Rmult_le_pos; [lra|]. left; now apply Rinv_0_lt_compat.
    - rewrite Rsum_trunc. unfold Rdiv. apply Rinv_r. lra.
  Qed.

  (** the total of the kept entries is positive as soon as one entry is kept *)
  Lemma kept_total_pos (above : R -> bool) (row : list R) :
    mono above -> VRow row -> (exists p, In p row /\ above p = true) ->
    0 < Rsum (filter above row).
  Proof.
    intros Hm [Hnn Hs] (p & Hp & Ha).
    pose proof Hnn as Hnn'. rewrite Forall_forall in Hnn'. pose proof (Hnn' p Hp) as Hp0.
    destruct (Rlt_dec 0 p) as [Hpos|Hz].
    - assert (In p (filter above row)) by (apply filter_In; now split).
      assert (Forall (fun x => 0 <= x) (filter above row)).
      { apply Forall_forall; intros x Hx. apply filter_In in Hx as [Hx _]. now apply Hnn'. }
      pose proof (Rsum_ge_In p _ H0 H). lra.
    - assert (p = 0) by lra; subst p.
      rewrite Rsum_filter_all; [lra|]. intros x Hx. apply (Hm 0); [assumption|now apply Hnn'].
  Qed.

  (** C18.2a: where some action exceeds the threshold, exactly those actions remain,
      rescaled proportionally *)
  Lemma trunc_support (above : R -> bool) (row : list R) :
    mono above -> VRow row -> (exists p, In p row /\ above p = true) ->
    let total := Rsum (filter above row) in
    0 < total /\
    trunc above row = map (fun p => if above p then p / total else 0) row.
  Proof.
    intros Hm Hv Hex total. pose proof (kept_total_pos above row Hm Hv Hex) as Hpos.
    split; [exact Hpos|]. rewrite trunc_unfold; cbv zeta.
    fold total. destruct (Rltb 0 total) eqn:E; [reflexivity|]. apply Rltb_false in E. unfold total in E. lra.
  Qed.

  (** C18.2b: an infoset in which no action exceeds the threshold is unchanged *)
  Lemma trunc_none (above : R -> bool) (row : list R) :
    (forall p, In p row -> above p = false) -> trunc above row = row.
  Proof.
    intros H. rewrite trunc_unfold; cbv zeta.
    assert (filter above row = []) as ->.
    { induction row as [|x l IH]; cbn [filter]; [reflexivity|].
      rewrite (H x (or_introl eq_refl)). apply IH. intros p Hp; apply H; now right. }
    cbn [Rsum]. destruct (Rltb 0 0) eqn:E; [|reflexivity]. apply Rltb_true in E; lra.
  Qed.

  (** C18.3: a threshold below every positive probability changes nothing *)
  Lemma trunc_small (above : R -> bool) (row : list R) :
    VRow row -> (forall p, In p row -> 0 < p -> above p = true) -> trunc above row = row.
  Proof.
    intros [Hnn Hs] H. rewrite trunc_unfold; cbv zeta.
    rewrite (Rsum_filter_pos_all above row Hnn H), Hs.
    destruct (Rltb 0 1) eqn:E; [|reflexivity].
    rewrite <- (map_id row) at 2. apply map_ext_in. intros p Hp.
    destruct (above p) eqn:Ea; [field|].
    rewrite Forall_forall in Hnn. specialize (Hnn p Hp).
    destruct (Rlt_dec 0 p) as [Hpos|Hz]; [rewrite (H p Hp Hpos) in Ea; discriminate|lra].
  Qed.

  (** C18.4: truncating twice equals truncating once *)
  Lemma trunc_idem (above : R -> bool) (row : list R) :
    mono above -> VRow row -> trunc above (trunc above row) = trunc above row.
  Proof.
    intros Hm Hv.
    destruct (existsb above row) eqn:Eex.
    - apply existsb_exists in Eex as (p0 & Hp0 & Ha0).
      destruct (trunc_support above row Hm Hv (ex_intro _ p0 (conj Hp0 Ha0))) as [Hpos Heq].
      set (total := Rsum (filter above row)) in *.
      destruct Hv as [Hnn Hs].
      assert (Htot1 : total <= 1).
      { pose proof (Rsum_filter_le above row Hnn). unfold total. lra. }
      apply trunc_small; [rewrite Heq; fold total; rewrite <- Heq; apply trunc_valid; now split|].
      rewrite Heq. intros q Hq Hqpos. apply in_map_iff in Hq as (p & <- & Hp).
      destruct (above p) eqn:Ea; [|lra].
      apply (Hm p); [assumption|].
      rewrite Forall_forall in Hnn. specialize (Hnn p Hp).
      assert (p * 1 <= p * / total).
      { apply Rmult_le_compat_l; [lra|]. rewrite <- Rinv_1 at 1. apply Rinv_le_contravar; lra. }
      unfold Rdiv; lra.
    - rewrite (trunc_none above row); [apply trunc_none|].
      all: intros p Hp; destruct (above p) eqn:E; [|reflexivity].
      all: assert (existsb above row = true) by (apply existsb_exists; eauto); congruence.
  Qed.
End Trunc.

(** ** Whole profiles *)
Section Flat.
  Definition truncR_flat (above : R -> bool) (ars : list nat) (flat : list R) : list R :=
    concat (map (@truncate_row_by RNum above) (split_by flat ars)).

  Lemma truncate_flat_is h ars flat :
    @truncate_flat RNum h ars flat = truncR_flat (fun p => Rltb h p) ars flat.
  Proof. reflexivity. Qed.

  Lemma trunc_flat_split (above : R -> bool) ars (flat : list R) :
    length flat = nsum ars ->
    split_by (truncR_flat above ars flat) ars =
    map (@truncate_row_by RNum above) (split_by flat ars).
  Proof.
    intros H. unfold truncR_flat.
    rewrite <- (split_by_length flat ars H) at 2.
    rewrite <- (length_concat_map (@truncate_row_by RNum above)) by apply trunc_length.
    apply split_by_concat.
  Qed.

  Lemma trunc_flat_length (above : R -> bool) ars (flat : list R) :
    length flat = nsum ars -> length (truncR_flat above ars flat) = nsum ars.
  Proof.
    intros H. unfold truncR_flat.
    assert (forall rows : list (list R),
               length (concat (map (@truncate_row_by RNum above) rows)) = length (concat rows)) as ->.
    { induction rows as [|r rows IH]; cbn [map concat]; [reflexivity|].
      rewrite !app_length, trunc_length, IH; reflexivity. }
    rewrite concat_split_by; assumption.
  Qed.

  Theorem trunc_flat_valid (above : R -> bool) ars (flat : list R) :
    VFlat ars flat -> VFlat ars (truncR_flat above ars flat).
  Proof.
    intros [Hl Hv]. split; [now apply trunc_flat_length|].
    rewrite trunc_flat_split by assumption.
    rewrite Forall_map. eapply Forall_impl; [|exact Hv]. intros r; apply trunc_valid.
  Qed.

  Theorem trunc_flat_idem (above : R -> bool) ars (flat : list R) :
    mono above -> VFlat ars flat ->
    truncR_flat above ars (truncR_flat above ars flat) = truncR_flat above ars flat.
  Proof.
    intros Hm [Hl Hv]. unfold truncR_flat at 1. rewrite trunc_flat_split by assumption.
    unfold truncR_flat. f_equal. rewrite map_map. apply map_ext_in.
    intros r Hr. rewrite Forall_forall in Hv. apply trunc_idem; auto.
  Qed.

  Theorem trunc_flat_small (above : R -> bool) ars (flat : list R) :
    VFlat ars flat -> (forall p, In p flat -> 0 < p -> above p = true) ->
    truncR_flat above ars flat = flat.
  Proof.
    intros [Hl Hv] H. unfold truncR_flat.
    rewrite <- (concat_split_by flat ars Hl) at 2. f_equal.
    rewrite <- (map_id (split_by flat ars)) at 2. apply map_ext_in.
    intros r Hr. rewrite Forall_forall in Hv. apply trunc_small; [auto|].
    intros p Hp. apply H. rewrite <- (concat_split_by flat ars Hl). apply in_concat. eauto.
  Qed.
End Flat.
