(** * EvalProofs: the model of [regret::expected] computes the expected payoff.

    - [u_leaves]: the specification [u] is the sum, over the terminal nodes, of reach
      probability times payoff;
    - [expected_exact]: [expected g s1 s2 = u_game g s1 s2] for non-negative rows (the
      accumulator, the stack order and the skipping of actions of probability [<= 0] do
      not matter over the reals);
    - the corollaries at the level of [info] that do not depend on the best response. *)
From Coq Require Import Reals List Bool Arith Lra Lia.
From Cfr.theories Require Import Num RInst Tree GameWF Eval Valid EvalSpec.
Import ListNotations.
Open Scope R_scope.

Local Notation node := (@node RNum).
Local Notation game := (@game RNum).

(** ** [u] is the expected terminal payoff *)
Definition lsum (l : list (R * R)) : R := Rsum (map (fun rx => fst rx * snd rx) l).

Lemma lsum_app a b : lsum (a ++ b) = lsum a + lsum b.
Proof. unfold lsum. now rewrite map_app, Rsum_app. Qed.

Lemma lsum_scale p l : lsum (scale_leaves p l) = p * lsum l.
Proof.
  unfold lsum, scale_leaves. induction l as [|x l IH]; cbn [map Rsum fst snd]; [lra|].
  rewrite IH. lra.
Qed.

Lemma leaves_kids (f : node -> R) (lf : node -> list (R * R)) ps kids :
  Forall (fun k => f k = lsum (lf k)) kids ->
  dot ps (map f kids) =
  lsum (concat (map (fun pl => scale_leaves (fst pl) (snd pl)) (combine ps (map lf kids)))).
Proof.
  intros HF. revert ps. induction HF as [|k ks Hk _ IH]; intros [|p ps];
    cbn [map combine concat]; try reflexivity.
  unfold dot in *. cbn [combine map Rsum fst snd].
  rewrite lsum_app, lsum_scale, <- IH, Hk. reflexivity.
Qed.

Theorem u_leaves chance s1 s2 n :
  u chance s1 s2 n = lsum (leaves chance s1 s2 n).
Proof.
  induction n as [x|ci kids IH|pl i kids IH] using node_ind'.
  - unfold lsum. cbn. lra.
  - cbn [u leaves]. now apply leaves_kids.
  - cbn [u leaves]. now apply leaves_kids.
Qed.

(** ** [exp_acc]: unfolding lemmas for the local loops *)
Section Loops.
  Context (f : node -> R -> R -> R) (reach : R).
  Fixpoint ego_c (ps : list R) (ks : list node) (acc : R) {struct ks} : R :=
    match ps, ks with
    | p :: ps', k :: ks' => f k (p * reach) (ego_c ps' ks' acc)
    | _, _ => acc
    end.

  Fixpoint ego_p (ps : list R) (ks : list node) (acc : R) {struct ks} : R :=
    match ps, ks with
    | p :: ps', k :: ks' =>
        if Rltb 0 p then f k (p * reach) (ego_p ps' ks' acc) else ego_p ps' ks' acc
    | _, _ => acc
    end.
End Loops.

Lemma exp_acc_Term chance s1 s2 x reach acc :
  @exp_acc RNum chance s1 s2 (Term x) reach acc = acc + reach * x.
Proof. reflexivity. Qed.

Lemma exp_acc_Chance chance s1 s2 ci kids reach acc :
  @exp_acc RNum chance s1 s2 (Chance ci kids) reach acc =
  ego_c (@exp_acc RNum chance s1 s2) reach (rowR chance ci) kids acc.
Proof. reflexivity. Qed.

Lemma exp_acc_Player chance s1 s2 pl i kids reach acc :
  @exp_acc RNum chance s1 s2 (Player pl i kids) reach acc =
  ego_p (@exp_acc RNum chance s1 s2) reach (rowR (if pl then s1 else s2) i) kids acc.
Proof. reflexivity. Qed.

Lemma ego_c_sum (f : node -> R -> R -> R) (v : node -> R) reach ps kids acc :
  Forall (fun k => forall r a, f k r a = a + r * v k) kids ->
  ego_c f reach ps kids acc = acc + reach * dot ps (map v kids).
Proof.
  intros HF. revert ps. induction HF as [|k ks Hk _ IH]; intros [|p ps];
    unfold dot; cbn [ego_c map combine Rsum fst snd]; try lra.
  rewrite Hk, IH. unfold dot. lra.
Qed.

Lemma ego_p_sum (f : node -> R -> R -> R) (v : node -> R) reach ps kids acc :
  Forall (fun x => 0 <= x) ps ->
  Forall (fun k => forall r a, f k r a = a + r * v k) kids ->
  ego_p f reach ps kids acc = acc + reach * dot ps (map v kids).
Proof.
  intros HP HF. revert ps HP. induction HF as [|k ks Hk _ IH]; intros [|p ps] HP;
    unfold dot; cbn [ego_p map combine Rsum fst snd]; try lra.
  inversion HP as [|? ? Hp HP']; subst.
  destruct (Rltb 0 p) eqn:E.
  - rewrite Hk, IH by assumption. unfold dot. lra.
  - apply Rltb_false in E. assert (p = 0) as -> by lra.
    rewrite IH by assumption. unfold dot. lra.
Qed.

Lemma NonnegRows_row s i : NonnegRows s -> Forall (fun x => 0 <= x) (rowR s i).
Proof.
  intros H. unfold rowR. destruct (Nat.lt_ge_cases i (length s)) as [Hi|Hi].
  - unfold NonnegRows in H. rewrite Forall_forall in H. apply H. now apply nth_In.
  - rewrite nth_overflow by assumption. constructor.
Qed.

Lemma exp_acc_exact chance s1 s2 n :
  NonnegRows s1 -> NonnegRows s2 ->
  forall reach acc, @exp_acc RNum chance s1 s2 n reach acc = acc + reach * u chance s1 s2 n.
Proof.
  intros H1 H2.
  induction n as [x|ci kids IH|pl i kids IH] using node_ind'; intros reach acc.
  - reflexivity.
  - rewrite exp_acc_Chance. cbn [u]. now apply ego_c_sum.
  - rewrite exp_acc_Player. cbn [u]. apply ego_p_sum; [|assumption].
    destruct pl; now apply NonnegRows_row.
Qed.

(** ** Theorem 1 *)
Theorem expected_exact (g : game) (s1 s2 : list (list R)) :
  NonnegRows s1 -> NonnegRows s2 -> @expected RNum g s1 s2 = u_game g s1 s2.
Proof.
  intros H1 H2. unfold expected, u_game. rewrite exp_acc_exact by assumption.
  cbn [zero one RNum]. lra.
Qed.

(** ** Valid profiles *)
Lemma VRow_nonneg r : VRow r -> Forall (fun x => 0 <= x) r.
Proof. now intros [H _]. Qed.

Lemma Forall_VRow_NonnegRows s : Forall VRow s -> NonnegRows s.
Proof. intros H. unfold NonnegRows. eapply Forall_impl; [|exact H]. apply VRow_nonneg. Qed.

Definition strat1 (g : game) (prof : list R * list R) : list (list R) :=
  split_by (fst prof) (arities g true).
Definition strat2 (g : game) (prof : list R * list R) : list (list R) :=
  split_by (snd prof) (arities g false).

Lemma Valid_strat1 g prof : Valid g prof -> StratOf g true (strat1 g prof).
Proof.
  intros [[Hl Hv] _]. split; [exact Hv|]. unfold strat1. now apply split_by_length.
Qed.

Lemma Valid_strat2 g prof : Valid g prof -> StratOf g false (strat2 g prof).
Proof.
  intros [_ [Hl Hv]]. split; [exact Hv|]. unfold strat2. now apply split_by_length.
Qed.

Lemma StratOf_nonneg g me s : StratOf g me s -> NonnegRows s.
Proof. intros [H _]. now apply Forall_VRow_NonnegRows. Qed.

(** ** Corollaries at the [info] level (the part that needs no best-response theory) *)
Theorem info_util_exact (g : game) prof :
  Valid g prof ->
  si_util (@info RNum g prof) = u_game g (strat1 g prof) (strat2 g prof).
Proof.
  intros HV. cbn [info si_util]. apply expected_exact.
  - eapply StratOf_nonneg, Valid_strat1, HV.
  - eapply StratOf_nonneg, Valid_strat2, HV.
Qed.

Theorem info_utility_one (g : game) prof :
  Valid g prof ->
  @si_utility RNum (@info RNum g prof) true = u_me g true (strat1 g prof) (strat2 g prof).
Proof. intros HV. unfold si_utility, u_me. now apply info_util_exact. Qed.

Theorem info_utility_two (g : game) prof :
  Valid g prof ->
  @si_utility RNum (@info RNum g prof) false = u_me g false (strat2 g prof) (strat1 g prof).
Proof.
  intros HV. unfold si_utility, u_me. rewrite info_util_exact by assumption. reflexivity.
Qed.

Theorem info_utility_zero_sum (g : game) prof :
  @si_utility RNum (@info RNum g prof) false = - @si_utility RNum (@info RNum g prof) true.
Proof. reflexivity. Qed.

Theorem info_reg1_def (g : game) prof :
  Valid g prof ->
  si_reg1 (@info RNum g prof) =
  Rmax (@br_value RNum g true (strat2 g prof) - u_me g true (strat1 g prof) (strat2 g prof)) 0.
Proof.
  intros HV. unfold u_me. rewrite <- info_util_exact by assumption. reflexivity.
Qed.

Theorem info_reg2_def (g : game) prof :
  Valid g prof ->
  si_reg2 (@info RNum g prof) =
  Rmax (@br_value RNum g false (strat1 g prof) - u_me g false (strat2 g prof) (strat1 g prof)) 0.
Proof.
  intros HV. unfold u_me. rewrite <- info_util_exact by assumption.
  cbn [info si_reg2 si_util fmax add sub zero RNum]. f_equal. unfold strat1, strat2.
  unfold Rminus. rewrite Ropp_involutive. reflexivity.
Qed.

Theorem info_regret_def (g : game) prof :
  @si_regret RNum (@info RNum g prof) =
  Rmax (si_reg1 (@info RNum g prof)) (si_reg2 (@info RNum g prof)).
Proof. reflexivity. Qed.
