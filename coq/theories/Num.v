(** * Num: the arithmetic interface the whole model is written against.

    The Rust code computes in [f64]; the model is written once over this record
    and instantiated twice: at Coq's reals (what the theorems are about) and at
    primitive binary64 floats (what the correspondence executes). *)
From Coq Require Import List NArith Bool.
Import ListNotations.

Record Num := mkNum {
  T : Type;
  zero : T; one : T;
  add : T -> T -> T; sub : T -> T -> T; mul : T -> T -> T; div : T -> T -> T;
  neg : T -> T; absv : T -> T;
  fmax : T -> T -> T;             (* f64::max *)
  fmin : T -> T -> T;             (* f64::min *)
  ltb : T -> T -> bool;           (* a < b, false on NaN *)
  leb : T -> T -> bool;           (* a <= b, false on NaN *)
  eqb : T -> T -> bool;           (* a == b, false on NaN, 0 == -0 *)
  is_fin : T -> bool;             (* f64::is_finite *)
  is_nan : T -> bool;             (* f64::is_nan *)
  is_pinf : T -> bool;            (* x == f64::INFINITY *)
  is_ninf : T -> bool;            (* x == f64::NEG_INFINITY *)
  pinf : T;                       (* f64::INFINITY (only meaningful for floats) *)
  exp : T -> T; ln : T -> T;
  pow : T -> T -> T;              (* f64::powf, used with base >= 0 *)
  of_N : N -> T                   (* u64/usize as f64 *)
}.

Section Generic.
  Context {NN : Num}.
  Local Notation T := (T NN).

  Definition two : T := add NN (one NN) (one NN).

  (** [Iterator::sum] for f64: left fold starting from 0 (Rust starts at -0.0 for
      floats since 1.83?  The pinned toolchain sums from 0.0; the difference is
      only visible on an empty list of a signed zero and never compared). *)
  Definition sum (l : list T) : T := fold_left (add NN) l (zero NN).

  Definition gtb (a b : T) : bool := ltb NN b a.
  Definition geb (a b : T) : bool := leb NN b a.

  (** [Iterator::reduce(f64::max)] *)
  Definition reduce_max (l : list T) : option T :=
    match l with
    | [] => None
    | x :: r => Some (fold_left (fmax NN) r x)
    end.

  Fixpoint repeatT (x : T) (n : nat) : list T :=
    match n with O => [] | S k => x :: repeatT x k end.

  Definition lenT (l : list T) : T := of_N NN (N.of_nat (length l)).
End Generic.

(** Splitting a flat vector by a list of lengths ([split_by]). *)
Fixpoint split_by {A} (l : list A) (lens : list nat) : list (list A) :=
  match lens with
  | [] => []
  | n :: r => firstn n l :: split_by (skipn n l) r
  end.
