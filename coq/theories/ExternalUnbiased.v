(** * ExternalUnbiased: the external-sampling regret increments are unbiased.

    Fix the strategies [sg] and the active player [me].  Draw one index per chance
    infoset (weights: its chance row) and one action per infoset of the other player
    (weights: its current strategy row), all independently.  If no chance infoset
    repeats on a path ([NoRepeat]) and no infoset of the other player repeats on a path
    ([PNoRepeat], a consequence of perfect recall: [PerfectRecall_PNoRepeat]), the
    expectation of the increment one external pass makes at (infoset, action) of [me]
    is the counterfactual increment [cfr_inc] of the unsampled pass — the
    counterfactual regret *without* the own reach factor ([external_unbiased]).

    Proof: pathwise the increment is [cfr_inc] over one-hot chance rows and one-hot
    rows of the other player ([ExternalRate.ext_reg_sum]); [cfr_inc] of player [me] is
    affine in every chance row ([Unbiased.cfr_inc_affine]) and in every row of the
    other player ([cfr_inc_affine_sg]) separately. *)
From Coq Require Import Reals List Lra Lia Bool Arith NArith FunctionalExtensionality.
From Cfr.theories Require Import Num RInst Tree GameWF Strat Eval Solve Valid TruncProofs
     SolveValidProofs LoopProofs Incr IterChar RmPotential CfMass CfrRate ExtIncr SampledRate
     ExternalRate Unbiased.
Import ListNotations.
Open Scope R_scope.

Local Notation nodeR := (@node RNum).
Local Notation gameR := (@game RNum).
Local Notation pstateR := (@pstate RNum).
Local Notation oracleR := (@oracle RNum).

(** ** [uval] and [cfr_inc] depend on the strategies through the rows met in the tree *)
Section SgExt.
  Context (T : list (list R)) (sg sg' : bool -> nat -> list R).

  Lemma uval_sg_ext n :
    (forall pl i, occurs pl i n = true -> sg' pl i = sg pl i) -> uval T sg' n = uval T sg n.
  Proof.
    induction n as [x|ci kids IH|pl i kids IH] using node_ind'; intros H; cbn [uval].
    - reflexivity.
    - apply val_chance_ext. rewrite Forall_forall in *. intros c Hc. apply IH; [assumption|].
      intros pl i Ho. apply H. cbn [occurs]. apply existsb_exists. eauto.
    - rewrite (H pl i) by (cbn [occurs]; apply orb_true_iff; left; apply is_info_true; auto).
      apply val_player_ext. rewrite Forall_forall in *. intros c Hc. apply IH; [assumption|].
      intros pl' i' Ho. apply H. cbn [occurs]. apply orb_true_iff. right.
      apply existsb_exists. eauto.
  Qed.

  Lemma cfr_inc_sg_ext pl i a n :
    (forall pl' i', occurs pl' i' n = true -> sg' pl' i' = sg pl' i') ->
    forall pc p1 p2, cfr_inc T sg' pl i a n pc p1 p2 = cfr_inc T sg pl i a n pc p1 p2.
  Proof.
    induction n as [x|ci kids IH|pl' i' kids IH] using node_ind'; intros H pc p1 p2; cbn [cfr_inc].
    - reflexivity.
    - apply sum_chance_ext. rewrite Forall_forall in *. intros c Hc. apply IH; [assumption|].
      intros pl0 i0 Ho. apply H. cbn [occurs]. apply existsb_exists. eauto.
    - rewrite (H pl' i') by (cbn [occurs]; apply orb_true_iff; left; apply is_info_true; auto).
      assert (HK : forall c, In c kids ->
                forall pl0 i0, occurs pl0 i0 c = true -> sg' pl0 i0 = sg pl0 i0).
      { intros c Hc pl0 i0 Ho. apply H. cbn [occurs]. apply orb_true_iff. right.
        apply existsb_exists. eauto. }
      f_equal.
      + destruct (is_info pl' i' pl i); [|reflexivity]. f_equal. unfold node_regret.
        assert (HU : Forall (fun c => uval T sg' c = uval T sg c) kids).
        { apply Forall_forall. intros c Hc. apply uval_sg_ext. now apply HK. }
        now rewrite (act_val_ext' _ _ kids _ a HU), (val_player_ext _ _ kids _ 0 HU).
      + apply sum_player_ext. rewrite Forall_forall in *. intros c Hc. apply IH; auto.
        now apply HK.
  Qed.
End SgExt.

(** [cfr_inc] of player [me] is homogeneous in the reach of the other player *)
Lemma cfr_inc_scale_opp T sg (me : bool) i a n :
  forall x pc p1 p2,
    cfr_inc T sg me i a n pc (if me then p1 else p1 * x) (if me then p2 * x else p2) =
    x * cfr_inc T sg me i a n pc p1 p2.
Proof.
  induction n as [y|ci kids IH|pl' i' kids IH] using node_ind'; intros x pc p1 p2; cbn [cfr_inc].
  - lra.
  - generalize (@row RNum T ci) as ps.
    induction IH as [|c ks Hc H IH']; intros ps; destruct ps as [|p ps]; cbn [sum_chance]; try lra.
    rewrite IH', Hc. lra.
  - rewrite Rmult_plus_distr_l. f_equal.
    + destruct (is_info pl' i' me i) eqn:E; [|lra]. apply is_info_true in E as [-> _].
      unfold cfw. destruct me; ring.
    + generalize (sg pl' i') as ss.
      induction IH as [|c ks Hc H IH']; intros ss; destruct ss as [|p ss]; cbn [sum_player]; try lra.
      rewrite IH'.
      assert (E : (if pl'
                   then cfr_inc T sg me i a c pc ((if me then p1 else p1 * x) * p)
                                (if me then p2 * x else p2)
                   else cfr_inc T sg me i a c pc (if me then p1 else p1 * x)
                                ((if me then p2 * x else p2) * p)) =
                  x * (if pl' then cfr_inc T sg me i a c pc (p1 * p) p2
                       else cfr_inc T sg me i a c pc p1 (p2 * p))).
      { destruct pl', me.
        - apply (Hc x pc (p1 * p) p2).
        - replace (p1 * x * p) with (p1 * p * x) by ring. apply (Hc x pc (p1 * p) p2).
        - replace (p2 * x * p) with (p2 * p * x) by ring. apply (Hc x pc p1 (p2 * p)).
        - apply (Hc x pc p1 (p2 * p)). }
      rewrite E. lra.
Qed.

(** a strategy row against its own children: the weighted sum of the picks *)
Lemma val_player_wsum_pick (f : nodeR -> R) r ks :
  length ks = length r ->
  @val_player RNum f ks r 0 =
  wsum r (fun k => match nth_error ks k with Some c => f c | None => 0 end).
Proof.
  revert ks; induction r as [|x r IH]; intros ks E; destruct ks as [|c ks]; try discriminate;
    cbn [val_player wsum nth_error]; [reflexivity|].
  change (add RNum) with Rplus. change (mul RNum) with Rmult. change (zero RNum) with 0.
  rewrite val_player_acc, IH by (cbn [length] in E; lia). lra.
Qed.

Lemma sum_player_wsum_pick (F : nodeR -> R -> R -> R -> R) (pl' : bool) pc p1 p2 r ks :
  (forall (c : nodeR) x, (if pl' then F c pc (p1 * x) p2 else F c pc p1 (p2 * x)) =
                         x * (if pl' then F c pc (p1 * 1) p2 else F c pc p1 (p2 * 1))) ->
  length ks = length r ->
  sum_player F pl' pc p1 p2 ks r =
  wsum r (fun k => match nth_error ks k with
                   | Some c => if pl' then F c pc (p1 * 1) p2 else F c pc p1 (p2 * 1)
                   | None => 0
                   end).
Proof.
  intros HF. revert ks; induction r as [|x r IH]; intros ks E; destruct ks as [|c ks];
    try discriminate; cbn [sum_player wsum nth_error]; [reflexivity|].
  rewrite IH by (cbn [length] in E; lia). rewrite (HF c x). lra.
Qed.

(** ** Shape (lengths only) and non-repetition of one player infoset *)
Inductive LShaped (T : list (list R)) (sg : bool -> nat -> list R) : nodeR -> Prop :=
| LS_Term x : LShaped T sg (@Term RNum x)
| LS_Chance ci kids :
    length kids = length (@row RNum T ci) -> Forall (LShaped T sg) kids ->
    LShaped T sg (@Chance RNum ci kids)
| LS_Player pl i kids :
    length kids = length (sg pl i) -> Forall (LShaped T sg) kids ->
    LShaped T sg (@Player RNum pl i kids).

Lemma ValShaped_LShaped T sg n : ValShaped T sg n -> LShaped T sg n.
Proof.
  induction n as [x|ci kids IH|pl i kids IH] using node_ind'; intros HV;
    inversion HV as [|? ? EL HR HVk|? ? ? EL HR HVk]; subst; constructor;
    try assumption; rewrite Forall_forall in *; intros c Hc; apply IH; auto.
Qed.

Lemma LShaped_CShaped T sg n : LShaped T sg n -> CShaped T n.
Proof.
  induction n as [x|ci kids IH|pl i kids IH] using node_ind'; intros HV;
    inversion HV as [|? ? EL HVk|? ? ? EL HVk]; subst; constructor;
    try assumption; rewrite Forall_forall in *; intros c Hc; apply IH; auto.
Qed.

Lemma LShaped_lens T sg sg' n :
  (forall pl i, length (sg' pl i) = length (sg pl i)) -> LShaped T sg n -> LShaped T sg' n.
Proof.
  intros HL. induction n as [x|ci kids IH|pl i kids IH] using node_ind'; intros HV;
    inversion HV as [|? ? EL HVk|? ? ? EL HVk]; subst; constructor;
    try (rewrite Forall_forall in *; intros c Hc; apply IH; auto).
  - exact EL.
  - rewrite HL. exact EL.
Qed.

(** infoset [(pl0, j0)] does not occur below one of its own nodes *)
Inductive PNoRepeat (pl0 : bool) (j0 : nat) : nodeR -> Prop :=
| PN_Term x : PNoRepeat pl0 j0 (@Term RNum x)
| PN_Chance ci kids : Forall (PNoRepeat pl0 j0) kids -> PNoRepeat pl0 j0 (@Chance RNum ci kids)
| PN_Player pl i kids :
    (is_info pl i pl0 j0 = true -> Forall (fun c => occurs pl0 j0 c = false) kids) ->
    Forall (PNoRepeat pl0 j0) kids -> PNoRepeat pl0 j0 (@Player RNum pl i kids).

(** perfect recall: all nodes of the infoset have one own history, so none lies below
    another *)
Lemma GoodH_PNoRepeat pl0 j0 hI n :
  forall h1 h2, GoodH pl0 j0 hI n h1 h2 -> PNoRepeat pl0 j0 n.
Proof.
  induction n as [x|ci kids IH|pl i kids IH] using node_ind'; intros h1 h2 HG.
  - constructor.
  - constructor. rewrite Forall_forall in *. intros c Hc. apply (IH c Hc h1 h2).
    intros h Hh. apply HG. rewrite CfMass.hists_Chance. eapply In_hists_chance; eauto.
  - constructor.
    + intros Ei. apply is_info_true in Ei as [-> ->].
      apply Forall_forall. intros c Hin.
      destruct (occurs pl0 j0 c) eqn:Ec; [|reflexivity]. exfalso.
      apply In_nth_error in Hin as (k & Hk).
      destruct (occ_hists_own pl0 j0 j0 kids k c h1 h2 Hk Ec) as (suf & Hs).
      apply HG in Hs.
      assert (H0 : hp pl0 h1 h2 = hI).
      { apply HG. rewrite CfMass.hists_Player. left. reflexivity. }
      rewrite <- H0 in Hs. apply (f_equal (@length _)) in Hs.
      rewrite app_length in Hs. cbn [length] in Hs. lia.
    + rewrite Forall_forall in *. intros c Hc.
      apply In_nth_error in Hc as (k & Hk).
      apply (IH c (nth_error_In _ _ Hk) (ext1 pl i h1 k) (ext2 pl i h2 k)).
      intros h Hh. apply HG. rewrite CfMass.hists_Player. right.
      apply (In_hists_player pl i h1 h2 kids k 0 c); assumption.
Qed.

Lemma PerfectRecall_PNoRepeat (g : gameR) pl0 j0 : PerfectRecall g -> PNoRepeat pl0 j0 (g_root g).
Proof.
  intros (H & HH). apply (GoodH_PNoRepeat pl0 j0 (H pl0 j0) (g_root g) [] []).
  intros h Hh. now apply HH.
Qed.

(** ** [uval] and [cfr_inc] of the other player are affine in one strategy row *)
Section AffineSg.
  Context (T : list (list R)) (sg : bool -> nat -> list R) (sgk : nat -> bool -> nat -> list R)
          (pl0 : bool) (j0 : nat).
  Local Notation r := (sg pl0 j0).
  Context (Hsum : Rsum r = 1)
          (Hk : forall k, sgk k pl0 j0 = hot (length r) k)
          (Ho : forall k pl i, is_info pl i pl0 j0 = false -> sgk k pl i = sg pl i).

  Lemma sgk_ext k n :
    occurs pl0 j0 n = false ->
    forall pl i, occurs pl i n = true -> sgk k pl i = sg pl i.
  Proof.
    intros Hn pl i Hi. apply Ho. destruct (is_info pl i pl0 j0) eqn:E; [|reflexivity].
    apply is_info_true in E as [-> ->]. rewrite Hn in Hi. discriminate.
  Qed.

  Theorem uval_affine_sg n :
    PNoRepeat pl0 j0 n -> LShaped T sg n -> uval T sg n = wsum r (fun k => uval T (sgk k) n).
  Proof.
    induction n as [x|ci kids IH|pl i kids IH] using node_ind'; intros HN HL;
      inversion HN as [|? ? HNk|? ? ? HNo HNk]; subst;
      inversion HL as [|? ? EL HLk|? ? ? EL HLk]; subst; cbn [uval].
    - rewrite wsum_const, Hsum. lra.
    - apply val_chance_wsum. rewrite Forall_forall in *. intros c Hc. apply IH; auto.
    - destruct (is_info pl i pl0 j0) eqn:Ei.
      + specialize (HNo eq_refl). apply is_info_true in Ei as [-> ->].
        rewrite val_player_wsum_pick by assumption.
        apply wsum_ext. intros k _. rewrite Hk, <- EL, val_player_hot, Rplus_0_l.
        destruct (nth_error kids k) as [c|] eqn:Ek; [|reflexivity].
        apply nth_error_In in Ek. rewrite Forall_forall in *. symmetry.
        apply uval_sg_ext. apply sgk_ext. now apply HNo.
      + rewrite (wsum_ext r _ (fun k => @val_player RNum (uval T (sgk k)) kids (sg pl i) 0))
          by (intros k _; now rewrite Ho).
        apply val_player_wsum. rewrite Forall_forall in *. intros c Hc. apply IH; auto.
  Qed.

  Theorem cfr_inc_affine_sg me i a n :
    pl0 <> me -> PNoRepeat pl0 j0 n -> LShaped T sg n ->
    forall pc p1 p2,
    cfr_inc T sg me i a n pc p1 p2 = wsum r (fun k => cfr_inc T (sgk k) me i a n pc p1 p2).
  Proof.
    intros Hne.
    induction n as [x|ci kids IH|pl' i' kids IH] using node_ind'; intros HN HL pc p1 p2;
      inversion HN as [|? ? HNk|? ? ? HNo HNk]; subst;
      inversion HL as [|? ? EL HLk|? ? ? EL HLk]; subst; cbn [cfr_inc].
    - rewrite wsum_const. lra.
    - apply sum_chance_wsum. rewrite Forall_forall in *. intros c Hc. apply IH; auto.
    - destruct (is_info pl' i' pl0 j0) eqn:Ei.
      + specialize (HNo eq_refl). apply is_info_true in Ei as [-> ->].
        replace (is_info pl0 j0 me i) with false.
        2:{ symmetry. destruct (is_info pl0 j0 me i) eqn:E; [|reflexivity].
            apply is_info_true in E as [E _]. contradiction. }
        rewrite Rplus_0_l.
        rewrite (wsum_ext r _ (fun k => sum_player (cfr_inc T (sgk k) me i a) pl0 pc p1 p2 kids
                                                   (hot (length r) k)))
          by (intros k _; rewrite Hk; lra).
        rewrite sum_player_wsum_pick; [|
          intros c x; pose proof (cfr_inc_scale_opp T sg me i a c x pc p1 p2) as Hx;
          pose proof (cfr_inc_scale_opp T sg me i a c 1 pc p1 p2) as H1;
          destruct pl0, me; try congruence; rewrite Hx, H1; lra
          |assumption].
        apply wsum_ext. intros k _. rewrite <- EL.
        rewrite sum_player_hot.
        2:{ intros c. destruct pl0; apply cfr_inc_zero; unfold oppw;
              destruct me; try congruence; ring. }
        destruct (nth_error kids k) as [c|] eqn:Ek; [|reflexivity].
        apply nth_error_In in Ek. rewrite Forall_forall in *.
        assert (E : forall qc q1 q2, cfr_inc T (sgk k) me i a c qc q1 q2 =
                                     cfr_inc T sg me i a c qc q1 q2).
        { apply cfr_inc_sg_ext. apply sgk_ext. now apply HNo. }
        destruct pl0; now rewrite E.
      + rewrite (wsum_ext r _
                   (fun k => (if is_info pl' i' me i
                              then cfw pl' pc p1 p2 * node_regret T (sgk k) kids (sg pl' i') a
                              else 0)
                             + sum_player (cfr_inc T (sgk k) me i a) pl' pc p1 p2 kids (sg pl' i')))
          by (intros k _; now rewrite Ho).
        rewrite wsum_plus. f_equal.
        * unfold node_regret. rewrite wsum_lin by assumption.
          assert (HU : Forall (fun c => uval T sg c = wsum r (fun k => uval T (sgk k) c)) kids).
          { rewrite Forall_forall in *. intros c Hc. apply uval_affine_sg; auto. }
          now rewrite <- (act_val_wsum r _ _ kids HU), <- (val_player_wsum r _ _ kids HU).
        * apply sum_player_wsum. rewrite Forall_forall in *. intros c Hc. apply IH; auto.
  Qed.
End AffineSg.

(** ** Replacing the rows of one player by one-hot rows, one infoset at a time *)
Section Iterate.
  Context (opp : bool).

  Definition upd1 (sgc : bool -> nat -> list R) (j k : nat) : bool -> nat -> list R :=
    fun pl i => if is_info pl i opp j then hot (length (sgc opp j)) k else sgc pl i.

  (** rows [j0 .. j0 + |eps|) of player [opp] replaced by the one-hot rows of [eps] *)
  Definition repl (sgc : bool -> nat -> list R) (j0 : nat) (eps : list nat) : bool -> nat -> list R :=
    fun pl i => if Bool.eqb pl opp && Nat.leb j0 i && Nat.ltb i (j0 + length eps)
                then hot (length (sgc pl i)) (nth (i - j0) eps O) else sgc pl i.

  Lemma repl_nil sgc j0 : repl sgc j0 [] = sgc.
  Proof.
    apply functional_extensionality; intros pl. apply functional_extensionality; intros i.
    unfold repl. cbn [length]. destruct (Bool.eqb pl opp); cbn [andb]; [|reflexivity].
    destruct (Nat.leb_spec j0 i); cbn [andb]; [|reflexivity].
    destruct (Nat.ltb_spec i (j0 + 0)); [lia|reflexivity].
  Qed.

  Lemma repl_cons sgc j0 k eps : repl (upd1 sgc j0 k) (S j0) eps = repl sgc j0 (k :: eps).
  Proof.
    apply functional_extensionality; intros pl. apply functional_extensionality; intros i.
    unfold repl, upd1, is_info. cbn [length].
    destruct (Bool.eqb pl opp) eqn:Epl; cbn [andb]; [|reflexivity].
    apply Bool.eqb_prop in Epl. subst pl.
    destruct (Nat.leb_spec (S j0) i) as [H1|H1]; destruct (Nat.leb_spec j0 i) as [H2|H2];
      try lia; cbn [andb].
    - destruct (Nat.ltb_spec i (S j0 + length eps)) as [H3|H3];
        destruct (Nat.ltb_spec i (j0 + S (length eps))) as [H4|H4]; try lia.
      + destruct (Nat.eqb_spec i j0) as [->|Hne]; [lia|].
        replace (i - j0)%nat with (S (i - S j0)) by lia. reflexivity.
      + destruct (Nat.eqb_spec i j0) as [->|Hne]; [lia|reflexivity].
    - assert (i = j0) by lia. subst i. rewrite Nat.eqb_refl.
      destruct (Nat.ltb_spec j0 (j0 + S (length eps))) as [H4|H4]; [|lia].
      rewrite Nat.sub_diag. reflexivity.
    - destruct (Nat.eqb_spec i j0) as [->|Hne]; [lia|reflexivity].
  Qed.

  Lemma expect_repl (G : (bool -> nat -> list R) -> R) (P : (bool -> nat -> list R) -> Prop) :
    (forall sgc j, P sgc -> Rsum (sgc opp j) = 1 ->
                   G sgc = wsum (sgc opp j) (fun k => G (upd1 sgc j k))) ->
    (forall sgc j k, P sgc -> P (upd1 sgc j k)) ->
    forall m j0 sgc, P sgc -> (forall j, (j0 <= j < j0 + m)%nat -> Rsum (sgc opp j) = 1) ->
    expect (map (sgc opp) (seq j0 m)) (fun eps => G (repl sgc j0 eps)) = G sgc.
  Proof.
    intros HG HP. induction m as [|m IH]; intros j0 sgc HPs Hs; cbn [seq map expect].
    - now rewrite repl_nil.
    - rewrite (HG sgc j0) by (try assumption; apply Hs; lia).
      apply wsum_ext. intros k _.
      rewrite <- (IH (S j0) (upd1 sgc j0 k)).
      + assert (E : map (upd1 sgc j0 k opp) (seq (S j0) m) = map (sgc opp) (seq (S j0) m)).
        { apply map_ext_in. intros j Hj. apply in_seq in Hj. unfold upd1, is_info.
          rewrite Bool.eqb_reflx. destruct (Nat.eqb_spec j j0); [lia|reflexivity]. }
        rewrite E. apply expect_ext. intros eps _. now rewrite repl_cons.
      + now apply HP.
      + intros j Hj. unfold upd1, is_info. rewrite Bool.eqb_reflx.
        destruct (Nat.eqb_spec j j0); [lia|]. apply Hs. lia.
  Qed.
End Iterate.

(** ** The theorem *)

(** the oracle that answers [delta] at chance infosets and [eps] at the infosets of the
    player other than [me] ([noff]: number of infosets of player one, the offset of
    player two's ids) *)
Definition draw2 (me : bool) (noff : nat) (delta eps : list nat) : oracleR :=
  fun kind id _ _ => if kind then nth id delta O
                     else nth (id - (if me then noff else 0))%nat eps O.

Section ExtUnbiased.
  Context (chance : list (list R)) (sg : bool -> nat -> list R) (me : bool) (n : nodeR)
          (M noff : nat) (cpass ppass : N).
  Local Notation opp := (negb me).
  Context (Hrows : Forall (fun r => Rsum r = 1) chance)
          (HN : NoRepeat n) (HPN : forall j, PNoRepeat opp j n)
          (HV : ValShaped chance sg n)
          (Hsum : forall j, (j < M)%nat -> Rsum (sg opp j) = 1)
          (Hout : forall j, (M <= j)%nat -> sg opp j = []).

  Lemma opp_ne : opp <> me.
  Proof. destruct me; discriminate. Qed.

  Lemma ext_sg_draw2 delta eps :
    length eps = M -> ext_sg (draw2 me noff delta eps) ppass noff sg me = repl opp sg 0 eps.
  Proof.
    intros HL.
    apply functional_extensionality; intros pl. apply functional_extensionality; intros i.
    unfold ext_sg, repl, pdraw, draw2, ext_id. cbn [Nat.leb andb]. rewrite Nat.sub_0_r, HL.
    cbn [Nat.add].
    destruct (Bool.eqb pl me) eqn:E1.
    - apply Bool.eqb_prop in E1. subst pl.
      replace (Bool.eqb me opp) with false by (destruct me; reflexivity). reflexivity.
    - assert (pl = opp) by (destruct pl, me; try discriminate; reflexivity). subst pl.
      rewrite Bool.eqb_reflx. cbn [andb].
      assert (Ei : ((if opp then i else noff + i) - (if me then noff else 0))%nat = i)
        by (destruct me; cbn [negb]; lia).
      rewrite Ei. destruct (Nat.ltb_spec i M) as [Hlt|Hge]; [reflexivity|].
      rewrite Hout by assumption. reflexivity.
  Qed.

  (** pathwise: the increment under the oracle [(delta, eps)] *)
  Lemma ext_pathwise delta eps i a :
    length delta = length chance -> length eps = M ->
    reg_sum me i a (map tr (eincs chance (draw2 me noff delta eps) cpass ppass noff me sg n)) =
    cfr_inc (hots chance delta) (repl opp sg 0 eps) me i a n 1 1 1.
  Proof.
    intros Hd He.
    rewrite (ext_reg_sum chance (draw2 me noff delta eps) cpass ppass noff sg me i a n HV 1 1 1)
      by (unfold oppw; destruct me; lra).
    rewrite ext_sg_draw2 by assumption.
    apply cfr_inc_table_ext. intros ci _. rewrite row_samp, row_hots by assumption. reflexivity.
  Qed.

  Lemma LShaped_upd1 sgc j k : LShaped chance sgc n -> LShaped chance (upd1 opp sgc j k) n.
  Proof.
    apply LShaped_lens. intros pl i. unfold upd1.
    destruct (is_info pl i opp j) eqn:E; [|reflexivity].
    apply is_info_true in E as [-> ->]. apply hot_length.
  Qed.

  Theorem external_unbiased i a :
    expect (map (sg opp) (seq 0 M))
           (fun eps =>
              expect chance
                     (fun delta =>
                        reg_sum me i a
                                (map tr (eincs chance (draw2 me noff delta eps) cpass ppass noff me sg n)))) =
    cfr_inc chance sg me i a n 1 1 1.
  Proof.
    rewrite (expect_ext _ _ (fun eps => cfr_inc chance (repl opp sg 0 eps) me i a n 1 1 1)).
    - apply (expect_repl opp (fun sgc => cfr_inc chance sgc me i a n 1 1 1)
                         (fun sgc => LShaped chance sgc n)).
      + intros sgc j HL Hs.
        apply (cfr_inc_affine_sg chance sgc (upd1 opp sgc j) opp j); try assumption.
        * intros k. unfold upd1. replace (is_info opp j opp j) with true; [reflexivity|].
          symmetry. apply is_info_true. auto.
        * intros k pl i' E. unfold upd1. now rewrite E.
        * apply opp_ne.
        * apply HPN.
      + intros sgc j k. apply LShaped_upd1.
      + now apply ValShaped_LShaped.
      + intros j Hj. apply Hsum. lia.
    - intros eps He. rewrite map_length, seq_length in He.
      rewrite (expect_ext _ _ (fun delta => cfr_inc (hots chance delta) (repl opp sg 0 eps)
                                                    me i a n 1 1 1))
        by (intros delta Hd; now apply ext_pathwise).
      apply expect_cfr_inc; try assumption.
      eapply ValShaped_CShaped; eauto.
  Qed.
End ExtUnbiased.

(** ** At the level of a game and a solver state *)
Theorem external_unbiased_game (g : gameR) (st : pstateR) me cpass ppass i a :
  WFgame g -> PerfectRecall g -> ChanceOK g -> InvA (arities g true) (arities g false) st ->
  NoRepeat (g_root g) ->
  expect (map (strat_view st (negb me)) (seq 0 (length (g_infos g (negb me)))))
         (fun eps =>
            expect (g_chance g)
                   (fun delta =>
                      reg_sum me i a
                              (map tr (eincs (g_chance g)
                                             (draw2 me (length (g_infos1 g)) delta eps)
                                             cpass ppass (length (g_infos1 g)) me
                                             (strat_view st) (g_root g))))) =
  cfr_inc (g_chance g) (strat_view st) me i a (g_root g) 1 1 1.
Proof.
  intros HWF HPR HC HI HN.
  pose proof (Inv_of_InvA _ _ _ HI) as HInv.
  pose proof (IA_len g st (negb me) HI) as HL. unfold NI in HL.
  apply external_unbiased; try assumption.
  - now apply ChanceOK_sums.
  - intros j. now apply PerfectRecall_PNoRepeat.
  - destruct HWF as (HS & _). now apply shaped_ValShaped.
  - intros j Hj. apply Inv_strat_sum; [assumption|lia].
  - intros j Hj. unfold strat_view. rewrite ri_get_oob by lia. reflexivity.
Qed.

(** ** Example: matching pennies, active player one; the expectation is over the single
    infoset of player two *)
Lemma mp_NoRepeat : NoRepeat (g_root mp_game).
Proof. cbn. repeat constructor. Qed.

Example mp_external_unbiased (st : pstateR) cpass ppass i a :
  InvA (arities mp_game true) (arities mp_game false) st ->
  wsum (strat_view st false 0)
       (fun k => reg_sum true i a
                         (map tr (eincs (g_chance mp_game) (draw2 true 1 [] [k]) cpass ppass 1 true
                                        (strat_view st) (g_root mp_game)))) =
  cfr_inc (g_chance mp_game) (strat_view st) true i a (g_root mp_game) 1 1 1.
Proof.
  intros HI.
  rewrite <- (external_unbiased_game mp_game st true cpass ppass i a mp_WF mp_PR mp_ChanceOK HI
                                     mp_NoRepeat).
  reflexivity.
Qed.
