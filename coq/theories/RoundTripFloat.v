(** * RoundTripFloat: the named view / import round trip at binary64 (instance [FNum]).

    Property C13: "importing that view back yields the original profile (up to
    rounding in the last place)".  The named view lists the positive entries of
    a stored row; the import writes them into a dense row (the other entries are
    [+0]) and runs [finish_row row (sum row)] on it.  So the round trip of a
    stored row [r] is [trip r := finish_row r (sum r)].  This file proves, for
    the very function the correspondence check executes, that a round trip moves
    every entry by a few units in the last place at most, that rows whose float
    sum is exactly 1 are fixed points bit for bit, and that repeated round trips
    do not drift by more than the same bound per trip. *)
From Coq Require Import List ZArith NArith Reals Floats Bool Lia Lra.
From Flocq Require Import Core IEEE754.BinarySingleNaN IEEE754.PrimFloat Plus_error Relative.
From Cfr.theories Require Import Num FInst Tree Strat Solve TruncFloat NormFloat.
Import ListNotations.

Local Existing Instance Flocq.IEEE754.PrimFloat.Hprec.
Local Existing Instance Flocq.IEEE754.PrimFloat.Hmax.

Local Open Scope R_scope.
Local Notation float := PrimFloat.float.
Local Notation Hp := Flocq.IEEE754.PrimFloat.Hprec.
Local Notation Hm := Flocq.IEEE754.PrimFloat.Hmax.

Local Instance fexp_valid'' : Valid_exp (SpecFloat.fexp prec emax) := fexp_correct prec emax Hp.

(** ** The round trip of one stored row *)

Definition trip (r : list float) : list float := @finish_row FNum r (@sum FNum r).

(** ** 3. Division by one is the identity, bit for bit *)

Lemma Bdiv_one : forall x : binary_float prec emax,
  is_finite x = true -> Bdiv mode_NE x Bone = x.
Proof.
  intros x Hx.
  assert (H1 : B2R (@Bone prec emax Hp Hm) <> 0) by (rewrite Bone_correct; lra).
  generalize (Bdiv_correct prec emax Hp Hm mode_NE x Bone H1).
  change (round_mode mode_NE) with ZnearestE.
  rewrite Bone_correct. unfold Rdiv. rewrite Rinv_1, Rmult_1_r.
  fold (rnd (B2R x)).
  rewrite (rnd_fmt (B2R x)) by apply generic_format_B2R.
  rewrite Rlt_bool_true by (apply abs_B2R_lt_emax).
  intros [E1 [E2 E3]].
  assert (Hf : is_finite (Bdiv mode_NE x Bone) = true) by (rewrite E2; exact Hx).
  apply B2R_Bsign_inj; try assumption.
  rewrite E3.
  - rewrite Bsign_Bone. apply xorb_false_r.
  - destruct (Bdiv mode_NE x Bone); try discriminate Hf; reflexivity.
Qed.

Lemma div_one : forall x : float, Ffin x -> (x / 1)%float = x.
Proof.
  intros x Hx. apply Prim2B_inj. rewrite div_equiv, Prim2B_one. apply Bdiv_one. exact Hx.
Qed.

Theorem trip_fixed_one : forall r : list float,
  Forall Ffin r -> @sum FNum r = 1%float -> trip r = r.
Proof.
  intros r Hr Hs. unfold trip. rewrite Hs, finish_row_FNum.
  assert (H1 : f_is_fin 1%float = true) by (apply f_is_fin_true, Ffin_one).
  rewrite H1. clear Hs H1.
  induction Hr as [|x l Hx Hl IH]; cbn [map]; [reflexivity|].
  rewrite (div_one x Hx), IH. reflexivity.
Qed.

(** a finite float of value 1 is the float [1] *)
Lemma FR_one_inv : forall t : float, Ffin t -> FR t = 1 -> t = 1%float.
Proof.
  intros t Ht H1. apply Prim2B_inj. rewrite Prim2B_one.
  apply B2R_Bsign_inj.
  - exact Ht.
  - apply is_finite_Bone.
  - rewrite Bone_correct. exact H1.
  - rewrite Bsign_Bone. apply Bsign_pos; [exact Ht | fold (FR t); lra].
Qed.

(** ** The float sum of a stored row *)

(** what the solver / an earlier import leaves in a row: finite entries in
    [0,1] whose exact sum is 1 up to [(2n+2) 2^-53] (the bound proved for
    [finish_row], [normalise], [avg_strat], [regret_match], [truncate_row]) *)
Definition stored (r : list float) : Prop :=
  Forall fin01 r /\
  Rabs (RS r - 1) <= (2 * INR (length r) + 2) * bpow radix2 (-53).

Lemma Forall_fin01_finnn : forall l, Forall fin01 l -> Forall finnn l.
Proof. intros l H. apply Forall_impl with (2 := H). apply fin01_finnn. Qed.

Lemma total_facts : forall r : list float,
  Forall fin01 r -> (Z.of_nat (length r) < 2 ^ 53)%Z ->
  let t := @sum FNum r in
  Ffin t /\ 0 <= FR t /\ Forall (fun p => FR p <= FR t) r /\
  Rabs (FR t - RS r) <= INR (length r) * u53 * FR t.
Proof.
  intros r Hr Hlen t.
  assert (H0 : 0 <= FR 0%float <= IZR 0) by (rewrite FR_zero; lra).
  assert (Hb : (0 + Z.of_nat (length r) < 2 ^ 53)%Z) by lia.
  destruct (fsum_inv r 0%float 0%Z Hr Ffin_zero H0 (Z.le_refl 0) Hb) as [G1 [G2 [_ G4]]].
  assert (HB := fsum_err r 0%float 0%Z Hr Ffin_zero H0 (Z.le_refl 0) Hb).
  rewrite FR_zero in G2. rewrite FR_zero, Rplus_0_l in HB.
  unfold t. rewrite sum_FNum. repeat split; assumption.
Qed.

Lemma u53_2p53 : u53 * IZR (2 ^ 53) = 1.
Proof.
  change (IZR (2 ^ 53)) with (bpow radix2 53). unfold u53.
  rewrite <- bpow_plus. reflexivity.
Qed.

(** the arithmetic of the bound: with [n <= 2^25] entries,
    [(6 n^2 + 16 n + 8) 2^-53 <= 1] *)
Lemma small_n_poly : forall n : nat, (Z.of_nat n <= 2 ^ 25)%Z ->
  u53 * (6 * (INR n * INR n) + 16 * INR n + 8) <= 1.
Proof.
  intros n Hn. rewrite <- u53_2p53.
  apply Rmult_le_compat_l; [left; apply u53_pos|].
  rewrite INR_IZR_INZ.
  set (z := Z.of_nat n) in *.
  replace (6 * (IZR z * IZR z) + 16 * IZR z + 8) with (IZR (6 * (z * z) + 16 * z + 8)).
  - apply IZR_le. assert (0 <= z)%Z by (unfold z; lia). nia.
  - rewrite !plus_IZR, !mult_IZR. reflexivity.
Qed.

(** the float sum of a stored row is within [1/(2n+4)] below 1 and below 5/3 *)
Lemma total_near_one : forall r : list float,
  stored r -> (Z.of_nat (length r) <= 2 ^ 25)%Z ->
  let t := FR (@sum FNum r) in
  let N := INR (length r) in
  2 * N + 3 <= (2 * N + 4) * t /\ t <= 5 / 3.
Proof.
  intros r [Hr HS] Hlen t N.
  destruct (total_facts r Hr ltac:(lia)) as [Hf [Ht0 [_ HB]]].
  fold t in Ht0, HB. fold N in HB, HS. change (bpow radix2 (-53)) with u53 in HS.
  assert (Hu := u53_pos).
  assert (HN0 : 0 <= N) by apply pos_INR.
  assert (Hpoly := small_n_poly (length r) Hlen). fold N in Hpoly.
  set (a := N * u53) in *. set (d := (2 * N + 2) * u53) in *.
  assert (Ha0 : 0 <= a) by (apply Rmult_le_pos; lra).
  assert (HNN : 0 <= N * N) by (apply Rmult_le_pos; lra).
  assert (Ha4 : a <= / 4).
  { unfold a.
    assert (u53 * (4 * N) <= u53 * (6 * (N * N) + 16 * N + 8))
      by (apply Rmult_le_compat_l; lra).
    lra. }
  assert (Hd4 : d <= / 4).
  { unfold d.
    assert (u53 * (4 * (2 * N + 2)) <= u53 * (6 * (N * N) + 16 * N + 8))
      by (apply Rmult_le_compat_l; lra).
    lra. }
  apply Rabs_le_inv in HB. apply Rabs_le_inv in HS.
  assert (Hat : a * t <= / 4 * t) by (apply Rmult_le_compat_r; assumption).
  split; [|lra].
  set (D := 2 * N + 4). set (X := D * t).
  assert (HD : 0 < D) by (unfold D; lra).
  (* D t + a (D t) >= D - d D *)
  assert (H1 : D * (1 - d) <= X + a * X).
  { unfold X. replace (D * t + a * (D * t)) with (D * (t + a * t)) by ring.
    apply Rmult_le_compat_l; lra. }
  assert (Hsum : d * D + a * D <= 1).
  { unfold d, a, D.
    replace ((2 * N + 2) * u53 * (2 * N + 4) + N * u53 * (2 * N + 4))
      with (u53 * (6 * (N * N) + 16 * N + 8)) by ring.
    exact Hpoly. }
  destruct (Rle_or_lt (D - 1) X) as [H|H]; [unfold D in H; lra|].
  exfalso.
  assert (H2 : a * X <= a * (D - 1)) by (apply Rmult_le_compat_l; lra).
  lra.
Qed.

(** ** Rounding facts *)

(** a positive binary64 number is at least [2^-1074] *)
Lemma fmt_pos_ge_eta : forall x, fmt x -> 0 < x -> bpow radix2 (-1074) <= x.
Proof.
  intros x Hx H0.
  apply (generic_format_ge_bpow radix2 (SpecFloat.fexp prec emax) (-1074)); try assumption.
  intros e. unfold SpecFloat.fexp. apply Z.le_max_r.
Qed.

(** anything above half the smallest subnormal rounds to something positive *)
Lemma rnd_pos : forall x, bpow radix2 (-1075) < x -> 0 < rnd x.
Proof.
  intros x Hx.
  assert (He : 0 < bpow radix2 (-1075)) by apply bpow_gt_0.
  assert (Hh : bpow radix2 (-1074) = 2 * bpow radix2 (-1075)).
  { change (-1074)%Z with (1 + -1075)%Z. rewrite bpow_plus. reflexivity. }
  destruct (Rle_or_lt (bpow radix2 (-1074)) x) as [Hb|Hb].
  - apply Rlt_le_trans with (bpow radix2 (-1074)); [apply bpow_gt_0|].
    apply rnd_ge_fmt; [apply fmt_bpow_emin | exact Hb].
  - destruct (round_N_pt radix2 (SpecFloat.fexp prec emax) (fun n => negb (Z.even n)) x)
      as [_ Hn].
    specialize (Hn (bpow radix2 (-1074)) fmt_bpow_emin).
    change (round radix2 (SpecFloat.fexp prec emax) (Znearest (fun n => negb (Z.even n))) x)
      with (rnd x) in Hn.
    rewrite (Rabs_pos_eq (bpow radix2 (-1074) - x)) in Hn by lra.
    assert (H := Rabs_le_inv _ _ Hn). lra.
Qed.

(** no absolute error term in the normal range *)
Lemma div_err_normal : forall x, bpow radix2 (-1022) <= x ->
  Rabs (rnd x - x) <= u53 * x.
Proof.
  intros x Hx.
  assert (H0 : 0 < x) by (apply Rlt_le_trans with (2 := Hx); apply bpow_gt_0).
  assert (H := relative_error_N_FLT radix2 (SpecFloat.emin prec emax) prec eq_refl
                 (fun n => negb (Z.even n)) x).
  change (round radix2 (FLT_exp (SpecFloat.emin prec emax) prec)
            (Znearest (fun n => negb (Z.even n))) x) with (rnd x) in H.
  rewrite (Rabs_pos_eq x) in H by lra.
  rewrite half_bpow in H. change (bpow radix2 (- prec + 1 - 1)) with u53 in H.
  apply H. exact Hx.
Qed.

(** ** 2. One entry of the round trip

    [p] an entry, [t] the float sum of the row, [S] the exact sum, [a = n 2^-53]
    the relative error of the float sum, [d = (2n+2) 2^-53] the distance of [S]
    from 1, [e0] the absolute error term of the division, [C] a bound on
    [(2n+3)/t]. *)
Lemma close_entry : forall (p t S N C e0 : R),
  0 <= p -> 0 < t -> 0 <= N ->
  Rabs (t - S) <= N * u53 * t ->
  Rabs (S - 1) <= (2 * N + 2) * u53 ->
  2 * N + 3 <= C * t ->
  Rabs (rnd (p / t) - p / t) <= u53 * (p / t) + e0 ->
  Rabs (rnd (p / t) - p) <= (N + C) * u53 * p + e0.
Proof.
  intros p t S N C e0 Hp Ht HN HB HS Hlow Hd.
  assert (Hu := u53_pos).
  set (K := / t).
  assert (HK0 : 0 < K) by (apply Rinv_0_lt_compat; exact Ht).
  assert (HKt : K * t = 1) by (apply Rinv_l; lra).
  set (a := N * u53) in *. set (d := (2 * N + 2) * u53) in *.
  (* |K - 1| <= a + d K *)
  assert (HK1 : Rabs (K - 1) <= a + d * K).
  { replace (K - 1) with (K * (1 - t)) by (rewrite Rmult_minus_distr_l, HKt; ring).
    rewrite Rabs_mult, (Rabs_pos_eq K) by lra.
    replace (a + d * K) with (K * (a * t + d)).
    - apply Rmult_le_compat_l; [lra|].
      apply Rabs_le_inv in HB. apply Rabs_le_inv in HS. apply Rabs_le. lra.
    - rewrite Rmult_plus_distr_l.
      replace (K * (a * t)) with (a * (K * t)) by ring. rewrite HKt. ring. }
  (* (2N+3) K <= C *)
  assert (HK2 : (2 * N + 3) * K <= C).
  { replace C with (C * t * K) by (rewrite Rmult_assoc, (Rmult_comm t), HKt; ring).
    apply Rmult_le_compat_r; lra. }
  unfold Rdiv in *. fold K in Hd |- *.
  set (q := p * K) in *.
  assert (Hqp : Rabs (q - p) <= p * (a + d * K)).
  { unfold q. replace (p * K - p) with (p * (K - 1)) by ring.
    rewrite Rabs_mult, (Rabs_pos_eq p) by exact Hp.
    apply Rmult_le_compat_l; assumption. }
  apply Rabs_le_inv in Hd. apply Rabs_le_inv in Hqp. apply Rabs_le.
  assert (Hfin : u53 * q + p * (a + d * K) <= (N + C) * u53 * p).
  { unfold q, a, d.
    replace (u53 * (p * K) + p * (N * u53 + (2 * N + 2) * u53 * K))
      with (u53 * p * (N + (2 * N + 3) * K)) by ring.
    replace ((N + C) * u53 * p) with (u53 * p * (N + C)) by ring.
    apply Rmult_le_compat_l; [apply Rmult_le_pos; lra | lra]. }
  lra.
Qed.

(** ** 1 + 2. The round trip of a stored row, position by position *)

(** generic form: [C] bounds [(2n+3)/t], the float sum [t] is in (0,2) *)
Lemma trip_entries_gen : forall (r : list float) (C : R),
  stored r -> (Z.of_nat (length r) < 2 ^ 53)%Z ->
  let t := @sum FNum r in
  let out := trip r in
  let c := INR (length r) + C in
  0 < FR t -> FR t < 2 -> 2 * INR (length r) + 3 <= C * FR t ->
  length out = length r /\
  Ffin t /\
  forall k, (k < length r)%nat ->
    let p := nth k r 0%float in
    let y := nth k out 0%float in
    y = (p / t)%float /\
    FR y = rnd (FR p / FR t) /\
    (FR p = 0 -> FR y = 0) /\
    (p = 0%float -> y = 0%float) /\
    (0 < FR p -> 0 < FR y) /\
    Rabs (FR y - FR p) <= c * bpow radix2 (-53) * FR p + bpow radix2 (-1075) /\
    (bpow radix2 (-1021) <= FR p -> Rabs (FR y - FR p) <= c * bpow radix2 (-53) * FR p).
Proof.
  intros r C [Hr HS] Hlen t out c Hpos Hup Hlow.
  destruct (total_facts r Hr Hlen) as [Hf [_ [_ HB]]].
  destruct (finish_row_float_entries_fin r (Forall_fin01_finnn r Hr) Hf Hpos) as [Hl He].
  fold t in Hf, HB.
  set (N := INR (length r)) in *.
  assert (HN0 : 0 <= N) by apply pos_INR.
  change (bpow radix2 (-53)) with u53 in *.
  assert (Hu := u53_pos).
  split; [exact Hl|]. split; [exact Hf|].
  intros k Hk p y.
  destruct (He k Hk) as [E1' [_ [E3' [E4' [E5' _]]]]].
  assert (E1 : y = (p / t)%float) by exact E1'.
  assert (E3 : FR y = rnd (FR p / FR t)) by exact E3'.
  assert (E4 : FR p = 0 -> FR y = 0) by exact E4'.
  assert (E5 : p = 0%float -> y = 0%float) by exact E5'.
  clear E1' E3' E4' E5' He.
  assert (Hp : In p r) by (apply nth_In; exact Hk).
  rewrite Forall_forall in Hr. destruct (Hr p Hp) as [Hpf [Hp0 _]].
  split; [exact E1|]. split; [exact E3|]. split; [exact E4|]. split; [exact E5|].
  assert (HK : / 2 < / FR t).
  { apply Rinv_lt_contravar; [lra | lra]. }
  split; [|split].
  - intros Hpp. rewrite E3. apply rnd_pos.
    assert (Hpe := fmt_pos_ge_eta (FR p) (fmt_FR p) Hpp).
    apply Rle_lt_trans with (FR p * / 2).
    + change (-1074)%Z with (-1075 + 1)%Z in Hpe. rewrite bpow_plus in Hpe.
      change (bpow radix2 1) with 2 in Hpe. lra.
    + unfold Rdiv. apply Rmult_lt_compat_l; assumption.
  - rewrite E3. change (bpow radix2 (-1075)) with eta1075.
    apply (close_entry (FR p) (FR t) (RS r) N C eta1075 Hp0 Hpos HN0 HB HS Hlow).
    assert (Hq0 : 0 <= FR p / FR t).
    { apply Rmult_le_pos; [exact Hp0 | left; apply Rinv_0_lt_compat; exact Hpos]. }
    assert (Hd := div_err (FR p / FR t)). rewrite (Rabs_pos_eq _ Hq0) in Hd. exact Hd.
  - intros Hbig. rewrite E3.
    replace (c * u53 * FR p) with (c * u53 * FR p + 0) by ring.
    apply (close_entry (FR p) (FR t) (RS r) N C 0 Hp0 Hpos HN0 HB HS Hlow).
    rewrite Rplus_0_r. apply div_err_normal.
    apply Rle_trans with (bpow radix2 (-1021) * / 2).
    + change (-1021)%Z with (-1022 + 1)%Z. rewrite bpow_plus.
      change (bpow radix2 1) with 2. right. field.
    + unfold Rdiv. apply Rmult_le_compat; try lra. apply bpow_ge_0.
Qed.

Lemma stored_sum_ok : forall r : list float,
  stored r -> (Z.of_nat (length r) <= 2 ^ 25)%Z ->
  Ffin (@sum FNum r) /\ 0 < FR (@sum FNum r) /\
  eqb FNum (@sum FNum r) (zero FNum) = false.
Proof.
  intros r Hst Hlen.
  destruct (total_near_one r Hst Hlen) as [Hlow _].
  destruct Hst as [Hr _].
  destruct (total_facts r Hr ltac:(lia)) as [Hf [Ht0 _]].
  assert (HN0 : 0 <= INR (length r)) by apply pos_INR.
  assert (Hpos : 0 < FR (@sum FNum r)).
  { destruct (Rle_lt_or_eq_dec 0 _ Ht0) as [H|H]; [exact H|].
    exfalso. rewrite <- H, Rmult_0_r in Hlow. lra. }
  split; [exact Hf|]. split; [exact Hpos|].
  cbn [eqb zero FNum].
  destruct (PrimFloat.eqb (@sum FNum r) 0) eqn:E; [|reflexivity].
  apply (eqb_zero_fin _ Hf) in E. lra.
Qed.

(** rows of at most [2^25] entries: every entry moves by at most
    [(3n+4) 2^-53] relative (plus half the smallest subnormal, which disappears
    for entries >= 2^-1021).  Where the constant comes from: the float sum [t]
    is within [n 2^-53] (relative) of the exact sum [S], [S] is within
    [(2n+2) 2^-53] of 1 (the invariant [stored], which is all that is known of
    a row), the division rounds once more: [n + (2n+2) + 1], and one more unit
    pays for the second-order terms when [6n^2+16n+8 <= 2^53].  Under the
    invariant [stored] alone a constant [2n+O(1)] is not available: [S] may
    really sit at [1 - (2n+2) 2^-53] and the float sum another [n 2^-53] below. *)
Theorem trip_entries : forall r : list float,
  stored r -> (Z.of_nat (length r) <= 2 ^ 25)%Z ->
  let t := @sum FNum r in
  let out := trip r in
  let c := 3 * INR (length r) + 4 in
  length out = length r /\
  Ffin t /\ 1 - / (2 * INR (length r) + 4) <= FR t <= 5 / 3 /\
  forall k, (k < length r)%nat ->
    let p := nth k r 0%float in
    let y := nth k out 0%float in
    y = (p / t)%float /\
    FR y = rnd (FR p / FR t) /\
    (* zero entries stay zero, [+0] stays [+0] *)
    (FR p = 0 -> FR y = 0) /\
    (p = 0%float -> y = 0%float) /\
    (* positive entries stay positive: no side condition *)
    (0 < FR p -> 0 < FR y) /\
    (* closeness *)
    Rabs (FR y - FR p) <= c * bpow radix2 (-53) * FR p + bpow radix2 (-1075) /\
    (bpow radix2 (-1021) <= FR p -> Rabs (FR y - FR p) <= c * bpow radix2 (-53) * FR p).
Proof.
  intros r Hst Hlen t out c.
  destruct (stored_sum_ok r Hst Hlen) as [_ [Hpos _]].
  destruct (total_near_one r Hst Hlen) as [Hlow Hup].
  fold t in Hpos, Hlow, Hup.
  set (N := INR (length r)) in *.
  assert (HN0 : 0 <= N) by apply pos_INR.
  assert (Hl53 : (Z.of_nat (length r) < 2 ^ 53)%Z) by lia.
  assert (Hup2 : FR t < 2) by lra.
  destruct (trip_entries_gen r (2 * N + 4) Hst Hl53 Hpos Hup2 Hlow) as [Hl [Hf He]].
  fold t out N in Hl, Hf, He.
  replace (N + (2 * N + 4)) with c in He by (unfold c; ring).
  split; [exact Hl|]. split; [exact Hf|]. split; [|exact He].
  split; [|exact Hup].
  apply Rmult_le_reg_l with (2 * N + 4); [lra|].
  rewrite Rmult_minus_distr_l, Rmult_1_r, Rinv_r by lra. lra.
Qed.

(** rows of up to [2^50] entries: the same with the constant [5n+6] *)
Lemma total_near_one_large : forall r : list float,
  stored r -> (Z.of_nat (length r) <= 2 ^ 50)%Z ->
  let t := FR (@sum FNum r) in
  / 2 <= t /\ t <= 11 / 7.
Proof.
  intros r [Hr HS] Hlen t.
  destruct (total_facts r Hr ltac:(lia)) as [Hf [Ht0 [_ HB]]].
  fold t in Ht0, HB. change (bpow radix2 (-53)) with u53 in HS.
  set (N := INR (length r)) in *.
  assert (Hu := u53_pos).
  assert (HN0 : 0 <= N) by apply pos_INR.
  assert (HN : N <= IZR (2 ^ 50)).
  { unfold N. rewrite INR_IZR_INZ. apply IZR_le. exact Hlen. }
  assert (Hu8 : u53 * IZR (2 ^ 50) = / 8).
  { assert (H := u53_2p53).
    replace (IZR (2 ^ 53)) with (8 * IZR (2 ^ 50)) in H
      by (rewrite <- mult_IZR; reflexivity).
    lra. }
  assert (Hu16 : u53 <= / 16).
  { assert (H : u53 * 2 <= u53 * IZR (2 ^ 50)).
    { apply Rmult_le_compat_l; [lra | apply IZR_le; lia]. }
    lra. }
  set (a := N * u53) in *. set (d := (2 * N + 2) * u53) in *.
  assert (Ha8 : a <= / 8).
  { unfold a. rewrite <- Hu8, Rmult_comm. apply Rmult_le_compat_l; lra. }
  assert (Ha0 : 0 <= a) by (apply Rmult_le_pos; lra).
  assert (Hd : d <= 3 / 8).
  { unfold d. replace ((2 * N + 2) * u53) with (2 * a + 2 * u53) by (unfold a; ring). lra. }
  apply Rabs_le_inv in HB. apply Rabs_le_inv in HS.
  assert (Hat : a * t <= / 8 * t) by (apply Rmult_le_compat_r; assumption).
  assert (Hat0 : 0 <= a * t) by (apply Rmult_le_pos; assumption).
  split; lra.
Qed.

Theorem trip_entries_large : forall r : list float,
  stored r -> (Z.of_nat (length r) <= 2 ^ 50)%Z ->
  let t := @sum FNum r in
  let out := trip r in
  let c := 5 * INR (length r) + 6 in
  length out = length r /\
  Ffin t /\ / 2 <= FR t <= 11 / 7 /\
  forall k, (k < length r)%nat ->
    let p := nth k r 0%float in
    let y := nth k out 0%float in
    y = (p / t)%float /\
    FR y = rnd (FR p / FR t) /\
    (FR p = 0 -> FR y = 0) /\
    (p = 0%float -> y = 0%float) /\
    (0 < FR p -> 0 < FR y) /\
    Rabs (FR y - FR p) <= c * bpow radix2 (-53) * FR p + bpow radix2 (-1075) /\
    (bpow radix2 (-1021) <= FR p -> Rabs (FR y - FR p) <= c * bpow radix2 (-53) * FR p).
Proof.
  intros r Hst Hlen t out c.
  destruct (total_near_one_large r Hst Hlen) as [Hlow Hup].
  fold t in Hlow, Hup.
  set (N := INR (length r)) in *.
  assert (HN0 : 0 <= N) by apply pos_INR.
  assert (Hlow' : 2 * N + 3 <= (4 * N + 6) * FR t).
  { replace (2 * N + 3) with ((4 * N + 6) * / 2) by field.
    apply Rmult_le_compat_l; lra. }
  assert (Hl53 : (Z.of_nat (length r) < 2 ^ 53)%Z) by lia.
  assert (Hpos : 0 < FR t) by lra.
  assert (Hup2 : FR t < 2) by lra.
  destruct (trip_entries_gen r (4 * N + 6) Hst Hl53 Hpos Hup2 Hlow') as [Hl [Hf He]].
  fold t out N in Hl, Hf, He.
  replace (N + (4 * N + 6)) with c in He by (unfold c; ring).
  split; [exact Hl|]. split; [exact Hf|]. split; [split; assumption | exact He].
Qed.

(** the closeness alone *)
Corollary trip_close : forall r : list float,
  stored r -> (Z.of_nat (length r) <= 2 ^ 25)%Z ->
  forall k, (k < length r)%nat ->
    Rabs (FR (nth k (trip r) 0%float) - FR (nth k r 0%float))
    <= (3 * INR (length r) + 4) * bpow radix2 (-53) * FR (nth k r 0%float)
       + bpow radix2 (-1075).
Proof.
  intros r Hst Hlen k Hk.
  destruct (trip_entries r Hst Hlen) as [_ [_ [_ He]]].
  apply (He k Hk).
Qed.

(** ** 4. The result of a round trip is again a stored row *)

Theorem trip_stored : forall r : list float,
  stored r -> (Z.of_nat (length r) <= 2 ^ 25)%Z ->
  stored (trip r) /\ length (trip r) = length r.
Proof.
  intros r Hst Hlen.
  destruct (stored_sum_ok r Hst Hlen) as [_ [_ Hne]].
  destruct Hst as [Hr _].
  assert (Hnn := Forall_fin01_finnn r Hr).
  assert (Hl : length (trip r) = length r) by apply finish_row_length.
  split; [|exact Hl]. split.
  - apply finish_row_float_valid; [exact Hnn | lia | exact Hne].
  - rewrite Hl. apply finish_row_float_sum; [exact Hnn | lia | exact Hne].
Qed.

(** the second round trip: within the same bound of the first *)
Corollary trip_twice_close : forall r : list float,
  stored r -> (Z.of_nat (length r) <= 2 ^ 25)%Z ->
  forall k, (k < length r)%nat ->
    Rabs (FR (nth k (trip (trip r)) 0%float) - FR (nth k (trip r) 0%float))
    <= (3 * INR (length r) + 4) * bpow radix2 (-53) * FR (nth k (trip r) 0%float)
       + bpow radix2 (-1075).
Proof.
  intros r Hst Hlen k Hk.
  destruct (trip_stored r Hst Hlen) as [Hst' Hl].
  rewrite <- Hl. apply trip_close; rewrite ?Hl; assumption.
Qed.

(** any number of round trips *)
Fixpoint trips (j : nat) (r : list float) : list float :=
  match j with O => r | S j' => trip (trips j' r) end.

Theorem trips_stored : forall (j : nat) (r : list float),
  stored r -> (Z.of_nat (length r) <= 2 ^ 25)%Z ->
  stored (trips j r) /\ length (trips j r) = length r.
Proof.
  induction j as [|j IH]; intros r Hst Hlen; cbn [trips]; [split; [exact Hst | reflexivity]|].
  destruct (IH r Hst Hlen) as [Hst' Hl].
  destruct (trip_stored (trips j r) Hst' ltac:(rewrite Hl; exact Hlen)) as [Hst'' Hl'].
  split; [exact Hst'' | rewrite Hl'; exact Hl].
Qed.

(** no drift: every further trip moves every entry by the same relative bound *)
Theorem trips_close : forall (j : nat) (r : list float),
  stored r -> (Z.of_nat (length r) <= 2 ^ 25)%Z ->
  forall k, (k < length r)%nat ->
    Rabs (FR (nth k (trips (S j) r) 0%float) - FR (nth k (trips j r) 0%float))
    <= (3 * INR (length r) + 4) * bpow radix2 (-53) * FR (nth k (trips j r) 0%float)
       + bpow radix2 (-1075).
Proof.
  intros j r Hst Hlen k Hk.
  destruct (trips_stored j r Hst Hlen) as [Hst' Hl].
  cbn [trips]. rewrite <- Hl. apply trip_close; rewrite ?Hl; assumption.
Qed.

(** and the zero pattern never changes: zeros stay zeros, positives stay positive *)
Theorem trips_support : forall (j : nat) (r : list float),
  stored r -> (Z.of_nat (length r) <= 2 ^ 25)%Z ->
  forall k, (k < length r)%nat ->
    (FR (nth k r 0%float) = 0 -> FR (nth k (trips j r) 0%float) = 0) /\
    (nth k r 0%float = 0%float -> nth k (trips j r) 0%float = 0%float) /\
    (0 < FR (nth k r 0%float) -> 0 < FR (nth k (trips j r) 0%float)).
Proof.
  induction j as [|j IH]; intros r Hst Hlen k Hk; cbn [trips]; [tauto|].
  destruct (IH r Hst Hlen k Hk) as [I1 [I2 I3]].
  destruct (trips_stored j r Hst Hlen) as [Hst' Hl].
  destruct (trip_entries (trips j r) Hst' ltac:(rewrite Hl; exact Hlen)) as [_ [_ [_ He]]].
  destruct (He k ltac:(rewrite Hl; exact Hk)) as [_ [_ [E1 [E2 [E3 _]]]]].
  split; [|split].
  - intros H. apply E1, I1, H.
  - intros H. apply E2, I2, H.
  - intros H. apply E3, I3, H.
Qed.

(** total drift after [j] trips, absolute: at most [j] times the one-trip bound *)
Theorem trips_drift : forall (j : nat) (r : list float),
  stored r -> (Z.of_nat (length r) <= 2 ^ 25)%Z ->
  forall k, (k < length r)%nat ->
    Rabs (FR (nth k (trips j r) 0%float) - FR (nth k r 0%float))
    <= INR j * ((3 * INR (length r) + 4) * bpow radix2 (-53) + bpow radix2 (-1075)).
Proof.
  induction j as [|j IH]; intros r Hst Hlen k Hk.
  - cbn [trips INR]. rewrite Rminus_eq_0, Rabs_R0. lra.
  - assert (H1 := trips_close j r Hst Hlen k Hk).
    assert (H2 := IH r Hst Hlen k Hk).
    destruct (trips_stored j r Hst Hlen) as [[Hr' _] Hl].
    assert (Hin : In (nth k (trips j r) 0%float) (trips j r))
      by (apply nth_In; rewrite Hl; exact Hk).
    rewrite Forall_forall in Hr'. destruct (Hr' _ Hin) as [_ [Hy0 Hy1]].
    rewrite S_INR.
    set (c := (3 * INR (length r) + 4) * bpow radix2 (-53)) in *.
    assert (Hc : 0 <= c).
    { unfold c. apply Rmult_le_pos; [assert (H := pos_INR (length r)); lra | apply bpow_ge_0]. }
    assert (Hcy : c * FR (nth k (trips j r) 0%float) <= c * 1)
      by (apply Rmult_le_compat_l; assumption).
    apply Rabs_le_inv in H1. apply Rabs_le_inv in H2. apply Rabs_le.
    set (e := bpow radix2 (-1075)) in *. lra.
Qed.

(** ** 3. Fixed point: a row whose float sum is exactly 1 comes back bit for bit *)

Theorem trip_fixed : forall r : list float,
  Forall fin01 r -> (Z.of_nat (length r) < 2 ^ 53)%Z ->
  FR (@sum FNum r) = 1 -> trip r = r.
Proof.
  intros r Hr Hlen H1.
  destruct (total_facts r Hr Hlen) as [Hf _].
  apply trip_fixed_one.
  - apply Forall_impl with (2 := Hr). intros a [Ha _]. exact Ha.
  - apply FR_one_inv; assumption.
Qed.

(** a fixed point stays one: all further trips return the same row *)
Corollary trips_fixed : forall (j : nat) (r : list float),
  Forall fin01 r -> (Z.of_nat (length r) < 2 ^ 53)%Z ->
  FR (@sum FNum r) = 1 -> trips j r = r.
Proof.
  induction j as [|j IH]; intros r Hr Hlen H1; cbn [trips]; [reflexivity|].
  rewrite (IH r Hr Hlen H1). apply trip_fixed; assumption.
Qed.

(** the result of a round trip is a stored row for every length the float
    model can index, as soon as the float sum is not zero *)
Theorem trip_stored_gen : forall r : list float,
  Forall fin01 r -> (Z.of_nat (length r) < 2 ^ 53)%Z ->
  eqb FNum (@sum FNum r) (zero FNum) = false ->
  stored (trip r) /\ length (trip r) = length r.
Proof.
  intros r Hr Hlen Hne.
  assert (Hnn := Forall_fin01_finnn r Hr).
  assert (Hl : length (trip r) = length r) by apply finish_row_length.
  split; [|exact Hl]. split.
  - apply finish_row_float_valid; assumption.
  - rewrite Hl. apply finish_row_float_sum; assumption.
Qed.

(** ** The dense row that the import rebuilds from the named view

    The view of a row lists the entries [p] with [0 <? p] ([data_next] in
    [Strat.v]); the import writes them into a row initialised with [+0].  For a
    stored row this rebuilt row is the row itself, except that a [-0] entry comes
    back as [+0]; every real value is unchanged, so everything above applies. *)
Definition redense (r : list float) : list float :=
  map (fun p => if PrimFloat.ltb 0 p then p else 0%float) r.

Lemma redense_entry : forall p, fin01 p ->
  fin01 (if PrimFloat.ltb 0 p then p else 0%float) /\
  FR (if PrimFloat.ltb 0 p then p else 0%float) = FR p.
Proof.
  intros p Hp. destruct (PrimFloat.ltb 0 p) eqn:E; [split; [exact Hp | reflexivity]|].
  split; [apply fin01_zero|]. rewrite FR_zero.
  destruct Hp as [Hf [H0 _]].
  destruct (Rle_lt_or_eq_dec 0 _ H0) as [H|H]; [|exact H].
  apply (ltb_zero_pos p Hf) in H. rewrite H in E. discriminate.
Qed.

Lemma redense_FR : forall r, Forall fin01 r -> map FR (redense r) = map FR r.
Proof.
  intros r Hr. unfold redense. induction Hr as [|p l Hp Hl IH]; cbn [map]; [reflexivity|].
  rewrite (proj2 (redense_entry p Hp)). f_equal. exact IH.
Qed.

Lemma redense_length : forall r, length (redense r) = length r.
Proof. intros r. apply map_length. Qed.

Lemma redense_nth_FR : forall r k, Forall fin01 r ->
  FR (nth k (redense r) 0%float) = FR (nth k r 0%float).
Proof.
  intros r k Hr.
  rewrite <- (map_nth FR (redense r) 0%float k), <- (map_nth FR r 0%float k).
  rewrite (redense_FR r Hr). reflexivity.
Qed.

Lemma redense_stored : forall r, stored r -> stored (redense r).
Proof.
  intros r [Hr HS]. split.
  - unfold redense. apply Forall_forall. intros y Hy.
    apply in_map_iff in Hy. destruct Hy as [p [Hy Hin]]. subst y.
    rewrite Forall_forall in Hr. apply (redense_entry p (Hr p Hin)).
  - rewrite redense_length. unfold RS in *. rewrite (redense_FR r Hr). exact HS.
Qed.

(** no [-0] in the row: the rebuilt row is the row *)
Lemma redense_id : forall r, Forall fin01 r ->
  (forall p, In p r -> FR p = 0 -> p = 0%float) -> redense r = r.
Proof.
  intros r Hr Hz. unfold redense. induction Hr as [|p l Hp Hl IH]; cbn [map]; [reflexivity|].
  rewrite IH by (intros q Hq; apply Hz; right; exact Hq). f_equal.
  destruct (PrimFloat.ltb 0 p) eqn:E; [reflexivity|].
  symmetry. apply Hz; [left; reflexivity|].
  destruct Hp as [Hf [H0 _]].
  destruct (Rle_lt_or_eq_dec 0 _ H0) as [H|H]; [|symmetry; exact H].
  apply (ltb_zero_pos p Hf) in H. rewrite H in E. discriminate.
Qed.

(** the round trip through the view, compared with the stored row itself *)
Theorem round_trip_close : forall r : list float,
  stored r -> (Z.of_nat (length r) <= 2 ^ 25)%Z ->
  let out := trip (redense r) in
  length out = length r /\ stored out /\
  forall k, (k < length r)%nat ->
    let p := nth k r 0%float in
    let y := nth k out 0%float in
    (FR p = 0 -> y = 0%float) /\
    (0 < FR p -> 0 < FR y) /\
    Rabs (FR y - FR p)
      <= (3 * INR (length r) + 4) * bpow radix2 (-53) * FR p + bpow radix2 (-1075) /\
    (bpow radix2 (-1021) <= FR p ->
       Rabs (FR y - FR p) <= (3 * INR (length r) + 4) * bpow radix2 (-53) * FR p).
Proof.
  intros r Hst Hlen out.
  assert (Hst' := redense_stored r Hst).
  assert (Hl' := redense_length r).
  assert (Hlen' : (Z.of_nat (length (redense r)) <= 2 ^ 25)%Z) by (rewrite Hl'; exact Hlen).
  destruct (trip_stored (redense r) Hst' Hlen') as [Hso Hlo].
  destruct (trip_entries (redense r) Hst' Hlen') as [_ [_ [_ He]]].
  fold out in Hso, Hlo, He. rewrite Hl' in He, Hlo.
  split; [exact Hlo|]. split; [exact Hso|].
  intros k Hk p y.
  destruct (He k Hk) as [_ [_ [_ [E2 [E3 [E4 E5]]]]]].
  destruct Hst as [Hr _].
  assert (Hp : FR (nth k (redense r) 0%float) = FR p) by (apply redense_nth_FR; exact Hr).
  rewrite Hp in E3, E4, E5.
  split; [|split; [exact E3 | split; [exact E4 | exact E5]]].
  intros Hz. apply E2.
  unfold redense.
  rewrite (nth_map_lt _ _ (fun p => if PrimFloat.ltb 0 p then p else 0%float) r k 0%float 0%float Hk).
  fold p.
  destruct (PrimFloat.ltb 0 p) eqn:E; [|reflexivity].
  exfalso. rewrite Forall_forall in Hr.
  destruct (Hr p (nth_In r 0%float Hk)) as [Hf _].
  apply (ltb_zero_pos p Hf) in E. lra.
Qed.

(** ** 5. Examples *)

(** every imported row is a stored row *)
Lemma import_stored : forall w : list float,
  Forall finnn w -> (Z.of_nat (length w) < 2 ^ 53)%Z ->
  eqb FNum (@sum FNum w) (zero FNum) = false ->
  stored (@finish_row FNum w (@sum FNum w)).
Proof.
  intros w Hw Hlen Hne. split.
  - apply finish_row_float_valid; assumption.
  - rewrite finish_row_length. apply finish_row_float_sum; assumption.
Qed.

(** *** a row that comes back bit for bit: the float sum is exactly 1 *)
Example ex_fixed : trip [0.5; 0.25; 0.25]%float = [0.5; 0.25; 0.25]%float.
Proof. vm_compute. reflexivity. Qed.

Example ex_fixed_by_theorem : trip ex_row = ex_row.
Proof.
  apply trip_fixed; [exact ex_row_fin01 | vm_compute; reflexivity|].
  assert (H : @sum FNum ex_row = 1%float) by (vm_compute; reflexivity).
  rewrite H. apply FR_one.
Qed.

(** the uniform row on three actions: 1/3 is not a binary64 number but the
    three rounded thirds add up to exactly 1 in binary64, so it is a fixed point *)
Definition ex_thirds : list float := @finish_row FNum [1; 1; 1]%float (@sum FNum [1; 1; 1]%float).

Example ex_thirds_value :
  ex_thirds = [0x1.5555555555555p-2; 0x1.5555555555555p-2; 0x1.5555555555555p-2]%float.
Proof. vm_compute. reflexivity. Qed.

Example ex_thirds_fixed : trip ex_thirds = ex_thirds.
Proof. vm_compute. reflexivity. Qed.

(** *** a row that does not come back bit for bit: the uniform row on six actions.
    Six rounded sixths add up to [1 - 2^-53]; the round trip moves every entry
    up by one unit in the last place, and the next round trip moves it back:
    no drift, but the round trip is neither the identity nor idempotent. *)
Definition ex_sixths : list float :=
  @finish_row FNum [1; 1; 1; 1; 1; 1]%float (@sum FNum [1; 1; 1; 1; 1; 1]%float).

Example ex_sixths_stored : stored ex_sixths.
Proof.
  apply import_stored.
  - apply forallb_finnnb. vm_compute. reflexivity.
  - vm_compute. reflexivity.
  - vm_compute. reflexivity.
Qed.

Example ex_sixths_value :
  ex_sixths = [0x1.5555555555555p-3; 0x1.5555555555555p-3; 0x1.5555555555555p-3;
               0x1.5555555555555p-3; 0x1.5555555555555p-3; 0x1.5555555555555p-3]%float.
Proof. vm_compute. reflexivity. Qed.

Example ex_sixths_sum : @sum FNum ex_sixths = 0x1.fffffffffffffp-1%float.
Proof. vm_compute. reflexivity. Qed.

Example ex_sixths_trip :
  trip ex_sixths = [0x1.5555555555556p-3; 0x1.5555555555556p-3; 0x1.5555555555556p-3;
                    0x1.5555555555556p-3; 0x1.5555555555556p-3; 0x1.5555555555556p-3]%float.
Proof. vm_compute. reflexivity. Qed.

Example ex_sixths_moves : trip ex_sixths <> ex_sixths.
Proof.
  intros H.
  apply (f_equal (fun l => PrimFloat.eqb (nth 0 l 0%float) (nth 0 ex_sixths 0%float))) in H.
  vm_compute in H. discriminate H.
Qed.

Example ex_sixths_back : trip (trip ex_sixths) = ex_sixths.
Proof. vm_compute. reflexivity. Qed.

(** the theorem applied to it: every entry moves by at most [22 * 2^-53] relative *)
Example ex_sixths_close : forall k, (k < 6)%nat ->
  Rabs (FR (nth k (trip ex_sixths) 0%float) - FR (nth k ex_sixths 0%float))
  <= (3 * INR 6 + 4) * bpow radix2 (-53) * FR (nth k ex_sixths 0%float) + bpow radix2 (-1075).
Proof.
  intros k Hk.
  apply (trip_close ex_sixths ex_sixths_stored); [vm_compute; discriminate | exact Hk].
Qed.

(** *** the uniform row on ten actions moves once (one unit in the last place)
    and then stays: the moved row sums to exactly 1 *)
Definition ex_tenths : list float :=
  @finish_row FNum [1; 1; 1; 1; 1; 1; 1; 1; 1; 1]%float (@sum FNum [1; 1; 1; 1; 1; 1; 1; 1; 1; 1]%float).

Example ex_tenths_head :
  nth 0 ex_tenths 0%float = 0x1.999999999999ap-4%float /\
  nth 0 (trip ex_tenths) 0%float = 0x1.999999999999bp-4%float /\
  @sum FNum (trip ex_tenths) = 1%float /\
  trip (trip ex_tenths) = trip ex_tenths.
Proof. repeat split; vm_compute; reflexivity. Qed.

(** *** a row with a zero entry and a move of two units in the last place:
    weights 3,0,1,1,1,1.  The zero stays [+0]; 3/7 comes back two units in the
    last place higher (its float sum is [1 - 2^-52]), 1/7 one unit higher; the
    second round trip restores the row. *)
Definition ex_sevenths : list float :=
  @finish_row FNum [3; 0; 1; 1; 1; 1]%float (@sum FNum [3; 0; 1; 1; 1; 1]%float).

Example ex_sevenths_value :
  ex_sevenths = [0x1.b6db6db6db6dbp-2; 0; 0x1.2492492492492p-3; 0x1.2492492492492p-3;
                 0x1.2492492492492p-3; 0x1.2492492492492p-3]%float.
Proof. vm_compute. reflexivity. Qed.

Example ex_sevenths_sum : @sum FNum ex_sevenths = 0x1.ffffffffffffep-1%float.
Proof. vm_compute. reflexivity. Qed.

Example ex_sevenths_trip :
  trip ex_sevenths = [0x1.b6db6db6db6ddp-2; 0; 0x1.2492492492493p-3; 0x1.2492492492493p-3;
                      0x1.2492492492493p-3; 0x1.2492492492493p-3]%float.
Proof. vm_compute. reflexivity. Qed.

Example ex_sevenths_back : trip (trip ex_sevenths) = ex_sevenths.
Proof. vm_compute. reflexivity. Qed.

(** *** a [-0] entry is not listed by the view and comes back as [+0] *)
Example ex_negzero : trip (redense [0.5; -0; 0.5]%float) = [0.5; 0; 0.5]%float.
Proof. vm_compute. reflexivity. Qed.
