(** * VanillaMulti: model of the multi-threaded vanilla / chance-sampled solver
    ([thread_threshold], [recurse_multi], [solve_generic_multi] in [solve/vanilla.rs]).

    One iteration:
    1. [frontier] ([thread_threshold]): breadth-first expansion from the root, two
       vectors [queue]/[work], pop from the *back* of [queue], children appended to
       [work], swap when [queue] is empty, until [queue.len() + work.len() >= target]
       or both are empty.  The loop is on explicit fuel ([frontier_fuel]).
    2. every entry of [queue] is a task [recurse_multi(node, reaches, no cache)].  A
       task reads only [strat] (never written during the traversals) and performs the
       atomic increments [vincs]; it returns [vval], stored in [payoffs] under the
       node's address.  Node identity = path from the root.  The threads interleave
       the increments of all tasks: the state after the parallel phase is
       [fold_left apply_incr (sched (concat task-increments))] for a schedule [sched]
       (a permutation, see [ParallelProofs]).
    3. [vrec_cached]: [recurse_multi(root, .., &payoffs)] — the traversal of [vrec],
       except that a node found in the cache returns the cached payoff at once.
    4. [advance_all] as in [vanilla_iter] ([work.clear(); payoffs.clear()]: the next
       iteration starts from an empty queue, work list and cache).

    Trusted, not modelled: atomicity of [AtomicF64::fetch_add]/[fetch_sub] and of the
    mutex-protected row update, rayon running every task exactly once and
    [par_extend] returning only after all tasks finished. *)
From Coq Require Import List NArith Bool Arith.
From Cfr.theories Require Import Num Tree Strat Eval Solve Incr.
Import ListNotations.
Local Open Scope nat_scope.

Definition path := list nat.

Fixpoint path_eqb (p q : path) : bool :=
  match p, q with
  | [], [] => true
  | a :: p', b :: q' => Nat.eqb a b && path_eqb p' q'
  | _, _ => false
  end.

(** [HashMap::get]: the cache is keyed by paths (node addresses) *)
Fixpoint lookup {A} (p : path) (l : list (path * A)) : option A :=
  match l with
  | [] => None
  | (q, v) :: r => if path_eqb p q then Some v else lookup p r
  end.

(** [Vec::pop] *)
Fixpoint pop_back {A} (l : list A) : option (list A * A) :=
  match l with
  | [] => None
  | x :: r => match pop_back r with
              | None => Some ([], x)
              | Some (r', y) => Some (x :: r', y)
              end
  end.

(** [a.iter().zip(b.iter()).enumerate()] starting at index [j] *)
Fixpoint zip_idx {A B} (j : nat) (la : list A) (lb : list B) : list (nat * A * B) :=
  match la, lb with
  | a :: la', b :: lb' => (j, a, b) :: zip_idx (S j) la' lb'
  | _, _ => []
  end.

Section VanillaMulti.
  Context {NN : Num}.
  Local Notation T := (T NN).
  Local Notation node := (@node NN).
  Local Notation game := (@game NN).
  Local Notation pstate := (@pstate NN).
  Local Notation incr := (@incr NN).
  Local Notation oracle := (@oracle NN).
  Local Notation params := (@params NN).

  (** a node with the reaches the traversal carries to it: [(node, p_chance, p1, p2)] *)
  Definition task := (node * T * T * T)%type.
  (** an entry of [queue] / [work]: the node's identity (path) and the task *)
  Definition fentry := (path * task)%type.

  Section Traversal.
    Context (chance : list (list T)) (sampled : bool) (draw : oracle) (pass : N).

    (** ** [thread_threshold] *)
    Section Frontier.
      Context (sg : bool -> nat -> list T).     (* the [strat] field of every infoset *)

      (** what popping entry [(p, t)] appends to [work] *)
      Definition expand (e : fentry) : list fentry :=
        let '(p, (n, pc, p1, p2)) := e in
        match n with
        | Term _ => []
        | Chance ci kids =>
            if sampled then
              (* [1.0].zip(outcomes[ind..=ind]) *)
              let ind := draw true ci pass (row chance ci) in
              match nth_error kids ind with
              | Some c => [(p ++ [ind], (c, mul NN pc (one NN), p1, p2))]
              | None => []
              end
            else
              map (fun '(j, pr, c) => (p ++ [j], (c, mul NN pc pr, p1, p2)))
                  (zip_idx O (row chance ci) kids)
        | Player pl i kids =>
            map (fun '(j, pr, c) =>
                   (p ++ [j], (c, pc, if pl then mul NN p1 pr else p1,
                                      if pl then p2 else mul NN p2 pr)))
                (zip_idx O (sg pl i) kids)
        end.

      (** the [while] loop; returns [(queue, work)] *)
      Fixpoint frontier_loop (fuel target : nat) (queue work : list fentry)
        : list fentry * list fentry :=
        match fuel with
        | O => (queue, work)
        | S f =>
            let both_empty := match queue, work with [], [] => true | _, _ => false end in
            if negb both_empty && Nat.ltb (length queue + length work) target then
              match pop_back queue with
              | Some (rest, e) => frontier_loop f target rest (work ++ expand e)
              | None => frontier_loop f target work queue      (* [mem::swap] *)
              end
            else (queue, work)
        end.
    End Frontier.

    (** ** [recurse_multi] with a cache: inner loops, abstracted over the recursive
        call, which receives the index of the child (to extend the path) *)
    Section CLoops.
      Context (rec : nat -> node -> T -> T -> T -> pstate -> T * pstate).

      Definition cpick (pc p1 p2 : T) (st : pstate) (ind : nat) :=
        fix pick (ks : list node) (k : nat) {struct ks} : T * pstate :=
          match ks with
          | [] => (zero NN, st)
          | c :: r =>
              match k with
              | O => let (pay, st') := rec ind c (mul NN pc (one NN)) p1 p2 st in
                     (add NN (zero NN) (mul NN (one NN) pay), st')
              | S k' => pick r k'
              end
          end.

      Definition cgo_chance (pc p1 p2 : T) :=
        fix go (ps : list T) (ks : list node) (j : nat) (ex : T) (st : pstate) {struct ks}
          : T * pstate :=
          match ps, ks with
          | p :: ps', c :: ks' =>
              let (pay, st') := rec j c (mul NN pc p) p1 p2 st in
              go ps' ks' (S j) (add NN ex (mul NN p pay)) st'
          | _, _ => (ex, st)
          end.

      Definition cgo_player (pl : bool) (i : nat) (pc p1 p2 mult : T) :=
        fix go (ks : list node) (ss : list T) (ai : nat) (e1 e : T) (st : pstate)
               {struct ks} : T * T * pstate :=
          match ks, ss with
          | c :: ks', prob :: ss' =>
              let '(q1, q2) := if pl then (mul NN p1 prob, p2) else (p1, mul NN p2 prob) in
              let (util_one, st') := rec ai c pc q1 q2 st in
              let util := mul NN util_one mult in
              let ri' := ri_get st' pl i in
              let cr := cum_regret ri' in
              let st'' := ri_set st' pl i
                                 (mkRinfo (upd cr ai (add NN (nth ai cr (zero NN)) util))
                                          (cum_strat ri') (strat ri')) in
              go ks' ss' (S ai) (add NN e1 (mul NN prob util_one))
                 (add NN e (mul NN util prob)) st''
          | _, _ => (e1, e, st)
          end.
    End CLoops.

    (** [recurse_multi(node, .., cached)]; [p] is the path of [n] from the root *)
    Fixpoint vrec_cached (cache : list (path * T)) (p : path) (n : node)
             (pc p1 p2 : T) (st : pstate) {struct n} : T * pstate :=
      match lookup p cache with
      | Some pay => (pay, st)
      | None =>
          match n with
          | Term x => (x, st)
          | Chance ci kids =>
              if sampled then
                let ind := draw true ci pass (row chance ci) in
                cpick (fun j c => vrec_cached cache (p ++ [j]) c) pc p1 p2 st ind kids ind
              else
                cgo_chance (fun j c => vrec_cached cache (p ++ [j]) c) pc p1 p2
                           (row chance ci) kids O (zero NN) st
          | Player pl i kids =>
              let ri := ri_get st pl i in
              let mine := if pl then p1 else p2 in
              let cs := map (fun vc => add NN (snd vc) (mul NN mine (fst vc)))
                            (combine (strat ri) (cum_strat ri)) in
              let st0 := ri_set st pl i (mkRinfo (cum_regret ri) cs (strat ri)) in
              let mult := if pl then mul NN pc p2 else mul NN (neg NN p1) pc in
              let '(e1, e, st2) :=
                cgo_player (fun j c => vrec_cached cache (p ++ [j]) c) pl i pc p1 p2 mult
                           kids (strat ri) O (zero NN) (zero NN) st0 in
              let ri2 := ri_get st2 pl i in
              (e1, ri_set st2 pl i (mkRinfo (map (fun v => sub NN v e) (cum_regret ri2))
                                            (cum_strat ri2) (strat ri2)))
          end
      end.

    (** the increments of the tasks, concatenated in queue order, and their payoffs *)
    Definition task_incs (sg : bool -> nat -> list T) (F : list fentry) : list incr :=
      concat (map (fun e : fentry =>
                     let '(_, (n, pc, p1, p2)) := e in
                     vincs chance sampled draw pass sg n pc p1 p2) F).

    Definition task_payoffs (sg : bool -> nat -> list T) (F : list fentry) : list (path * T) :=
      map (fun e : fentry =>
             let '(p, (n, _, _, _)) := e in (p, vval chance sampled draw pass sg n)) F.
  End Traversal.

  (** number of nodes of a tree: every node is pushed, hence popped, at most once, and
      two swaps are never consecutive *)
  Fixpoint nodes (n : node) : nat :=
    match n with
    | Term _ => 1
    | Chance _ kids =>
        S ((fix go (ks : list node) : nat := match ks with [] => O | c :: r => nodes c + go r end) kids)
    | Player _ _ kids =>
        S ((fix go (ks : list node) : nat := match ks with [] => O | c :: r => nodes c + go r end) kids)
    end.

  Definition frontier_fuel (root : node) : nat := 2 * nodes root + 2.

  (** [queue.push((root, 1.0, [1.0; 2]))] then the loop; the tasks are the final [queue] *)
  Definition frontier (chance : list (list T)) (sampled : bool) (draw : oracle) (pass : N)
             (sg : bool -> nat -> list T) (fuel target : nat) (root : node) : list fentry :=
    fst (frontier_loop chance sampled draw pass sg fuel target
                       [([], (root, one NN, one NN, one NN))] []).

  (** ** one iteration of [solve_generic_multi]; [it] is 1-based.
      [sched] is the interleaving the thread pool chose for the atomic increments. *)
  Definition multi_iter (g : game) (sampled : bool) (draw : oracle) (p : params) (it : N)
             (target : nat) (sched : list incr -> list incr) (st : pstate)
    : pstate * (T * T) :=
    let pass := (it - 1)%N in
    let sg := strat_view st in
    let F := frontier (g_chance g) sampled draw pass sg (frontier_fuel (g_root g)) target
                      (g_root g) in
    (* parallel phase *)
    let st1 := fold_left apply_incr (sched (task_incs (g_chance g) sampled draw pass sg F)) st in
    let payoffs := task_payoffs (g_chance g) sampled draw pass sg F in
    (* sequential phase from the root, with the cache *)
    let '(_, st2) := vrec_cached (g_chance g) sampled draw pass payoffs [] (g_root g)
                                 (one NN) (one NN) (one NN) st1 in
    let (l1, r1) := advance_all p it it (fst st2) (zero NN) in
    let (l2, r2) := advance_all p it it (snd st2) (zero NN) in
    ((l1, l2), (r1, r2)).

  (** ** the iteration loop, as [solve_loop]; the schedule may depend on the iteration *)
  Fixpoint solve_multi_loop (g : game) (sampled : bool) (draw : oracle) (p : params)
           (stop : T -> bool) (target : nat) (scheds : N -> list incr -> list incr)
           (remaining : nat) (it : N) (st : pstate) (regs : option (T * T)) (ran : N)
    : pstate * option (T * T) * N :=
    match remaining with
    | O => (st, regs, ran)
    | S r =>
        let '(st', (r1, r2)) := multi_iter g sampled draw p it target (scheds it) st in
        if stop (fmax NN r1 r2) then (st', Some (r1, r2), it)
        else solve_multi_loop g sampled draw p stop target scheds r (it + 1)%N st'
                              (Some (r1, r2)) it
    end.

  Definition solve_multi (g : game) (sampled : bool) (draw : oracle) (p : params)
             (budget : nat) (stop : T -> bool) (target : nat)
             (scheds : N -> list incr -> list incr)
    : (list T * list T) * option (T * T) * N :=
    let '(st, regs, ran) :=
      solve_multi_loop g sampled draw p stop target scheds budget 1%N (init_state g) None 0%N in
    (final_strats st, regs, ran).
End VanillaMulti.
