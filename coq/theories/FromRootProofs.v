(** * FromRootProofs: [from_root] accepts exactly the documented class of games (C11).

    - Part B (soundness): an accepted game is well formed ([WFgame]), has perfect recall
      ([PerfectRecall]) — both for every [Num] instance — and, over the reals, has chance
      tables of positive probabilities that sum to one ([ChanceOK]).
    - Part C (blame): a rejected tree really violates the rule named by the error.
    - Part D (completeness): a declarative contract on the raw tree; trees satisfying it
      are accepted, and accepted trees satisfy it. *)
From Coq Require Import Reals List NArith Bool Arith Lia Lra Permutation.
From Cfr.theories Require Import Num RInst Tree GameWF Valid FromRootGeneric.
Import ListNotations.
Local Open Scope nat_scope.

(** ** List helpers *)
Lemma find_index_Some {A} (f : A -> bool) l : forall i x,
  find_index f l = Some (i, x) -> i < length l /\ nth_error l i = Some x /\ f x = true.
Proof.
  induction l as [|y l IH]; intros i x H; cbn [find_index] in H; [discriminate|].
  destruct (f y) eqn:E.
  - inversion H; subst. cbn. repeat split; [lia|assumption].
  - destruct (find_index f l) as [[j z]|]; [|discriminate].
    inversion H; subst. destruct (IH j x eq_refl) as (H1 & H2 & H3).
    cbn [length nth_error]. repeat split; [lia|assumption|assumption].
Qed.

Lemma find_index_None {A} (f : A -> bool) l :
  find_index f l = None -> forall x, In x l -> f x = false.
Proof.
  induction l as [|y l IH]; intros H x Hx; [destruct Hx|].
  cbn [find_index] in H. destruct (f y) eqn:E; [discriminate|].
  destruct (find_index f l) as [[j z]|]; [discriminate|].
  destruct Hx as [<-|Hx]; [assumption|now apply IH].
Qed.

Lemma find_index_None_inv {A} (f : A -> bool) l :
  (forall x, In x l -> f x = false) -> find_index f l = None.
Proof.
  induction l as [|y l IH]; intros H; [reflexivity|].
  cbn [find_index]. rewrite (H y (or_introl eq_refl)).
  rewrite IH; [reflexivity|]. intros x Hx. apply H. now right.
Qed.

Lemma existsb_false_all {A} (f : A -> bool) l :
  existsb f l = false -> forall x, In x l -> f x = false.
Proof.
  intros H x Hx. destruct (f x) eqn:E; [|reflexivity].
  assert (existsb f l = true) by (apply existsb_exists; eauto). congruence.
Qed.

Lemma nodupb_NoDup l : nodupb l = true -> NoDup l.
Proof.
  induction l as [|x l IH]; intros H; [constructor|].
  cbn [nodupb] in H. apply andb_true_iff in H as [H1 H2].
  constructor; [|now apply IH].
  intros Hin. apply negb_true_iff in H1.
  pose proof (existsb_false_all _ _ H1 x Hin) as E. now rewrite N.eqb_refl in E.
Qed.

Lemma NoDup_nodupb l : NoDup l -> nodupb l = true.
Proof.
  induction 1 as [|x l Hx Hl IH]; [reflexivity|].
  cbn [nodupb]. rewrite IH, andb_true_r. apply negb_true_iff.
  destruct (existsb (N.eqb x) l) eqn:E; [|reflexivity].
  apply existsb_exists in E as (y & Hy & Exy). apply N.eqb_eq in Exy. now subst.
Qed.

Lemma list_eqb_N_eq a : forall b, list_eqb N.eqb a b = true <-> a = b.
Proof.
  induction a as [|x a IH]; intros [|y b]; cbn [list_eqb]; try easy.
  rewrite andb_true_iff, N.eqb_eq, IH. split; [intros [-> ->]; reflexivity|].
  intros H; inversion H; auto.
Qed.

Lemma list_eqb_length {A} (eq : A -> A -> bool) a : forall b,
  list_eqb eq a b = true -> length a = length b.
Proof.
  induction a as [|x a IH]; intros [|y b] H; cbn [list_eqb] in H; try easy.
  apply andb_true_iff in H as [_ H]. cbn [length]. f_equal. now apply IH.
Qed.

Lemma prev_eqb_eq a b : prev_eqb a b = true <-> a = b.
Proof.
  destruct a as [[i x]|], b as [[j y]|]; cbn [prev_eqb]; try easy.
  rewrite andb_true_iff, !Nat.eqb_eq. split; [intros [-> ->]; reflexivity|].
  intros H; inversion H; auto.
Qed.

Lemma last_map_snoc {A} (l : list A) x : last (map Some (l ++ [x])) None = Some x.
Proof. rewrite map_app. cbn [map]. apply last_last. Qed.

Lemma nth_error_nth' {A} (l : list A) i x d : nth_error l i = Some x -> nth i l d = x.
Proof. apply nth_error_nth. Qed.

Lemma NoDup_insert {A} (a b : list A) x :
  NoDup (a ++ b) -> ~ In x (a ++ b) -> NoDup (a ++ x :: b).
Proof.
  intros H Hx. eapply Permutation_NoDup; [apply Permutation_middle|].
  now constructor.
Qed.

Lemma NoDup_snoc {A} (a : list A) x : NoDup a -> ~ In x a -> NoDup (a ++ [x]).
Proof.
  intros H Hx. rewrite <- (app_nil_r a) in H, Hx. now apply NoDup_insert.
Qed.

Lemma NoDup_app_l {A} (a b : list A) : NoDup (a ++ b) -> NoDup a.
Proof.
  induction a as [|x a IH]; intros H; [constructor|].
  cbn [app] in H. inversion H as [|? ? Hx Hr]; subst. constructor; [|now apply IH].
  intros Hin. apply Hx. apply in_or_app. now left.
Qed.

Lemma find_index_app_Some {A} (f : A -> bool) l c r :
  find_index f l = Some r -> find_index f (l ++ c) = Some r.
Proof.
  revert r. induction l as [|y l IH]; intros r H; cbn [find_index app] in *; [discriminate|].
  destruct (f y); [assumption|].
  destruct (find_index f l) as [[j z]|]; [|discriminate].
  now rewrite (IH _ eq_refl).
Qed.

Lemma find_index_app_None {A} (f : A -> bool) l x :
  find_index f l = None -> f x = true -> find_index f (l ++ [x]) = Some (length l, x).
Proof.
  induction l as [|y l IH]; intros H Hx; cbn [find_index app length] in *.
  - now rewrite Hx.
  - destruct (f y); [discriminate|].
    destruct (find_index f l) as [[j z]|]; [discriminate|].
    now rewrite (IH eq_refl Hx).
Qed.

Lemma NoDup_map_fst_inj {A B} (l : list (A * B)) x a b :
  NoDup (map fst l) -> In (x, a) l -> In (x, b) l -> a = b.
Proof.
  induction l as [|[y c] l IH]; intros Hnd Ha Hb; [destruct Ha|].
  cbn [map fst] in Hnd. inversion Hnd as [|? ? Hy Hr]; subst.
  destruct Ha as [Ea|Ha], Hb as [Eb|Hb].
  - congruence.
  - inversion Ea; subst. exfalso. apply Hy. apply in_map_iff. exists (x, b). auto.
  - inversion Eb; subst. exfalso. apply Hy. apply in_map_iff. exists (x, a). auto.
  - now apply IH.
Qed.

Lemma NoDup_app_disjoint {A} (a b : list A) x : NoDup (a ++ b) -> In x a -> In x b -> False.
Proof.
  induction a as [|y a IH]; intros Hnd Ha Hb; [destruct Ha|].
  cbn [app] in Hnd. inversion Hnd as [|? ? Hy Hr]; subst.
  destruct Ha as [->|Ha]; [|now apply IH].
  apply Hy. apply in_or_app. now right.
Qed.

Lemma NoDup_app_r {A} (a b : list A) : NoDup (a ++ b) -> NoDup b.
Proof.
  induction a as [|x a IH]; intros H; [assumption|].
  cbn [app] in H. inversion H; subst. now apply IH.
Qed.

Lemma list_eqb_eq {A} (eq : A -> A -> bool) :
  (forall x y, eq x y = true <-> x = y) -> forall a b, list_eqb eq a b = true <-> a = b.
Proof.
  intros Heq. induction a as [|x a IH]; intros [|y b]; cbn [list_eqb]; try easy.
  rewrite andb_true_iff, Heq, IH. split; [intros [-> ->]; reflexivity|].
  intros H; inversion H; auto.
Qed.

(** ** Generic part: well-formedness and perfect recall of accepted games *)
Section Gen.
  Context {NN : Num}.
  Local Notation T := (T NN).
  Local Notation gnode := (@gnode NN).
  Local Notation node := (@node NN).
  Local Notation bst := (@bst NN).
  Local Notation game := (@game NN).

  Definition dpi : pinfo := mkPinfo 0%N [] None.

  Lemma b_infos_set_infos_same (s : bst) pl l : b_infos (set_infos s pl l) pl = l.
  Proof. destruct pl; reflexivity. Qed.
  Lemma b_infos_set_infos_other (s : bst) pl l : b_infos (set_infos s pl l) (negb pl) = b_infos s (negb pl).
  Proof. destruct pl; reflexivity. Qed.
  Lemma b_singles_set_infos (s : bst) pl l q : b_singles (set_infos s pl l) q = b_singles s q.
  Proof. destruct pl, q; reflexivity. Qed.
  Lemma b_chance_set_infos (s : bst) pl l : b_chance (set_infos s pl l) = b_chance s.
  Proof. destruct pl; reflexivity. Qed.
  Lemma b_singles_set_singles_same (s : bst) pl l : b_singles (set_singles s pl l) pl = l.
  Proof. destruct pl; reflexivity. Qed.
  Lemma b_singles_set_singles_other (s : bst) pl l :
    b_singles (set_singles s pl l) (negb pl) = b_singles s (negb pl).
  Proof. destruct pl; reflexivity. Qed.
  Lemma b_infos_set_singles (s : bst) pl l q : b_infos (set_singles s pl l) q = b_infos s q.
  Proof. destruct pl, q; reflexivity. Qed.
  Lemma b_chance_set_singles (s : bst) pl l : b_chance (set_singles s pl l) = b_chance s.
  Proof. destruct pl; reflexivity. Qed.
  Lemma b_infos_set_chance (s : bst) l q : b_infos (set_chance s l) q = b_infos s q.
  Proof. destruct q; reflexivity. Qed.
  Lemma b_singles_set_chance (s : bst) l q : b_singles (set_chance s l) q = b_singles s q.
  Proof. destruct q; reflexivity. Qed.
  Lemma b_chance_set_chance (s : bst) l : b_chance (set_chance s l) = l.
  Proof. reflexivity. Qed.

  (** *** Extension of the tables *)
  Definition ext (s s' : bst) : Prop :=
    (exists c, b_chance s' = b_chance s ++ c) /\
    (forall pl, exists l, b_infos s' pl = b_infos s pl ++ l) /\
    (forall pl, exists l, b_singles s' pl = b_singles s pl ++ l).

  Lemma ext_refl s : ext s s.
  Proof.
    repeat split; [exists []|intros pl; exists []|intros pl; exists []]; now rewrite app_nil_r.
  Qed.

  Lemma ext_trans s1 s2 s3 : ext s1 s2 -> ext s2 s3 -> ext s1 s3.
  Proof.
    intros (A1 & B1 & C1) (A2 & B2 & C2). repeat split.
    - destruct A1 as [c1 E1], A2 as [c2 E2]. exists (c1 ++ c2). now rewrite E2, E1, app_assoc.
    - intros pl. destruct (B1 pl) as [c1 E1], (B2 pl) as [c2 E2].
      exists (c1 ++ c2). now rewrite E2, E1, app_assoc.
    - intros pl. destruct (C1 pl) as [c1 E1], (C2 pl) as [c2 E2].
      exists (c1 ++ c2). now rewrite E2, E1, app_assoc.
  Qed.

  Lemma ext_set_chance s x : ext s (set_chance s (b_chance s ++ x)).
  Proof.
    repeat split; [exists x; reflexivity|intros pl; exists []|intros pl; exists []].
    - now rewrite b_infos_set_chance, app_nil_r.
    - now rewrite b_singles_set_chance, app_nil_r.
  Qed.

  Lemma ext_set_infos s pl x : ext s (set_infos s pl (b_infos s pl ++ x)).
  Proof.
    repeat split.
    - exists []. now rewrite b_chance_set_infos, app_nil_r.
    - intros q. destruct pl, q; cbn; eauto; exists []; now rewrite app_nil_r.
    - intros q. exists []. now rewrite b_singles_set_infos, app_nil_r.
  Qed.

  Lemma ext_set_singles s pl x : ext s (set_singles s pl (b_singles s pl ++ x)).
  Proof.
    repeat split.
    - exists []. now rewrite b_chance_set_singles, app_nil_r.
    - intros q. exists []. now rewrite b_infos_set_singles, app_nil_r.
    - intros q. destruct pl, q; cbn; eauto; exists []; now rewrite app_nil_r.
  Qed.

  Lemma ext_infos_length s s' pl : ext s s' -> length (b_infos s pl) <= length (b_infos s' pl).
  Proof. intros (_ & B & _). destruct (B pl) as [l E]. rewrite E, app_length. lia. Qed.

  Lemma ext_infos_nth s s' pl i :
    ext s s' -> i < length (b_infos s pl) -> nth i (b_infos s' pl) dpi = nth i (b_infos s pl) dpi.
  Proof. intros (_ & B & _) Hi. destruct (B pl) as [l E]. rewrite E. now apply app_nth1. Qed.

  (** *** Invariant of the builder state *)
  Definition IdxOrd (s : bst) : Prop :=
    forall pl i j a, i < length (b_infos s pl) ->
                     pi_prev (nth i (b_infos s pl) dpi) = Some (j, a) -> j < i.

  Definition GInv (s : bst) : Prop :=
    (forall pl, WFtables (b_infos s pl) (b_singles s pl)) /\ IdxOrd s.

  Definition PrevOK (prev : pprev) (s : bst) : Prop :=
    forall pl j a, get_prev prev pl = Some (j, a) -> j < length (b_infos s pl).

  Lemma PrevOK_ext prev s s' : ext s s' -> PrevOK prev s -> PrevOK prev s'.
  Proof.
    intros He H pl j a E. specialize (H pl j a E).
    pose proof (ext_infos_length s s' pl He). lia.
  Qed.

  Lemma get_set_prev_same prev pl v : get_prev (set_prev prev pl v) pl = v.
  Proof. destruct pl; reflexivity. Qed.
  Lemma get_set_prev_other prev pl v : get_prev (set_prev prev pl v) (negb pl) = get_prev prev (negb pl).
  Proof. destruct pl; reflexivity. Qed.

  Lemma PrevOK_set prev s pl ind ai :
    PrevOK prev s -> ind < length (b_infos s pl) -> PrevOK (set_prev prev pl (Some (ind, ai))) s.
  Proof.
    intros H Hi q j a E. destruct (Bool.bool_dec q pl) as [->|Hne].
    - rewrite get_set_prev_same in E. inversion E; subst. assumption.
    - assert (q = negb pl) as -> by (destruct q, pl; cbn; congruence).
      rewrite get_set_prev_other in E. eapply H; eassumption.
  Qed.

  Lemma GInv_empty : GInv b_empty.
  Proof.
    split.
    - intros pl. destruct pl; (split; [constructor|constructor]).
    - intros pl i j a Hi. destruct pl; cbn in Hi; lia.
  Qed.

  Lemma GInv_set_chance s l : GInv s -> GInv (set_chance s l).
  Proof.
    intros [H1 H2]. split.
    - intros pl. rewrite b_infos_set_chance, b_singles_set_chance. apply H1.
    - intros pl i j a. rewrite b_infos_set_chance. apply H2.
  Qed.

  (** *** Shape of the produced tree w.r.t. the tables *)
  Definition chs (s : bst) : list (list T) := map snd (b_chance s).

  Inductive Shaped (ch : list (list T)) (inf : bool -> list pinfo) : node -> Prop :=
  | Sh_term x : Shaped ch inf (Term x)
  | Sh_chance ci kids :
      ci < length ch -> length kids = length (nth ci ch []) -> 2 <= length kids ->
      Forall (Shaped ch inf) kids -> Shaped ch inf (Chance ci kids)
  | Sh_player pl i kids :
      i < length (inf pl) -> length kids = length (pi_actions (nth i (inf pl) dpi)) ->
      2 <= length kids -> Forall (Shaped ch inf) kids -> Shaped ch inf (Player pl i kids).

  Definition ShapedS (s : bst) (n : node) : Prop := Shaped (chs s) (b_infos s) n.

  Lemma Shaped_ext s s' n : ext s s' -> ShapedS s n -> ShapedS s' n.
  Proof.
    intros He. unfold ShapedS.
    induction n as [x|ci kids IH|pl i kids IH] using node_ind'; intros H.
    - constructor.
    - inversion H as [|? ? H1 H2 H3 H4|]; subst.
      destruct He as ([c Ec] & _ & _).
      assert (Ech : chs s' = chs s ++ map snd c) by (unfold chs; now rewrite Ec, map_app).
      constructor.
      + rewrite Ech, app_length. lia.
      + rewrite Ech, app_nth1; assumption.
      + assumption.
      + rewrite Forall_forall in *. intros k Hk. apply IH; auto.
    - inversion H as [| |? ? ? H1 H2 H3 H4]; subst.
      constructor.
      + pose proof (ext_infos_length s s' pl He). lia.
      + rewrite (ext_infos_nth s s' pl i He H1). assumption.
      + assumption.
      + rewrite Forall_forall in *. intros k Hk. apply IH; auto.
  Qed.

  Lemma shaped_go_Forall (g : game) (ks : list node) :
    Forall (shaped g) ks ->
    (fix go (ks : list node) : Prop :=
       match ks with [] => True | k :: r => shaped g k /\ go r end) ks.
  Proof. induction 1 as [|k r Hk Hr IH]; [exact I|split; assumption]. Qed.

  Lemma Shaped_shaped (g : game) n : Shaped (g_chance g) (g_infos g) n -> shaped g n.
  Proof.
    induction n as [x|ci kids IH|pl i kids IH] using node_ind'; intros H.
    - exact I.
    - inversion H as [|? ? H1 H2 H3 H4|]; subst. cbn [shaped].
      repeat split; try assumption. apply shaped_go_Forall.
      rewrite Forall_forall in *. auto.
    - inversion H as [| |? ? ? H1 H2 H3 H4]; subst. cbn [shaped].
      repeat split; try assumption. apply shaped_go_Forall.
      rewrite Forall_forall in *. auto.
  Qed.

  (** *** Histories *)
  Fixpoint hists_kids (pl : bool) (i : nat) (h1 h2 : list (nat * nat)) (ks : list node) (a : nat)
    : list (bool * nat * list (nat * nat)) :=
    match ks with
    | [] => []
    | k :: r =>
        hists k (if pl then h1 ++ [(i, a)] else h1) (if pl then h2 else h2 ++ [(i, a)])
        ++ hists_kids pl i h1 h2 r (S a)
    end.

  Lemma hists_Player pl i (kids : list node) h1 h2 :
    hists (Player pl i kids) h1 h2 =
    (pl, i, if pl then h1 else h2) :: hists_kids pl i h1 h2 kids O.
  Proof.
    cbn [hists]. f_equal. generalize O.
    induction kids as [|k r IH]; intros a; [reflexivity|].
    cbn [hists_kids]. now rewrite <- IH.
  Qed.

  Lemma hists_Chance ci (kids : list node) h1 h2 :
    hists (Chance ci kids) h1 h2 = flat_map (fun k => hists k h1 h2) kids.
  Proof.
    cbn [hists]. induction kids as [|k r IH]; [reflexivity|].
    cbn [flat_map]. now rewrite <- IH.
  Qed.

  Definition PCx (s : bst) (x : bool * nat * list (nat * nat)) : Prop :=
    let '(pl, i, h) := x in
    i < length (b_infos s pl) /\
    pi_prev (nth i (b_infos s pl) dpi) = last (map Some h) None.

  Lemma PCx_ext s s' x : ext s s' -> PCx s x -> PCx s' x.
  Proof.
    destruct x as [[pl i] h]. intros He [H1 H2]. split.
    - pose proof (ext_infos_length s s' pl He). lia.
    - now rewrite (ext_infos_nth s s' pl i He H1).
  Qed.

  Definition HistRel (prev : pprev) (h1 h2 : list (nat * nat)) : Prop :=
    last (map Some h1) None = fst prev /\ last (map Some h2) None = snd prev.

  Definition Post (prev : pprev) (s : bst) (nd : node) (s' : bst) : Prop :=
    ext s s' /\ GInv s' /\ ShapedS s' nd /\
    forall h1 h2, HistRel prev h1 h2 -> forall x, In x (hists nd h1 h2) -> PCx s' x.

  Definition InitInv (n : gnode) : Prop :=
    forall prev s nd s', init n prev s = Ok (nd, s') -> GInv s -> PrevOK prev s -> Post prev s nd s'.

  Lemma bool_cases (q pl : bool) : q = pl \/ q = negb pl.
  Proof. destruct q, pl; auto. Qed.

  (** *** Table updates keep the invariant *)
  Lemma GInv_new_info s pl info actions prev :
    GInv s -> PrevOK prev s ->
    existsb (fun e : N * N => N.eqb (fst e) info) (b_singles s pl) = false ->
    find_index (fun pi => N.eqb (pi_name pi) info) (b_infos s pl) = None ->
    nodupb actions = true -> 2 <= length actions ->
    GInv (set_infos s pl (b_infos s pl ++ [mkPinfo info actions (get_prev prev pl)])).
  Proof.
    intros [H1 H2] Hprev Hex Hfi Hnd Hlen. split.
    - intros q. destruct (bool_cases q pl) as [->| ->].
      + rewrite b_infos_set_infos_same, b_singles_set_infos. destruct (H1 pl) as [Hn Hf]. split.
        * rewrite map_app. cbn [map pi_name]. rewrite <- app_assoc. cbn [app].
          apply NoDup_insert; [assumption|]. intros Hin. apply in_app_or in Hin as [Hin|Hin].
          -- apply in_map_iff in Hin as (pi & E & Hpi).
             pose proof (find_index_None _ _ Hfi pi Hpi) as F0. cbn beta in F0.
             rewrite E, N.eqb_refl in F0. discriminate.
          -- apply in_map_iff in Hin as (e & E & He).
             pose proof (existsb_false_all _ _ Hex e He) as F0. cbn beta in F0.
             rewrite E, N.eqb_refl in F0. discriminate.
        * apply Forall_app; split; [assumption|]. constructor; [|constructor].
          cbn [pi_actions]. split; [now apply nodupb_NoDup|assumption].
      + rewrite b_infos_set_infos_other, b_singles_set_infos. apply H1.
    - intros q i j a Hi E. destruct (bool_cases q pl) as [->| ->].
      + rewrite b_infos_set_infos_same in Hi, E. rewrite app_length in Hi. cbn [length] in Hi.
        destruct (lt_dec i (length (b_infos s pl))) as [Hlt|Hge].
        * rewrite app_nth1 in E by assumption. eapply H2; eassumption.
        * assert (i = length (b_infos s pl)) as -> by lia.
          rewrite nth_middle in E. cbn [pi_prev] in E. apply Hprev in E. assumption.
      + rewrite b_infos_set_infos_other in Hi, E. eapply H2; eassumption.
  Qed.

  Lemma GInv_new_single s pl info a :
    GInv s ->
    existsb (fun pi => N.eqb (pi_name pi) info) (b_infos s pl) = false ->
    find_index (fun e : N * N => N.eqb (fst e) info) (b_singles s pl) = None ->
    GInv (set_singles s pl (b_singles s pl ++ [(info, a)])).
  Proof.
    intros [H1 H2] Hex Hfi. split.
    - intros q. destruct (bool_cases q pl) as [->| ->].
      + rewrite b_singles_set_singles_same, b_infos_set_singles. destruct (H1 pl) as [Hn Hf].
        split; [|assumption].
        rewrite map_app. cbn [map fst]. rewrite app_assoc.
        apply NoDup_snoc; [assumption|]. intros Hin. apply in_app_or in Hin as [Hin|Hin].
        * apply in_map_iff in Hin as (pi & E & Hpi).
          pose proof (existsb_false_all _ _ Hex pi Hpi) as F0. cbn beta in F0.
          rewrite E, N.eqb_refl in F0. discriminate.
        * apply in_map_iff in Hin as (e & E & He).
          pose proof (find_index_None _ _ Hfi e He) as F0. cbn beta in F0.
          rewrite E, N.eqb_refl in F0. discriminate.
      + rewrite b_singles_set_singles_other, b_infos_set_singles. apply H1.
    - intros q i j a0. rewrite b_infos_set_singles. apply H2.
  Qed.

  Lemma lookup_info_ok s pl info actions prev ind s0 :
    GInv s -> PrevOK prev s ->
    existsb (fun e : N * N => N.eqb (fst e) info) (b_singles s pl) = false ->
    2 <= length actions ->
    lookup_info pl info actions prev s = Ok (ind, s0) ->
    ext s s0 /\ GInv s0 /\ ind < length (b_infos s0 pl) /\
    nth ind (b_infos s0 pl) dpi = mkPinfo info actions (get_prev prev pl).
  Proof.
    intros HG Hprev Hex Hlen H. unfold lookup_info in H.
    destruct (find_index _ (b_infos s pl)) as [[i pi]|] eqn:Efi.
    - destruct (list_eqb N.eqb (pi_actions pi) actions) eqn:Ea; cbn [negb] in H; [|discriminate].
      destruct (prev_eqb (pi_prev pi) (get_prev prev pl)) eqn:Ep; cbn [negb] in H; [|discriminate].
      inversion H; subst. apply find_index_Some in Efi as (Hi & Hn & Hf).
      apply list_eqb_N_eq in Ea. apply prev_eqb_eq in Ep. apply N.eqb_eq in Hf.
      repeat split; try assumption; try apply ext_refl; try apply HG.
      rewrite (nth_error_nth' _ _ _ dpi Hn). destruct pi as [nm ac pv]. cbn in *. now subst.
    - destruct (nodupb actions) eqn:End; [|discriminate]. inversion H; subst.
      split; [apply ext_set_infos|]. split; [now apply GInv_new_info|].
      rewrite b_infos_set_infos_same. split; [rewrite app_length; cbn [length]; lia|].
      apply nth_middle.
  Qed.

  (** *** The loops *)
  Lemma cloop_inv prev outs :
    Forall (fun wc : T * gnode => InitInv (snd wc)) outs ->
    forall s ks s', cloop prev outs s = Ok (ks, s') -> GInv s -> PrevOK prev s ->
    ext s s' /\ GInv s' /\ Forall (ShapedS s') ks /\
    forall h1 h2, HistRel prev h1 h2 ->
                  forall x, In x (flat_map (fun k => hists k h1 h2) ks) -> PCx s' x.
  Proof.
    induction 1 as [|[p c] l Hc Hl IH]; intros s ks s' H HG HP; cbn [cloop] in H.
    - inversion H; subst. repeat split; try assumption; try apply ext_refl; try apply HG.
      + constructor.
      + intros h1 h2 _ x [].
    - destruct (wok p); [|discriminate].
      destruct (init c prev s) as [[c' s1]|e] eqn:Ec; [|discriminate].
      destruct (cloop prev l s1) as [[ks1 s2]|e] eqn:El; [|discriminate].
      inversion H; subst. cbn [snd] in Hc.
      destruct (Hc prev s c' s1 Ec HG HP) as (E1 & G1 & S1 & P1).
      destruct (IH s1 ks1 s' El G1 (PrevOK_ext _ _ _ E1 HP)) as (E2 & G2 & S2 & P2).
      split; [eapply ext_trans; eassumption|]. split; [assumption|]. split.
      + constructor; [eapply Shaped_ext; eassumption|assumption].
      + intros h1 h2 HR x Hx. cbn [flat_map] in Hx. apply in_app_or in Hx as [Hx|Hx].
        * eapply PCx_ext; [exact E2|]. eapply P1; eassumption.
        * eapply P2; eassumption.
  Qed.

  Lemma HistRel_set prev pl ind ai h1 h2 :
    HistRel prev h1 h2 ->
    HistRel (set_prev prev pl (Some (ind, ai)))
            (if pl then h1 ++ [(ind, ai)] else h1) (if pl then h2 else h2 ++ [(ind, ai)]).
  Proof.
    intros [H1 H2]. destruct pl; split; cbn [set_prev fst snd]; try assumption;
      apply last_map_snoc.
  Qed.

  Lemma ploop_inv prev pl ind acts :
    Forall (fun ac : N * gnode => InitInv (snd ac)) acts ->
    forall ai s ks s', ploop prev pl ind acts ai s = Ok (ks, s') -> GInv s -> PrevOK prev s ->
    ind < length (b_infos s pl) ->
    ext s s' /\ GInv s' /\ Forall (ShapedS s') ks /\
    forall h1 h2, HistRel prev h1 h2 ->
                  forall x, In x (hists_kids pl ind h1 h2 ks ai) -> PCx s' x.
  Proof.
    induction 1 as [|[a c] l Hc Hl IH]; intros ai s ks s' H HG HP Hind; cbn [ploop] in H.
    - inversion H; subst. repeat split; try assumption; try apply ext_refl; try apply HG.
      + constructor.
      + intros h1 h2 _ x [].
    - destruct (init c _ s) as [[c' s1]|e] eqn:Ec; [|discriminate].
      destruct (ploop prev pl ind l (S ai) s1) as [[ks1 s2]|e] eqn:El; [|discriminate].
      inversion H; subst. cbn [snd] in Hc.
      destruct (Hc _ s c' s1 Ec HG (PrevOK_set _ _ _ _ ai HP Hind)) as (E1 & G1 & S1 & P1).
      assert (Hind1 : ind < length (b_infos s1 pl))
        by (pose proof (ext_infos_length s s1 pl E1); lia).
      destruct (IH (S ai) s1 ks1 s' El G1 (PrevOK_ext _ _ _ E1 HP) Hind1) as (E2 & G2 & S2 & P2).
      split; [eapply ext_trans; eassumption|]. split; [assumption|]. split.
      + constructor; [eapply Shaped_ext; eassumption|assumption].
      + intros h1 h2 HR x Hx. cbn [hists_kids] in Hx. apply in_app_or in Hx as [Hx|Hx].
        * eapply PCx_ext; [exact E2|]. eapply P1; [|exact Hx]. now apply HistRel_set.
        * eapply P2; eassumption.
  Qed.

  Lemma normalise_length (ws : list T) : length (normalise ws) = length ws.
  Proof. unfold normalise. destruct (is_fin NN _); rewrite !map_length; reflexivity. Qed.

  (** *** The chance epilogue *)
  Lemma chance_fin_inv prev s info ws ks s1 nd s' :
    length ks = length ws ->
    ext s s1 -> GInv s1 -> Forall (ShapedS s1) ks ->
    (forall h1 h2, HistRel prev h1 h2 ->
                   forall x, In x (flat_map (fun k => hists k h1 h2) ks) -> PCx s1 x) ->
    chance_fin info ws ks s1 = Ok (nd, s') ->
    Post prev s nd s'.
  Proof.
    intros Hlen E1 G1 S1 P1 H. unfold chance_fin in H.
    destruct ks as [|k [|k2 kr]]; [discriminate| |].
    - inversion H; subst. split; [assumption|]. split; [assumption|]. split.
      + now inversion S1.
      + intros h1 h2 HR x Hx. eapply P1; [exact HR|]. cbn [flat_map]. rewrite app_nil_r. exact Hx.
    - set (kids := k :: k2 :: kr) in *.
      assert (Hk2 : 2 <= length kids) by (cbn; lia).
      assert (Hnew : forall o, Post prev s (Chance (length (b_chance s1)) kids)
                                    (set_chance s1 (b_chance s1 ++ [(o, normalise ws)]))).
      { intros o. pose proof (ext_set_chance s1 [(o, normalise ws)]) as E2.
        split; [eapply ext_trans; eassumption|]. split; [now apply GInv_set_chance|]. split.
        - constructor.
          + unfold chs. rewrite b_chance_set_chance, map_length, app_length. cbn [length]. lia.
          + unfold chs. rewrite b_chance_set_chance, map_app. cbn [map snd].
            rewrite <- (map_length snd (b_chance s1)), nth_middle.
            now rewrite normalise_length.
          + assumption.
          + rewrite Forall_forall in *. intros k0 Hk0. eapply Shaped_ext; [exact E2|]. auto.
        - intros h1 h2 HR x Hx. rewrite hists_Chance in Hx.
          eapply PCx_ext; [exact E2|]. eapply P1; eassumption. }
      destruct info as [key|].
      + destruct (find_index (opt_key_eqb key) (b_chance s1)) as [[ind [o old]]|] eqn:Efi.
        * destruct (list_eqb (eqb NN) old (normalise ws)) eqn:Eeq; [|discriminate].
          inversion H; subst. apply find_index_Some in Efi as (Hi & Hn & _).
          split; [assumption|]. split; [assumption|]. split.
          -- constructor.
             ++ unfold chs. now rewrite map_length.
             ++ unfold chs. erewrite nth_error_nth'; [|apply map_nth_error; exact Hn].
                cbn [snd]. apply list_eqb_length in Eeq. rewrite Eeq, normalise_length.
                assumption.
             ++ assumption.
             ++ assumption.
          -- intros h1 h2 HR x Hx. rewrite hists_Chance in Hx. eapply P1; eassumption.
        * inversion H; subst. apply Hnew.
      + inversion H; subst. apply Hnew.
  Qed.

  (** *** The invariant of [init] *)
  Lemma init_inv (n : gnode) : InitInv n.
  Proof.
    induction n as [p|info outs IH|pl info acts IH] using gnode_ind';
      intros prev s nd s' H HG HP.
    - rewrite init_GTerm in H. destruct (is_fin NN p); [|discriminate].
      inversion H; subst. split; [apply ext_refl|]. split; [assumption|]. split; [constructor|].
      intros h1 h2 _ x [].
    - rewrite init_GChance in H.
      destruct (cloop prev outs s) as [[ks s1]|e] eqn:El; [|discriminate].
      destruct (cloop_inv prev outs IH s ks s1 El HG HP) as (E1 & G1 & S1 & P1).
      eapply chance_fin_inv; try eassumption.
      rewrite map_length. eapply cloop_length; eassumption.
    - destruct acts as [|[a c] [|y r]].
      + discriminate H.
      + rewrite init_GPlayer_single in H.
        inversion IH as [|? ? Hc _]; subst. cbn [snd] in Hc.
        destruct (existsb _ (b_infos s pl)) eqn:Eex; [discriminate|].
        destruct (find_index _ (b_singles s pl)) as [[i [n0 a']]|] eqn:Efi.
        * destruct (N.eqb a' a); [|discriminate]. now apply Hc.
        * pose proof (Hc prev _ nd s' H (GInv_new_single s pl info a HG Eex Efi)) as HPost.
          destruct HPost as (E1 & G1 & S1 & P1).
          -- intros q j a0 E. rewrite b_infos_set_singles. eapply HP; eassumption.
          -- split; [|auto]. eapply ext_trans; [apply ext_set_singles|exact E1].
      + rewrite init_GPlayer_multi in H.
        destruct (existsb _ (b_singles s pl)) eqn:Eex; [discriminate|].
        set (acts := (a, c) :: y :: r) in *.
        assert (Hlen : 2 <= length (map fst acts)) by (cbn; lia).
        destruct (lookup_info pl info (map fst acts) prev s) as [[ind s0]|e] eqn:Elk; [|discriminate].
        destruct (lookup_info_ok s pl info _ prev ind s0 HG HP Eex Hlen Elk) as (E0 & G0 & Hind & Hnth).
        destruct (ploop prev pl ind acts 0 s0) as [[ks s1]|e] eqn:El; [|discriminate].
        inversion H; subst.
        destruct (ploop_inv prev pl ind acts IH 0 s0 ks s' El G0 (PrevOK_ext _ _ _ E0 HP) Hind)
          as (E1 & G1 & S1 & P1).
        pose proof (ploop_length _ _ _ _ _ _ _ _ El) as Hkl.
        split; [eapply ext_trans; eassumption|]. split; [assumption|]. split.
        * constructor.
          -- pose proof (ext_infos_length s0 s' pl E1). lia.
          -- rewrite (ext_infos_nth s0 s' pl ind E1 Hind), Hnth. cbn [pi_actions].
             now rewrite map_length.
          -- rewrite Hkl. cbn; lia.
          -- assumption.
        * intros h1 h2 HR x Hx. rewrite hists_Player in Hx. destruct Hx as [<-|Hx].
          -- split; [pose proof (ext_infos_length s0 s' pl E1); lia|].
             rewrite (ext_infos_nth s0 s' pl ind E1 Hind), Hnth. cbn [pi_prev].
             destruct HR as [R1 R2]. destruct pl; cbn [get_prev]; congruence.
          -- eapply P1; eassumption.
  Qed.
End Gen.

(** ** From the invariant to [WFgame] and [PerfectRecall] (generic) *)
Section GenWF.
  Context {NN : Num}.
  Local Notation T := (T NN).
  Local Notation gnode := (@gnode NN).
  Local Notation node := (@node NN).
  Local Notation bst := (@bst NN).
  Local Notation game := (@game NN).

  Lemma hists_kids_in pl i h1 h2 (ks : list node) : forall a0 x,
    In x (hists_kids pl i h1 h2 ks a0) ->
    exists k a, In k ks /\
      In x (hists k (if pl then h1 ++ [(i, a)] else h1) (if pl then h2 else h2 ++ [(i, a)])) /\
      incl (hists k (if pl then h1 ++ [(i, a)] else h1) (if pl then h2 else h2 ++ [(i, a)]))
           (hists_kids pl i h1 h2 ks a0).
  Proof.
    induction ks as [|k r IH]; intros a0 x Hx; [destruct Hx|].
    cbn [hists_kids] in Hx |- *. apply in_app_or in Hx as [Hx|Hx].
    - exists k, a0. split; [now left|]. split; [assumption|]. apply incl_appl, incl_refl.
    - destruct (IH (S a0) x Hx) as (k' & a & Hk & Hin & Hincl).
      exists k', a. split; [now right|]. split; [assumption|]. now apply incl_appr.
  Qed.

  Definition own {A} (pl : bool) (h1 h2 : A) : A := if pl then h1 else h2.

  (** the histories listed by [hists] are closed under removing the last step *)
  Lemma hists_chain (n : node) : forall h1 h2 pl i h,
    In (pl, i, h) (hists n h1 h2) ->
    exists e, h = own pl h1 h2 ++ e /\
              (e = [] \/ exists e0 j a, e = e0 ++ [(j, a)] /\
                                        In (pl, j, own pl h1 h2 ++ e0) (hists n h1 h2)).
  Proof.
    induction n as [x|ci kids IH|pl' i' kids IH] using node_ind'; intros h1 h2 pl i h Hin.
    - destruct Hin.
    - rewrite hists_Chance in Hin |- *. apply in_flat_map in Hin as (k & Hk & Hin).
      rewrite Forall_forall in IH. destruct (IH k Hk h1 h2 pl i h Hin) as (e & -> & He).
      exists e. split; [reflexivity|]. destruct He as [->|(e0 & j & a & -> & Hj)]; [now left|].
      right. exists e0, j, a. split; [reflexivity|]. apply in_flat_map. eauto.
    - rewrite hists_Player in Hin |- *. destruct Hin as [E|Hin].
      + inversion E; subst. exists []. split; [now rewrite app_nil_r|now left].
      + apply hists_kids_in in Hin as (k & a & Hk & Hin & Hincl).
        rewrite Forall_forall in IH. destruct (IH k Hk _ _ pl i h Hin) as (e & -> & He).
        destruct pl, pl'; cbn [own] in *.
        * exists ((i', a) :: e). split; [now rewrite <- app_assoc|].
          right. destruct He as [->|(e0 & j & a' & -> & Hj)].
          -- exists [], i', a. split; [reflexivity|]. left. now rewrite app_nil_r.
          -- exists ((i', a) :: e0), j, a'. split; [reflexivity|]. right. apply Hincl.
             now rewrite <- app_assoc in Hj.
        * exists e. split; [reflexivity|].
          destruct He as [->|(e0 & j & a' & -> & Hj)]; [now left|].
          right. exists e0, j, a'. split; [reflexivity|]. right. now apply Hincl.
        * exists e. split; [reflexivity|].
          destruct He as [->|(e0 & j & a' & -> & Hj)]; [now left|].
          right. exists e0, j, a'. split; [reflexivity|]. right. now apply Hincl.
        * exists ((i', a) :: e). split; [now rewrite <- app_assoc|].
          right. destruct He as [->|(e0 & j & a' & -> & Hj)].
          -- exists [], i', a. split; [reflexivity|]. left. now rewrite app_nil_r.
          -- exists ((i', a) :: e0), j, a'. split; [reflexivity|]. right. apply Hincl.
             now rewrite <- app_assoc in Hj.
  Qed.

  Lemma hists_chain_root (n : node) pl i h :
    In (pl, i, h) (hists n [] []) ->
    h = [] \/ exists e0 j a, h = e0 ++ [(j, a)] /\ In (pl, j, e0) (hists n [] []).
  Proof.
    intros Hin. destruct (hists_chain n [] [] pl i h Hin) as (e & -> & He).
    assert (Eo : own pl (@nil (nat * nat)) [] = []) by (destruct pl; reflexivity).
    rewrite Eo in *. cbn [app] in *. exact He.
  Qed.

  Lemma shaped_hists_lt (g : game) (n : node) : forall h1 h2 pl i h,
    Shaped (g_chance g) (g_infos g) n -> In (pl, i, h) (hists n h1 h2) ->
    i < length (g_infos g pl).
  Proof.
    induction n as [x|ci kids IH|pl' i' kids IH] using node_ind'; intros h1 h2 pl i h HS Hin.
    - destruct Hin.
    - rewrite hists_Chance in Hin. apply in_flat_map in Hin as (k & Hk & Hin).
      inversion HS as [|? ? _ _ _ HF|]; subst. rewrite Forall_forall in IH, HF.
      eapply IH; eauto.
    - rewrite hists_Player in Hin. inversion HS as [| |? ? ? Hi _ _ HF]; subst.
      destruct Hin as [E|Hin]; [inversion E; subst; assumption|].
      apply hists_kids_in in Hin as (k & a & Hk & Hin & _).
      rewrite Forall_forall in IH, HF. eapply IH; eauto.
  Qed.

  (** [WFgame] alone implies perfect recall: equal [pi_prev] means equal own history *)
  Lemma hist_unique (g : game) :
    prev_consistent g -> index_order g ->
    (forall pl i h, In (pl, i, h) (hists (g_root g) [] []) -> i < length (g_infos g pl)) ->
    forall i pl h h', In (pl, i, h) (hists (g_root g) [] []) ->
                      In (pl, i, h') (hists (g_root g) [] []) -> h = h'.
  Proof.
    intros HPC HIO Hlt i. induction i as [i IH] using lt_wf_ind. intros pl h h' Hh Hh'.
    pose proof (HPC pl i h Hh) as P1. pose proof (HPC pl i h' Hh') as P2.
    destruct (hists_chain_root _ pl i h Hh) as [->|(e0 & j & a & -> & Hj)];
      destruct (hists_chain_root _ pl i h' Hh') as [->|(e0' & j' & a' & -> & Hj')].
    - reflexivity.
    - rewrite last_map_snoc in P2. cbn [map last] in P1. congruence.
    - rewrite last_map_snoc in P1. cbn [map last] in P2. congruence.
    - rewrite last_map_snoc in P1, P2. rewrite P1 in P2. inversion P2; subst.
      pose proof (HIO pl i j' a' (Hlt _ _ _ Hh) P1) as Hji.
      f_equal. eapply IH; eassumption.
  Qed.

  Lemma choose_fun (L : list (bool * nat * list (nat * nat))) :
    (forall pl i h h', In (pl, i, h) L -> In (pl, i, h') L -> h = h') ->
    exists H : bool -> nat -> list (nat * nat), forall pl i h, In (pl, i, h) L -> h = H pl i.
  Proof.
    induction L as [|[[pl0 i0] h0] L IH]; intros HU.
    - exists (fun _ _ => []). intros pl i h [].
    - destruct IH as [H HH].
      { intros pl i h h' A B. eapply HU; right; eassumption. }
      exists (fun pl i => if Bool.eqb pl pl0 && Nat.eqb i i0 then h0 else H pl i).
      intros pl i h Hin.
      destruct (Bool.eqb pl pl0 && Nat.eqb i i0) eqn:E.
      + apply andb_true_iff in E as [E1 E2]. apply Bool.eqb_prop in E1. apply Nat.eqb_eq in E2.
        subst. eapply HU; [exact Hin|now left].
      + destruct Hin as [E'|Hin]; [|now apply HH].
        inversion E'; subst. now rewrite Bool.eqb_reflx, Nat.eqb_refl in E.
  Qed.

  Theorem WFgame_PerfectRecall (g : game) :
    Shaped (g_chance g) (g_infos g) (g_root g) -> prev_consistent g -> index_order g ->
    PerfectRecall g.
  Proof.
    intros HS HPC HIO. apply choose_fun. intros pl i h h'.
    apply (hist_unique g HPC HIO). intros pl' i' h'' Hin.
    eapply shaped_hists_lt; eassumption.
  Qed.

  (** accepted games are well formed and have perfect recall, for every number type *)
  Theorem from_root_WF (t : gnode) (g : game) :
    from_root t = Ok g -> WFgame g /\ PerfectRecall g.
  Proof.
    unfold from_root. intros H.
    destruct (init t (None, None) b_empty) as [[root s]|e] eqn:E; [|discriminate].
    inversion H; subst; clear H.
    assert (HP0 : PrevOK (None, None) (@b_empty NN)) by (intros [|] j a E0; discriminate E0).
    destruct (init_inv t _ _ _ _ E GInv_empty HP0) as (_ & [GW GI] & HS & HPC).
    set (g := mkGame _ _ _ _ _ root).
    assert (HS' : Shaped (g_chance g) (g_infos g) (g_root g)) by exact HS.
    assert (HPC' : prev_consistent g).
    { intros pl i h Hin. apply (HPC [] [] (conj eq_refl eq_refl) (pl, i, h) Hin). }
    assert (HIO : index_order g) by exact GI.
    split; [|now apply WFgame_PerfectRecall].
    split; [now apply Shaped_shaped|]. split; [exact (GW true)|]. split; [exact (GW false)|].
    split; assumption.
  Qed.
End GenWF.

(** ** Over the reals: chance tables are probability distributions *)
Section Real.
  Local Open Scope R_scope.
  Local Notation gnode := (@gnode RNum).
  Local Notation node := (@node RNum).
  Local Notation bst := (@bst RNum).
  Local Notation game := (@game RNum).

  Definition rowOK (row : list R) : Prop := Forall (fun p => 0 < p) row /\ Rsum row = 1.
  Definition CInv (s : bst) : Prop := Forall rowOK (map snd (b_chance s)).

  Lemma Rsum_pos_ne (l : list R) : l <> [] -> Forall (fun x => 0 < x) l -> 0 < Rsum l.
  Proof.
    intros Hne H. induction H as [|x l Hx Hl IH]; [congruence|].
    cbn [Rsum]. destruct l as [|y l]; [cbn [Rsum]; lra|].
    assert (0 < Rsum (y :: l)) by (apply IH; discriminate). lra.
  Qed.

  Lemma normalise_R (ws : list R) : @normalise RNum ws = map (fun w => w / Rsum ws) ws.
  Proof. unfold normalise. cbn [is_fin RNum]. rewrite sum_Rsum. reflexivity. Qed.

  Lemma normalise_rowOK (ws : list R) :
    ws <> [] -> Forall (fun w => 0 < w) ws -> rowOK (@normalise RNum ws).
  Proof.
    intros Hne Hpos. pose proof (Rsum_pos_ne ws Hne Hpos) as HS.
    rewrite normalise_R. split.
    - apply Forall_forall. intros y Hy. apply in_map_iff in Hy as (x & <- & Hx).
      rewrite Forall_forall in Hpos. specialize (Hpos x Hx).
      apply Rmult_lt_0_compat; [assumption|]. now apply Rinv_0_lt_compat.
    - rewrite Rsum_map_div. unfold Rdiv. apply Rinv_r. lra.
  Qed.

  Lemma wok_R (w : R) : @wok RNum w = true <-> 0 < w.
  Proof.
    unfold wok. cbn [ltb zero is_fin RNum]. rewrite andb_true_r. apply Rltb_true.
  Qed.

  Lemma cloop_cinv prev (outs : list (R * gnode)) :
    Forall (fun wc : R * gnode =>
              forall prev s nd s', init (snd wc) prev s = Ok (nd, s') -> CInv s -> CInv s')
           outs ->
    forall s ks s', @cloop RNum prev outs s = Ok (ks, s') -> CInv s ->
                    CInv s' /\ Forall (fun w => 0 < w) (map fst outs).
  Proof.
    induction 1 as [|[p c] l Hc Hl IH]; intros s ks s' H HC; cbn [cloop] in H.
    - inversion H; subst. split; [assumption|constructor].
    - destruct (@wok RNum p) eqn:Ew; [|discriminate].
      destruct (init c prev s) as [[c' s1]|e] eqn:Ec; [|discriminate].
      destruct (@cloop RNum prev l s1) as [[ks1 s2]|e] eqn:El; [|discriminate].
      inversion H; subst. cbn [snd] in Hc.
      destruct (IH s1 ks1 s' El (Hc _ _ _ _ Ec HC)) as [C2 W2].
      split; [assumption|]. cbn [map fst]. constructor; [now apply wok_R|assumption].
  Qed.

  Lemma ploop_cinv prev pl ind (acts : list (N * gnode)) :
    Forall (fun ac : N * gnode =>
              forall prev s nd s', init (snd ac) prev s = Ok (nd, s') -> CInv s -> CInv s')
           acts ->
    forall ai s ks s', @ploop RNum prev pl ind acts ai s = Ok (ks, s') -> CInv s -> CInv s'.
  Proof.
    induction 1 as [|[a c] l Hc Hl IH]; intros ai s ks s' H HC; cbn [ploop] in H.
    - inversion H; subst. assumption.
    - destruct (init c _ s) as [[c' s1]|e] eqn:Ec; [|discriminate].
      destruct (@ploop RNum prev pl ind l (S ai) s1) as [[ks1 s2]|e] eqn:El; [|discriminate].
      inversion H; subst. cbn [snd] in Hc.
      eapply IH; [exact El|]. eapply Hc; eassumption.
  Qed.

  Lemma CInv_snoc (s : bst) o row : CInv s -> rowOK row -> CInv (set_chance s (b_chance s ++ [(o, row)])).
  Proof.
    intros HC Hr. unfold CInv. rewrite b_chance_set_chance, map_app. apply Forall_app.
    split; [assumption|]. cbn [map snd]. constructor; [assumption|constructor].
  Qed.

  Lemma init_cinv (n : gnode) :
    forall prev s nd s', init n prev s = Ok (nd, s') -> CInv s -> CInv s'.
  Proof.
    induction n as [p|info outs IH|pl info acts IH] using gnode_ind'; intros prev s nd s' H HC.
    - rewrite init_GTerm in H. destruct (is_fin RNum p); [|discriminate]. now inversion H; subst.
    - rewrite init_GChance in H.
      destruct (cloop prev outs s) as [[ks s1]|e] eqn:El; [|discriminate].
      destruct (cloop_cinv prev outs IH s ks s1 El HC) as [C1 W1].
      pose proof (cloop_length _ _ _ _ _ El) as Hlen.
      unfold chance_fin in H. destruct ks as [|k [|k2 kr]]; [discriminate| |].
      + now inversion H; subst.
      + assert (Hrow : rowOK (@normalise RNum (map fst outs))).
        { apply normalise_rowOK; [|assumption]. destruct outs; [discriminate Hlen|discriminate]. }
        destruct info as [key|].
        * destruct (find_index _ _) as [[ind [o old]]|].
          -- destruct (list_eqb _ _ _); [|discriminate]. now inversion H; subst.
          -- inversion H; subst. now apply CInv_snoc.
        * inversion H; subst. now apply CInv_snoc.
    - destruct acts as [|[a c] [|y r]].
      + discriminate H.
      + rewrite init_GPlayer_single in H.
        inversion IH as [|? ? Hc _]; subst. cbn [snd] in Hc.
        destruct (existsb _ _); [discriminate|].
        destruct (find_index _ _) as [[i [n0 a']]|].
        * destruct (N.eqb a' a); [|discriminate]. eapply Hc; eassumption.
        * eapply Hc; [exact H|]. unfold CInv. now rewrite b_chance_set_singles.
      + rewrite init_GPlayer_multi in H.
        destruct (existsb _ _); [discriminate|].
        destruct (lookup_info _ _ _ _ _) as [[ind s0]|e] eqn:Elk; [|discriminate].
        destruct (ploop _ _ _ _ _ _) as [[ks s1]|e] eqn:El; [|discriminate].
        inversion H; subst. eapply ploop_cinv; [exact IH|exact El|].
        unfold lookup_info in Elk. destruct (find_index _ _) as [[i pi]|].
        * destruct (negb _); [discriminate|]. destruct (negb _); [discriminate|].
          now inversion Elk; subst.
        * destruct (nodupb _); [|discriminate]. inversion Elk; subst.
          unfold CInv. now rewrite b_chance_set_infos.
  Qed.

  Theorem from_root_chance_ok (t : gnode) (g : game) : from_root t = Ok g -> ChanceOK g.
  Proof.
    unfold from_root. intros H.
    destruct (init t (None, None) b_empty) as [[root s]|e] eqn:E; [|discriminate].
    inversion H; subst; clear H. unfold ChanceOK. cbn [g_chance].
    apply (init_cinv t _ _ _ _ E). constructor.
  Qed.

  (** *** Part B: soundness *)
  Theorem from_root_sound (t : gnode) (g : game) :
    from_root t = Ok g -> WFgame g /\ PerfectRecall g /\ ChanceOK g.
  Proof.
    intros H. destruct (from_root_WF t g H) as [H1 H2].
    split; [assumption|]. split; [assumption|]. now apply (from_root_chance_ok t).
  Qed.
End Real.

(** ** Part C: blame — a rejected tree violates the rule the error names *)
Section Blame.
  Context {NN : Num}.
  Local Notation T := (T NN).
  Local Notation gnode := (@gnode NN).
  Local Notation node := (@node NN).
  Local Notation bst := (@bst NN).
  Local Notation game := (@game NN).

  (** *** Node occurrences of the raw tree, with own histories

      An occurrence of a decision node carries the own history of its player: the list
      of (infoset name, action index) pairs of the *multi-action* decision nodes of that
      player on the path from the root (single-action nodes are exempt, as documented). *)
  Inductive occ :=
  | OTerm (p : T)
  | OChance (info : option N) (ws : list T)
  | OPlayer (pl : bool) (info : N) (acts : list N) (h : list (N * nat)).

  Fixpoint occs (n : gnode) (h1 h2 : list (N * nat)) : list occ :=
    match n with
    | GTerm p => [OTerm p]
    | GChance info outs =>
        OChance info (map fst outs) ::
        (fix go (l : list (T * gnode)) : list occ :=
           match l with
           | [] => []
           | wc :: r => occs (snd wc) h1 h2 ++ go r
           end) outs
    | GPlayer pl info acts =>
        let multi := Nat.leb 2 (length acts) in
        OPlayer pl info (map fst acts) (if pl then h1 else h2) ::
        (fix go (l : list (N * gnode)) (a : nat) : list occ :=
           match l with
           | [] => []
           | ac :: r =>
               occs (snd ac) (if multi && pl then h1 ++ [(info, a)] else h1)
                    (if multi && negb pl then h2 ++ [(info, a)] else h2)
               ++ go r (S a)
           end) acts O
    end.

  Fixpoint occs_kids (multi pl : bool) (info : N) (h1 h2 : list (N * nat))
           (l : list (N * gnode)) (a : nat) : list occ :=
    match l with
    | [] => []
    | ac :: r =>
        occs (snd ac) (if multi && pl then h1 ++ [(info, a)] else h1)
             (if multi && negb pl then h2 ++ [(info, a)] else h2)
        ++ occs_kids multi pl info h1 h2 r (S a)
    end.

  Lemma occs_GPlayer pl info (acts : list (N * gnode)) h1 h2 :
    occs (GPlayer pl info acts) h1 h2 =
    OPlayer pl info (map fst acts) (if pl then h1 else h2) ::
    occs_kids (Nat.leb 2 (length acts)) pl info h1 h2 acts O.
  Proof.
    cbn [occs]. f_equal. generalize (Nat.leb 2 (length acts)) as m. intros m. generalize O.
    induction acts as [|ac r IH]; intros a; [reflexivity|].
    cbn [occs_kids]. now rewrite <- IH.
  Qed.

  Lemma occs_GChance info (outs : list (T * gnode)) h1 h2 :
    occs (GChance info outs) h1 h2 =
    OChance info (map fst outs) :: flat_map (fun wc => occs (snd wc) h1 h2) outs.
  Proof.
    reflexivity.
  Qed.

  Definition last_opt {A} (h : list A) : option A := last (map Some h) None.

  Lemma last_opt_snoc {A} (h : list A) x : last_opt (h ++ [x]) = Some x.
  Proof. apply last_map_snoc. Qed.

  (** *** What each error kind claims about the tree (as a list of occurrences) *)
  Definition BlameL (e : gerr) (U : list occ) : Prop :=
    match e with
    | EmptyChance => exists info, In (OChance info []) U
    | NonPositiveChance =>
        exists info ws w, In (OChance info ws) U /\ In w ws /\
                          ltb NN (zero NN) w && is_fin NN w = false
    | ProbabilitiesNotEqual =>
        exists k ws ws', In (OChance (Some k) ws) U /\ In (OChance (Some k) ws') U /\
                         2 <= length ws /\ 2 <= length ws' /\
                         list_eqb (eqb NN) (normalise ws) (normalise ws') = false
    | ImperfectRecall =>
        exists pl info acts acts' h h',
          In (OPlayer pl info acts h) U /\ In (OPlayer pl info acts' h') U /\
          2 <= length acts /\ 2 <= length acts' /\ last_opt h <> last_opt h'
    | EmptyPlayer => exists pl info h, In (OPlayer pl info [] h) U
    | ActionsNotEqual =>
        exists pl info acts acts' h h',
          In (OPlayer pl info acts h) U /\ In (OPlayer pl info acts' h') U /\ acts <> acts'
    | ActionsNotUnique =>
        exists pl info acts h, In (OPlayer pl info acts h) U /\ ~ NoDup acts
    | NonFinitePayoff => exists p, In (OTerm p) U /\ is_fin NN p = false
    end.

  Definition Blame (e : gerr) (t : gnode) : Prop := BlameL e (occs t [] []).

  (** *** Every table entry comes from an occurrence *)
  Definition name_prev (s : bst) (pl : bool) (o : option (nat * nat)) : option (N * nat) :=
    match o with
    | None => None
    | Some (j, a) => Some (pi_name (nth j (b_infos s pl) dpi), a)
    end.

  Definition JInfo (U : list occ) (s : bst) (pl : bool) (i : nat) : Prop :=
    exists h, In (OPlayer pl (pi_name (nth i (b_infos s pl) dpi))
                          (pi_actions (nth i (b_infos s pl) dpi)) h) U /\
              2 <= length (pi_actions (nth i (b_infos s pl) dpi)) /\
              name_prev s pl (pi_prev (nth i (b_infos s pl) dpi)) = last_opt h.

  Definition Just (U : list occ) (s : bst) : Prop :=
    (forall pl i, i < length (b_infos s pl) -> JInfo U s pl i) /\
    (forall pl info a, In (info, a) (b_singles s pl) -> exists h, In (OPlayer pl info [a] h) U) /\
    (forall k row, In (Some k, row) (b_chance s) ->
                   exists ws, In (OChance (Some k) ws) U /\ 2 <= length ws /\ row = normalise ws).

  Definition PrevRel (s : bst) (prev : pprev) (h1 h2 : list (N * nat)) : Prop :=
    forall pl, name_prev s pl (get_prev prev pl) = last_opt (own pl h1 h2).

  Lemma name_prev_ext s s' pl o :
    ext s s' -> (forall j a, o = Some (j, a) -> j < length (b_infos s pl)) ->
    name_prev s' pl o = name_prev s pl o.
  Proof.
    intros He H. destruct o as [[j a]|]; [|reflexivity]. cbn [name_prev].
    now rewrite (ext_infos_nth s s' pl j He (H j a eq_refl)).
  Qed.

  Lemma PrevRel_ext s s' prev h1 h2 :
    ext s s' -> PrevOK prev s -> PrevRel s prev h1 h2 -> PrevRel s' prev h1 h2.
  Proof.
    intros He HP HR pl. rewrite <- (HR pl). apply name_prev_ext; [assumption|].
    intros j a E. eapply HP; eassumption.
  Qed.

  Lemma PrevRel_set s prev h1 h2 pl ind info ai :
    PrevRel s prev h1 h2 -> pi_name (nth ind (b_infos s pl) dpi) = info ->
    PrevRel s (set_prev prev pl (Some (ind, ai)))
            (if true && pl then h1 ++ [(info, ai)] else h1)
            (if true && negb pl then h2 ++ [(info, ai)] else h2).
  Proof.
    intros HR Hn q. specialize (HR q).
    destruct pl, q; cbn [andb negb own set_prev get_prev fst snd name_prev] in *;
      try assumption; rewrite last_opt_snoc, Hn; reflexivity.
  Qed.

  Lemma pi_name_nth (l : list pinfo) j : pi_name (nth j l dpi) = nth j (map pi_name l) 0%N.
  Proof. change 0%N with (pi_name dpi). now rewrite map_nth. Qed.

  Lemma name_prev_inj s pl o o' :
    GInv s ->
    (forall j a, o = Some (j, a) -> j < length (b_infos s pl)) ->
    (forall j a, o' = Some (j, a) -> j < length (b_infos s pl)) ->
    name_prev s pl o = name_prev s pl o' -> o = o'.
  Proof.
    intros [HW _] H1 H2 E. destruct (HW pl) as [Hnd _]. apply NoDup_app_l in Hnd.
    destruct o as [[j a]|], o' as [[j' a']|]; cbn [name_prev] in E; try congruence.
    injection E as En Ea. rewrite !pi_name_nth in En.
    rewrite (NoDup_nth _ 0%N) in Hnd. subst a'. cut (j = j'); [now intros ->|].
    apply Hnd.
    - rewrite map_length. eapply H1. reflexivity.
    - rewrite map_length. eapply H2. reflexivity.
    - exact En.
  Qed.

  (** *** Table updates keep the justification *)
  Lemma Just_set_chance U s o row :
    Just U s ->
    (forall k, o = Some k -> exists ws, In (OChance (Some k) ws) U /\ 2 <= length ws /\ row = normalise ws) ->
    Just U (set_chance s (b_chance s ++ [(o, row)])).
  Proof.
    intros (J1 & J2 & J3) Hnew. split; [|split].
    - intros pl i. unfold JInfo, name_prev. rewrite b_infos_set_chance. apply J1.
    - intros pl info a. rewrite b_singles_set_chance. apply J2.
    - intros k r. rewrite b_chance_set_chance. intros Hin. apply in_app_or in Hin as [Hin|Hin].
      + now apply J3.
      + destruct Hin as [E|[]]. inversion E; subst. now apply Hnew.
  Qed.

  Lemma Just_set_singles U s pl info a h :
    Just U s -> In (OPlayer pl info [a] h) U ->
    Just U (set_singles s pl (b_singles s pl ++ [(info, a)])).
  Proof.
    intros (J1 & J2 & J3) Hnew. split; [|split].
    - intros q i. unfold JInfo, name_prev. rewrite b_infos_set_singles. apply J1.
    - intros q info' a'. destruct (bool_cases q pl) as [->| ->].
      + rewrite b_singles_set_singles_same. intros Hin. apply in_app_or in Hin as [Hin|Hin].
        * now apply J2.
        * destruct Hin as [E|[]]. inversion E; subst. eauto.
      + rewrite b_singles_set_singles_other. apply J2.
    - intros k r. rewrite b_chance_set_singles. apply J3.
  Qed.

  Lemma Just_set_infos U s pl info actions prev h :
    GInv s -> PrevOK prev s -> Just U s ->
    In (OPlayer pl info actions h) U -> 2 <= length actions ->
    name_prev s pl (get_prev prev pl) = last_opt h ->
    Just U (set_infos s pl (b_infos s pl ++ [mkPinfo info actions (get_prev prev pl)])).
  Proof.
    intros [HW HI] HP (J1 & J2 & J3) Hin Hlen Hnp.
    set (s' := set_infos s pl _).
    assert (He : ext s s') by apply ext_set_infos.
    split; [|split].
    - intros q i Hi. destruct (bool_cases q pl) as [->| ->].
      + unfold s' in Hi. rewrite b_infos_set_infos_same, app_length in Hi. cbn [length] in Hi.
        destruct (lt_dec i (length (b_infos s pl))) as [Hlt|Hge].
        * destruct (J1 pl i Hlt) as (h0 & A & B & C). unfold JInfo.
          rewrite (ext_infos_nth s s' pl i He Hlt). exists h0. split; [assumption|].
          split; [assumption|]. rewrite <- C. apply name_prev_ext; [assumption|].
          intros j a E. pose proof (HI pl i j a Hlt E). lia.
        * assert (i = length (b_infos s pl)) as -> by lia. unfold JInfo.
          assert (En : nth (length (b_infos s pl)) (b_infos s' pl) dpi
                       = mkPinfo info actions (get_prev prev pl)).
          { unfold s'. rewrite b_infos_set_infos_same. apply nth_middle. }
          rewrite En. cbn [pi_name pi_actions pi_prev]. exists h. split; [assumption|].
          split; [assumption|]. rewrite <- Hnp. apply name_prev_ext; [assumption|].
          intros j a E. eapply HP; eassumption.
      + unfold s' in Hi |- *. unfold JInfo, name_prev.
        rewrite b_infos_set_infos_other in Hi |- *. now apply J1.
    - intros q info' a'. unfold s'. rewrite b_singles_set_infos. apply J2.
    - intros k r. unfold s'. rewrite b_chance_set_infos. apply J3.
  Qed.

  (** *** The blame invariant *)
  Definition InitBlame (n : gnode) : Prop :=
    forall prev s h1 h2 U,
      GInv s -> PrevOK prev s -> Just U s -> PrevRel s prev h1 h2 -> incl (occs n h1 h2) U ->
      match init n prev s with
      | Ok (nd, s') => Just U s'
      | Err e => BlameL e U
      end.

  Lemma cloop_blame prev (outs : list (T * gnode)) h1 h2 U :
    Forall (fun wc : T * gnode => InitBlame (snd wc)) outs ->
    (forall w, In w (map fst outs) -> wok w = false -> BlameL NonPositiveChance U) ->
    incl (flat_map (fun wc => occs (snd wc) h1 h2) outs) U ->
    forall s, GInv s -> PrevOK prev s -> Just U s -> PrevRel s prev h1 h2 ->
    match cloop prev outs s with
    | Ok (ks, s') => Just U s'
    | Err e => BlameL e U
    end.
  Proof.
    induction 1 as [|[p c] l Hc Hl IH]; intros HNP Hincl s HG HP HJ HR; cbn [cloop].
    - assumption.
    - cbn [flat_map snd] in Hincl. apply incl_app_inv in Hincl as [Hi1 Hi2].
      destruct (wok p) eqn:Ew; [|apply (HNP p); [now left|assumption]].
      cbn [snd] in Hc. specialize (Hc prev s h1 h2 U HG HP HJ HR Hi1).
      destruct (init c prev s) as [[c' s1]|e] eqn:Ec; [|assumption].
      destruct (init_inv c prev s c' s1 Ec HG HP) as (E1 & G1 & _ & _).
      assert (HNP' : forall w, In w (map fst l) -> wok w = false -> BlameL NonPositiveChance U).
      { intros w Hw. apply HNP. now right. }
      specialize (IH HNP' Hi2 s1 G1 (PrevOK_ext _ _ _ E1 HP) Hc (PrevRel_ext _ _ _ _ _ E1 HP HR)).
      destruct (cloop prev l s1) as [[ks1 s2]|e]; assumption.
  Qed.

  Lemma ploop_blame prev pl ind info (acts : list (N * gnode)) h1 h2 U :
    Forall (fun ac : N * gnode => InitBlame (snd ac)) acts ->
    forall ai s,
    incl (occs_kids true pl info h1 h2 acts ai) U ->
    GInv s -> PrevOK prev s -> Just U s -> PrevRel s prev h1 h2 ->
    ind < length (b_infos s pl) -> pi_name (nth ind (b_infos s pl) dpi) = info ->
    match ploop prev pl ind acts ai s with
    | Ok (ks, s') => Just U s'
    | Err e => BlameL e U
    end.
  Proof.
    induction 1 as [|[a c] l Hc Hl IH]; intros ai s Hincl HG HP HJ HR Hind Hname; cbn [ploop].
    - assumption.
    - cbn [occs_kids snd] in Hincl. apply incl_app_inv in Hincl as [Hi1 Hi2].
      cbn [snd] in Hc.
      pose proof (PrevOK_set _ _ _ _ ai HP Hind) as HP'.
      specialize (Hc _ s _ _ U HG HP' HJ (PrevRel_set _ _ _ _ _ _ _ ai HR Hname) Hi1).
      destruct (init c _ s) as [[c' s1]|e] eqn:Ec; [|assumption].
      destruct (init_inv c _ s c' s1 Ec HG HP') as (E1 & G1 & _ & _).
      assert (Hind1 : ind < length (b_infos s1 pl))
        by (pose proof (ext_infos_length s s1 pl E1); lia).
      assert (Hname1 : pi_name (nth ind (b_infos s1 pl) dpi) = info)
        by now rewrite (ext_infos_nth s s1 pl ind E1 Hind).
      specialize (IH (S ai) s1 Hi2 G1 (PrevOK_ext _ _ _ E1 HP) Hc
                     (PrevRel_ext _ _ _ _ _ E1 HP HR) Hind1 Hname1).
      destruct (ploop prev pl ind l (S ai) s1) as [[ks1 s2]|e]; assumption.
  Qed.

  Lemma lookup_info_blame U s pl info actions prev h1 h2 :
    GInv s -> PrevOK prev s -> Just U s -> PrevRel s prev h1 h2 ->
    In (OPlayer pl info actions (own pl h1 h2)) U -> 2 <= length actions ->
    match lookup_info pl info actions prev s with
    | Ok (ind, s0) => Just U s0
    | Err e => BlameL e U
    end.
  Proof.
    intros HG HP HJ HR Hin Hlen. unfold lookup_info.
    destruct (find_index _ (b_infos s pl)) as [[i pi]|] eqn:Efi.
    - apply find_index_Some in Efi as (Hi & Hn & Hf). apply N.eqb_eq in Hf.
      destruct HJ as (J1 & J2 & J3). destruct (J1 pl i Hi) as (h0 & A & B & C).
      rewrite (nth_error_nth' _ _ _ dpi Hn) in A, B, C. rewrite Hf in A.
      destruct (list_eqb N.eqb (pi_actions pi) actions) eqn:Ea; cbn [negb].
      + destruct (prev_eqb (pi_prev pi) (get_prev prev pl)) eqn:Ep; cbn [negb].
        * repeat split; assumption.
        * cbn [BlameL]. exists pl, info, (pi_actions pi), actions, h0, (own pl h1 h2).
          repeat split; try assumption. rewrite <- C, <- (HR pl). intros E.
          apply name_prev_inj in E; try assumption.
          -- apply prev_eqb_eq in E. congruence.
          -- intros j a E'. destruct HG as [_ HI].
             pose proof (HI pl i j a Hi) as Hji.
             rewrite (nth_error_nth' _ _ _ dpi Hn) in Hji. specialize (Hji E'). lia.
          -- intros j a E'. eapply HP; eassumption.
      + cbn [BlameL]. exists pl, info, (pi_actions pi), actions, h0, (own pl h1 h2).
        repeat split; try assumption. intros E. apply list_eqb_N_eq in E. congruence.
    - destruct (nodupb actions) eqn:End.
      + eapply Just_set_infos; try eassumption. apply HR.
      + cbn [BlameL]. exists pl, info, actions, (own pl h1 h2). split; [assumption|].
        intros Hnd. apply NoDup_nodupb in Hnd. congruence.
  Qed.

  Lemma init_blame (n : gnode) : InitBlame n.
  Proof.
    induction n as [p|info outs IH|pl info acts IH] using gnode_ind';
      intros prev s h1 h2 U HG HP HJ HR Hincl.
    - rewrite init_GTerm. destruct (is_fin NN p) eqn:E; [assumption|].
      cbn [BlameL]. exists p. split; [|assumption]. apply Hincl. now left.
    - rewrite occs_GChance in Hincl. apply incl_cons_inv in Hincl as [Hhead Hincl].
      rewrite init_GChance.
      assert (HNP : forall w, In w (map fst outs) -> wok w = false -> BlameL NonPositiveChance U).
      { intros w Hw Ew. cbn [BlameL]. exists info, (map fst outs), w. auto. }
      pose proof (cloop_blame prev outs h1 h2 U IH HNP Hincl s HG HP HJ HR) as HB.
      destruct (cloop prev outs s) as [[ks s1]|e] eqn:El; [|assumption].
      pose proof (cloop_length _ _ _ _ _ El) as Hlen.
      unfold chance_fin. destruct ks as [|k [|k2 kr]].
      + cbn [BlameL]. exists info. destruct outs; [assumption|discriminate Hlen].
      + assumption.
      + assert (Hl2 : 2 <= length (map fst outs)) by (rewrite map_length, <- Hlen; cbn; lia).
        destruct info as [key|].
        * destruct (find_index (opt_key_eqb key) (b_chance s1)) as [[ind [o old]]|] eqn:Efi.
          -- destruct (list_eqb (eqb NN) old (normalise (map fst outs))) eqn:Eeq; [assumption|].
             apply find_index_Some in Efi as (Hi & Hn & Hf).
             unfold opt_key_eqb in Hf. cbn [fst] in Hf. destruct o as [k'|]; [|discriminate].
             apply N.eqb_eq in Hf. subst k'. apply nth_error_In in Hn.
             destruct HB as (_ & _ & J3). destruct (J3 key old Hn) as (ws0 & A & B & ->).
             cbn [BlameL]. exists key, ws0, (map fst outs). repeat split; assumption.
          -- apply Just_set_chance; [assumption|]. intros k0 E. inversion E; subst. eauto.
        * apply Just_set_chance; [assumption|]. intros k0 E. discriminate E.
    - rewrite occs_GPlayer in Hincl. apply incl_cons_inv in Hincl as [Hhead Hincl].
      change (if pl then h1 else h2) with (own pl h1 h2) in Hhead.
      destruct acts as [|[a c] [|y r]].
      + cbn [BlameL]. exists pl, info, (own pl h1 h2). exact Hhead.
      + rewrite init_GPlayer_single.
        inversion IH as [|? ? Hc _]; subst. cbn [snd] in Hc.
        cbn [length Nat.leb occs_kids andb snd] in Hincl. rewrite app_nil_r in Hincl.
        cbn [map fst] in Hhead.
        destruct (existsb _ (b_infos s pl)) eqn:Eex.
        * apply existsb_exists in Eex as (pi & Hpi & En). apply N.eqb_eq in En.
          apply (In_nth _ _ dpi) in Hpi as (i & Hi & Ei).
          destruct HJ as (J1 & _ & _). destruct (J1 pl i Hi) as (h0 & A & B & _).
          rewrite Ei, En in A. rewrite Ei in B.
          cbn [BlameL]. exists pl, info, (pi_actions pi), [a], h0, (own pl h1 h2).
          repeat split; try assumption. intros E. rewrite E in B. cbn in B. lia.
        * destruct (find_index _ (b_singles s pl)) as [[i [n0 a']]|] eqn:Efi.
          -- apply find_index_Some in Efi as (Hi & Hn & Hf). cbn [fst] in Hf.
             apply N.eqb_eq in Hf. subst n0. apply nth_error_In in Hn.
             destruct (N.eqb a' a) eqn:Ea.
             ++ apply (Hc prev s h1 h2 U); assumption.
             ++ destruct HJ as (_ & J2 & _). destruct (J2 pl info a' Hn) as (h0 & A).
                cbn [BlameL]. exists pl, info, [a'], [a], h0, (own pl h1 h2).
                repeat split; try assumption. intros E. inversion E; subst.
                now rewrite N.eqb_refl in Ea.
          -- apply (Hc prev _ h1 h2 U); try assumption.
             ++ now apply GInv_new_single.
             ++ intros q j a0 E. rewrite b_infos_set_singles. eapply HP; eassumption.
             ++ eapply Just_set_singles; eassumption.
             ++ intros q. unfold name_prev. rewrite b_infos_set_singles. apply HR.
      + rewrite init_GPlayer_multi.
        set (acts := (a, c) :: y :: r) in *.
        assert (Hlen : 2 <= length (map fst acts)) by (cbn; lia).
        assert (Em : Nat.leb 2 (length acts) = true) by reflexivity.
        rewrite Em in Hincl.
        destruct (existsb _ (b_singles s pl)) eqn:Eex.
        * apply existsb_exists in Eex as ([n0 a'] & He & En). cbn [fst] in En.
          apply N.eqb_eq in En. subst n0.
          destruct HJ as (_ & J2 & _). destruct (J2 pl info a' He) as (h0 & A).
          cbn [BlameL]. exists pl, info, [a'], (map fst acts), h0, (own pl h1 h2).
          repeat split; try assumption. intros E. rewrite <- E in Hlen. cbn in Hlen. lia.
        * pose proof (lookup_info_blame U s pl info (map fst acts) prev h1 h2 HG HP HJ HR Hhead Hlen)
            as HL.
          destruct (lookup_info pl info (map fst acts) prev s) as [[ind s0]|e] eqn:Elk; [|assumption].
          destruct (lookup_info_ok s pl info _ prev ind s0 HG HP Eex Hlen Elk)
            as (E0 & G0 & Hind & Hnth).
          assert (Hname : pi_name (nth ind (b_infos s0 pl) dpi) = info) by now rewrite Hnth.
          pose proof (ploop_blame prev pl ind info acts h1 h2 U IH 0 s0 Hincl G0
                        (PrevOK_ext _ _ _ E0 HP) HL (PrevRel_ext _ _ _ _ _ E0 HP HR) Hind Hname)
            as HB.
          destruct (ploop prev pl ind acts 0 s0) as [[ks s1]|e]; assumption.
  Qed.

  Lemma Just_empty U : Just U (@b_empty NN).
  Proof.
    split; [|split].
    - intros [|] i Hi; cbn in Hi; lia.
    - intros [|] info a [].
    - intros k row [].
  Qed.

  Theorem from_root_blame (t : gnode) (e : gerr) : from_root t = Err e -> Blame e t.
  Proof.
    unfold from_root, Blame. intros H.
    assert (HP0 : PrevOK (None, None) (@b_empty NN)) by (intros [|] j a E0; discriminate E0).
    assert (HR0 : PrevRel (@b_empty NN) (None, None) [] []) by (intros [|]; reflexivity).
    pose proof (init_blame t (None, None) b_empty [] [] (occs t [] []) GInv_empty HP0
                           (Just_empty _) HR0 (incl_refl _)) as HB.
    destruct (init t (None, None) b_empty) as [[root s]|e'] eqn:E; [discriminate|].
    inversion H; subst. exact HB.
  Qed.
End Blame.

(** ** Part D: the declarative contract *)
Section Contract.
  Context {NN : Num}.
  Local Notation T := (T NN).
  Local Notation gnode := (@gnode NN).
  Local Notation node := (@node NN).
  Local Notation bst := (@bst NN).
  Local Notation game := (@game NN).
  Local Notation occ := (@occ NN).

  (** The documented contract, on the list of node occurrences of the raw tree; it mentions
      neither the builder state, nor table indices, nor the traversal order:
      - payoffs are finite;
      - every chance node has an outcome and only positive finite weights;
      - chance nodes (with at least two outcomes) sharing a label have the same normalised
        probabilities in the same order;
      - every decision node has an action, and its actions are pairwise distinct;
      - decision nodes of one player sharing an infoset name list the same actions in the
        same order, and (when they have at least two actions) are reached with the same
        previous own (infoset name, action index) step — see [Contract_full_history] for
        the equivalent formulation with the whole own history. *)
  Definition ContractL (U : list occ) : Prop :=
    (forall p, In (OTerm p) U -> is_fin NN p = true) /\
    (forall info ws, In (OChance info ws) U ->
       ws <> [] /\ forall w, In w ws -> ltb NN (zero NN) w && is_fin NN w = true) /\
    (forall k ws ws', In (OChance (Some k) ws) U -> In (OChance (Some k) ws') U ->
       2 <= length ws -> 2 <= length ws' ->
       list_eqb (eqb NN) (normalise ws) (normalise ws') = true) /\
    (forall pl info acts h, In (OPlayer pl info acts h) U -> acts <> [] /\ NoDup acts) /\
    (forall pl info acts acts' h h',
       In (OPlayer pl info acts h) U -> In (OPlayer pl info acts' h') U ->
       acts = acts' /\ (2 <= length acts -> last_opt h = last_opt h')).

  Definition Contract (t : gnode) : Prop := ContractL (occs t [] []).

  Lemma Contract_no_blame U e : ContractL U -> BlameL e U -> False.
  Proof.
    intros (C1 & C2 & C3 & C4 & C5) HB. destruct e; cbn [BlameL] in HB.
    - destruct HB as (info & Hin). destruct (C2 _ _ Hin) as [Hne _]. now apply Hne.
    - destruct HB as (info & ws & w & Hin & Hw & E). destruct (C2 _ _ Hin) as [_ Hall].
      rewrite (Hall w Hw) in E. discriminate.
    - destruct HB as (k & ws & ws' & A & B & L1 & L2 & E).
      rewrite (C3 k ws ws' A B L1 L2) in E. discriminate.
    - destruct HB as (pl & info & acts & acts' & h & h' & A & B & L1 & L2 & E).
      destruct (C5 _ _ _ _ _ _ A B) as [_ Hl]. now apply E, Hl.
    - destruct HB as (pl & info & h & Hin). destruct (C4 _ _ _ _ Hin) as [Hne _]. now apply Hne.
    - destruct HB as (pl & info & acts & acts' & h & h' & A & B & E).
      destruct (C5 _ _ _ _ _ _ A B) as [Ha _]. now apply E.
    - destruct HB as (pl & info & acts & h & Hin & E). destruct (C4 _ _ _ _ Hin) as [_ Hnd].
      now apply E.
    - destruct HB as (p & Hin & E). rewrite (C1 p Hin) in E. discriminate.
  Qed.

  (** *** Completeness (for every number type) *)
  Theorem from_root_complete (t : gnode) : Contract t -> exists g, from_root t = Ok g.
  Proof.
    intros HC. destruct (from_root t) as [g|e] eqn:E; [eauto|].
    exfalso. eapply Contract_no_blame; [exact HC|]. apply from_root_blame. exact E.
  Qed.

  (** a rejected tree does not satisfy the contract *)
  Corollary from_root_err_not_contract (t : gnode) (e : gerr) :
    from_root t = Err e -> ~ Contract t.
  Proof.
    intros H HC. eapply Contract_no_blame; [exact HC|]. apply from_root_blame. exact H.
  Qed.

  (** the contract subsumes the data conditions of part A *)
  Corollary Contract_DataOK (t : gnode) : Contract t -> DataOK t.
  Proof. intros HC. destruct (from_root_complete t HC) as [g Hg]. eapply from_root_data_ok; exact Hg. Qed.

  (** *** Every occurrence of an accepted tree is registered in the tables *)
  Definition RegP (s : bst) (pl : bool) (info : N) (acts : list N) (h : list (N * nat)) : Prop :=
    (exists a, acts = [a] /\ In (info, a) (b_singles s pl)) \/
    (2 <= length acts /\
     exists i, i < length (b_infos s pl) /\
               pi_name (nth i (b_infos s pl) dpi) = info /\
               pi_actions (nth i (b_infos s pl) dpi) = acts /\
               name_prev s pl (pi_prev (nth i (b_infos s pl) dpi)) = last_opt h).

  Definition Reg (s : bst) (o : occ) : Prop :=
    match o with
    | OTerm p => is_fin NN p = true
    | OChance info ws =>
        ws <> [] /\ (forall w, In w ws -> wok w = true) /\
        (2 <= length ws -> forall k, info = Some k ->
           exists i o row, find_index (opt_key_eqb k) (b_chance s) = Some (i, (o, row)) /\
                           (row = normalise ws \/
                            list_eqb (eqb NN) row (normalise ws) = true))
    | OPlayer pl info acts h => RegP s pl info acts h
    end.

  Lemma Reg_ext s s' o : ext s s' -> GInv s -> Reg s o -> Reg s' o.
  Proof.
    intros He [HW HI] H. destruct o as [p|info ws|pl info acts h]; cbn [Reg] in *.
    - assumption.
    - destruct H as (A & B & C). split; [assumption|]. split; [assumption|].
      intros Hl k Ek. destruct (C Hl k Ek) as (i & o & row & F & D).
      exists i, o, row. split; [|assumption].
      destruct He as ([c Ec] & _ & _). rewrite Ec. now apply find_index_app_Some.
    - destruct H as [(a & -> & Hin)|(Hl & i & Hi & A & B & C)].
      + left. exists a. split; [reflexivity|].
        destruct He as (_ & _ & HS). destruct (HS pl) as [l El]. rewrite El.
        apply in_or_app. now left.
      + right. split; [assumption|]. exists i.
        rewrite (ext_infos_nth s s' pl i He Hi).
        split; [pose proof (ext_infos_length s s' pl He); lia|].
        split; [assumption|]. split; [assumption|]. rewrite <- C.
        apply name_prev_ext; [assumption|]. intros j a E. pose proof (HI pl i j a Hi E). lia.
  Qed.

  Lemma all_InitInv {A} (l : list (A * gnode)) : Forall (fun x => InitInv (snd x)) l.
  Proof. apply Forall_forall. intros x _. apply init_inv. Qed.

  Definition InitReg (n : gnode) : Prop :=
    forall prev s nd s' h1 h2,
      init n prev s = Ok (nd, s') -> GInv s -> PrevOK prev s -> PrevRel s prev h1 h2 ->
      forall o, In o (occs n h1 h2) -> Reg s' o.

  Lemma cloop_reg prev (outs : list (T * gnode)) h1 h2 :
    Forall (fun wc : T * gnode => InitReg (snd wc)) outs ->
    forall s ks s', cloop prev outs s = Ok (ks, s') -> GInv s -> PrevOK prev s ->
    PrevRel s prev h1 h2 ->
    (forall w, In w (map fst outs) -> wok w = true) /\
    forall o, In o (flat_map (fun wc => occs (snd wc) h1 h2) outs) -> Reg s' o.
  Proof.
    induction 1 as [|[p c] l Hc Hl IH]; intros s ks s' H HG HP HR; cbn [cloop] in H.
    - split; [intros w []|intros o []].
    - destruct (wok p) eqn:Ew; [|discriminate].
      destruct (init c prev s) as [[c' s1]|e] eqn:Ec; [|discriminate].
      destruct (cloop prev l s1) as [[ks1 s2]|e] eqn:El; [|discriminate].
      inversion H; subst. cbn [snd] in Hc.
      destruct (init_inv c prev s c' s1 Ec HG HP) as (E1 & G1 & _ & _).
      destruct (cloop_inv prev l (all_InitInv l) s1 ks1 s' El G1 (PrevOK_ext _ _ _ E1 HP))
        as (E2 & G2 & _ & _).
      destruct (IH s1 ks1 s' El G1 (PrevOK_ext _ _ _ E1 HP) (PrevRel_ext _ _ _ _ _ E1 HP HR))
        as [W2 R2].
      split.
      + intros w [<-|Hw]; [assumption|now apply W2].
      + intros o Ho. cbn [flat_map snd] in Ho. apply in_app_or in Ho as [Ho|Ho].
        * eapply Reg_ext; [exact E2|exact G1|]. eapply Hc; eassumption.
        * now apply R2.
  Qed.

  Lemma ploop_reg prev pl ind info (acts : list (N * gnode)) h1 h2 :
    Forall (fun ac : N * gnode => InitReg (snd ac)) acts ->
    forall ai s ks s', ploop prev pl ind acts ai s = Ok (ks, s') -> GInv s -> PrevOK prev s ->
    PrevRel s prev h1 h2 ->
    ind < length (b_infos s pl) -> pi_name (nth ind (b_infos s pl) dpi) = info ->
    forall o, In o (occs_kids true pl info h1 h2 acts ai) -> Reg s' o.
  Proof.
    induction 1 as [|[a c] l Hc Hl IH]; intros ai s ks s' H HG HP HR Hind Hname; cbn [ploop] in H.
    - intros o [].
    - destruct (init c _ s) as [[c' s1]|e] eqn:Ec; [|discriminate].
      destruct (ploop prev pl ind l (S ai) s1) as [[ks1 s2]|e] eqn:El; [|discriminate].
      injection H as Hks Hs. subst ks s2. cbn [snd] in Hc.
      pose proof (PrevOK_set _ _ _ _ ai HP Hind) as HP'.
      destruct (init_inv c _ s c' s1 Ec HG HP') as (E1 & G1 & _ & _).
      assert (Hind1 : ind < length (b_infos s1 pl))
        by (pose proof (ext_infos_length s s1 pl E1); lia).
      assert (Hname1 : pi_name (nth ind (b_infos s1 pl) dpi) = info)
        by now rewrite (ext_infos_nth s s1 pl ind E1 Hind).
      destruct (ploop_inv prev pl ind l (all_InitInv l) (S ai) s1 ks1 s' El G1
                          (PrevOK_ext _ _ _ E1 HP) Hind1) as (E2 & G2 & _ & _).
      intros o Ho. cbn [occs_kids snd] in Ho. apply in_app_or in Ho as [Ho|Ho].
      + eapply Reg_ext; [exact E2|exact G1|].
        eapply Hc; [exact Ec|exact HG|exact HP'| |exact Ho].
        now apply PrevRel_set.
      + eapply (IH (S ai) s1); try eassumption.
        * eapply PrevOK_ext; eassumption.
        * eapply PrevRel_ext; eassumption.
  Qed.

  Lemma init_reg (n : gnode) : InitReg n.
  Proof.
    induction n as [p|info outs IH|pl info acts IH] using gnode_ind';
      intros prev s nd s' h1 h2 H HG HP HR o Ho.
    - rewrite init_GTerm in H. destruct (is_fin NN p) eqn:E; [|discriminate].
      destruct Ho as [<-|[]]. exact E.
    - rewrite init_GChance in H. rewrite occs_GChance in Ho.
      destruct (cloop prev outs s) as [[ks s1]|e] eqn:El; [|discriminate].
      pose proof (cloop_length _ _ _ _ _ El) as Hlen.
      destruct (cloop_inv prev outs (all_InitInv outs) s ks s1 El HG HP) as (E1 & G1 & _ & _).
      destruct (cloop_reg prev outs h1 h2 IH s ks s1 El HG HP HR) as [W1 R1].
      assert (E2 : ext s1 s').
      { unfold chance_fin in H. destruct ks as [|k [|k2 kr]]; [discriminate| |].
        - inversion H; subst. apply ext_refl.
        - destruct info as [key|].
          + destruct (find_index _ _) as [[ind [o' old]]|].
            * destruct (list_eqb _ _ _); [|discriminate]. inversion H; subst. apply ext_refl.
            * inversion H; subst. apply ext_set_chance.
          + inversion H; subst. apply ext_set_chance. }
      destruct Ho as [<-|Ho]; [|eapply Reg_ext; [exact E2|exact G1|now apply R1]].
      cbn [Reg]. split; [|split; [assumption|]].
      + intros E. apply map_eq_nil in E. subst outs. destruct ks; [discriminate H|discriminate Hlen].
      + intros Hl k Ek. subst info. rewrite map_length in Hl.
        unfold chance_fin in H.
        destruct ks as [|k1 [|k2 kr]]; [discriminate| cbn in Hlen; lia|].
        destruct (find_index (opt_key_eqb k) (b_chance s1)) as [[ind [o' old]]|] eqn:Efi.
        * destruct (list_eqb (eqb NN) old (normalise (map fst outs))) eqn:Eeq; [|discriminate].
          inversion H; subst. exists ind, o', old. split; [assumption|now right].
        * inversion H; subst. rewrite b_chance_set_chance.
          exists (length (b_chance s1)), (Some k), (normalise (map fst outs)).
          split; [|now left]. apply find_index_app_None; [assumption|].
          unfold opt_key_eqb. cbn [fst]. apply N.eqb_refl.
    - rewrite occs_GPlayer in Ho.
      change (if pl then h1 else h2) with (own pl h1 h2) in Ho.
      destruct acts as [|[a c] [|y r]].
      + discriminate H.
      + rewrite init_GPlayer_single in H.
        inversion IH as [|? ? Hc _]; subst. cbn [snd] in Hc.
        cbn [length Nat.leb occs_kids andb snd map fst] in Ho. rewrite app_nil_r in Ho.
        destruct (existsb _ (b_infos s pl)) eqn:Eex; [discriminate|].
        destruct (find_index _ (b_singles s pl)) as [[i [n0 a']]|] eqn:Efi.
        * destruct (N.eqb a' a) eqn:Ea; [|discriminate]. apply N.eqb_eq in Ea. subst a'.
          apply find_index_Some in Efi as (Hi & Hn & Hf). cbn [fst] in Hf.
          apply N.eqb_eq in Hf. subst n0. apply nth_error_In in Hn.
          destruct Ho as [<-|Ho]; [|eapply Hc; eassumption].
          destruct (init_inv c prev s nd s' H HG HP) as (E1 & _).
          cbn [Reg]. left. exists a. split; [reflexivity|].
          destruct E1 as (_ & _ & HS). destruct (HS pl) as [l El]. rewrite El.
          apply in_or_app. now left.
        * set (s0 := set_singles s pl (b_singles s pl ++ [(info, a)])) in *.
          assert (G0 : GInv s0) by now apply GInv_new_single.
          assert (P0 : PrevOK prev s0).
          { intros q j a0 E. unfold s0. rewrite b_infos_set_singles. eapply HP; eassumption. }
          assert (R0 : PrevRel s0 prev h1 h2).
          { intros q. unfold s0, name_prev. rewrite b_infos_set_singles. apply HR. }
          destruct Ho as [<-|Ho]; [|eapply Hc; eassumption].
          destruct (init_inv c prev s0 nd s' H G0 P0) as (E1 & _).
          cbn [Reg]. left. exists a. split; [reflexivity|].
          destruct E1 as (_ & _ & HS). destruct (HS pl) as [l El]. rewrite El.
          unfold s0. rewrite b_singles_set_singles_same.
          apply in_or_app. left. apply in_or_app. right. now left.
      + rewrite init_GPlayer_multi in H.
        set (acts := (a, c) :: y :: r) in *.
        assert (Hlen : 2 <= length (map fst acts)) by (cbn; lia).
        assert (Em : Nat.leb 2 (length acts) = true) by reflexivity.
        rewrite Em in Ho.
        destruct (existsb _ (b_singles s pl)) eqn:Eex; [discriminate|].
        destruct (lookup_info pl info (map fst acts) prev s) as [[ind s0]|e] eqn:Elk; [|discriminate].
        destruct (lookup_info_ok s pl info _ prev ind s0 HG HP Eex Hlen Elk)
          as (E0 & G0 & Hind & Hnth).
        assert (Hname : pi_name (nth ind (b_infos s0 pl) dpi) = info) by now rewrite Hnth.
        destruct (ploop prev pl ind acts 0 s0) as [[ks s1]|e] eqn:El; [|discriminate].
        injection H as Hnd Hs. subst nd s1.
        pose proof (PrevOK_ext _ _ _ E0 HP) as P0.
        pose proof (PrevRel_ext _ _ _ _ _ E0 HP HR) as R0.
        destruct (ploop_inv prev pl ind acts (all_InitInv acts) 0 s0 ks s' El G0 P0 Hind)
          as (E1 & G1 & _ & _).
        destruct Ho as [<-|Ho].
        * eapply Reg_ext; [exact E1|exact G0|]. cbn [Reg]. right. split; [assumption|].
          exists ind. rewrite Hnth. cbn [pi_name pi_actions pi_prev].
          repeat split; try assumption. apply R0.
        * eapply ploop_reg; try eassumption.
  Qed.

  (** *** Accepted trees satisfy the contract, whenever [eqb] decides equality *)
  Lemma from_root_sound_contract_gen :
    (forall x y : T, eqb NN x y = true <-> x = y) ->
    forall (t : gnode) (g : game), from_root t = Ok g -> Contract t.
  Proof.
    intros Heq t g H. unfold from_root in H.
    destruct (init t (None, None) b_empty) as [[root s]|e] eqn:E; [|discriminate]. clear H.
    assert (HP0 : PrevOK (None, None) (@b_empty NN)) by (intros [|] j a E0; discriminate E0).
    assert (HR0 : PrevRel (@b_empty NN) (None, None) [] []) by (intros [|]; reflexivity).
    destruct (init_inv t _ _ _ _ E GInv_empty HP0) as (_ & [GW GI] & _ & _).
    pose proof (init_reg t _ _ _ _ [] [] E GInv_empty HP0 HR0) as HReg.
    unfold Contract. set (U := occs t [] []) in *.
    split; [|split; [|split; [|split]]].
    - intros p Hin. exact (HReg _ Hin).
    - intros info ws Hin. destruct (HReg _ Hin) as (A & B & _). split; [assumption|].
      intros w Hw. exact (B w Hw).
    - intros k ws ws' Hin Hin' Hl Hl'.
      destruct (HReg _ Hin) as (_ & _ & C). destruct (HReg _ Hin') as (_ & _ & C').
      destruct (C Hl k eq_refl) as (i & o & row & F & D).
      destruct (C' Hl' k eq_refl) as (i' & o' & row' & F' & D').
      rewrite F in F'. inversion F'; subst i' o' row'.
      assert (E1 : row = normalise ws) by (destruct D as [D|D]; [assumption|now apply (list_eqb_eq _ Heq)]).
      assert (E2 : row = normalise ws') by (destruct D' as [D'|D']; [assumption|now apply (list_eqb_eq _ Heq)]).
      apply (list_eqb_eq _ Heq). congruence.
    - intros pl info acts h Hin. pose proof (HReg _ Hin) as HR. cbn [Reg] in HR.
      destruct HR as [(a & -> & _)|(Hl & i & Hi & A & B & C)].
      + split; [discriminate|]. constructor; [intros []|constructor].
      + split; [intros ->; cbn in Hl; lia|].
        destruct (GW pl) as [_ HF]. rewrite Forall_forall in HF.
        destruct (HF (nth i (b_infos s pl) dpi) (nth_In _ _ Hi)) as [Hnd _]. now rewrite B in Hnd.
    - intros pl info acts acts' h h' Hin Hin'.
      pose proof (HReg _ Hin) as HR. pose proof (HReg _ Hin') as HR'. cbn [Reg] in HR, HR'.
      destruct (GW pl) as [Hnd _].
      destruct HR as [(a & -> & Ha)|(Hl & i & Hi & A & B & C)];
        destruct HR' as [(a' & -> & Ha')|(Hl' & i' & Hi' & A' & B' & C')].
      + split; [|cbn; lia]. f_equal.
        eapply NoDup_map_fst_inj; [eapply NoDup_app_r; exact Hnd|exact Ha|exact Ha'].
      + exfalso. eapply (NoDup_app_disjoint _ _ info Hnd).
        * rewrite <- A'. apply in_map. now apply nth_In.
        * apply in_map_iff. exists (info, a). auto.
      + exfalso. eapply (NoDup_app_disjoint _ _ info Hnd).
        * rewrite <- A. apply in_map. now apply nth_In.
        * apply in_map_iff. exists (info, a'). auto.
      + assert (i = i') as <-.
        { apply NoDup_app_l in Hnd. rewrite (NoDup_nth _ 0%N) in Hnd.
          apply Hnd; try (rewrite map_length; assumption).
          rewrite <- !pi_name_nth. congruence. }
        split; [congruence|]. intros _. congruence.
  Qed.

  (** *** The contract in terms of whole own histories

      Under the contract, two multi-action nodes of a player with the same infoset name
      are reached with the same *whole* own history (perfect recall as documented), not
      only the same last step. *)
  Lemma occs_kids_in m pl info h1 h2 (l : list (N * gnode)) : forall a0 x,
    In x (occs_kids m pl info h1 h2 l a0) ->
    exists ac a, In ac l /\
      In x (occs (snd ac) (if m && pl then h1 ++ [(info, a)] else h1)
                 (if m && negb pl then h2 ++ [(info, a)] else h2)) /\
      incl (occs (snd ac) (if m && pl then h1 ++ [(info, a)] else h1)
                 (if m && negb pl then h2 ++ [(info, a)] else h2))
           (occs_kids m pl info h1 h2 l a0).
  Proof.
    induction l as [|ac r IH]; intros a0 x Hx; [destruct Hx|].
    cbn [occs_kids] in Hx |- *. apply in_app_or in Hx as [Hx|Hx].
    - exists ac, a0. split; [now left|]. split; [assumption|]. apply incl_appl, incl_refl.
    - destruct (IH (S a0) x Hx) as (ac' & a & Hk & Hin & Hincl).
      exists ac', a. split; [now right|]. split; [assumption|]. now apply incl_appr.
  Qed.

  Lemma occs_chain (n : gnode) : forall h1 h2 pl info acts h,
    In (OPlayer pl info acts h) (occs n h1 h2) ->
    exists e, h = own pl h1 h2 ++ e /\
      (e = [] \/
       exists e0 nm a acts0, e = e0 ++ [(nm, a)] /\ 2 <= length acts0 /\
                             In (OPlayer pl nm acts0 (own pl h1 h2 ++ e0)) (occs n h1 h2)).
  Proof.
    induction n as [p|info' outs IH|pl' info' acts' IH] using gnode_ind';
      intros h1 h2 pl info acts h Hin.
    - destruct Hin as [E|[]]. discriminate E.
    - rewrite occs_GChance in Hin |- *. destruct Hin as [E|Hin]; [discriminate E|].
      apply in_flat_map in Hin as (wc & Hwc & Hin).
      rewrite Forall_forall in IH. destruct (IH wc Hwc h1 h2 pl info acts h Hin) as (e & -> & He).
      exists e. split; [reflexivity|].
      destruct He as [->|(e0 & nm & a & acts0 & -> & Hl & Hj)]; [now left|].
      right. exists e0, nm, a, acts0. split; [reflexivity|]. split; [assumption|].
      right. apply in_flat_map. eauto.
    - rewrite occs_GPlayer in Hin |- *. destruct Hin as [E|Hin].
      + inversion E; subst. exists []. split; [now rewrite app_nil_r|now left].
      + apply occs_kids_in in Hin as (ac & a & Hac & Hin & Hincl).
        rewrite Forall_forall in IH. destruct (IH ac Hac _ _ pl info acts h Hin) as (e & -> & He).
        destruct (Nat.leb 2 (length acts')) eqn:Em.
        * apply Nat.leb_le in Em.
          destruct pl, pl'; cbn [own andb negb] in *.
          -- exists ((info', a) :: e). split; [now rewrite <- app_assoc|].
             right. destruct He as [->|(e0 & nm & a' & acts0 & -> & Hl & Hj)].
             ++ exists [], info', a, (map fst acts'). split; [reflexivity|].
                split; [now rewrite map_length|]. left. now rewrite app_nil_r.
             ++ exists ((info', a) :: e0), nm, a', acts0. split; [reflexivity|].
                split; [assumption|]. right. apply Hincl. now rewrite <- app_assoc in Hj.
          -- exists e. split; [reflexivity|].
             destruct He as [->|(e0 & nm & a' & acts0 & -> & Hl & Hj)]; [now left|].
             right. exists e0, nm, a', acts0. split; [reflexivity|]. split; [assumption|].
             right. now apply Hincl.
          -- exists e. split; [reflexivity|].
             destruct He as [->|(e0 & nm & a' & acts0 & -> & Hl & Hj)]; [now left|].
             right. exists e0, nm, a', acts0. split; [reflexivity|]. split; [assumption|].
             right. now apply Hincl.
          -- exists ((info', a) :: e). split; [now rewrite <- app_assoc|].
             right. destruct He as [->|(e0 & nm & a' & acts0 & -> & Hl & Hj)].
             ++ exists [], info', a, (map fst acts'). split; [reflexivity|].
                split; [now rewrite map_length|]. left. now rewrite app_nil_r.
             ++ exists ((info', a) :: e0), nm, a', acts0. split; [reflexivity|].
                split; [assumption|]. right. apply Hincl. now rewrite <- app_assoc in Hj.
        * cbn [andb] in *. exists e. split; [reflexivity|].
          destruct He as [->|(e0 & nm & a' & acts0 & -> & Hl & Hj)]; [now left|].
          right. exists e0, nm, a', acts0. split; [reflexivity|]. split; [assumption|].
          right. now apply Hincl.
  Qed.

  Lemma occs_chain_root (n : gnode) pl info acts h :
    In (OPlayer pl info acts h) (occs n [] []) ->
    h = [] \/ exists e0 nm a acts0, h = e0 ++ [(nm, a)] /\ 2 <= length acts0 /\
                                    In (OPlayer pl nm acts0 e0) (occs n [] []).
  Proof.
    intros Hin. destruct (occs_chain n [] [] pl info acts h Hin) as (e & -> & He).
    assert (Eo : own pl (@nil (N * nat)) [] = []) by (destruct pl; reflexivity).
    rewrite Eo in *. cbn [app] in *. exact He.
  Qed.

  Theorem Contract_full_history (t : gnode) :
    Contract t ->
    forall pl info acts acts' h h',
      In (OPlayer pl info acts h) (occs t [] []) -> In (OPlayer pl info acts' h') (occs t [] []) ->
      2 <= length acts -> h = h'.
  Proof.
    intros (_ & _ & _ & _ & C5) pl info acts acts' h.
    remember (length h) as n eqn:En. revert pl info acts acts' h En.
    induction n as [n IH] using lt_wf_ind. intros pl info acts acts' h En h' Hin Hin' Hl.
    destruct (C5 _ _ _ _ _ _ Hin Hin') as [_ Hlast]. specialize (Hlast Hl).
    destruct (occs_chain_root _ _ _ _ _ Hin) as [->|(e0 & nm & a & acts0 & -> & L0 & H0)];
      destruct (occs_chain_root _ _ _ _ _ Hin') as [->|(e0' & nm' & a' & acts0' & -> & L0' & H0')].
    - reflexivity.
    - rewrite last_opt_snoc in Hlast. discriminate Hlast.
    - rewrite last_opt_snoc in Hlast. discriminate Hlast.
    - rewrite !last_opt_snoc in Hlast. inversion Hlast; subst nm' a'.
      f_equal. refine (IH (length e0) _ pl nm acts0 acts0' e0 eq_refl e0' H0 H0' L0).
      rewrite En, app_length. cbn [length]. lia.
  Qed.
End Contract.

(** *** Parts C and D over the reals *)
Section RealContract.
  Local Notation gnode := (@gnode RNum).
  Local Notation game := (@game RNum).

  Theorem from_root_sound_contract (t : gnode) (g : game) : from_root t = Ok g -> Contract t.
  Proof. apply from_root_sound_contract_gen. intros x y. apply Reqb_true. Qed.

  (** acceptance is equivalent to the contract *)
  Corollary from_root_accepts_iff (t : gnode) : (exists g, from_root t = Ok g) <-> Contract t.
  Proof.
    split; [intros [g H]; eapply from_root_sound_contract; exact H|apply from_root_complete].
  Qed.

  (** *** Non-vacuity: matching pennies, player two does not observe player one's move
      (two nodes of player two in one infoset, below different actions of player one) *)
  Local Open Scope R_scope.
  Definition mp_leaf (x y : R) : gnode :=
    @GPlayer RNum false 1%N [(0%N, @GTerm RNum x); (1%N, @GTerm RNum y)].
  Definition matching_pennies : gnode :=
    @GPlayer RNum true 0%N [(0%N, mp_leaf 1 (-1)); (1%N, mp_leaf (-1) 1)].

  Example matching_pennies_accepted :
    from_root matching_pennies =
    Ok (@mkGame RNum [] [mkPinfo 0%N [0%N; 1%N] None] [mkPinfo 1%N [0%N; 1%N] None] [] []
               (@Player RNum true 0 [@Player RNum false 0 [@Term RNum 1; @Term RNum (-1)];
                               @Player RNum false 0 [@Term RNum (-1); @Term RNum 1]])).
  Proof. reflexivity. Qed.

  Example matching_pennies_sound :
    exists g, from_root matching_pennies = Ok g /\ WFgame g /\ PerfectRecall g /\ ChanceOK g
              /\ Contract matching_pennies.
  Proof.
    eexists. split; [exact matching_pennies_accepted|].
    pose proof (from_root_sound _ _ matching_pennies_accepted) as (A & B & C).
    split; [assumption|]. split; [assumption|]. split; [assumption|].
    exact (from_root_sound_contract _ _ matching_pennies_accepted).
  Qed.

  (** player two forgets which of his own actions he took: rejected, and blamed *)
  Definition forgetful : gnode :=
    @GPlayer RNum false 0%N
      [(0%N, @GPlayer RNum false 1%N [(0%N, @GTerm RNum 0); (1%N, @GTerm RNum 1)]);
       (1%N, @GPlayer RNum false 1%N [(0%N, @GTerm RNum 1); (1%N, @GTerm RNum 0)])].

  Example forgetful_rejected : from_root forgetful = Err ImperfectRecall.
  Proof. reflexivity. Qed.

  Example forgetful_blamed : Blame ImperfectRecall forgetful /\ ~ Contract forgetful.
  Proof.
    split; [apply from_root_blame, forgetful_rejected|].
    intros HC. destruct (from_root_complete _ HC) as [g Hg].
    rewrite forgetful_rejected in Hg. discriminate Hg.
  Qed.

  (** two chance nodes sharing the label 7 with proportional weights (1:3 and 2:6):
      accepted, through the completeness theorem (real comparisons do not compute) *)
  Definition shared_chance : gnode :=
    @GChance RNum (Some 7%N)
      [(1, @GTerm RNum 0);
       (3, @GChance RNum (Some 7%N) [(2, @GTerm RNum 1); (6, @GTerm RNum 2)])].

  Ltac inv_in H :=
    cbn [In] in H;
    repeat (destruct H as [H|H]; [try discriminate H; try (inversion H; subst; clear H)|]);
    try (now destruct H).

  Example shared_chance_accepted :
    exists g, from_root shared_chance = Ok g /\ ChanceOK g /\ length (g_chance g) = 1%nat.
  Proof.
    assert (HC : Contract shared_chance).
    { unfold Contract.
      change (occs shared_chance [] []) with
        [@OChance RNum (Some 7%N) [1; 3]; @OTerm RNum 0;
         @OChance RNum (Some 7%N) [2; 6]; @OTerm RNum 1; @OTerm RNum 2].
      split; [|split; [|split; [|split]]].
      - intros p H. reflexivity.
      - intros info ws H. inv_in H.
        + split; [discriminate|]. intros w Hw. cbn [ltb zero is_fin RNum].
          rewrite andb_true_r. apply Rltb_true. inv_in Hw; lra.
        + split; [discriminate|]. intros w Hw. cbn [ltb zero is_fin RNum].
          rewrite andb_true_r. apply Rltb_true. inv_in Hw; lra.
      - intros k ws ws' H H' _ _. apply (list_eqb_eq _ Reqb_true).
        rewrite !normalise_R.
        inv_in H; inv_in H'; cbn [map Rsum]; try reflexivity;
          (f_equal; [|f_equal]; lra).
      - intros pl info acts h H. inv_in H.
      - intros pl info acts acts' h h' H. inv_in H. }
    destruct (from_root_complete _ HC) as [g Hg]. exists g.
    split; [assumption|]. split; [now apply (from_root_chance_ok shared_chance)|].
    revert Hg. unfold from_root, shared_chance.
    assert (W : forall w, 0 < w -> @wok RNum w = true) by (intros w Hw; now apply wok_R).
    repeat (first [rewrite init_GTerm | rewrite init_GChance | rewrite W by lra
                  | progress cbn [is_fin RNum cloop]]).
    unfold chance_fin.
    cbn [map fst snd b_chance b_empty find_index set_chance app opt_key_eqb length].
    try rewrite N.eqb_refl. cbn [N.eqb Pos.eqb].
    destruct (list_eqb _ _ _); intros H; inversion H; reflexivity.
  Qed.
End RealContract.
