(** * BestResponseProofs: the model of [regret::optimal_deviations] computes the value of
    a best response, and the regrets reported by [Strategies::get_info] are the largest
    gains from unilateral deviations.

    Architecture.

    - Part A works on the single-agent view of player [me]: a [dtree] in which chance and
      the opponent's strategy [so] are folded into weights ([Scale]/[Nat]) and only the
      own decisions ([Dec]) remain.  [dnodes] lists the decision nodes with their own
      history and counterfactual reach, in the order of the first pass of the code.
      [hv tau mu j] plays [tau] at infosets [< j] and reads the table [mu] at infosets
      [>= j]; so [hv 0 = sv mu] (the value the code returns) and [hv n = val tau] (the
      expected payoff of [tau]).  [hv_diff] computes [hv (S j) - hv j] as a sum over the
      nodes of infoset [j]; with perfect recall the own-history factor is the same for all
      of them ([step_eq]), and the remaining sum is [<= 0] because [mu j] times the total
      reach is the maximum of the action values ([step_le]), with equality for the pure
      strategy [sstar] read off the table ([core_attained]).
    - Part B proves, one lemma per model function, that [search], [collect],
      [resolve_one] are the view-level [sv], [dnodes], [vresolve], that [u] is [val], and
      derives the premises of Part A from [WFgame], [PerfectRecall], [ChanceOK].
    - Part C states the theorems ([br_upper], [br_attained]) and the corollaries at the
      level of [info]; it ends with a non-vacuity example (matching pennies). *)
From Coq Require Import Reals List Bool Arith Lra Lia NArith.
From Cfr.theories Require Import Num RInst Tree GameWF Eval Valid EvalSpec EvalProofs.
Import ListNotations.
Open Scope R_scope.

Local Notation node := (@node RNum).
Local Notation game := (@game RNum).


(** * Part A: the single-agent decision problem of player [me] *)

Definition hist := list (nat * nat).

(** [Leaf v]: payoff [v] for the agent; [Scale w t]: weight [w] (chance or opponent
    probability) in front of [t]; [Nat ks]: sum over the alternatives; [Dec i kids]: own
    decision at infoset [i]. *)
Inductive dtree :=
| Leaf (v : R)
| Scale (w : R) (t : dtree)
| Nat (ks : list dtree)
| Dec (i : nat) (kids : list dtree).

Fixpoint dtree_ind' (P : dtree -> Prop)
         (HL : forall v, P (Leaf v))
         (HS : forall w t, P t -> P (Scale w t))
         (HN : forall ks, Forall P ks -> P (Nat ks))
         (HD : forall i kids, Forall P kids -> P (Dec i kids))
         (t : dtree) : P t :=
  match t with
  | Leaf v => HL v
  | Scale w t' => HS w t' (dtree_ind' P HL HS HN HD t')
  | Nat ks =>
      HN ks ((fix go (l : list dtree) : Forall P l :=
                match l with
                | [] => Forall_nil P
                | k :: r => Forall_cons k (dtree_ind' P HL HS HN HD k) (go r)
                end) ks)
  | Dec i kids =>
      HD i kids ((fix go (l : list dtree) : Forall P l :=
                    match l with
                    | [] => Forall_nil P
                    | k :: r => Forall_cons k (dtree_ind' P HL HS HN HD k) (go r)
                    end) kids)
  end.

(** ** Small list and sum lemmas *)
Lemma Rsum_zero {A} (F : A -> R) l : (forall x, In x l -> F x = 0) -> Rsum (map F l) = 0.
Proof.
  induction l as [|x l IH]; intros H; cbn [map Rsum]; [reflexivity|].
  rewrite (H x (or_introl eq_refl)), IH; [lra|]. intros y Hy. apply H. now right.
Qed.

Lemma Rsum_map_ext_in {A} (F G : A -> R) l :
  (forall x, In x l -> F x = G x) -> Rsum (map F l) = Rsum (map G l).
Proof. intros H. f_equal. now apply map_ext_in. Qed.

Lemma Rsum_filter {A} (p : A -> bool) (c : R) (G : A -> R) l :
  Rsum (map (fun x => if p x then c * G x else 0) l) = c * Rsum (map G (filter p l)).
Proof.
  induction l as [|x l IH]; cbn [map Rsum filter]; [lra|].
  destruct (p x); cbn [map Rsum]; rewrite IH; lra.
Qed.

Lemma Rsum_map_plus {A} (F G : A -> R) l :
  Rsum (map (fun x => F x + G x) l) = Rsum (map F l) + Rsum (map G l).
Proof. induction l as [|x l IH]; cbn [map Rsum]; [lra|rewrite IH; lra]. Qed.

Lemma Rsum_map_scal {A} (c : R) (F : A -> R) l :
  Rsum (map (fun x => F x * c) l) = Rsum (map F l) * c.
Proof. induction l as [|x l IH]; cbn [map Rsum]; [lra|rewrite IH; lra]. Qed.

Lemma dot_nil_l v : dot [] v = 0.
Proof. reflexivity. Qed.
Lemma dot_nil_r a : dot a [] = 0.
Proof. unfold dot. now destruct a. Qed.
Lemma dot_cons p ps x xs : dot (p :: ps) (x :: xs) = p * x + dot ps xs.
Proof. reflexivity. Qed.

Lemma nth_skipn_hd {A} (l : list A) a d : nth a l d = hd d (skipn a l).
Proof.
  revert l; induction a as [|a IH]; intros [|x l]; cbn [nth skipn hd]; try reflexivity.
  apply IH.
Qed.

Lemma skipn_S_tl {A} (l : list A) a : skipn (S a) l = tl (skipn a l).
Proof.
  revert l; induction a as [|a IH]; intros [|x l]; try reflexivity.
  change (skipn (S (S a)) (x :: l)) with (skipn (S a) l).
  change (skipn (S a) (x :: l)) with (skipn a l). apply IH.
Qed.

(** ** Decision nodes with own history and counterfactual reach *)
Record dn := mkDn { d_hs : hist; d_i : nat; d_rho : R; d_kids : list dtree }.

Section DnNat.
  Context (f : dtree -> list dn).
  Fixpoint dn_nat (ks : list dtree) : list dn :=
    match ks with [] => [] | k :: r => dn_nat r ++ f k end.
End DnNat.

Section DnDec.
  Context (f : hist -> dtree -> list dn) (hs : hist) (i : nat).
  Fixpoint dn_dec (ks : list dtree) (a : nat) : list dn :=
    match ks with [] => [] | k :: r => dn_dec r (S a) ++ f (hs ++ [(i, a)]) k end.
End DnDec.

(** the order is that of the first pass of [optimal_deviations] ([collect]) *)
Fixpoint dnodes (hs : hist) (rho : R) (t : dtree) : list dn :=
  match t with
  | Leaf _ => []
  | Scale w t' => dnodes hs (w * rho) t'
  | Nat ks =>
      (fix go (ks : list dtree) : list dn :=
         match ks with [] => [] | k :: r => go r ++ dnodes hs rho k end) ks
  | Dec i kids =>
      mkDn hs i rho kids ::
      (fix go (ks : list dtree) (a : nat) : list dn :=
         match ks with [] => [] | k :: r => go r (S a) ++ dnodes (hs ++ [(i, a)]) rho k end) kids O
  end.

Lemma dnodes_Nat hs rho ks : dnodes hs rho (Nat ks) = dn_nat (dnodes hs rho) ks.
Proof. reflexivity. Qed.

Lemma dnodes_Dec hs rho i kids :
  dnodes hs rho (Dec i kids) =
  mkDn hs i rho kids :: dn_dec (fun h t => dnodes h rho t) hs i kids O.
Proof. reflexivity. Qed.

Lemma In_dn_nat f ks d : In d (dn_nat f ks) <-> exists k, In k ks /\ In d (f k).
Proof.
  induction ks as [|k r IH]; cbn [dn_nat In].
  - split; [intros []|intros (k & [] & _)].
  - rewrite in_app_iff, IH. split.
    + intros [(k' & H1 & H2)|H]; [exists k'; auto|exists k; auto].
    + intros (k' & [<-|H1] & H2); [now right|left; exists k'; auto].
Qed.

Lemma In_dn_dec f hs i ks a d :
  In d (dn_dec f hs i ks a) <->
  exists b k, nth_error ks b = Some k /\ In d (f (hs ++ [(i, (a + b)%nat)]) k).
Proof.
  revert a; induction ks as [|k r IH]; intros a; cbn [dn_dec In].
  - split; [intros []|]. intros (b & k & H & _). now destruct b.
  - rewrite in_app_iff, IH. split.
    + intros [(b & k' & H1 & H2)|H].
      * exists (S b), k'. split; [exact H1|]. now rewrite <- Nat.add_succ_comm.
      * exists O, k. split; [reflexivity|]. now rewrite Nat.add_0_r.
    + intros (b & k' & H1 & H2). destruct b as [|b].
      * right. cbn in H1. inversion H1; subst. now rewrite Nat.add_0_r in H2.
      * left. exists b, k'. split; [exact H1|]. now rewrite Nat.add_succ_comm.
Qed.

Lemma dnodes_kid_Nat hs rho ks k d :
  In k ks -> In d (dnodes hs rho k) -> In d (dnodes hs rho (Nat ks)).
Proof. intros Hk Hd. rewrite dnodes_Nat. apply In_dn_nat. eauto. Qed.

Lemma dnodes_kid_Dec hs rho i kids b k d :
  nth_error kids b = Some k -> In d (dnodes (hs ++ [(i, b)]) rho k) ->
  In d (dnodes hs rho (Dec i kids)).
Proof.
  intros Hk Hd. rewrite dnodes_Dec. right. apply In_dn_dec. exists b, k. split; [exact Hk|].
  exact Hd.
Qed.

Lemma dnodes_Dec_inv hs rho i kids d :
  In d (dnodes hs rho (Dec i kids)) ->
  d = mkDn hs i rho kids \/
  exists b k, nth_error kids b = Some k /\ In d (dnodes (hs ++ [(i, b)]) rho k).
Proof.
  rewrite dnodes_Dec. intros [<-|H]; [now left|right].
  apply In_dn_dec in H. destruct H as (b & k & H1 & H2). exists b, k. split; [exact H1|exact H2].
Qed.

Lemma dnodes_prefix t : forall hs rho d,
  In d (dnodes hs rho t) -> exists suf, d_hs d = hs ++ suf.
Proof.
  induction t as [v|w t IH|ks IH|i kids IH] using dtree_ind'; intros hs rho d Hd.
  - destruct Hd.
  - cbn [dnodes] in Hd. eapply IH, Hd.
  - rewrite dnodes_Nat in Hd. apply In_dn_nat in Hd. destruct Hd as (k & Hk & Hd).
    rewrite Forall_forall in IH. eapply IH; eassumption.
  - apply dnodes_Dec_inv in Hd. destruct Hd as [->|(b & k & Hk & Hd)].
    + exists []. cbn [d_hs]. now rewrite app_nil_r.
    + rewrite Forall_forall in IH. apply nth_error_In in Hk.
      destruct (IH k Hk _ _ _ Hd) as [suf Hs]. exists ((i, b) :: suf).
      rewrite Hs, <- app_assoc. reflexivity.
Qed.

(** the decision nodes below action [a] of a decision node are decision nodes of the tree *)
Lemma dnodes_sub t : forall hs rho d a k d',
  In d (dnodes hs rho t) -> nth_error (d_kids d) a = Some k ->
  In d' (dnodes (d_hs d ++ [(d_i d, a)]) (d_rho d) k) -> In d' (dnodes hs rho t).
Proof.
  induction t as [v|w t IH|ks IH|i kids IH] using dtree_ind'; intros hs rho d a k d' Hd Hk Hd'.
  - destruct Hd.
  - cbn [dnodes] in *. eapply IH; eassumption.
  - rewrite dnodes_Nat in Hd. apply In_dn_nat in Hd. destruct Hd as (k0 & Hk0 & Hd).
    rewrite Forall_forall in IH. eapply dnodes_kid_Nat; [exact Hk0|]. eapply IH; eassumption.
  - apply dnodes_Dec_inv in Hd. destruct Hd as [->|(b & k0 & Hk0 & Hd)].
    + cbn [d_kids d_hs d_i d_rho] in *. eapply dnodes_kid_Dec; eassumption.
    + rewrite Forall_forall in IH. eapply dnodes_kid_Dec; [exact Hk0|].
      eapply IH; [eapply nth_error_In; eassumption|eassumption..].
Qed.

(** ** Values *)
Fixpoint val (tau : list (list R)) (t : dtree) : R :=
  match t with
  | Leaf v => v
  | Scale w t' => w * val tau t'
  | Nat ks => Rsum (map (val tau) ks)
  | Dec i kids => dot (rowR tau i) (map (val tau) kids)
  end.

(** [next_infoset_search]: stop at the first own decision nodes and read the table *)
Fixpoint sv (mu : nat -> R) (t : dtree) : R :=
  match t with
  | Leaf v => v
  | Scale w t' => w * sv mu t'
  | Nat ks => Rsum (map (sv mu) ks)
  | Dec i _ => mu i
  end.

(** hybrid: play [tau] at infosets [< j], read the table at infosets [>= j] *)
Fixpoint hv (tau : list (list R)) (mu : nat -> R) (j : nat) (t : dtree) : R :=
  match t with
  | Leaf v => v
  | Scale w t' => w * hv tau mu j t'
  | Nat ks => Rsum (map (hv tau mu j) ks)
  | Dec i kids => if (i <? j)%nat then dot (rowR tau i) (map (hv tau mu j) kids) else mu i
  end.

(** probability that [tau] plays the own history [hs] *)
Fixpoint ppi (tau : list (list R)) (hs : hist) : R :=
  match hs with
  | [] => 1
  | (k, a) :: r => nth a (rowR tau k) 0 * ppi tau r
  end.

Lemma ppi_app tau h1 h2 : ppi tau (h1 ++ h2) = ppi tau h1 * ppi tau h2.
Proof.
  induction h1 as [|[k a] r IH]; cbn [app ppi]; [lra|]. rewrite IH. lra.
Qed.

Lemma ppi_nonneg tau hs : NonnegRows tau -> 0 <= ppi tau hs.
Proof.
  intros H. induction hs as [|[k a] r IH]; cbn [ppi]; [lra|].
  apply Rmult_le_pos; [|exact IH].
  pose proof (NonnegRows_row tau k H) as Hr. rewrite Forall_forall in Hr.
  destruct (Nat.lt_ge_cases a (length (rowR tau k))) as [Ha|Ha].
  - apply Hr. now apply nth_In.
  - rewrite nth_overflow by assumption. lra.
Qed.

Lemma map_ext_Forall' {A B} (f g : A -> B) l :
  Forall (fun x => f x = g x) l -> map f l = map g l.
Proof. induction 1 as [|x l Hx _ IH]; cbn [map]; [reflexivity|]. now rewrite Hx, IH. Qed.

Lemma hv_0 tau mu t : hv tau mu 0 t = sv mu t.
Proof.
  induction t as [v|w t IH|ks IH|i kids IH] using dtree_ind'; cbn [hv sv].
  - reflexivity.
  - now rewrite IH.
  - f_equal. now apply map_ext_Forall'.
  - reflexivity.
Qed.

Lemma Forall_kids_Nat (P : dtree -> Prop) (Q : dn -> Prop) hs rho ks :
  Forall (fun k => forall hs rho, (forall d, In d (dnodes hs rho k) -> Q d) -> P k) ks ->
  (forall d, In d (dnodes hs rho (Nat ks)) -> Q d) ->
  Forall P ks.
Proof.
  intros IH H. rewrite Forall_forall in *. intros k Hk. apply (IH k Hk hs rho).
  intros d Hd. apply H. eapply dnodes_kid_Nat; eassumption.
Qed.

Lemma Forall_kids_Dec (P : dtree -> Prop) (Q : dn -> Prop) hs rho i kids :
  Forall (fun k => forall hs rho, (forall d, In d (dnodes hs rho k) -> Q d) -> P k) kids ->
  (forall d, In d (dnodes hs rho (Dec i kids)) -> Q d) ->
  Forall P kids.
Proof.
  intros IH H. rewrite Forall_forall in *. intros k Hk.
  destruct (In_nth_error _ _ Hk) as [b Hb].
  apply (IH k Hk (hs ++ [(i, b)]) rho).
  intros d Hd. apply H. eapply dnodes_kid_Dec; eassumption.
Qed.

Lemma hv_n tau mu n t : forall hs rho,
  (forall d, In d (dnodes hs rho t) -> (d_i d < n)%nat) -> hv tau mu n t = val tau t.
Proof.
  induction t as [v|w t IH|ks IH|i kids IH] using dtree_ind'; intros hs rho H; cbn [hv val].
  - reflexivity.
  - f_equal. eapply IH. exact H.
  - f_equal. apply map_ext_Forall'.
    exact (Forall_kids_Nat _ (fun d => (d_i d < n)%nat) hs rho ks IH H).
  - assert (Hi : (i < n)%nat) by (apply (H (mkDn hs i rho kids)); rewrite dnodes_Dec; now left).
    apply Nat.ltb_lt in Hi. rewrite Hi. f_equal. apply map_ext_Forall'.
    exact (Forall_kids_Dec _ (fun d => (d_i d < n)%nat) hs rho i kids IH H).
Qed.

Lemma hv_above tau mu j t : forall hs rho,
  (forall d, In d (dnodes hs rho t) -> (j < d_i d)%nat) -> hv tau mu (S j) t = sv mu t.
Proof.
  induction t as [v|w t IH|ks IH|i kids IH] using dtree_ind'; intros hs rho H; cbn [hv sv].
  - reflexivity.
  - f_equal. eapply IH. exact H.
  - f_equal. apply map_ext_Forall'.
    exact (Forall_kids_Nat _ (fun d => (j < d_i d)%nat) hs rho ks IH H).
  - assert (Hi : (j < i)%nat) by (apply (H (mkDn hs i rho kids)); rewrite dnodes_Dec; now left).
    assert (E : (i <? S j)%nat = false) by (apply Nat.ltb_ge; lia). now rewrite E.
Qed.

Lemma sv_ext mu mu' t : forall hs rho,
  (forall d, In d (dnodes hs rho t) -> mu (d_i d) = mu' (d_i d)) -> sv mu t = sv mu' t.
Proof.
  induction t as [v|w t IH|ks IH|i kids IH] using dtree_ind'; intros hs rho H; cbn [sv].
  - reflexivity.
  - f_equal. eapply IH. exact H.
  - f_equal. apply map_ext_Forall'.
    exact (Forall_kids_Nat _ (fun d => mu (d_i d) = mu' (d_i d)) hs rho ks IH H).
  - apply (H (mkDn hs i rho kids)). rewrite dnodes_Dec. now left.
Qed.

(** ** One step of the telescope: playing [tau] at infoset [j] instead of reading [mu j] *)
Section Step.
  Context (tau : list (list R)) (mu : nat -> R) (j : nat).

  Definition Fj (d : dn) : R :=
    if (d_i d =? j)%nat
    then ppi tau (d_hs d) * (d_rho d * (dot (rowR tau j) (map (hv tau mu (S j)) (d_kids d)) - mu j))
    else 0.

  Definition HistLt (d : dn) : Prop := Forall (fun ka => (fst ka < d_i d)%nat) (d_hs d).

  Lemma Fj_below hs rho i b k d :
    In d (dnodes (hs ++ [(i, b)]) rho k) -> HistLt d -> (j <= i)%nat -> Fj d = 0.
  Proof.
    intros Hd HL Hji. unfold Fj.
    destruct (dnodes_prefix _ _ _ _ Hd) as [suf Hs].
    unfold HistLt in HL. rewrite Hs, Forall_forall in HL.
    assert (Hlt : (i < d_i d)%nat).
    { apply (HL (i, b)). rewrite <- app_assoc. apply in_or_app. right. now left. }
    assert (E : (d_i d =? j)%nat = false) by (apply Nat.eqb_neq; lia). now rewrite E.
  Qed.

  Lemma hv_diff t : forall hs rho,
    (forall d, In d (dnodes hs rho t) -> HistLt d) ->
    ppi tau hs * rho * (hv tau mu (S j) t - hv tau mu j t) = Rsum (map Fj (dnodes hs rho t)).
  Proof.
    induction t as [v|w t IH|ks IH|i kids IH] using dtree_ind'; intros hs rho H.
    - cbn. lra.
    - cbn [hv dnodes]. rewrite <- IH by exact H. lra.
    - rewrite dnodes_Nat in *. cbn [hv].
      revert H. induction IH as [|k r Hk _ IHr]; intros H; cbn [map Rsum dn_nat]; [lra|].
      rewrite map_app, Rsum_app, <- IHr, <- Hk.
      + lra.
      + intros d Hd. apply H. cbn [dn_nat]. apply in_or_app. now right.
      + intros d Hd. apply H. cbn [dn_nat]. apply in_or_app. now left.
    - rewrite dnodes_Dec in *. cbn [map Rsum].
      assert (Hrest : (j <= i)%nat ->
                      Rsum (map Fj (dn_dec (fun h t => dnodes h rho t) hs i kids 0)) = 0).
      { intros Hji. apply Rsum_zero. intros d Hd. apply In_dn_dec in Hd.
        destruct Hd as (b & k & Hk & Hd). cbn [Nat.add] in Hd.
        eapply (Fj_below hs rho i b k d); [exact Hd| |exact Hji].
        apply H. right. apply In_dn_dec. exists b, k. split; [exact Hk|exact Hd]. }
      destruct (lt_eq_lt_dec i j) as [[Hlt|Heq]|Hgt].
      + (* i < j: both sides expand by tau *)
        cbn [hv].
        assert (E1 : (i <? S j)%nat = true) by (apply Nat.ltb_lt; lia).
        assert (E2 : (i <? j)%nat = true) by (apply Nat.ltb_lt; lia).
        rewrite E1, E2.
        assert (E3 : Fj (mkDn hs i rho kids) = 0).
        { unfold Fj. cbn [d_i]. assert (E : (i =? j)%nat = false) by (apply Nat.eqb_neq; lia).
          now rewrite E. }
        rewrite E3, Rplus_0_l.
        assert (Hin : forall d, In d (dn_dec (fun h t => dnodes h rho t) hs i kids 0) -> HistLt d)
          by (intros d Hd; apply H; now right).
        clear H Hrest E3.
        assert (Hps : skipn 0 (rowR tau i) = rowR tau i) by reflexivity.
        revert Hps Hin. generalize (rowR tau i) at 2 3 4 as ps. generalize O as a.
        induction IH as [|k r Hk _ IHr]; intros a ps Hps Hin.
        * cbn [map dn_dec Rsum]. rewrite !dot_nil_r. lra.
        * cbn [map dn_dec]. rewrite map_app, Rsum_app.
          rewrite <- (IHr (S a) (tl ps)).
          -- rewrite <- (Hk (hs ++ [(i, a)]) rho).
             ++ rewrite ppi_app. cbn [ppi]. rewrite nth_skipn_hd, Hps.
                destruct ps as [|p ps']; cbn [hd tl]; rewrite ?dot_nil_l, ?dot_cons; lra.
             ++ intros d Hd. apply Hin. cbn [dn_dec]. apply in_or_app. now right.
          -- rewrite skipn_S_tl, Hps. reflexivity.
          -- intros d Hd. apply Hin. cbn [dn_dec]. apply in_or_app. now left.
      + (* i = j *)
        subst i. cbn [hv].
        assert (E1 : (j <? S j)%nat = true) by (apply Nat.ltb_lt; lia).
        assert (E2 : (j <? j)%nat = false) by (apply Nat.ltb_ge; lia).
        rewrite E1, E2, Hrest by lia.
        unfold Fj. cbn [d_i d_hs d_rho d_kids]. rewrite Nat.eqb_refl. lra.
      + cbn [hv].
        assert (E1 : (i <? S j)%nat = false) by (apply Nat.ltb_ge; lia).
        assert (E2 : (i <? j)%nat = false) by (apply Nat.ltb_ge; lia).
        rewrite E1, E2, Hrest by lia.
        unfold Fj. cbn [d_i]. assert (E : (i =? j)%nat = false) by (apply Nat.eqb_neq; lia).
        rewrite E. lra.
  Qed.
End Step.


(** ** Maxima *)
Lemma fold_max_ge r : forall x,
  x <= fold_left Rmax r x /\ Forall (fun y => y <= fold_left Rmax r x) r.
Proof.
  induction r as [|y r IH]; intros x; cbn [fold_left]; [split; [lra|constructor]|].
  destruct (IH (Rmax x y)) as [H1 H2].
  pose proof (Rmax_l x y). pose proof (Rmax_r x y).
  split; [lra|]. constructor; [lra|exact H2].
Qed.

Lemma fold_max_in r : forall x, In (fold_left Rmax r x) (x :: r).
Proof.
  induction r as [|y r IH]; intros x; cbn [fold_left]; [now left|].
  destruct (IH (Rmax x y)) as [H|H].
  - destruct (Rmax_case x y (fun z => z = x \/ z = y)) as [C|C]; [now left|now right| |].
    + left. congruence.
    + right. left. congruence.
  - right. right. exact H.
Qed.

Fixpoint argmax (l : list R) : nat :=
  match l with
  | [] => O
  | x :: r =>
      match r with
      | [] => O
      | _ :: _ => if Rleb (nth (argmax r) r 0) x then O else S (argmax r)
      end
  end.

Lemma argmax_spec l :
  l <> [] -> (argmax l < length l)%nat /\ Forall (fun y => y <= nth (argmax l) l 0) l.
Proof.
  induction l as [|x r IH]; intros Hne; [congruence|].
  destruct r as [|y r'].
  - cbn. split; [lia|]. constructor; [lra|constructor].
  - destruct IH as [IH1 IH2]; [discriminate|].
    remember (y :: r') as r eqn:Er.
    assert (E : argmax (x :: r) = if Rleb (nth (argmax r) r 0) x then O else S (argmax r)).
    { subst r. reflexivity. }
    rewrite E. destruct (Rleb (nth (argmax r) r 0) x) eqn:C.
    + apply Rleb_true in C. cbn [nth length]. split; [lia|].
      constructor; [lra|]. eapply Forall_impl; [|exact IH2]. cbn beta. intros z Hz. lra.
    + apply Rleb_false in C. cbn [nth length]. split; [lia|].
      constructor; [lra|exact IH2].
Qed.

Lemma reduce_max_argmax (l : list R) :
  l <> [] -> @reduce_max RNum l = Some (nth (argmax l) l 0).
Proof.
  intros Hne. destruct (argmax_spec l Hne) as [H1 H2].
  destruct l as [|x r]; [congruence|]. unfold reduce_max. f_equal.
  change (fmax RNum) with Rmax.
  set (M := fold_left Rmax r x).
  assert (HM : In M (x :: r)) by apply fold_max_in.
  rewrite Forall_forall in H2. pose proof (H2 M HM) as Hle.
  assert (Hin : In (nth (argmax (x :: r)) (x :: r) 0) (x :: r)) by (apply nth_In; exact H1).
  destruct (fold_max_ge r x) as [G1 G2]. fold M in G1, G2.
  assert (Hge : nth (argmax (x :: r)) (x :: r) 0 <= M).
  { destruct Hin as [<-|Hin]; [exact G1|]. rewrite Forall_forall in G2. now apply G2. }
  apply Rle_antisym; [exact Hle|exact Hge].
Qed.

Lemma dot_le_scaled (tau : list R) : forall v M,
  Forall (fun x => 0 <= x) tau -> length tau = length v -> Forall (fun y => y <= M) v ->
  dot tau v <= M * Rsum tau.
Proof.
  induction tau as [|p tau IH]; intros [|x v] M Hn Hl Hv; try discriminate.
  - unfold dot; cbn. lra.
  - inversion Hn as [|? ? Hp Hn']; subst. inversion Hv as [|? ? Hx Hv']; subst.
    rewrite dot_cons. cbn [Rsum]. cbn [length] in Hl.
    specialize (IH v M Hn' ltac:(lia) Hv'). nra.
Qed.

Lemma dot_le_max tau v M :
  VRow tau -> length tau = length v -> Forall (fun y => y <= M) v -> dot tau v <= M.
Proof.
  intros [Hn Hs] Hl Hv. pose proof (dot_le_scaled tau v M Hn Hl Hv) as H. rewrite Hs in H. lra.
Qed.

Lemma dot_repeat0_l n v : dot (repeat 0 n) v = 0.
Proof.
  revert v; induction n as [|n IH]; intros [|x v]; cbn [repeat]; try reflexivity.
  rewrite dot_cons, IH. lra.
Qed.

Lemma dot_repeatT0_r tau n : dot tau (@repeatT RNum 0 n) = 0.
Proof.
  revert tau; induction n as [|n IH]; intros [|x tau]; cbn [repeatT]; try reflexivity.
  rewrite dot_cons, IH. lra.
Qed.

Lemma repeatT_length n : length (@repeatT RNum 0 n) = n.
Proof. induction n as [|n IH]; cbn [repeatT length]; [reflexivity|now rewrite IH]. Qed.

Lemma dot_onehot n : forall a v,
  (a < n)%nat -> dot (onehot a n) v = nth a v 0.
Proof.
  induction n as [|n IH]; intros a v Ha; [lia|].
  destruct a as [|a]; destruct v as [|x v]; cbn [onehot nth]; rewrite ?dot_nil_r; try reflexivity.
  - rewrite dot_cons, dot_repeat0_l. lra.
  - rewrite dot_cons, IH by lia. lra.
Qed.

Lemma onehot_length n : forall a, length (onehot a n) = n.
Proof.
  induction n as [|n IH]; intros a; cbn [onehot]; [reflexivity|].
  destruct a; cbn [length]; [now rewrite repeat_length|now rewrite IH].
Qed.

Lemma Rsum_repeat0 n : Rsum (repeat 0 n) = 0.
Proof. induction n as [|n IH]; cbn [repeat Rsum]; [reflexivity|rewrite IH; lra]. Qed.

Lemma onehot_VRow n : forall a, (a < n)%nat -> VRow (onehot a n).
Proof.
  induction n as [|n IH]; intros a Ha; [lia|]. destruct a as [|a]; cbn [onehot].
  - split.
    + constructor; [lra|]. apply Forall_forall. intros x Hx. apply repeat_spec in Hx. lra.
    + cbn [Rsum]. rewrite Rsum_repeat0. lra.
  - destruct (IH a ltac:(lia)) as [H1 H2]. split.
    + constructor; [lra|exact H1].
    + cbn [Rsum]. rewrite H2. lra.
Qed.

(** ** The table computed by [resolve_one], at the level of the single-agent view *)
Definition ventry := (nat * (list dtree * R))%type.
Definition e_kids (e : ventry) : list dtree := fst (snd e).
Definition e_p (e : ventry) : R := snd (snd e).

Definition forget (d : dn) : ventry := (d_i d, (d_kids d, d_rho d)).

Definition vstep (mu : nat -> R) (pays : list R) (e : ventry) : list R :=
  map (fun pk => fst pk + sv mu (snd pk) * e_p e) (combine pays (e_kids e)).

Definition vpayoffs (mu : nat -> R) (mine : list ventry) (ar : nat) : list R :=
  fold_left (vstep mu) mine (@repeatT RNum 0 ar).

Definition vmine (nodes : list ventry) (i : nat) : list ventry :=
  filter (fun e => Nat.eqb (fst e) i) nodes.

Definition vresolve (nodes : list ventry) (ar : nat) (mu : nat -> R) (i : nat) : R :=
  match vmine nodes i with
  | [] => 0
  | _ :: _ =>
      match @reduce_max RNum (vpayoffs mu (vmine nodes i) ar) with
      | Some m => if Rltb 0 (Rsum (map e_p (vmine nodes i)))
                  then m / Rsum (map e_p (vmine nodes i)) else 0
      | None => 0
      end
  end.

Lemma vresolve_nonempty nodes ar mu i :
  vmine nodes i <> [] ->
  vresolve nodes ar mu i =
  match @reduce_max RNum (vpayoffs mu (vmine nodes i) ar) with
  | Some m => if Rltb 0 (Rsum (map e_p (vmine nodes i)))
              then m / Rsum (map e_p (vmine nodes i)) else 0
  | None => 0
  end.
Proof. unfold vresolve. destruct (vmine nodes i); [congruence|reflexivity]. Qed.

Lemma vresolve_empty nodes ar mu i : vmine nodes i = [] -> vresolve nodes ar mu i = 0.
Proof. unfold vresolve. now intros ->. Qed.

Lemma vstep_length mu pays e :
  length (e_kids e) = length pays -> length (vstep mu pays e) = length pays.
Proof. intros H. unfold vstep. rewrite map_length, combine_length, H. apply Nat.min_id. Qed.

Lemma dot_vstep tau : forall pays kids (f : dtree -> R) p,
  length kids = length pays ->
  dot tau (map (fun pk => fst pk + f (snd pk) * p) (combine pays kids)) =
  dot tau pays + p * dot tau (map f kids).
Proof.
  induction tau as [|t tau IH]; intros pays kids f p Hl.
  - rewrite !dot_nil_l. lra.
  - destruct pays as [|x pays]; destruct kids as [|k kids]; try discriminate.
    + cbn [combine map]. rewrite !dot_nil_r. lra.
    + cbn [combine map fst snd]. rewrite !dot_cons, IH by (cbn [length] in Hl; lia). lra.
Qed.

Lemma vpayoffs_fold_length mu : forall l pays,
  (forall e, In e l -> length (e_kids e) = length pays) ->
  length (fold_left (vstep mu) l pays) = length pays.
Proof.
  induction l as [|e l IH]; intros pays H; cbn [fold_left]; [reflexivity|].
  assert (He : length (vstep mu pays e) = length pays)
    by (apply vstep_length, H; now left).
  rewrite IH; [exact He|]. intros e' He'. rewrite He. apply H. now right.
Qed.

Lemma dot_vpayoffs_fold tau mu : forall l pays,
  (forall e, In e l -> length (e_kids e) = length pays) ->
  dot tau (fold_left (vstep mu) l pays) =
  dot tau pays + Rsum (map (fun e => e_p e * dot tau (map (sv mu) (e_kids e))) l).
Proof.
  induction l as [|e l IH]; intros pays H; cbn [fold_left map Rsum]; [lra|].
  assert (He : length (vstep mu pays e) = length pays)
    by (apply vstep_length, H; now left).
  rewrite IH.
  - unfold vstep at 1. rewrite dot_vstep by (apply H; now left). lra.
  - intros e' He'. rewrite He. apply H. now right.
Qed.

Lemma fold_left_ext_in {A B} (f g : A -> B -> A) l : forall a,
  (forall a x, In x l -> f a x = g a x) -> fold_left f l a = fold_left g l a.
Proof.
  induction l as [|x l IH]; intros a H; cbn [fold_left]; [reflexivity|].
  rewrite (H a x (or_introl eq_refl)). apply IH. intros a' y Hy. apply H. now right.
Qed.

Lemma vresolve_ext nodes ar mu mu' i :
  (forall e k, In e (vmine nodes i) -> In k (e_kids e) -> sv mu k = sv mu' k) ->
  vresolve nodes ar mu i = vresolve nodes ar mu' i.
Proof.
  intros H. unfold vresolve.
  assert (E : vpayoffs mu (vmine nodes i) ar = vpayoffs mu' (vmine nodes i) ar).
  { unfold vpayoffs. apply fold_left_ext_in. intros pays e He. unfold vstep.
    apply map_ext_in. intros pk Hpk. rewrite (H e (snd pk) He); [reflexivity|].
    destruct pk as [x k]. eapply in_combine_r. exact Hpk. }
  now rewrite E.
Qed.

Lemma vmine_forget l j :
  vmine (map forget l) j = map forget (filter (fun d => Nat.eqb (d_i d) j) l).
Proof.
  unfold vmine. induction l as [|d l IH]; cbn [map filter]; [reflexivity|].
  cbn [forget fst]. destruct (d_i d =? j)%nat; cbn [map]; now rewrite IH.
Qed.

(** ** The optimality argument *)
Section Core.
  Context (t0 : dtree) (n : nat) (ars : list nat) (mu : nat -> R) (HH : nat -> hist).
  Let D := dnodes [] 1 t0.
  Let E := map forget D.
  Context (HPR : forall d, In d D -> d_hs d = HH (d_i d))
          (HLt : forall d, In d D -> HistLt d)
          (Hpos : forall d, In d D -> 0 < d_rho d)
          (Hshape : forall d, In d D -> (d_i d < n)%nat /\ length (d_kids d) = nth (d_i d) ars O)
          (Hars : forall j, (j < n)%nat -> (1 <= nth j ars O)%nat)
          (Hmu : forall j, (j < n)%nat -> mu j = vresolve E (nth j ars O) mu j).

  Definition Dj (j : nat) : list dn := filter (fun d => Nat.eqb (d_i d) j) D.

  Lemma vmine_E j : vmine E j = map forget (Dj j).
  Proof.
    unfold E, Dj. apply vmine_forget.
  Qed.

  Definition pays (j : nat) : list R := vpayoffs mu (vmine E j) (nth j ars O).

  Lemma In_Dj j d : In d (Dj j) -> In d D /\ d_i d = j.
  Proof. unfold Dj. rewrite filter_In, Nat.eqb_eq. tauto. Qed.

  Lemma pays_length j : length (pays j) = nth j ars O.
  Proof.
    unfold pays, vpayoffs. rewrite vpayoffs_fold_length; [apply repeatT_length|].
    intros e He. rewrite vmine_E in He. apply in_map_iff in He. destruct He as (d & <- & Hd).
    apply In_Dj in Hd. destruct Hd as [Hd <-]. rewrite repeatT_length.
    cbn [forget e_kids fst snd]. apply Hshape, Hd.
  Qed.

  Lemma dot_pays tau j :
    dot tau (pays j) =
    Rsum (map (fun d => d_rho d * dot tau (map (sv mu) (d_kids d))) (Dj j)).
  Proof.
    unfold pays, vpayoffs. rewrite dot_vpayoffs_fold.
    - rewrite dot_repeatT0_r, vmine_E, map_map. cbn [forget e_p e_kids fst snd]. lra.
    - intros e He. rewrite vmine_E in He. apply in_map_iff in He. destruct He as (d & <- & Hd).
      apply In_Dj in Hd. destruct Hd as [Hd <-]. rewrite repeatT_length.
      cbn [forget e_kids fst snd]. apply Hshape, Hd.
  Qed.

  (** every decision node below a node of infoset [j] has a larger index *)
  Lemma below_gt d a k d' :
    In d D -> nth_error (d_kids d) a = Some k ->
    In d' (dnodes (d_hs d ++ [(d_i d, a)]) (d_rho d) k) -> (d_i d < d_i d')%nat.
  Proof.
    intros Hd Hk Hd'.
    assert (HD' : In d' D) by (eapply dnodes_sub; eassumption).
    destruct (dnodes_prefix _ _ _ _ Hd') as [suf Hs].
    pose proof (HLt d' HD') as HL. unfold HistLt in HL. rewrite Hs, Forall_forall in HL.
    apply (HL (d_i d, a)). rewrite <- app_assoc. apply in_or_app. right. now left.
  Qed.

  Lemma total_pos j : Dj j <> [] -> 0 < Rsum (map d_rho (Dj j)).
  Proof.
    assert (H : forall d, In d (Dj j) -> 0 < d_rho d) by (intros d Hd; apply Hpos; apply (In_Dj j d Hd)).
    induction (Dj j) as [|d l IH]; intros Hne; [congruence|]. cbn [map Rsum].
    pose proof (H d (or_introl eq_refl)) as Hd.
    destruct l as [|d' l']; [cbn; lra|].
    assert (0 < Rsum (map d_rho (d' :: l'))); [|lra].
    apply IH; [|discriminate]. intros x Hx. apply H. now right.
  Qed.

  (** value of [mu j] times the total reach of infoset [j] = the best action value *)
  Lemma mu_total j :
    (j < n)%nat -> Dj j <> [] ->
    mu j * Rsum (map d_rho (Dj j)) = nth (argmax (pays j)) (pays j) 0.
  Proof.
    intros Hj Hne. rewrite (Hmu j Hj).
    rewrite vresolve_nonempty
      by (rewrite vmine_E; intros C; apply map_eq_nil in C; congruence).
    fold (pays j). rewrite vmine_E.
    assert (Hp : pays j <> []).
    { intros C. pose proof (pays_length j) as L. rewrite C in L. cbn in L.
      pose proof (Hars j Hj). lia. }
    rewrite (reduce_max_argmax _ Hp), map_map. cbn [forget e_p snd].
    pose proof (total_pos j Hne) as Ht. change (fun x : dn => d_rho x) with d_rho. rewrite (proj2 (Rltb_true _ _) Ht). unfold Rdiv. rewrite Rmult_assoc, Rinv_l; [apply Rmult_1_r|apply Rgt_not_eq; exact Ht].
  Qed.

  (** one step of the telescope, for any [tau] *)
  Lemma step_eq tau j :
    (j < n)%nat ->
    hv tau mu (S j) t0 - hv tau mu j t0 =
    ppi tau (HH j) *
    (match Dj j with
     | [] => 0
     | _ :: _ => dot (rowR tau j) (pays j) - nth (argmax (pays j)) (pays j) 0
     end).
  Proof.
    intros Hj.
    pose proof (hv_diff tau mu j t0 [] 1 HLt) as Hd. cbn [ppi] in Hd. fold D in Hd.
    replace (hv tau mu (S j) t0 - hv tau mu j t0)
      with (1 * 1 * (hv tau mu (S j) t0 - hv tau mu j t0)) by lra.
    rewrite Hd.
    rewrite (Rsum_map_ext_in (Fj tau mu j)
               (fun d => if (d_i d =? j)%nat
                         then ppi tau (HH j) *
                              (d_rho d * (dot (rowR tau j) (map (sv mu) (d_kids d)) - mu j))
                         else 0)).
    2:{ intros d HdD. unfold Fj. destruct (d_i d =? j)%nat eqn:Ei; [|reflexivity].
        apply Nat.eqb_eq in Ei. rewrite (HPR d HdD), Ei. do 3 f_equal.
        f_equal. apply map_ext_in. intros k Hk. destruct (In_nth_error _ _ Hk) as [a Ha].
        apply (hv_above tau mu j k (d_hs d ++ [(d_i d, a)]) (d_rho d)).
        intros d' Hd'. rewrite <- Ei. eapply below_gt; eassumption. }
    rewrite Rsum_filter. fold (Dj j). f_equal.
    rewrite (Rsum_map_ext_in _ (fun d => d_rho d * dot (rowR tau j) (map (sv mu) (d_kids d))
                                         + (- mu j) * d_rho d)) by (intros; lra).
    rewrite Rsum_map_plus, <- dot_pays.
    destruct (Dj j) as [|d0 l0] eqn:EDj.
    - cbn [map Rsum]. rewrite (dot_pays (rowR tau j) j), EDj. cbn [map Rsum]. lra.
    - rewrite <- EDj.
      rewrite (Rsum_map_ext_in (fun d => - mu j * d_rho d) (fun d => d_rho d * (- mu j)))
        by (intros; lra).
      rewrite <- (map_map d_rho (fun r => r * - mu j)), Rsum_map_mult.
      rewrite <- (mu_total j Hj) by (rewrite EDj; discriminate). lra.
  Qed.

  (** *** Upper bound *)
  Lemma step_le tau j :
    NonnegRows tau -> (j < n)%nat ->
    VRow (rowR tau j) -> length (rowR tau j) = nth j ars O ->
    hv tau mu (S j) t0 <= hv tau mu j t0.
  Proof.
    intros Hnn Hj Hv Hl. pose proof (step_eq tau j Hj) as Hs.
    pose proof (ppi_nonneg tau (HH j) Hnn) as Hp.
    destruct (Dj j) as [|d0 l0] eqn:EDj; [lra|].
    assert (Hne : pays j <> []).
    { intros C. pose proof (pays_length j) as L. rewrite C in L. cbn in L.
      pose proof (Hars j Hj). lia. }
    destruct (argmax_spec (pays j) Hne) as [_ Hmax].
    pose proof (dot_le_max (rowR tau j) (pays j) _ Hv
                  ltac:(rewrite pays_length; exact Hl) Hmax) as Hle.
    assert (Hx : dot (rowR tau j) (pays j) - nth (argmax (pays j)) (pays j) 0 <= 0) by lra.
    pose proof (Rmult_le_compat_l _ _ _ Hp Hx) as Hy. rewrite Rmult_0_r in Hy. lra.
  Qed.

  Theorem core_upper tau :
    NonnegRows tau ->
    (forall j, (j < n)%nat -> VRow (rowR tau j) /\ length (rowR tau j) = nth j ars O) ->
    val tau t0 <= sv mu t0.
  Proof.
    intros Hnn Hrows.
    rewrite <- (hv_n tau mu n t0 [] 1) by (intros d Hd; apply Hshape, Hd).
    rewrite <- (hv_0 tau mu t0).
    assert (H : forall j, (j <= n)%nat -> hv tau mu j t0 <= hv tau mu 0 t0).
    { induction j as [|j IH]; intros Hj; [lra|].
      destruct (Hrows j ltac:(lia)) as [Hv Hl].
      pose proof (step_le tau j Hnn ltac:(lia) Hv Hl). specialize (IH ltac:(lia)). lra. }
    apply H. lia.
  Qed.

  (** *** The pure strategy read off the table *)
  Definition sstar : list (list R) :=
    map (fun j => onehot (argmax (pays j)) (nth j ars O)) (seq 0 n).

  Lemma sstar_row j :
    (j < n)%nat -> rowR sstar j = onehot (argmax (pays j)) (nth j ars O).
  Proof.
    intros Hj. unfold rowR, sstar.
    rewrite (nth_indep _ [] (onehot (argmax (pays 0)) (nth 0 ars O)))
      by (rewrite map_length, seq_length; exact Hj).
    rewrite (map_nth (fun j => onehot (argmax (pays j)) (nth j ars O)) (seq 0 n) O j).
    now rewrite seq_nth by exact Hj.
  Qed.

  Lemma argmax_pays_lt j : (j < n)%nat -> (argmax (pays j) < nth j ars O)%nat.
  Proof.
    intros Hj.
    assert (Hne : pays j <> []).
    { intros C. pose proof (pays_length j) as L. rewrite C in L. cbn in L.
      pose proof (Hars j Hj). lia. }
    destruct (argmax_spec (pays j) Hne) as [Hlt _]. now rewrite pays_length in Hlt.
  Qed.

  Lemma sstar_lengths : length ars = n -> map (@length R) sstar = ars.
  Proof.
    intros Hl. unfold sstar. rewrite map_map.
    rewrite (map_ext _ (fun j => nth j ars O)) by (intros j; apply onehot_length).
    subst n. clear. induction ars as [|a l IH] using rev_ind; [reflexivity|].
    rewrite app_length. cbn [length]. rewrite Nat.add_1_r, seq_S, map_app. cbn [map Nat.add].
    rewrite app_nth2, Nat.sub_diag by lia. cbn [nth]. f_equal.
    rewrite <- IH at 2. apply map_ext_in. intros j Hj. apply in_seq in Hj.
    apply app_nth1. lia.
  Qed.

  Lemma sstar_pure :
    Forall (fun r => exists a, (a < length r)%nat /\ r = onehot a (length r)) sstar.
  Proof.
    unfold sstar. apply Forall_forall. intros r Hr. apply in_map_iff in Hr.
    destruct Hr as (j & <- & Hj). apply in_seq in Hj.
    exists (argmax (pays j)). rewrite onehot_length. split; [apply argmax_pays_lt; lia|reflexivity].
  Qed.

  Theorem core_attained : val sstar t0 = sv mu t0.
  Proof.
    rewrite <- (hv_n sstar mu n t0 [] 1) by (intros d Hd; apply Hshape, Hd).
    rewrite <- (hv_0 sstar mu t0).
    assert (H : forall j, (j <= n)%nat -> hv sstar mu j t0 = hv sstar mu 0 t0).
    { induction j as [|j IH]; intros Hj; [reflexivity|].
      pose proof (step_eq sstar j ltac:(lia)) as Hs.
      rewrite sstar_row in Hs by lia.
      rewrite dot_onehot in Hs by (apply argmax_pays_lt; lia).
      specialize (IH ltac:(lia)).
      destruct (Dj j); lra. }
    apply H. lia.
  Qed.
End Core.

(** ** [HistLt] from the recorded previous infosets and the index order *)
Section HistOrder.
  Context (n : nat) (prev : nat -> option (nat * nat)).
  Context (Hord : forall i j a, (i < n)%nat -> prev i = Some (j, a) -> (j < i)%nat).

  Definition good (d : dn) : Prop :=
    (d_i d < n)%nat /\ prev (d_i d) = last (map Some (d_hs d)) None.

  Definition lastlt (hs : hist) (b : nat) : Prop :=
    match last (map Some hs) None with
    | None => True
    | Some (k, _) => (k < b)%nat
    end.

  Lemma last_snoc {A} (l : list A) x d : last (l ++ [x]) d = x.
  Proof. apply last_last. Qed.

  Lemma hist_lt t : forall hs rho,
    (forall d, In d (dnodes hs rho t) -> good d) ->
    (forall b, lastlt hs b -> Forall (fun ka => (fst ka < b)%nat) hs) ->
    forall d, In d (dnodes hs rho t) -> HistLt d.
  Proof.
    induction t as [v|w t IH|ks IH|i kids IH] using dtree_ind'; intros hs rho Hg HQ d Hd.
    - destruct Hd.
    - cbn [dnodes] in *. eapply IH; eassumption.
    - rewrite dnodes_Nat in Hd. apply In_dn_nat in Hd. destruct Hd as (k & Hk & Hd).
      rewrite Forall_forall in IH. eapply (IH k Hk hs rho); [|exact HQ|exact Hd].
      intros d' Hd'. apply Hg. eapply dnodes_kid_Nat; eassumption.
    - assert (Hthis : Forall (fun ka => (fst ka < i)%nat) hs).
      { apply HQ. unfold lastlt.
        destruct (Hg (mkDn hs i rho kids)) as [Hi Hp]; [rewrite dnodes_Dec; now left|].
        cbn [d_i d_hs] in Hi, Hp. destruct (last (map Some hs) None) as [[k a]|]; [|exact I].
        eapply Hord; eassumption. }
      apply dnodes_Dec_inv in Hd. destruct Hd as [->|(b & k & Hk & Hd)].
      + exact Hthis.
      + rewrite Forall_forall in IH.
        eapply (IH k (nth_error_In _ _ Hk) (hs ++ [(i, b)]) rho); [| |exact Hd].
        * intros d' Hd'. apply Hg. eapply dnodes_kid_Dec; eassumption.
        * intros b' Hb'. unfold lastlt in Hb'. rewrite map_app in Hb'. cbn [map] in Hb'.
          rewrite last_snoc in Hb'. apply Forall_app. split.
          -- eapply Forall_impl; [|exact Hthis]. cbn beta. intros ka Hka. lia.
          -- constructor; [exact Hb'|constructor].
  Qed.
End HistOrder.



(** * Part B: the model functions are the functions of the single-agent view *)

(** ** The local loops of the model, as top-level functions *)
Section Loops.
  Context {A : Type} (f : node -> R -> A -> A) (reach : R).

  Fixpoint lgo_c (ps : list R) (ks : list node) (acc : A) {struct ks} : A :=
    match ps, ks with
    | p :: ps', k :: ks' => f k (p * reach) (lgo_c ps' ks' acc)
    | _, _ => acc
    end.

  Fixpoint lgo_p (ps : list R) (ks : list node) (acc : A) {struct ks} : A :=
    match ps, ks with
    | p :: ps', k :: ks' =>
        if Rltb 0 p then f k (p * reach) (lgo_p ps' ks' acc) else lgo_p ps' ks' acc
    | _, _ => acc
    end.

  Fixpoint lgo_me (ks : list node) (acc : A) : A :=
    match ks with
    | [] => acc
    | k :: r => f k reach (lgo_me r acc)
    end.
End Loops.

Definition centry := (nat * (list node * R))%type.

Lemma search_Term chance so me mu x reach acc :
  @search RNum chance so me mu (Term x) reach acc =
  if me then acc + x * reach else acc - x * reach.
Proof. reflexivity. Qed.

Lemma search_Chance chance so me mu ci kids reach acc :
  @search RNum chance so me mu (Chance ci kids) reach acc =
  lgo_c (@search RNum chance so me mu) reach (rowR chance ci) kids acc.
Proof. reflexivity. Qed.

Lemma search_Player chance so me mu pl i kids reach acc :
  @search RNum chance so me mu (Player pl i kids) reach acc =
  if Bool.eqb pl me then acc + mu i * reach
  else lgo_p (@search RNum chance so me mu) reach (rowR so i) kids acc.
Proof. reflexivity. Qed.

Lemma collect_Term chance so me x reach (acc : list centry) :
  @collect RNum chance so me (Term x) reach acc = acc.
Proof. reflexivity. Qed.

Lemma collect_Chance chance so me ci kids reach (acc : list centry) :
  @collect RNum chance so me (Chance ci kids) reach acc =
  lgo_c (@collect RNum chance so me) reach (rowR chance ci) kids acc.
Proof. reflexivity. Qed.

Lemma collect_Player chance so me pl i kids reach (acc : list centry) :
  @collect RNum chance so me (Player pl i kids) reach acc =
  if Bool.eqb pl me
  then lgo_me (@collect RNum chance so me) reach kids (acc ++ [(i, (kids, reach))])
  else lgo_p (@collect RNum chance so me) reach (rowR so i) kids acc.
Proof. reflexivity. Qed.

(** [hists] and [shaped] *)
Definition hentry := (bool * nat * hist)%type.

Section HLoopC.
  Context (f : node -> hist -> hist -> list hentry) (h1 h2 : hist).
  Fixpoint hgo_c (ks : list node) : list hentry :=
    match ks with [] => [] | k :: r => f k h1 h2 ++ hgo_c r end.
End HLoopC.

Section HLoopP.
  Context (f : node -> hist -> hist -> list hentry) (pl : bool) (i : nat) (h1 h2 : hist).
  Fixpoint hgo_p (ks : list node) (a : nat) : list hentry :=
    match ks with
    | [] => []
    | k :: r =>
        f k (if pl then h1 ++ [(i, a)] else h1) (if pl then h2 else h2 ++ [(i, a)])
        ++ hgo_p r (S a)
    end.
End HLoopP.

Lemma hists_Chance ci kids h1 h2 :
  @hists RNum (Chance ci kids) h1 h2 = hgo_c (@hists RNum) h1 h2 kids.
Proof. reflexivity. Qed.

Lemma hists_Player pl i kids h1 h2 :
  @hists RNum (Player pl i kids) h1 h2 =
  (pl, i, if pl then h1 else h2) :: hgo_p (@hists RNum) pl i h1 h2 kids O.
Proof. reflexivity. Qed.

Lemma In_hgo_c f h1 h2 ks k x : In k ks -> In x (f k h1 h2) -> In x (hgo_c f h1 h2 ks).
Proof.
  induction ks as [|k0 r IH]; intros Hk Hx; [destruct Hk|]. cbn [hgo_c]. apply in_or_app.
  destruct Hk as [->|Hk]; [now left|right; now apply IH].
Qed.

Lemma In_hgo_p (f : node -> hist -> hist -> list hentry) (pl : bool) (i : nat)
      (h1 h2 : hist) ks : forall a b k x,
  nth_error ks b = Some k ->
  In x (f k (if pl then h1 ++ [(i, (a + b)%nat)] else h1)
         (if pl then h2 else h2 ++ [(i, (a + b)%nat)])) ->
  In x (hgo_p f pl i h1 h2 ks a).
Proof.
  induction ks as [|k0 r IH]; intros a b k x Hk Hx; [now destruct b|].
  cbn [hgo_p]. apply in_or_app. destruct b as [|b].
  - cbn in Hk. inversion Hk; subst. rewrite Nat.add_0_r in Hx. now left.
  - right. apply (IH (S a) b k x Hk). now rewrite Nat.add_succ_comm.
Qed.

Section ShAll.
  Context (P : node -> Prop).
  Fixpoint sh_all (ks : list node) : Prop :=
    match ks with [] => True | k :: r => P k /\ sh_all r end.
  Lemma sh_all_Forall ks : sh_all ks -> Forall P ks.
  Proof. induction ks as [|k r IH]; intros H; [constructor|]. destruct H. constructor; auto. Qed.
End ShAll.

Definition pinfo0 : pinfo := mkPinfo 0%N [] None.

Lemma shaped_Chance (g : game) ci kids :
  shaped g (Chance ci kids) ->
  (ci < length (g_chance g))%nat /\ length kids = length (nth ci (g_chance g) []) /\
  (2 <= length kids)%nat /\ Forall (shaped g) kids.
Proof.
  intros H. change (shaped g (Chance ci kids)) with
    ((ci < length (g_chance g))%nat /\ length kids = length (nth ci (g_chance g) []) /\
     (2 <= length kids)%nat /\ sh_all (shaped g) kids) in H.
  destruct H as (H1 & H2 & H3 & H4). repeat split; try assumption. now apply sh_all_Forall.
Qed.

Lemma shaped_Player (g : game) pl i kids :
  shaped g (Player pl i kids) ->
  (i < length (g_infos g pl))%nat /\
  length kids = length (pi_actions (nth i (g_infos g pl) pinfo0)) /\
  (2 <= length kids)%nat /\ Forall (shaped g) kids.
Proof.
  intros H. change (shaped g (Player pl i kids)) with
    ((i < length (g_infos g pl))%nat /\
     length kids = length (pi_actions (nth i (g_infos g pl) pinfo0)) /\
     (2 <= length kids)%nat /\ sh_all (shaped g) kids) in H.
  destruct H as (H1 & H2 & H3 & H4). repeat split; try assumption. now apply sh_all_Forall.
Qed.

(** ** The view of player [me] against [so] *)
Definition zipS (ps : list R) (ts : list dtree) : list dtree :=
  map (fun pt => Scale (fst pt) (snd pt)) (combine ps ts).

Definition zipSpos (ps : list R) (ts : list dtree) : list dtree :=
  map (fun pt => Scale (fst pt) (snd pt)) (filter (fun pt => Rltb 0 (fst pt)) (combine ps ts)).

Lemma Rsum_zipS (gv : dtree -> R) ps ts :
  (forall w t, gv (Scale w t) = w * gv t) ->
  Rsum (map gv (zipS ps ts)) = dot ps (map gv ts).
Proof.
  intros Hg. unfold zipS. revert ts; induction ps as [|p ps IH]; intros [|t ts];
    cbn [combine map Rsum]; rewrite ?dot_nil_l, ?dot_nil_r; try reflexivity.
  cbn [fst snd]. rewrite dot_cons, Hg, IH. reflexivity.
Qed.

Lemma Rsum_zipSpos (gv : dtree -> R) ps ts :
  (forall w t, gv (Scale w t) = w * gv t) -> Forall (fun x => 0 <= x) ps ->
  Rsum (map gv (zipSpos ps ts)) = dot ps (map gv ts).
Proof.
  intros Hg Hps. unfold zipSpos. revert ts; induction Hps as [|p ps Hp _ IH]; intros [|t ts];
    cbn [combine map Rsum filter]; rewrite ?dot_nil_l, ?dot_nil_r; try reflexivity.
  cbn [fst snd]. rewrite dot_cons. destruct (Rltb 0 p) eqn:E.
  - cbn [map Rsum fst snd]. rewrite Hg, IH. reflexivity.
  - apply Rltb_false in E. assert (p = 0) as -> by lra. rewrite IH. lra.
Qed.

Section View.
  Context (chance so : list (list R)) (me : bool).

  Fixpoint view (n : node) : dtree :=
    match n with
    | Term x => Leaf (if me then x else - x)
    | Chance ci kids => Nat (zipS (rowR chance ci) (map view kids))
    | Player pl i kids =>
        if Bool.eqb pl me then Dec i (map view kids)
        else Nat (zipSpos (rowR so i) (map view kids))
    end.

  Lemma In_zipS_view ks : forall ps t,
    In t (zipS ps (map view ks)) ->
    exists b p k, nth_error ps b = Some p /\ nth_error ks b = Some k /\ t = Scale p (view k).
  Proof.
    unfold zipS. induction ks as [|k ks IH]; intros [|p ps] t Ht; cbn [map combine In] in Ht;
      try contradiction.
    destruct Ht as [<-|Ht].
    - exists O, p, k. repeat split.
    - destruct (IH ps t Ht) as (b & p' & k' & H1 & H2 & H3). exists (S b), p', k'. auto.
  Qed.

  Lemma In_zipSpos_view ks : forall ps t,
    In t (zipSpos ps (map view ks)) ->
    exists b p k, nth_error ps b = Some p /\ 0 < p /\ nth_error ks b = Some k /\
                  t = Scale p (view k).
  Proof.
    unfold zipSpos. induction ks as [|k ks IH]; intros [|p ps] t Ht;
      cbn [map combine filter In] in Ht; try contradiction.
    cbn [fst] in Ht. destruct (Rltb 0 p) eqn:E.
    - destruct Ht as [<-|Ht].
      + exists O, p, k. apply Rltb_true in E. repeat split. exact E.
      + destruct (IH ps t Ht) as (b & p' & k' & H1 & H2 & H3 & H4). exists (S b), p', k'. auto.
    - destruct (IH ps t Ht) as (b & p' & k' & H1 & H2 & H3 & H4). exists (S b), p', k'. auto.
  Qed.

  Context (Hso : NonnegRows so).

  (** *** [search] is [sv] *)
  Lemma lgo_c_sum (f : node -> R -> R -> R) (v : node -> R) reach ps kids acc :
    Forall (fun k => forall r a, f k r a = a + r * v k) kids ->
    lgo_c f reach ps kids acc = acc + reach * dot ps (map v kids).
  Proof. exact (ego_c_sum f v reach ps kids acc). Qed.

  Lemma lgo_p_sum (f : node -> R -> R -> R) (v : node -> R) reach ps kids acc :
    Forall (fun x => 0 <= x) ps ->
    Forall (fun k => forall r a, f k r a = a + r * v k) kids ->
    lgo_p f reach ps kids acc = acc + reach * dot ps (map v kids).
  Proof. exact (ego_p_sum f v reach ps kids acc). Qed.

  Lemma sv_Scale mu w t : sv mu (Scale w t) = w * sv mu t.
  Proof. reflexivity. Qed.

  Lemma search_view mu n : forall reach acc,
    @search RNum chance so me mu n reach acc = acc + reach * sv mu (view n).
  Proof.
    induction n as [x|ci kids IH|pl i kids IH] using node_ind'; intros reach acc.
    - rewrite search_Term. cbn [view sv]. destruct me; lra.
    - rewrite search_Chance. cbn [view sv].
      rewrite (lgo_c_sum _ (fun k => sv mu (view k))) by exact IH.
      rewrite (Rsum_zipS _ _ _ (sv_Scale mu)), map_map. reflexivity.
    - rewrite search_Player. cbn [view]. destruct (Bool.eqb pl me).
      + cbn [sv]. lra.
      + cbn [sv]. rewrite (lgo_p_sum _ (fun k => sv mu (view k)));
          [|apply NonnegRows_row, Hso|exact IH].
        rewrite (Rsum_zipSpos _ _ _ (sv_Scale mu)) by apply NonnegRows_row, Hso.
        rewrite map_map. reflexivity.
  Qed.

  (** *** [u] is [val] *)
  Definition sgn (x : R) : R := if me then x else - x.

  Lemma dot_sgn ps (f : node -> R) ks :
    dot ps (map (fun k => sgn (f k)) ks) = sgn (dot ps (map f ks)).
  Proof.
    revert ks; induction ps as [|p ps IH]; intros [|k ks]; cbn [map];
      rewrite ?dot_nil_l, ?dot_nil_r; try (unfold sgn; destruct me; lra).
    rewrite !dot_cons, IH. unfold sgn. destruct me; lra.
  Qed.

  Lemma val_Scale tau w t : val tau (Scale w t) = w * val tau t.
  Proof. reflexivity. Qed.

  Lemma u_view tau n :
    sgn (u chance (if me then tau else so) (if me then so else tau) n) = val tau (view n).
  Proof.
    induction n as [x|ci kids IH|pl i kids IH] using node_ind'.
    - reflexivity.
    - cbn [u view val]. rewrite (Rsum_zipS _ _ _ (val_Scale tau)), map_map, <- dot_sgn.
      f_equal. now apply map_ext_Forall'.
    - cbn [u view]. destruct (Bool.eqb pl me) eqn:E.
      + apply eqb_prop in E. subst pl. cbn [val].
        replace (rowR (if me then if me then tau else so else if me then so else tau) i)
          with (rowR tau i) by (destruct me; reflexivity).
        rewrite map_map, <- dot_sgn. f_equal. now apply map_ext_Forall'.
      + cbn [val].
        replace (rowR (if pl then if me then tau else so else if me then so else tau) i)
          with (rowR so i) by (destruct pl, me; try discriminate; reflexivity).
        rewrite (Rsum_zipSpos _ _ _ (val_Scale tau)) by apply NonnegRows_row, Hso.
        rewrite map_map, <- dot_sgn. f_equal. now apply map_ext_Forall'.
  Qed.

  (** *** [collect] lists the decision nodes of the view *)
  Definition vlift (e : centry) : ventry := (fst e, (map view (fst (snd e)), snd (snd e))).

  Lemma collect_view n : forall hs reach (acc : list centry),
    map vlift (@collect RNum chance so me n reach acc) =
    map vlift acc ++ map forget (dnodes hs reach (view n)).
  Proof.
    induction n as [x|ci kids IH|pl i kids IH] using node_ind'; intros hs reach acc.
    - rewrite collect_Term. cbn [view dnodes map]. now rewrite app_nil_r.
    - rewrite collect_Chance. cbn [view]. rewrite dnodes_Nat.
      generalize (rowR chance ci) as ps. revert acc.
      induction IH as [|k ks Hk _ IHks]; intros acc [|p ps]; cbn [lgo_c map zipS combine dn_nat];
        rewrite ?app_nil_r; try reflexivity.
      rewrite (Hk hs), IHks. cbn [fst snd]. rewrite map_app, app_assoc.
      fold (zipS ps (map view ks)). reflexivity.
    - rewrite collect_Player. cbn [view]. destruct (Bool.eqb pl me).
      + rewrite dnodes_Dec. cbn [map].
        assert (Hin : forall a (acc0 : list centry),
                   map vlift (lgo_me (@collect RNum chance so me) reach kids acc0) =
                   map vlift acc0 ++
                   map forget (dn_dec (fun h t => dnodes h reach t) hs i (map view kids) a)).
        { clear acc. induction IH as [|k ks Hk _ IHks]; intros a acc0; cbn [lgo_me map dn_dec].
          - now rewrite app_nil_r.
          - rewrite (Hk (hs ++ [(i, a)])), (IHks (S a)), map_app, app_assoc. reflexivity. }
        rewrite (Hin O), map_app, <- app_assoc. reflexivity.

      + rewrite dnodes_Nat.
        generalize (rowR so i) as ps. revert acc.
        induction IH as [|k ks Hk _ IHks]; intros acc [|p ps];
          cbn [lgo_p map zipSpos combine filter dn_nat]; rewrite ?app_nil_r; try reflexivity.
        cbn [fst]. destruct (Rltb 0 p).
        * rewrite (Hk hs), IHks. cbn [map dn_nat fst snd]. rewrite map_app, app_assoc.
          fold (zipSpos ps (map view ks)). reflexivity.
        * rewrite IHks. fold (zipSpos ps (map view ks)). reflexivity.
  Qed.
End View.



(** ** What well-formedness says about the decision nodes of the view *)
Lemma PosRows_row (chance : list (list R)) ci :
  Forall (Forall (fun p => 0 < p)) chance -> Forall (fun p => 0 < p) (rowR chance ci).
Proof.
  intros H. unfold rowR. destruct (Nat.lt_ge_cases ci (length chance)) as [Hi|Hi].
  - rewrite Forall_forall in H. apply H. now apply nth_In.
  - rewrite nth_overflow by assumption. constructor.
Qed.

Lemma nth_arities (g : game) me i :
  nth i (arities g me) O = length (pi_actions (nth i (g_infos g me) pinfo0)).
Proof.
  unfold arities.
  exact (map_nth (fun pi : pinfo => length (pi_actions pi)) (g_infos g me) pinfo0 i).
Qed.

Section Props.
  Context (g : game) (so : list (list R)) (me : bool).
  Context (Hch : Forall (Forall (fun p => 0 < p)) (g_chance g)).
  Local Notation viewg := (view (g_chance g) so me).

  Lemma dn_props n : forall h1 h2 hs rho d,
    hs = (if me then h1 else h2) -> shaped g n -> 0 < rho ->
    In d (dnodes hs rho (viewg n)) ->
    In (me, d_i d, d_hs d) (@hists RNum n h1 h2) /\ 0 < d_rho d /\
    (d_i d < length (g_infos g me))%nat /\ length (d_kids d) = nth (d_i d) (arities g me) O.
  Proof.
    induction n as [x|ci kids IH|pl i kids IH] using node_ind'; intros h1 h2 hs rho d Hhs Hsh Hrho Hd.
    - destruct Hd.
    - apply shaped_Chance in Hsh. destruct Hsh as (_ & _ & _ & Hall).
      cbn [view] in Hd. rewrite dnodes_Nat in Hd. apply In_dn_nat in Hd.
      destruct Hd as (t & Ht & Hd). apply In_zipS_view in Ht.
      destruct Ht as (b & p & k & Hp & Hk & ->). cbn [dnodes] in Hd.
      rewrite Forall_forall in IH, Hall.
      assert (Hpp : 0 < p).
      { pose proof (PosRows_row (g_chance g) ci Hch) as Hr. rewrite Forall_forall in Hr.
        eapply Hr, nth_error_In, Hp. }
      pose proof (nth_error_In _ _ Hk) as HkIn.
      destruct (IH k HkIn h1 h2 hs (p * rho) d Hhs (Hall k HkIn)
                   ltac:(now apply Rmult_lt_0_compat) Hd) as (A1 & A2 & A3 & A4).
      repeat split; try assumption. rewrite hists_Chance. eapply In_hgo_c; eassumption.
    - apply shaped_Player in Hsh. destruct Hsh as (Hi & Hlen & _ & Hall).
      cbn [view] in Hd. rewrite Forall_forall in IH, Hall.
      destruct (Bool.eqb pl me) eqn:Epl.
      + apply eqb_prop in Epl. subst pl.
        apply dnodes_Dec_inv in Hd. destruct Hd as [->|(b & k' & Hk' & Hd)].
        * cbn [d_i d_hs d_rho d_kids]. rewrite hists_Player. split; [left; now subst hs|].
          split; [assumption|]. split; [assumption|].
          now rewrite map_length, Hlen, nth_arities.
        * rewrite nth_error_map in Hk'. destruct (nth_error kids b) as [k|] eqn:Hk; [|discriminate].
          cbn [option_map] in Hk'. inversion Hk'; subst k'. clear Hk'.
          pose proof (nth_error_In _ _ Hk) as HkIn.
          destruct (IH k HkIn (if me then h1 ++ [(i, b)] else h1)
                       (if me then h2 else h2 ++ [(i, b)]) (hs ++ [(i, b)]) rho d
                       ltac:(subst hs; destruct me; reflexivity) (Hall k HkIn) Hrho Hd)
            as (A1 & A2 & A3 & A4).
          repeat split; try assumption. rewrite hists_Player. right.
          eapply (In_hgo_p _ me i h1 h2 kids O b k); [exact Hk|]. exact A1.
      + rewrite dnodes_Nat in Hd. apply In_dn_nat in Hd.
        destruct Hd as (t & Ht & Hd). apply In_zipSpos_view in Ht.
        destruct Ht as (b & p & k & Hp & Hpp & Hk & ->). cbn [dnodes] in Hd.
        pose proof (nth_error_In _ _ Hk) as HkIn.
        destruct (IH k HkIn (if pl then h1 ++ [(i, b)] else h1)
                     (if pl then h2 else h2 ++ [(i, b)]) hs (p * rho) d
                     ltac:(subst hs; destruct pl, me; try discriminate; reflexivity)
                     (Hall k HkIn) ltac:(now apply Rmult_lt_0_compat) Hd)
          as (A1 & A2 & A3 & A4).
        repeat split; try assumption. rewrite hists_Player. right.
        eapply (In_hgo_p _ pl i h1 h2 kids O b k); [exact Hk|]. exact A1.
  Qed.
End Props.

(** ** [resolve_one] is [vresolve] on the lifted node list *)
Lemma combine_map_r {A B C} (f : B -> C) (l : list A) : forall l' : list B,
  combine l (map f l') = map (fun pk => (fst pk, f (snd pk))) (combine l l').
Proof.
  induction l as [|x l IH]; intros [|y l']; cbn [combine map]; try reflexivity.
  now rewrite IH.
Qed.

Lemma fold_left_map {A B C} (f : A -> B -> A) (gm : C -> B) l : forall a,
  fold_left f (map gm l) a = fold_left (fun a x => f a (gm x)) l a.
Proof. induction l as [|x l IH]; intros a; cbn [map fold_left]; [reflexivity|apply IH]. Qed.

Lemma match_nonempty {A B} (l : list A) (z x : B) :
  l <> [] -> match l with [] => z | _ :: _ => x end = x.
Proof. destruct l; [congruence|reflexivity]. Qed.

Section Resolve.
  Context (chance so : list (list R)) (me : bool) (Hso : NonnegRows so).
  Local Notation vliftc := (vlift chance so me).

  Lemma filter_vlift (nodes : list centry) i :
    vmine (map vliftc nodes) i = map vliftc (filter (fun e => Nat.eqb (fst e) i) nodes).
  Proof.
    unfold vmine. induction nodes as [|e l IH]; cbn [map filter]; [reflexivity|].
    cbn [vlift fst]. destruct (fst e =? i)%nat; cbn [map]; now rewrite IH.
  Qed.

  Lemma resolve_one_view (nodes : list centry) ar mu i :
    @resolve_one RNum chance so me nodes ar mu i = vresolve (map vliftc nodes) ar mu i.
  Proof.
    unfold resolve_one, vresolve. rewrite filter_vlift. cbn [T RNum].
    set (mine := filter (fun e : nat * (list node * R) => (fst e =? i)%nat) nodes).
    clearbody mine. destruct mine as [|e0 l0]; [reflexivity|].
    lazymatch goal with
    | |- ?L = match _ with [] => _ | _ :: _ => ?x end => change (L = x)
    end.
    set (mine := e0 :: l0).
    match goal with
    | |- match @reduce_max RNum ?X with Some _ => _ | None => _ end = _ =>
        assert (Ep : X = vpayoffs mu (map vliftc mine) ar)
    end.
    { unfold vpayoffs. rewrite fold_left_map. apply fold_left_ext_in.
      intros pays [i' [kids p]] _. unfold vstep. cbn [vlift e_kids e_p fst snd].
      rewrite combine_map_r, map_map. apply map_ext. intros [x k]. cbn [fst snd].
      rewrite (search_view chance so me Hso mu k). cbn [add mul one zero RNum]. lra. }
    rewrite Ep.
    destruct (@reduce_max RNum (vpayoffs mu (map vliftc mine) ar)) as [m|]; [|reflexivity].
    assert (Et : @sum RNum (map (fun e : nat * (list node * R) => snd (snd e)) mine)
                 = Rsum (map e_p (map vliftc mine))).
    { rewrite sum_Rsum, !map_map. reflexivity. }
    cbn [T RNum] in Et. cbn [div ltb zero RNum]. rewrite Et. reflexivity.
  Qed.

  (** *** the table computed by [resolve_from] *)
  Context (nodes : list centry) (ars : list nat).
  Local Notation rf := (@resolve_from RNum chance so me nodes ars).

  Lemma rf_S i k :
    rf i (S k) =
    @resolve_one RNum chance so me nodes (nth i ars O)
                 (fun j => nth (j - S i) (rf (S i) k) 0) i :: rf (S i) k.
  Proof. reflexivity. Qed.

  Lemma rf_skip a : forall i b, skipn a (rf i (a + b)) = rf (i + a) b.
  Proof.
    induction a as [|a IH]; intros i b.
    - cbn [skipn Nat.add]. now rewrite Nat.add_0_r.
    - cbn [Nat.add]. rewrite rf_S. cbn [skipn]. rewrite IH. f_equal. lia.
  Qed.

  Lemma nth_skipn_add {A} (l : list A) d : forall a k, nth k (skipn a l) d = nth (a + k) l d.
  Proof.
    induction l as [|x l IH]; intros a k.
    - rewrite skipn_nil. now destruct k, a.
    - destruct a as [|a]; [reflexivity|]. cbn [skipn Nat.add nth]. apply IH.
  Qed.

  Definition table (n : nat) : nat -> R := fun j => nth j (rf O n) 0.

  Lemma table_stable n j :
    (j < n)%nat ->
    exists mu' : nat -> R,
      (forall j', (j < j')%nat -> mu' j' = table n j') /\
      table n j = @resolve_one RNum chance so me nodes (nth j ars O) mu' j.
  Proof.
    intros Hj. set (m := (n - S j)%nat).
    exists (fun j' => nth (j' - S j) (rf (S j) m) 0). split.
    - intros j' Hj'. unfold table.
      replace (rf (S j) m) with (skipn (S j) (rf O n)).
      + rewrite nth_skipn_add. f_equal. lia.
      + replace n with (S j + m)%nat by (unfold m; lia). rewrite rf_skip. reflexivity.
    - unfold table. replace j with (j + 0)%nat at 1 by lia. rewrite <- nth_skipn_add.
      replace n with (j + S m)%nat by (unfold m; lia). rewrite rf_skip, rf_S. reflexivity.
  Qed.
End Resolve.



(** * Part C: the best-response value of the model is the best-response value *)
Lemma chance_pos (g : game) : ChanceOK g -> Forall (Forall (fun p => 0 < p)) (g_chance g).
Proof.
  unfold ChanceOK. intros H. eapply Forall_impl; [|exact H]. cbn beta. now intros row [Hr _].
Qed.

Lemma WF_arity_pos (g : game) me j :
  WFgame g -> (j < length (g_infos g me))%nat -> (1 <= nth j (arities g me) O)%nat.
Proof.
  intros (_ & [_ H1] & [_ H2] & _) Hj. rewrite nth_arities.
  assert (H : Forall (fun pi : pinfo => NoDup (pi_actions pi) /\ (2 <= length (pi_actions pi))%nat)
                     (g_infos g me)) by (destruct me; assumption).
  rewrite Forall_forall in H. destruct (H (nth j (g_infos g me) pinfo0)) as [_ Hl].
  - now apply nth_In.
  - lia.
Qed.

Section Final.
  Context (g : game) (me : bool) (so : list (list R)).
  Context (HWF : WFgame g) (HPRc : PerfectRecall g) (HCh : ChanceOK g) (Hso : NonnegRows so).

  Definition the_view : dtree := view (g_chance g) so me (g_root g).
  Definition the_nodes : list centry := @collect RNum (g_chance g) so me (g_root g) 1 [].
  Definition the_mu : nat -> R :=
    table (g_chance g) so me the_nodes (arities g me) (length (g_infos g me)).

  Lemma arities_length : length (arities g me) = length (g_infos g me).
  Proof. unfold arities. apply map_length. Qed.

  Lemma br_value_view : @br_value RNum g me so = sv the_mu the_view.
  Proof.
    unfold br_value. cbv zeta. rewrite (search_view (g_chance g) so me Hso).
    rewrite arities_length. cbn [one zero RNum]. rewrite Rplus_0_l, Rmult_1_l. reflexivity.
  Qed.

  Lemma u_me_view tau : u_me g me tau so = val tau the_view.
  Proof.
    unfold u_me, u_game, the_view. rewrite <- (u_view (g_chance g) so me Hso tau).
    unfold sgn. destruct me; reflexivity.
  Qed.

  Lemma nodes_view : map (vlift (g_chance g) so me) the_nodes = map forget (dnodes [] 1 the_view).
  Proof. exact (collect_view (g_chance g) so me (g_root g) [] 1 []). Qed.

  Lemma D_props d :
    In d (dnodes [] 1 the_view) ->
    In (me, d_i d, d_hs d) (@hists RNum (g_root g) [] []) /\ 0 < d_rho d /\
    (d_i d < length (g_infos g me))%nat /\ length (d_kids d) = nth (d_i d) (arities g me) O.
  Proof.
    intros Hd. destruct HWF as (Hsh & _).
    apply (dn_props g so me (chance_pos g HCh) (g_root g) [] [] [] 1 d);
      [now destruct me|exact Hsh|lra|exact Hd].
  Qed.

  Lemma D_HistLt d : In d (dnodes [] 1 the_view) -> HistLt d.
  Proof.
    destruct HWF as (_ & _ & _ & Hprev & Hord).
    apply (hist_lt (length (g_infos g me))
                   (fun i => pi_prev (nth i (g_infos g me) pinfo0))).
    - intros i j a Hi Hp. exact (Hord me i j a Hi Hp).
    - intros d' Hd'. destruct (D_props d' Hd') as (A1 & _ & A3 & _). split; [exact A3|].
      exact (Hprev me (d_i d') (d_hs d') A1).
    - intros b _. constructor.
  Qed.

  Lemma the_mu_stable j :
    (j < length (g_infos g me))%nat ->
    the_mu j = vresolve (map forget (dnodes [] 1 the_view)) (nth j (arities g me) O) the_mu j.
  Proof.
    intros Hj. unfold the_mu.
    destruct (table_stable (g_chance g) so me the_nodes (arities g me) _ j Hj)
      as (mu' & Hag & Heq).
    rewrite Heq, (resolve_one_view (g_chance g) so me Hso), nodes_view.
    apply vresolve_ext. intros e k He Hk.
    rewrite vmine_forget in He. apply in_map_iff in He. destruct He as (d & <- & Hd).
    apply filter_In in Hd. destruct Hd as [Hd Hdi]. apply Nat.eqb_eq in Hdi.
    cbn [forget e_kids fst snd] in Hk. destruct (In_nth_error _ _ Hk) as [a Ha].
    apply (sv_ext mu' _ k (d_hs d ++ [(d_i d, a)]) (d_rho d)).
    intros d' Hd'. apply Hag. rewrite <- Hdi.
    exact (below_gt the_view D_HistLt d a k d' Hd Ha Hd').
  Qed.

  Lemma StratOf_rows tau j :
    StratOf g me tau -> (j < length (g_infos g me))%nat ->
    VRow (rowR tau j) /\ length (rowR tau j) = nth j (arities g me) O.
  Proof.
    intros [Hv Hl] Hj.
    assert (Hlen : length tau = length (g_infos g me)).
    { rewrite <- arities_length, <- Hl. now rewrite map_length. }
    split.
    - rewrite Forall_forall in Hv. apply Hv. unfold rowR. apply nth_In. lia.
    - rewrite <- Hl. unfold rowR. symmetry.
      exact (map_nth (@length R) tau [] j).
  Qed.

  (** ** Theorem 2: no strategy of [me] does better than [br_value] *)
  Theorem br_upper_sec tau : StratOf g me tau -> u_me g me tau so <= @br_value RNum g me so.
  Proof.
    intros Htau. rewrite u_me_view, br_value_view.
    destruct HPRc as [H HH].
    apply (core_upper the_view (length (g_infos g me)) (arities g me) the_mu (H me)).
    - intros d Hd. destruct (D_props d Hd) as (A1 & _). exact (HH me (d_i d) (d_hs d) A1).
    - exact D_HistLt.
    - intros d Hd. apply (D_props d Hd).
    - intros d Hd. destruct (D_props d Hd) as (_ & _ & A3 & A4). now split.
    - intros j Hj. now apply WF_arity_pos.
    - exact the_mu_stable.
    - eapply StratOf_nonneg, Htau.
    - intros j Hj. now apply StratOf_rows.
  Qed.

  (** ** Theorem 3: a pure strategy attains it *)
  Definition the_sstar : list (list R) :=
    sstar the_view (length (g_infos g me)) (arities g me) the_mu.

  Lemma the_sstar_pure : PureOf g me the_sstar.
  Proof.
    assert (Hshape : forall d, In d (dnodes [] 1 the_view) ->
                (d_i d < length (g_infos g me))%nat /\
                length (d_kids d) = nth (d_i d) (arities g me) O).
    { intros d Hd. destruct (D_props d Hd) as (_ & _ & A3 & A4). now split. }
    assert (Hars : forall j, (j < length (g_infos g me))%nat ->
                             (1 <= nth j (arities g me) O)%nat).
    { intros j Hj. now apply WF_arity_pos. }
    split.
    - apply (sstar_lengths the_view _ (arities g me) the_mu Hshape Hars the_mu_stable).
      apply arities_length.
    - apply (sstar_pure the_view _ (arities g me) the_mu Hshape Hars).
  Qed.

  Theorem br_attained_sec : u_me g me the_sstar so = @br_value RNum g me so.
  Proof.
    rewrite u_me_view, br_value_view.
    destruct HPRc as [H HH].
    apply (core_attained the_view (length (g_infos g me)) (arities g me) the_mu (H me)).
    - intros d Hd. destruct (D_props d Hd) as (A1 & _). exact (HH me (d_i d) (d_hs d) A1).
    - exact D_HistLt.
    - intros d Hd. apply (D_props d Hd).
    - intros d Hd. destruct (D_props d Hd) as (_ & _ & A3 & A4). now split.
    - intros j Hj. now apply WF_arity_pos.
    - exact the_mu_stable.
  Qed.
End Final.

Lemma onehot_pure_VRow r :
  (exists a, (a < length r)%nat /\ r = onehot a (length r)) -> VRow r.
Proof. intros (a & Ha & Hr). rewrite Hr. now apply onehot_VRow. Qed.

Lemma PureOf_StratOf (g : game) me s : PureOf g me s -> StratOf g me s.
Proof.
  intros [Hl Hp]. split; [|exact Hl]. eapply Forall_impl; [|exact Hp]. apply onehot_pure_VRow.
Qed.

(** ** The theorems in closed form *)
Theorem br_upper (g : game) (me : bool) (so : list (list R)) :
  WFgame g -> PerfectRecall g -> ChanceOK g -> NonnegRows so ->
  forall tau, StratOf g me tau -> u_me g me tau so <= @br_value RNum g me so.
Proof. intros H1 H2 H3 H4 tau Ht. now apply br_upper_sec. Qed.

Theorem br_attained (g : game) (me : bool) (so : list (list R)) :
  WFgame g -> PerfectRecall g -> ChanceOK g -> NonnegRows so ->
  exists s, PureOf g me s /\ u_me g me s so = @br_value RNum g me so.
Proof.
  intros H1 H2 H3 H4. exists (the_sstar g me so). split.
  - now apply the_sstar_pure.
  - now apply br_attained_sec.
Qed.

(** [br_value] is the maximum of [u_me] over the behavioural strategies of [me] *)
Corollary br_value_is_max (g : game) (me : bool) (so : list (list R)) :
  WFgame g -> PerfectRecall g -> ChanceOK g -> NonnegRows so ->
  (forall tau, StratOf g me tau -> u_me g me tau so <= @br_value RNum g me so) /\
  (exists s, StratOf g me s /\ u_me g me s so = @br_value RNum g me so).
Proof.
  intros H1 H2 H3 H4. split; [now apply br_upper|].
  destruct (br_attained g me so H1 H2 H3 H4) as (s & Hs & He).
  exists s. split; [now apply PureOf_StratOf|exact He].
Qed.

(** ** Corollaries at the [info] level *)
Section Info.
  Context (g : game) (prof : list R * list R).
  Context (HWF : WFgame g) (HPR : PerfectRecall g) (HCh : ChanceOK g) (HV : Valid g prof).
  Let s1 := strat1 g prof.
  Let s2 := strat2 g prof.

  Lemma s1_ok : StratOf g true s1. Proof. now apply Valid_strat1. Qed.
  Lemma s2_ok : StratOf g false s2. Proof. now apply Valid_strat2. Qed.

  (** regret of player one: [br - u], non-negative *)
  Theorem info_reg1_exact :
    si_reg1 (@info RNum g prof) = @br_value RNum g true s2 - u_me g true s1 s2 /\
    0 <= si_reg1 (@info RNum g prof).
  Proof.
    rewrite info_reg1_def by exact HV. fold s1 s2.
    pose proof (br_upper g true s2 HWF HPR HCh (StratOf_nonneg _ _ _ s2_ok) s1 s1_ok) as H.
    rewrite Rmax_left by lra. split; lra.
  Qed.

  Theorem info_reg2_exact :
    si_reg2 (@info RNum g prof) = @br_value RNum g false s1 - u_me g false s2 s1 /\
    0 <= si_reg2 (@info RNum g prof).
  Proof.
    rewrite info_reg2_def by exact HV. fold s1 s2.
    pose proof (br_upper g false s1 HWF HPR HCh (StratOf_nonneg _ _ _ s1_ok) s2 s2_ok) as H.
    rewrite Rmax_left by lra. split; lra.
  Qed.

  (** the reported regret of player one is the largest gain from a unilateral deviation *)
  Theorem info_reg1_largest_gain :
    (forall tau, StratOf g true tau ->
                 u_me g true tau s2 - u_me g true s1 s2 <= si_reg1 (@info RNum g prof)) /\
    (exists s, PureOf g true s /\
               u_me g true s s2 - u_me g true s1 s2 = si_reg1 (@info RNum g prof)).
  Proof.
    destruct info_reg1_exact as [-> _]. split.
    - intros tau Ht.
      pose proof (br_upper g true s2 HWF HPR HCh (StratOf_nonneg _ _ _ s2_ok) tau Ht). lra.
    - destruct (br_attained g true s2 HWF HPR HCh (StratOf_nonneg _ _ _ s2_ok)) as (s & Hs & He).
      exists s. split; [exact Hs|]. lra.
  Qed.

  Theorem info_reg2_largest_gain :
    (forall tau, StratOf g false tau ->
                 u_me g false tau s1 - u_me g false s2 s1 <= si_reg2 (@info RNum g prof)) /\
    (exists s, PureOf g false s /\
               u_me g false s s1 - u_me g false s2 s1 = si_reg2 (@info RNum g prof)).
  Proof.
    destruct info_reg2_exact as [-> _]. split.
    - intros tau Ht.
      pose proof (br_upper g false s1 HWF HPR HCh (StratOf_nonneg _ _ _ s1_ok) tau Ht). lra.
    - destruct (br_attained g false s1 HWF HPR HCh (StratOf_nonneg _ _ _ s1_ok)) as (s & Hs & He).
      exists s. split; [exact Hs|]. lra.
  Qed.

  (** the profile is an equilibrium exactly when the reported regret is zero *)
  Theorem info_regret_zero_iff_equilibrium :
    @si_regret RNum (@info RNum g prof) = 0 <->
    (forall tau, StratOf g true tau -> u_me g true tau s2 <= u_me g true s1 s2) /\
    (forall tau, StratOf g false tau -> u_me g false tau s1 <= u_me g false s2 s1).
  Proof.
    rewrite info_regret_def.
    destruct info_reg1_exact as [E1 P1]. destruct info_reg2_exact as [E2 P2].
    destruct info_reg1_largest_gain as [U1 [x1 [Hx1 A1]]].
    destruct info_reg2_largest_gain as [U2 [x2 [Hx2 A2]]].
    split.
    - intros H0.
      assert (si_reg1 (@info RNum g prof) = 0 /\ si_reg2 (@info RNum g prof) = 0) as [Z1 Z2].
      { pose proof (Rmax_l (si_reg1 (@info RNum g prof)) (si_reg2 (@info RNum g prof))).
        pose proof (Rmax_r (si_reg1 (@info RNum g prof)) (si_reg2 (@info RNum g prof))).
        split; lra. }
      split; intros tau Ht; [pose proof (U1 tau Ht)|pose proof (U2 tau Ht)]; lra.
    - intros [B1 B2].
      pose proof (B1 x1 (PureOf_StratOf _ _ _ Hx1)). pose proof (B2 x2 (PureOf_StratOf _ _ _ Hx2)).
      assert (si_reg1 (@info RNum g prof) = 0) as -> by lra.
      assert (si_reg2 (@info RNum g prof) = 0) as -> by lra.
      apply Rmax_left. lra.
  Qed.
End Info.

(** * Non-vacuity: matching pennies

    Player one picks a side, player two (one infoset holding both of its nodes) picks a
    side without seeing it; player one wins the stake [x] on a match and loses it
    otherwise.  The compact game is written by hand. *)
Definition mp_game (x : R) : game :=
  @mkGame RNum [] [mkPinfo 1%N [0%N; 1%N] None] [mkPinfo 2%N [0%N; 1%N] None] [] []
    (@Player RNum true 0 [@Player RNum false 0 [@Term RNum x; @Term RNum (- x)];
                           @Player RNum false 0 [@Term RNum (- x); @Term RNum x]]).

(** both players play their first action with probability one *)
Definition mp_prof : list R * list R := ([1; 0], [1; 0]).

Lemma mp_WFtables name : WFtables [mkPinfo name [0%N; 1%N] None] [].
Proof.
  split.
  - cbn. constructor; [intros []|constructor].
  - constructor; [|constructor]. cbn. split; [|lia].
    constructor; [intros [H|[]]; discriminate H|]. constructor; [intros []|constructor].
Qed.

Lemma mp_WFgame x : WFgame (mp_game x).
Proof.
  split; [|split; [|split; [|split]]].
  - cbn. repeat split; lia.
  - apply mp_WFtables.
  - apply mp_WFtables.
  - intros pl i h H. cbn in H.
    destruct H as [H|[H|[H|[]]]]; inversion H; subst; reflexivity.
  - intros pl i j a Hi Hp. destruct pl; cbn in Hi, Hp;
      (destruct i as [|i]; [discriminate Hp|lia]).
Qed.

Lemma mp_PerfectRecall x : PerfectRecall (mp_game x).
Proof.
  exists (fun _ _ => []). intros pl i h H. cbn in H.
  destruct H as [H|[H|[H|[]]]]; inversion H; subst; reflexivity.
Qed.

Lemma mp_ChanceOK x : ChanceOK (mp_game x).
Proof. constructor. Qed.

Lemma mp_VRow : VRow [1; 0].
Proof. split; [repeat constructor; lra|cbn; lra]. Qed.

Lemma mp_Valid x : Valid (mp_game x) mp_prof.
Proof.
  split; (split; [reflexivity|]); cbn; (constructor; [apply mp_VRow|constructor]).
Qed.

Lemma Rltb_0_1 : Rltb 0 1 = true.
Proof. apply Rltb_true. lra. Qed.
Lemma Rltb_0_0 : Rltb 0 0 = false.
Proof. apply Rltb_false. lra. Qed.

Lemma mp_info x :
  0 <= x ->
  si_util (@info RNum (mp_game x) mp_prof) = x /\
  si_reg1 (@info RNum (mp_game x) mp_prof) = 0 /\
  si_reg2 (@info RNum (mp_game x) mp_prof) = 2 * x.
Proof.
  intros Hx. unfold info, expected, br_value, mp_prof, mp_game.
  do 3 (cbn -[Rltb]; rewrite ?Rltb_0_1, ?Rltb_0_0).
  replace (0 + 1) with 1 by lra. replace (0 + 1 * 1) with 1 by lra.
  rewrite ?Rltb_0_1. unfold Rdiv. rewrite !Rinv_1. unfold Rmax.
  repeat split; repeat (destruct (Rle_dec _ _)); lra.
Qed.

Lemma mp_regret x : 0 <= x -> @si_regret RNum (@info RNum (mp_game x) mp_prof) = 2 * x.
Proof.
  intros Hx. destruct (mp_info x Hx) as (_ & H1 & H2).
  rewrite info_regret_def, H1, H2. apply Rmax_right. lra.
Qed.

(** with the stake [1/2] the pure profile has regret one (the loser gains [2 * 1/2] by
    switching sides); with the usual stake [1] it has regret two *)
Example matching_pennies_regret_one :
  WFgame (mp_game (1 / 2)) /\ PerfectRecall (mp_game (1 / 2)) /\ ChanceOK (mp_game (1 / 2)) /\
  Valid (mp_game (1 / 2)) mp_prof /\
  @si_regret RNum (@info RNum (mp_game (1 / 2)) mp_prof) = 1.
Proof.
  repeat split; try apply mp_WFgame; try apply mp_PerfectRecall; try apply mp_ChanceOK;
    try apply mp_Valid.
  rewrite mp_regret by lra. lra.
Qed.

Example matching_pennies_regret_two :
  WFgame (mp_game 1) /\ PerfectRecall (mp_game 1) /\ ChanceOK (mp_game 1) /\
  Valid (mp_game 1) mp_prof /\
  @si_regret RNum (@info RNum (mp_game 1) mp_prof) = 2.
Proof.
  repeat split; try apply mp_WFgame; try apply mp_PerfectRecall; try apply mp_ChanceOK;
    try apply mp_Valid.
  rewrite mp_regret by lra. lra.
Qed.

(** the theorems of this file apply to the example: the reported regret of player two is
    the gain of its best pure deviation *)
Example matching_pennies_reg2_gain :
  exists s, PureOf (mp_game 1) false s /\
            u_me (mp_game 1) false s (strat1 (mp_game 1) mp_prof)
            - u_me (mp_game 1) false (strat2 (mp_game 1) mp_prof) (strat1 (mp_game 1) mp_prof) = 2.
Proof.
  destruct (info_reg2_largest_gain (mp_game 1) mp_prof (mp_WFgame 1) (mp_PerfectRecall 1)
              (mp_ChanceOK 1) (mp_Valid 1)) as [_ (s & Hs & He)].
  exists s. split; [exact Hs|]. rewrite He.
  destruct (mp_info 1 ltac:(lra)) as (_ & _ & H2). rewrite H2. lra.
Qed.
