(** * GameWF: well-formedness and perfect recall of *compact* games — exactly what
    evaluation and solving assume, and what [from_root] guarantees (C11). *)
From Coq Require Import List NArith Bool Arith.
From Cfr.theories Require Import Num Tree.
Import ListNotations.

Section GameWF.
  Context {NN : Num}.
  Local Notation T := (T NN).
  Local Notation node := (@node NN).
  Local Notation game := (@game NN).

  (** induction principle for the nested inductive [node] *)
  Fixpoint node_ind' (P : node -> Prop)
           (HT : forall x, P (Term x))
           (HC : forall ci kids, Forall P kids -> P (Chance ci kids))
           (HP : forall pl i kids, Forall P kids -> P (Player pl i kids))
           (n : node) : P n :=
    match n with
    | Term x => HT x
    | Chance ci kids =>
        HC ci kids ((fix go (l : list node) : Forall P l :=
                       match l with
                       | [] => Forall_nil P
                       | k :: r => Forall_cons k (node_ind' P HT HC HP k) (go r)
                       end) kids)
    | Player pl i kids =>
        HP pl i kids ((fix go (l : list node) : Forall P l :=
                         match l with
                         | [] => Forall_nil P
                         | k :: r => Forall_cons k (node_ind' P HT HC HP k) (go r)
                         end) kids)
    end.

  (** every decision node of the tree with the own history of its player: the list of
      (infoset index, action index) pairs of that player on the path from the root *)
  Fixpoint hists (n : node) (h1 h2 : list (nat * nat)) : list (bool * nat * list (nat * nat)) :=
    match n with
    | Term _ => []
    | Chance _ kids =>
        (fix go (ks : list node) :=
           match ks with
           | [] => []
           | k :: r => hists k h1 h2 ++ go r
           end) kids
    | Player pl i kids =>
        (pl, i, if pl then h1 else h2) ::
        (fix go (ks : list node) (a : nat) :=
           match ks with
           | [] => []
           | k :: r =>
               hists k (if pl then h1 ++ [(i, a)] else h1) (if pl then h2 else h2 ++ [(i, a)])
               ++ go r (S a)
           end) kids O
    end.

  (** perfect recall (with actions): all nodes of an infoset have the same own history *)
  Definition PerfectRecall (g : game) : Prop :=
    exists H : bool -> nat -> list (nat * nat),
      forall pl i h, In (pl, i, h) (hists (g_root g) [] []) -> h = H pl i.

  (** shape: indices in range, arities match the tables *)
  Fixpoint shaped (g : game) (n : node) : Prop :=
    match n with
    | Term _ => True
    | Chance ci kids =>
        ci < length (g_chance g) /\ length kids = length (nth ci (g_chance g) []) /\
        2 <= length kids /\
        (fix go (ks : list node) : Prop :=
           match ks with [] => True | k :: r => shaped g k /\ go r end) kids
    | Player pl i kids =>
        i < length (g_infos g pl) /\
        length kids = length (pi_actions (nth i (g_infos g pl) (mkPinfo 0%N [] None))) /\
        2 <= length kids /\
        (fix go (ks : list node) : Prop :=
           match ks with [] => True | k :: r => shaped g k /\ go r end) kids
    end.

  (** names: infoset names of a player are pairwise different (multi- and single-action
      tables together), actions of an infoset are pairwise different *)
  Definition WFtables (infos : list pinfo) (singles : list (N * N)) : Prop :=
    NoDup (map pi_name infos ++ map fst singles) /\
    Forall (fun pi => NoDup (pi_actions pi) /\ 2 <= length (pi_actions pi)) infos.

  (** the recorded previous (infoset, action) of an infoset is the last step of its history *)
  Definition prev_consistent (g : game) : Prop :=
    forall pl i h, In (pl, i, h) (hists (g_root g) [] []) ->
                   pi_prev (nth i (g_infos g pl) (mkPinfo 0%N [] None)) = last (map Some h) None.

  (** every infoset of the tables occurs in the tree, in first-visit order:
      infoset [i]'s previous infoset has a smaller index *)
  Definition index_order (g : game) : Prop :=
    forall pl i j a, i < length (g_infos g pl) ->
                     pi_prev (nth i (g_infos g pl) (mkPinfo 0%N [] None)) = Some (j, a) -> j < i.

  Definition WFgame (g : game) : Prop :=
    shaped g (g_root g) /\
    WFtables (g_infos1 g) (g_singles1 g) /\ WFtables (g_infos2 g) (g_singles2 g) /\
    prev_consistent g /\ index_order g.
End GameWF.
