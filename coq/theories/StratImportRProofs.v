(** * StratImportRProofs: the import functions over the reals — what they return
    (success exactly when ..., the resulting profile, the error kinds), and the round
    trip [as_named] / [from_named] on valid profiles. *)
From Coq Require Import Reals List NArith Bool Arith Lia Lra.
From Cfr.theories Require Import Num RInst Tree Strat Valid TruncProofs
     StratIterProofs StratAgreeProofs StratImportProofs.
Import ListNotations.
Open Scope R_scope.

Local Notation pinfo := (@pinfo).

(** ** arithmetic side conditions over the reals *)
Lemma prob_ok_R (p : R) : @prob_ok RNum p = true <-> 0 <= p.
Proof.
  unfold prob_ok. cbn [leb is_fin RNum zero]. rewrite andb_true_r. apply Rleb_true.
Qed.

Lemma prob_ok_R_false (p : R) : @prob_ok RNum p = false <-> ~ 0 <= p.
Proof.
  rewrite <- prob_ok_R. destruct (@prob_ok RNum p); split; intros H; try reflexivity; try discriminate.
  exfalso; now apply H.
Qed.

Lemma Rsum_zero_all (l : list R) : Forall (fun x => 0 <= x) l -> Rsum l = 0 -> Forall (fun x => x = 0) l.
Proof.
  induction 1 as [|x l Hx Hl IH]; cbn [Rsum]; intros H; constructor.
  - pose proof (Rsum_nonneg l Hl). lra.
  - apply IH. pose proof (Rsum_nonneg l Hl). lra.
Qed.

Lemma Rsum_all_zero (l : list R) : Forall (fun x => x = 0) l -> Rsum l = 0.
Proof. induction 1 as [|x l Hx Hl IH]; cbn [Rsum]; lra. Qed.

Lemma Rsum_nonzero_pos (l : list R) :
  Forall (fun x => 0 <= x) l -> Rsum l <> 0 -> exists x, In x l /\ 0 < x.
Proof.
  induction 1 as [|x l Hx Hl IH]; cbn [Rsum]; intros H; [lra|].
  destruct (Rlt_dec 0 x) as [Hp|Hn].
  - exists x. split; [now left|assumption].
  - destruct IH as (y & Hy & Hpos); [lra|]. exists y. split; [now right|assumption].
Qed.

(** ** normalisation ([finish]) *)
Definition norm_row (row : list R) : list R := map (fun v => v / Rsum row) row.

Lemma norm_row_map {A} (f : A -> R) l :
  norm_row (map f l) = map (fun a => f a / Rsum (map f l)) l.
Proof. unfold norm_row. now rewrite map_map. Qed.

Lemma norm_row_valid (row : list R) : Rsum row = 1 -> norm_row row = row.
Proof.
  intros H. unfold norm_row. rewrite H. rewrite <- (map_id row) at 2. apply map_ext. intros v. field.
Qed.

Lemma finish_rows_spec (rows : list (list R)) :
  match @finish_rows RNum rows with
  | SOk d => Forall (fun row => Rsum row <> 0) rows /\ d = concat (map norm_row rows)
  | SErr e => e = UninitializedInfoset /\ exists row, In row rows /\ Rsum row = 0
  end.
Proof.
  induction rows as [|row rows IH]; cbn [finish_rows]; [split; [constructor|reflexivity]|].
  rewrite sum_Rsum. change (eqb RNum) with Reqb. change (zero RNum) with 0. change (div RNum) with Rdiv.
  destruct (Reqb (Rsum row) 0) eqn:E.
  - apply Reqb_true in E. split; [reflexivity|]. exists row. split; [now left|assumption].
  - apply Reqb_false in E. destruct (@finish_rows RNum rows) as [d|e].
    + destruct IH as [Hall ->]. split; [now constructor|].
      unfold finish_row. change (is_fin RNum (Rsum row)) with true. cbn iota. reflexivity.
    + destruct IH as [-> (r & Hr & Hz)]. split; [reflexivity|]. exists r. split; [now right|assumption].
Qed.

(** ** the import of one player, completely specified *)
Section Player.
  Context (infos : list pinfo) (singles : list (N * N)).
  Context (Hwf : WFnames_tables infos singles).

  Local Notation strat_t := (list (N * list (N * R))).

  (** the final weights of the actions of an infoset *)
  Definition final_row (strat : strat_t) (pi : pinfo) : list R :=
    map (@w_last RNum strat (pi_name pi)) (pi_actions pi).

  Definition UninitErr (strat : strat_t) : Prop :=
    (exists pi, In pi infos /\ Rsum (final_row strat pi) = 0) \/
    (exists e, In e singles /\ @mentioned RNum strat (fst e) = false).

  Lemma import_slow_spec (strat : strat_t) :
    match @import_slow_player RNum infos singles strat with
    | SOk dense =>
        Forall (@KnownItem RNum infos singles) strat /\ @ProbsOk RNum strat /\
        (forall pi, In pi infos -> Rsum (final_row strat pi) <> 0) /\
        (forall e, In e singles -> @mentioned RNum strat (fst e) = true) /\
        dense = concat (map (fun pi => norm_row (final_row strat pi)) infos)
    | SErr e =>
        match e with
        | UninitializedInfoset =>
            Forall (@KnownItem RNum infos singles) strat /\ @ProbsOk RNum strat /\ UninitErr strat
        | _ => @LoopErr RNum infos singles e strat
        end
    end.
  Proof.
    unfold import_slow_player. cbv zeta.
    change (map (fun pi : pinfo => length (pi_actions pi)) infos) with (map arity infos).
    rewrite <- (@rows_of_const RNum).
    replace (repeat false (length singles)) with (map (fun e : N * N => false) singles)
      by apply map_const_repeat.
    pose proof (@slow_loop_spec RNum infos singles Hwf strat (fun _ _ => zero RNum) (fun _ => false)) as H.
    cbv beta in H.
    destruct (@slow_loop RNum _ _ _ strat _ _) as [[d seen]|e].
    2:{ destruct e; try exact H. destruct H. }
    destruct H as (Hk & Hp & -> & ->).
    unfold finish.
    change (@rows_of RNum infos (fun I a => @w_from RNum (@triples RNum strat) I a (zero RNum)))
      with (map (final_row strat) infos).
    assert (Hlens : map arity infos = map (@length R) (map (final_row strat) infos)).
    { rewrite map_map. apply map_ext. intros pi. unfold final_row. now rewrite map_length. }
    rewrite Hlens, split_by_concat.
    pose proof (finish_rows_spec (map (final_row strat) infos)) as Hf.
    destruct (@finish_rows RNum (map (final_row strat) infos)) as [d|e].
    - destruct Hf as [Hall ->].
      destruct (forallb (fun b : bool => b) _) eqn:Eall.
      + repeat split; try assumption.
        * intros pi Hpi. rewrite Forall_forall in Hall. apply Hall. now apply in_map.
        * intros e He. rewrite forallb_forall in Eall.
          specialize (Eall _ (in_map (fun e => false || @mentioned RNum strat (fst e)) singles e He)).
          exact Eall.
        * now rewrite map_map.
      + repeat split; try assumption. right.
        assert (Hex : exists b, In b (map (fun e : N * N => false || @mentioned RNum strat (fst e)) singles)
                                /\ b = false).
        { clear -Eall. induction (map _ singles) as [|b l IH]; cbn [forallb] in Eall; [discriminate|].
          destruct b; cbn [andb] in Eall.
          - destruct (IH Eall) as (b & Hb & ->). exists false. split; [now right|reflexivity].
          - exists false. split; [now left|reflexivity]. }
        destruct Hex as (b & Hb & ->). apply in_map_iff in Hb as (e & He & Hin). exists e. now split.
    - destruct Hf as [-> (row & Hrow & Hz)]. repeat split; try assumption. left.
      apply in_map_iff in Hrow as (pi & <- & Hpi). exists pi. now split.
  Qed.

  (** ** the four rules, declaratively *)
  Definition Legal (strat : strat_t) : Prop := Forall (@KnownItem RNum infos singles) strat.
  Definition NonNeg (strat : strat_t) : Prop := Forall (fun t => 0 <= snd t) (@triples RNum strat).
  Definition SinglesCovered (strat : strat_t) : Prop :=
    forall e, In e singles -> exists t, In t (@triples RNum strat) /\ fst (fst t) = fst e.
  Definition MultiCovered (strat : strat_t) : Prop :=
    forall pi, In pi infos -> exists a, In a (pi_actions pi) /\ 0 < @w_last RNum strat (pi_name pi) a.

  Lemma ProbsOk_NonNeg (strat : strat_t) : @ProbsOk RNum strat <-> NonNeg strat.
  Proof.
    unfold ProbsOk, NonNeg. rewrite !Forall_forall. split.
    - intros H t Ht. apply (@in_triples RNum) in Ht as (it & e & Hit & He & ->). cbn [snd].
      specialize (H it Hit). rewrite Forall_forall in H. apply prob_ok_R. now apply H.
    - intros H it Hit. apply Forall_forall. intros e He. apply prob_ok_R.
      apply (H (fst it, fst e, snd e)). apply (@in_triples RNum). now exists it, e.
  Qed.

  Lemma mentioned_true (strat : strat_t) k :
    @mentioned RNum strat k = true <-> exists t, In t (@triples RNum strat) /\ fst (fst t) = k.
  Proof.
    unfold mentioned. rewrite existsb_exists. split; intros (t & Ht & Hk); exists t; (split; [assumption|]);
      now apply N.eqb_eq.
  Qed.

  Lemma w_last_nonneg (strat : strat_t) I a : NonNeg strat -> 0 <= @w_last RNum strat I a.
  Proof.
    intros H. unfold w_last. destruct (@w_from_cases RNum (@triples RNum strat) I a (zero RNum)) as [->|(t & Ht & _ & ->)].
    - cbn. lra.
    - unfold NonNeg in H. rewrite Forall_forall in H. now apply H.
  Qed.

  Lemma final_row_nonneg (strat : strat_t) pi : NonNeg strat -> Forall (fun x => 0 <= x) (final_row strat pi).
  Proof.
    intros H. unfold final_row. apply Forall_forall. intros x Hx. apply in_map_iff in Hx as (a & <- & _).
    now apply w_last_nonneg.
  Qed.

  Lemma total_nonzero_iff (strat : strat_t) pi : NonNeg strat ->
    (Rsum (final_row strat pi) <> 0 <->
     exists a, In a (pi_actions pi) /\ 0 < @w_last RNum strat (pi_name pi) a).
  Proof.
    intros Hnn. pose proof (final_row_nonneg strat pi Hnn) as Hrow. split.
    - intros H. destruct (Rsum_nonzero_pos _ Hrow H) as (x & Hx & Hpos).
      unfold final_row in Hx. apply in_map_iff in Hx as (a & <- & Ha). now exists a.
    - intros (a & Ha & Hpos).
      assert (Hin : In (@w_last RNum strat (pi_name pi) a) (final_row strat pi)).
      { unfold final_row. apply in_map_iff. now exists a. }
      pose proof (Rsum_ge_In _ _ Hrow Hin). lra.
  Qed.

  (** uniqueness of table entries *)
  Lemma NoDup_map_inj_in {A} (key : A -> N) l x y :
    NoDup (map key l) -> In x l -> In y l -> key x = key y -> x = y.
  Proof.
    induction l as [|z l IH]; intros Hnd Hx Hy Hk; [destruct Hx|].
    cbn [map] in Hnd. apply NoDup_cons_iff in Hnd as [Hz Hl].
    destruct Hx as [->|Hx], Hy as [->|Hy]; try reflexivity.
    - exfalso. apply Hz. rewrite Hk. now apply in_map.
    - exfalso. apply Hz. rewrite <- Hk. now apply in_map.
    - now apply IH.
  Qed.

  Lemma Legal_not_LoopErr (strat : strat_t) e :
    Legal strat -> NonNeg strat -> e <> UninitializedInfoset -> ~ @LoopErr RNum infos singles e strat.
  Proof.
    intros Hl Hnn Hne Herr. destruct (WFtables_names _ _ Hwf) as [Hn Hs].
    unfold Legal in Hl. rewrite Forall_forall in Hl.
    destruct e; cbn [LoopErr] in Herr; [| | |now apply Hne].
    - destruct Herr as (it & Hit & H1 & H2). destruct (Hl it Hit) as [(pi & Hpi & Hname & _)|(act & Hact & _)].
      + apply H1. rewrite <- Hname. now apply in_map.
      + apply H2. change (fst it) with (fst (fst it, act)). now apply in_map.
    - destruct Herr as (it & e & Hit & He & Hbad).
      destruct (Hl it Hit) as [(pi & Hpi & Hname & Hall)|(act & Hact & Hall)]; rewrite Forall_forall in Hall;
        destruct Hbad as [(pi' & Hpi' & Hname' & Hbad)|(act' & Hact' & Hbad)].
      + assert (pi = pi') by (apply (NoDup_map_inj_in pi_name infos); congruence). subst pi'.
        apply Hbad. now apply Hall.
      + apply (name_not_single infos singles Hwf pi (fst it, act') Hpi Hact'). exact Hname.
      + apply (name_not_single infos singles Hwf pi' (fst it, act) Hpi' Hact). exact Hname'.
      + assert (Heq : (fst it, act) = (fst it, act')) by (apply (NoDup_map_inj_in fst singles); auto).
        inversion Heq; subst act'. apply Hbad. now apply Hall.
    - destruct Herr as (it & e & Hit & He & Hbad). apply prob_ok_R_false in Hbad. apply Hbad.
      unfold NonNeg in Hnn. rewrite Forall_forall in Hnn.
      apply (Hnn (fst it, fst e, snd e)). apply (@in_triples RNum). now exists it, e.
  Qed.

  (** C14.3: success exactly when the four rules hold *)
  Lemma import_ok_iff (strat : strat_t) :
    (exists dense, @import_slow_player RNum infos singles strat = SOk dense) <->
    Legal strat /\ NonNeg strat /\ SinglesCovered strat /\ MultiCovered strat.
  Proof.
    pose proof (import_slow_spec strat) as H. split.
    - intros (dense & E). rewrite E in H. destruct H as (Hk & Hp & Ht & Hm & _).
      apply ProbsOk_NonNeg in Hp. repeat split; try assumption.
      + intros e He. apply mentioned_true. now apply Hm.
      + intros pi Hpi. apply total_nonzero_iff; [assumption|now apply Ht].
    - intros (Hl & Hnn & Hsc & Hmc).
      destruct (@import_slow_player RNum infos singles strat) as [dense|e]; [now exists dense|exfalso].
      destruct e; try (refine (Legal_not_LoopErr strat _ Hl Hnn _ H); discriminate).
      destruct H as (_ & _ & H'). destruct H' as [(pi & Hpi & Hz)|(e & He & Hm)].
      + apply (total_nonzero_iff strat pi Hnn) in Hz; [assumption|]. now apply Hmc.
      + destruct (Hsc e He) as (t & Ht & Hk).
        assert (@mentioned RNum strat (fst e) = true) by (apply mentioned_true; now exists t). congruence.
  Qed.

  (** C14.2: the resulting profile *)
  Lemma import_result (strat : strat_t) dense :
    @import_slow_player RNum infos singles strat = SOk dense ->
    dense = concat (map (fun pi => norm_row (final_row strat pi)) infos) /\
    split_by dense (map arity infos) = map (fun pi => norm_row (final_row strat pi)) infos.
  Proof.
    intros E. pose proof (import_slow_spec strat) as H. rewrite E in H. destruct H as (_ & _ & _ & _ & ->).
    split; [reflexivity|].
    replace (map arity infos) with (map (@length R) (map (fun pi => norm_row (final_row strat pi)) infos)).
    - apply split_by_concat.
    - rewrite map_map. apply map_ext. intros pi. unfold norm_row, final_row. now rewrite !map_length.
  Qed.

  (** the result is a valid flat profile: every row a distribution *)
  Lemma length_concat_nsum {A} (rows : list (list A)) :
    length (concat rows) = nsum (map (@length A) rows).
  Proof.
    induction rows as [|r rows IH]; [reflexivity|].
    cbn [concat map nsum fold_right]. fold (nsum (map (@length A) rows)). now rewrite app_length, IH.
  Qed.

  Lemma norm_row_VRow (row : list R) :
    Forall (fun x => 0 <= x) row -> Rsum row <> 0 -> VRow (norm_row row).
  Proof.
    intros Hnn Hs. pose proof (Rsum_nonneg row Hnn) as Hge. unfold norm_row. split.
    - apply Forall_forall. intros y Hy. apply in_map_iff in Hy as (x & <- & Hx).
      rewrite Forall_forall in Hnn. specialize (Hnn x Hx).
      apply Rmult_le_pos; [assumption|]. apply Rlt_le, Rinv_0_lt_compat. lra.
    - rewrite Rsum_map_div. now field.
  Qed.

  Lemma import_result_valid (strat : strat_t) dense :
    @import_slow_player RNum infos singles strat = SOk dense -> VFlat (map arity infos) dense.
  Proof.
    intros E. pose proof (import_slow_spec strat) as H. rewrite E in H.
    destruct H as (_ & Hp & Ht & _ & ->). apply ProbsOk_NonNeg in Hp.
    assert (Hl : map (@length R) (map (fun pi => norm_row (final_row strat pi)) infos) = map arity infos).
    { rewrite map_map. apply map_ext. intros pi. unfold norm_row, final_row. now rewrite !map_length. }
    split.
    - rewrite <- Hl. apply length_concat_nsum.
    - rewrite <- Hl, split_by_concat. apply Forall_forall. intros row Hrow.
      apply in_map_iff in Hrow as (pi & <- & Hpi). apply norm_row_VRow; [now apply final_row_nonneg|now apply Ht].
  Qed.

  (** C14.4: every error kind names a rule that the input really violates *)
  Definition ErrViolation (e : serr) (strat : strat_t) : Prop :=
    match e with
    | InvalidInfoset => @BadInfoset RNum infos singles strat
    | InvalidAction => @BadAction RNum infos singles strat
    | InvalidProbability => exists t, In t (@triples RNum strat) /\ ~ 0 <= snd t
    | UninitializedInfoset =>
        (exists pi, In pi infos /\
                    forall a, In a (pi_actions pi) -> @w_last RNum strat (pi_name pi) a = 0) \/
        (exists e, In e singles /\ forall t, In t (@triples RNum strat) -> fst (fst t) <> fst e)
    end.

  Lemma import_err_kind (strat : strat_t) e :
    @import_slow_player RNum infos singles strat = SErr e -> ErrViolation e strat.
  Proof.
    intros E. pose proof (import_slow_spec strat) as H. rewrite E in H.
    destruct e; cbn [ErrViolation LoopErr] in *; try exact H.
    - destruct H as (it & e & Hit & He & Hbad). exists (fst it, fst e, snd e). split.
      + apply (@in_triples RNum). now exists it, e.
      + cbn [snd]. now apply prob_ok_R_false.
    - destruct H as (_ & Hp & H'). destruct H' as [(pi & Hpi & Hz)|(e & He & Hm)].
      + left. exists pi. split; [assumption|]. intros a Ha. apply ProbsOk_NonNeg in Hp.
        pose proof (Rsum_zero_all _ (final_row_nonneg strat pi Hp) Hz) as Hall.
        rewrite Forall_forall in Hall. apply Hall. unfold final_row. apply in_map_iff. now exists a.
      + right. exists e. split; [assumption|]. intros t Ht Hk.
        assert (@mentioned RNum strat (fst e) = true) by (apply mentioned_true; now exists t). congruence.
  Qed.
End Player.

(** ** the round trip through the named view *)
Section RoundTrip.
  Local Notation multi_item := (@multi_item RNum).
  Local Notation single_item := (@single_item RNum).
  Local Notation posb := (@posb RNum).

  Lemma posb_R (e : N * R) : posb e = true <-> 0 < snd e.
  Proof. unfold StratIterProofs.posb. cbn [ltb zero RNum]. apply Rltb_true. Qed.

  Lemma VFlat_cons a ars (flat : list R) :
    VFlat (a :: ars) flat ->
    length (firstn a flat) = a /\ VRow (firstn a flat) /\ VFlat ars (skipn a flat).
  Proof.
    intros [Hlen Hall]. cbn [split_by] in Hall. apply Forall_cons_iff in Hall as [Hrow Hrest].
    cbn [nsum fold_right] in Hlen. fold (nsum ars) in Hlen.
    split; [rewrite firstn_length; lia|]. split; [assumption|].
    split; [rewrite skipn_length; lia|assumption].
  Qed.

  Lemma snd_filter_combine (acts : list N) : forall (row : list R),
    length row = length acts ->
    map snd (filter posb (combine acts row)) = filter (fun p => Rltb 0 p) row.
  Proof.
    induction acts as [|b acts IH]; intros [|p row] Hlen; cbn [length] in Hlen; try lia; [reflexivity|].
    cbn [combine filter]. unfold StratIterProofs.posb at 1. cbn [snd ltb zero RNum].
    destruct (Rltb 0 p); cbn [map snd]; rewrite IH by lia; reflexivity.
  Qed.

  (** every item of the view of a valid profile is a distribution of positive numbers *)
  Definition ItemValid (it : N * list (N * R)) : Prop :=
    Forall (fun e => 0 < snd e) (snd it) /\ Rsum (map snd (snd it)) = 1.

  Lemma multi_item_valid pi (row : list R) :
    length row = arity pi -> VRow row -> ItemValid (multi_item (pi, row)).
  Proof.
    intros Hlen [Hnn Hsum]. unfold ItemValid, StratIterProofs.multi_item; cbn [fst snd]. split.
    - apply Forall_forall. intros e He. apply filter_In in He as [_ He]. now apply posb_R.
    - rewrite snd_filter_combine by assumption. rewrite Rsum_filter_pos_all; try assumption.
      intros x _ Hx. now apply Rltb_true.
  Qed.

  Lemma single_item_valid e : ItemValid (single_item e).
  Proof.
    unfold ItemValid, StratIterProofs.single_item; cbn [fst snd map Rsum one RNum]. split; [|lra].
    constructor; [cbn [snd]; lra|constructor].
  Qed.

  Lemma multi_items_valid infos : forall (flat : list R),
    VFlat (map arity infos) flat ->
    Forall ItemValid (map multi_item (combine infos (split_by flat (map arity infos)))).
  Proof.
    induction infos as [|pi r IH]; intros flat H; cbn [map split_by combine]; [constructor|].
    apply VFlat_cons in H as (Hlen & Hrow & Hrest). constructor; [|now apply IH].
    now apply multi_item_valid.
  Qed.

  Lemma named_valid infos singles (flat : list R) :
    VFlat (map arity infos) flat ->
    Forall ItemValid (@nsi_items RNum (@mkNsi RNum infos flat singles)).
  Proof.
    intros H. unfold nsi_items; cbn [ns_info ns_probs ns_singles]. apply Forall_app. split.
    - now apply multi_items_valid.
    - apply Forall_forall. intros it Hit. apply in_map_iff in Hit as (e & <- & _). apply single_item_valid.
  Qed.

  (** *** the final weights of the view are the profile itself *)
  Lemma nohit_filter name b (r : list N) (row : list R) t :
    ~ In b r -> In t (@tr RNum name (filter posb (combine r row))) -> @hits RNum name b t = false.
  Proof.
    intros Hb Ht. unfold tr in Ht. apply in_map_iff in Ht as (e & <- & He).
    apply filter_In in He as [He _]. destruct e as [a p]. apply in_combine_l in He.
    unfold hits; cbn [fst snd]. rewrite N.eqb_refl. cbn [andb]. apply N.eqb_neq. intros ->. contradiction.
  Qed.

  Lemma triples_cons_item it rest :
    @triples RNum (it :: rest) = @tr RNum (fst it) (snd it) ++ @triples RNum rest.
  Proof. reflexivity. Qed.

  Lemma w_from_cons t ts I a (d : R) :
    @w_from RNum (t :: ts) I a d = @w_from RNum ts I a (if @hits RNum I a t then snd t else d).
  Proof. reflexivity. Qed.

  Lemma hits_same I a (p : R) : @hits RNum I a (I, a, p) = true.
  Proof. unfold hits; cbn [fst snd]. now rewrite !N.eqb_refl. Qed.

  Lemma hits_other_action I a b (p : R) : b <> a -> @hits RNum I a (I, b, p) = false.
  Proof. intros H. unfold hits; cbn [fst snd]. apply N.eqb_neq in H. now rewrite H, andb_false_r. Qed.

  Lemma w_last_row name (acts : list N) : NoDup acts -> forall (row : list R),
    length row = length acts -> Forall (fun x => 0 <= x) row ->
    map (fun a => @w_from RNum (tr name (filter posb (combine acts row))) name a 0) acts = row.
  Proof.
    induction 1 as [|b r Hb Hr IH]; intros [|p row] Hlen Hnn; cbn [length] in Hlen; try lia; [reflexivity|].
    apply Forall_cons_iff in Hnn as [Hp Hnn]. cbn [combine filter map].
    destruct (posb (b, p)) eqn:Epos.
    - cbn [tr map fst snd]. fold (@tr RNum name (filter posb (combine r row))). f_equal.
      + rewrite w_from_cons, hits_same. cbn [snd].
        apply w_from_nohit. intros t Ht. eapply nohit_filter; eassumption.
      + etransitivity; [|apply (IH row); [lia|assumption]]. apply map_ext_in. intros a Ha.
        rewrite w_from_cons, hits_other_action; [reflexivity|]. intros ->; contradiction.
    - f_equal.
      + rewrite w_from_nohit by (intros t Ht; eapply nohit_filter; eassumption).
        assert (Hnp : ~ 0 < p).
        { intros C. apply (posb_R (b, p)) in C. congruence. }
        lra.
      + apply IH; [lia|assumption].
  Qed.

  Lemma final_rows_multi infos :
    NoDup (map pi_name infos) -> Forall (fun pi => NoDup (pi_actions pi)) infos ->
    forall (flat : list R), VFlat (map arity infos) flat ->
      @rows_of RNum infos
        (fun I a => w_from (triples (map multi_item (combine infos (split_by flat (map arity infos))))) I a 0)
      = split_by flat (map arity infos).
  Proof.
    induction infos as [|pi r IH]; intros Hnd Hacts flat Hv; [reflexivity|].
    cbn [map] in Hnd. apply NoDup_cons_iff in Hnd as [Hpi Hnd].
    apply Forall_cons_iff in Hacts as [Hapi Hacts].
    apply VFlat_cons in Hv as (Hlen & [Hnn Hsum] & Hrest).
    cbn [map split_by combine rows_of]. fold (@rows_of RNum r). rewrite triples_cons_item. f_equal.
    - cbn [fst snd StratIterProofs.multi_item].
      etransitivity; [|apply (w_last_row (pi_name pi) (pi_actions pi) Hapi (firstn (arity pi) flat)); assumption].
      apply map_ext. intros a. rewrite w_from_app. apply w_from_nohit.
      intros t Ht. apply (@in_triples RNum) in Ht as (it & e & Hit & He & ->).
      apply in_map_iff in Hit as ([pi' row'] & <- & Hin). apply in_combine_l in Hin.
      unfold hits; cbn [fst snd StratIterProofs.multi_item].
      assert (N.eqb (pi_name pi') (pi_name pi) = false) as ->; [|reflexivity].
      apply N.eqb_neq. intros Heq. apply Hpi. rewrite <- Heq. now apply in_map.
    - etransitivity; [|apply (IH Hnd Hacts (skipn (arity pi) flat) Hrest)]. unfold rows_of.
      apply map_ext_in. intros pi' Hpi'. apply map_ext. intros a. rewrite w_from_app. f_equal. apply w_from_nohit.
      intros t Ht. eapply hits_tr_other; [exact Ht|]. cbn [fst StratIterProofs.multi_item].
      intros Heq. apply Hpi. rewrite Heq. now apply in_map.
  Qed.

  Section OnePlayer.
    Context (infos : list pinfo) (singles : list (N * N)) (flat : list R).
    Context (Hwf : WFnames_tables infos singles) (Hv : VFlat (map arity infos) flat).

    Let view := @nsi_items RNum (@mkNsi RNum infos flat singles).
    Let rows := split_by flat (map arity infos).

    Lemma view_eq :
      view = map multi_item (combine infos rows) ++ map single_item singles.
    Proof. reflexivity. Qed.

    Lemma final_rows_view : map (final_row view) infos = rows.
    Proof.
      destruct (WFtables_names _ _ Hwf) as [Hn Hs]. pose proof (WFtables_actions _ _ Hwf) as Ha.
      unfold rows. rewrite <- (final_rows_multi infos Hn Ha flat Hv).
      unfold final_row, rows_of. apply map_ext_in. intros pi Hpi. apply map_ext. intros a.
      unfold w_last. rewrite view_eq, triples_app, w_from_app. apply w_from_nohit.
      intros t Ht. apply (@in_triples RNum) in Ht as (it & e & Hit & He & ->).
      apply in_map_iff in Hit as (s & <- & Hs'). unfold hits; cbn [fst snd StratIterProofs.single_item].
      assert (N.eqb (fst s) (pi_name pi) = false) as ->; [|reflexivity].
      apply N.eqb_neq. intros Heq. apply (name_not_single infos singles Hwf pi s Hpi Hs'). now symmetry.
    Qed.

    Lemma rows_valid : Forall VRow rows.
    Proof. exact (proj2 Hv). Qed.

    Lemma view_valid : Forall ItemValid view.
    Proof. now apply named_valid. Qed.

    Lemma view_legal : Legal infos singles view.
    Proof.
      unfold Legal. rewrite view_eq. apply Forall_app. split; apply Forall_forall; intros it Hit.
      - apply in_map_iff in Hit as ([pi row] & <- & Hin). left. exists pi.
        cbn [fst snd StratIterProofs.multi_item]. split; [eapply in_combine_l; eassumption|].
        split; [reflexivity|]. apply Forall_forall. intros [a p] He. apply filter_In in He as [He _].
        cbn [fst]. eapply in_combine_l; eassumption.
      - apply in_map_iff in Hit as (e & <- & He). right. exists (snd e).
        cbn [fst snd StratIterProofs.single_item]. split; [now rewrite <- surjective_pairing|].
        constructor; [reflexivity|constructor].
    Qed.

    Lemma view_nonneg : NonNeg view.
    Proof.
      unfold NonNeg. apply Forall_forall. intros t Ht. apply (@in_triples RNum) in Ht as (it & e & Hit & He & ->).
      pose proof view_valid as H. rewrite Forall_forall in H. destruct (H it Hit) as [Hpos _].
      rewrite Forall_forall in Hpos. specialize (Hpos e He). cbn [snd]. apply Rlt_le. exact Hpos.
    Qed.

    Lemma view_singles : SinglesCovered singles view.
    Proof.
      intros e He. exists (fst e, snd e, 1). split; [|reflexivity].
      apply (@in_triples RNum). exists (single_item e), (snd e, 1). repeat split.
      - rewrite view_eq. apply in_or_app. right. now apply in_map.
      - now left.
    Qed.

    Lemma view_multi : MultiCovered infos view.
    Proof.
      intros pi Hpi. apply (total_nonzero_iff view pi view_nonneg).
      assert (Hin : In (final_row view pi) rows).
      { rewrite <- final_rows_view. now apply in_map. }
      pose proof rows_valid as H. rewrite Forall_forall in H. destruct (H _ Hin) as [_ Hs]. lra.
    Qed.

    Lemma roundtrip_slow_player : @import_slow_player RNum infos singles view = SOk flat.
    Proof.
      destruct (proj2 (import_ok_iff infos singles Hwf view)) as (dense & E).
      { split; [exact view_legal|]. split; [exact view_nonneg|]. split; [exact view_singles|exact view_multi]. }
      rewrite E. f_equal. destruct (import_result infos singles Hwf view dense E) as [-> _].
      rewrite <- map_map with (f := final_row view) (g := norm_row). rewrite final_rows_view.
      replace (map norm_row rows) with rows.
      - apply concat_split_by. exact (proj1 Hv).
      - rewrite <- (map_id rows) at 1. apply map_ext_in. intros row Hrow. symmetry. apply norm_row_valid.
        pose proof rows_valid as H. rewrite Forall_forall in H. exact (proj2 (H row Hrow)).
    Qed.
  End OnePlayer.

  Lemma as_named_view (g : @game RNum) pl (flat : list R) :
    @as_named RNum g pl flat = @nsi_items RNum (@mkNsi RNum (g_infos g pl) flat (g_singles g pl)).
  Proof. unfold as_named. rewrite nsi_drain_items by lia. reflexivity. Qed.

  Lemma as_named_valid (g : @game RNum) (prof : list R * list R) :
    Valid g prof -> forall pl,
      Forall ItemValid (@as_named RNum g pl (if pl then fst prof else snd prof)).
  Proof.
    intros [V1 V2] pl. rewrite as_named_view. destruct pl; now apply named_valid.
  Qed.

  Lemma as_named_nodup (g : @game RNum) pl (flat : list R) :
    WFnames g -> NoDup (map fst (@as_named RNum g pl flat)).
  Proof. intros [W1 W2]. rewrite as_named_names. destruct pl; [apply W1|apply W2]. Qed.

  Lemma roundtrip_slow (g : @game RNum) (prof : list R * list R) :
    WFnames g -> Valid g prof ->
    @import_slow RNum g (as_named g true (fst prof), as_named g false (snd prof)) = SOk prof.
  Proof.
    intros [W1 W2] [V1 V2]. unfold import_slow, import2. cbn [fst snd].
    rewrite !as_named_view. cbn [g_infos g_singles].
    rewrite (roundtrip_slow_player (g_infos1 g) (g_singles1 g) (fst prof) W1 V1).
    rewrite (roundtrip_slow_player (g_infos2 g) (g_singles2 g) (snd prof) W2 V2).
    now destruct prof.
  Qed.

  Lemma roundtrip_fast (g : @game RNum) (prof : list R * list R) :
    WFnames g -> Valid g prof ->
    @import_fast RNum g (as_named g true (fst prof), as_named g false (snd prof)) = SOk prof.
  Proof. intros W V. rewrite paths_agree by assumption. now apply roundtrip_slow. Qed.
End RoundTrip.

(** ** The statements in expanded, definition-free form (for [Properties/C14.v]) *)
Section Expanded.
  Context (infos : list pinfo) (singles : list (N * N)).
  Context (Hwf : WFnames_tables infos singles).
  Local Notation strat_t := (list (N * list (N * R))).

  (** either import function *)
  Definition is_import (imp : list pinfo -> list (N * N) -> strat_t -> sres (list R)) : Prop :=
    imp = @import_fast_player RNum \/ imp = @import_slow_player RNum.

  Lemma is_import_slow imp (strat : strat_t) :
    is_import imp -> imp infos singles strat = @import_slow_player RNum infos singles strat.
  Proof. intros [->| ->]; [now apply (@players_agree RNum)|reflexivity]. Qed.

  Definition LegalX (strat : strat_t) : Prop :=
    forall name es, In (name, es) strat ->
      (exists pi, In pi infos /\ pi_name pi = name /\ forall a w, In (a, w) es -> In a (pi_actions pi)) \/
      (exists act, In (name, act) singles /\ forall a w, In (a, w) es -> a = act).

  Definition NonNegX (strat : strat_t) : Prop :=
    forall name es a w, In (name, es) strat -> In (a, w) es -> 0 <= w.

  Definition SinglesCoveredX (strat : strat_t) : Prop :=
    forall i act, In (i, act) singles -> exists es a w, In (i, es) strat /\ In (a, w) es.

  Lemma Legal_X (strat : strat_t) : Legal infos singles strat <-> LegalX strat.
  Proof.
    unfold Legal, LegalX. rewrite Forall_forall. split.
    - intros H name es Hin. destruct (H _ Hin) as [(pi & Hpi & Hn & Hall)|(act & Hact & Hall)];
        cbn [fst snd] in *; rewrite Forall_forall in Hall; [left; exists pi|right; exists act];
        repeat split; try assumption; intros a w Haw; apply (Hall (a, w) Haw).
    - intros H [name es] Hin. destruct (H _ _ Hin) as [(pi & Hpi & Hn & Hall)|(act & Hact & Hall)];
        [left; exists pi|right; exists act]; cbn [fst snd]; repeat split; try assumption;
        apply Forall_forall; intros [a w] Haw; cbn [fst]; eapply Hall; eassumption.
  Qed.

  Lemma NonNeg_X (strat : strat_t) : NonNeg strat <-> NonNegX strat.
  Proof.
    unfold NonNeg, NonNegX. rewrite Forall_forall. split.
    - intros H name es a w Hin Haw. apply (H (name, a, w)). apply (@in_triples RNum).
      now exists (name, es), (a, w).
    - intros H t Ht. apply (@in_triples RNum) in Ht as ([name es] & [a w] & Hit & He & ->). cbn [fst snd] in *.
      eapply H; eassumption.
  Qed.

  Lemma SinglesCovered_X (strat : strat_t) : SinglesCovered singles strat <-> SinglesCoveredX strat.
  Proof.
    unfold SinglesCovered, SinglesCoveredX. split.
    - intros H i act Hin. destruct (H _ Hin) as (t & Ht & Hk). cbn [fst] in Hk.
      apply (@in_triples RNum) in Ht as ([name es] & [a w] & Hit & He & ->). cbn [fst snd] in *. subst name.
      now exists es, a, w.
    - intros H [i act] Hin. destruct (H _ _ Hin) as (es & a & w & Hit & He). exists (i, a, w).
      split; [|reflexivity]. apply (@in_triples RNum). now exists (i, es), (a, w).
  Qed.

  Lemma import_ok_iff_X imp (strat : strat_t) : is_import imp ->
    ((exists dense, imp infos singles strat = SOk dense) <->
     LegalX strat /\ NonNegX strat /\ SinglesCoveredX strat /\ MultiCovered infos strat).
  Proof.
    intros Hi. rewrite (is_import_slow imp strat Hi), (import_ok_iff infos singles Hwf strat).
    now rewrite Legal_X, NonNeg_X, SinglesCovered_X.
  Qed.

  Lemma import_result_X imp (strat : strat_t) dense : is_import imp ->
    imp infos singles strat = SOk dense ->
    let row pi :=
      map (fun a => @w_last RNum strat (pi_name pi) a /
                    Rsum (map (@w_last RNum strat (pi_name pi)) (pi_actions pi))) (pi_actions pi) in
    dense = concat (map row infos) /\
    split_by dense (map (fun pi => length (pi_actions pi)) infos) = map row infos.
  Proof.
    intros Hi E. rewrite (is_import_slow imp strat Hi) in E.
    destruct (import_result infos singles Hwf strat dense E) as [H1 H2]. cbv zeta.
    assert (Hrow : forall pi, norm_row (final_row strat pi) =
      map (fun a => @w_last RNum strat (pi_name pi) a /
                    Rsum (map (@w_last RNum strat (pi_name pi)) (pi_actions pi))) (pi_actions pi)).
    { intros pi. unfold final_row. apply norm_row_map. }
    rewrite (map_ext _ _ Hrow) in H1, H2. split; assumption.
  Qed.

  Lemma import_result_valid_X imp (strat : strat_t) dense : is_import imp ->
    imp infos singles strat = SOk dense ->
    VFlat (map (fun pi => length (pi_actions pi)) infos) dense.
  Proof.
    intros Hi E. rewrite (is_import_slow imp strat Hi) in E.
    exact (import_result_valid infos singles Hwf strat dense E).
  Qed.

  Definition ErrViolationX (e : serr) (strat : strat_t) : Prop :=
    match e with
    | InvalidInfoset =>
        exists name es, In (name, es) strat /\
                        ~ In name (map pi_name infos) /\ ~ In name (map fst singles)
    | InvalidAction =>
        exists name es a w, In (name, es) strat /\ In (a, w) es /\
          ((exists pi, In pi infos /\ pi_name pi = name /\ ~ In a (pi_actions pi)) \/
           (exists act, In (name, act) singles /\ a <> act))
    | InvalidProbability =>
        exists name es a w, In (name, es) strat /\ In (a, w) es /\ ~ 0 <= w
    | UninitializedInfoset =>
        (exists pi, In pi infos /\
                    forall a, In a (pi_actions pi) -> @w_last RNum strat (pi_name pi) a = 0) \/
        (exists i act, In (i, act) singles /\ forall es a w, In (i, es) strat -> ~ In (a, w) es)
    end.

  Lemma import_err_kind_X imp (strat : strat_t) e : is_import imp ->
    imp infos singles strat = SErr e -> ErrViolationX e strat.
  Proof.
    intros Hi E. rewrite (is_import_slow imp strat Hi) in E.
    pose proof (import_err_kind infos singles Hwf strat e E) as H.
    destruct e; cbn [ErrViolation ErrViolationX] in *.
    - destruct H as ([name es] & Hit & H1 & H2). now exists name, es.
    - destruct H as ([name es] & [a w] & Hit & He & Hbad). now exists name, es, a, w.
    - destruct H as (t & Ht & Hneg). apply (@in_triples RNum) in Ht as ([name es] & [a w] & Hit & He & ->).
      now exists name, es, a, w.
    - destruct H as [H|([i act] & He & Hno)]; [now left|right]. exists i, act. split; [assumption|].
      intros es a w Hit Haw. apply (Hno (i, a, w)); [|reflexivity].
      apply (@in_triples RNum). now exists (i, es), (a, w).
  Qed.

  (** [w_last] is the weight of the last entry for [(I, a)] *)
  Lemma w_last_find (strat : strat_t) I a :
    @w_last RNum strat I a =
    match find (@hits RNum I a) (rev (@triples RNum strat)) with Some t => snd t | None => 0 end.
  Proof. unfold w_last. apply (@w_from_find RNum). Qed.

  Lemma w_last_none (strat : strat_t) I a :
    (forall es w, In (I, es) strat -> ~ In (a, w) es) -> @w_last RNum strat I a = 0.
  Proof.
    intros H. unfold w_last. apply (@w_from_nohit RNum). intros t Ht.
    apply (@in_triples RNum) in Ht as ([name es] & [b w] & Hit & He & ->). unfold hits; cbn [fst snd] in *.
    destruct (N.eqb name I) eqn:E1; [|reflexivity]. destruct (N.eqb b a) eqn:E2; [|reflexivity].
    apply N.eqb_eq in E1, E2. subst. exfalso. eapply H; eassumption.
  Qed.

  Lemma w_last_last (strat : strat_t) I a w pre post :
    @triples RNum strat = pre ++ (I, a, w) :: post ->
    (forall t, In t post -> fst t <> (I, a)) -> @w_last RNum strat I a = w.
  Proof.
    intros E H. unfold w_last. rewrite E, w_from_app, w_from_cons, hits_same. cbn [snd].
    apply (@w_from_nohit RNum). intros [[J b] v] Ht. specialize (H _ Ht). cbn [fst] in H.
    unfold hits; cbn [fst snd]. destruct (N.eqb J I) eqn:E1; [|reflexivity].
    destruct (N.eqb b a) eqn:E2; [|reflexivity]. apply N.eqb_eq in E1, E2. subst. now exfalso.
  Qed.
End Expanded.
