(** * CfMass: the counterfactual reaches of the nodes of one infoset sum to at most 1
    (perfect recall), values lie in the payoff range, hence every per-iteration
    regret increment [cfr_inc] is bounded by the payoff range. *)
From Coq Require Import Reals List Lra Lia Bool Arith NArith.
From Cfr.theories Require Import Num RInst Tree GameWF Strat Eval Solve Valid TruncProofs
     SolveValidProofs Incr IterChar.
Import ListNotations.
Open Scope R_scope.

Local Notation nodeR := (@node RNum).
Local Notation gameR := (@game RNum).
Local Notation pstateR := (@pstate RNum).
Local Notation histsR := (@hists RNum).

(** ** [hists]: unfolding, and the histories found in children *)
Definition hists_chance (h1 h2 : list (nat * nat)) :=
  fix go (ks : list nodeR) : list (bool * nat * list (nat * nat)) :=
    match ks with
    | [] => []
    | k :: r => histsR k h1 h2 ++ go r
    end.

Definition ext1 (pl' : bool) (i' : nat) (h1 : list (nat * nat)) (a : nat) :=
  if pl' then h1 ++ [(i', a)] else h1.
Definition ext2 (pl' : bool) (i' : nat) (h2 : list (nat * nat)) (a : nat) :=
  if pl' then h2 else h2 ++ [(i', a)].

Definition hists_player (pl' : bool) (i' : nat) (h1 h2 : list (nat * nat)) :=
  fix go (ks : list nodeR) (a : nat) : list (bool * nat * list (nat * nat)) :=
    match ks with
    | [] => []
    | k :: r => histsR k (ext1 pl' i' h1 a) (ext2 pl' i' h2 a) ++ go r (S a)
    end.

Lemma hists_Chance ci kids h1 h2 :
  histsR (Chance ci kids) h1 h2 = hists_chance h1 h2 kids.
Proof. reflexivity. Qed.

Lemma hists_Player pl' i' kids h1 h2 :
  histsR (Player pl' i' kids) h1 h2 =
  (pl', i', if pl' then h1 else h2) :: hists_player pl' i' h1 h2 kids 0.
Proof. reflexivity. Qed.

Lemma In_hists_chance h1 h2 ks c x :
  In c ks -> In x (histsR c h1 h2) -> In x (hists_chance h1 h2 ks).
Proof.
  induction ks as [|k r IH]; intros Hc Hx; [contradiction|].
  cbn [hists_chance]. apply in_or_app. destruct Hc as [->|Hc]; [now left|right; auto].
Qed.

Lemma In_hists_player pl' i' h1 h2 ks :
  forall k a0 c x,
  nth_error ks k = Some c ->
  In x (histsR c (ext1 pl' i' h1 (a0 + k)) (ext2 pl' i' h2 (a0 + k))) ->
  In x (hists_player pl' i' h1 h2 ks a0).
Proof.
  induction ks as [|c0 r IH]; intros k a0 c x Hk Hx; [destruct k; discriminate|].
  cbn [hists_player]. apply in_or_app. destruct k as [|k].
  - injection Hk as ->. rewrite Nat.add_0_r in Hx. now left.
  - right. apply (IH k (S a0) c x Hk). replace (S a0 + k)%nat with (a0 + S k)%nat by lia. exact Hx.
Qed.

Section Mass.
  Context (chance : list (list R)) (sg : bool -> nat -> list R) (pl : bool) (i : nat).

  (** total (unsigned) counterfactual reach of the nodes of infoset [(pl, i)] *)
  Fixpoint cf_mass (n : nodeR) (pc p1 p2 : R) {struct n} : R :=
    match n with
    | Term _ => 0
    | Chance ci kids => sum_chance cf_mass pc p1 p2 (@row RNum chance ci) kids
    | Player pl' i' kids =>
        (if is_info pl' i' pl i then Rabs (cfw pl' pc p1 p2) else 0)
        + sum_player cf_mass pl' pc p1 p2 kids (sg pl' i')
    end.

  Lemma cf_mass_nodes n pc p1 p2 :
    cf_mass n pc p1 p2 =
    Rsum (map (fun wk : R * list nodeR => Rabs (fst wk)) (cf_nodes chance sg pl i n pc p1 p2)).
  Proof.
    revert pc p1 p2.
    induction n as [x|ci kids IH|pl' i' kids IH] using node_ind'; intros pc p1 p2.
    - reflexivity.
    - cbn [cf_mass cf_nodes]. generalize (@row RNum chance ci) as ps.
      induction IH as [|c ks Hc H IH']; intros ps; destruct ps as [|p ps];
        cbn [sum_chance cat_chance map Rsum]; try reflexivity.
      rewrite map_app, Rsum_app, <- Hc, <- IH'. reflexivity.
    - cbn [cf_mass cf_nodes]. rewrite map_app, Rsum_app. f_equal.
      + destruct (is_info pl' i' pl i); cbn [map Rsum fst]; lra.
      + generalize (sg pl' i') as ss.
        induction IH as [|c ks Hc H IH']; intros ss; destruct ss as [|p ss];
          cbn [sum_player cat_player map Rsum]; try reflexivity.
        rewrite map_app, Rsum_app, <- IH'. destruct pl'; rewrite <- Hc; reflexivity.
  Qed.

  (** does infoset [(pl, i)] occur in the subtree? *)
  Fixpoint occurs (n : nodeR) : bool :=
    match n with
    | Term _ => false
    | Chance _ kids => existsb occurs kids
    | Player pl' i' kids => is_info pl' i' pl i || existsb occurs kids
    end.

  Lemma sum_chance_zero (f : nodeR -> R -> R -> R -> R) pc p1 p2 ps ks :
    Forall (fun c => forall qc q1 q2, f c qc q1 q2 = 0) ks -> sum_chance f pc p1 p2 ps ks = 0.
  Proof.
    intros H; revert ps; induction H as [|c ks Hc H IH]; intros ps; destruct ps as [|p ps];
      cbn [sum_chance]; try reflexivity. rewrite Hc, IH. lra.
  Qed.

  Lemma sum_player_zero (f : nodeR -> R -> R -> R -> R) pl' pc p1 p2 ks ss :
    Forall (fun c => forall qc q1 q2, f c qc q1 q2 = 0) ks -> sum_player f pl' pc p1 p2 ks ss = 0.
  Proof.
    intros H; revert ss; induction H as [|c ks Hc H IH]; intros ss; destruct ss as [|p ss];
      cbn [sum_player]; try reflexivity. rewrite IH. destruct pl'; rewrite Hc; lra.
  Qed.

  Lemma existsb_false_Forall {A} (f : A -> bool) l :
    existsb f l = false -> Forall (fun x => f x = false) l.
  Proof.
    induction l as [|x l IH]; cbn [existsb]; intros H; constructor;
      apply orb_false_iff in H as [H1 H2]; auto.
  Qed.

  Lemma mass_no_occ n : occurs n = false -> forall pc p1 p2, cf_mass n pc p1 p2 = 0.
  Proof.
    induction n as [x|ci kids IH|pl' i' kids IH] using node_ind'; cbn [occurs cf_mass];
      intros Ho pc p1 p2.
    - reflexivity.
    - apply sum_chance_zero. apply existsb_false_Forall in Ho.
      rewrite Forall_forall in *. intros c Hc. apply IH; auto.
    - apply orb_false_iff in Ho as [Ho1 Ho2]. rewrite Ho1, Rplus_0_l.
      apply sum_player_zero. apply existsb_false_Forall in Ho2.
      rewrite Forall_forall in *. intros c Hc. apply IH; auto.
  Qed.

  Definition hp (h1 h2 : list (nat * nat)) : list (nat * nat) := if pl then h1 else h2.

  (** an occurrence carries a history extending the own history at the subtree's root *)
  Lemma occ_hists n :
    occurs n = true -> forall h1 h2, exists suf, In (pl, i, hp h1 h2 ++ suf) (histsR n h1 h2).
  Proof.
    induction n as [x|ci kids IH|pl' i' kids IH] using node_ind'; cbn [occurs]; intros Ho h1 h2.
    - discriminate.
    - apply existsb_exists in Ho as (c & Hin & Hc). rewrite Forall_forall in IH.
      destruct (IH c Hin Hc h1 h2) as (suf & Hs). exists suf.
      rewrite hists_Chance. eapply In_hists_chance; eauto.
    - rewrite hists_Player. apply orb_true_iff in Ho as [Ho|Ho].
      + apply is_info_true in Ho as [-> ->]. exists []. rewrite app_nil_r. left. reflexivity.
      + apply existsb_exists in Ho as (c & Hin & Hc). rewrite Forall_forall in IH.
        apply In_nth_error in Hin as (k & Hk). 
        destruct (IH c (nth_error_In _ _ Hk) Hc (ext1 pl' i' h1 k) (ext2 pl' i' h2 k)) as (suf & Hs).
        assert (E : exists suf', hp (ext1 pl' i' h1 k) (ext2 pl' i' h2 k) ++ suf = hp h1 h2 ++ suf').
        { unfold hp, ext1, ext2. destruct pl, pl'; try (now exists suf);
            exists ((i', k) :: suf); now rewrite <- app_assoc. }
        destruct E as (suf' & E). exists suf'. right. rewrite <- E.
        apply (In_hists_player pl' i' h1 h2 kids k 0 c); assumption.
  Qed.

  (** own node: the occurrence in child [k] records the step [(i', k)] *)
  Lemma occ_hists_own i' kids k c h1 h2 :
    nth_error kids k = Some c -> occurs c = true ->
    exists suf, In (pl, i, hp h1 h2 ++ (i', k) :: suf) (histsR (Player pl i' kids) h1 h2).
  Proof.
    intros Hk Hc.
    destruct (occ_hists c Hc (ext1 pl i' h1 k) (ext2 pl i' h2 k)) as (suf & Hs).
    exists suf. rewrite hists_Player. right.
    apply (In_hists_player pl i' h1 h2 kids k 0 c); [assumption|]. cbn [Nat.add].
    replace (hp h1 h2 ++ (i', k) :: suf) with (hp (ext1 pl i' h1 k) (ext2 pl i' h2 k) ++ suf);
      [exact Hs|].
    unfold hp, ext1, ext2. destruct pl; now rewrite <- app_assoc.
  Qed.

  Definition opp (p1 p2 : R) : R := if pl then p2 else p1.

  (** ** sums over children *)
  Lemma sum_chance_le (f : nodeR -> R -> R -> R -> R) (B : R) (pc p1 p2 : R) ks :
    0 <= B ->
    Forall (fun c => forall p, 0 <= p -> f c (pc * p) p1 p2 <= B * p) ks ->
    forall ps, Forall (fun p => 0 <= p) ps ->
    sum_chance f pc p1 p2 ps ks <= B * Rsum ps.
  Proof.
    intros HB H; induction H as [|c ks Hc H IH]; intros ps Hps; destruct Hps as [|p ps Hp Hps];
      cbn [sum_chance Rsum]; try lra.
    - pose proof (Rsum_nonneg ps Hps). assert (0 <= B * (p + Rsum ps)) by (apply Rmult_le_pos; lra). lra.
    - specialize (IH ps Hps). specialize (Hc p Hp). lra.
  Qed.

  Lemma sum_player_le (f : nodeR -> R -> R -> R -> R) (B : R) (pl' : bool) (pc p1 p2 : R) ks :
    0 <= B ->
    Forall (fun c => forall p : R, 0 <= p ->
                (if pl' then f c pc (p1 * p) p2 else f c pc p1 (p2 * p)) <= B * p) ks ->
    forall ss, Forall (fun p => 0 <= p) ss ->
    sum_player f pl' pc p1 p2 ks ss <= B * Rsum ss.
  Proof.
    intros HB H; induction H as [|c ks Hc H IH]; intros ss Hss; destruct Hss as [|p ss Hp Hss];
      cbn [sum_player Rsum]; try lra.
    - pose proof (Rsum_nonneg ss Hss). assert (0 <= B * (p + Rsum ss)) by (apply Rmult_le_pos; lra). lra.
    - specialize (IH ss Hss). specialize (Hc p Hp). lra.
  Qed.

  (** at most one child contains the infoset *)
  Definition AtMostOne (ks : list nodeR) : Prop :=
    forall k1 k2 c1 c2, nth_error ks k1 = Some c1 -> nth_error ks k2 = Some c2 ->
                        occurs c1 = true -> occurs c2 = true -> k1 = k2.

  Lemma sum_player_one (B : R) (pl' : bool) (pc p1 p2 : R) ks :
    0 <= B ->
    Forall (fun c => forall p : R, 0 <= p ->
                (if pl' then cf_mass c pc (p1 * p) p2 else cf_mass c pc p1 (p2 * p)) <= B) ks ->
    AtMostOne ks ->
    forall ss, Forall (fun p => 0 <= p) ss -> sum_player cf_mass pl' pc p1 p2 ks ss <= B.
  Proof.
    intros HB H; induction H as [|c ks Hc H IH]; intros Hone ss Hss;
      destruct Hss as [|p ss Hp Hss]; cbn [sum_player]; try lra.
    destruct (occurs c) eqn:Ec.
    - assert (Hz : Forall (fun c' => forall qc q1 q2, cf_mass c' qc q1 q2 = 0) ks).
      { apply Forall_forall. intros c' Hin. apply mass_no_occ.
        destruct (occurs c') eqn:Ec'; [|reflexivity].
        apply In_nth_error in Hin as (k & Hk).
        specialize (Hone 0%nat (S k) c c' eq_refl Hk Ec Ec'). discriminate. }
      rewrite (sum_player_zero cf_mass pl' pc p1 p2 ks ss Hz).
      specialize (Hc p Hp). destruct pl'; lra.
    - rewrite !(mass_no_occ c Ec).
      assert (Hone' : AtMostOne ks).
      { intros k1 k2 c1 c2 H1 H2 E1 E2.
        specialize (Hone (S k1) (S k2) c1 c2 H1 H2 E1 E2). lia. }
      specialize (IH Hone' ss Hss). destruct pl'; lra.
  Qed.

  (** ** the mass bound *)
  Context (HC : forall ci, Forall (fun p => 0 <= p) (@row RNum chance ci) /\
                           Rsum (@row RNum chance ci) <= 1)
          (HS : forall pl' i', Forall (fun p => 0 <= p) (sg pl' i') /\ Rsum (sg pl' i') <= 1)
          (hI : list (nat * nat)).

  Definition GoodH (n : nodeR) (h1 h2 : list (nat * nat)) : Prop :=
    forall h, In (pl, i, h) (histsR n h1 h2) -> h = hI.

  Definition MB (n : nodeR) : Prop :=
    forall h1 h2 pc p1 p2, 0 <= pc -> 0 <= p1 -> 0 <= p2 -> GoodH n h1 h2 ->
                           cf_mass n pc p1 p2 <= pc * opp p1 p2.

  Lemma Rabs_cfw pc p1 p2 : 0 <= pc -> 0 <= p1 -> 0 <= p2 -> Rabs (cfw pl pc p1 p2) = pc * opp p1 p2.
  Proof.
    intros Hc H1 H2. unfold cfw, opp. destruct pl.
    - apply Rabs_pos_eq. now apply Rmult_le_pos.
    - replace (- p1 * pc) with (- (pc * p1)) by ring. rewrite Rabs_Ropp.
      apply Rabs_pos_eq. now apply Rmult_le_pos.
  Qed.

  Lemma mass_bound n : MB n.
  Proof.
    induction n as [x|ci kids IH|pl' i' kids IH] using node_ind';
      intros h1 h2 pc p1 p2 Hpc Hp1 Hp2 HG.
    - cbn [cf_mass]. apply Rmult_le_pos; [assumption|]. unfold opp; now destruct pl.
    - cbn [cf_mass]. destruct (HC ci) as [Hnn Hsum].
      assert (HB : 0 <= pc * opp p1 p2).
      { apply Rmult_le_pos; [assumption|]. unfold opp; now destruct pl. }
      apply Rle_trans with ((pc * opp p1 p2) * Rsum (@row RNum chance ci)); [|nra].
      apply sum_chance_le; [assumption| |assumption].
      rewrite Forall_forall in *. intros c Hin p Hp.
      replace (pc * opp p1 p2 * p) with ((pc * p) * opp p1 p2) by ring.
      apply (IH c Hin h1 h2); try assumption; [now apply Rmult_le_pos|].
      intros h Hh. apply HG. rewrite hists_Chance. eapply In_hists_chance; eauto.
    - cbn [cf_mass].
      assert (HB : 0 <= pc * opp p1 p2).
      { apply Rmult_le_pos; [assumption|]. unfold opp; now destruct pl. }
      (* the bound for every child, at the history of its position *)
      assert (Hkid : forall k c, nth_error kids k = Some c ->
                GoodH c (ext1 pl' i' h1 k) (ext2 pl' i' h2 k)).
      { intros k c Hk h Hh. apply HG. rewrite hists_Player. right.
        apply (In_hists_player pl' i' h1 h2 kids k 0 c); assumption. }
      rewrite Forall_forall in IH.
      destruct (Bool.bool_dec pl' pl) as [Epl|Npl].
      + subst pl'. destruct (Nat.eq_dec i' i) as [Ei|Ni].
        * (* a node of the infoset itself: nothing below *)
          subst i'. replace (is_info pl i pl i) with true
            by (symmetry; apply is_info_true; auto).
          rewrite Rabs_cfw by assumption.
          rewrite sum_player_zero; [lra|].
          apply Forall_forall. intros c Hin. apply mass_no_occ.
          destruct (occurs c) eqn:Ec; [|reflexivity]. exfalso.
          apply In_nth_error in Hin as (k & Hk).
          destruct (occ_hists_own i kids k c h1 h2 Hk Ec) as (suf & Hs).
          apply HG in Hs.
          assert (H0 : hp h1 h2 = hI).
          { apply HG. rewrite hists_Player. left. reflexivity. }
          rewrite <- H0 in Hs. apply (f_equal (@length _)) in Hs.
          rewrite app_length in Hs. cbn [length] in Hs. lia.
        * (* own node of another infoset: all occurrences under one action *)
          replace (is_info pl i' pl i) with false.
          2:{ symmetry. destruct (is_info pl i' pl i) eqn:E; [|reflexivity].
              apply is_info_true in E as [_ E]. contradiction. }
          rewrite Rplus_0_l. apply sum_player_one; [assumption| | |apply HS].
          -- apply Forall_forall. intros c Hin p Hp.
             apply In_nth_error in Hin as (k & Hk).
             pose proof (IH c (nth_error_In _ _ Hk) (ext1 pl i' h1 k) (ext2 pl i' h2 k)) as Hc.
             pose proof (Hkid k c Hk) as Hg.
             unfold opp in *. destruct pl.
             ++ apply (Hc pc (p1 * p) p2); auto. now apply Rmult_le_pos.
             ++ apply (Hc pc p1 (p2 * p)); auto. now apply Rmult_le_pos.
          -- intros k1 k2 c1 c2 H1 H2 E1 E2.
             destruct (occ_hists_own i' kids k1 c1 h1 h2 H1 E1) as (s1 & Hs1).
             destruct (occ_hists_own i' kids k2 c2 h1 h2 H2 E2) as (s2 & Hs2).
             apply HG in Hs1, Hs2. rewrite <- Hs2 in Hs1.
             apply app_inv_head in Hs1. now injection Hs1.
      + (* opponent node: the mass splits with the action probabilities *)
        replace (is_info pl' i' pl i) with false.
        2:{ symmetry. destruct (is_info pl' i' pl i) eqn:E; [|reflexivity].
            apply is_info_true in E as [E _]. contradiction. }
        rewrite Rplus_0_l. destruct (HS pl' i') as [Hnn Hsum].
        apply Rle_trans with ((pc * opp p1 p2) * Rsum (sg pl' i')); [|nra].
        apply sum_player_le; [assumption| |assumption].
        apply Forall_forall. intros c Hin p Hp.
        apply In_nth_error in Hin as (k & Hk).
        pose proof (IH c (nth_error_In _ _ Hk) (ext1 pl' i' h1 k) (ext2 pl' i' h2 k)) as Hc.
        pose proof (Hkid k c Hk) as Hg.
        unfold opp in *. destruct pl, pl'; try congruence.
        * replace (pc * p2 * p) with (pc * (p2 * p)) by ring.
          apply (Hc pc p1 (p2 * p)); auto. now apply Rmult_le_pos.
        * replace (pc * p1 * p) with (pc * (p1 * p)) by ring.
          apply (Hc pc (p1 * p) p2); auto. now apply Rmult_le_pos.
  Qed.
End Mass.

(** ** Values lie in the payoff range *)
Inductive PayoffsIn (lo hi : R) : nodeR -> Prop :=
| PI_Term (x : R) : lo <= x <= hi -> PayoffsIn lo hi (@Term RNum x)
| PI_Chance ci kids : Forall (PayoffsIn lo hi) kids -> PayoffsIn lo hi (@Chance RNum ci kids)
| PI_Player pl i kids : Forall (PayoffsIn lo hi) kids -> PayoffsIn lo hi (@Player RNum pl i kids).

(** the tree matches the tables: every chance row and strategy row is a
    distribution over exactly the children of the node *)
Inductive ValShaped (chance : list (list R)) (sg : bool -> nat -> list R) : nodeR -> Prop :=
| VS_Term (x : R) : ValShaped chance sg (@Term RNum x)
| VS_Chance ci kids :
    length kids = length (@row RNum chance ci) -> VRow (@row RNum chance ci) ->
    Forall (ValShaped chance sg) kids -> ValShaped chance sg (@Chance RNum ci kids)
| VS_Player pl i kids :
    length kids = length (sg pl i) -> VRow (sg pl i) ->
    Forall (ValShaped chance sg) kids -> ValShaped chance sg (@Player RNum pl i kids).

Lemma val_chance_range (f : nodeR -> R) lo hi ks :
  Forall (fun c => lo <= f c <= hi) ks ->
  forall ps, length ks = length ps -> Forall (fun p => 0 <= p) ps ->
  lo * Rsum ps <= @val_chance RNum f ps ks 0 <= hi * Rsum ps.
Proof.
  induction 1 as [|c ks Hc H IH]; intros ps E Hps; destruct Hps as [|p ps Hp Hps];
    try discriminate; cbn [val_chance Rsum]; [lra|].
  change (add RNum) with Rplus. change (mul RNum) with Rmult. change (zero RNum) with 0.
  rewrite val_chance_acc. cbn [length] in E. specialize (IH ps ltac:(lia) Hps). nra.
Qed.

Lemma val_player_range (f : nodeR -> R) lo hi ks :
  Forall (fun c => lo <= f c <= hi) ks ->
  forall ss, length ks = length ss -> Forall (fun p => 0 <= p) ss ->
  lo * Rsum ss <= @val_player RNum f ks ss 0 <= hi * Rsum ss.
Proof.
  induction 1 as [|c ks Hc H IH]; intros ss E Hss; destruct Hss as [|p ss Hp Hss];
    try discriminate; cbn [val_player Rsum]; [lra|].
  change (add RNum) with Rplus. change (mul RNum) with Rmult. change (zero RNum) with 0.
  rewrite val_player_acc. cbn [length] in E. specialize (IH ss ltac:(lia) Hss). nra.
Qed.

Lemma act_val_range (f : nodeR -> R) lo hi ks :
  Forall (fun c => lo <= f c <= hi) ks ->
  forall ss a, length ks = length ss -> (a < length ss)%nat ->
  lo <= act_val f ks ss a <= hi.
Proof.
  induction 1 as [|c ks Hc H IH]; intros ss a E Ha; destruct ss as [|p ss];
    try discriminate; cbn [length] in *; [lia|].
  cbn [act_val]. destruct a as [|a]; [exact Hc|]. apply IH; lia.
Qed.

Section Range.
  Context (chance : list (list R)) (sg : bool -> nat -> list R) (lo hi : R).

  Lemma uval_range n :
    ValShaped chance sg n -> PayoffsIn lo hi n -> lo <= uval chance sg n <= hi.
  Proof.
    induction n as [x|ci kids IH|pl i kids IH] using node_ind'; intros HV HP;
      inversion HV as [|? ? EL [Hnn Hs] HVk|? ? ? EL [Hnn Hs] HVk]; subst;
      inversion HP as [? Hx|? ? HPk|? ? ? HPk]; subst; cbn [uval].
    - exact Hx.
    - assert (HF : Forall (fun c => lo <= uval chance sg c <= hi) kids).
      { rewrite Forall_forall in *. intros c Hc. apply IH; auto. }
      pose proof (val_chance_range _ lo hi kids HF _ EL Hnn) as H. rewrite Hs in H. lra.
    - assert (HF : Forall (fun c => lo <= uval chance sg c <= hi) kids).
      { rewrite Forall_forall in *. intros c Hc. apply IH; auto. }
      pose proof (val_player_range _ lo hi kids HF _ EL Hnn) as H. rewrite Hs in H. lra.
  Qed.

  Lemma node_regret_range kids ss a :
    Forall (ValShaped chance sg) kids -> Forall (PayoffsIn lo hi) kids ->
    length kids = length ss -> VRow ss -> (a < length ss)%nat ->
    Rabs (node_regret chance sg kids ss a) <= hi - lo.
  Proof.
    intros HV HP EL [Hnn Hs] Ha.
    assert (HF : Forall (fun c => lo <= uval chance sg c <= hi) kids).
    { rewrite Forall_forall in *. intros c Hc. apply uval_range; auto. }
    pose proof (val_player_range _ lo hi kids HF ss EL Hnn) as H1. rewrite Hs in H1.
    pose proof (act_val_range _ lo hi kids HF ss a EL Ha) as H2.
    unfold node_regret. apply Rabs_le. lra.
  Qed.

  (** *** [|cfr_inc| <= (hi - lo) * cf_mass] *)
  Context (pl : bool) (i a : nat) (Ha : (a < length (sg pl i))%nat).

  Lemma sum_chance_abs (f g : nodeR -> R -> R -> R -> R) (D : R) pc p1 p2 ks :
    Forall (fun c => forall qc q1 q2, Rabs (f c qc q1 q2) <= D * g c qc q1 q2) ks ->
    forall ps, Rabs (sum_chance f pc p1 p2 ps ks) <= D * sum_chance g pc p1 p2 ps ks.
  Proof.
    induction 1 as [|c ks Hc H IH]; intros ps; destruct ps as [|p ps]; cbn [sum_chance];
      try (rewrite Rabs_R0; lra).
    eapply Rle_trans; [apply Rabs_triang|]. specialize (IH ps).
    specialize (Hc (pc * p) p1 p2). lra.
  Qed.

  Lemma sum_player_abs (f g : nodeR -> R -> R -> R -> R) (D : R) pl' pc p1 p2 ks :
    Forall (fun c => forall qc q1 q2, Rabs (f c qc q1 q2) <= D * g c qc q1 q2) ks ->
    forall ss, Rabs (sum_player f pl' pc p1 p2 ks ss) <= D * sum_player g pl' pc p1 p2 ks ss.
  Proof.
    induction 1 as [|c ks Hc H IH]; intros ss; destruct ss as [|p ss]; cbn [sum_player];
      try (rewrite Rabs_R0; lra).
    eapply Rle_trans; [apply Rabs_triang|]. specialize (IH ss).
    destruct pl'; [specialize (Hc pc (p1 * p) p2)|specialize (Hc pc p1 (p2 * p))]; lra.
  Qed.

  Lemma cfr_inc_mass n :
    ValShaped chance sg n -> PayoffsIn lo hi n ->
    forall pc p1 p2,
    Rabs (cfr_inc chance sg pl i a n pc p1 p2) <= (hi - lo) * cf_mass chance sg pl i n pc p1 p2.
  Proof.
    induction n as [x|ci kids IH|pl' i' kids IH] using node_ind'; intros HV HP pc p1 p2;
      inversion HV as [|? ? EL HR HVk|? ? ? EL HR HVk]; subst;
      inversion HP as [? Hx|? ? HPk|? ? ? HPk]; subst; cbn [cfr_inc cf_mass].
    - rewrite Rabs_R0. lra.
    - apply sum_chance_abs. rewrite Forall_forall in *. intros c Hc. apply IH; auto.
    - eapply Rle_trans; [apply Rabs_triang|]. rewrite Rmult_plus_distr_l.
      apply Rplus_le_compat.
      + destruct (is_info pl' i' pl i) eqn:E; [|rewrite Rabs_R0; lra].
        apply is_info_true in E as [-> ->]. rewrite Rabs_mult.
        pose proof (node_regret_range kids (sg pl i) a HVk HPk EL HR Ha).
        pose proof (Rabs_pos (cfw pl pc p1 p2)). nra.
      + apply sum_player_abs. rewrite Forall_forall in *. intros c Hc. apply IH; auto.
  Qed.
End Range.

(** ** The bound on the increments, from the mass bound *)
Theorem cfr_inc_bound_tree (chance : list (list R)) (sg : bool -> nat -> list R)
        (lo hi : R) (pl : bool) (i a : nat) (n : nodeR) (hI : list (nat * nat)) :
  (forall ci, Forall (fun p => 0 <= p) (@row RNum chance ci) /\ Rsum (@row RNum chance ci) <= 1) ->
  (forall pl' i', Forall (fun p => 0 <= p) (sg pl' i') /\ Rsum (sg pl' i') <= 1) ->
  (forall h, In (pl, i, h) (histsR n [] []) -> h = hI) ->
  ValShaped chance sg n -> PayoffsIn lo hi n -> (a < length (sg pl i))%nat ->
  Rabs (cfr_inc chance sg pl i a n 1 1 1) <= hi - lo.
Proof.
  intros HC HS HG HV HP Ha.
  pose proof (cfr_inc_mass chance sg lo hi pl i a Ha n HV HP 1 1 1) as H1.
  pose proof (mass_bound chance sg pl i HC HS hI n [] [] 1 1 1
                ltac:(lra) ltac:(lra) ltac:(lra) HG) as H2.
  pose proof (uval_range chance sg lo hi n HV HP) as Hd.
  unfold opp in H2. destruct pl; nra.
Qed.

(** ** Linking to the game-level predicates *)
Lemma shaped_kids_Forall (g : gameR) (kids : list nodeR) :
  (fix go (ks : list nodeR) : Prop :=
     match ks with [] => True | k :: r => @shaped RNum g k /\ go r end) kids <->
  Forall (@shaped RNum g) kids.
Proof.
  induction kids as [|k r IH]; split; intros H.
  - constructor.
  - exact I.
  - destruct H as [H1 H2]. constructor; [exact H1|now apply IH].
  - inversion H; subst. split; [assumption|now apply IH].
Qed.

Lemma shaped_Chance (g : gameR) ci kids :
  @shaped RNum g (Chance ci kids) ->
  (ci < length (g_chance g))%nat /\ length kids = length (nth ci (g_chance g) []) /\
  Forall (@shaped RNum g) kids.
Proof.
  cbn [shaped]. intros (H1 & H2 & _ & H4). split; [exact H1|]. split; [exact H2|].
  now apply shaped_kids_Forall.
Qed.

Lemma shaped_Player (g : gameR) pl i kids :
  @shaped RNum g (Player pl i kids) ->
  (i < length (g_infos g pl))%nat /\
  length kids = length (pi_actions (nth i (g_infos g pl) (mkPinfo 0%N [] None))) /\
  Forall (@shaped RNum g) kids.
Proof.
  cbn [shaped]. intros (H1 & H2 & _ & H4). split; [exact H1|]. split; [exact H2|].
  now apply shaped_kids_Forall.
Qed.

Lemma Forall2_nth {A B} (Q : A -> B -> Prop) la lb i da db :
  Forall2 Q la lb -> (i < length la)%nat -> Q (nth i la da) (nth i lb db).
Proof.
  intros H; revert i; induction H as [|a b la lb Hab H IH]; intros i Hi; cbn [length] in Hi;
    [lia|]. destruct i as [|i]; cbn [nth]; [exact Hab|apply IH; lia].
Qed.

Lemma Forall2_len {A B} (Q : A -> B -> Prop) la lb : Forall2 Q la lb -> length la = length lb.
Proof. induction 1; cbn [length]; auto. Qed.

Lemma ChanceOK_rows (g : gameR) :
  ChanceOK g ->
  forall ci, Forall (fun p => 0 <= p) (@row RNum (g_chance g) ci) /\
             Rsum (@row RNum (g_chance g) ci) <= 1.
Proof.
  intros H ci. unfold row. destruct (Nat.lt_ge_cases ci (length (g_chance g))) as [Hlt|Hge].
  - unfold ChanceOK in H. rewrite Forall_forall in H.
    destruct (H _ (nth_In _ [] Hlt)) as [Hp Hs]. split; [|lra].
    eapply Forall_impl; [|exact Hp]. intros p Hpp. cbv beta in Hpp. lra.
  - rewrite nth_overflow by assumption. split; [constructor|cbn [Rsum]; lra].
Qed.

Lemma ChanceOK_row_VRow (g : gameR) ci :
  ChanceOK g -> (ci < length (g_chance g))%nat -> VRow (@row RNum (g_chance g) ci).
Proof.
  intros H Hlt. unfold ChanceOK in H. rewrite Forall_forall in H. unfold row.
  destruct (H _ (nth_In _ [] Hlt)) as [Hp Hs]. split; [|exact Hs].
  eapply Forall_impl; [|exact Hp]. intros p Hpp. cbv beta in Hpp. lra.
Qed.

Lemma Inv_rows (st : pstateR) :
  Inv st ->
  forall pl i, Forall (fun p => 0 <= p) (strat_view st pl i) /\ Rsum (strat_view st pl i) <= 1.
Proof.
  intros H pl i. apply Inv_InvA in H.
  destruct (InvA_get_cases _ _ st pl i H) as [E|(a & Ha)]; unfold strat_view.
  - rewrite E. cbn [strat Rsum]. split; [constructor|lra].
  - destruct Ha as ([Hnn Hs] & _). split; [exact Hnn|]. tR. lra.
Qed.

Lemma InvA_row (g : gameR) (st : pstateR) pl i :
  InvA (arities g true) (arities g false) st -> (i < length (g_infos g pl))%nat ->
  VRow (strat_view st pl i) /\
  length (strat_view st pl i) = length (pi_actions (nth i (g_infos g pl) (mkPinfo 0%N [] None))) /\
  (i < length (ps_get st pl))%nat.
Proof.
  intros [H1 H2] Hi.
  assert (HF : Forall2 RInvA (arities g pl) (ps_get st pl)) by (destruct pl; assumption).
  assert (Hi' : (i < length (arities g pl))%nat) by (unfold arities; now rewrite map_length).
  pose proof (Forall2_nth RInvA _ _ i 0%nat (@mkRinfo RNum [] [] []) HF Hi') as H.
  destruct H as (Hv & _ & _ & _ & L3). unfold strat_view, ri_get.
  split; [exact Hv|]. split.
  - rewrite L3. unfold arities.
    rewrite (nth_indep _ 0%nat (length (pi_actions (mkPinfo 0%N [] None)))) by assumption.
    now rewrite (map_nth (fun pi => length (pi_actions pi))).
  - apply Forall2_len in HF. lia.
Qed.

Lemma shaped_ValShaped (g : gameR) (st : pstateR) n :
  ChanceOK g -> InvA (arities g true) (arities g false) st ->
  @shaped RNum g n -> ValShaped (g_chance g) (strat_view st) n.
Proof.
  intros HC HI. induction n as [x|ci kids IH|pl i kids IH] using node_ind'; intros HS.
  - constructor.
  - apply shaped_Chance in HS as (H1 & H2 & H3). constructor.
    + exact H2.
    + now apply ChanceOK_row_VRow.
    + rewrite Forall_forall in *. intros c Hc. apply IH; auto.
  - apply shaped_Player in HS as (H1 & H2 & H3).
    destruct (InvA_row g st pl i HI H1) as (Hv & Hl & _). constructor.
    + rewrite H2. symmetry. exact Hl.
    + exact Hv.
    + rewrite Forall_forall in *. intros c Hc. apply IH; auto.
Qed.

(** every per-iteration increment of the cumulative regrets is bounded by the
    payoff range *)
Theorem cfr_inc_bounded (g : gameR) (st : pstateR) (lo hi : R) pl i a :
  WFgame g -> PerfectRecall g -> ChanceOK g ->
  InvA (arities g true) (arities g false) st ->
  PayoffsIn lo hi (g_root g) ->
  (a < length (strat_view st pl i))%nat ->
  Rabs (cfr_inc (g_chance g) (strat_view st) pl i a (g_root g) 1 1 1) <= hi - lo.
Proof.
  intros (HS & _) (H & HPR) HC HI HP Ha.
  apply (cfr_inc_bound_tree _ _ lo hi pl i a (g_root g) (H pl i)).
  - now apply ChanceOK_rows.
  - apply Inv_rows. eapply Inv_of_InvA; eauto.
  - intros h Hh. now apply HPR.
  - now apply shaped_ValShaped.
  - exact HP.
  - exact Ha.
Qed.

(** total counterfactual reach of an infoset at the root *)
Theorem cf_mass_le_1 (g : gameR) (st : pstateR) pl i :
  PerfectRecall g -> ChanceOK g -> Inv st ->
  cf_mass (g_chance g) (strat_view st) pl i (g_root g) 1 1 1 <= 1.
Proof.
  intros (H & HPR) HC HI.
  pose proof (mass_bound (g_chance g) (strat_view st) pl i (ChanceOK_rows g HC)
                (Inv_rows st HI) (H pl i) (g_root g) [] [] 1 1 1
                ltac:(lra) ltac:(lra) ltac:(lra)) as HB.
  unfold opp in HB. specialize (HB ltac:(intros h Hh; now apply HPR)). destruct pl; lra.
Qed.
