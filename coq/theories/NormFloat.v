(** * NormFloat: the normalisations at binary64 itself (instance [FNum]).

    [finish_row] (import of a strategy, with the repair D17), [normalise]
    (chance weights, with the repair D14), [avg_strat] and the non-softmax
    branches of [regret_match]: every row that comes out is a row of finite
    binary64 numbers in [0,1] -- no NaN, no infinity -- whether or not the
    sum of the weights overflows. *)
From Coq Require Import List ZArith NArith Reals Floats Bool Lia Lra Uint63.
From Flocq Require Import Core IEEE754.BinarySingleNaN IEEE754.PrimFloat Plus_error Relative.
From Cfr.theories Require Import Num FInst Tree Strat Solve TruncFloat.
Import ListNotations.

Local Existing Instance Flocq.IEEE754.PrimFloat.Hprec.
Local Existing Instance Flocq.IEEE754.PrimFloat.Hmax.

Local Open Scope R_scope.
Local Notation float := PrimFloat.float.
Local Notation Hp := Flocq.IEEE754.PrimFloat.Hprec.
Local Notation Hm := Flocq.IEEE754.PrimFloat.Hmax.

Local Instance fexp_valid' : Valid_exp (SpecFloat.fexp prec emax) := fexp_correct prec emax Hp.

(** ** Finite non-negative floats, and [+inf] *)

Definition finnn (x : float) : Prop := Ffin x /\ 0 <= FR x.
Definition finpos (x : float) : Prop := Ffin x /\ 0 < FR x.
Definition Fpinf (x : float) : Prop := Prim2B x = B754_infinity false.
(** what a sum of finite non-negative floats can be *)
Definition nni (x : float) : Prop := finnn x \/ Fpinf x.

Definition finnnb (x : float) : bool := PrimFloat.leb 0 x && f_is_fin x.

Lemma fin01_finnn : forall x, fin01 x -> finnn x.
Proof. intros x [Hf [H0 _]]. split; assumption. Qed.

Lemma finpos_finnn : forall x, finpos x -> finnn x.
Proof. intros x [Hf H0]. split; [assumption | lra]. Qed.

Lemma finnn_zero : finnn 0%float.
Proof. split; [apply Ffin_zero | rewrite FR_zero; lra]. Qed.

Lemma Fpinf_not_fin : forall x, Fpinf x -> Ffin x -> False.
Proof. intros x Hi Hf. unfold Fpinf in Hi. unfold Ffin in Hf. rewrite Hi in Hf. discriminate. Qed.

(** [f64::is_finite] of the model is Flocq's [is_finite] *)
Lemma f_is_fin_spec : forall x, f_is_fin x = is_finite (Prim2B x).
Proof.
  intros x. unfold f_is_fin, f_is_nan.
  rewrite !eqb_equiv, abs_equiv, infinity_equiv, Prim2B_B2Prim, Beqb_refl.
  destruct (Prim2B x) as [s|s| |s m e He]; try reflexivity.
Qed.

Lemma f_is_fin_true : forall x, f_is_fin x = true <-> Ffin x.
Proof. intros x. rewrite f_is_fin_spec. unfold Ffin. tauto. Qed.

Lemma f_is_nan_fin : forall x, Ffin x -> f_is_nan x = false.
Proof.
  intros x Hx. unfold f_is_nan, Ffin in *. rewrite eqb_equiv.
  rewrite Beqb_refl. destruct (Prim2B x); try discriminate Hx; reflexivity.
Qed.

Lemma eqb_fin : forall x y, Ffin x -> Ffin y ->
  PrimFloat.eqb x y = Req_bool (FR x) (FR y).
Proof. intros x y Hx Hy. rewrite eqb_equiv. apply Beqb_correct; assumption. Qed.

Lemma eqb_zero_fin : forall t, Ffin t -> (PrimFloat.eqb t 0 = true <-> FR t = 0).
Proof.
  intros t Ht. rewrite (eqb_fin t 0 Ht Ffin_zero), FR_zero.
  destruct (Req_bool_spec (FR t) 0) as [H|H]; split; intro H'; try reflexivity;
    try assumption; try discriminate. contradiction.
Qed.

Lemma eqb_pinf_zero : forall t, Fpinf t -> PrimFloat.eqb t 0 = false.
Proof.
  intros t Ht. rewrite eqb_equiv, Prim2B_zero. unfold Fpinf in Ht. rewrite Ht. reflexivity.
Qed.

Lemma finnnb_spec : forall x, finnnb x = true <-> finnn x.
Proof.
  intros x. unfold finnnb, finnn. rewrite f_is_fin_spec. unfold Ffin.
  destruct (is_finite (Prim2B x)) eqn:Hx.
  - rewrite (leb_fin 0 x Ffin_zero Hx), FR_zero, andb_true_r.
    destruct (Rle_bool_spec 0 (FR x)) as [H|H]; split; try tauto; try discriminate.
    intros [_ H']. lra.
  - rewrite andb_false_r. split; [discriminate | intros [H _]; discriminate].
Qed.

(** the hypotheses of this file are exactly the checks the model (and the code)
    performs before normalising: [prob_ok] on imported weights
    ([prob >= 0.0 && prob.is_finite()]), and [0 < p && is_fin p] on chance weights *)
Lemma prob_ok_finnn : forall x : float, @prob_ok FNum x = true <-> finnn x.
Proof. intros x. apply finnnb_spec. Qed.

Lemma chance_ok_finpos : forall x : float,
  (ltb FNum (zero FNum) x && is_fin FNum x)%bool = true <-> finpos x.
Proof.
  intros x. cbn [ltb zero is_fin FNum]. unfold finpos. rewrite f_is_fin_spec. unfold Ffin.
  destruct (is_finite (Prim2B x)) eqn:Hx.
  - rewrite andb_true_r. rewrite (ltb_zero_pos x Hx). tauto.
  - rewrite andb_false_r. split; [discriminate | intros [H _]; discriminate].
Qed.

(** ** Addition of finite non-negative floats: finite, or [+inf] *)

Lemma Bsign_pos : forall x : binary_float prec emax,
  is_finite x = true -> 0 < B2R x -> Bsign x = false.
Proof.
  intros x Hx H0. destruct x as [s|s| |s m e He]; try discriminate Hx.
  - cbn in H0. lra.
  - destruct s; [|reflexivity]. exfalso.
    cbn [B2R cond_Zopp] in H0.
    assert (H := F2R_lt_0 radix2 (Float radix2 (Z.opp (Z.pos m)) e)).
    cbn [Fnum] in H. specialize (H ltac:(lia)). lra.
Qed.

Lemma B2SF_pinf : forall x : binary_float prec emax,
  B2SF x = S754_infinity false -> x = B754_infinity false.
Proof.
  intros x H. destruct x as [s|s| |s m e He]; try discriminate H.
  cbn in H. inversion H. reflexivity.
Qed.

Lemma add_nn : forall x y, finnn x -> finnn y ->
  (Ffin (x + y)%float /\ FR (x + y)%float = rnd (FR x + FR y) /\
   FR x <= FR (x + y)%float /\ FR y <= FR (x + y)%float) \/
  Fpinf (x + y)%float.
Proof.
  intros x y [Hx Hx0] [Hy Hy0].
  assert (Hlo1 : FR x <= rnd (FR x + FR y)) by (apply rnd_ge_fmt; [apply fmt_FR | lra]).
  assert (Hlo2 : FR y <= rnd (FR x + FR y)) by (apply rnd_ge_fmt; [apply fmt_FR | lra]).
  destruct (Rlt_or_le (Rabs (rnd (FR x + FR y))) (bpow radix2 emax)) as [Hb|Hb].
  - left. destruct (add_ok x y Hx Hy Hb) as [Hf He]. rewrite He. tauto.
  - right. unfold Fpinf. rewrite add_equiv.
    generalize (Bplus_correct prec emax Hp Hm mode_NE (Prim2B x) (Prim2B y) Hx Hy).
    change (round_mode mode_NE) with ZnearestE.
    fold (FR x) (FR y). fold (rnd (FR x + FR y)).
    rewrite Rlt_bool_false by exact Hb.
    intros [H1 H2].
    assert (Hs : Bsign (Prim2B x) = false).
    { destruct (Rle_lt_or_eq_dec 0 (FR x) Hx0) as [Hpos|Hz].
      - apply Bsign_pos; assumption.
      - rewrite H2. apply Bsign_pos; [exact Hy|].
        fold (FR y). destruct (Rle_lt_or_eq_dec 0 (FR y) Hy0) as [Hpos|Hz']; [exact Hpos|].
        exfalso. rewrite <- Hz, <- Hz', Rplus_0_r in Hb.
        rewrite (rnd_fmt 0 fmt_0), Rabs_R0 in Hb.
        assert (0 < bpow radix2 emax) by apply bpow_gt_0. lra. }
    rewrite Hs in H1. apply B2SF_pinf. exact H1.
Qed.

Lemma add_pinf_l : forall x y, Fpinf x -> Ffin y -> Fpinf (x + y)%float.
Proof.
  intros x y Hx Hy. unfold Fpinf, Ffin in *. rewrite add_equiv, Hx.
  destruct (Prim2B y) as [s|s| |s m e He]; try discriminate Hy; reflexivity.
Qed.

Lemma add_nni : forall x y, nni x -> finnn y -> nni (x + y)%float.
Proof.
  intros x y [Hx|Hx] Hy.
  - destruct (add_nn x y Hx Hy) as [[Hf [He [H1 H2]]]|Hi]; [left | right; exact Hi].
    split; [exact Hf|]. destruct Hx as [_ Hx0]. lra.
  - right. apply add_pinf_l; [exact Hx | apply Hy].
Qed.

Lemma fsum_nni : forall (l : list float) (acc : float),
  Forall finnn l -> nni acc -> nni (fold_left PrimFloat.add l acc).
Proof.
  induction l as [|p l IH]; intros acc Hl Ha; cbn [fold_left]; [exact Ha|].
  inversion Hl as [|p' l' Hp Hl']; subst.
  apply IH; [exact Hl' | apply add_nni; assumption].
Qed.

(** If the sum is finite then no partial sum overflowed, and rounding to nearest
    is monotone: the sum is at least the start value and at least every term. *)
Lemma fsum_fin_inv : forall (l : list float) (acc : float),
  Forall finnn l -> nni acc ->
  Ffin (fold_left PrimFloat.add l acc) ->
  finnn acc /\
  FR acc <= FR (fold_left PrimFloat.add l acc) /\
  Forall (fun p => FR p <= FR (fold_left PrimFloat.add l acc)) l.
Proof.
  induction l as [|p l IH]; intros acc Hl Ha Hf; cbn [fold_left] in *.
  - destruct Ha as [Ha|Ha]; [|exfalso; exact (Fpinf_not_fin _ Ha Hf)].
    split; [exact Ha|]. split; [lra | constructor].
  - inversion Hl as [|p' l' Hp Hl']; subst.
    destruct (IH (acc + p)%float Hl' (add_nni acc p Ha Hp) Hf) as [[G1 G1'] [G2 G3]].
    destruct Ha as [Ha|Ha];
      [|exfalso; exact (Fpinf_not_fin _ (add_pinf_l acc p Ha (proj1 Hp)) G1)].
    destruct (add_nn acc p Ha Hp) as [[_ [_ [H1 H2]]]|Hi];
      [|exfalso; exact (Fpinf_not_fin _ Hi G1)].
    split; [exact Ha|]. split; [lra|].
    constructor; [lra | exact G3].
Qed.

Lemma sum_nni : forall l : list float, Forall finnn l -> nni (@sum FNum l).
Proof. intros l Hl. rewrite sum_FNum. apply fsum_nni; [exact Hl | left; exact finnn_zero]. Qed.

Lemma sum_fin_ge : forall l : list float, Forall finnn l -> Ffin (@sum FNum l) ->
  0 <= FR (@sum FNum l) /\ Forall (fun p => FR p <= FR (@sum FNum l)) l.
Proof.
  intros l Hl Hf. rewrite sum_FNum in *.
  destruct (fsum_fin_inv l 0%float Hl (or_introl finnn_zero) Hf) as [_ [G2 G3]].
  rewrite FR_zero in G2. split; assumption.
Qed.

(** a sum of zeros is a (finite) zero *)
Lemma fsum_zero : forall (l : list float) (acc : float),
  Forall (fun p => Ffin p /\ FR p = 0) l -> Ffin acc -> FR acc = 0 ->
  Ffin (fold_left PrimFloat.add l acc) /\ FR (fold_left PrimFloat.add l acc) = 0.
Proof.
  induction l as [|p l IH]; intros acc Hl Ha Ha0; cbn [fold_left]; [split; assumption|].
  inversion Hl as [|p' l' [Hp Hp0] Hl']; subst.
  assert (Hr : rnd (FR acc + FR p) = 0).
  { rewrite Ha0, Hp0, Rplus_0_r. apply rnd_fmt, fmt_0. }
  assert (Hb : Rabs (rnd (FR acc + FR p)) < bpow radix2 emax).
  { rewrite Hr, Rabs_R0. apply bpow_gt_0. }
  destruct (add_ok acc p Ha Hp Hb) as [Hf He].
  apply IH; [exact Hl' | exact Hf | rewrite He; exact Hr].
Qed.

(** ** [f64::max] on finite floats, and the running maximum *)

Lemma fmax_fin : forall a b, Ffin a -> Ffin b ->
  Ffin (f_max a b) /\ FR a <= FR (f_max a b) /\ FR b <= FR (f_max a b) /\
  (f_max a b = a \/ f_max a b = b).
Proof.
  intros a b Ha Hb. unfold f_max.
  rewrite (ltb_fin a b Ha Hb), (f_is_nan_fin a Ha).
  destruct (Rlt_bool_spec (FR a) (FR b)) as [H|H].
  - split; [exact Hb|]. split; [lra|]. split; [lra | right; reflexivity].
  - split; [exact Ha|]. split; [lra|]. split; [lra | left; reflexivity].
Qed.

Lemma fold_fmax : forall (l : list float) (acc : float),
  Forall Ffin l -> Ffin acc ->
  Ffin (fold_left f_max l acc) /\
  FR acc <= FR (fold_left f_max l acc) /\
  Forall (fun p => FR p <= FR (fold_left f_max l acc)) l /\
  (fold_left f_max l acc = acc \/ In (fold_left f_max l acc) l).
Proof.
  induction l as [|p l IH]; intros acc Hl Ha; cbn [fold_left].
  - split; [exact Ha|]. split; [lra|]. split; [constructor | left; reflexivity].
  - inversion Hl as [|p' l' Hp Hl']; subst.
    destruct (fmax_fin acc p Ha Hp) as [Hf [H1 [H2 H3]]].
    destruct (IH (f_max acc p) Hl' Hf) as [G1 [G2 [G3 G4]]].
    split; [exact G1|]. split; [lra|]. split; [constructor; [lra | exact G3]|].
    destruct G4 as [G4|G4]; [|right; right; exact G4].
    rewrite G4. destruct H3 as [H3|H3]; rewrite H3; [left; reflexivity | right; left; reflexivity].
Qed.

(** ** Dividing a row by something at least as large as every entry *)

Lemma Forall_finnn_Ffin : forall l, Forall finnn l -> Forall Ffin l.
Proof. intros l H. apply Forall_impl with (2 := H). intros a [Ha _]. exact Ha. Qed.

Lemma map_div_valid : forall (row : list float) (t : float),
  Forall finnn row -> Ffin t -> 0 < FR t -> Forall (fun p => FR p <= FR t) row ->
  Forall fin01 (map (fun v => PrimFloat.div v t) row).
Proof.
  intros row t Hrow Ht Ht0 Hle.
  rewrite Forall_forall in Hrow, Hle. apply Forall_forall. intros y Hy.
  apply in_map_iff in Hy. destruct Hy as [p [Hy Hin]]. subst y.
  destruct (Hrow p Hin) as [Hpf Hp0].
  apply (div_part_ok p t Hpf Ht (conj Hp0 (Hle p Hin)) Ht0).
Qed.

Lemma div_self_one : forall m, Ffin m -> 0 < FR m -> FR (m / m)%float = 1.
Proof.
  intros m Hm Hm0.
  destruct (div_part_ok m m Hm Hm (conj (Rlt_le _ _ Hm0) (Rle_refl _)) Hm0) as [_ He].
  rewrite He. replace (FR m / FR m) with 1 by (field; lra). apply rnd_fmt, fmt_1.
Qed.

Lemma rnd_le : forall x y, x <= y -> rnd x <= rnd y.
Proof. intros x y H. unfold rnd. apply round_le; auto with typeclass_instances. Qed.

Lemma fmt_bpow_m53 : fmt (bpow radix2 (-53)).
Proof.
  unfold fmt.
  apply (generic_format_FLT_bpow radix2 (SpecFloat.emin prec emax) prec).
  cbv. discriminate.
Qed.

(** ** [finish_row] at [FNum], unfolded once *)

Lemma finish_row_FNum : forall (row : list float) (total : float),
  @finish_row FNum row total =
  if f_is_fin total then map (fun v => PrimFloat.div v total) row
  else
    let m := fold_left f_max row 0%float in
    let row' := map (fun v => PrimFloat.div v m) row in
    let total' := fold_left PrimFloat.add row' 0%float in
    map (fun v => PrimFloat.div v total') row'.
Proof. reflexivity. Qed.

Lemma normalise_finish_row : forall ws : list float,
  @normalise FNum ws = @finish_row FNum ws (@sum FNum ws).
Proof. reflexivity. Qed.

Lemma finish_row_length : forall (row : list float) (total : float),
  length (@finish_row FNum row total) = length row.
Proof.
  intros row total. rewrite finish_row_FNum. cbv zeta.
  destruct (f_is_fin total); rewrite !map_length; reflexivity.
Qed.

(** ** 1. Import, the sum of the weights does not overflow *)

Theorem finish_row_float_valid_fin : forall row : list float,
  Forall finnn row ->
  Ffin (@sum FNum row) -> 0 < FR (@sum FNum row) ->
  Forall fin01 (@finish_row FNum row (@sum FNum row)).
Proof.
  intros row Hrow Hf Hpos.
  destruct (sum_fin_ge row Hrow Hf) as [_ Hge].
  rewrite finish_row_FNum. rewrite (proj2 (f_is_fin_true _) Hf).
  apply map_div_valid; assumption.
Qed.

Lemma Bdiv_pzero_pos : forall t : binary_float prec emax,
  is_finite t = true -> 0 < B2R t ->
  Bdiv mode_NE (B754_zero false) t = B754_zero false.
Proof.
  intros t Ht Ht0. assert (Hs := Bsign_pos t Ht Ht0).
  destruct t as [s|s| |s m e He]; try discriminate Ht.
  - cbn in Ht0. lra.
  - cbn in Hs. subst s. reflexivity.
Qed.

Lemma div_pzero_pos : forall t, Ffin t -> 0 < FR t -> (0 / t)%float = 0%float.
Proof.
  intros t Ht Ht0. apply Prim2B_inj. rewrite div_equiv, Prim2B_zero.
  apply Bdiv_pzero_pos; assumption.
Qed.

(** The entries, position by position. *)
Theorem finish_row_float_entries_fin : forall row : list float,
  Forall finnn row ->
  Ffin (@sum FNum row) -> 0 < FR (@sum FNum row) ->
  let total := @sum FNum row in
  let out := @finish_row FNum row total in
  length out = length row /\
  forall k, (k < length row)%nat ->
    let p := nth k row 0%float in
    let y := nth k out 0%float in
    y = (p / total)%float /\
    FR p <= FR total /\
    FR y = rnd (FR p / FR total) /\
    (* a zero weight gives a zero, the weight +0 gives +0 exactly *)
    (FR p = 0 -> FR y = 0) /\
    (p = 0%float -> y = 0%float) /\
    (* a weight that is not tiny against the total does not underflow to zero *)
    (bpow radix2 (-1074) * FR total <= FR p -> bpow radix2 (-1074) <= FR y).
Proof.
  intros row Hrow Hf Hpos total out.
  split; [apply finish_row_length|].
  destruct (sum_fin_ge row Hrow Hf) as [_ Hge]. fold total in Hge, Hf, Hpos.
  intros k Hk p y.
  assert (Hy : y = (p / total)%float).
  { unfold y, out. rewrite finish_row_FNum. rewrite (proj2 (f_is_fin_true _) Hf).
    apply (nth_map_lt _ _ (fun v => PrimFloat.div v total)). exact Hk. }
  assert (Hp : In p row) by (apply nth_In; exact Hk).
  rewrite Forall_forall in Hge, Hrow.
  destruct (Hrow p Hp) as [Hpf Hp0]. assert (Hpt := Hge p Hp).
  destruct (div_part_ok p total Hpf Hf (conj Hp0 Hpt) Hpos) as [_ He].
  rewrite <- Hy in He.
  split; [exact Hy|]. split; [exact Hpt|]. split; [exact He|]. split; [|split].
  - intros Hz. rewrite He, Hz. unfold Rdiv. rewrite Rmult_0_l. apply rnd_fmt, fmt_0.
  - intros Hz. rewrite Hy, Hz. apply div_pzero_pos; assumption.
  - intros Hbig. rewrite He. apply rnd_ge_fmt; [apply fmt_bpow_emin|].
    apply Rmult_le_reg_r with (FR total); [exact Hpos|].
    unfold Rdiv. rewrite Rmult_assoc, Rinv_l, Rmult_1_r by lra. exact Hbig.
Qed.

(** The zero entries are exactly the zero weights, for rows whose non-zero
    weights are not tiny against the total (otherwise a quotient can underflow,
    see [ex_normalise_underflow]). *)
Corollary finish_row_float_support_fin : forall row : list float,
  Forall finnn row ->
  Ffin (@sum FNum row) -> 0 < FR (@sum FNum row) ->
  (forall p, In p row -> FR p = 0 \/ bpow radix2 (-1074) * FR (@sum FNum row) <= FR p) ->
  forall k, (k < length row)%nat ->
    (FR (nth k (@finish_row FNum row (@sum FNum row)) 0%float) = 0 <-> FR (nth k row 0%float) = 0).
Proof.
  intros row Hrow Hf Hpos Hbig k Hk.
  destruct (finish_row_float_entries_fin row Hrow Hf Hpos) as [_ He].
  destruct (He k Hk) as [_ [_ [_ [H4 [_ H6]]]]]. clear He.
  split; [|exact H4].
  intros Hy. destruct (Hbig _ (nth_In row 0%float Hk)) as [Hz|Hb]; [exact Hz|].
  exfalso. specialize (H6 Hb).
  assert (0 < bpow radix2 (-1074)) by apply bpow_gt_0. lra.
Qed.

(** ** 2. Import, the sum of the weights overflows (repair D17) *)

(** a non-finite sum of finite non-negative floats is [+inf], and then the
    maximum of the row is a finite positive entry of the row *)
Lemma overflow_max : forall row : list float,
  Forall finnn row -> ~ Ffin (@sum FNum row) ->
  let m := fold_left f_max row 0%float in
  Fpinf (@sum FNum row) /\ Ffin m /\ 0 < FR m /\ In m row /\
  Forall (fun p => FR p <= FR m) row.
Proof.
  intros row Hrow Hnf m.
  destruct (sum_nni row Hrow) as [[Hf _]|Hi]; [contradiction|].
  destruct (fold_fmax row 0%float (Forall_finnn_Ffin row Hrow) Ffin_zero)
    as [G1 [G2 [G3 G4]]].
  fold m in G1, G2, G3, G4. rewrite FR_zero in G2.
  assert (Hm0 : 0 < FR m).
  { destruct (Rle_lt_or_eq_dec 0 (FR m) G2) as [H|H]; [exact H|]. exfalso. apply Hnf.
    rewrite sum_FNum.
    apply (fsum_zero row 0%float); [|apply Ffin_zero | apply FR_zero].
    rewrite Forall_forall in G3, Hrow. apply Forall_forall. intros p Hp.
    destruct (Hrow p Hp) as [Hpf Hp0]. split; [exact Hpf|].
    assert (Hpm := G3 p Hp). lra. }
  split; [exact Hi|]. split; [exact G1|]. split; [exact Hm0|]. split; [|exact G3].
  destruct G4 as [G4|G4]; [|exact G4].
  exfalso. rewrite G4, FR_zero in Hm0. lra.
Qed.

(** everything about the overflow branch: [m] the maximum, [row'] the weights
    divided by [m], [total'] their float sum *)
Lemma overflow_setup : forall row : list float,
  Forall finnn row ->
  (Z.of_nat (length row) < 2 ^ 53)%Z ->
  ~ Ffin (@sum FNum row) ->
  let m := fold_left f_max row 0%float in
  let row' := map (fun v => PrimFloat.div v m) row in
  let total' := fold_left PrimFloat.add row' 0%float in
  f_is_fin (@sum FNum row) = false /\
  Ffin m /\ 0 < FR m /\ In m row /\ Forall (fun p => FR p <= FR m) row /\
  Forall fin01 row' /\
  Ffin total' /\ 1 <= FR total' <= INR (length row) /\
  Forall (fun p => FR p <= FR total') row'.
Proof.
  intros row Hrow Hlen Hnf m row' total'.
  destruct (overflow_max row Hrow Hnf) as [Hi [Hmf [Hm0 [Hmin Hle]]]].
  fold m in Hmf, Hm0, Hmin, Hle.
  assert (Hfb : f_is_fin (@sum FNum row) = false).
  { destruct (f_is_fin (@sum FNum row)) eqn:E; [|reflexivity].
    exfalso. apply Hnf. apply f_is_fin_true. exact E. }
  assert (Hrow' : Forall fin01 row') by (apply map_div_valid; assumption).
  assert (Hlen' : length row' = length row) by apply map_length.
  assert (H0 : 0 <= FR 0%float <= IZR 0) by (rewrite FR_zero; lra).
  assert (Hb : (0 + Z.of_nat (length row') < 2 ^ 53)%Z) by lia.
  destruct (fsum_inv row' 0%float 0%Z Hrow' Ffin_zero H0 (Z.le_refl 0) Hb)
    as [G1 [G2 [G3 G4]]].
  fold total' in G1, G2, G3, G4.
  rewrite Z.add_0_l, Hlen', <- INR_IZR_INZ in G3.
  assert (Hone : In (m / m)%float row').
  { unfold row'. apply (in_map (fun v => PrimFloat.div v m)). exact Hmin. }
  assert (Ht1 : 1 <= FR total').
  { rewrite Forall_forall in G4. rewrite <- (div_self_one m Hmf Hm0). apply G4. exact Hone. }
  repeat split; assumption.
Qed.

Lemma finish_row_overflow_FNum : forall (row : list float) (total : float),
  f_is_fin total = false ->
  @finish_row FNum row total =
  map (fun v => PrimFloat.div v
                 (fold_left PrimFloat.add (map (fun v => PrimFloat.div v (fold_left f_max row 0%float)) row) 0%float))
      (map (fun v => PrimFloat.div v (fold_left f_max row 0%float)) row).
Proof. intros row total H. rewrite finish_row_FNum, H. reflexivity. Qed.

Theorem finish_row_float_valid_overflow : forall row : list float,
  Forall finnn row ->
  (Z.of_nat (length row) < 2 ^ 53)%Z ->
  ~ Ffin (@sum FNum row) ->
  let out := @finish_row FNum row (@sum FNum row) in
  Fpinf (@sum FNum row) /\
  Forall fin01 out /\
  (* non-degenerate: the largest weight gets at least (the rounding of) 1/n *)
  exists y, In y out /\ rnd (/ INR (length row)) <= FR y /\ bpow radix2 (-53) <= FR y.
Proof.
  intros row Hrow Hlen Hnf out.
  split; [apply (overflow_max row Hrow Hnf)|].
  destruct (overflow_setup row Hrow Hlen Hnf)
    as [Hfb [Hmf [Hm0 [Hmin [Hle [Hrow' [G1 [[Ht1 G3] G4]]]]]]]].
  unfold out. rewrite (finish_row_overflow_FNum _ _ Hfb).
  set (m := fold_left f_max row 0%float) in *.
  set (row' := map (fun v => PrimFloat.div v m) row) in *.
  set (total' := fold_left PrimFloat.add row' 0%float) in *.
  assert (Hone : In (m / m)%float row').
  { unfold row'. apply (in_map (fun v => PrimFloat.div v m)). exact Hmin. }
  assert (Ht0 : 0 < FR total') by lra.
  split.
  - apply map_div_valid; try assumption.
    apply Forall_impl with (2 := Hrow'). apply fin01_finnn.
  - exists ((m / m) / total')%float. split.
    + apply (in_map (fun v => PrimFloat.div v total')). exact Hone.
    + assert (Hmm := div_self_one m Hmf Hm0).
      assert (Hmmf : fin01 (m / m)%float).
      { rewrite Forall_forall in Hrow'. apply Hrow'. exact Hone. }
      destruct (div_part_ok (m / m)%float total' (proj1 Hmmf) G1 ltac:(lra) Ht0) as [_ He].
      rewrite He, Hmm.
      assert (Hn : / INR (length row) <= 1 / FR total').
      { unfold Rdiv. rewrite Rmult_1_l. apply Rinv_le_contravar; assumption. }
      split; [apply rnd_le; exact Hn|].
      apply rnd_ge_fmt; [apply fmt_bpow_m53|].
      apply Rle_trans with (2 := Hn).
      change (-53)%Z with (Z.opp 53). rewrite bpow_opp.
      apply Rinv_le_contravar; [lra|].
      rewrite INR_IZR_INZ. change (bpow radix2 53) with (IZR (2 ^ 53)).
      apply IZR_le. lia.
Qed.

Lemma fmt_bpow_m1021 : fmt (bpow radix2 (-1021)).
Proof.
  unfold fmt.
  apply (generic_format_FLT_bpow radix2 (SpecFloat.emin prec emax) prec).
  cbv. discriminate.
Qed.

(** The entries of the overflow branch, position by position. *)
Theorem finish_row_float_entries_overflow : forall row : list float,
  Forall finnn row ->
  (Z.of_nat (length row) < 2 ^ 53)%Z ->
  ~ Ffin (@sum FNum row) ->
  let out := @finish_row FNum row (@sum FNum row) in
  let m := fold_left (fmax FNum) row 0%float in
  let total' := @sum FNum (map (fun v => div FNum v m) row) in
  length out = length row /\
  Ffin m /\ 0 < FR m /\ In m row /\
  Ffin total' /\ 1 <= FR total' <= INR (length row) /\
  forall k, (k < length row)%nat ->
    let p := nth k row 0%float in
    let y := nth k out 0%float in
    y = ((p / m) / total')%float /\
    FR p <= FR m /\
    FR (p / m)%float = rnd (FR p / FR m) /\
    FR y = rnd (FR (p / m)%float / FR total') /\
    (FR p = 0 -> FR y = 0) /\
    (* the maximal weight gets at least 1/n *)
    (p = m -> rnd (/ INR (length row)) <= FR y) /\
    (* a weight that is not tiny against the maximum does not underflow to zero *)
    (bpow radix2 (-1021) * FR m <= FR p -> bpow radix2 (-1074) <= FR y).
Proof.
  intros row Hrow Hlen Hnf out m total'.
  split; [apply finish_row_length|].
  destruct (overflow_setup row Hrow Hlen Hnf)
    as [Hfb [Hmf [Hm0 [Hmin [Hle [Hrow' [G1 [[Ht1 G3] G4]]]]]]]].
  assert (Em : fold_left f_max row 0%float = m) by reflexivity.
  rewrite Em in Hmf, Hm0, Hmin, Hle, Hrow', G1, Ht1, G3, G4.
  assert (Et : fold_left PrimFloat.add (map (fun v => PrimFloat.div v m) row) 0%float = total')
    by reflexivity.
  rewrite Et in G1, Ht1, G3, G4.
  split; [exact Hmf|]. split; [exact Hm0|]. split; [exact Hmin|]. split; [exact G1|].
  split; [split; assumption|].
  intros k Hk p y.
  assert (Ht0 : 0 < FR total') by lra.
  assert (Hy : y = ((p / m) / total')%float).
  { unfold y, out. rewrite (finish_row_overflow_FNum _ _ Hfb). rewrite map_map.
    apply (nth_map_lt _ _ (fun v => PrimFloat.div (PrimFloat.div v m) total')). exact Hk. }
  assert (Hp : In p row) by (apply nth_In; exact Hk).
  rewrite Forall_forall in Hrow, Hle, Hrow', G4.
  destruct (Hrow p Hp) as [Hpf Hp0]. assert (Hpm := Hle p Hp).
  destruct (div_part_ok p m Hpf Hmf (conj Hp0 Hpm) Hm0) as [_ He1].
  assert (Hq : In (p / m)%float (map (fun v => PrimFloat.div v m) row)).
  { apply (in_map (fun v => PrimFloat.div v m)). exact Hp. }
  destruct (Hrow' _ Hq) as [Hqf [Hq0 _]]. assert (Hqt := G4 _ Hq).
  destruct (div_part_ok (p / m)%float total' Hqf G1 (conj Hq0 Hqt) Ht0) as [_ He2].
  rewrite <- Hy in He2.
  split; [exact Hy|]. split; [exact Hpm|]. split; [exact He1|]. split; [exact He2|].
  split; [|split].
  - intros Hz. rewrite He2, He1, Hz. unfold Rdiv. rewrite Rmult_0_l.
    rewrite (rnd_fmt 0 fmt_0), Rmult_0_l. apply rnd_fmt, fmt_0.
  - intros Hpeq. rewrite He2. rewrite Hpeq. rewrite (div_self_one m Hmf Hm0).
    apply rnd_le. unfold Rdiv. rewrite Rmult_1_l. apply Rinv_le_contravar; assumption.
  - intros Hbig. rewrite He2. apply rnd_ge_fmt; [apply fmt_bpow_emin|].
    assert (Hq1 : bpow radix2 (-1021) <= FR (p / m)%float).
    { rewrite He1. apply rnd_ge_fmt; [apply fmt_bpow_m1021|].
      apply Rmult_le_reg_r with (FR m); [exact Hm0|].
      unfold Rdiv. rewrite Rmult_assoc, Rinv_l, Rmult_1_r by lra. exact Hbig. }
    assert (Ht53 : FR total' <= bpow radix2 53).
    { apply Rle_trans with (1 := G3). rewrite INR_IZR_INZ.
      change (bpow radix2 53) with (IZR (2 ^ 53)). apply IZR_le. lia. }
    apply Rmult_le_reg_r with (FR total'); [exact Ht0|].
    unfold Rdiv. rewrite Rmult_assoc, Rinv_l, Rmult_1_r by lra.
    apply Rle_trans with (2 := Hq1).
    apply Rle_trans with (bpow radix2 (-1074) * bpow radix2 53).
    { apply Rmult_le_compat_l; [apply bpow_ge_0 | exact Ht53]. }
    rewrite <- bpow_plus. apply bpow_le. lia.
Qed.

(** ** 1+2. Import, every case: the repair D17 is complete at binary64 *)

Lemma sum_nonzero_cases : forall row : list float,
  Forall finnn row -> PrimFloat.eqb (@sum FNum row) 0 = false ->
  (Ffin (@sum FNum row) /\ 0 < FR (@sum FNum row)) \/ ~ Ffin (@sum FNum row).
Proof.
  intros row Hrow Hne.
  destruct (sum_nni row Hrow) as [[Hf H0]|Hi].
  - left. split; [exact Hf|].
    destruct (Rle_lt_or_eq_dec 0 _ H0) as [H|H]; [exact H|].
    exfalso. symmetry in H. apply (eqb_zero_fin _ Hf) in H. rewrite H in Hne. discriminate.
  - right. intros Hf. exact (Fpinf_not_fin _ Hi Hf).
Qed.

Theorem finish_row_float_valid : forall row : list float,
  Forall finnn row ->
  (Z.of_nat (length row) < 2 ^ 53)%Z ->
  eqb FNum (@sum FNum row) (zero FNum) = false ->
  Forall fin01 (@finish_row FNum row (@sum FNum row)).
Proof.
  intros row Hrow Hlen Hne.
  destruct (sum_nonzero_cases row Hrow Hne) as [[Hf Hpos]|Hnf].
  - apply finish_row_float_valid_fin; assumption.
  - apply (finish_row_float_valid_overflow row Hrow Hlen Hnf).
Qed.

(** all the rows of an imported profile *)
Theorem finish_rows_float_valid : forall (rows : list (list float)) (d : list float),
  Forall (fun row => Forall finnn row /\ (Z.of_nat (length row) < 2 ^ 53)%Z) rows ->
  @finish_rows FNum rows = SOk d ->
  Forall fin01 d.
Proof.
  induction rows as [|row rest IH]; intros d Hrows Hd; cbn [finish_rows] in Hd.
  - inversion Hd. constructor.
  - inversion Hrows as [|r' l' [Hrow Hlen] Hrest]; subst.
    destruct (eqb FNum (@sum FNum row) (zero FNum)) eqn:Hne; [discriminate Hd|].
    destruct (@finish_rows FNum rest) as [r|e] eqn:Hr; [|discriminate Hd].
    inversion Hd; subst d.
    apply Forall_app. split.
    + apply finish_row_float_valid; assumption.
    + apply IH; [exact Hrest | reflexivity].
Qed.

(** ** 3. Chance weights: [normalise] (repair D14) *)

Lemma Forall_finpos_finnn : forall l, Forall finpos l -> Forall finnn l.
Proof. intros l H. apply Forall_impl with (2 := H). apply finpos_finnn. Qed.

(** positive weights: the sum is never zero *)
Lemma sum_pos_cases : forall (w : float) (ws : list float),
  Forall finpos (w :: ws) ->
  (Ffin (@sum FNum (w :: ws)) /\ 0 < FR (@sum FNum (w :: ws))) \/ ~ Ffin (@sum FNum (w :: ws)).
Proof.
  intros w ws Hws.
  destruct (sum_nni (w :: ws) (Forall_finpos_finnn _ Hws)) as [[Hf H0]|Hi].
  - left. split; [exact Hf|].
    destruct (sum_fin_ge (w :: ws) (Forall_finpos_finnn _ Hws) Hf) as [_ Hge].
    inversion Hge as [|w' ws' Hw _]; subst. inversion Hws as [|w' ws' [_ Hw0] _]; subst. lra.
  - right. intros Hf. exact (Fpinf_not_fin _ Hi Hf).
Qed.

Theorem normalise_float_valid : forall ws : list float,
  Forall finpos ws ->
  (Z.of_nat (length ws) < 2 ^ 53)%Z ->
  Forall fin01 (@normalise FNum ws).
Proof.
  intros ws Hws Hlen. rewrite normalise_finish_row.
  destruct ws as [|w ws].
  - rewrite finish_row_FNum. cbv zeta. cbn [map]. destruct (f_is_fin _); constructor.
  - destruct (sum_pos_cases w ws Hws) as [[Hf Hpos]|Hnf].
    + apply finish_row_float_valid_fin; [apply Forall_finpos_finnn; exact Hws | exact Hf | exact Hpos].
    + apply (finish_row_float_valid_overflow _ (Forall_finpos_finnn _ Hws) Hlen Hnf).
Qed.

(** Positivity of every probability, when no quotient underflows.  The side
    condition depends on the branch: against the sum when it is finite, against
    the maximum when the sum overflows.  Without it a probability can be zero:
    see [ex_normalise_underflow]. *)
Theorem normalise_float_pos : forall ws : list float,
  Forall finpos ws ->
  (Z.of_nat (length ws) < 2 ^ 53)%Z ->
  let total := @sum FNum ws in
  let m := fold_left (fmax FNum) ws 0%float in
  let out := @normalise FNum ws in
  length out = length ws /\
  forall k, (k < length ws)%nat ->
    let w := nth k ws 0%float in
    let y := nth k out 0%float in
    (Ffin total -> bpow radix2 (-1074) * FR total <= FR w -> bpow radix2 (-1074) <= FR y) /\
    (~ Ffin total -> bpow radix2 (-1021) * FR m <= FR w -> bpow radix2 (-1074) <= FR y).
Proof.
  intros ws Hws Hlen total m out.
  assert (Hout : out = @finish_row FNum ws total) by reflexivity.
  split; [rewrite Hout; apply finish_row_length|].
  intros k Hk w y.
  destruct ws as [|w0 ws0]; [cbn [length] in Hk; lia|].
  set (ws := w0 :: ws0) in *.
  assert (Hnn : Forall finnn ws) by (apply Forall_finpos_finnn; exact Hws).
  split.
  - intros Hf Hbig.
    destruct (sum_pos_cases w0 ws0 Hws) as [[_ Hpos]|Hnf]; [|contradiction].
    destruct (finish_row_float_entries_fin ws Hnn Hf Hpos) as [_ He].
    destruct (He k Hk) as [_ [_ [_ [_ [_ H6]]]]]. apply H6. exact Hbig.
  - intros Hnf Hbig.
    destruct (finish_row_float_entries_overflow ws Hnn Hlen Hnf) as [_ [_ [_ [_ [_ [_ He]]]]]].
    destruct (He k Hk) as [_ [_ [_ [_ [_ [_ H7]]]]]]. apply H7. exact Hbig.
Qed.

(** ** 4. [avg_strat] *)

Lemma Forall_repeatT : forall (P : float -> Prop) (x : float) (n : nat),
  P x -> Forall P (@repeatT FNum x n).
Proof. intros P x n Hx. induction n as [|n IH]; cbn [repeatT]; constructor; assumption. Qed.

(** [usize as f64] is exact below 2^53 *)
Lemma f_of_N_small : forall n : nat, (Z.of_nat n < 2 ^ 53)%Z ->
  Ffin (f_of_N (N.of_nat n)) /\ FR (f_of_N (N.of_nat n)) = INR n.
Proof.
  intros n Hn. unfold f_of_N. rewrite nat_N_Z.
  assert (Hlt : (Z.of_nat n <? 2 ^ 62)%Z = true) by (apply Z.ltb_lt; lia).
  rewrite Hlt. unfold Ffin, FR. rewrite of_int63_equiv.
  rewrite Uint63.of_Z_spec.
  rewrite Z.mod_small by (split; [lia | change wB with (2 ^ 63)%Z; lia]).
  generalize (binary_normalize_correct prec emax Hp Hm mode_NE (Z.of_nat n) 0 false).
  cbv zeta. change (round_mode mode_NE) with ZnearestE.
  assert (Hx : F2R (Float radix2 (Z.of_nat n) 0) = IZR (Z.of_nat n)).
  { unfold F2R. cbn [Fnum Fexp bpow]. ring. }
  rewrite Hx.
  change (round radix2 (SpecFloat.fexp prec emax) ZnearestE (IZR (Z.of_nat n)))
    with (rnd (IZR (Z.of_nat n))).
  rewrite (rnd_fmt (IZR (Z.of_nat n))) by (apply fmt_IZR; lia).
  rewrite Rlt_bool_true.
  - intros [H1 [H2 _]]. split; [exact H2|]. rewrite H1. symmetry. apply INR_IZR_INZ.
  - rewrite Rabs_pos_eq by (apply IZR_le; lia).
    apply Rlt_trans with (2 := bpow53_lt_emax). apply IZR_lt. lia.
Qed.

(** the uniform row [1/n; ...; 1/n] *)
Lemma uniform_valid : forall l : list float,
  (Z.of_nat (length l) < 2 ^ 53)%Z ->
  Forall fin01 (@repeatT FNum (div FNum (one FNum) (@lenT FNum l)) (length l)).
Proof.
  intros l Hlen. destruct (length l) as [|n] eqn:Hn; [constructor|].
  apply Forall_repeatT.
  change (@lenT FNum l) with (f_of_N (N.of_nat (length l))). rewrite Hn. cbn [div one FNum].
  destruct (f_of_N_small (S n) Hlen) as [Hf He].
  assert (H1 : 1 <= INR (S n)) by (rewrite S_INR; assert (H := pos_INR n); lra).
  apply (div_part_ok 1%float _ Ffin_one Hf); rewrite ?FR_one, ?He; lra.
Qed.

Lemma uniform_value : forall l : list float,
  (0 < length l)%nat -> (Z.of_nat (length l) < 2 ^ 53)%Z ->
  FR (div FNum (one FNum) (@lenT FNum l)) = rnd (1 / INR (length l)).
Proof.
  intros l Hpos Hlen.
  change (@lenT FNum l) with (f_of_N (N.of_nat (length l))). cbn [div one FNum].
  destruct (f_of_N_small (length l) Hlen) as [Hf He].
  assert (H1 : 1 <= INR (length l)).
  { change 1 with (INR 1). apply le_INR. lia. }
  destruct (div_part_ok 1%float _ Ffin_one Hf) as [_ Hd]; rewrite ?FR_one, ?He; try lra.
  rewrite Hd, FR_one, He. reflexivity.
Qed.

Lemma div_fin_pinf : forall p t, Ffin p -> Fpinf t ->
  Ffin (p / t)%float /\ FR (p / t)%float = 0.
Proof.
  intros p t Hp Ht. unfold Ffin, FR, Fpinf in *. rewrite div_equiv, Ht.
  destruct (Prim2B p) as [s|s| |s m e He]; try discriminate Hp; split; reflexivity.
Qed.

Lemma map_div_pinf : forall (row : list float) (t : float),
  Forall Ffin row -> Fpinf t ->
  Forall (fun y => Ffin y /\ FR y = 0) (map (fun v => PrimFloat.div v t) row).
Proof.
  intros row t Hrow Ht. rewrite Forall_forall in Hrow. apply Forall_forall. intros y Hy.
  apply in_map_iff in Hy. destruct Hy as [p [Hy Hin]]. subst y.
  apply div_fin_pinf; [apply Hrow; exact Hin | exact Ht].
Qed.

Lemma zero_fin01 : forall y, Ffin y /\ FR y = 0 -> fin01 y.
Proof. intros y [Hf H0]. split; [exact Hf | rewrite H0; lra]. Qed.

Lemma avg_strat_FNum : forall cum : list float,
  @avg_strat FNum cum =
  if PrimFloat.eqb (@sum FNum cum) 0
  then @repeatT FNum (div FNum (one FNum) (@lenT FNum cum)) (length cum)
  else map (fun p => PrimFloat.div p (@sum FNum cum)) cum.
Proof. reflexivity. Qed.

(** every case, including an overflowing sum (then every entry is a zero: valid
    entries, although not a distribution) *)
Theorem avg_strat_float_valid : forall cum : list float,
  Forall finnn cum ->
  (Z.of_nat (length cum) < 2 ^ 53)%Z ->
  Forall fin01 (@avg_strat FNum cum).
Proof.
  intros cum Hcum Hlen. rewrite avg_strat_FNum.
  destruct (PrimFloat.eqb (@sum FNum cum) 0) eqn:Hz; [apply uniform_valid; exact Hlen|].
  destruct (sum_nonzero_cases cum Hcum Hz) as [[Hf Hpos]|Hnf].
  - destruct (sum_fin_ge cum Hcum Hf) as [_ Hge]. apply map_div_valid; assumption.
  - destruct (sum_nni cum Hcum) as [[Hf _]|Hi]; [contradiction|].
    apply Forall_impl with (1 := zero_fin01).
    apply map_div_pinf; [apply Forall_finnn_Ffin; exact Hcum | exact Hi].
Qed.

(** the entries, when the sum is finite *)
Theorem avg_strat_float_entries : forall cum : list float,
  Forall finnn cum ->
  (Z.of_nat (length cum) < 2 ^ 53)%Z ->
  Ffin (@sum FNum cum) ->
  let norm := @sum FNum cum in
  let out := @avg_strat FNum cum in
  length out = length cum /\
  (FR norm = 0 ->
     forall y, In y out -> FR y = rnd (1 / INR (length cum))) /\
  (0 < FR norm ->
     forall k, (k < length cum)%nat ->
       FR (nth k cum 0%float) <= FR norm /\
       FR (nth k out 0%float) = rnd (FR (nth k cum 0%float) / FR norm)).
Proof.
  intros cum Hcum Hlen Hf norm out.
  destruct (sum_fin_ge cum Hcum Hf) as [Hn0 Hge]. fold norm in Hn0, Hge, Hf.
  unfold out. rewrite avg_strat_FNum. fold norm.
  split; [|split].
  - destruct (PrimFloat.eqb norm 0).
    + clear. induction (length cum) as [|n IH]; cbn [repeatT length]; [reflexivity | f_equal; exact IH].
    + apply map_length.
  - intros Hz. rewrite (proj2 (eqb_zero_fin norm Hf) Hz).
    intros y Hy. destruct (length cum) as [|n] eqn:Hn; [destruct Hy|].
    assert (Hy' : y = div FNum (one FNum) (@lenT FNum cum)).
    { clear -Hy. induction (S n) as [|j IH]; cbn [repeatT] in Hy; [destruct Hy|].
      destruct Hy as [Hy|Hy]; [symmetry; exact Hy | apply IH; exact Hy]. }
    rewrite Hy', <- Hn. apply uniform_value; lia.
  - intros Hpos k Hk.
    assert (Hne : PrimFloat.eqb norm 0 = false).
    { destruct (PrimFloat.eqb norm 0) eqn:E; [|reflexivity].
      apply (eqb_zero_fin norm Hf) in E. lra. }
    rewrite Hne.
    assert (Hp : In (nth k cum 0%float) cum) by (apply nth_In; exact Hk).
    rewrite Forall_forall in Hge, Hcum. destruct (Hcum _ Hp) as [Hpf Hp0].
    split; [apply Hge; exact Hp|].
    apply eq_trans with (FR (PrimFloat.div (nth k cum 0%float) norm)).
    + apply f_equal.
      apply (nth_map_lt _ _ (fun p => PrimFloat.div p norm) cum k 0%float 0%float Hk).
    + apply (div_part_ok _ norm Hpf Hf (conj Hp0 (Hge _ Hp)) Hpos).
Qed.

(** ** 5. [regret_match]: every branch except the softmax one *)

Lemma Forall_one_hot : forall (n i k : nat), Forall fin01 (@one_hot_at FNum n i k).
Proof.
  induction n as [|n IH]; intros i k; cbn [one_hot_at]; constructor; [|apply IH].
  destruct (Nat.eqb i k); cbn [one zero FNum]; [|apply fin01_zero].
  split; [apply Ffin_one | rewrite FR_one; lra].
Qed.

Definition posb (v : float) : bool := PrimFloat.ltb 0 v.

Lemma regret_match_FNum : forall (p : @params FNum) (cum_reg : list float),
  @regret_match FNum p cum_reg =
  let n := length cum_reg in
  let norm := @sum FNum (filter posb cum_reg) in
  if PrimFloat.ltb 0 norm then
    map (fun r => if posb r then PrimFloat.div r norm else 0%float) cum_reg
  else
    match a_nopos p with
    | PosInf => match cum_reg with
                | [] => []
                | v :: r => @one_hot_at FNum n O (@argmax_last FNum r 1 O v)
                end
    | NegInf => match cum_reg with
                | [] => []
                | v :: r => @one_hot_at FNum n O (@argmin_first FNum r 1 O v)
                end
    | Fin w =>
        if PrimFloat.eqb w 0 then @repeatT FNum (div FNum (one FNum) (@lenT FNum cum_reg)) n
        else
          let shift :=
            match (if PrimFloat.ltb 0 w then @reduce_max FNum cum_reg else @reduce_min FNum cum_reg) with
            | Some m => m
            | None => 0%float
            end in
          let e := fun r => fexp (PrimFloat.mul (PrimFloat.sub r shift) w) in
          let norm := @sum FNum (map e cum_reg) in
          map (fun r => PrimFloat.div (e r) norm) cum_reg
    end.
Proof. reflexivity. Qed.

Lemma posb_finpos : forall r, Ffin r -> posb r = true -> finpos r.
Proof. intros r Hr Hp. split; [exact Hr | apply (ltb_zero_pos r Hr); exact Hp]. Qed.

Lemma filter_posb_finnn : forall l, Forall Ffin l -> Forall finnn (filter posb l).
Proof.
  intros l Hl. induction Hl as [|x l Hx Hl IH]; cbn [filter]; [constructor|].
  destruct (posb x) eqn:Hp; [|exact IH].
  constructor; [apply finpos_finnn, posb_finpos; assumption | exact IH].
Qed.

Lemma ltb_zero_pinf : forall t, Fpinf t -> PrimFloat.ltb 0 t = true.
Proof. intros t Ht. rewrite ltb_equiv, Prim2B_zero. unfold Fpinf in Ht. rewrite Ht. reflexivity. Qed.

(** the main branch: the positive regrets divided by their sum.  Any signs, no
    hypothesis on overflow: if the sum of the positive regrets overflows the row
    is all zeros (valid entries, not a distribution). *)
Theorem regret_match_float_main : forall (p : @params FNum) (cum_reg : list float),
  Forall Ffin cum_reg ->
  let norm := @sum FNum (filter (fun v => ltb FNum (zero FNum) v) cum_reg) in
  let out := @regret_match FNum p cum_reg in
  ltb FNum (zero FNum) norm = true ->
  Forall fin01 out /\
  length out = length cum_reg /\
  (Ffin norm /\ 0 < FR norm \/ Fpinf norm) /\
  forall k, (k < length cum_reg)%nat ->
    let r := nth k cum_reg 0%float in
    let y := nth k out 0%float in
    (* non-positive regret: exactly +0 *)
    (ltb FNum (zero FNum) r = false -> y = 0%float) /\
    (* positive regret: the correctly rounded quotient *)
    (ltb FNum (zero FNum) r = true -> Ffin norm ->
       FR r <= FR norm /\ FR y = rnd (FR r / FR norm)) /\
    (ltb FNum (zero FNum) r = true -> Fpinf norm -> FR y = 0).
Proof.
  intros p cum_reg Hcr norm out Hpos.
  change (fun v : T FNum => ltb FNum (zero FNum) v) with posb in norm.
  cbn [ltb zero FNum] in *.
  assert (Hout : out = map (fun r => if posb r then PrimFloat.div r norm else 0%float) cum_reg).
  { assert (Hpos' : PrimFloat.ltb 0 (@sum FNum (filter posb cum_reg)) = true) by exact Hpos.
    unfold out. rewrite regret_match_FNum. cbv zeta. rewrite Hpos'. reflexivity. }
  assert (Hk : Forall finnn (filter posb cum_reg)) by (apply filter_posb_finnn; exact Hcr).
  assert (Hcases : Ffin norm /\ 0 < FR norm \/ Fpinf norm).
  { destruct (sum_nni _ Hk) as [[Hf _]|Hi]; [left | right; exact Hi].
    split; [exact Hf | apply (ltb_zero_pos norm Hf); exact Hpos]. }
  assert (Hge : Ffin norm -> forall r, In r cum_reg -> posb r = true -> FR r <= FR norm).
  { intros Hf r Hr Hp. destruct (sum_fin_ge _ Hk Hf) as [_ Hge].
    rewrite Forall_forall in Hge. apply Hge. apply filter_In. split; assumption. }
  rewrite Forall_forall in Hcr.
  split; [|split; [|split; [exact Hcases|]]].
  - rewrite Hout. apply Forall_forall. intros y Hy.
    apply in_map_iff in Hy. destruct Hy as [r [Hy Hin]]. subst y.
    destruct (posb r) eqn:Hp; [|apply fin01_zero].
    destruct (posb_finpos r (Hcr r Hin) Hp) as [Hrf Hr0].
    destruct Hcases as [[Hf Hn0]|Hi].
    + apply (div_part_ok r norm Hrf Hf); [split; [lra | apply Hge; assumption] | exact Hn0].
    + apply zero_fin01. apply div_fin_pinf; assumption.
  - rewrite Hout. apply map_length.
  - intros k Hlt. set (r := nth k cum_reg 0%float). set (y := nth k out 0%float).
    assert (Hy : y = if posb r then PrimFloat.div r norm else 0%float).
    { unfold y. rewrite Hout.
      apply (nth_map_lt _ _ (fun r => if posb r then PrimFloat.div r norm else 0%float)). exact Hlt. }
    assert (Hin : In r cum_reg) by (apply nth_In; exact Hlt).
    fold (posb r).
    destruct (posb r) eqn:Hp.
    + destruct (posb_finpos r (Hcr r Hin) Hp) as [Hrf Hr0].
      split; [discriminate|]. split.
      * intros _ Hf. assert (Hrn := Hge Hf r Hin Hp). split; [exact Hrn|].
        rewrite Hy.
        assert (Hn0 : 0 < FR norm) by lra.
        apply (div_part_ok r norm Hrf Hf); [split; [lra | exact Hrn] | exact Hn0].
      * intros _ Hi. rewrite Hy. apply (div_fin_pinf r norm Hrf Hi).
    + split; [intros _; exact Hy|]. split; discriminate.
Qed.

(** all the branches that do not go through [exp] *)
Theorem regret_match_float_valid : forall (p : @params FNum) (cum_reg : list float),
  Forall Ffin cum_reg ->
  (Z.of_nat (length cum_reg) < 2 ^ 53)%Z ->
  let norm := @sum FNum (filter (fun v => ltb FNum (zero FNum) v) cum_reg) in
  (ltb FNum (zero FNum) norm = true \/
   match a_nopos p with Fin w => eqb FNum w (zero FNum) = true | _ => True end) ->
  Forall fin01 (@regret_match FNum p cum_reg).
Proof.
  intros p cum_reg Hcr Hlen norm Hbr.
  destruct (ltb FNum (zero FNum) norm) eqn:Hpos.
  - apply (regret_match_float_main p cum_reg Hcr Hpos).
  - destruct Hbr as [Hbr|Hbr]; [discriminate Hbr|].
    rewrite regret_match_FNum. cbv zeta.
    change (fun v : T FNum => ltb FNum (zero FNum) v) with posb in norm.
    cbn [ltb zero FNum eqb] in Hpos, Hbr.
    assert (Hpos' : PrimFloat.ltb 0 (@sum FNum (filter posb cum_reg)) = false) by exact Hpos.
    rewrite Hpos'.
    destruct (a_nopos p) as [|w|].
    + destruct cum_reg; [constructor | apply Forall_one_hot].
    + rewrite Hbr. apply uniform_valid. exact Hlen.
    + destruct cum_reg; [constructor | apply Forall_one_hot].
Qed.

(** when the main branch is not taken no regret is positive *)
Theorem regret_match_float_nopos : forall cum_reg : list float,
  Forall Ffin cum_reg ->
  ltb FNum (zero FNum) (@sum FNum (filter (fun v => ltb FNum (zero FNum) v) cum_reg)) = false ->
  forall r, In r cum_reg -> FR r <= 0.
Proof.
  intros cum_reg Hcr Hnp0 r Hr.
  assert (Hnp : PrimFloat.ltb 0 (@sum FNum (filter posb cum_reg)) = false) by exact Hnp0.
  clear Hnp0.
  assert (Hk : Forall finnn (filter posb cum_reg)) by (apply filter_posb_finnn; exact Hcr).
  destruct (sum_nni _ Hk) as [[Hf Hn0]|Hi]; [|rewrite (ltb_zero_pinf _ Hi) in Hnp; discriminate].
  destruct (Rle_or_lt (FR r) 0) as [H|H]; [exact H|]. exfalso.
  rewrite Forall_forall in Hcr.
  assert (Hp : posb r = true) by (apply (ltb_zero_pos r (Hcr r Hr)); exact H).
  destruct (sum_fin_ge _ Hk Hf) as [_ Hge]. rewrite Forall_forall in Hge.
  assert (Hrn : FR r <= FR (@sum FNum (filter posb cum_reg))) by (apply Hge, filter_In; split; assumption).
  assert (Hlt : PrimFloat.ltb 0 (@sum FNum (filter posb cum_reg)) = true)
    by (apply (ltb_zero_pos _ Hf); lra).
  rewrite Hlt in Hnp. discriminate.
Qed.

(** ** The sum of a normalised row is 1 up to rounding *)

(** float sum of finite non-negative terms against the exact sum, when the float
    sum is finite: relative error at most [length * 2^-53] *)
Lemma fsum_err_nn : forall (l : list float) (acc : float),
  Forall finnn l -> nni acc ->
  Ffin (fold_left PrimFloat.add l acc) ->
  Rabs (FR (fold_left PrimFloat.add l acc) - (FR acc + RS l))
  <= INR (length l) * u53 * FR (fold_left PrimFloat.add l acc).
Proof.
  induction l as [|p l IH]; intros acc Hl Ha Hf.
  - cbn [fold_left length INR]. rewrite RS_nil.
    replace (FR acc - (FR acc + 0)) with 0 by ring. rewrite Rabs_R0. lra.
  - inversion Hl as [|p' l' Hp Hl']; subst.
    change (length (p :: l)) with (S (length l)).
    rewrite S_INR, RS_cons. cbn [fold_left] in *.
    assert (Ha' := add_nni acc p Ha Hp).
    destruct (fsum_fin_inv l (acc + p)%float Hl' Ha' Hf) as [[G1 G1'] [G2 _]].
    specialize (IH (acc + p)%float Hl' Ha' Hf).
    destruct Ha as [Ha|Ha];
      [|exfalso; exact (Fpinf_not_fin _ (add_pinf_l acc p Ha (proj1 Hp)) G1)].
    destruct (add_nn acc p Ha Hp) as [[_ [He _]]|Hi];
      [|exfalso; exact (Fpinf_not_fin _ Hi G1)].
    assert (Hadd := add_err (FR acc) (FR p) (fmt_FR acc) (fmt_FR p)).
    rewrite <- He in Hadd.
    rewrite (Rabs_pos_eq (FR (acc + p)%float)) in Hadd by exact G1'.
    set (F := FR (fold_left PrimFloat.add l (acc + p)%float)) in *.
    set (a' := FR (acc + p)%float) in *.
    assert (Hu := u53_pos).
    assert (HuF : u53 * a' <= u53 * F) by (apply Rmult_le_compat_l; lra).
    apply Rabs_le_inv in IH. apply Rabs_le_inv in Hadd.
    apply Rabs_le.
    replace ((INR (length l) + 1) * u53 * F) with (INR (length l) * u53 * F + u53 * F) by ring.
    lra.
Qed.

(** the rounded quotients against the exact quotients *)
Lemma div_row_err : forall (t : float) (l : list float),
  Ffin t -> 0 < FR t ->
  (forall p, In p l -> Ffin p /\ 0 <= FR p <= FR t) ->
  Rabs (RS (map (fun p => PrimFloat.div p t) l) - RS l / FR t)
  <= u53 * (RS l / FR t) + INR (length l) * eta1075.
Proof.
  intros t l Ht Ht0. induction l as [|p l IH]; intros Hl.
  - cbn [map length INR]. rewrite RS_nil. unfold Rdiv.
    rewrite Rmult_0_l, Rminus_0_r, Rabs_R0. lra.
  - assert (IH' := IH (fun q Hq => Hl q (or_intror Hq))). clear IH.
    destruct (Hl p (or_introl eq_refl)) as [Hpf [Hp0 Hpt]].
    cbn [map].
    destruct (div_part_ok p t Hpf Ht (conj Hp0 Hpt) Ht0) as [_ He].
    change (length (p :: l)) with (S (length l)).
    rewrite S_INR, !RS_cons, He.
    assert (Hq0 : 0 <= FR p / FR t).
    { apply Rmult_le_pos; [exact Hp0 | left; apply Rinv_0_lt_compat; exact Ht0]. }
    assert (Hd := div_err (FR p / FR t)).
    rewrite (Rabs_pos_eq _ Hq0) in Hd.
    unfold Rdiv in *. rewrite Rmult_plus_distr_r.
    set (q := FR p * / FR t) in *.
    set (Kt := RS l * / FR t) in *.
    set (O' := RS (map (fun p0 : float => PrimFloat.div p0 t) l)) in *.
    set (M := INR (length l)) in *.
    apply Rabs_le_inv in IH'. apply Rabs_le_inv in Hd. apply Rabs_le.
    replace ((M + 1) * eta1075) with (M * eta1075 + eta1075) by ring.
    replace (u53 * (q + Kt)) with (u53 * q + u53 * Kt) by ring.
    lra.
Qed.

(** a row of finite non-negative floats divided by its (finite, positive) float sum *)
Theorem norm_row_sum : forall l : list float,
  Forall finnn l ->
  (Z.of_nat (length l) < 2 ^ 53)%Z ->
  Ffin (@sum FNum l) -> 0 < FR (@sum FNum l) ->
  Rabs (RS (map (fun p => PrimFloat.div p (@sum FNum l)) l) - 1)
  <= (2 * INR (length l) + 2) * bpow radix2 (-53).
Proof.
  intros l Hl Hlen Hf Hpos.
  destruct (sum_fin_ge l Hl Hf) as [_ Hge].
  assert (HB := fsum_err_nn l 0%float Hl (or_introl finnn_zero)).
  rewrite sum_FNum in Hf, Hpos, Hge |- *.
  set (total := fold_left PrimFloat.add l 0%float) in *.
  specialize (HB Hf). rewrite FR_zero, Rplus_0_l in HB.
  assert (HA := div_row_err total l Hf Hpos).
  assert (HA' : forall p, In p l -> Ffin p /\ 0 <= FR p <= FR total).
  { rewrite Forall_forall in Hl, Hge. intros p Hp. destruct (Hl p Hp) as [Hpf Hp0].
    split; [exact Hpf|]. split; [exact Hp0 | apply Hge; exact Hp]. }
  specialize (HA HA'). clear HA'.
  set (Ox := RS (map (fun p : float => PrimFloat.div p total) l)) in *.
  set (Sx := RS l) in *.
  set (t := FR total) in *.
  set (N := INR (length l)) in *.
  change (bpow radix2 (-53)) with u53.
  assert (Hu := u53_pos). assert (Heta := eta_pos). assert (Heu := eta_le_u53).
  assert (HN0 : 0 <= N) by apply pos_INR.
  assert (HNu : N * u53 <= 1).
  { unfold N. rewrite INR_IZR_INZ.
    apply Rle_trans with (IZR (2 ^ 53) * u53).
    - apply Rmult_le_compat_r; [lra | apply IZR_le; lia].
    - change (IZR (2 ^ 53)) with (bpow radix2 53). unfold u53.
      rewrite <- bpow_plus. right. reflexivity. }
  assert (HQ : Rabs (Sx / t - 1) <= N * u53).
  { assert (Hti : t * / t = 1) by (apply Rinv_r; lra).
    assert (Heq : Sx / t - 1 = - (t - Sx) * / t).
    { unfold Rdiv. transitivity (Sx * / t - t * / t); [rewrite Hti; reflexivity | ring]. }
    rewrite Heq.
    rewrite Rabs_mult, Rabs_Ropp, (Rabs_pos_eq (/ t)) by (left; apply Rinv_0_lt_compat; exact Hpos).
    apply Rmult_le_reg_r with t; [exact Hpos|].
    rewrite Rmult_assoc, Rinv_l, Rmult_1_r by lra. exact HB. }
  set (Q := Sx / t) in *.
  apply Rabs_le_inv in HQ. apply Rabs_le_inv in HA. apply Rabs_le.
  assert (HuQ : u53 * Q <= u53 + u53).
  { apply Rle_trans with (u53 * (1 + N * u53)).
    - apply Rmult_le_compat_l; lra.
    - assert (Hx : u53 * (N * u53) <= u53 * 1) by (apply Rmult_le_compat_l; lra).
      rewrite Rmult_plus_distr_l. lra. }
  assert (HNe : N * eta1075 <= N * u53) by (apply Rmult_le_compat_l; lra).
  replace ((2 * N + 2) * u53) with (2 * (N * u53) + 2 * u53) by ring.
  lra.
Qed.

(** import: both branches *)
Theorem finish_row_float_sum : forall row : list float,
  Forall finnn row ->
  (Z.of_nat (length row) < 2 ^ 53)%Z ->
  eqb FNum (@sum FNum row) (zero FNum) = false ->
  Rabs (RS (@finish_row FNum row (@sum FNum row)) - 1)
  <= (2 * INR (length row) + 2) * bpow radix2 (-53).
Proof.
  intros row Hrow Hlen Hne.
  destruct (sum_nonzero_cases row Hrow Hne) as [[Hf Hpos]|Hnf].
  - rewrite finish_row_FNum, (proj2 (f_is_fin_true _) Hf).
    apply norm_row_sum; assumption.
  - destruct (overflow_setup row Hrow Hlen Hnf)
      as [Hfb [_ [_ [_ [_ [Hrow' [G1 [[Ht1 _] _]]]]]]]].
    rewrite (finish_row_overflow_FNum _ _ Hfb).
    set (row' := map (fun v => PrimFloat.div v (fold_left f_max row 0%float)) row) in *.
    assert (Hlen' : length row' = length row) by apply map_length.
    rewrite <- Hlen'.
    apply (norm_row_sum row').
    + apply Forall_impl with (2 := Hrow'). apply fin01_finnn.
    + rewrite Hlen'. exact Hlen.
    + exact G1.
    + change (0 < FR (fold_left PrimFloat.add row' 0%float)). lra.
Qed.

Theorem normalise_float_sum : forall ws : list float,
  Forall finpos ws -> ws <> [] ->
  (Z.of_nat (length ws) < 2 ^ 53)%Z ->
  Rabs (RS (@normalise FNum ws) - 1) <= (2 * INR (length ws) + 2) * bpow radix2 (-53).
Proof.
  intros ws Hws Hne Hlen. rewrite normalise_finish_row.
  apply finish_row_float_sum; [apply Forall_finpos_finnn; exact Hws | exact Hlen|].
  destruct ws as [|w ws]; [contradiction Hne; reflexivity|].
  cbn [eqb zero FNum].
  destruct (sum_pos_cases w ws Hws) as [[Hf Hpos]|Hnf].
  - destruct (PrimFloat.eqb (@sum FNum (w :: ws)) 0) eqn:E; [|reflexivity].
    apply (eqb_zero_fin _ Hf) in E. lra.
  - destruct (sum_nni (w :: ws) (Forall_finpos_finnn _ Hws)) as [[Hf _]|Hi]; [contradiction|].
    apply eqb_pinf_zero. exact Hi.
Qed.

Theorem avg_strat_float_sum : forall cum : list float,
  Forall finnn cum ->
  (Z.of_nat (length cum) < 2 ^ 53)%Z ->
  Ffin (@sum FNum cum) -> 0 < FR (@sum FNum cum) ->
  Rabs (RS (@avg_strat FNum cum) - 1) <= (2 * INR (length cum) + 2) * bpow radix2 (-53).
Proof.
  intros cum Hcum Hlen Hf Hpos. rewrite avg_strat_FNum.
  assert (Hne : PrimFloat.eqb (@sum FNum cum) 0 = false).
  { destruct (PrimFloat.eqb (@sum FNum cum) 0) eqn:E; [|reflexivity].
    apply (eqb_zero_fin _ Hf) in E. lra. }
  rewrite Hne. apply norm_row_sum; assumption.
Qed.

Lemma RS_map_filter : forall (f : float -> bool) (g : float -> float) (l : list float),
  RS (map (fun r => if f r then g r else 0%float) l) = RS (map g (filter f l)).
Proof.
  intros f g l. induction l as [|x l IH]; cbn [map filter]; [reflexivity|].
  destruct (f x); cbn [map]; rewrite !RS_cons, IH; [reflexivity | rewrite FR_zero; ring].
Qed.

Theorem regret_match_float_sum : forall (p : @params FNum) (cum_reg : list float),
  Forall Ffin cum_reg ->
  (Z.of_nat (length cum_reg) < 2 ^ 53)%Z ->
  let norm := @sum FNum (filter (fun v => ltb FNum (zero FNum) v) cum_reg) in
  Ffin norm -> 0 < FR norm ->
  Rabs (RS (@regret_match FNum p cum_reg) - 1)
  <= (2 * INR (length cum_reg) + 2) * bpow radix2 (-53).
Proof.
  intros p cum_reg Hcr Hlen norm Hf Hpos.
  assert (Hf' : Ffin (@sum FNum (filter posb cum_reg))) by exact Hf.
  assert (Hpos' : 0 < FR (@sum FNum (filter posb cum_reg))) by exact Hpos.
  clearbody norm. clear Hf Hpos norm.
  assert (Hlt : PrimFloat.ltb 0 (@sum FNum (filter posb cum_reg)) = true)
    by (apply (ltb_zero_pos _ Hf'); exact Hpos').
  rewrite regret_match_FNum. cbv zeta. rewrite Hlt.
  rewrite (RS_map_filter posb (fun r => PrimFloat.div r (@sum FNum (filter posb cum_reg)))).
  assert (Hk : Forall finnn (filter posb cum_reg)) by (apply filter_posb_finnn; exact Hcr).
  assert (Hkl : (length (filter posb cum_reg) <= length cum_reg)%nat) by apply filter_length_le.
  apply Rle_trans with (1 := norm_row_sum _ Hk ltac:(lia) Hf' Hpos').
  apply Rmult_le_compat_r; [apply bpow_ge_0|].
  apply le_INR in Hkl. lra.
Qed.

(** ** 6. Examples *)

Lemma forallb_finnnb : forall row : list float,
  forallb finnnb row = true -> Forall finnn row.
Proof.
  intros row H. apply Forall_forall. intros x Hx.
  apply finnnb_spec. rewrite forallb_forall in H. apply H. exact Hx.
Qed.

(** 2^1023 + 2^1023 overflows: the repaired branch gives the uniform row *)
Definition ex_huge : list float := [0x1p+1023; 0x1p+1023]%float.

Example ex_huge_finnn : Forall finnn ex_huge.
Proof. apply forallb_finnnb. vm_compute. reflexivity. Qed.

Example ex_huge_sum : @sum FNum ex_huge = infinity.
Proof. vm_compute. reflexivity. Qed.

Example ex_finish_huge : @finish_row FNum ex_huge (@sum FNum ex_huge) = [0.5; 0.5]%float.
Proof. vm_compute. reflexivity. Qed.

(** what the unrepaired code computed on the same input: [v / inf = 0] *)
Example ex_finish_huge_unrepaired :
  map (fun v => PrimFloat.div v (@sum FNum ex_huge)) ex_huge = [0; 0]%float.
Proof. vm_compute. reflexivity. Qed.

Example ex_finish_huge_valid : Forall fin01 (@finish_row FNum ex_huge (@sum FNum ex_huge)).
Proof.
  apply finish_row_float_valid; [exact ex_huge_finnn | vm_compute; reflexivity | vm_compute; reflexivity].
Qed.

(** 1e308 is not a binary64 number; the nearest one is written exactly *)
Definition f1e308 : float := 0x1.1ccf385ebc8a0p+1023%float.

Example ex_normalise_1e308 : @normalise FNum [f1e308; f1e308] = [0.5; 0.5]%float.
Proof. vm_compute. reflexivity. Qed.

(** a chance probability can underflow to zero (the note in DESIGN):
    [5e-324; 1e308] gives [0; 1] *)
Example ex_normalise_underflow : @normalise FNum [0x1p-1074; f1e308]%float = [0; 1]%float.
Proof. vm_compute. reflexivity. Qed.

(** and in the overflow branch as well *)
Example ex_normalise_underflow_overflow :
  @normalise FNum [0x1p-1074; 0x1p+1023; 0x1p+1023]%float = [0; 0.5; 0.5]%float.
Proof. vm_compute. reflexivity. Qed.

Example ex_avg_strat : @avg_strat FNum [3; 1; 0; 4]%float = [0.375; 0.125; 0; 0.5]%float.
Proof. vm_compute. reflexivity. Qed.

Example ex_avg_strat_zero : @avg_strat FNum [0; 0; 0; 0]%float = [0.25; 0.25; 0.25; 0.25]%float.
Proof. vm_compute. reflexivity. Qed.

(** an overflowing sum of cumulative strategies gives an all-zero row: valid
    entries, not a distribution *)
Example ex_avg_strat_overflow : @avg_strat FNum ex_huge = [0; 0]%float.
Proof. vm_compute. reflexivity. Qed.

Definition ex_params : @params FNum := @mkParams FNum (@Fin FNum 1.5%float) (@Fin FNum 0%float) (@Fin FNum 2%float) (@Fin FNum 0%float).

Example ex_regret_match :
  @regret_match FNum ex_params [3; -2; 1; 0; -0]%float = [0.75; 0; 0.25; 0; 0]%float.
Proof. vm_compute. reflexivity. Qed.

Example ex_regret_match_nopos_uniform :
  @regret_match FNum ex_params [-3; -2; 0; -1]%float = [0.25; 0.25; 0.25; 0.25]%float.
Proof. vm_compute. reflexivity. Qed.

Example ex_regret_match_nopos_argmax :
  @regret_match FNum (@mkParams FNum (@Fin FNum 1.5%float) (@Fin FNum 0%float) (@Fin FNum 2%float) (@PosInf FNum))
     [-3; -1; -2; -1]%float = [0; 0; 0; 1]%float.
Proof. vm_compute. reflexivity. Qed.

(** positive regrets whose sum overflows: an all-zero row *)
Example ex_regret_match_overflow :
  @regret_match FNum ex_params [0x1p+1023; -1; 0x1p+1023]%float = [0; 0; 0]%float.
Proof. vm_compute. reflexivity. Qed.

Example ex_regret_match_valid :
  Forall fin01 (@regret_match FNum ex_params [3; -2; 1; 0; -0]%float).
Proof.
  apply regret_match_float_valid.
  - repeat constructor; vm_compute; reflexivity.
  - vm_compute. reflexivity.
  - left. vm_compute. reflexivity.
Qed.
