(** * Exec: the model instantiated at binary64 ([FNum]) with uniform rendering of
    results, used by the generated [cases_*.v] files of the correspondence check.
    Nothing here is proved or used in a proof. *)
From Coq Require Import Floats List NArith ZArith Bool.
From Cfr.theories Require Import Num FInst Tree Strat Eval Solve Incr VanillaMulti.
Import ListNotations.

Inductive out :=
| OF (f : float)
| ON (n : N)
| OB (b : bool)
| OL (l : list out)
| OTag (tag : N) (args : list out).

Definition gerr_code (e : gerr) : N :=
  match e with
  | EmptyChance => 0 | NonPositiveChance => 1 | ProbabilitiesNotEqual => 2
  | ImperfectRecall => 3 | EmptyPlayer => 4 | ActionsNotEqual => 5
  | ActionsNotUnique => 6 | NonFinitePayoff => 7
  end%N.

Definition serr_code (e : serr) : N :=
  match e with
  | InvalidInfoset => 0 | InvalidAction => 1 | InvalidProbability => 2
  | UninitializedInfoset => 3
  end%N.

Definition fgame := @game FNum.
Definition fgnode := @gnode FNum.
Definition prof := (list float * list float)%type.

Definition onat (n : nat) : out := ON (N.of_nat n).
Definition ofl (l : list float) : out := OL (map OF l).

(** tags: 0 = ok, 1 = error (with code), 2 = panic, 3 = skipped (source missing) *)
Definition o_ok (args : list out) := OTag 0 args.
Definition o_err (c : N) := OTag 1 [ON c].
Definition o_panic := OTag 2 [].
Definition o_skip := OTag 3 [].

Definition f_from_root (t : fgnode) : res fgame := @from_root FNum t.

Definition o_from_root (r : res fgame) : out :=
  match r with
  | Ok _ => o_ok []
  | Err e => o_err (gerr_code e)
  end.

Definition with_game {A} (r : res fgame) (f : fgame -> option A) : option A :=
  match r with Ok g => f g | Err _ => None end.

Definition o_num_infosets (r : res fgame) : out :=
  match r with Ok g => onat (num_infosets g) | Err _ => o_skip end.

(** profiles live in [option]: [None] = the operation that should have produced it failed *)
Definition f_import (fast : bool) (r : res fgame)
           (x : list (N * list (N * float)) * list (N * list (N * float)))
  : sres prof :=
  match r with
  | Ok g => if fast then @import_fast FNum g x else @import_slow FNum g x
  | Err _ => SErr InvalidInfoset
  end.

Definition o_import (r : sres prof) : out :=
  match r with SOk _ => o_ok [] | SErr e => o_err (serr_code e) end.

Definition p_of (r : sres prof) : option prof :=
  match r with SOk p => Some p | SErr _ => None end.

Definition f_truncate (r : res fgame) (h : float) (p : option prof) : option prof :=
  match r, p with
  | Ok g, Some p => Some (@truncate FNum g h p)
  | _, _ => None
  end.

Definition o_opt {A} (p : option A) : out :=
  match p with Some _ => o_ok [] | None => o_skip end.

Definition o_info (r : res fgame) (p : option prof) : out :=
  match r, p with
  | Ok g, Some p =>
      let i := @info FNum g p in
      o_ok [OF (si_util i); OF (si_reg1 i); OF (si_reg2 i); OF (si_regret i);
            OF (si_utility i false)]
  | _, _ => o_skip
  end.

Definition o_named_player (g : fgame) (pl : bool) (flat : list float) : out :=
  let it := @nsi_new FNum g pl flat in
  let items := @as_named FNum g pl flat in
  let lens := @nsi_lens FNum (S (S (nsi_len it))) it in
  OL [OL (map (fun e : N * list (N * float) =>
                 OL [ON (fst e); OL (map (fun ap : N * float => OL [ON (fst ap); OF (snd ap)]) (snd e))])
              items);
      OL (map (fun e : nat * list nat => OL [onat (fst e); OL (map onat (snd e))]) lens)].

Definition o_named (r : res fgame) (p : option prof) : out :=
  match r, p with
  | Ok g, Some p => o_ok [o_named_player g true (fst p); o_named_player g false (snd p)]
  | _, _ => o_skip
  end.

Definition o_distance (r : res fgame) (a b : option prof) (p : float) : out :=
  match r, a, b with
  | Ok g, Some a, Some b =>
      match @distance FNum g p a b with
      | Some (d1, d2) => o_ok [OF d1; OF d2]
      | None => o_panic
      end
  | _, _, _ => o_skip
  end.

(** round trip through the named view *)
Definition f_roundtrip (fast : bool) (r : res fgame) (p : option prof) : option (sres prof) :=
  match r, p with
  | Ok g, Some p =>
      let x := (@as_named FNum g true (fst p), @as_named FNum g false (snd p)) in
      Some (if fast then @import_fast FNum g x else @import_slow FNum g x)
  | _, _ => None
  end.

Definition o_roundtrip (x : option (sres prof)) : out :=
  match x with
  | None => o_skip
  | Some (SOk _) => o_ok []
  | Some (SErr e) => o_err (serr_code e)
  end.

Definition p_of_rt (x : option (sres prof)) : option prof :=
  match x with Some (SOk p) => Some p | _ => None end.

(** raw profile (the implementation cannot show it directly; used for [eq]) *)
Definition feqb_list (a b : list float) : bool := list_eqb PrimFloat.eqb a b.
Definition o_eq (a b : option prof) : out :=
  match a, b with
  | Some a, Some b => o_ok [OB (feqb_list (fst a) (fst b) && feqb_list (snd a) (snd b))]
  | _, _ => o_skip
  end.

(** constructors of raw trees at binary64, used by the generated case files *)
Definition FT (p : float) : fgnode := @GTerm FNum p.
Definition FC (info : option N) (outs : list (float * fgnode)) : fgnode := @GChance FNum info outs.
Definition FP (pl : bool) (info : N) (acts : list (N * fgnode)) : fgnode := @GPlayer FNum pl info acts.

(** ** Solving *)
Definition fext := @ext FNum.
Definition fparams := @params FNum.

Definition ext_of_float (x : float) : option fext :=
  if f_is_nan x then None
  else if PrimFloat.eqb x infinity then Some (@PosInf FNum)
  else if PrimFloat.eqb x neg_infinity then Some (@NegInf FNum)
  else Some (@Fin FNum x).

(** [RegretParams::new]: [None] = the constructor panics *)
Definition params_new (a b c d : float) : option fparams :=
  match ext_of_float a, ext_of_float b, ext_of_float c, ext_of_float d with
  | Some a, Some b, Some c, Some d =>
      let p := @mkParams FNum a b c d in
      if @params_ok FNum p then Some p else None
  | _, _, _, _ => None
  end.

(** pinned draws: [tab.[id].[pass mod len] mod (number of weights)], as the executor's hook *)
Definition table_draw (chance player : list (list N)) : @oracle FNum :=
  fun is_chance id pass ws =>
    let row := nth id (if is_chance then chance else player) [] in
    match row with
    | [] => O
    | _ => N.to_nat (N.modulo (nth (N.to_nat (N.modulo pass (N.of_nat (length row)))) row 0%N)
                              (N.of_nat (length ws)))
    end.

Definition no_draw : @oracle FNum := fun _ _ _ _ => O.

Definition fuel_cap : N := 200000%N.

Inductive solved :=
| SolveOk (strats : prof) (bounds : option (float * float)) (ran : N)
| SolveThreadOverflow
| SolveParamsPanic
| SolveSkip.

(** [Game::solve]; [threads = 0] means the machine's parallelism (never 1 here), any
    thread count other than one goes through the multi-threaded solvers, which by
    the theorems of C06/C07 return what the single-threaded ones return. *)
Definition f_solve (r : res fgame) (m : method) (draw : @oracle FNum) (p : option fparams)
           (budget : N) (max_reg : float) (threads : N) : solved :=
  match r, p with
  | Ok g, Some p =>
      if negb (N.eqb threads 1) && N.leb (2 ^ 64) (3 * threads) then SolveThreadOverflow
      else
        let fuel := N.to_nat (N.min budget fuel_cap) in
        let '(s, b, ran) := @solve_single FNum g m draw p fuel (fun b => PrimFloat.ltb b max_reg) in
        SolveOk s b ran
  | Ok _, None => SolveParamsPanic
  | _, _ => SolveSkip
  end.

(** The model of the multi-threaded unsampled / chance-sampled solver ([VanillaMulti.solve_multi]: frontier, tasks,
    payoff cache, cached traversal) executed under a concrete schedule of the atomic increments.  Over the reals
    every schedule gives [solve_single]'s result (C06/C07); at binary64 schedules differ by rounding, which is how the
    check tells a thread-count difference that the specified algorithm itself shows from a defect.
    Schedules: 0 as listed, 1 reversed, 2 even positions then odd ones, 3 second half first. *)
Fixpoint alt_split {A} (l : list A) : list A * list A :=
  match l with
  | [] => ([], [])
  | x :: r => let (a, b) := alt_split r in (x :: b, a)
  end.
Definition sched_of (k : N) (_ : N) (l : list (@incr FNum)) : list (@incr FNum) :=
  match k with
  | 0%N => l
  | 1%N => rev l
  | 2%N => let (a, b) := alt_split l in a ++ b
  | _ => let h := Nat.div2 (length l) in skipn h l ++ firstn h l
  end.

Definition f_solve_multi (r : res fgame) (m : method) (draw : @oracle FNum) (p : option fparams)
           (budget : N) (max_reg : float) (threads : N) (k : N) : solved :=
  match r, p with
  | Ok g, Some p =>
      match m with
      | External => SolveSkip
      | _ =>
          let sampled := match m with Sampled => true | _ => false end in
          let fuel := N.to_nat (N.min budget fuel_cap) in
          let '(s, b, ran) := @solve_multi FNum g sampled draw p fuel (fun b => PrimFloat.ltb b max_reg)
                                           (N.to_nat (3 * threads)) (sched_of k) in
          SolveOk s b ran
      end
  | Ok _, None => SolveParamsPanic
  | _, _ => SolveSkip
  end.

(** Conditioning of the regret sums (used only to judge thread-count differences): for each of the first [T]
    iterations of the unsampled / chance-sampled solver, the smallest ratio
    [|cum_regret after the pass| / (|cum_regret before| + sum of |increments| to that cell)] over all cells that
    receive an increment.  A ratio of (almost) zero means the cell's value is the result of cancellation: its sign, on
    which regret matching branches, depends on the order in which the workers' atomic additions happen to be made. *)
Definition cell_terms (incs : list (@incr FNum)) (pl : bool) (i a : nat) : float :=
  fold_left (fun (acc : float) (x : @incr FNum) =>
               match x with
               | @IReg _ pl' i' a' v => if Bool.eqb pl pl' && Nat.eqb i i' && Nat.eqb a a' then acc + abs (v : float) else acc
               | @IRegAll _ pl' i' v => if Bool.eqb pl pl' && Nat.eqb i i' then acc + abs (v : float) else acc
               | @IStrat _ _ _ _ => acc
               end) incs 0%float.

Definition iter_cancel (g : fgame) (sampled : bool) (draw : @oracle FNum) (it : N) (st : @pstate FNum) : float :=
  let incs := @vincs FNum (g_chance g) sampled draw (it - 1)%N (@strat_view FNum st) (g_root g) 1 1 1 in
  let st1 := fold_left (@apply_incr FNum) incs st in
  let per_player (pl : bool) :=
    fold_left (fun (acc : float) (ii : nat * @rinfo FNum) =>
                 let i := fst ii in
                 let before : list float := @cum_regret FNum (snd ii) in
                 let after : list float := @cum_regret FNum (@ri_get FNum st1 pl i) in
                 fold_left (fun (acc2 : float) (ab : nat * float) =>
                              let a := fst ab in
                              let terms := abs (snd ab) + cell_terms incs pl i a in
                              if 0 <? cell_terms incs pl i a
                              then f_min acc2 (abs (nth a after 0%float) / terms) else acc2)
                           (combine (seq 0 (length before)) before) acc)
              (combine (seq 0 (length (@ps_get FNum st pl))) (@ps_get FNum st pl)) infinity in
  f_min (per_player true) (per_player false).

Fixpoint cancel_loop (g : fgame) (m : method) (draw : @oracle FNum) (p : fparams) (n : nat) (it : N)
         (st : @pstate FNum) : list float :=
  match n with
  | O => []
  | S n' =>
      let sampled := match m with Sampled => true | _ => false end in
      iter_cancel g sampled draw it st ::
      cancel_loop g m draw p n' (it + 1)%N (fst (@one_iter FNum g m draw p it st))
  end.

Definition o_cancel (r : res fgame) (m : method) (draw : @oracle FNum) (p : option fparams) (budget : N) : out :=
  match r, p, m with
  | Ok g, Some p, External => o_skip
  | Ok g, Some p, _ => o_ok [ofl (cancel_loop g m draw p (N.to_nat (N.min budget 400)) 1%N (@init_state FNum g))]
  | _, _, _ => o_skip
  end.

Definition p_of_solved (s : solved) : option prof :=
  match s with SolveOk p _ _ => Some p | _ => None end.

Definition o_solved (s : solved) : out :=
  match s with
  | SolveOk _ (Some (b1, b2)) ran => o_ok [OF b1; OF b2; OF (f_max b1 b2); ON ran]
  | SolveOk _ None ran => o_ok [OF infinity; OF infinity; OF infinity; ON ran]
  | SolveThreadOverflow => o_err 0
  | SolveParamsPanic => OTag 4 []
  | SolveSkip => o_skip
  end.

Definition preset (n : N) : option fparams :=
  Some (match n with
        | 0 => @p_vanilla FNum | 1 => @p_lcfr FNum | 2 => @p_cfr_plus FNum
        | 3 => @p_dcfr FNum | 4 => @p_dcfr_prune FNum | _ => @p_default FNum
        end)%N.

Definition o_ext (e : fext) : out :=
  match e with
  | NegInf => OF neg_infinity
  | PosInf => OF infinity
  | Fin x => OF x
  end.
Definition o_params (p : option fparams) : out :=
  match p with
  | Some p => OL [o_ext (a_pos p); o_ext (a_neg p); o_ext (a_strat p); o_ext (a_nopos p)]
  | None => o_panic
  end.
Definition o_presets : out :=
  o_ok [OL (map (fun n => o_params (preset n)) [0; 1; 2; 3; 4; 5]%N)].

(** raw access for monitors: the flat profile *)
Definition o_flat (p : option prof) : out :=
  match p with Some p => o_ok [ofl (fst p); ofl (snd p)] | None => o_skip end.

Definition o_categorical (probs : list float) (us : list float) : out :=
  o_ok [OL (map (fun u => onat (@categorical FNum probs u)) us)].

(** ** Observer-mode support (C10): what the sampling sites must be shown *)
Definition o_chance_table (r : res fgame) : out :=
  match r with
  | Ok g => o_ok [OL (map ofl (g_chance g))]
  | Err _ => o_skip
  end.

(** current strategies ([strat] of every infoset, player one then player two) after [k]
    unthresholded iterations *)
Definition o_strats_after (r : res fgame) (m : method) (draw : @oracle FNum) (p : option fparams)
           (k : N) : out :=
  match r, p with
  | Ok g, Some p =>
      let '(st, _, _) := @solve_loop FNum g m draw p (fun _ => false) (N.to_nat k) 1%N
                                     (@init_state FNum g) None 0%N in
      o_ok [OL (map (fun ri => ofl (@strat FNum ri)) (fst st)); OL (map (fun ri => ofl (@strat FNum ri)) (snd st))]
  | _, _ => o_skip
  end.

(** ** The binary's pipeline ([Cli.v]) *)
From Cfr.theories Require Import Cli.

Definition fenode := @enode FNum.
Definition fjnode := @jnode FNum.
Definition ET (oid : N) (p1 p2 : float) : fenode := @ETerm FNum oid (p1, p2).
Definition EC (info : N) (acts : list (N * float * fenode)) (oid : N) (pay : option (float * float)) : fenode :=
  @EChance FNum info acts oid pay.
Definition EP (pl : bool) (info : N) (name : option N) (acts : list (N * fenode)) (oid : N)
           (pay : option (float * float)) : fenode := @EPlayer FNum pl info name acts oid pay.
Definition JT (x : float) : fjnode := @JTerm FNum x.
Definition JC (info : option N) (outs : list (N * (float * fjnode))) : fjnode := @JChance FNum info outs.
Definition JP (pl : bool) (info : N) (acts : list (N * fjnode)) : fjnode := @JPlayer FNum pl info acts.

Definition reject_code (r : reject) : N :=
  match r with
  | RDuplicateInfosets => 100 | RNonFinite => 101 | RNotConstantSum => 102
  | RGame e => gerr_code e
  end%N.

Definition numname_of (tab : list (N * N)) : N -> N :=
  fun k => match alookup k tab with Some n => n | None => 0%N end.

Definition f_gambit_tree (numnames : list (N * N)) (root : fenode) : loaded (fgnode * float) :=
  @gambit_tree FNum (numname_of numnames) root.

(** the tree handed to [from_root] (a rejected file yields a tree [from_root] refuses) and the constant *)
Definition tree_of_loaded (l : loaded (fgnode * float)) : fgnode :=
  match l with Loaded (t, _) => t | Rejected _ => FT nan end.
Definition sum_of_loaded (l : loaded (fgnode * float)) : float :=
  match l with Loaded (_, s) => s | Rejected _ => nan end.
Definition o_loaded (l : loaded (fgnode * float)) : out :=
  match l with
  | Loaded (t, s) =>
      match f_from_root t with
      | Ok _ => o_ok [OF s]
      | Err e => o_err (gerr_code e)
      end
  | Rejected r => o_err (reject_code r)
  end.

Definition f_json_tree (j : fjnode) : fgnode := @json_to_gnode FNum j.

Definition o_named_plain (l : list (N * list (N * float))) : out :=
  OL (map (fun e : N * list (N * float) =>
             OL [ON (fst e); OL (map (fun ap : N * float => OL [ON (fst ap); OF (snd ap)]) (snd e))]) l).

(** the [Output] object for a solved profile *)
Definition o_cli (r : res fgame) (sum clip : float) (p : option prof) : out :=
  match r, p with
  | Ok g, Some p =>
      let o := @cli_choose FNum g sum clip p in
      o_ok [OF (o_regret o); OF (o_util1 o); OF (o_util2 o); OF (o_reg1 o); OF (o_reg2 o); OB (o_pruned o);
            o_named_plain (@printed_strategy FNum g true (o_prof o));
            o_named_plain (@printed_strategy FNum g false (o_prof o))]
  | _, _ => o_skip
  end.
