(** * Exec: the model instantiated at binary64 ([FNum]) with uniform rendering of
    results, used by the generated [cases_*.v] files of the correspondence check.
    Nothing here is proved or used in a proof. *)
From Coq Require Import Floats List NArith ZArith Bool.
From Cfr.theories Require Import Num FInst Tree Strat Eval.
Import ListNotations.

Inductive out :=
| OF (f : float)
| ON (n : N)
| OB (b : bool)
| OL (l : list out)
| OTag (tag : N) (args : list out).

Definition gerr_code (e : gerr) : N :=
  match e with
  | EmptyChance => 0 | NonPositiveChance => 1 | ProbabilitiesNotEqual => 2
  | ImperfectRecall => 3 | EmptyPlayer => 4 | ActionsNotEqual => 5
  | ActionsNotUnique => 6 | NonFinitePayoff => 7
  end%N.

Definition serr_code (e : serr) : N :=
  match e with
  | InvalidInfoset => 0 | InvalidAction => 1 | InvalidProbability => 2
  | UninitializedInfoset => 3
  end%N.

Definition fgame := @game FNum.
Definition fgnode := @gnode FNum.
Definition prof := (list float * list float)%type.

Definition onat (n : nat) : out := ON (N.of_nat n).
Definition ofl (l : list float) : out := OL (map OF l).

(** tags: 0 = ok, 1 = error (with code), 2 = panic, 3 = skipped (source missing) *)
Definition o_ok (args : list out) := OTag 0 args.
Definition o_err (c : N) := OTag 1 [ON c].
Definition o_panic := OTag 2 [].
Definition o_skip := OTag 3 [].

Definition f_from_root (t : fgnode) : res fgame := @from_root FNum t.

Definition o_from_root (r : res fgame) : out :=
  match r with
  | Ok _ => o_ok []
  | Err e => o_err (gerr_code e)
  end.

Definition with_game {A} (r : res fgame) (f : fgame -> option A) : option A :=
  match r with Ok g => f g | Err _ => None end.

Definition o_num_infosets (r : res fgame) : out :=
  match r with Ok g => onat (num_infosets g) | Err _ => o_skip end.

(** profiles live in [option]: [None] = the operation that should have produced it failed *)
Definition f_import (fast : bool) (r : res fgame)
           (x : list (N * list (N * float)) * list (N * list (N * float)))
  : sres prof :=
  match r with
  | Ok g => if fast then @import_fast FNum g x else @import_slow FNum g x
  | Err _ => SErr InvalidInfoset
  end.

Definition o_import (r : sres prof) : out :=
  match r with SOk _ => o_ok [] | SErr e => o_err (serr_code e) end.

Definition p_of (r : sres prof) : option prof :=
  match r with SOk p => Some p | SErr _ => None end.

Definition f_truncate (r : res fgame) (h : float) (p : option prof) : option prof :=
  match r, p with
  | Ok g, Some p => Some (@truncate FNum g h p)
  | _, _ => None
  end.

Definition o_opt {A} (p : option A) : out :=
  match p with Some _ => o_ok [] | None => o_skip end.

Definition o_info (r : res fgame) (p : option prof) : out :=
  match r, p with
  | Ok g, Some p =>
      let i := @info FNum g p in
      o_ok [OF (si_util i); OF (si_reg1 i); OF (si_reg2 i); OF (si_regret i);
            OF (si_utility i false)]
  | _, _ => o_skip
  end.

Definition o_named_player (g : fgame) (pl : bool) (flat : list float) : out :=
  let it := @nsi_new FNum g pl flat in
  let items := @as_named FNum g pl flat in
  let lens := @nsi_lens FNum (S (S (nsi_len it))) it in
  OL [OL (map (fun e : N * list (N * float) =>
                 OL [ON (fst e); OL (map (fun ap : N * float => OL [ON (fst ap); OF (snd ap)]) (snd e))])
              items);
      OL (map (fun e : nat * list nat => OL [onat (fst e); OL (map onat (snd e))]) lens)].

Definition o_named (r : res fgame) (p : option prof) : out :=
  match r, p with
  | Ok g, Some p => o_ok [o_named_player g true (fst p); o_named_player g false (snd p)]
  | _, _ => o_skip
  end.

Definition o_distance (r : res fgame) (a b : option prof) (p : float) : out :=
  match r, a, b with
  | Ok g, Some a, Some b =>
      match @distance FNum g p a b with
      | Some (d1, d2) => o_ok [OF d1; OF d2]
      | None => o_panic
      end
  | _, _, _ => o_skip
  end.

(** round trip through the named view *)
Definition f_roundtrip (fast : bool) (r : res fgame) (p : option prof) : option (sres prof) :=
  match r, p with
  | Ok g, Some p =>
      let x := (@as_named FNum g true (fst p), @as_named FNum g false (snd p)) in
      Some (if fast then @import_fast FNum g x else @import_slow FNum g x)
  | _, _ => None
  end.

Definition o_roundtrip (x : option (sres prof)) : out :=
  match x with
  | None => o_skip
  | Some (SOk _) => o_ok []
  | Some (SErr e) => o_err (serr_code e)
  end.

Definition p_of_rt (x : option (sres prof)) : option prof :=
  match x with Some (SOk p) => Some p | _ => None end.

(** raw profile (the implementation cannot show it directly; used for [eq]) *)
Definition feqb_list (a b : list float) : bool := list_eqb PrimFloat.eqb a b.
Definition o_eq (a b : option prof) : out :=
  match a, b with
  | Some a, Some b => o_ok [OB (feqb_list (fst a) (fst b) && feqb_list (snd a) (snd b))]
  | _, _ => o_skip
  end.

(** constructors of raw trees at binary64, used by the generated case files *)
Definition FT (p : float) : fgnode := @GTerm FNum p.
Definition FC (info : option N) (outs : list (float * fgnode)) : fgnode := @GChance FNum info outs.
Definition FP (pl : bool) (info : N) (acts : list (N * fgnode)) : fgnode := @GPlayer FNum pl info acts.
