(** * Unbiased: the chance-sampled regret increments are unbiased.

    Fix the strategies [sg].  Draw one index per chance infoset, independently, with
    the weights of its chance row ([expect]: the finite expectation over all
    assignments [delta] of an index to every chance infoset).  If no chance infoset
    occurs twice on a root-to-leaf path ([NoRepeat]) then the expectation of the
    regret increment the chance-sampled pass makes at any (infoset, action) — with the
    oracle answering [delta] — is the increment [cfr_inc] of the unsampled pass
    ([sampled_unbiased]); likewise the expectation of the value returned by the sampled
    pass is the value of the unsampled one ([sampled_value_unbiased]).

    Proof: by [SampledRate.reg_sum_vincs_sampled] the pathwise increment is [cfr_inc]
    over the one-hot chance table of [delta]; [cfr_inc] is affine in every chance row
    separately when the infoset does not repeat on a path ([cfr_inc_affine]), so the
    rows can be replaced by one-hot rows one infoset at a time. *)
From Coq Require Import Reals List Lra Lia Bool Arith NArith.
From Cfr.theories Require Import Num RInst Tree GameWF Strat Eval Solve Valid TruncProofs
     SolveValidProofs LoopProofs Incr IterChar RmPotential CfMass CfrRate SampledRate.
Import ListNotations.
Open Scope R_scope.

Local Notation nodeR := (@node RNum).
Local Notation gameR := (@game RNum).
Local Notation pstateR := (@pstate RNum).
Local Notation incrR := (@incr RNum).
Local Notation oracleR := (@oracle RNum).

(** ** Weighted sums: [wsum r g = Σ_k r_k * g k] *)
Fixpoint wsum (r : list R) (g : nat -> R) : R :=
  match r with
  | [] => 0
  | x :: r' => x * g O + wsum r' (fun k => g (S k))
  end.

Lemma wsum_ext r (g h : nat -> R) :
  (forall k, (k < length r)%nat -> g k = h k) -> wsum r g = wsum r h.
Proof.
  revert g h; induction r as [|x r IH]; intros g h H; cbn [wsum]; [reflexivity|].
  rewrite (H O) by (cbn [length]; lia). f_equal. apply IH. intros k Hk. apply H. cbn [length]. lia.
Qed.

Lemma wsum_const r c : wsum r (fun _ => c) = Rsum r * c.
Proof. induction r as [|x r IH]; cbn [wsum Rsum]; [lra|]. rewrite IH. lra. Qed.

Lemma wsum_plus r (g h : nat -> R) : wsum r (fun k => g k + h k) = wsum r g + wsum r h.
Proof.
  revert g h; induction r as [|x r IH]; intros g h; cbn [wsum]; [lra|]. rewrite IH. lra.
Qed.

Lemma wsum_scal r c (g : nat -> R) : wsum r (fun k => c * g k) = c * wsum r g.
Proof. revert g; induction r as [|x r IH]; intros g; cbn [wsum]; [lra|]. rewrite IH. lra. Qed.

Lemma wsum_lin r (c : R) (g h : nat -> R) (b : bool) :
  Rsum r = 1 ->
  wsum r (fun k => (if b then c * (g k - h k) else 0)) =
  (if b then c * (wsum r g - wsum r h) else 0).
Proof.
  intros Hs. destruct b.
  - rewrite wsum_scal. f_equal.
    rewrite (wsum_ext r _ (fun k => g k + (-1) * h k)) by (intros; lra).
    rewrite wsum_plus, wsum_scal. lra.
  - rewrite wsum_const. lra.
Qed.

(** ** The expectation over one independent draw per chance infoset *)
Fixpoint expect (rows : list (list R)) (f : list nat -> R) : R :=
  match rows with
  | [] => f []
  | r :: rs => wsum r (fun k => expect rs (fun delta => f (k :: delta)))
  end.

Lemma expect_ext rows (f h : list nat -> R) :
  (forall delta, length delta = length rows -> f delta = h delta) -> expect rows f = expect rows h.
Proof.
  revert f h; induction rows as [|r rs IH]; intros f h H; cbn [expect].
  - now apply H.
  - apply wsum_ext. intros k _. apply IH. intros delta Hd. apply H. cbn [length]. lia.
Qed.

(** the total weight is one *)
Lemma expect_const rows c : Forall (fun r => Rsum r = 1) rows -> expect rows (fun _ => c) = c.
Proof.
  induction 1 as [|r rs Hr H IH]; cbn [expect]; [reflexivity|].
  rewrite (wsum_ext r _ (fun _ => c)) by (intros; apply IH). rewrite wsum_const, Hr. lra.
Qed.

(** the oracle that answers [delta] *)
Definition draw_of (delta : list nat) : oracleR := fun _ ci _ _ => nth ci delta O.

(** ** Occurrence of a chance infoset; no repetition on a path *)
Fixpoint coccurs (ci : nat) (n : nodeR) : bool :=
  match n with
  | Term _ => false
  | Chance ci' kids => Nat.eqb ci' ci || existsb (coccurs ci) kids
  | Player _ _ kids => existsb (coccurs ci) kids
  end.

Inductive NoRepeat : nodeR -> Prop :=
| NR_Term x : NoRepeat (@Term RNum x)
| NR_Chance ci kids :
    Forall (fun c => coccurs ci c = false) kids -> Forall NoRepeat kids ->
    NoRepeat (@Chance RNum ci kids)
| NR_Player pl i kids : Forall NoRepeat kids -> NoRepeat (@Player RNum pl i kids).

(** every chance node has as many children as its row has entries *)
Inductive CShaped (T : list (list R)) : nodeR -> Prop :=
| CS_Term x : CShaped T (@Term RNum x)
| CS_Chance ci kids :
    length kids = length (@row RNum T ci) -> Forall (CShaped T) kids ->
    CShaped T (@Chance RNum ci kids)
| CS_Player pl i kids : Forall (CShaped T) kids -> CShaped T (@Player RNum pl i kids).

Lemma CShaped_lens T T' n :
  (forall ci, length (@row RNum T' ci) = length (@row RNum T ci)) -> CShaped T n -> CShaped T' n.
Proof.
  intros HL. induction n as [x|ci kids IH|pl i kids IH] using node_ind'; intros HC;
    inversion HC as [|? ? EL HCk|? ? ? HCk]; subst; constructor;
    try (rewrite Forall_forall in *; intros c Hc; apply IH; auto).
  rewrite HL. exact EL.
Qed.

Lemma ValShaped_CShaped T sg n : ValShaped T sg n -> CShaped T n.
Proof.
  induction n as [x|ci kids IH|pl i kids IH] using node_ind'; intros HV;
    inversion HV as [|? ? EL HR HVk|? ? ? EL HR HVk]; subst; constructor;
    try (rewrite Forall_forall in *; intros c Hc; apply IH; auto).
  exact EL.
Qed.

(** ** Extensionality of the loops *)
Lemma sum_chance_ext (F G : nodeR -> R -> R -> R -> R) pc p1 p2 ps ks :
  Forall (fun c => forall qc q1 q2, F c qc q1 q2 = G c qc q1 q2) ks ->
  sum_chance F pc p1 p2 ps ks = sum_chance G pc p1 p2 ps ks.
Proof.
  intros H; revert ps; induction H as [|c ks Hc H IH]; intros ps; destruct ps as [|p ps];
    cbn [sum_chance]; try reflexivity. now rewrite Hc, IH.
Qed.

Lemma sum_player_ext (F G : nodeR -> R -> R -> R -> R) pl' pc p1 p2 ks ss :
  Forall (fun c => forall qc q1 q2, F c qc q1 q2 = G c qc q1 q2) ks ->
  sum_player F pl' pc p1 p2 ks ss = sum_player G pl' pc p1 p2 ks ss.
Proof.
  intros H; revert ss; induction H as [|c ks Hc H IH]; intros ss; destruct ss as [|p ss];
    cbn [sum_player]; try reflexivity. rewrite IH. destruct pl'; now rewrite Hc.
Qed.

Lemma act_val_ext' (f g : nodeR -> R) ks ss b :
  Forall (fun c => f c = g c) ks -> act_val f ks ss b = act_val g ks ss b.
Proof.
  intros H; revert ss b; induction H as [|c ks Hc H IH]; intros ss b; destruct ss as [|p ss];
    cbn [act_val]; try reflexivity. destruct b; [exact Hc|apply IH].
Qed.

(** ** [uval] and [cfr_inc] depend on the chance table through its rows only *)
Section TableExt.
  Context (sg : bool -> nat -> list R) (T T' : list (list R)).

  Lemma uval_table_ext n :
    (forall ci, coccurs ci n = true -> @row RNum T' ci = @row RNum T ci) ->
    uval T' sg n = uval T sg n.
  Proof.
    induction n as [x|ci kids IH|pl i kids IH] using node_ind'; intros H; cbn [uval].
    - reflexivity.
    - rewrite (H ci) by (cbn [coccurs]; now rewrite Nat.eqb_refl).
      apply val_chance_ext. rewrite Forall_forall in *. intros c Hc. apply IH; [assumption|].
      intros ci' Hci'. apply H. cbn [coccurs]. apply orb_true_iff. right.
      apply existsb_exists. eauto.
    - apply val_player_ext. rewrite Forall_forall in *. intros c Hc. apply IH; [assumption|].
      intros ci' Hci'. apply H. cbn [coccurs]. apply existsb_exists. eauto.
  Qed.

  Lemma cfr_inc_table_ext pl i a n :
    (forall ci, coccurs ci n = true -> @row RNum T' ci = @row RNum T ci) ->
    forall pc p1 p2, cfr_inc T' sg pl i a n pc p1 p2 = cfr_inc T sg pl i a n pc p1 p2.
  Proof.
    induction n as [x|ci kids IH|pl' i' kids IH] using node_ind'; intros H pc p1 p2; cbn [cfr_inc].
    - reflexivity.
    - rewrite (H ci) by (cbn [coccurs]; now rewrite Nat.eqb_refl).
      apply sum_chance_ext. rewrite Forall_forall in *. intros c Hc. apply IH; [assumption|].
      intros ci' Hci'. apply H. cbn [coccurs]. apply orb_true_iff. right.
      apply existsb_exists. eauto.
    - assert (HK : forall c, In c kids ->
                forall ci, coccurs ci c = true -> @row RNum T' ci = @row RNum T ci).
      { intros c Hc ci' Hci'. apply H. cbn [coccurs]. apply existsb_exists. eauto. }
      f_equal.
      + destruct (is_info pl' i' pl i); [|reflexivity]. f_equal. unfold node_regret.
        assert (HU : Forall (fun c => uval T' sg c = uval T sg c) kids).
        { apply Forall_forall. intros c Hc. apply uval_table_ext. now apply HK. }
        now rewrite (act_val_ext' _ _ kids _ a HU), (val_player_ext _ _ kids _ 0 HU).
      + apply sum_player_ext. rewrite Forall_forall in *. intros c Hc. apply IH; auto.
        now apply HK.
  Qed.
End TableExt.

(** [cfr_inc] is homogeneous in the chance reach *)
Lemma cfr_inc_scale_pc T sg pl i a n :
  forall x pc p1 p2, cfr_inc T sg pl i a n (pc * x) p1 p2 = x * cfr_inc T sg pl i a n pc p1 p2.
Proof.
  induction n as [y|ci kids IH|pl' i' kids IH] using node_ind'; intros x pc p1 p2; cbn [cfr_inc].
  - lra.
  - generalize (@row RNum T ci) as ps.
    induction IH as [|c ks Hc H IH']; intros ps; destruct ps as [|p ps]; cbn [sum_chance]; try lra.
    rewrite IH'. replace (pc * x * p) with (pc * p * x) by ring. rewrite Hc. lra.
  - rewrite Rmult_plus_distr_l. f_equal.
    + destruct (is_info pl' i' pl i); [|lra]. unfold cfw. destruct pl'; ring.
    + generalize (sg pl' i') as ss.
      induction IH as [|c ks Hc H IH']; intros ss; destruct ss as [|p ss]; cbn [sum_player]; try lra.
      rewrite IH'. destruct pl'; rewrite Hc; lra.
Qed.

(** ** The loops commute with weighted sums *)
Section LoopsWsum.
  Context (r : list R).

  Lemma val_chance_wsum (V : nodeR -> R) (U : nat -> nodeR -> R) ks :
    Forall (fun c => V c = wsum r (fun k => U k c)) ks ->
    forall ps, @val_chance RNum V ps ks 0 = wsum r (fun k => @val_chance RNum (U k) ps ks 0).
  Proof.
    induction 1 as [|c ks Hc H IH]; intros ps; destruct ps as [|p ps]; cbn [val_chance];
      try (rewrite wsum_const; change (zero RNum) with 0; lra).
    change (add RNum) with Rplus. change (mul RNum) with Rmult. change (zero RNum) with 0.
    rewrite val_chance_acc, IH, Hc.
    rewrite (wsum_ext r (fun k => @val_chance RNum (U k) ps ks (0 + p * U k c))
                      (fun k => p * U k c + @val_chance RNum (U k) ps ks 0))
      by (intros k _; rewrite val_chance_acc; lra).
    rewrite wsum_plus, wsum_scal. lra.
  Qed.

  Lemma val_player_wsum (V : nodeR -> R) (U : nat -> nodeR -> R) ks :
    Forall (fun c => V c = wsum r (fun k => U k c)) ks ->
    forall ss, @val_player RNum V ks ss 0 = wsum r (fun k => @val_player RNum (U k) ks ss 0).
  Proof.
    induction 1 as [|c ks Hc H IH]; intros ss; destruct ss as [|p ss]; cbn [val_player];
      try (rewrite wsum_const; change (zero RNum) with 0; lra).
    change (add RNum) with Rplus. change (mul RNum) with Rmult. change (zero RNum) with 0.
    rewrite val_player_acc, IH, Hc.
    rewrite (wsum_ext r (fun k => @val_player RNum (U k) ks ss (0 + p * U k c))
                      (fun k => p * U k c + @val_player RNum (U k) ks ss 0))
      by (intros k _; rewrite val_player_acc; lra).
    rewrite wsum_plus, wsum_scal. lra.
  Qed.

  Lemma act_val_wsum (V : nodeR -> R) (U : nat -> nodeR -> R) ks :
    Forall (fun c => V c = wsum r (fun k => U k c)) ks ->
    forall ss a, act_val V ks ss a = wsum r (fun k => act_val (U k) ks ss a).
  Proof.
    induction 1 as [|c ks Hc H IH]; intros ss a; destruct ss as [|p ss]; cbn [act_val];
      try (rewrite wsum_const; lra).
    destruct a as [|a]; [exact Hc|apply IH].
  Qed.

  Lemma sum_chance_wsum (F : nodeR -> R -> R -> R -> R) (Fk : nat -> nodeR -> R -> R -> R -> R)
        pc p1 p2 ks :
    Forall (fun c => forall qc q1 q2, F c qc q1 q2 = wsum r (fun k => Fk k c qc q1 q2)) ks ->
    forall ps, sum_chance F pc p1 p2 ps ks = wsum r (fun k => sum_chance (Fk k) pc p1 p2 ps ks).
  Proof.
    induction 1 as [|c ks Hc H IH]; intros ps; destruct ps as [|p ps]; cbn [sum_chance];
      try (rewrite wsum_const; lra).
    rewrite Hc, IH, <- wsum_plus. reflexivity.
  Qed.

  Lemma sum_player_wsum (F : nodeR -> R -> R -> R -> R) (Fk : nat -> nodeR -> R -> R -> R -> R)
        pl' pc p1 p2 ks :
    Forall (fun c => forall qc q1 q2, F c qc q1 q2 = wsum r (fun k => Fk k c qc q1 q2)) ks ->
    forall ss, sum_player F pl' pc p1 p2 ks ss = wsum r (fun k => sum_player (Fk k) pl' pc p1 p2 ks ss).
  Proof.
    induction 1 as [|c ks Hc H IH]; intros ss; destruct ss as [|p ss]; cbn [sum_player];
      try (rewrite wsum_const; lra).
    rewrite IH. destruct pl'; rewrite Hc, <- wsum_plus; reflexivity.
  Qed.
End LoopsWsum.

(** a chance row against its own children: the weighted sum of the picks *)
Lemma val_chance_wsum_pick (f : nodeR -> R) r ks :
  length ks = length r ->
  @val_chance RNum f r ks 0 = wsum r (fun k => @val_pick RNum f ks k).
Proof.
  revert ks; induction r as [|x r IH]; intros ks E; destruct ks as [|c ks]; try discriminate;
    cbn [val_chance wsum val_pick]; [reflexivity|].
  change (add RNum) with Rplus. change (mul RNum) with Rmult.
  change (zero RNum) with 0. change (one RNum) with 1.
  rewrite val_chance_acc, IH by (cbn [length] in E; lia). lra.
Qed.

Lemma sum_chance_wsum_pick (F : nodeR -> R -> R -> R -> R) pc p1 p2 r ks :
  (forall c x qc q1 q2, F c (qc * x) q1 q2 = x * F c qc q1 q2) ->
  length ks = length r ->
  sum_chance F pc p1 p2 r ks =
  wsum r (fun k => match nth_error ks k with Some c => F c (pc * 1) p1 p2 | None => 0 end).
Proof.
  intros HF. revert ks; induction r as [|x r IH]; intros ks E; destruct ks as [|c ks];
    try discriminate; cbn [sum_chance wsum nth_error]; [reflexivity|].
  rewrite IH by (cbn [length] in E; lia). rewrite !HF. lra.
Qed.

(** ** [uval] and [cfr_inc] are affine in one chance row (no repetition on a path) *)
Section Affine.
  Context (sg : bool -> nat -> list R) (T : list (list R)) (Tk : nat -> list (list R))
          (ci : nat).
  Local Notation r := (@row RNum T ci).
  Context (Hsum : Rsum r = 1)
          (Hk : forall k, @row RNum (Tk k) ci = hot (length r) k)
          (Ho : forall k ci', ci' <> ci -> @row RNum (Tk k) ci' = @row RNum T ci').

  Lemma Tk_ext k n :
    coccurs ci n = false ->
    forall ci', coccurs ci' n = true -> @row RNum (Tk k) ci' = @row RNum T ci'.
  Proof.
    intros Hn ci' Hci'. apply Ho. intros ->. rewrite Hn in Hci'. discriminate.
  Qed.

  Theorem uval_affine n :
    NoRepeat n -> CShaped T n -> uval T sg n = wsum r (fun k => uval (Tk k) sg n).
  Proof.
    induction n as [x|ci' kids IH|pl i kids IH] using node_ind'; intros HN HC;
      inversion HN as [|? ? HNo HNk|? ? ? HNk]; subst;
      inversion HC as [|? ? EL HCk|? ? ? HCk]; subst; cbn [uval].
    - rewrite wsum_const, Hsum. lra.
    - destruct (Nat.eq_dec ci' ci) as [->|Hne].
      + rewrite val_chance_wsum_pick by assumption.
        apply wsum_ext. intros k _. rewrite Hk, <- EL, val_chance_hot, Rplus_0_l.
        apply val_pick_ext. rewrite Forall_forall in *. intros c Hc. symmetry.
        apply uval_table_ext. apply Tk_ext. now apply HNo.
      + rewrite (wsum_ext r _ (fun k => @val_chance RNum (uval (Tk k) sg) (@row RNum T ci') kids 0))
          by (intros k _; now rewrite Ho).
        apply val_chance_wsum. rewrite Forall_forall in *. intros c Hc. apply IH; auto.
    - apply val_player_wsum. rewrite Forall_forall in *. intros c Hc. apply IH; auto.
  Qed.

  Theorem cfr_inc_affine pl i a n :
    NoRepeat n -> CShaped T n ->
    forall pc p1 p2,
    cfr_inc T sg pl i a n pc p1 p2 = wsum r (fun k => cfr_inc (Tk k) sg pl i a n pc p1 p2).
  Proof.
    induction n as [x|ci' kids IH|pl' i' kids IH] using node_ind'; intros HN HC pc p1 p2;
      inversion HN as [|? ? HNo HNk|? ? ? HNk]; subst;
      inversion HC as [|? ? EL HCk|? ? ? HCk]; subst; cbn [cfr_inc].
    - rewrite wsum_const. lra.
    - destruct (Nat.eq_dec ci' ci) as [->|Hne].
      + rewrite sum_chance_wsum_pick by (try assumption; intros; apply cfr_inc_scale_pc).
        apply wsum_ext. intros k _. rewrite Hk, <- EL.
        rewrite sum_chance_hot by (intros; apply cfr_inc_zero_pc).
        destruct (nth_error kids k) as [c|] eqn:Ek; [|reflexivity].
        apply nth_error_In in Ek. rewrite Forall_forall in *. symmetry.
        apply cfr_inc_table_ext. apply Tk_ext. now apply HNo.
      + rewrite (wsum_ext r _ (fun k => sum_chance (cfr_inc (Tk k) sg pl i a) pc p1 p2
                                                   (@row RNum T ci') kids))
          by (intros k _; now rewrite Ho).
        apply sum_chance_wsum. rewrite Forall_forall in *. intros c Hc. apply IH; auto.
    - rewrite wsum_plus. f_equal.
      + unfold node_regret. rewrite wsum_lin by assumption.
        assert (HU : Forall (fun c => uval T sg c = wsum r (fun k => uval (Tk k) sg c)) kids).
        { rewrite Forall_forall in *. intros c Hc. apply uval_affine; auto. }
        now rewrite <- (act_val_wsum r _ _ kids HU), <- (val_player_wsum r _ _ kids HU).
      + apply sum_player_wsum. rewrite Forall_forall in *. intros c Hc. apply IH; auto.
  Qed.
End Affine.

(** ** Replacing the rows by one-hot rows, one chance infoset at a time *)
Fixpoint hots (rows : list (list R)) (delta : list nat) : list (list R) :=
  match rows, delta with
  | r :: rs, k :: d => hot (length r) k :: hots rs d
  | _, _ => []
  end.

Lemma row_middle (pre : list (list R)) x rs : @row RNum (pre ++ x :: rs) (length pre) = x.
Proof. unfold row. apply nth_middle. Qed.

Lemma row_app_other (pre : list (list R)) x y rs ci :
  ci <> length pre -> @row RNum (pre ++ x :: rs) ci = @row RNum (pre ++ y :: rs) ci.
Proof.
  intros Hne. unfold row. destruct (Nat.lt_ge_cases ci (length pre)) as [Hlt|Hge].
  - now rewrite !app_nth1 by assumption.
  - rewrite !app_nth2 by assumption.
    destruct (ci - length pre)%nat as [|m] eqn:E; [lia|reflexivity].
Qed.

Lemma expect_hots (G : list (list R) -> R) (P : list (list R) -> Prop) :
  (forall pre r rs, P (pre ++ r :: rs) -> Rsum r = 1 ->
                    G (pre ++ r :: rs) = wsum r (fun k => G (pre ++ hot (length r) k :: rs))) ->
  (forall pre r rs k, P (pre ++ r :: rs) -> P (pre ++ hot (length r) k :: rs)) ->
  forall rest pre, Forall (fun r => Rsum r = 1) rest -> P (pre ++ rest) ->
  expect rest (fun delta => G (pre ++ hots rest delta)) = G (pre ++ rest).
Proof.
  intros HG HP. induction rest as [|r rs IH]; intros pre HF HPre; cbn [expect].
  - reflexivity.
  - inversion HF as [|? ? Hr HF']; subst. rewrite HG by assumption.
    apply wsum_ext. intros k _.
    rewrite (expect_ext rs _ (fun delta => G ((pre ++ [hot (length r) k]) ++ hots rs delta)))
      by (intros delta _; cbn [hots]; now rewrite <- app_assoc).
    rewrite IH; [now rewrite <- app_assoc|assumption|].
    rewrite <- app_assoc. cbn [app]. now apply HP.
Qed.

Lemma row_hots rows delta ci :
  length delta = length rows ->
  @row RNum (hots rows delta) ci = hot (length (@row RNum rows ci)) (nth ci delta O).
Proof.
  unfold row. revert delta ci; induction rows as [|r rs IH]; intros delta ci E;
    destruct delta as [|k d]; try discriminate; cbn [hots].
  - destruct ci; reflexivity.
  - destruct ci as [|ci]; cbn [nth]; [reflexivity|]. apply IH. cbn [length] in E. lia.
Qed.

Section Unbiased.
  Context (chance : list (list R)) (sg : bool -> nat -> list R) (n : nodeR).
  Context (Hrows : Forall (fun r => Rsum r = 1) chance) (HN : NoRepeat n).

  Lemma CShaped_hot pre r rs k :
    CShaped (pre ++ r :: rs) n -> CShaped (pre ++ hot (length r) k :: rs) n.
  Proof.
    apply CShaped_lens. intros ci. destruct (Nat.eq_dec ci (length pre)) as [->|Hne].
    - now rewrite !row_middle, hot_length.
    - now rewrite (row_app_other pre _ r).
  Qed.

  (** all rows replaced: the fully sampled table *)
  Theorem expect_cfr_inc pl i a pc p1 p2 :
    CShaped chance n ->
    expect chance (fun delta => cfr_inc (hots chance delta) sg pl i a n pc p1 p2) =
    cfr_inc chance sg pl i a n pc p1 p2.
  Proof.
    intros HC.
    apply (expect_hots (fun T => cfr_inc T sg pl i a n pc p1 p2) (fun T => CShaped T n))
      with (pre := []); try assumption.
    - intros pre r rs HP Hr.
      rewrite <- (row_middle pre r rs) at 2.
      apply (cfr_inc_affine sg (pre ++ r :: rs) (fun k => pre ++ hot (length r) k :: rs)
                            (length pre)); try assumption.
      + now rewrite row_middle.
      + intros k. now rewrite !row_middle.
      + intros k ci' Hne. now apply row_app_other.
    - intros pre r rs k. apply CShaped_hot.
  Qed.

  Theorem expect_uval :
    CShaped chance n ->
    expect chance (fun delta => uval (hots chance delta) sg n) = uval chance sg n.
  Proof.
    intros HC.
    apply (expect_hots (fun T => uval T sg n) (fun T => CShaped T n)) with (pre := []);
      try assumption.
    - intros pre r rs HP Hr.
      rewrite <- (row_middle pre r rs) at 2.
      apply (uval_affine sg (pre ++ r :: rs) (fun k => pre ++ hot (length r) k :: rs)
                         (length pre)); try assumption.
      + now rewrite row_middle.
      + intros k. now rewrite !row_middle.
      + intros k ci' Hne. now apply row_app_other.
    - intros pre r rs k. apply CShaped_hot.
  Qed.

  (** *** Unbiasedness of the sampled regret increments and of the sampled value *)
  Theorem sampled_unbiased pass pl i a pc p1 p2 :
    ValShaped chance sg n ->
    expect chance
           (fun delta => reg_sum pl i a (@vincs RNum chance true (draw_of delta) pass sg n pc p1 p2)) =
    cfr_inc chance sg pl i a n pc p1 p2.
  Proof.
    intros HV. rewrite <- expect_cfr_inc by (eapply ValShaped_CShaped; eauto).
    apply expect_ext. intros delta Hd.
    rewrite reg_sum_vincs_sampled by assumption.
    apply cfr_inc_table_ext. intros ci _. rewrite row_samp, row_hots by assumption. reflexivity.
  Qed.

  Theorem sampled_value_unbiased pass :
    ValShaped chance sg n ->
    expect chance (fun delta => @vval RNum chance true (draw_of delta) pass sg n) = uval chance sg n.
  Proof.
    intros HV. rewrite <- expect_uval by (eapply ValShaped_CShaped; eauto).
    apply expect_ext. intros delta Hd.
    rewrite vval_sampled by assumption.
    apply uval_table_ext. intros ci _. rewrite row_samp, row_hots by assumption. reflexivity.
  Qed.
End Unbiased.

(** ** [expect] is a convex combination: linear, monotone, total weight one *)
Lemma expect_plus rows (f h : list nat -> R) :
  expect rows (fun d => f d + h d) = expect rows f + expect rows h.
Proof.
  revert f h; induction rows as [|r rs IH]; intros f h; cbn [expect]; [reflexivity|].
  rewrite <- wsum_plus. apply wsum_ext. intros k _. apply IH.
Qed.

Lemma expect_scal rows c (f : list nat -> R) : expect rows (fun d => c * f d) = c * expect rows f.
Proof.
  revert f; induction rows as [|r rs IH]; intros f; cbn [expect]; [reflexivity|].
  rewrite <- wsum_scal. apply wsum_ext. intros k _. apply IH.
Qed.

Lemma wsum_le r (g h : nat -> R) :
  Forall (fun x => 0 <= x) r -> (forall k, g k <= h k) -> wsum r g <= wsum r h.
Proof.
  intros Hr. revert g h; induction Hr as [|x r Hx Hr IH]; intros g h H; cbn [wsum]; [lra|].
  specialize (IH (fun k => g (S k)) (fun k => h (S k)) (fun k => H (S k))).
  pose proof (H O). nra.
Qed.

Lemma expect_le rows (f h : list nat -> R) :
  Forall (Forall (fun x => 0 <= x)) rows -> (forall d, f d <= h d) -> expect rows f <= expect rows h.
Proof.
  intros Hr. revert f h; induction Hr as [|r rs Hx Hr IH]; intros f h H; cbn [expect]; [apply H|].
  apply wsum_le; [assumption|]. intros k. apply IH. intros d. apply H.
Qed.

(** ** Every oracle is one of the summands on a given pass *)
Lemma val_pick_ext_k (f g : nodeR -> R) ks k :
  (forall c, In c ks -> f c = g c) -> @val_pick RNum f ks k = @val_pick RNum g ks k.
Proof. intros H. apply val_pick_ext. apply Forall_forall. exact H. Qed.

Section OracleExt.
  Context (chance : list (list R)) (draw draw' : oracleR) (pass : N) (sg : bool -> nat -> list R).

  Lemma vval_oracle_ext n :
    (forall ci, coccurs ci n = true ->
                draw true ci pass (@row RNum chance ci) = draw' true ci pass (@row RNum chance ci)) ->
    @vval RNum chance true draw pass sg n = @vval RNum chance true draw' pass sg n.
  Proof.
    induction n as [x|ci kids IH|pl i kids IH] using node_ind'; intros H; cbn [vval].
    - reflexivity.
    - rewrite (H ci) by (cbn [coccurs]; now rewrite Nat.eqb_refl).
      apply val_pick_ext. rewrite Forall_forall in *. intros c Hc. apply IH; [assumption|].
      intros ci' Hci'. apply H. cbn [coccurs]. apply orb_true_iff. right.
      apply existsb_exists. eauto.
    - apply val_player_ext. rewrite Forall_forall in *. intros c Hc. apply IH; [assumption|].
      intros ci' Hci'. apply H. cbn [coccurs]. apply existsb_exists. eauto.
  Qed.
End OracleExt.

(** the assignment an oracle makes on a pass *)
Definition delta_of (chance : list (list R)) (draw : oracleR) (pass : N) : list nat :=
  map (fun ci => draw true ci pass (@row RNum chance ci)) (seq 0 (length chance)).

Lemma delta_of_length chance draw pass : length (delta_of chance draw pass) = length chance.
Proof. unfold delta_of. now rewrite map_length, seq_length. Qed.

Lemma delta_of_nth chance draw pass ci :
  (ci < length chance)%nat ->
  nth ci (delta_of chance draw pass) O = draw true ci pass (@row RNum chance ci).
Proof.
  intros H. unfold delta_of.
  set (f := fun ci => draw true ci pass (@row RNum chance ci)).
  rewrite (nth_indep _ O (f O)) by (now rewrite map_length, seq_length).
  rewrite map_nth, seq_nth by assumption. reflexivity.
Qed.

(** the one-hot table of an oracle is the one-hot table of its assignment: the
    increments of a sampled pass under any oracle are those of the summand
    [delta_of chance draw pass] of the expectation *)
Theorem oracle_is_summand chance (draw : oracleR) pass sg pl i a n pc p1 p2 :
  ValShaped chance sg n ->
  reg_sum pl i a (@vincs RNum chance true draw pass sg n pc p1 p2) =
  reg_sum pl i a (@vincs RNum chance true (draw_of (delta_of chance draw pass)) pass sg n pc p1 p2).
Proof.
  intros HV. rewrite !reg_sum_vincs_sampled by assumption.
  apply cfr_inc_table_ext. intros ci _. rewrite !row_samp. unfold draw_of.
  destruct (Nat.lt_ge_cases ci (length chance)) as [Hlt|Hge].
  - now rewrite delta_of_nth.
  - unfold row. rewrite (nth_overflow chance) by assumption. reflexivity.
Qed.

(** ** In terms of the solver state: the expected cumulative regret after a
    chance-sampled pass is the cumulative regret after the unsampled pass *)
Theorem sampled_pass_unbiased chance pass n pc p1 p2 (st : pstateR) pl i a (draw0 : oracleR) :
  Forall (fun r => Rsum r = 1) chance -> NoRepeat n ->
  ValShaped chance (strat_view st) n ->
  (a < length (cum_regret (@ri_get RNum st pl i)))%nat ->
  expect chance
         (fun delta => nth a (cum_regret (@ri_get RNum
            (snd (@vrec RNum chance true (draw_of delta) pass n pc p1 p2 st)) pl i)) 0) =
  nth a (cum_regret (@ri_get RNum (snd (@vrec RNum chance false draw0 pass n pc p1 p2 st)) pl i)) 0.
Proof.
  intros Hrows HN HV Ha.
  rewrite vrec_state_regret_nth by assumption.
  rewrite (expect_ext chance _
             (fun delta => nth a (cum_regret (@ri_get RNum st pl i)) 0 +
                           reg_sum pl i a (@vincs RNum chance true (draw_of delta) pass
                                                  (strat_view st) n pc p1 p2))).
  2:{ intros delta _. rewrite vrec_incs. cbn [snd]. now rewrite fold_incr_regret_nth. }
  rewrite expect_plus, expect_const by assumption. f_equal.
  now apply sampled_unbiased.
Qed.

(** ** At the level of a game and a solver state *)
Lemma ChanceOK_sums (g : gameR) : ChanceOK g -> Forall (fun r => Rsum r = 1) (g_chance g).
Proof. unfold ChanceOK. apply Forall_impl. intros r [_ H]. exact H. Qed.

Theorem sampled_unbiased_game (g : gameR) (st : pstateR) pass pl i a :
  WFgame g -> ChanceOK g -> InvA (arities g true) (arities g false) st ->
  NoRepeat (g_root g) ->
  expect (g_chance g)
         (fun delta => reg_sum pl i a (@vincs RNum (g_chance g) true (draw_of delta) pass
                                              (strat_view st) (g_root g) 1 1 1)) =
  cfr_inc (g_chance g) (strat_view st) pl i a (g_root g) 1 1 1.
Proof.
  intros (HS & _) HC HI HN. apply sampled_unbiased; try assumption.
  - now apply ChanceOK_sums.
  - now apply shaped_ValShaped.
Qed.

(** ** Example: the game with a chance root of [CfrRate.v] *)
Lemma seq_NoRepeat : NoRepeat (g_root seq_game).
Proof. cbn. repeat constructor. Qed.

Example seq_unbiased (st : pstateR) pass pl i a :
  InvA (arities seq_game true) (arities seq_game false) st ->
  1 / 2 * reg_sum pl i a (@vincs RNum (g_chance seq_game) true (draw_of [0%nat]) pass
                                 (strat_view st) (g_root seq_game) 1 1 1) +
  1 / 2 * reg_sum pl i a (@vincs RNum (g_chance seq_game) true (draw_of [1%nat]) pass
                                 (strat_view st) (g_root seq_game) 1 1 1) =
  cfr_inc (g_chance seq_game) (strat_view st) pl i a (g_root seq_game) 1 1 1.
Proof.
  intros HI.
  rewrite <- (sampled_unbiased_game seq_game st pass pl i a seq_WF seq_ChanceOK HI seq_NoRepeat).
  cbn [seq_game g_chance expect wsum]. lra.
Qed.

(** ** [NoRepeat] cannot be dropped.

    The sampler makes one draw per chance infoset and pass.  When a chance infoset
    occurs twice on one path the second occurrence follows the *same* draw, whereas the
    unsampled traversal weighs the two occurrences independently: the sampled
    increments are biased.  (Such trees are accepted by [from_root]: nothing prevents
    two nested chance nodes from carrying the same infoset name.) *)
Definition rep_chance : list (list R) := [[1 / 2; 1 / 2]].
Definition rep_sg : bool -> nat -> list R := fun _ _ => [1 / 2; 1 / 2].
Definition rep_tree : nodeR :=
  @Player RNum true 0
          [@Chance RNum 0 [@Chance RNum 0 [@Term RNum 1; @Term RNum 0]; @Term RNum 0];
           @Term RNum 0].

Example repeat_is_biased pass :
  expect rep_chance
         (fun delta => reg_sum true 0 0 (@vincs RNum rep_chance true (draw_of delta) pass
                                                rep_sg rep_tree 1 1 1)) = 1 / 4 /\
  cfr_inc rep_chance rep_sg true 0 0 rep_tree 1 1 1 = 1 / 8.
Proof.
  split.
  - unfold rep_chance, rep_tree, rep_sg, reg_sum. cbn -[Rplus Rmult Rminus Ropp Rdiv Rinv]. lra.
  - unfold rep_chance, rep_tree, rep_sg. cbn -[Rplus Rmult Rminus Ropp Rdiv Rinv].
    unfold node_regret, cfw. cbn -[Rplus Rmult Rminus Ropp Rdiv Rinv]. lra.
Qed.

Lemma rep_tree_repeats : ~ NoRepeat rep_tree.
Proof.
  intros H. inversion H as [| |? ? ? Hk]; subst.
  inversion Hk as [|? ? Hc _]; subst. inversion Hc as [|? ? Ho _|]; subst.
  inversion Ho as [|? ? Hf _]; subst. cbn in Hf. discriminate.
Qed.
