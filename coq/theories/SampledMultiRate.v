(** * SampledMultiRate: the rate theorems of [SampledRate.v] / [ExternalRate.v] for the
    multi-threaded solvers, for every number of tasks and every schedule.

    Under pinned draws the multi-threaded chance-sampled solver ([solve_multi], every
    interleaving of the atomic increments) and the multi-threaded external solver
    ([solve_ext_multi], every interleaving and every reduction order of the bounds)
    return exactly what the single-threaded ones return ([ParallelProofs.v],
    [ExternalProofs.v]); so the bounds they return obey the same rate. *)
From Coq Require Import Reals List Lra Lia Bool Arith NArith Permutation.
From Cfr.theories Require Import Num RInst Tree GameWF Strat Eval Solve Valid
     SolveValidProofs Incr VanillaMulti ParallelProofs ExtIncr ExternalMulti ExternalProofs
     CfMass SampledRate ExternalRate.
Import ListNotations.
Open Scope R_scope.

Local Notation gameR := (@game RNum).
Local Notation paramsR := (@params RNum).
Local Notation oracleR := (@oracle RNum).

Theorem sampled_multi_bound_rate (g : gameR) (draw : oracleR) (p : paramsR) (lo hi : R) (A : nat)
        target scheds :
  WFgame g -> PerfectRecall g -> ChanceOK g -> PayoffsIn lo hi (g_root g) ->
  (forall pl, Forall (fun a => (a <= A)%nat) (arities g pl)) ->
  DrawOK (g_chance g) draw \/ lo <= 0 <= hi ->
  (forall it l, Permutation l (scheds it l)) ->
  forall budget (stop : R -> bool) strats b1 b2 ran,
  @solve_multi RNum g true draw p budget stop target scheds = (strats, Some (b1, b2), ran) ->
  (1 <= ran)%N /\
  b1 * sqrt (INR (N.to_nat ran)) <= 2 * (hi - lo) * INR (length (g_infos g true)) * sqrt (INR A) /\
  b2 * sqrt (INR (N.to_nat ran)) <= 2 * (hi - lo) * INR (length (g_infos g false)) * sqrt (INR A).
Proof.
  intros HWF HPR HCO HPay HA HD Hs budget stop strats b1 b2 ran H.
  rewrite solve_multi_eq_single in H by exact Hs. cbn [method_of] in H.
  destruct HD as [HD|HD].
  - eapply sampled_bound_rate; eauto.
  - eapply sampled_bound_rate_any_draw; eauto.
Qed.

Theorem external_multi_bound_rate (g : gameR) (draw : oracleR) (p : paramsR) (lo hi : R) (A : nat)
        target fuel scheds psums :
  WFgame g -> PerfectRecall g -> ChanceOK g -> PayoffsIn lo hi (g_root g) ->
  (forall pl, Forall (fun a => (a <= A)%nat) (arities g pl)) ->
  DrawsInRange draw \/ lo <= 0 <= hi ->
  (forall it pl l, Permutation l (scheds it pl l)) ->
  (forall it pl l, psum_ok l (psums it pl l)) ->
  forall budget (stop : R -> bool) strats b1 b2 ran,
  solve_ext_multi g draw p target fuel scheds psums budget stop = (strats, Some (b1, b2), ran) ->
  (1 <= ran)%N /\
  b1 * sqrt (INR (N.to_nat ran)) <= 2 * (hi - lo) * INR (length (g_infos g true)) * sqrt (INR A) /\
  b2 * sqrt (INR (N.to_nat ran)) <= 2 * (hi - lo) * INR (length (g_infos g false)) * sqrt (INR A).
Proof.
  intros HWF HPR HCO HPay HA HD Hs Hp budget stop strats b1 b2 ran H.
  rewrite solve_ext_multi_eq_single_WF in H by assumption.
  destruct HD as [HD|HD].
  - eapply external_bound_rate; eauto.
  - eapply external_bound_rate_any_draw; eauto.
Qed.
