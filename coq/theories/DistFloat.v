(** * DistFloat: [Strategies::distance] at binary64 itself (instance [FNum]).

    Exact (bit for bit) symmetry and exact zero for every exponent, and the
    range "finite, non-negative, never NaN, bounded by the real bound up to an
    explicit rounding factor" for the exponents 1 and 2.  Built on
    [TruncFloat]. *)
From Coq Require Import List ZArith NArith Reals Floats Bool Lia Lra Uint63.
From Flocq Require Import Core IEEE754.BinarySingleNaN IEEE754.PrimFloat Plus_error Relative.
From Cfr.theories Require Import Num FInst Tree Strat TruncFloat.
Import ListNotations.

Local Existing Instance Flocq.IEEE754.PrimFloat.Hprec.
Local Existing Instance Flocq.IEEE754.PrimFloat.Hmax.

Local Open Scope R_scope.
Local Notation float := PrimFloat.float.
Local Notation Hp := Flocq.IEEE754.PrimFloat.Hprec.
Local Notation Hm := Flocq.IEEE754.PrimFloat.Hmax.

Local Instance fexp_valid' : Valid_exp (SpecFloat.fexp prec emax) := fexp_correct prec emax Hp.

(** ** 1. Exact symmetry *)

Lemma rnd_opp : forall x, rnd (- x) = - rnd x.
Proof. intros x. unfold rnd. apply round_NE_opp. Qed.

(** [|x - y|] and [|y - x|] are the same binary64 datum, for all operands
    (NaN, infinities and signed zeros included). *)
Lemma Babs_Bminus_sym : forall x y : binary_float prec emax,
  Babs (Bminus mode_NE x y) = Babs (Bminus mode_NE y x).
Proof.
  intros x y.
  destruct (is_finite x) eqn:Fx; destruct (is_finite y) eqn:Fy.
  - generalize (Bminus_correct prec emax Hp Hm mode_NE x y Fx Fy)
               (Bminus_correct prec emax Hp Hm mode_NE y x Fy Fx).
    change (round_mode mode_NE) with ZnearestE.
    fold (rnd (B2R x - B2R y)). fold (rnd (B2R y - B2R x)).
    replace (B2R y - B2R x) with (- (B2R x - B2R y)) by ring.
    rewrite rnd_opp, Rabs_Ropp.
    destruct (Rlt_bool (Rabs (rnd (B2R x - B2R y))) (bpow radix2 emax)).
    + intros [R1 [F1 _]] [R2 [F2 _]].
      apply B2R_Bsign_inj.
      * rewrite is_finite_Babs. exact F1.
      * rewrite is_finite_Babs. exact F2.
      * rewrite !B2R_Babs, R1, R2, Rabs_Ropp. reflexivity.
      * rewrite !Bsign_Babs. reflexivity.
    + intros [O1 _] [O2 _].
      destruct (Bminus mode_NE x y) as [s1|s1| |s1 m1 e1 H1];
        try discriminate O1;
        destruct (Bminus mode_NE y x) as [s2|s2| |s2 m2 e2 H2];
        try discriminate O2; reflexivity.
  - destruct x as [sx|sx| |sx mx ex Hx]; try discriminate Fx;
      destruct y as [sy|sy| |sy my ey Hy]; try discriminate Fy;
      try reflexivity.
  - destruct x as [sx|sx| |sx mx ex Hx]; try discriminate Fx;
      destruct y as [sy|sy| |sy my ey Hy]; try discriminate Fy;
      try reflexivity.
  - destruct x as [sx|sx| |sx mx ex Hx]; try discriminate Fx;
      destruct y as [sy|sy| |sy my ey Hy]; try discriminate Fy;
      try reflexivity; destruct sx, sy; reflexivity.
Qed.

Theorem abs_sub_sym : forall a b : float,
  PrimFloat.abs (a - b)%float = PrimFloat.abs (b - a)%float.
Proof.
  intros a b. apply Prim2B_inj. rewrite !abs_equiv, !sub_equiv.
  apply Babs_Bminus_sym.
Qed.

Lemma dist_sum_FNum : forall (p : float) (l r : list float),
  @dist_sum FNum p l r =
  fold_left (fun d lr => (d + fpow (PrimFloat.abs (fst lr - snd lr)) p)%float)
            (combine l r) 0%float.
Proof. reflexivity. Qed.

Lemma dist_fold_sym : forall (p : float) (l r : list float) (acc : float),
  fold_left (fun d lr => (d + fpow (PrimFloat.abs (fst lr - snd lr)) p)%float)
            (combine l r) acc =
  fold_left (fun d lr => (d + fpow (PrimFloat.abs (fst lr - snd lr)) p)%float)
            (combine r l) acc.
Proof.
  intros p. induction l as [|a l IH]; intros r acc.
  - destruct r; reflexivity.
  - destruct r as [|b r]; [reflexivity|].
    cbn [combine fold_left fst snd].
    rewrite (abs_sub_sym a b). apply IH.
Qed.

(** Bit-for-bit symmetry, for every exponent (NaN included), for all lists of
    floats (no finiteness, no equal-length assumption). *)
Theorem dist_sum_float_sym : forall (p : float) (l r : list float),
  @dist_sum FNum p l r = @dist_sum FNum p r l.
Proof. intros p l r. rewrite !dist_sum_FNum. apply dist_fold_sym. Qed.

Theorem distance_player_float_sym : forall (p : float) (n : nat) (l r : list float),
  @distance_player FNum p n l r = @distance_player FNum p n r l.
Proof.
  intros p n l r. unfold distance_player. destruct n as [|n]; [reflexivity|].
  rewrite (dist_sum_float_sym p l r). reflexivity.
Qed.

Theorem distance_float_sym : forall (g : @game FNum) (p : float) (a b : list float * list float),
  @distance FNum g p a b = @distance FNum g p b a.
Proof.
  intros g p a b. unfold distance.
  destruct (ltb FNum (zero FNum) p); [|reflexivity].
  rewrite (distance_player_float_sym p _ (fst a) (fst b)).
  rewrite (distance_player_float_sym p _ (snd a) (snd b)). reflexivity.
Qed.

(** ** 2. Exact zero *)

(** [a - a] is [+0] for every finite [a] (round to nearest: the sign of an exact
    zero difference is [+]). *)
Lemma sub_self : forall a : float, Ffin a -> (a - a)%float = 0%float.
Proof.
  intros a Ha. apply Prim2B_inj. rewrite sub_equiv, Prim2B_zero.
  generalize (Bminus_correct prec emax Hp Hm mode_NE (Prim2B a) (Prim2B a) Ha Ha).
  change (round_mode mode_NE) with ZnearestE.
  replace (B2R (Prim2B a) - B2R (Prim2B a)) with 0 by ring.
  rewrite round_0 by auto with typeclass_instances.
  rewrite Rabs_R0, Rlt_bool_true by apply bpow_gt_0.
  rewrite Rcompare_Eq by reflexivity.
  intros [R1 [F1 S1]].
  apply B2R_Bsign_inj; [exact F1 | reflexivity | exact R1 |].
  rewrite S1. destruct (Bsign (Prim2B a)); reflexivity.
Qed.

Lemma ltb_0_facts : forall p : float, PrimFloat.ltb 0 p = true ->
  PrimFloat.eqb p 0 = false /\ PrimFloat.eqb p p = true.
Proof.
  intros p H. rewrite ltb_equiv, Prim2B_zero in H.
  rewrite !eqb_equiv, Prim2B_zero, Beqb_refl.
  destruct (Prim2B p) as [s|s| |s m e He]; try discriminate H.
  - destruct s; [discriminate H|]. split; reflexivity.
  - destruct s; [discriminate H|]. split; reflexivity.
Qed.

Lemma fpow_unfold : forall x y : float,
  fpow x y =
  if PrimFloat.eqb y 0 then 1%float
  else if PrimFloat.eqb x 1 then 1%float
  else if f_is_nan x || f_is_nan y then nan
  else if PrimFloat.eqb x 0 then (if PrimFloat.ltb 0 y then 0%float else infinity)
  else if PrimFloat.ltb x 0 then nan
  else if PrimFloat.eqb y 1 then x
  else if PrimFloat.eqb y 2 then (x * x)%float
  else if PrimFloat.eqb y 0x1p-1 then PrimFloat.sqrt x
  else fexp (y * fln x)%float.
Proof. reflexivity. Qed.

(** [fpow 0 p = 0] for every [p > 0] (in particular [p] is not NaN; [+inf] is
    allowed). *)
Lemma fpow_zero_pos : forall p : float, PrimFloat.ltb 0 p = true -> fpow 0 p = 0%float.
Proof.
  intros p H. destruct (ltb_0_facts p H) as [E1 E2].
  rewrite fpow_unfold, E1. unfold f_is_nan. rewrite E2, H. reflexivity.
Qed.

Lemma dist_fold_self : forall (p : float) (l : list float),
  PrimFloat.ltb 0 p = true -> Forall Ffin l ->
  fold_left (fun d lr => (d + fpow (PrimFloat.abs (fst lr - snd lr)) p)%float)
            (combine l l) 0%float = 0%float.
Proof.
  intros p l Hp Hl. induction Hl as [|a l Ha Hl IH]; [reflexivity|].
  cbn [combine fold_left fst snd].
  rewrite (sub_self a Ha).
  change (PrimFloat.abs 0) with 0%float.
  rewrite (fpow_zero_pos p Hp).
  change (0 + 0)%float with 0%float. exact IH.
Qed.

(** The distance of a profile to itself is exactly [+0], for every exponent
    [p > 0] ([+inf] included), for every list of finite floats. *)
Theorem dist_sum_float_self : forall (p : float) (l : list float),
  ltb FNum (zero FNum) p = true -> Forall Ffin l ->
  @dist_sum FNum p l l = 0%float.
Proof. intros p l Hp Hl. rewrite dist_sum_FNum. apply dist_fold_self; assumption. Qed.

Lemma div_zero_pos : forall d : float, Ffin d -> 0 < FR d -> (0 / d)%float = 0%float.
Proof.
  intros d Hd Hpos. apply Prim2B_inj. rewrite div_equiv, Prim2B_zero.
  unfold Ffin in Hd. unfold FR in Hpos.
  destruct (Prim2B d) as [s|s| |s m e He].
  - cbn in Hpos. lra.
  - discriminate Hd.
  - discriminate Hd.
  - destruct s; [|reflexivity].
    exfalso.
    assert (Hn : B2R (B754_finite true m e He) < 0).
    { cbn [B2R]. apply F2R_lt_0. cbn. lia. }
    lra.
Qed.

(** ** More operations: subtraction, absolute value, multiplication, [of_N] *)

Lemma sub_ok : forall x y,
  Ffin x -> Ffin y ->
  Rabs (rnd (FR x - FR y)) < bpow radix2 emax ->
  Ffin (x - y)%float /\ FR (x - y)%float = rnd (FR x - FR y).
Proof.
  intros x y Hx Hy Hb. unfold Ffin, FR. rewrite sub_equiv.
  generalize (Bminus_correct prec emax Hp Hm mode_NE (Prim2B x) (Prim2B y) Hx Hy).
  change (round_mode mode_NE) with ZnearestE.
  fold (FR x) (FR y). fold (rnd (FR x - FR y)).
  rewrite Rlt_bool_true by exact Hb.
  intros [H1 [H2 _]]. split; assumption.
Qed.

Lemma mul_ok : forall x y,
  Ffin x -> Ffin y ->
  Rabs (rnd (FR x * FR y)) < bpow radix2 emax ->
  Ffin (x * y)%float /\ FR (x * y)%float = rnd (FR x * FR y).
Proof.
  intros x y Hx Hy Hb. unfold Ffin, FR. rewrite mul_equiv.
  generalize (Bmult_correct prec emax Hp Hm mode_NE (Prim2B x) (Prim2B y)).
  change (round_mode mode_NE) with ZnearestE.
  fold (FR x) (FR y). fold (rnd (FR x * FR y)).
  rewrite Rlt_bool_true by exact Hb.
  intros [H1 [H2 _]]. split; [|exact H1].
  rewrite H2. unfold Ffin in Hx, Hy. rewrite Hx, Hy. reflexivity.
Qed.

Lemma FR_abs : forall x, FR (PrimFloat.abs x) = Rabs (FR x).
Proof. intros x. unfold FR. rewrite abs_equiv. apply B2R_Babs. Qed.

Lemma Ffin_abs : forall x, Ffin x -> Ffin (PrimFloat.abs x).
Proof. intros x Hx. unfold Ffin. rewrite abs_equiv, is_finite_Babs. exact Hx. Qed.

Lemma small_lt_emax : forall x : R, Rabs x <= IZR (2 ^ 53) -> Rabs x < bpow radix2 emax.
Proof. intros x Hx. apply Rle_lt_trans with (1 := Hx). apply bpow53_lt_emax. Qed.

Lemma FR_two : Ffin 2%float /\ FR 2%float = 2.
Proof.
  change 2%float with (1 + 1)%float.
  assert (Hr : rnd (FR 1%float + FR 1%float) = 2).
  { rewrite FR_one. replace (1 + 1) with (IZR 2) by (simpl; lra).
    apply rnd_fmt. apply fmt_IZR. cbv. reflexivity. }
  assert (Hb : Rabs (rnd (FR 1%float + FR 1%float)) < bpow radix2 emax).
  { rewrite Hr. apply small_lt_emax. rewrite Rabs_pos_eq by lra. apply IZR_le. lia. }
  destruct (add_ok 1%float 1%float Ffin_one Ffin_one Hb) as [H1 H2].
  split; [exact H1 | rewrite H2; exact Hr].
Qed.

Lemma of_N_ok : forall n : nat, (Z.of_nat n < 2 ^ 53)%Z ->
  Ffin (f_of_N (N.of_nat n)) /\ FR (f_of_N (N.of_nat n)) = INR n.
Proof.
  intros n Hn. unfold f_of_N. rewrite nat_N_Z.
  assert (Hlt : (Z.of_nat n <? 2 ^ 62)%Z = true) by (apply Z.ltb_lt; lia).
  rewrite Hlt.
  unfold Ffin, FR. rewrite of_int63_equiv.
  rewrite Uint63.of_Z_spec.
  rewrite Z.mod_small by (change wB with (2 ^ 63)%Z; lia).
  generalize (binary_normalize_correct prec emax Hp Hm mode_NE (Z.of_nat n) 0 false).
  cbv zeta. change (round_mode mode_NE) with ZnearestE.
  assert (HF : F2R (Float radix2 (Z.of_nat n) 0) = IZR (Z.of_nat n)).
  { unfold F2R. cbn [Fnum Fexp bpow]. ring. }
  rewrite HF. fold (rnd (IZR (Z.of_nat n))).
  rewrite (rnd_fmt (IZR (Z.of_nat n))) by (apply fmt_IZR; lia).
  rewrite Rlt_bool_true.
  - intros [H1 [H2 _]]. split; [exact H2|]. rewrite H1. symmetry. apply INR_IZR_INZ.
  - apply small_lt_emax. rewrite Rabs_pos_eq by (apply IZR_le; lia). apply IZR_le. lia.
Qed.

(** The denominator [2 * n] of [distance_player]. *)
Lemma denom_ok : forall n : nat, (Z.of_nat n < 2 ^ 52)%Z ->
  let d := mul FNum (@two FNum) (of_N FNum (N.of_nat n)) in
  Ffin d /\ FR d = 2 * INR n.
Proof.
  intros n Hn.
  change (mul FNum (@two FNum) (of_N FNum (N.of_nat n)))
    with (2 * f_of_N (N.of_nat n))%float.
  destruct (of_N_ok n ltac:(lia)) as [Hf He].
  destruct FR_two as [H2f H2e].
  assert (Hr : rnd (FR 2%float * FR (f_of_N (N.of_nat n))) = 2 * INR n).
  { rewrite H2e, He, INR_IZR_INZ, <- mult_IZR. apply rnd_fmt. apply fmt_IZR. lia. }
  assert (Hb : Rabs (rnd (FR 2%float * FR (f_of_N (N.of_nat n)))) < bpow radix2 emax).
  { rewrite Hr. apply small_lt_emax. rewrite INR_IZR_INZ, <- mult_IZR.
    rewrite Rabs_pos_eq by (apply IZR_le; lia). apply IZR_le. lia. }
  destruct (mul_ok _ _ H2f Hf Hb) as [G1 G2].
  cbv zeta. split; [exact G1 | rewrite G2; exact Hr].
Qed.

(** ** [fpow] at the exponents 1 and 2, on an absolute value *)

Lemma abs_cases : forall y : float,
  let x := PrimFloat.abs y in
  x = nan \/ x = infinity \/ x = 0%float \/
  (Ffin x /\ 0 < FR x /\ Bsign (Prim2B x) = false).
Proof.
  intros y x.
  assert (E : Prim2B x = Babs (Prim2B y)) by apply abs_equiv.
  destruct (Prim2B y) as [s|s| |s m e He]; cbn [Babs] in E.
  - right. right. left. apply Prim2B_inj. rewrite E, Prim2B_zero. reflexivity.
  - right. left. apply Prim2B_inj. rewrite E, infinity_equiv, Prim2B_B2Prim. reflexivity.
  - left. apply Prim2B_inj. rewrite E, nan_equiv, Prim2B_B2Prim. reflexivity.
  - right. right. right. unfold Ffin, FR. rewrite E.
    split; [reflexivity|]. split; [|reflexivity].
    cbn [B2R]. apply F2R_gt_0. cbn. lia.
Qed.

(** the tests of [fpow] on a finite positive base *)
Lemma pos_tests : forall x : float, Ffin x -> 0 < FR x ->
  f_is_nan x = false /\ PrimFloat.eqb x 0 = false /\ PrimFloat.ltb x 0 = false /\
  (PrimFloat.eqb x 1 = true -> FR x = 1).
Proof.
  intros x Hx Hpos. unfold f_is_nan.
  rewrite !eqb_equiv, ltb_equiv, Beqb_refl, Prim2B_zero, Prim2B_one.
  rewrite (Beqb_correct prec emax (Prim2B x) (B754_zero false) Hx eq_refl).
  rewrite (Beqb_correct prec emax (Prim2B x) Bone Hx (is_finite_Bone prec emax Hp Hm)).
  rewrite (Bltb_correct prec emax (Prim2B x) (B754_zero false) Hx eq_refl).
  rewrite Bone_correct. fold (FR x). cbn [B2R].
  split.
  { unfold Ffin in Hx. destruct (Prim2B x); try discriminate Hx; reflexivity. }
  split; [apply Req_bool_false; lra|].
  split; [apply Rlt_bool_false; lra|].
  intros H. destruct (Req_bool_spec (FR x) 1) as [H1|H1]; [exact H1 | discriminate H].
Qed.

Lemma pos_one : forall x : float, Ffin x -> Bsign (Prim2B x) = false -> FR x = 1 -> x = 1%float.
Proof.
  intros x Hx Hs H1. apply Prim2B_inj. rewrite Prim2B_one.
  apply B2R_Bsign_inj; [exact Hx | apply is_finite_Bone | | ].
  - rewrite Bone_correct. exact H1.
  - rewrite Bsign_Bone. exact Hs.
Qed.

(** [fpow |y| 1 = |y|], bit for bit, for every float [y] (NaN, infinities). *)
Lemma fpow_abs_1 : forall y : float, fpow (PrimFloat.abs y) 1 = PrimFloat.abs y.
Proof.
  intros y. destruct (abs_cases y) as [E|[E|[E|[Hf [Hpos Hs]]]]];
    try (rewrite E; vm_compute; reflexivity).
  set (x := PrimFloat.abs y) in *.
  destruct (pos_tests x Hf Hpos) as [T1 [T2 [T3 T4]]].
  rewrite fpow_unfold.
  change (PrimFloat.eqb 1 0) with false. cbv iota.
  destruct (PrimFloat.eqb x 1) eqn:E1.
  - symmetry. apply pos_one; auto.
  - rewrite T1, T2, T3. reflexivity.
Qed.

(** [fpow |y| 2 = |y| * |y|], bit for bit, for every float [y]. *)
Lemma fpow_abs_2 : forall y : float,
  fpow (PrimFloat.abs y) 2 = (PrimFloat.abs y * PrimFloat.abs y)%float.
Proof.
  intros y. destruct (abs_cases y) as [E|[E|[E|[Hf [Hpos Hs]]]]];
    try (rewrite E; vm_compute; reflexivity).
  set (x := PrimFloat.abs y) in *.
  destruct (pos_tests x Hf Hpos) as [T1 [T2 [T3 T4]]].
  rewrite fpow_unfold.
  change (PrimFloat.eqb 2 0) with false. cbv iota.
  destruct (PrimFloat.eqb x 1) eqn:E1.
  - rewrite (pos_one x Hf Hs (T4 eq_refl)). vm_compute. reflexivity.
  - rewrite T1, T2, T3. reflexivity.
Qed.

Lemma fold_left_map_add : forall (A : Type) (f : A -> float) (l : list A) (acc : float),
  fold_left (fun d x => (d + f x)%float) l acc = fold_left PrimFloat.add (map f l) acc.
Proof.
  intros A f l. induction l as [|x l IH]; intros acc; [reflexivity|].
  cbn [fold_left map]. apply IH.
Qed.

(** The terms of the sum, exponent 1 and exponent 2. *)
Definition terms1 (l r : list float) : list float :=
  map (fun lr => PrimFloat.abs (fst lr - snd lr)%float) (combine l r).
Definition terms2 (l r : list float) : list float :=
  map (fun lr => (PrimFloat.abs (fst lr - snd lr) * PrimFloat.abs (fst lr - snd lr))%float)
      (combine l r).

(** Exact description of [dist_sum] at the two exponents, for all lists. *)
Theorem dist_sum_float_1 : forall l r : list float,
  @dist_sum FNum 1%float l r = fold_left PrimFloat.add (terms1 l r) 0%float.
Proof.
  intros l r. rewrite dist_sum_FNum. unfold terms1.
  rewrite <- fold_left_map_add.
  generalize 0%float. induction (combine l r) as [|x c IH]; intros acc; [reflexivity|].
  cbn [fold_left]. rewrite fpow_abs_1. apply IH.
Qed.

Theorem dist_sum_float_2 : forall l r : list float,
  @dist_sum FNum 2%float l r = fold_left PrimFloat.add (terms2 l r) 0%float.
Proof.
  intros l r. rewrite dist_sum_FNum. unfold terms2.
  rewrite <- fold_left_map_add.
  generalize 0%float. induction (combine l r) as [|x c IH]; intros acc; [reflexivity|].
  cbn [fold_left]. rewrite fpow_abs_2. apply IH.
Qed.

(** ** The terms are valid numbers *)

Lemma term1_ok : forall a b : float, fin01 a -> fin01 b ->
  let x := PrimFloat.abs (a - b)%float in
  fin01 x /\ FR x = Rabs (rnd (FR a - FR b)) /\ FR x <= FR a + FR b.
Proof.
  intros a b [Ha [Ha0 Ha1]] [Hb [Hb0 Hb1]] x.
  assert (Hup : rnd (FR a - FR b) <= FR a) by (apply rnd_le_fmt; [apply fmt_FR | lra]).
  assert (Hlo : - FR b <= rnd (FR a - FR b)).
  { apply rnd_ge_fmt; [|lra]. apply generic_format_opp. apply fmt_FR. }
  assert (Habs : Rabs (rnd (FR a - FR b)) <= FR a + FR b) by (apply Rabs_le; lra).
  assert (Habs1 : Rabs (rnd (FR a - FR b)) <= 1) by (apply Rabs_le; lra).
  assert (Hbd : Rabs (rnd (FR a - FR b)) < bpow radix2 emax).
  { apply small_lt_emax. apply Rle_trans with (1 := Habs1). apply IZR_le. lia. }
  destruct (sub_ok a b Ha Hb Hbd) as [Hf He].
  assert (Hx : FR x = Rabs (rnd (FR a - FR b))) by (unfold x; rewrite FR_abs, He; reflexivity).
  split; [|split; [exact Hx | rewrite Hx; exact Habs]].
  split; [apply Ffin_abs; exact Hf|].
  rewrite Hx. split; [apply Rabs_pos | exact Habs1].
Qed.

Lemma sqr_ok : forall x : float, fin01 x ->
  fin01 (x * x)%float /\ FR (x * x)%float = rnd (FR x * FR x) /\ FR (x * x)%float <= FR x.
Proof.
  intros x [Hx [H0 H1]].
  assert (Hs0 : 0 <= FR x * FR x) by (apply Rmult_le_pos; assumption).
  assert (Hs1 : FR x * FR x <= FR x).
  { rewrite <- (Rmult_1_r (FR x)) at 3. apply Rmult_le_compat_l; assumption. }
  assert (Hr0 : 0 <= rnd (FR x * FR x)) by (apply rnd_ge_fmt; [apply fmt_0 | exact Hs0]).
  assert (Hr1 : rnd (FR x * FR x) <= FR x) by (apply rnd_le_fmt; [apply fmt_FR | exact Hs1]).
  assert (Hb : Rabs (rnd (FR x * FR x)) < bpow radix2 emax).
  { apply small_lt_emax. rewrite Rabs_pos_eq by exact Hr0.
    apply Rle_trans with 1; [lra | apply IZR_le; lia]. }
  destruct (mul_ok x x Hx Hx Hb) as [Hf He].
  split; [|split; [exact He | rewrite He; exact Hr1]].
  split; [exact Hf|]. rewrite He. split; lra.
Qed.

Lemma RS_nonneg : forall l : list float, Forall fin01 l -> 0 <= RS l.
Proof.
  intros l H. induction H as [|x l [_ [Hx _]] Hl IH]; [rewrite RS_nil; lra|].
  rewrite RS_cons. lra.
Qed.

Lemma terms1_ok : forall l r : list float, Forall fin01 l -> Forall fin01 r ->
  Forall fin01 (terms1 l r) /\ RS (terms1 l r) <= RS l + RS r.
Proof.
  unfold terms1.
  induction l as [|a l IH]; intros r Hl Hr.
  - cbn [combine map]. split; [constructor|]. rewrite !RS_nil.
    assert (H := RS_nonneg r Hr). lra.
  - destruct r as [|b r].
    + cbn [combine map]. split; [constructor|]. rewrite !RS_nil.
      assert (H := RS_nonneg (a :: l) Hl). lra.
    + inversion Hl as [|a' l' Ha Hl']; subst. inversion Hr as [|b' r' Hb Hr']; subst.
      destruct (IH r Hl' Hr') as [I1 I2].
      destruct (term1_ok a b Ha Hb) as [T1 [_ T3]].
      cbn [combine map fst snd]. split; [constructor; assumption|].
      rewrite !RS_cons. lra.
Qed.

Lemma terms2_ok : forall l r : list float, Forall fin01 l -> Forall fin01 r ->
  Forall fin01 (terms2 l r) /\ RS (terms2 l r) <= RS (terms1 l r).
Proof.
  unfold terms1, terms2.
  induction l as [|a l IH]; intros r Hl Hr.
  - cbn [combine map]. split; [constructor|]. rewrite !RS_nil. lra.
  - destruct r as [|b r].
    + cbn [combine map]. split; [constructor|]. rewrite !RS_nil. lra.
    + inversion Hl as [|a' l' Ha Hl']; subst. inversion Hr as [|b' r' Hb Hr']; subst.
      destruct (IH r Hl' Hr') as [I1 I2].
      destruct (term1_ok a b Ha Hb) as [T1 _].
      destruct (sqr_ok _ T1) as [S1 [_ S3]].
      cbn [combine map fst snd]. split; [constructor; assumption|].
      rewrite !RS_cons. lra.
Qed.

Lemma terms1_length : forall l r : list float, (length (terms1 l r) <= length l)%nat.
Proof.
  intros l r. unfold terms1. rewrite map_length, combine_length. apply Nat.le_min_l.
Qed.

Lemma terms2_length : forall l r : list float, (length (terms2 l r) <= length l)%nat.
Proof.
  intros l r. unfold terms2. rewrite map_length, combine_length. apply Nat.le_min_l.
Qed.

(** ** The sum of the terms and the division by [2 n] *)

(** relative rounding error away from the subnormal range *)
Lemma rnd_rel_ge1 : forall x, 1 <= x -> rnd x <= x * (1 + u53).
Proof.
  intros x Hx.
  assert (H := relative_error_N_FLT radix2 (SpecFloat.emin prec emax) prec eq_refl
                 (fun n => negb (Z.even n)) x).
  change (round radix2 (FLT_exp (SpecFloat.emin prec emax) prec)
            (Znearest (fun n => negb (Z.even n))) x) with (rnd x) in H.
  rewrite half_bpow in H.
  change (bpow radix2 (- prec + 1 - 1)) with u53 in H.
  rewrite (Rabs_pos_eq x) in H by lra.
  assert (Hb : bpow radix2 (SpecFloat.emin prec emax + prec - 1) <= x).
  { apply Rle_trans with (2 := Hx). change 1 with (bpow radix2 0). apply bpow_le.
    cbv. discriminate. }
  specialize (H Hb). apply Rabs_le_inv in H. lra.
Qed.

(** the explicit rounding factor: [m] additions and one division *)
Definition dist_eps (m : nat) : R := (2 * INR m + 2) * bpow radix2 (-53).

Lemma dist_core : forall (ts : list float) (n : nat),
  Forall fin01 ts -> (Z.of_nat (length ts) < 2 ^ 52)%Z ->
  (1 <= n)%nat -> (Z.of_nat n < 2 ^ 52)%Z ->
  let S := fold_left PrimFloat.add ts 0%float in
  let d := (S / mul FNum (@two FNum) (of_N FNum (N.of_nat n)))%float in
  (Ffin S /\ 0 <= FR S <= INR (length ts) /\
   Rabs (FR S - RS ts) <= INR (length ts) * bpow radix2 (-53) * FR S) /\
  Ffin d /\ 0 <= FR d /\
  FR d = rnd (FR S / (2 * INR n)) /\
  FR d <= RS ts / (2 * INR n) * (1 + dist_eps (length ts)) + bpow radix2 (-1075) /\
  (RS ts <= 2 * INR n -> FR d <= 1 + dist_eps (length ts)).
Proof.
  intros ts n Hts Hlen Hn1 Hn S d.
  destruct (denom_ok n Hn) as [Hdf Hde]. cbv zeta in Hdf, Hde.
  set (dn := mul FNum (@two FNum) (of_N FNum (N.of_nat n))) in *.
  assert (H0 : 0 <= FR 0%float <= IZR 0) by (rewrite FR_zero; lra).
  assert (Hb : (0 + Z.of_nat (length ts) < 2 ^ 53)%Z) by lia.
  destruct (fsum_inv ts 0%float 0%Z Hts Ffin_zero H0 (Z.le_refl 0) Hb) as [G1 [G2 [G3 _]]].
  assert (HE := fsum_err ts 0%float 0%Z Hts Ffin_zero H0 (Z.le_refl 0) Hb).
  fold S in G1, G2, G3, HE. rewrite FR_zero in G2. rewrite FR_zero, Rplus_0_l in HE.
  rewrite Z.add_0_l, <- INR_IZR_INZ in G3.
  change (bpow radix2 (-53)) with u53. change (bpow radix2 (-1075)) with eta1075.
  unfold dist_eps. change (bpow radix2 (-53)) with u53.
  set (m := INR (length ts)) in *.
  assert (Hu := u53_pos). assert (Heta := eta_pos).
  assert (Hm0 : 0 <= m) by apply pos_INR.
  assert (Hmu : m * u53 <= / 2).
  { unfold m. rewrite INR_IZR_INZ.
    apply Rle_trans with (IZR (2 ^ 52) * u53).
    - apply Rmult_le_compat_r; [lra | apply IZR_le; lia].
    - change (IZR (2 ^ 52)) with (bpow radix2 52). unfold u53.
      rewrite <- bpow_plus. right. reflexivity. }
  assert (Hw0 : 0 <= m * u53) by (apply Rmult_le_pos; lra).
  assert (Hn2 : 1 <= INR n) by (change 1 with (INR 1); apply le_INR; exact Hn1).
  set (N := 2 * INR n) in *.
  assert (HN : 2 <= N) by (unfold N; lra).
  assert (HNi : 0 < / N) by (apply Rinv_0_lt_compat; lra).
  assert (HNi1 : / N <= / 2) by (apply Rinv_le_contravar; lra).
  set (x := FR S / N).
  assert (Hx0 : 0 <= x) by (unfold x, Rdiv; apply Rmult_le_pos; lra).
  assert (HxS : x <= FR S).
  { unfold x, Rdiv. rewrite <- (Rmult_1_r (FR S)) at 2.
    apply Rmult_le_compat_l; lra. }
  assert (Hr0 : 0 <= rnd x) by (apply rnd_ge_fmt; [apply fmt_0 | exact Hx0]).
  assert (Hm52 : m <= IZR (2 ^ 52)).
  { unfold m. rewrite INR_IZR_INZ. apply IZR_le. lia. }
  assert (Hr1 : rnd x <= IZR (2 ^ 52)).
  { apply rnd_le_fmt; [apply fmt_IZR; lia | lra]. }
  assert (Hbd : Rabs (rnd (FR S / FR dn)) < bpow radix2 emax).
  { rewrite Hde. fold x. apply small_lt_emax. rewrite Rabs_pos_eq by exact Hr0.
    apply Rle_trans with (1 := Hr1). apply IZR_le. lia. }
  destruct (div_ok S dn G1 ltac:(rewrite Hde; lra) Hbd) as [Hf He].
  rewrite Hde in He. fold x in He. fold d in Hf, He.
  split; [split; [exact G1 | split; [split; [exact G2 | exact G3] | exact HE]]|].
  split; [exact Hf|]. split; [rewrite He; exact Hr0|]. split; [exact He|].
  (* the real bounds *)
  apply Rabs_le_inv in HE.
  set (B := RS ts / N).
  assert (HBx : x * (1 - m * u53) <= B).
  { unfold x, B, Rdiv.
    replace (FR S * / N * (1 - m * u53)) with ((FR S - m * u53 * FR S) * / N) by ring.
    apply Rmult_le_compat_r; lra. }
  assert (HB0 : 0 <= B).
  { apply Rle_trans with (2 := HBx). apply Rmult_le_pos; lra. }
  set (w := m * u53) in *.
  assert (Hxw : x <= B * (1 + 2 * w)).
  { assert (H1 : x * (1 - w) * (1 + 2 * w) <= B * (1 + 2 * w))
      by (apply Rmult_le_compat_r; lra).
    assert (H2 : 0 <= x * (w * (1 - 2 * w))).
    { apply Rmult_le_pos; [exact Hx0|]. apply Rmult_le_pos; lra. }
    replace (x * (1 - w) * (1 + 2 * w)) with (x + x * (w * (1 - 2 * w))) in H1 by ring.
    lra. }
  assert (Hxu : x * (1 + u53) <= B * (1 + (2 * m + 2) * u53)).
  { apply Rle_trans with (B * (1 + 2 * w) * (1 + u53)).
    - apply Rmult_le_compat_r; lra.
    - replace (B * (1 + 2 * w) * (1 + u53)) with (B * (1 + 2 * w + u53 + 2 * w * u53)) by ring.
      apply Rmult_le_compat_l; [exact HB0|].
      assert (H3 : 2 * w * u53 <= 1 * u53) by (apply Rmult_le_compat_r; lra).
      unfold w in *. lra. }
  split.
  - rewrite He. assert (Hd := div_err x). rewrite (Rabs_pos_eq x Hx0) in Hd.
    apply Rabs_le_inv in Hd. lra.
  - intros HRS.
    assert (HB1 : B <= 1).
    { unfold B, Rdiv. apply Rmult_le_reg_r with N; [lra|].
      rewrite Rmult_assoc, Rinv_l, Rmult_1_r, Rmult_1_l by lra. exact HRS. }
    assert (He0 : 0 <= (2 * m + 2) * u53) by (apply Rmult_le_pos; lra).
    rewrite He. destruct (Rle_or_lt x 1) as [Hx1|Hx1].
    + assert (H1 : rnd x <= 1) by (apply rnd_le_fmt; [apply fmt_1 | exact Hx1]). lra.
    + assert (H1 := rnd_rel_ge1 x ltac:(lra)).
      assert (H2 : B * (1 + (2 * m + 2) * u53) <= 1 * (1 + (2 * m + 2) * u53))
        by (apply Rmult_le_compat_r; lra).
      lra.
Qed.

Lemma dist_eps_mono : forall a b : nat, (a <= b)%nat -> dist_eps a <= dist_eps b.
Proof.
  intros a b Hab. unfold dist_eps. apply Rmult_le_compat_r; [apply bpow_ge_0|].
  apply le_INR in Hab. lra.
Qed.

Lemma dist_eps_pos : forall a : nat, 0 < dist_eps a.
Proof.
  intros a. unfold dist_eps. apply Rmult_lt_0_compat; [|apply bpow_gt_0].
  assert (H := pos_INR a). lra.
Qed.

(** From a list of valid terms whose exact sum is below [RS l + RS r] to the
    statement about [distance_player]. *)
Lemma dist_from_terms : forall (ts l r : list float) (n : nat),
  Forall fin01 ts -> (length ts <= length l)%nat -> RS ts <= RS l + RS r ->
  (Z.of_nat (length l) < 2 ^ 52)%Z -> (1 <= n)%nat -> (Z.of_nat n < 2 ^ 52)%Z ->
  let S := fold_left PrimFloat.add ts 0%float in
  let d := (S / mul FNum (@two FNum) (of_N FNum (N.of_nat n)))%float in
  Ffin S /\ 0 <= FR S <= INR (length l) /\
  Ffin d /\ 0 <= FR d /\
  FR d = rnd (FR S / (2 * INR n)) /\
  FR d <= (RS l + RS r) / (2 * INR n) * (1 + dist_eps (length l)) + bpow radix2 (-1075) /\
  (RS l + RS r <= 2 * INR n -> FR d <= 1 + dist_eps (length l)).
Proof.
  intros ts l r n Hts Hlen HRS Hl Hn1 Hn S d.
  assert (Hlen' : (Z.of_nat (length ts) < 2 ^ 52)%Z) by lia.
  destruct (dist_core ts n Hts Hlen' Hn1 Hn) as [[C1 [[C2 C3] _]] [C4 [C5 [C6 [C7 C8]]]]].
  fold S in C1, C2, C3, C6. fold S d in C4, C5, C6, C7, C8.
  assert (Hm := dist_eps_mono _ _ Hlen).
  assert (Hp := dist_eps_pos (length ts)).
  assert (Hn2 : 1 <= INR n) by (change 1 with (INR 1); apply le_INR; exact Hn1).
  assert (HNi : 0 < / (2 * INR n)) by (apply Rinv_0_lt_compat; lra).
  assert (Hts0 := RS_nonneg ts Hts).
  split; [exact C1|]. split; [split; [exact C2|]|].
  { apply Rle_trans with (1 := C3). apply le_INR. exact Hlen. }
  split; [exact C4|]. split; [exact C5|]. split; [exact C6|]. split.
  - apply Rle_trans with (1 := C7). apply Rplus_le_compat_r.
    apply Rmult_le_compat.
    + unfold Rdiv. apply Rmult_le_pos; lra.
    + lra.
    + unfold Rdiv. apply Rmult_le_compat_r; lra.
    + lra.
  - intros H. apply Rle_trans with (1 + dist_eps (length ts)); [|lra].
    apply C8. lra.
Qed.

(** ** 3. Exponent 1: finite, non-negative, never NaN, bounded *)

Theorem distance_player_float_1 : forall (n : nat) (l r : list float),
  Forall fin01 l -> Forall fin01 r ->
  (Z.of_nat (length l) < 2 ^ 52)%Z -> (1 <= n)%nat -> (Z.of_nat n < 2 ^ 52)%Z ->
  let S := @dist_sum FNum 1%float l r in
  let d := @distance_player FNum 1%float n l r in
  Ffin S /\ 0 <= FR S <= INR (length l) /\
  Ffin d /\ 0 <= FR d /\
  FR d = rnd (FR S / (2 * INR n)) /\
  FR d <= (RS l + RS r) / (2 * INR n) * (1 + dist_eps (length l)) + bpow radix2 (-1075) /\
  (RS l + RS r <= 2 * INR n -> FR d <= 1 + dist_eps (length l)).
Proof.
  intros n l r Hl Hr Hlen Hn1 Hn S d.
  destruct (terms1_ok l r Hl Hr) as [T1 T2].
  assert (Hd : d = (S / mul FNum (@two FNum) (of_N FNum (N.of_nat n)))%float).
  { unfold d, distance_player. destruct n as [|n']; [lia | reflexivity]. }
  rewrite Hd. unfold S. rewrite dist_sum_float_1.
  apply (dist_from_terms (terms1 l r) l r n T1 (terms1_length l r) T2 Hlen Hn1 Hn).
Qed.

(** ** 4. Exponent 2 *)

Theorem distance_player_float_2 : forall (n : nat) (l r : list float),
  Forall fin01 l -> Forall fin01 r ->
  (Z.of_nat (length l) < 2 ^ 52)%Z -> (1 <= n)%nat -> (Z.of_nat n < 2 ^ 52)%Z ->
  let S := @dist_sum FNum 2%float l r in
  let d := @distance_player FNum 2%float n l r in
  Ffin S /\ 0 <= FR S <= INR (length l) /\
  Ffin d /\ 0 <= FR d /\
  FR d = rnd (FR S / (2 * INR n)) /\
  FR d <= (RS l + RS r) / (2 * INR n) * (1 + dist_eps (length l)) + bpow radix2 (-1075) /\
  (RS l + RS r <= 2 * INR n -> FR d <= 1 + dist_eps (length l)).
Proof.
  intros n l r Hl Hr Hlen Hn1 Hn S d.
  destruct (terms1_ok l r Hl Hr) as [_ T2].
  destruct (terms2_ok l r Hl Hr) as [U1 U2].
  assert (Hd : d = (S / mul FNum (@two FNum) (of_N FNum (N.of_nat n)))%float).
  { unfold d, distance_player. destruct n as [|n']; [lia | reflexivity]. }
  rewrite Hd. unfold S. rewrite dist_sum_float_2.
  apply (dist_from_terms (terms2 l r) l r n U1 (terms2_length l r) ltac:(lra) Hlen Hn1 Hn).
Qed.

(** Profiles whose rows sum to one within a relative [delta] (e.g. the
    [length * 2^-52] of [truncate_row_float_sum]): the exact sum of a profile
    over [n] infosets is at most [n * (1 + delta)]. *)
Corollary distance_player_float_le : forall (p : float) (n : nat) (l r : list float) (delta : R),
  p = 1%float \/ p = 2%float ->
  Forall fin01 l -> Forall fin01 r ->
  (Z.of_nat (length l) < 2 ^ 52)%Z -> (1 <= n)%nat -> (Z.of_nat n < 2 ^ 52)%Z ->
  0 <= delta ->
  RS l <= INR n * (1 + delta) -> RS r <= INR n * (1 + delta) ->
  let d := @distance_player FNum p n l r in
  Ffin d /\ 0 <= FR d /\
  FR d <= (1 + delta) * (1 + dist_eps (length l)) + bpow radix2 (-1075).
Proof.
  intros p n l r delta Hp Hl Hr Hlen Hn1 Hn Hdl HRl HRr d.
  assert (H : Ffin d /\ 0 <= FR d /\
     FR d <= (RS l + RS r) / (2 * INR n) * (1 + dist_eps (length l)) + bpow radix2 (-1075)).
  { unfold d. destruct Hp as [Hp|Hp]; subst p.
    - destruct (distance_player_float_1 n l r Hl Hr Hlen Hn1 Hn) as [_ [_ [A [B [_ [C _]]]]]].
      split; [exact A|]. split; [exact B | exact C].
    - destruct (distance_player_float_2 n l r Hl Hr Hlen Hn1 Hn) as [_ [_ [A [B [_ [C _]]]]]].
      split; [exact A|]. split; [exact B | exact C]. }
  destruct H as [A [B C]]. split; [exact A|]. split; [exact B|].
  apply Rle_trans with (1 := C). apply Rplus_le_compat_r.
  assert (Hp0 := dist_eps_pos (length l)).
  apply Rmult_le_compat_r; [lra|].
  assert (Hn2 : 1 <= INR n) by (change 1 with (INR 1); apply le_INR; exact Hn1).
  unfold Rdiv. apply Rmult_le_reg_r with (2 * INR n); [lra|].
  rewrite Rmult_assoc, Rinv_l, Rmult_1_r by lra. lra.
Qed.

(** The API function: for the exponents 1 and 2 both components are finite and
    non-negative (no NaN), whatever the number of infosets (0 included). *)
Theorem distance_float_valid : forall (g : @game FNum) (p : float) (a b : list float * list float),
  p = 1%float \/ p = 2%float ->
  Forall fin01 (fst a) -> Forall fin01 (fst b) -> Forall fin01 (snd a) -> Forall fin01 (snd b) ->
  (Z.of_nat (length (fst a)) < 2 ^ 52)%Z -> (Z.of_nat (length (snd a)) < 2 ^ 52)%Z ->
  (Z.of_nat (length (g_infos1 g)) < 2 ^ 52)%Z -> (Z.of_nat (length (g_infos2 g)) < 2 ^ 52)%Z ->
  exists d1 d2, @distance FNum g p a b = Some (d1, d2) /\
    Ffin d1 /\ 0 <= FR d1 /\ Ffin d2 /\ 0 <= FR d2.
Proof.
  intros g p a b Hp A1 B1 A2 B2 L1 L2 N1 N2.
  assert (Hcore : forall n l r, Forall fin01 l -> Forall fin01 r ->
            (Z.of_nat (length l) < 2 ^ 52)%Z -> (Z.of_nat n < 2 ^ 52)%Z ->
            Ffin (@distance_player FNum p n l r) /\ 0 <= FR (@distance_player FNum p n l r)).
  { intros n l r Hl Hr Hlen Hn. destruct n as [|n'].
    - cbn [distance_player zero FNum]. split; [apply Ffin_zero | rewrite FR_zero; lra].
    - destruct Hp as [Hp|Hp]; subst p.
      + destruct (distance_player_float_1 (S n') l r Hl Hr Hlen ltac:(lia) Hn)
          as [_ [_ [A [B _]]]]. split; assumption.
      + destruct (distance_player_float_2 (S n') l r Hl Hr Hlen ltac:(lia) Hn)
          as [_ [_ [A [B _]]]]. split; assumption. }
  unfold distance.
  assert (Hlt : ltb FNum (zero FNum) p = true) by (destruct Hp; subst p; vm_compute; reflexivity).
  rewrite Hlt.
  destruct (Hcore (length (g_infos1 g)) (fst a) (fst b) A1 B1 L1 N1) as [F1 P1].
  destruct (Hcore (length (g_infos2 g)) (snd a) (snd b) A2 B2 L2 N2) as [F2 P2].
  eexists. eexists. split; [reflexivity|]. repeat split; assumption.
Qed.

(** Exact zero through [distance_player]. *)
Theorem distance_player_float_self : forall (p : float) (n : nat) (l : list float),
  ltb FNum (zero FNum) p = true -> Forall Ffin l -> (Z.of_nat n < 2 ^ 52)%Z ->
  @distance_player FNum p n l l = 0%float.
Proof.
  intros p n l Hp Hl Hn. unfold distance_player. destruct n as [|n']; [reflexivity|].
  rewrite (dist_sum_float_self p l Hp Hl).
  destruct (denom_ok (S n') Hn) as [Hf He]. cbv zeta in Hf, He.
  apply div_zero_pos; [exact Hf|]. rewrite He.
  assert (H : 1 <= INR (S n')) by (change 1 with (INR 1); apply le_INR; lia). lra.
Qed.

(** ** 5. Examples *)

Definition ex_pure_a : list float := [1; 0; 1; 0]%float.
Definition ex_pure_b : list float := [0; 1; 0; 1]%float.
Definition ex_mixed : list float := [0.5; 0.5; 0.25; 0.75]%float.

Example ex_pure_a_fin01 : Forall fin01 ex_pure_a.
Proof. apply forallb_fin01b. vm_compute. reflexivity. Qed.
Example ex_pure_b_fin01 : Forall fin01 ex_pure_b.
Proof. apply forallb_fin01b. vm_compute. reflexivity. Qed.
Example ex_mixed_fin01 : Forall fin01 ex_mixed.
Proof. apply forallb_fin01b. vm_compute. reflexivity. Qed.

(** disjoint pure rows over two infosets: distance exactly 1, both exponents *)
Example ex_dist_disjoint_1 : @distance_player FNum 1%float 2 ex_pure_a ex_pure_b = 1%float.
Proof. vm_compute. reflexivity. Qed.
Example ex_dist_disjoint_2 : @distance_player FNum 2%float 2 ex_pure_a ex_pure_b = 1%float.
Proof. vm_compute. reflexivity. Qed.

(** equal profiles: exactly 0 (also for an exponent that goes through exp/ln) *)
Example ex_dist_equal_1 : @distance_player FNum 1%float 2 ex_mixed ex_mixed = 0%float.
Proof. vm_compute. reflexivity. Qed.
Example ex_dist_equal_2 : @distance_player FNum 2%float 2 ex_mixed ex_mixed = 0%float.
Proof. vm_compute. reflexivity. Qed.
Example ex_dist_equal_3 : @distance_player FNum 3%float 2 ex_mixed ex_mixed = 0%float.
Proof. vm_compute. reflexivity. Qed.

(** a mixed case, symmetric bit for bit *)
Example ex_dist_mixed :
  @distance_player FNum 1%float 2 ex_pure_a ex_mixed = 0.625%float /\
  @distance_player FNum 1%float 2 ex_mixed ex_pure_a = 0.625%float /\
  @distance_player FNum 2%float 2 ex_pure_a ex_mixed = 0x1.ap-2%float.
Proof. vm_compute. repeat split; reflexivity. Qed.

(** non-finite entries: inf - inf is NaN, the self-distance is NaN, so
    [Forall Ffin] cannot be dropped from [dist_sum_float_self]; symmetry still
    holds *)
Example ex_dist_inf : PrimFloat.is_nan (@dist_sum FNum 1%float [infinity] [infinity]) = true.
Proof. vm_compute. reflexivity. Qed.

Example ex_valid_instance_1 :
  let d := @distance_player FNum 1%float 2 ex_pure_a ex_mixed in Ffin d /\ 0 <= FR d.
Proof.
  destruct (distance_player_float_1 2 ex_pure_a ex_mixed ex_pure_a_fin01 ex_mixed_fin01)
    as [_ [_ [A [B _]]]]; try (vm_compute; reflexivity); try lia.
  split; assumption.
Qed.
