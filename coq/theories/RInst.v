(** * RInst: the real-number instance of [Num] — the mathematical reading of the
    code; every theorem is about the model instantiated here. *)
From Coq Require Import Reals NArith List Bool Lra.
From Cfr.theories Require Import Num.
Import ListNotations.
Open Scope R_scope.

Definition Rltb (a b : R) : bool := if Rlt_dec a b then true else false.
Definition Rleb (a b : R) : bool := if Rle_dec a b then true else false.
Definition Reqb (a b : R) : bool := if Req_EM_T a b then true else false.

(** [powf] on a non-negative base: [0^y = 0] for [y > 0], [x^0 = 1]. *)
Definition Rpowf (x y : R) : R :=
  if Req_EM_T y 0 then 1
  else if Rlt_dec 0 x then Rpower x y
  else 0.

Definition RNum : Num := {|
  T := R;
  zero := 0; one := 1;
  add := Rplus; sub := Rminus; mul := Rmult; div := Rdiv;
  neg := Ropp; absv := Rabs;
  fmax := Rmax; fmin := Rmin;
  ltb := Rltb; leb := Rleb; eqb := Reqb;
  is_fin := fun _ => true; is_nan := fun _ => false;
  is_pinf := fun _ => false; is_ninf := fun _ => false;
  pinf := 0;                       (* never produced on paths the theorems cover *)
  exp := Rtrigo_def.exp; ln := Rpower.ln;
  pow := Rpowf;
  of_N := fun n => INR (N.to_nat n)
|}.

Lemma Rltb_true a b : Rltb a b = true <-> a < b.
Proof. unfold Rltb; destruct (Rlt_dec a b); split; intros; try easy; lra. Qed.
Lemma Rltb_false a b : Rltb a b = false <-> b <= a.
Proof. unfold Rltb; destruct (Rlt_dec a b); split; intros; try easy; lra. Qed.
Lemma Rleb_true a b : Rleb a b = true <-> a <= b.
Proof. unfold Rleb; destruct (Rle_dec a b); split; intros; try easy; lra. Qed.
Lemma Rleb_false a b : Rleb a b = false <-> b < a.
Proof. unfold Rleb; destruct (Rle_dec a b); split; intros; try easy; lra. Qed.
Lemma Reqb_true a b : Reqb a b = true <-> a = b.
Proof. unfold Reqb; destruct (Req_EM_T a b); split; intros; try easy. Qed.
Lemma Reqb_false a b : Reqb a b = false <-> a <> b.
Proof. unfold Reqb; destruct (Req_EM_T a b); split; intros; try easy. Qed.

(** Sums: [sum] is a left fold; relate it to a right-fold-friendly form. *)
Fixpoint Rsum (l : list R) : R :=
  match l with [] => 0 | x :: r => x + Rsum r end.

Lemma fold_left_Rplus_acc l a : fold_left Rplus l a = a + Rsum l.
Proof.
  revert a; induction l as [|x l IH]; intros a; cbn [fold_left Rsum]; [lra|].
  rewrite IH; lra.
Qed.

Lemma sum_Rsum (l : list R) : @sum RNum l = Rsum l.
Proof. unfold sum; cbn. rewrite fold_left_Rplus_acc; lra. Qed.

Lemma Rsum_app l1 l2 : Rsum (l1 ++ l2) = Rsum l1 + Rsum l2.
Proof. induction l1 as [|x l IH]; cbn [Rsum app]; [lra|rewrite IH; lra]. Qed.

Lemma Rsum_nonneg l : Forall (fun x => 0 <= x) l -> 0 <= Rsum l.
Proof. induction 1; cbn [Rsum]; lra. Qed.

Lemma Rsum_map_mult c l : Rsum (map (fun x => x * c) l) = Rsum l * c.
Proof. induction l as [|x l IH]; cbn [Rsum map]; [lra|rewrite IH; lra]. Qed.

Lemma Rsum_map_div c l : Rsum (map (fun x => x / c) l) = Rsum l / c.
Proof. unfold Rdiv. apply Rsum_map_mult. Qed.
