(** * AvgRealisation: the average strategy returned by the solver realises the average
    of the per-iteration strategies (property C02, part 2).

    For a player with perfect recall, against *any* opponent table [tau]:
    [u(avg, tau) = (1/T) * sum_t u(sigma^t, tau)].

    - [avg_abstract]: the statement for an arbitrary weighted family of strategy tables
      and any table [A] satisfying the averaging equation at every infoset of the tree;
    - [strat_delta_reach]: the weight the traversal adds to [cum_strat] at an infoset is
      (number of its nodes) x (own reach probability of its history);
    - [avg_eq_traj]: hence [avg_strat] of [cum_strat] satisfies the averaging equation;
    - [avg_realisation]: the theorem. *)
From Coq Require Import Reals List Lra Lia Bool Arith NArith.
From Cfr.theories Require Import Num RInst Tree GameWF Strat Eval Solve Valid
     SolveValidProofs Incr IterChar EvalSpec CfrSpec Decomposition.
Import ListNotations.
Open Scope R_scope.

Local Notation node := (@node RNum).
Local Notation game := (@game RNum).
Local Notation incr := (@incr RNum).
Local Notation oracle := (@oracle RNum).

(** own reach probability of a history under a strategy table *)
Definition ppi (tbl : list (list R)) (h : hist) : R :=
  fold_right (fun ia acc => prob tbl (fst ia) (snd ia) * acc) 1 h.

Lemma ppi_app tbl h i a : ppi tbl (h ++ [(i, a)]) = ppi tbl h * prob tbl i a.
Proof.
  induction h as [|x h IH]; cbn [app ppi fold_right fst snd]; [lra|].
  fold (ppi tbl (h ++ [(i, a)])). fold (ppi tbl h). rewrite IH. lra.
Qed.

Lemma ppi_nonneg tbl h : (forall i a, 0 <= prob tbl i a) -> 0 <= ppi tbl h.
Proof.
  intros Hp. induction h as [|x h IH]; cbn [ppi fold_right]; [lra|].
  fold (ppi tbl h). apply Rmult_le_pos; auto.
Qed.

(** perfect recall of one player *)
Definition PRwit_me (g : game) (me : bool) (H : bool -> nat -> hist) : Prop :=
  forall i h, In (me, i, h) (@hists RNum (g_root g) [] []) -> h = H me i.

(** ** The abstract statement *)
Section Abstract.
  Context (chance : list (list R)) (me : bool) (tau : list (list R)).
  Context (T : nat) (w : nat -> R) (sig : nat -> list (list R)) (A : list (list R)).
  Context (H : bool -> nat -> hist).

  Definition U (own : list (list R)) : node -> R :=
    u chance (if me then own else tau) (if me then tau else own).

  Lemma U_tbl_me own : (if me then (if me then own else tau) else (if me then tau else own)) = own.
  Proof. destruct me; reflexivity. Qed.
  Lemma U_tbl_other own pl :
    pl <> me -> (if pl then (if me then own else tau) else (if me then tau else own)) = tau.
  Proof. destruct me, pl; try congruence; reflexivity. Qed.

  Definition Ih (h : hist) : Prop :=
    Rsumn T w * ppi A h = Rsumn T (fun t => w t * ppi (sig t) h).

  (** the averaging equation at infoset [i], action [b] *)
  Definition AvgEq (i b : nat) : Prop :=
    Rsumn T (fun t => w t * ppi (sig t) (H me i)) * prob A i b =
    Rsumn T (fun t => w t * ppi (sig t) (H me i) * prob (sig t) i b).

  Definition Good (x : hentry) : Prop :=
    let '(pl, i, h) := x in pl = me -> h = H me i /\ forall b, AvgEq i b.

  Definition AvgP (n : node) : Prop :=
    forall h1 h2, HSub Good n h1 h2 -> Ih (hme me h1 h2) ->
      Rsumn T w * ppi A (hme me h1 h2) * U A n =
      Rsumn T (fun t => w t * ppi (sig t) (hme me h1 h2) * U (sig t) n).

  Lemma avg_node n : AvgP n.
  Proof.
    induction n as [x|ci kids IH|pl j kids IH] using GameWF.node_ind'; intros h1 h2 HS HI.
    - unfold U. cbn [u]. rewrite HI, Rmult_comm, <- Rsumn_scal. apply Rsumn_ext. intros t _. lra.
    - unfold U. rewrite u_Chance_n. rewrite <- Rsumn_scal.
      rewrite (Rsumn_ext _ _ (fun b => Rsumn T (fun t => nth b (rowR chance ci) 0 *
                                (w t * ppi (sig t) (hme me h1 h2) * U (sig t) (nth b kids d0))))).
      + rewrite Rsumn_exchange. apply Rsumn_ext. intros t _.
        rewrite u_Chance_n, <- Rsumn_scal. apply Rsumn_ext. intros b _. unfold U. lra.
      + intros b Hb. rewrite Rsumn_scal.
        rewrite <- (Forall_nth_lt _ _ b d0 IH Hb h1 h2 (HSub_Chance _ _ _ _ _ b HS Hb) HI).
        unfold U. lra.
    - destruct (Bool.bool_dec pl me) as [Epl|Npl].
      + subst pl. destruct (HSub_Player_here _ _ _ _ _ _ HS eq_refl) as [Hh Havg].
        change (if me then h1 else h2) with (hme me h1 h2) in Hh.
        unfold U. rewrite u_Player_n, U_tbl_me, <- Rsumn_scal.
        rewrite (Rsumn_ext _ _ (fun b => Rsumn T (fun t =>
                    w t * ppi (sig t) (hme me h1 h2 ++ [(j, b)]) * U (sig t) (nth b kids d0)))).
        * rewrite Rsumn_exchange. apply Rsumn_ext. intros t _. unfold U.
          rewrite u_Player_n, U_tbl_me, <- Rsumn_scal. apply Rsumn_ext. intros b _.
          rewrite ppi_app. lra.
        * intros b Hb.
          assert (HIb : Ih (hme me h1 h2 ++ [(j, b)])).
          { unfold Ih. rewrite ppi_app, <- Rmult_assoc, HI, Hh, (Havg b).
            apply Rsumn_ext. intros t _. rewrite ppi_app. lra. }
          pose proof (Forall_nth_lt _ _ b d0 IH Hb _ _ (HSub_Player_kid _ _ _ _ _ _ b HS Hb)) as E.
          rewrite hme_ext_same in E. rewrite <- (E HIb). rewrite ppi_app. unfold U. lra.
      + unfold U. rewrite u_Player_n, (U_tbl_other A pl Npl), <- Rsumn_scal.
        rewrite (Rsumn_ext _ _ (fun b => Rsumn T (fun t => prob tau j b *
                                  (w t * ppi (sig t) (hme me h1 h2) * U (sig t) (nth b kids d0))))).
        * rewrite Rsumn_exchange. apply Rsumn_ext. intros t _. unfold U.
          rewrite u_Player_n, (U_tbl_other (sig t) pl Npl), <- Rsumn_scal.
          apply Rsumn_ext. intros b _. lra.
        * intros b Hb. rewrite Rsumn_scal.
          pose proof (Forall_nth_lt _ _ b d0 IH Hb _ _ (HSub_Player_kid _ _ _ _ _ _ b HS Hb)) as E.
          rewrite (hme_ext_other me pl j b h1 h2 Npl) in E. rewrite <- (E HI). unfold U. lra.
  Qed.

  Theorem avg_abstract (root : node) :
    HSub Good root [] [] ->
    Rsumn T w * U A root = Rsumn T (fun t => w t * U (sig t) root).
  Proof.
    intros HS.
    assert (HI : Ih (hme me [] [])).
    { unfold Ih. replace (hme me [] []) with (@nil (nat * nat)) by (destruct me; reflexivity).
      cbn [ppi fold_right]. rewrite Rmult_1_r. apply Rsumn_ext. intros; lra. }
    pose proof (avg_node root [] [] HS HI) as E.
    replace (hme me [] []) with (@nil (nat * nat)) in E by (destruct me; reflexivity).
    cbn [ppi fold_right] in E. rewrite Rmult_1_r in E. rewrite E.
    apply Rsumn_ext. intros; lra.
  Qed.
End Abstract.

(** ** The weight added to [cum_strat] by one traversal *)
Section Cnt.
  Context (me : bool) (i : nat).

  (** number of nodes of infoset [(me, i)] in a subtree *)
  Fixpoint cnt (n : node) : R :=
    match n with
    | Term _ => 0
    | Chance _ kids => Rsum (map cnt kids)
    | Player pl j kids =>
        (if Bool.eqb pl me && Nat.eqb j i then 1 else 0) + Rsum (map cnt kids)
    end.

  Lemma Rsum_map_ge_in {A} (f : A -> R) l k :
    Forall (fun x => 0 <= f x) l -> In k l -> f k <= Rsum (map f l).
  Proof.
    induction 1 as [|x l Hx Hl IH]; intros Hin; [destruct Hin|].
    cbn [map Rsum]. assert (0 <= Rsum (map f l)).
    { apply Rsum_nonneg. apply Forall_forall. intros y Hy. apply in_map_iff in Hy as (z & <- & Hz).
      rewrite Forall_forall in Hl. auto. }
    destruct Hin as [->|Hin]; [lra|]. specialize (IH Hin). lra.
  Qed.

  Lemma hists_c_in h1 h2 ks x :
    In x (hists_c h1 h2 ks) -> exists k, In k ks /\ In x (@hists RNum k h1 h2).
  Proof.
    induction ks as [|k r IH]; cbn [hists_c]; [intros []|].
    intros Hin. apply in_app_or in Hin as [Hin|Hin].
    - exists k. split; [now left|assumption].
    - destruct (IH Hin) as (k' & Hk & Hx). exists k'. split; [now right|assumption].
  Qed.

  Lemma hists_p_in pl j h1 h2 ks a x :
    In x (hists_p pl j h1 h2 ks a) -> exists k h1' h2', In k ks /\ In x (@hists RNum k h1' h2').
  Proof.
    revert a; induction ks as [|k r IH]; intros a; cbn [hists_p]; [intros []|].
    intros Hin. apply in_app_or in Hin as [Hin|Hin].
    - exists k. do 2 eexists. split; [now left|eassumption].
    - destruct (IH _ Hin) as (k' & h1' & h2' & Hk & Hx). exists k', h1', h2'.
      split; [now right|assumption].
  Qed.

  Lemma cnt_pos n :
    0 <= cnt n /\ forall h1 h2 h, In (me, i, h) (@hists RNum n h1 h2) -> 1 <= cnt n.
  Proof.
    induction n as [x|ci kids IH|pl j kids IH] using GameWF.node_ind'.
    - cbn [cnt hists]. split; [lra|intros ? ? ? []].
    - assert (Hnn : Forall (fun k => 0 <= cnt k) kids).
      { eapply Forall_impl; [|exact IH]. intros k [Hk _]. exact Hk. }
      cbn [cnt]. split.
      + apply Rsum_nonneg. apply Forall_forall. intros y Hy. apply in_map_iff in Hy as (z & <- & Hz).
        rewrite Forall_forall in Hnn. auto.
      + intros h1 h2 h Hin. rewrite hists_Chance in Hin.
        apply hists_c_in in Hin as (k & Hk & Hx).
        rewrite Forall_forall in IH. destruct (IH k Hk) as [_ Hge].
        pose proof (Rsum_map_ge_in cnt kids k Hnn Hk). specialize (Hge _ _ _ Hx). lra.
    - assert (Hnn : Forall (fun k => 0 <= cnt k) kids).
      { eapply Forall_impl; [|exact IH]. intros k [Hk _]. exact Hk. }
      assert (Hs : 0 <= Rsum (map cnt kids)).
      { apply Rsum_nonneg. apply Forall_forall. intros y Hy. apply in_map_iff in Hy as (z & <- & Hz).
        rewrite Forall_forall in Hnn. auto. }
      cbn [cnt]. split; [destruct (_ && _); lra|].
      intros h1 h2 h Hin. rewrite hists_Player in Hin. destruct Hin as [E|Hin].
      + injection E as -> -> _. rewrite Bool.eqb_reflx, Nat.eqb_refl. cbn [andb]. lra.
      + apply hists_p_in in Hin as (k & h1' & h2' & Hk & Hx).
        rewrite Forall_forall in IH. destruct (IH k Hk) as [_ Hge].
        pose proof (Rsum_map_ge_in cnt kids k Hnn Hk). specialize (Hge _ _ _ Hx).
        destruct (_ && _); lra.
  Qed.

  Context (chance : list (list R)) (draw : oracle) (pass : N).
  Context (s1 s2 : list (list R)) (H : bool -> nat -> hist).

  Local Notation sg := (sg_of s1 s2).
  Local Notation vv := (@vval RNum chance false draw pass sg).
  Local Notation vi := (@vincs RNum chance false draw pass sg).
  Local Notation own := (if me then s1 else s2).

  Definition OKC' (ci : nat) (kids : list node) : Prop := length (rowR chance ci) = length kids.
  Definition OKP' (pl : bool) (j : nat) (kids : list node) : Prop := length (sg pl j) = length kids.
  Definition PRme' (x : hentry) : Prop := let '(pl, j, h) := x in pl = me -> h = H me j.

  Definition ownp (p1 p2 : R) : R := if me then p1 else p2.

  Lemma ownp_same p1 p2 pr : ownp (q1_of me p1 pr) (q2_of me p2 pr) = ownp p1 p2 * pr.
  Proof. unfold ownp, q1_of, q2_of. destruct me; reflexivity. Qed.
  Lemma ownp_other pl p1 p2 pr : pl <> me -> ownp (q1_of pl p1 pr) (q2_of pl p2 pr) = ownp p1 p2.
  Proof. unfold ownp, q1_of, q2_of. destruct me, pl; try congruence; reflexivity. Qed.

  Definition WP (n : node) : Prop :=
    allp OKC' OKP' n ->
    forall h1 h2 pc p1 p2,
      HSub PRme' n h1 h2 -> ownp p1 p2 = ppi own (hme me h1 h2) ->
      msum (sd me i) (vi n pc p1 p2) = cnt n * ppi own (H me i).

  Lemma sd_IReg pl j a v : sd me i (@IReg RNum pl j a v) = 0.
  Proof. unfold sd. destruct (hits _ _ _); reflexivity. Qed.
  Lemma sd_IRegAll pl j v : sd me i (@IRegAll RNum pl j v) = 0.
  Proof. unfold sd. destruct (hits _ _ _); reflexivity. Qed.

  Lemma strat_delta_node n : WP n.
  Proof.
    induction n as [x|ci kids IH|pl j kids IH] using GameWF.node_ind';
      intros Hok h1 h2 pc p1 p2 HS Hp.
    - cbn [vincs cnt]. rewrite msum_nil. lra.
    - apply allp_Chance in Hok as [Hc Hk]. unfold OKC' in Hc.
      rewrite vincs_Chance, msum_incs_chance by assumption.
      cbn [cnt]. rewrite (Rsum_map_nth cnt kids d0), Rmult_comm, <- Rsumn_scal.
      apply Rsumn_ext. intros b Hb.
      rewrite (Forall_nth_lt _ _ b d0 IH Hb (Forall_nth_lt _ _ b d0 Hk Hb) h1 h2 _ p1 p2
                             (HSub_Chance _ _ _ _ _ b HS Hb) Hp). lra.
    - apply allp_Player in Hok as [Hl Hk]. unfold OKP' in Hl.
      rewrite vincs_Player. cbv zeta.
      rewrite msum_cons, msum_app, msum_incs_player by assumption.
      rewrite msum_cons, msum_nil, sd_IRegAll.
      cbn [cnt]. rewrite (Rsum_map_nth cnt kids d0), Rmult_plus_distr_r.
      rewrite (Rmult_comm (Rsumn _ _)), <- Rsumn_scal.
      rewrite (Rsumn_ext _ _ (fun b => ppi own (H me i) * cnt (nth b kids d0))).
      + unfold sd, hits. cbn [incr_pl incr_ix sdv].
        destruct (Bool.eqb_spec pl me) as [Epl|Npl]; cbn [andb]; [|lra].
        destruct (Nat.eqb_spec j i) as [Ej|Nj]; [|lra].
        subst pl j. pose proof (HSub_Player_here _ _ _ _ _ _ HS eq_refl) as Hh.
        change (if me then h1 else h2) with (hme me h1 h2) in Hh.
        tR. change (if me then p1 else p2) with (ownp p1 p2). rewrite Hp, Hh. lra.
      + intros b Hb. rewrite sd_IReg, Rplus_0_r.
        pose proof (Forall_nth_lt _ _ b d0 IH Hb (Forall_nth_lt _ _ b d0 Hk Hb) _ _ pc
                                  (q1_of pl p1 (nth b (sg pl j) 0)) (q2_of pl p2 (nth b (sg pl j) 0))
                                  (HSub_Player_kid _ _ _ _ _ _ b HS Hb)) as E.
        tR. rewrite E; [lra|].
        destruct (Bool.bool_dec pl me) as [Epl|Npl].
        * subst pl. rewrite ownp_same, hme_ext_same, ppi_app, Hp. unfold prob, sg_of. reflexivity.
        * rewrite (ownp_other pl p1 p2 _ Npl), (hme_ext_other me pl j b h1 h2 Npl). exact Hp.
  Qed.
End Cnt.

(** ** The averaging equation on the trajectory of the vanilla solve *)
Lemma Rsumn_zero_nonneg n F :
  (forall b, (b < n)%nat -> 0 <= F b) -> Rsumn n F = 0 -> forall b, (b < n)%nat -> F b = 0.
Proof.
  induction n as [|n IH]; intros Hnn Hs b Hb; [lia|].
  rewrite Rsumn_S_last in Hs.
  assert (0 <= Rsumn n F) by (apply Rsumn_nonneg; intros; apply Hnn; lia).
  pose proof (Hnn n ltac:(lia)).
  destruct (Nat.eq_dec b n) as [->|Hne]; [lra|].
  apply IH; [intros; apply Hnn; lia|lra|lia].
Qed.

Lemma Rsumn_const_one n : Rsumn n (fun _ => 1) = INR n.
Proof. induction n as [|n IH]; [reflexivity|]. rewrite Rsumn_S_last, IH, S_INR. lra. Qed.

Lemma nth_nonneg (l : list R) a : Forall (fun x => 0 <= x) l -> 0 <= nth a l 0.
Proof.
  intros Hl. destruct (Nat.lt_ge_cases a (length l)) as [Ha|Ha].
  - rewrite Forall_forall in Hl. apply Hl. now apply nth_In.
  - rewrite nth_overflow by assumption. lra.
Qed.

Section TrajAvg.
  Context (g : game) (Hwf : @WFgame RNum g) (draw : oracle).
  Context (me : bool) (H : bool -> nat -> hist) (HPR : PRwit_me g me H).
  Context (T : nat).

  Let Hpos : arities_pos g := WFgame_arities_pos g Hwf.
  Local Notation sig := (fun t => sigma_at g draw (S t) me).
  Local Notation A := (avg g draw T me).
  Local Notation root := (g_root g).

  Lemma prob_sigma_nonneg t pl i a : 0 <= prob (sigma_at g draw (S t) pl) i a.
  Proof.
    unfold prob. rewrite sigma_at_row. apply nth_nonneg.
    exact (InvA_strat_nonneg _ _ _ pl i (state_at_inv g draw Hpos t)).
  Qed.

  Lemma ppi_sigma_nonneg t h : 0 <= ppi (sig t) h.
  Proof. apply ppi_nonneg. intros. apply prob_sigma_nonneg. Qed.

  Lemma sigma_row_oob t i : (ninfos g me <= i)%nat -> rowR (sig t) i = [].
  Proof.
    intros Hi. unfold rowR. apply nth_overflow. unfold sigma_at, tbl_strat.
    rewrite map_length, (state_at_len g draw Hpos). exact Hi.
  Qed.

  Lemma avg_row_oob i : (ninfos g me <= i)%nat -> rowR A i = [].
  Proof.
    intros Hi. unfold rowR. apply nth_overflow. unfold avg.
    rewrite map_length, (state_at_len g draw Hpos). exact Hi.
  Qed.

  Lemma avg_row i :
    (i < ninfos g me)%nat ->
    rowR A i = @avg_strat RNum (cum_strat (@ri_get RNum (state_at g draw T) me i)).
  Proof.
    intros Hi. unfold rowR, avg, ri_get.
    rewrite (nth_indep _ _ ((fun ri => @avg_strat RNum (cum_strat ri)) (@mkRinfo RNum [] [] [])))
      by (rewrite map_length, (state_at_len g draw Hpos); exact Hi).
    now rewrite (map_nth (fun ri => @avg_strat RNum (cum_strat ri))).
  Qed.

  Lemma strat_delta_traj t i :
    strat_delta (incs_at g draw t) me i = cnt me i root * ppi (sig t) (H me i).
  Proof.
    unfold strat_delta, incs_at. rewrite strat_view_sigma.
    pose proof (strat_delta_node me i (g_chance g) draw (N.of_nat (S t) - 1)%N
                                 (sigma_at g draw (S t) true) (sigma_at g draw (S t) false) H root) as W.
    replace (sigma_at g draw (S t) me)
      with (if me then sigma_at g draw (S t) true else sigma_at g draw (S t) false)
      by (destruct me; reflexivity).
    apply (fun Hok => W Hok [] [] 1 1 1).
    - pose proof Hwf as (Hsh & _). eapply allp_impl; [| |exact (shaped_allp g _ Hsh)].
      + intros ci kids Hc. exact Hc.
      + intros pl j kids (Hj & Hlen & _). unfold OKP', sg_of.
        rewrite (sigma_Fits g Hwf draw t pl j Hj). now symmetry.
    - intros [[pl j] h] Hin. unfold PRme'. intros ->. now apply HPR.
    - unfold ownp, hme. destruct me; reflexivity.
  Qed.

  Lemma avg_eq_traj i h :
    In (me, i, h) (@hists RNum root [] []) ->
    forall b, AvgEq me T (fun _ => 1) sig A H i b.
  Proof.
    intros Hin b. unfold AvgEq.
    destruct (Nat.lt_ge_cases i (ninfos g me)) as [Hi|Hi].
    2:{ unfold prob at 1. rewrite (avg_row_oob i Hi), nth_nil_R, Rmult_0_r. symmetry.
        apply Rsumn_zero_ext. intros t _. unfold prob. rewrite (sigma_row_oob t i Hi), nth_nil_R. lra. }
    set (ri := @ri_get RNum (state_at g draw T) me i).
    destruct (state_at_RInvA g draw Hpos T me i Hi) as (_ & Hnn & _ & L2 & _). fold ri in Hnn, L2.
    set (ar := arity g me i) in *.
    destruct (Nat.lt_ge_cases b ar) as [Hb|Hb].
    2:{ unfold prob at 1. rewrite (avg_row i Hi). fold ri.
        rewrite nth_overflow by (rewrite avg_strat_length; tR; lia). rewrite Rmult_0_r. symmetry.
        apply Rsumn_zero_ext. intros t _. unfold prob.
        rewrite nth_overflow by (rewrite (sigma_at_length g draw Hpos t me i Hi); exact Hb). lra. }
    set (c := cnt me i root).
    assert (Hc : 1 <= c) by (exact (proj2 (cnt_pos me i root) [] [] h Hin)).
    set (P := Rsumn T (fun t => ppi (sig t) (H me i))).
    set (Q := fun a => Rsumn T (fun t => ppi (sig t) (H me i) * prob (sig t) i a)).
    assert (EP : Rsumn T (fun t => 1 * ppi (sig t) (H me i)) = P).
    { apply Rsumn_ext. intros; lra. }
    assert (EQ : Rsumn T (fun t => 1 * ppi (sig t) (H me i) * prob (sig t) i b) = Q b).
    { apply Rsumn_ext. intros; lra. }
    rewrite EP, EQ.
    assert (Ecs : forall a, (a < ar)%nat -> nth a (cum_strat ri) 0 = c * Q a).
    { intros a Ha. pose proof (cstrat_at_sum g draw Hpos T me i a Hi Ha) as E.
      unfold cstrat_at in E. fold ri in E. rewrite E. unfold Q. rewrite <- Rsumn_scal.
      apply Rsumn_ext. intros t _. rewrite strat_delta_traj. fold c. lra. }
    assert (Esum : Rsum (cum_strat ri) = c * P).
    { rewrite Rsum_nth. tR. rewrite L2. fold ar.
      rewrite (Rsumn_ext ar _ (fun a => c * Q a)) by (intros a Ha; now apply Ecs).
      rewrite Rsumn_scal. f_equal. unfold Q, P. rewrite Rsumn_exchange.
      apply Rsumn_ext. intros t _. rewrite Rsumn_scal.
      destruct (sigma_at_VRow g draw Hpos t me i Hi) as [_ Hone].
      rewrite Rsum_nth, (sigma_at_length g draw Hpos t me i Hi) in Hone. fold ar in Hone.
      unfold prob. rewrite Hone. lra. }
    unfold prob at 1. rewrite (avg_row i Hi). fold ri. rewrite avg_strat_unfold, Esum.
    destruct (Reqb (c * P) 0) eqn:Ez.
    - apply Reqb_true in Ez.
      assert (HP0 : P = 0) by nra.
      assert (Hz : forall t, (t < T)%nat -> ppi (sig t) (H me i) = 0).
      { apply Rsumn_zero_nonneg; [|exact HP0]. intros t _. apply ppi_sigma_nonneg. }
      rewrite HP0, Rmult_0_l. symmetry. unfold Q. apply Rsumn_zero_ext.
      intros t Ht. rewrite (Hz t Ht). lra.
    - apply Reqb_false in Ez.
      assert (Hc0 : c <> 0) by lra.
      assert (HP0 : P <> 0) by (intros E0; apply Ez; rewrite E0; lra).
      rewrite (nth_indep _ 0 ((fun p => p / (c * P)) 0)) by (rewrite map_length; tR; lia).
      rewrite (map_nth (fun p => p / (c * P))). tR. rewrite (Ecs b Hb). field. split; assumption.
  Qed.
End TrajAvg.

(** ** Theorem 2 *)
Theorem avg_realisation (g : game) (draw : oracle) (me : bool) (H : bool -> nat -> hist)
        (T : nat) (tau : list (list R)) :
  @WFgame RNum g -> PRwit_me g me H -> (1 <= T)%nat ->
  u_me g me (avg g draw T me) tau =
  / INR T * Rsumn T (fun t => u_me g me (sigma_at g draw (S t) me) tau).
Proof.
  intros Hwf HPR HT.
  assert (HS : HSub (Good me T (fun _ => 1) (fun t => sigma_at g draw (S t) me)
                          (avg g draw T me) H) (g_root g) [] []).
  { intros [[pl i] h] Hin. unfold Good. intros ->. split; [now apply HPR|].
    exact (avg_eq_traj g Hwf draw me H HPR T i h Hin). }
  pose proof (avg_abstract (g_chance g) me tau T (fun _ => 1)
                           (fun t => sigma_at g draw (S t) me) (avg g draw T me) H (g_root g) HS) as E.
  rewrite Rsumn_const_one in E.
  assert (HTpos : 0 < INR T) by (apply lt_0_INR; lia).
  unfold u_me, u_game. unfold U in E. destruct me.
  - rewrite <- (Rsumn_ext T (fun t => 1 * u (g_chance g) (sigma_at g draw (S t) true) tau (g_root g)))
      by (intros; lra).
    rewrite <- E. field. lra.
  - rewrite (Rsumn_ext T _ (fun t => -1 * (1 * u (g_chance g) tau (sigma_at g draw (S t) false) (g_root g))))
      by (intros; lra).
    rewrite Rsumn_scal, <- E. field. lra.
Qed.
