(** * CliFinalProofs: the C15 clause about constant-sum Gambit files without side
    conditions — the well-formedness of an accepted game ([FromRootProofs], property C11)
    discharges the hypotheses of [CliUtilityProofs.cli_gambit_utilities_shift]. *)
From Coq Require Import Reals List Lra NArith.
From Cfr.theories Require Import Num RInst Tree GameWF Strat Eval Valid Cli CliProofs
     CliNamesProofs CliGambitProofs PayoffEvalProofs CliUtilityProofs FromRootGeneric FromRootProofs.
Import ListNotations.
Open Scope R_scope.

Local Notation gameR := (@game RNum).
Local Notation enodeR := (@enode RNum).

Theorem cli_gambit_utilities_final numname (root : enodeR) (c : R) (g : gameR) (sum : R) :
  (forall p, In p (own_pairs root) -> fst p + snd p = c) ->
  @gambit_load RNum numname root = Loaded (g, sum) ->
  exists n1 n2 g1,
    final_names numname true root = Some n1 /\ final_names numname false root = Some n2 /\
    @from_root RNum (@joined RNum (outcomes_of root) n1 n2 0 root 0) = Ok g1 /\
    sum = c / 2 /\ g = CliGambitProofs.game_map_payoffs (fun x => x - c / 2) g1 /\
    forall clip prof, Valid g prof ->
      let out := @cli_choose RNum g sum clip prof in
      let e := @expected RNum g1 (split_by (fst (o_prof out)) (arities g1 true))
                         (split_by (snd (o_prof out)) (arities g1 false)) in
      Valid g1 (o_prof out) /\
      o_util1 out = e /\ o_util2 out = c - e /\ o_util1 out + o_util2 out = c.
Proof.
  intros Hc Hl.
  destruct (cli_gambit_utilities_shift numname root c g sum Hc Hl)
    as (n1 & n2 & g1 & H1 & H2 & H3 & H4 & H5 & H6).
  exists n1, n2, g1. do 5 (split; [assumption|]).
  destruct (from_root_sound _ g1 H3) as (HW & _ & HC).
  apply H6; [exact HC|]. destruct HW as [Hsh _]. exact Hsh.
Qed.

(** the constant-sum example of [CliExamples]: whatever profile is solved for and whatever
    the clip threshold, the two printed utilities add up to 10 *)
From Cfr.theories Require Import CliExamples.

Example ex_const_utilities numname g sum clip prof :
  @gambit_load RNum numname ex_const = Loaded (g, sum) -> Valid g prof ->
  sum = 5 /\
  o_util1 (@cli_choose RNum g sum clip prof) + o_util2 (@cli_choose RNum g sum clip prof) = 10.
Proof.
  intros Hl HV.
  destruct (cli_gambit_utilities_final numname ex_const 10 g sum) as (n1 & n2 & g1 & _ & _ & _ & Hs & _ & H).
  - rewrite ex_const_pairs. intros p [<-|[<-|[]]]; cbn [fst snd]; lra.
  - exact Hl.
  - split; [lra|]. destruct (H clip prof HV) as (_ & _ & _ & E). exact E.
Qed.

(** for every game the library accepts, the two assertions / collections of [Strategy::from]
    are harmless: no infoset name is printed twice, no action twice within an infoset *)
Theorem printed_no_duplicates (t : @gnode RNum) (g : gameR) pl prof :
  @from_root RNum t = Ok g ->
  NoDup (map fst (@printed_strategy RNum g pl prof)) /\
  Forall (fun e => NoDup (map fst (snd e))) (@printed_strategy RNum g pl prof).
Proof.
  intros H. destruct (from_root_sound _ g H) as ((_ & W1 & W2 & _) & _).
  assert (W : WFtables (g_infos g pl) (g_singles g pl)) by (destruct pl; assumption).
  split; [now apply printed_names_nodup|now apply printed_actions_nodup].
Qed.
