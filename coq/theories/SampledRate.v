(** * SampledRate: pathwise rate theorem for the chance-sampled solver.

    For every [params], budget and stop predicate, and
    - every sampling oracle whose chance draws are in range ([DrawOK];
      [sampled_bound_rate]), or
    - every oracle whatsoever when 0 lies in the payoff range
      ([sampled_bound_rate_any_draw]),
    the bounds returned by [solve_single g Sampled ...] obey the CFR rate
    [b_pl * sqrt ran <= 2 * (hi - lo) * N_pl * sqrt A].
    The range condition cannot be dropped in general
    ([out_of_range_draw_breaks_rate]): on an out-of-range index the implementation
    panics ([outcomes[ind..=ind]]) while the model returns the value 0, which may lie
    outside the payoff range.

    Key observation: one chance-sampled pass with the draws [draw true ci pass _]
    changes the cumulative regrets exactly as an *unsampled* pass over the same tree
    does when every chance row is replaced by the one-hot row of the index drawn
    ([samp_chance], [reg_sum_vincs_sampled]): the subtrees that are not sampled are
    visited by the unsampled traversal with chance reach [0] and so contribute
    nothing to the regrets.  Hence the characterisation ([cfr_inc]), orthogonality
    ([cfr_inc_orthogonal]) and mass bound ([cfr_inc_bound_tree]) of the unsampled
    traversal apply verbatim with the one-hot table, and the potential argument of
    [CfrRate.v] goes through.  The generic pieces ([KI_advance], [list_bound],
    [loop_rate_gen], [solve_rate_gen]) are shared with [ExternalRate.v]. *)
From Coq Require Import Reals List Lra Lia Bool Arith NArith.
From Cfr.theories Require Import Num RInst Tree GameWF Strat Eval Solve Valid TruncProofs
     SolveValidProofs LoopProofs Incr IterChar RmPotential CfMass CfrRate.
Import ListNotations.
Open Scope R_scope.

Local Notation nodeR := (@node RNum).
Local Notation gameR := (@game RNum).
Local Notation pstateR := (@pstate RNum).
Local Notation rinfoR := (@rinfo RNum).
Local Notation incrR := (@incr RNum).
Local Notation paramsR := (@params RNum).
Local Notation oracleR := (@oracle RNum).

(** ** One-hot rows *)
Fixpoint hot (n k : nat) : list R :=
  match n with
  | O => []
  | S n' => match k with
            | O => 1 :: repeat 0 n'
            | S k' => 0 :: hot n' k'
            end
  end.

Lemma hot_length n k : length (hot n k) = n.
Proof.
  revert k; induction n as [|n IH]; intros k; [reflexivity|].
  destruct k as [|k]; cbn [hot length]; [now rewrite repeat_length|now rewrite IH].
Qed.

Lemma zeros_nonneg n : Forall (fun x => 0 <= x) (repeat 0 n).
Proof. induction n as [|n IH]; cbn [repeat]; constructor; [lra|assumption]. Qed.

Lemma Rsum_zeros n : Rsum (repeat 0 n) = 0.
Proof. induction n as [|n IH]; cbn [repeat Rsum]; lra. Qed.

Lemma hot_nonneg n k : Forall (fun x => 0 <= x) (hot n k).
Proof.
  revert k; induction n as [|n IH]; intros k; [constructor|].
  destruct k as [|k]; cbn [hot]; constructor; try lra; [apply zeros_nonneg|apply IH].
Qed.

Lemma hot_sum_in n k : (k < n)%nat -> Rsum (hot n k) = 1.
Proof.
  revert k; induction n as [|n IH]; intros k Hk; [lia|].
  destruct k as [|k]; cbn [hot Rsum]; [rewrite Rsum_zeros; lra|rewrite IH by lia; lra].
Qed.

Lemma hot_sum_out n k : (n <= k)%nat -> Rsum (hot n k) = 0.
Proof.
  revert k; induction n as [|n IH]; intros k Hk; [reflexivity|].
  destruct k as [|k]; [lia|]. cbn [hot Rsum]. rewrite IH by lia. lra.
Qed.

Lemma hot_sum_le n k : Rsum (hot n k) <= 1.
Proof.
  destruct (Nat.lt_ge_cases k n); [rewrite hot_sum_in by assumption|rewrite hot_sum_out by assumption]; lra.
Qed.

Lemma hot_VRow n k : (k < n)%nat -> VRow (hot n k).
Proof. intros H. split; [apply hot_nonneg|now apply hot_sum_in]. Qed.

(** ** The one-hot chance table of a sampled pass *)
Definition samp_chance (chance : list (list R)) (draw : oracleR) (pass : N) : list (list R) :=
  map (fun ci => hot (length (@row RNum chance ci)) (draw true ci pass (@row RNum chance ci)))
      (seq 0 (length chance)).

Lemma row_samp chance draw pass ci :
  @row RNum (samp_chance chance draw pass) ci =
  hot (length (@row RNum chance ci)) (draw true ci pass (@row RNum chance ci)).
Proof.
  unfold row, samp_chance. destruct (Nat.lt_ge_cases ci (length chance)) as [Hlt|Hge].
  - set (f := fun ci => hot (length (nth ci chance [])) (draw true ci pass (nth ci chance []))).
    rewrite (nth_indep _ [] (f 0%nat)) by (now rewrite map_length, seq_length).
    rewrite map_nth, seq_nth by assumption. reflexivity.
  - rewrite (nth_overflow chance) by assumption.
    rewrite nth_overflow by (now rewrite map_length, seq_length). reflexivity.
Qed.

Lemma samp_rows chance draw pass ci :
  Forall (fun p => 0 <= p) (@row RNum (samp_chance chance draw pass) ci) /\
  Rsum (@row RNum (samp_chance chance draw pass) ci) <= 1.
Proof. rewrite row_samp. split; [apply hot_nonneg|apply hot_sum_le]. Qed.

(** ** Loops over a one-hot row *)
Lemma val_chance_zeros (f : nodeR -> R) n ks e : @val_chance RNum f (repeat 0 n) ks e = e.
Proof.
  revert n e; induction ks as [|c ks IH]; intros n e; destruct n as [|n]; cbn [repeat val_chance];
    try reflexivity.
  change (add RNum) with Rplus. change (mul RNum) with Rmult. rewrite IH. lra.
Qed.

Lemma val_chance_hot (f : nodeR -> R) ks k e :
  @val_chance RNum f (hot (length ks) k) ks e = e + @val_pick RNum f ks k.
Proof.
  revert k e; induction ks as [|c ks IH]; intros k e; cbn [length hot val_chance val_pick].
  - change (zero RNum) with 0. lra.
  - change (add RNum) with Rplus. change (mul RNum) with Rmult.
    change (zero RNum) with 0. change (one RNum) with 1.
    destruct k as [|k]; cbn [val_chance].
    + change (add RNum) with Rplus. change (mul RNum) with Rmult. rewrite val_chance_zeros. lra.
    + change (add RNum) with Rplus. change (mul RNum) with Rmult. rewrite IH. lra.
Qed.

Lemma sum_chance_zeros (f : nodeR -> R -> R -> R -> R) pc p1 p2 n ks :
  (forall c q1 q2, f c 0 q1 q2 = 0) -> sum_chance f pc p1 p2 (repeat 0 n) ks = 0.
Proof.
  intros Hf. revert n; induction ks as [|c ks IH]; intros n; destruct n as [|n];
    cbn [repeat sum_chance]; try reflexivity.
  rewrite Rmult_0_r, Hf, IH. lra.
Qed.

Lemma sum_chance_hot (f : nodeR -> R -> R -> R -> R) pc p1 p2 ks k :
  (forall c q1 q2, f c 0 q1 q2 = 0) ->
  sum_chance f pc p1 p2 (hot (length ks) k) ks =
  match nth_error ks k with Some c => f c (pc * 1) p1 p2 | None => 0 end.
Proof.
  intros Hf. revert k; induction ks as [|c ks IH]; intros k; cbn [length hot sum_chance].
  - destruct k; reflexivity.
  - destruct k as [|k]; cbn [sum_chance nth_error].
    + rewrite sum_chance_zeros by assumption. lra.
    + rewrite Rmult_0_r, Hf, IH. lra.
Qed.

Lemma incs_pick_nth (VI : nodeR -> R -> R -> R -> list incrR) pc p1 p2 ks k :
  @incs_pick RNum VI pc p1 p2 ks k =
  match nth_error ks k with Some c => VI c (pc * 1) p1 p2 | None => [] end.
Proof.
  revert k; induction ks as [|c ks IH]; intros k; destruct k as [|k]; cbn [incs_pick nth_error];
    try reflexivity. apply IH.
Qed.

(** ** [cfr_inc] vanishes on subtrees reached with chance reach 0 *)
Lemma cfr_inc_zero_pc chance sg pl i a n :
  forall p1 p2, cfr_inc chance sg pl i a n 0 p1 p2 = 0.
Proof.
  induction n as [x|ci kids IH|pl' i' kids IH] using node_ind'; intros p1 p2; cbn [cfr_inc].
  - reflexivity.
  - generalize (@row RNum chance ci) as ps.
    induction IH as [|c ks Hc H IH']; intros ps; destruct ps as [|p ps]; cbn [sum_chance];
      try reflexivity. rewrite Rmult_0_l, Hc, IH'. lra.
  - assert (E : (if is_info pl' i' pl i
                 then cfw pl' 0 p1 p2 * node_regret chance sg kids (sg pl' i') a else 0) = 0).
    { destruct (is_info pl' i' pl i); [|reflexivity]. unfold cfw. destruct pl'; lra. }
    rewrite E, Rplus_0_l. clear E. generalize (sg pl' i') as ss.
    induction IH as [|c ks Hc H IH']; intros ss; destruct ss as [|p ss]; cbn [sum_player];
      try reflexivity. rewrite IH'. destruct pl'; rewrite Hc; lra.
Qed.

(** ** [reg_sum] of the player loop, for any value / increment functions *)
Section RegSumPlayer.
  Context (VV : nodeR -> R) (VI : nodeR -> R -> R -> R -> list incrR)
          (F : nodeR -> R -> R -> R -> R) (pl : bool) (i a : nat).

  Definition RSg (c : nodeR) : Prop :=
    forall pc p1 p2, reg_sum pl i a (VI c pc p1 p2) = F c pc p1 p2.

  Lemma reg_sum_player_gen pl' i' pc p1 p2 mult ks :
    Forall RSg ks -> forall ss ai,
    reg_sum pl i a (@incs_player RNum VV VI pl' i' pc p1 p2 mult ks ss ai) =
    (if is_info pl' i' pl i
     then (if Nat.leb ai a then act_val VV ks ss (a - ai) else 0) * mult else 0)
    + sum_player F pl' pc p1 p2 ks ss.
  Proof.
    induction 1 as [|c ks Hc H IH]; intros ss ai; destruct ss as [|prob ss];
      cbn [incs_player sum_player act_val].
    1-3: unfold reg_sum; cbn [map Rsum]; destruct (is_info pl' i' pl i); [destruct (Nat.leb ai a)|]; lra.
    change (mul RNum) with Rmult.
    assert (E : reg_sum pl i a
                  (VI c pc (if pl' then p1 * prob else p1) (if pl' then p2 else p2 * prob) ++
                   @IReg RNum pl' i' ai (VV c * mult) ::
                   @incs_player RNum VV VI pl' i' pc p1 p2 mult ks ss (S ai)) =
                (if is_info pl' i' pl i
                 then (if Nat.leb ai a
                       then match (a - ai)%nat with O => VV c | S a' => act_val VV ks ss a' end
                       else 0) * mult else 0)
                + ((if pl' then F c pc (p1 * prob) p2 else F c pc p1 (p2 * prob))
                   + sum_player F pl' pc p1 p2 ks ss)).
    { rewrite reg_sum_app, Hc. unfold reg_sum at 1. cbn [map Rsum].
      fold (reg_sum pl i a (@incs_player RNum VV VI pl' i' pc p1 p2 mult ks ss (S ai))).
      rewrite IH. cbn [reg_of]. fold (is_info pl' i' pl i).
      destruct (is_info pl' i' pl i); cbn [andb].
      - destruct (Nat.eqb_spec ai a) as [->|Hne].
        + rewrite Nat.leb_refl, Nat.sub_diag.
          replace (Nat.leb (S a) a) with false by (symmetry; apply Nat.leb_gt; lia).
          destruct pl'; lra.
        + destruct (Nat.leb_spec ai a) as [Hle|Hgt].
          * replace (Nat.leb (S ai) a) with true by (symmetry; apply Nat.leb_le; lia).
            replace (a - ai)%nat with (S (a - S ai)) by lia. destruct pl'; lra.
          * replace (Nat.leb (S ai) a) with false by (symmetry; apply Nat.leb_gt; lia).
            destruct pl'; lra.
      - destruct pl'; lra. }
    destruct pl'; exact E.
  Qed.
End RegSumPlayer.

Lemma val_pick_ext (f g : nodeR -> R) ks k :
  Forall (fun c => f c = g c) ks -> @val_pick RNum f ks k = @val_pick RNum g ks k.
Proof.
  intros H; revert k; induction H as [|c ks Hc H IH]; intros k; cbn [val_pick]; [reflexivity|].
  destruct k as [|k]; [now rewrite Hc|apply IH].
Qed.

(** ** The chance-sampled pass is the unsampled pass over the one-hot table *)
Section SampledChar.
  Context (chance : list (list R)) (draw : oracleR) (pass : N) (sg : bool -> nat -> list R).
  Local Notation chance' := (samp_chance chance draw pass).
  Local Notation VV := (@vval RNum chance true draw pass sg).
  Local Notation VI := (@vincs RNum chance true draw pass sg).

  (** the value returned by the sampled pass *)
  Lemma vval_sampled n : ValShaped chance sg n -> VV n = uval chance' sg n.
  Proof.
    induction n as [x|ci kids IH|pl i kids IH] using node_ind'; intros HV;
      inversion HV as [|? ? EL HR HVk|? ? ? EL HR HVk]; subst; cbn [vval uval].
    - reflexivity.
    - rewrite row_samp, <- EL, val_chance_hot, Rplus_0_l. apply val_pick_ext.
      rewrite Forall_forall in *. intros c Hc. apply IH; auto.
    - apply val_player_ext. rewrite Forall_forall in *. intros c Hc. apply IH; auto.
  Qed.

  Lemma Forall_vval_sampled ks :
    Forall (ValShaped chance sg) ks -> Forall (fun c => VV c = uval chance' sg c) ks.
  Proof. intros H. rewrite Forall_forall in *. intros c Hc. apply vval_sampled; auto. Qed.

  (** the regret increments of the sampled pass add up to [cfr_inc] over the one-hot table *)
  Theorem reg_sum_vincs_sampled pl i a n :
    ValShaped chance sg n ->
    forall pc p1 p2, reg_sum pl i a (VI n pc p1 p2) = cfr_inc chance' sg pl i a n pc p1 p2.
  Proof.
    induction n as [x|ci kids IH|pl' i' kids IH] using node_ind'; intros HV pc p1 p2;
      inversion HV as [|? ? EL HR HVk|? ? ? EL HR HVk]; subst.
    - reflexivity.
    - cbn [vincs cfr_inc]. rewrite row_samp, <- EL, incs_pick_nth.
      rewrite sum_chance_hot by (intros; apply cfr_inc_zero_pc).
      destruct (nth_error kids _) as [c|] eqn:Ek; [|reflexivity].
      apply nth_error_In in Ek. rewrite Forall_forall in *. apply IH; auto.
    - cbn [vincs cfr_inc]. unfold reg_sum. cbn [map Rsum reg_of].
      rewrite map_app, Rsum_app. cbn [map Rsum reg_of].
      fold (reg_sum pl i a (@incs_player RNum VV VI pl' i' pc p1 p2
              (if pl' then mul RNum pc p2 else mul RNum (neg RNum p1) pc) kids (sg pl' i') 0)).
      rewrite (reg_sum_player_gen VV VI (cfr_inc chance' sg pl i a) pl i a pl' i' pc p1 p2 _ kids).
      2:{ rewrite Forall_forall in *. intros c Hc. unfold RSg. apply IH; auto. }
      fold (is_info pl' i' pl i). rewrite exp_player_val.
      rewrite (val_player_ext _ (uval chance' sg)) by (now apply Forall_vval_sampled).
      rewrite (act_val_ext _ (uval chance' sg)) by (now apply Forall_vval_sampled).
      change (zero RNum) with 0. change (mul RNum) with Rmult. change (neg RNum) with Ropp.
      unfold node_regret, cfw. cbn [Nat.leb]. rewrite Nat.sub_0_r.
      destruct (is_info pl' i' pl i); destruct pl'; lra.
  Qed.
End SampledChar.

(** the state after a chance-sampled pass: regrets and current strategies *)
Section SampledState.
  Context (chance : list (list R)) (draw : oracleR) (pass : N).

  Lemma vrec_sampled_strat n pc p1 p2 (st : pstateR) pl i :
    strat (ri_get (snd (@vrec RNum chance true draw pass n pc p1 p2 st)) pl i) =
    strat (ri_get st pl i).
  Proof. rewrite vrec_incs. cbn [snd]. apply fold_incr_strat_eq. Qed.

  Theorem vrec_sampled_value n pc p1 p2 (st : pstateR) :
    ValShaped chance (strat_view st) n ->
    fst (@vrec RNum chance true draw pass n pc p1 p2 st) =
    uval (samp_chance chance draw pass) (strat_view st) n.
  Proof. intros HV. rewrite vrec_incs. cbn [fst]. now apply vval_sampled. Qed.

  Theorem vrec_sampled_regret n pc p1 p2 (st : pstateR) pl i :
    reg_ok st pl i -> ValShaped chance (strat_view st) n ->
    cum_regret (ri_get (snd (@vrec RNum chance true draw pass n pc p1 p2 st)) pl i) =
    vadd (cum_regret (ri_get st pl i))
         (cfr_incs (samp_chance chance draw pass) (strat_view st) pl i n pc p1 p2).
  Proof.
    unfold reg_ok. intros E HV.
    assert (EL : length (cum_regret (ri_get st pl i)) =
                 length (cfr_incs (samp_chance chance draw pass) (strat_view st) pl i n pc p1 p2)).
    { unfold cfr_incs. rewrite map_length, seq_length. exact E. }
    rewrite vrec_incs. cbn [snd].
    apply (nth_ext _ _ 0 0).
    - rewrite fold_incr_regret_len, vadd_length; auto.
    - intros a Ha. rewrite fold_incr_regret_len in Ha.
      rewrite fold_incr_regret_nth, vadd_nth by assumption. f_equal.
      rewrite reg_sum_vincs_sampled by assumption.
      unfold cfr_incs. symmetry. apply nth_map_seq. unfold strat_view. tR. lia.
  Qed.
End SampledState.

(** ** In-range chance draws *)
Definition DrawOK (chance : list (list R)) (draw : oracleR) : Prop :=
  forall ci pass, (ci < length chance)%nat ->
                  (draw true ci pass (@row RNum chance ci) < length (@row RNum chance ci))%nat.

Lemma VRow_row_lt chance ci : VRow (@row RNum chance ci) -> (ci < length chance)%nat.
Proof.
  intros [_ Hs]. destruct (Nat.lt_ge_cases ci (length chance)) as [H|H]; [assumption|].
  unfold row in Hs. rewrite nth_overflow in Hs by assumption. cbn [Rsum] in Hs. lra.
Qed.

Lemma ValShaped_samp chance draw pass sg n :
  DrawOK chance draw -> ValShaped chance sg n -> ValShaped (samp_chance chance draw pass) sg n.
Proof.
  intros HD. induction n as [x|ci kids IH|pl i kids IH] using node_ind'; intros HV;
    inversion HV as [|? ? EL HR HVk|? ? ? EL HR HVk]; subst.
  - constructor.
  - constructor.
    + rewrite row_samp, hot_length. exact EL.
    + rewrite row_samp. apply hot_VRow. apply HD. now apply VRow_row_lt.
    + rewrite Forall_forall in *. intros c Hc. apply IH; auto.
  - constructor; try assumption. rewrite Forall_forall in *. intros c Hc. apply IH; auto.
Qed.

(** ** One infoset: the potential after adding an orthogonal bounded increment and advancing *)
Lemma KI_advance (lo hi : R) (A t : nat) (p : paramsR) it ia (ri ri1 : rinfoR) (r : list R) :
  KI lo hi A t ri ->
  cum_regret ri1 = vadd (cum_regret ri) r -> strat ri1 = strat ri ->
  length (cum_regret ri) = length r -> dot (strat ri) r = 0 ->
  sqsum r <= INR A * ((hi - lo) * (hi - lo)) ->
  KI lo hi A (S t) (fst (@advance RNum p it ia ri1)).
Proof.
  intros [HK1 HK2] E1 E2 Hlc Horth Hsq.
  unfold KI, advance. cbn [fst cum_regret strat]. rewrite E1. split.
  - eapply Rle_trans; [apply sqpos_discount|].
    pose proof (pot_step (cum_regret ri) r Hlc (HK2 r Horth)). rewrite S_INR. lra.
  - intros r' Hr'. rewrite dot_pos_discount. apply (rm_dot p) in Hr'. rewrite Hr'. lra.
Qed.

(** a vector of [n <= A] entries bounded by [d] *)
Lemma sqsum_le_A (r : list R) (d : R) (A : nat) :
  0 <= d -> (length r <= A)%nat -> Forall (fun x => Rabs x <= d) r -> sqsum r <= INR A * (d * d).
Proof.
  intros Hd Hl H. apply Rle_trans with (INR (length r) * (d * d)); [now apply sqsum_le|].
  apply Rmult_le_compat_r; [nra|]. now apply le_INR.
Qed.

(** ** From the potential of the infosets of one player to the returned bound *)
Lemma list_bound (lo hi : R) (A : nat) it (l : list rinfoR) (n : nat) :
  0 <= hi - lo -> (1 <= it)%N -> length l = n ->
  (forall ri, In ri l -> sqpos (cum_regret ri) <=
                         INR (N.to_nat it) * (INR A * ((hi - lo) * (hi - lo)))) ->
  Rsum (map (info_bound it) l) * sqrt (INR (N.to_nat it)) <= 2 * (hi - lo) * INR n * sqrt (INR A).
Proof.
  intros HD Hit HN HK. set (D := hi - lo) in *. set (t := N.to_nat it) in *.
  assert (Ht : 0 < INR t) by (apply lt_0_INR; unfold t; lia).
  set (s := sqrt (INR t)).
  assert (Hs : 0 < s) by (now apply sqrt_lt_R0).
  assert (Hss : s * s = INR t) by (apply sqrt_sqrt; lra).
  set (c := 2 * (s * (sqrt (INR A) * D)) / INR t).
  assert (Hc : forall ri, In ri l -> info_bound it ri <= c).
  { intros ri Hin. specialize (HK ri Hin).
    unfold info_bound, c. fold t.
    pose proof (max_le_sqrt_potential (cum_regret ri)) as Hm.
    assert (Hsq : sqrt (sqpos (cum_regret ri)) <= s * (sqrt (INR A) * D)).
    { eapply Rle_trans; [apply sqrt_le_1_alt; exact HK|].
      rewrite sqrt_mult_alt by lra. rewrite sqrt_mult_alt by apply pos_INR.
      rewrite sqrt_square by assumption. fold s. lra. }
    unfold Rdiv. apply Rmult_le_compat_r; [left; now apply Rinv_0_lt_compat|]. lra. }
  assert (Hsum : Rsum (map (info_bound it) l) <= INR n * c).
  { rewrite <- HN. replace (length l) with (length (map (info_bound it) l)) by apply map_length.
    apply Rsum_le_const. apply Forall_forall. intros y Hy.
    apply in_map_iff in Hy as (ri & <- & Hri). now apply Hc. }
  assert (Hcs : c * s = 2 * D * sqrt (INR A)).
  { unfold c. rewrite <- Hss. field. lra. }
  apply Rle_trans with (INR n * c * s).
  - apply Rmult_le_compat_r; [lra|exact Hsum].
  - rewrite Rmult_assoc, Hcs. lra.
Qed.

(** ** The iteration loop, for any method whose iteration keeps the potential invariant *)
Section LoopGen.
  Context (g : gameR) (m : method) (draw : oracleR) (p : paramsR) (lo hi : R) (A : nat).
  Context (Hiter : forall it (st : pstateR),
              (1 <= it)%N -> K g lo hi A (N.to_nat it - 1) st ->
              K g lo hi A (N.to_nat it) (fst (@one_iter RNum g m draw p it st)) /\
              Bnd g lo hi A it (fst (snd (@one_iter RNum g m draw p it st)))
                  (snd (snd (@one_iter RNum g m draw p it st)))).

  Lemma loop_rate_gen (stop : R -> bool) rem :
    forall it (st : pstateR) regs ran st' b1 b2 ran',
    (1 <= it)%N -> K g lo hi A (N.to_nat it - 1) st ->
    (forall c1 c2, regs = Some (c1, c2) -> (1 <= ran)%N /\ Bnd g lo hi A ran c1 c2) ->
    @solve_loop RNum g m draw p stop rem it st regs ran = (st', Some (b1, b2), ran') ->
    (1 <= ran')%N /\ Bnd g lo hi A ran' b1 b2.
  Proof.
    induction rem as [|r IH]; intros it st regs ran st' b1 b2 ran' Hit HK Hregs H.
    - cbn [solve_loop] in H. injection H as _ -> <-. now apply Hregs.
    - rewrite loop_S in H.
      destruct (Hiter it st Hit HK) as [HK' HB].
      destruct (one_iter g m draw p it st) as [st1 [r1 r2]]. cbn [fst snd] in HK', HB.
      destruct (stop (Rmax r1 r2)).
      + injection H as _ <- <- <-. split; [exact Hit|exact HB].
      + eapply (IH (it + 1)%N st1 (Some (r1, r2)) it); [lia| | |exact H].
        * replace (N.to_nat (it + 1) - 1)%nat with (N.to_nat it) by lia. exact HK'.
        * intros c1 c2 E. injection E as <- <-. split; [exact Hit|exact HB].
  Qed.

  Lemma solve_rate_gen (HWF : WFgame g) budget (stop : R -> bool) strats b1 b2 ran :
    @solve_single RNum g m draw p budget stop = (strats, Some (b1, b2), ran) ->
    (1 <= ran)%N /\
    b1 * sqrt (INR (N.to_nat ran)) <= 2 * (hi - lo) * INR (length (g_infos g true)) * sqrt (INR A) /\
    b2 * sqrt (INR (N.to_nat ran)) <= 2 * (hi - lo) * INR (length (g_infos g false)) * sqrt (INR A).
  Proof.
    rewrite solve_single_loop.
    destruct (solve_loop _ _ _ _ _ _ _ _ _ _) as [[st regs'] ran'] eqn:E.
    intros H; injection H as _ -> ->.
    apply (loop_rate_gen stop budget 1%N (@init_state RNum g) None 0%N st b1 b2 ran) in E;
      [exact E|lia|now apply K_init|intros; discriminate].
  Qed.
End LoopGen.

(** ** Sub-stochastic tables: values stay in a payoff range that contains 0.

    When a draw is out of range the one-hot row is all zeros.  If [lo <= 0 <= hi] the
    values still lie in [[lo, hi]] and the increments are still bounded by [hi - lo]. *)
Definition SRow (r : list R) : Prop := Forall (fun x => 0 <= x) r /\ Rsum r <= 1.

Lemma VRow_SRow r : VRow r -> SRow r.
Proof. intros [H1 H2]. split; [assumption|lra]. Qed.

Lemma hot_SRow n k : SRow (hot n k).
Proof. split; [apply hot_nonneg|apply hot_sum_le]. Qed.

Inductive SubShaped (chance : list (list R)) (sg : bool -> nat -> list R) : nodeR -> Prop :=
| SS_Term (x : R) : SubShaped chance sg (@Term RNum x)
| SS_Chance ci kids :
    length kids = length (@row RNum chance ci) -> SRow (@row RNum chance ci) ->
    Forall (SubShaped chance sg) kids -> SubShaped chance sg (@Chance RNum ci kids)
| SS_Player pl i kids :
    length kids = length (sg pl i) -> SRow (sg pl i) ->
    Forall (SubShaped chance sg) kids -> SubShaped chance sg (@Player RNum pl i kids).

Lemma ValShaped_SubShaped chance sg n : ValShaped chance sg n -> SubShaped chance sg n.
Proof.
  induction n as [x|ci kids IH|pl i kids IH] using node_ind'; intros HV;
    inversion HV as [|? ? EL HR HVk|? ? ? EL HR HVk]; subst; constructor;
    try assumption; try (now apply VRow_SRow);
    rewrite Forall_forall in *; intros c Hc; apply IH; auto.
Qed.

Section RangeSub.
  Context (chance : list (list R)) (sg : bool -> nat -> list R) (lo hi : R).
  Context (Hlo : lo <= 0) (Hhi : 0 <= hi).

  Lemma uval_range_sub n :
    SubShaped chance sg n -> PayoffsIn lo hi n -> lo <= uval chance sg n <= hi.
  Proof.
    induction n as [x|ci kids IH|pl i kids IH] using node_ind'; intros HV HP;
      inversion HV as [|? ? EL [Hnn Hs] HVk|? ? ? EL [Hnn Hs] HVk]; subst;
      inversion HP as [? Hx|? ? HPk|? ? ? HPk]; subst; cbn [uval].
    - exact Hx.
    - assert (HF : Forall (fun c => lo <= uval chance sg c <= hi) kids).
      { rewrite Forall_forall in *. intros c Hc. apply IH; auto. }
      pose proof (val_chance_range _ lo hi kids HF _ EL Hnn) as H.
      pose proof (Rsum_nonneg _ Hnn). nra.
    - assert (HF : Forall (fun c => lo <= uval chance sg c <= hi) kids).
      { rewrite Forall_forall in *. intros c Hc. apply IH; auto. }
      pose proof (val_player_range _ lo hi kids HF _ EL Hnn) as H.
      pose proof (Rsum_nonneg _ Hnn). nra.
  Qed.

  Lemma node_regret_range_sub kids ss a :
    Forall (SubShaped chance sg) kids -> Forall (PayoffsIn lo hi) kids ->
    length kids = length ss -> SRow ss -> (a < length ss)%nat ->
    Rabs (node_regret chance sg kids ss a) <= hi - lo.
  Proof.
    intros HV HP EL [Hnn Hs] Ha.
    assert (HF : Forall (fun c => lo <= uval chance sg c <= hi) kids).
    { rewrite Forall_forall in *. intros c Hc. apply uval_range_sub; auto. }
    pose proof (val_player_range _ lo hi kids HF ss EL Hnn) as H1.
    pose proof (act_val_range _ lo hi kids HF ss a EL Ha) as H2.
    pose proof (Rsum_nonneg _ Hnn).
    unfold node_regret. apply Rabs_le. nra.
  Qed.

  Lemma cfr_inc_mass_sub pl i a n :
    (a < length (sg pl i))%nat ->
    SubShaped chance sg n -> PayoffsIn lo hi n ->
    forall pc p1 p2,
    Rabs (cfr_inc chance sg pl i a n pc p1 p2) <= (hi - lo) * cf_mass chance sg pl i n pc p1 p2.
  Proof.
    intros Ha.
    induction n as [x|ci kids IH|pl' i' kids IH] using node_ind'; intros HV HP pc p1 p2;
      inversion HV as [|? ? EL HR HVk|? ? ? EL HR HVk]; subst;
      inversion HP as [? Hx|? ? HPk|? ? ? HPk]; subst; cbn [cfr_inc cf_mass].
    - rewrite Rabs_R0. lra.
    - apply sum_chance_abs. rewrite Forall_forall in *. intros c Hc. apply IH; auto.
    - eapply Rle_trans; [apply Rabs_triang|]. rewrite Rmult_plus_distr_l.
      apply Rplus_le_compat.
      + destruct (is_info pl' i' pl i) eqn:E; [|rewrite Rabs_R0; lra].
        apply is_info_true in E as [-> ->]. rewrite Rabs_mult.
        pose proof (node_regret_range_sub kids (sg pl i) a HVk HPk EL HR Ha).
        pose proof (Rabs_pos (cfw pl pc p1 p2)). nra.
      + apply sum_player_abs. rewrite Forall_forall in *. intros c Hc. apply IH; auto.
  Qed.
End RangeSub.

Theorem cfr_inc_bound_tree_sub (chance : list (list R)) (sg : bool -> nat -> list R)
        (lo hi : R) (pl : bool) (i a : nat) (n : nodeR) (hI : list (nat * nat)) :
  lo <= 0 <= hi ->
  (forall ci, Forall (fun p => 0 <= p) (@row RNum chance ci) /\ Rsum (@row RNum chance ci) <= 1) ->
  (forall pl' i', Forall (fun p => 0 <= p) (sg pl' i') /\ Rsum (sg pl' i') <= 1) ->
  (forall h, In (pl, i, h) (@hists RNum n [] []) -> h = hI) ->
  SubShaped chance sg n -> PayoffsIn lo hi n -> (a < length (sg pl i))%nat ->
  Rabs (cfr_inc chance sg pl i a n 1 1 1) <= hi - lo.
Proof.
  intros [Hlo Hhi] HC HS HG HV HP Ha.
  pose proof (cfr_inc_mass_sub chance sg lo hi Hlo Hhi pl i a n Ha HV HP 1 1 1) as H1.
  pose proof (mass_bound chance sg pl i HC HS hI n [] [] 1 1 1
                ltac:(lra) ltac:(lra) ltac:(lra) HG) as H2.
  unfold opp in H2. destruct pl; nra.
Qed.

Lemma SubShaped_samp chance draw pass sg n :
  ValShaped chance sg n -> SubShaped (samp_chance chance draw pass) sg n.
Proof.
  induction n as [x|ci kids IH|pl i kids IH] using node_ind'; intros HV;
    inversion HV as [|? ? EL HR HVk|? ? ? EL HR HVk]; subst.
  - constructor.
  - constructor.
    + rewrite row_samp, hot_length. exact EL.
    + rewrite row_samp. apply hot_SRow.
    + rewrite Forall_forall in *. intros c Hc. apply IH; auto.
  - constructor; try assumption; [now apply VRow_SRow|].
    rewrite Forall_forall in *. intros c Hc. apply IH; auto.
Qed.

(** ** The chance-sampled method *)
Section SampledRateGen.
  Context (g : gameR) (draw : oracleR) (p : paramsR) (lo hi : R) (A : nat).
  Context (HWF : WFgame g) (HPR : PerfectRecall g) (HCO : ChanceOK g)
          (HPay : PayoffsIn lo hi (g_root g))
          (HA : forall pl, Forall (fun a => (a <= A)%nat) (arities g pl)).

  Local Notation D := (hi - lo).

  (** what is needed of the oracle: every regret increment of a sampled pass is bounded
      by the payoff range *)
  Definition IncBounded : Prop :=
    forall (st : pstateR) pass pl i a,
      InvA (arities g true) (arities g false) st ->
      (a < length (strat_view st pl i))%nat ->
      Rabs (cfr_inc (samp_chance (g_chance g) draw pass) (strat_view st) pl i a (g_root g) 1 1 1) <= D.

  (** in-range draws *)
  Lemma sampled_inc_bounded : DrawOK (g_chance g) draw -> IncBounded.
  Proof.
    intros HDraw st pass pl i a HI Ha. destruct HWF as (HS & _). destruct HPR as (H & HH).
    apply (cfr_inc_bound_tree _ _ lo hi pl i a (g_root g) (H pl i)).
    - apply samp_rows.
    - apply Inv_rows. eapply Inv_of_InvA; eauto.
    - intros h Hh. now apply HH.
    - apply ValShaped_samp; [assumption|]. now apply shaped_ValShaped.
    - exact HPay.
    - exact Ha.
  Qed.

  (** any draws, when 0 is in the payoff range *)
  Lemma sampled_inc_bounded_zero : lo <= 0 <= hi -> IncBounded.
  Proof.
    intros H0 st pass pl i a HI Ha. destruct HWF as (HS & _). destruct HPR as (H & HH).
    apply (cfr_inc_bound_tree_sub _ _ lo hi pl i a (g_root g) (H pl i) H0).
    - apply samp_rows.
    - apply Inv_rows. eapply Inv_of_InvA; eauto.
    - intros h Hh. now apply HH.
    - apply SubShaped_samp. now apply shaped_ValShaped.
    - exact HPay.
    - exact Ha.
  Qed.

  Context (HB : IncBounded).

  Lemma K_step_sampled t it (st : pstateR) :
    K g lo hi A t st -> K g lo hi A (S t) (fst (@vanilla_iter RNum g true draw p it st)).
  Proof.
    intros [HI HK]. split.
    { exact (one_iter_inv _ _ g Sampled draw p it st HI). }
    pose proof (Inv_of_InvA _ _ _ HI) as HInv.
    rewrite vanilla_iter_fst. cbv zeta.
    set (st1 := snd (vrec _ _ _ _ _ _ _ _ _)).
    set (f := fun ri => fst (@advance RNum p it it ri)).
    intros pl i Hi.
    assert (Hlen1 : length (ps_get st1 pl) = length (ps_get st pl)) by apply vrec_len.
    assert (Hi1 : (i < length (ps_get st1 pl))%nat).
    { unfold ps_get in *. destruct pl; cbn [fst snd] in *; now rewrite map_length in Hi. }
    rewrite ri_get_map by assumption.
    assert (HV : ValShaped (g_chance g) (strat_view st) (g_root g)).
    { destruct HWF as (HS & _). now apply shaped_ValShaped. }
    pose proof (vrec_sampled_regret (g_chance g) draw (it - 1)%N (g_root g) 1 1 1 st pl i
                  (Inv_reg_ok st pl i HInv) HV) as H1.
    pose proof (vrec_sampled_strat (g_chance g) draw (it - 1)%N (g_root g) 1 1 1 st pl i) as H3.
    fold st1 in H1, H3.
    specialize (HK pl i ltac:(lia)).
    set (ri := @ri_get RNum st pl i) in *.
    set (ch := samp_chance (g_chance g) draw (it - 1)%N) in *.
    set (r := cfr_incs ch (strat_view st) pl i (g_root g) 1 1 1) in *.
    assert (Hlr : length r = length (strat ri)).
    { unfold r, cfr_incs. now rewrite map_length, seq_length. }
    assert (Hlc : length (cum_regret ri) = length r).
    { rewrite Hlr. apply (Inv_reg_ok st pl i HInv). }
    assert (Horth : dot (strat ri) r = 0).
    { apply cfr_incs_orthogonal_Inv; [assumption|lia]. }
    assert (Hsq : sqsum r <= INR A * (D * D)).
    { apply sqsum_le_A.
      - exact (D_nonneg g lo hi HWF HCO HPay).
      - rewrite Hlr. apply (arity_le g A HA st pl i HI). lia.
      - unfold r, cfr_incs. apply Forall_forall. intros y Hy.
        apply in_map_iff in Hy as (a & <- & Ha). apply in_seq in Ha.
        apply HB; try assumption. tR. lia. }
    unfold f. eapply KI_advance; eauto.
  Qed.

  Lemma iter_rate_sampled it (st : pstateR) :
    (1 <= it)%N -> K g lo hi A (N.to_nat it - 1) st ->
    K g lo hi A (N.to_nat it) (fst (@one_iter RNum g Sampled draw p it st)) /\
    Bnd g lo hi A it (fst (snd (@one_iter RNum g Sampled draw p it st)))
        (snd (snd (@one_iter RNum g Sampled draw p it st))).
  Proof.
    intros Hit HK. cbn [one_iter].
    pose proof (K_step_sampled _ it st HK) as HK'.
    replace (S (N.to_nat it - 1)) with (N.to_nat it) in HK' by lia.
    split; [exact HK'|].
    rewrite (vanilla_iter_bounds g true draw p it st). cbn [fst snd].
    split; [exact (K_bound g lo hi A HWF HCO HPay it _ true Hit HK')
           |exact (K_bound g lo hi A HWF HCO HPay it _ false Hit HK')].
  Qed.

  Theorem sampled_bound_rate_gen budget (stop : R -> bool) strats b1 b2 ran :
    @solve_single RNum g Sampled draw p budget stop = (strats, Some (b1, b2), ran) ->
    (1 <= ran)%N /\
    b1 * sqrt (INR (N.to_nat ran)) <= 2 * D * INR (length (g_infos g true)) * sqrt (INR A) /\
    b2 * sqrt (INR (N.to_nat ran)) <= 2 * D * INR (length (g_infos g false)) * sqrt (INR A).
  Proof. apply (solve_rate_gen g Sampled draw p lo hi A iter_rate_sampled HWF). Qed.
End SampledRateGen.

(** *** The theorem: every [params], every in-range oracle, every stop predicate *)
Theorem sampled_bound_rate (g : gameR) (draw : oracleR) (p : paramsR) (lo hi : R) (A : nat) :
  WFgame g -> PerfectRecall g -> ChanceOK g -> PayoffsIn lo hi (g_root g) ->
  (forall pl, Forall (fun a => (a <= A)%nat) (arities g pl)) ->
  DrawOK (g_chance g) draw ->
  forall budget (stop : R -> bool) strats b1 b2 ran,
  @solve_single RNum g Sampled draw p budget stop = (strats, Some (b1, b2), ran) ->
  (1 <= ran)%N /\
  b1 * sqrt (INR (N.to_nat ran)) <= 2 * (hi - lo) * INR (length (g_infos g true)) * sqrt (INR A) /\
  b2 * sqrt (INR (N.to_nat ran)) <= 2 * (hi - lo) * INR (length (g_infos g false)) * sqrt (INR A).
Proof.
  intros HWF HPR HCO HPay HA HD. apply sampled_bound_rate_gen; try assumption.
  now apply sampled_inc_bounded.
Qed.

(** *** ... and literally every oracle when the payoff range contains 0 *)
Theorem sampled_bound_rate_any_draw (g : gameR) (draw : oracleR) (p : paramsR) (lo hi : R) (A : nat) :
  WFgame g -> PerfectRecall g -> ChanceOK g -> PayoffsIn lo hi (g_root g) ->
  (forall pl, Forall (fun a => (a <= A)%nat) (arities g pl)) ->
  lo <= 0 <= hi ->
  forall budget (stop : R -> bool) strats b1 b2 ran,
  @solve_single RNum g Sampled draw p budget stop = (strats, Some (b1, b2), ran) ->
  (1 <= ran)%N /\
  b1 * sqrt (INR (N.to_nat ran)) <= 2 * (hi - lo) * INR (length (g_infos g true)) * sqrt (INR A) /\
  b2 * sqrt (INR (N.to_nat ran)) <= 2 * (hi - lo) * INR (length (g_infos g false)) * sqrt (INR A).
Proof.
  intros HWF HPR HCO HPay HA H0. apply sampled_bound_rate_gen; try assumption.
  now apply sampled_inc_bounded_zero.
Qed.

(** ** Quotient form, with the total number of infosets *)
Lemma rate_div_form (g : gameR) (lo hi : R) (A : nat) (b1 b2 : R) (ran : N) :
  0 <= hi - lo -> (1 <= ran)%N ->
  b1 * sqrt (INR (N.to_nat ran)) <= 2 * (hi - lo) * INR (length (g_infos g true)) * sqrt (INR A) ->
  b2 * sqrt (INR (N.to_nat ran)) <= 2 * (hi - lo) * INR (length (g_infos g false)) * sqrt (INR A) ->
  b1 <= 2 * (hi - lo) * INR (num_infosets g) * sqrt (INR A) / sqrt (INR (N.to_nat ran)) /\
  b2 <= 2 * (hi - lo) * INR (num_infosets g) * sqrt (INR A) / sqrt (INR (N.to_nat ran)).
Proof.
  intros HD Hr H1 H2.
  assert (Ht : 0 < INR (N.to_nat ran)) by (apply lt_0_INR; lia).
  assert (Hs : 0 < sqrt (INR (N.to_nat ran))) by (now apply sqrt_lt_R0).
  pose proof (sqrt_pos (INR A)) as HsA.
  assert (HN1 : INR (length (g_infos g true)) <= INR (num_infosets g)).
  { apply le_INR. unfold num_infosets. cbn [g_infos]. lia. }
  assert (HN2 : INR (length (g_infos g false)) <= INR (num_infosets g)).
  { apply le_INR. unfold num_infosets. cbn [g_infos]. lia. }
  assert (HDA : 0 <= 2 * (hi - lo) * sqrt (INR A)) by nra.
  split; apply (Rmult_le_reg_r (sqrt (INR (N.to_nat ran)))); try assumption;
    unfold Rdiv; rewrite Rmult_assoc, Rinv_l, Rmult_1_r by lra.
  - eapply Rle_trans; [exact H1|]. nra.
  - eapply Rle_trans; [exact H2|]. nra.
Qed.

Corollary sampled_bound_rate_div (g : gameR) (draw : oracleR) (p : paramsR) (lo hi : R) (A : nat) :
  WFgame g -> PerfectRecall g -> ChanceOK g -> PayoffsIn lo hi (g_root g) ->
  (forall pl, Forall (fun a => (a <= A)%nat) (arities g pl)) ->
  DrawOK (g_chance g) draw \/ lo <= 0 <= hi ->
  forall budget (stop : R -> bool) strats b1 b2 ran,
  @solve_single RNum g Sampled draw p budget stop = (strats, Some (b1, b2), ran) ->
  b1 <= 2 * (hi - lo) * INR (num_infosets g) * sqrt (INR A) / sqrt (INR (N.to_nat ran)) /\
  b2 <= 2 * (hi - lo) * INR (num_infosets g) * sqrt (INR A) / sqrt (INR (N.to_nat ran)).
Proof.
  intros HWF HPR HCO HPay HA HD budget stop strats b1 b2 ran H.
  assert (HR : (1 <= ran)%N /\
    b1 * sqrt (INR (N.to_nat ran)) <= 2 * (hi - lo) * INR (length (g_infos g true)) * sqrt (INR A) /\
    b2 * sqrt (INR (N.to_nat ran)) <= 2 * (hi - lo) * INR (length (g_infos g false)) * sqrt (INR A)).
  { destruct HD as [HD|HD].
    - eapply sampled_bound_rate; eauto.
    - eapply sampled_bound_rate_any_draw; eauto. }
  destruct HR as (Hr & H1 & H2).
  apply rate_div_form; try assumption. exact (D_nonneg g lo hi HWF HCO HPay).
Qed.

(** ** Examples (non-vacuity) *)

(** matching pennies has no chance node: every oracle is in range *)
Example mp_rate_sampled (draw : oracleR) (p : paramsR) budget (stop : R -> bool) strats b1 b2 ran :
  @solve_single RNum mp_game Sampled draw p budget stop = (strats, Some (b1, b2), ran) ->
  (1 <= ran)%N /\
  b1 * sqrt (INR (N.to_nat ran)) <= 4 * sqrt 2 /\
  b2 * sqrt (INR (N.to_nat ran)) <= 4 * sqrt 2.
Proof.
  intros H.
  assert (HD : DrawOK (g_chance mp_game) draw) by (intros ci pass Hci; cbn in Hci; lia).
  destruct (sampled_bound_rate mp_game draw p (-1) 1 2 mp_WF mp_PR mp_ChanceOK mp_Payoffs
              mp_arities HD budget stop strats b1 b2 ran H) as (Hr & H1 & H2).
  cbn [mp_game g_infos g_infos1 g_infos2 length INR] in H1, H2.
  replace (sqrt (1 + 1)) with (sqrt 2) in H1, H2 by (f_equal; lra).
  split; [exact Hr|]. split; lra.
Qed.

(** the game with a chance root of [CfrRate.v]: any oracle that answers 0 or 1 at the root *)
Example seq_rate_sampled (draw : oracleR) (p : paramsR) budget (stop : R -> bool) strats b1 b2 ran :
  (forall pass, (draw true 0%nat pass [1 / 2; 1 / 2]%R < 2)%nat) ->
  @solve_single RNum seq_game Sampled draw p budget stop = (strats, Some (b1, b2), ran) ->
  (1 <= ran)%N /\ b1 * sqrt (INR (N.to_nat ran)) <= 8 * sqrt 2 /\ b2 * sqrt (INR (N.to_nat ran)) <= 0.
Proof.
  intros Hd H.
  assert (HD : DrawOK (g_chance seq_game) draw).
  { intros ci pass Hci. cbn in Hci. destruct ci as [|ci]; [|lia]. cbn. apply Hd. }
  destruct (sampled_bound_rate seq_game draw p 0 2 2 seq_WF seq_PR seq_ChanceOK seq_Payoffs
              seq_arities HD budget stop strats b1 b2 ran H) as (Hr & H1 & H2).
  cbn [seq_game g_infos g_infos1 g_infos2 length INR] in H1, H2.
  replace (sqrt (1 + 1)) with (sqrt 2) in H1, H2 by (f_equal; lra).
  split; [exact Hr|]. split; lra.
Qed.

(** an oracle that alternates between the two outcomes; with a positive budget the
    bounds are returned and obey the rate *)
Definition alt_draw : oracleR := fun _ _ pass _ => N.to_nat (pass mod 2)%N.

Example seq_rate_sampled_exists (p : paramsR) budget (stop : R -> bool) :
  budget <> 0%nat ->
  exists strats b1 b2 ran,
    @solve_single RNum seq_game Sampled alt_draw p budget stop = (strats, Some (b1, b2), ran) /\
    b1 * sqrt (INR (N.to_nat ran)) <= 8 * sqrt 2 /\ b2 * sqrt (INR (N.to_nat ran)) <= 0.
Proof.
  intros Hb.
  destruct (@solve_single RNum seq_game Sampled alt_draw p budget stop)
    as [[strats regs] ran] eqn:E.
  pose proof (solve_single_shape seq_game Sampled alt_draw p budget stop) as HS.
  cbv zeta in HS. rewrite E in HS. cbn [fst snd] in HS. destruct HS as (HS & _).
  destruct regs as [[b1 b2]|]; [|exfalso; apply Hb; now apply HS].
  exists strats, b1, b2, ran. split; [reflexivity|].
  assert (Hd : forall pass, (alt_draw true 0%nat pass [1 / 2; 1 / 2]%R < 2)%nat).
  { intros pass. unfold alt_draw. pose proof (N.mod_upper_bound pass 2 ltac:(lia)). lia. }
  destruct (seq_rate_sampled alt_draw p budget stop strats b1 b2 ran Hd E) as (_ & H1 & H2).
  split; assumption.
Qed.

(** ** The range condition on the draws cannot be dropped.

    Where the implementation indexes [outcomes[ind..=ind]] (and panics when [ind] is out
    of range) the model returns the value 0 and performs no update.  With payoffs in
    [[5, 6]] that 0 lies outside the payoff range, and the rate fails after the first
    iteration already: the returned bound is 5 > 2 * (6 - 5) * 1 * sqrt 2. *)
Definition bad_game : gameR :=
  @mkGame RNum [[1 / 2; 1 / 2]] [mkPinfo 0 [0%N; 1%N] None] [] [] []
          (@Player RNum true 0 [@Chance RNum 0 [@Term RNum 5; @Term RNum 6]; @Term RNum 5]).
Definition bad_draw : oracleR := fun _ _ _ _ => 7%nat.

Lemma bad_WF : WFgame bad_game.
Proof.
  unfold WFgame, bad_game. cbn [g_root g_infos1 g_infos2 g_singles1 g_singles2].
  split; [|split; [|split; [|split]]].
  - cbn. repeat split; lia.
  - split.
    + cbn. constructor; [intros []|constructor].
    + constructor; [|constructor]. cbn. split; [|lia].
      constructor; [intros [H|[]]; discriminate|]. constructor; [intros []|constructor].
  - split; constructor.
  - intros pl i h Hin. cbn in Hin. destruct Hin as [E|[]]. injection E as <- <- <-. reflexivity.
  - intros pl i j a Hi Hp. destruct pl; cbn in Hi; [|lia].
    destruct i as [|i]; [|lia]. cbn in Hp. discriminate.
Qed.

Lemma bad_PR : PerfectRecall bad_game.
Proof.
  exists (fun _ _ => []). intros pl i h Hin. cbn in Hin.
  destruct Hin as [E|[]]. injection E as _ _ <-. reflexivity.
Qed.

Lemma bad_ChanceOK : ChanceOK bad_game.
Proof. constructor; [|constructor]. split; [repeat constructor; lra|cbn [Rsum]; lra]. Qed.

Lemma bad_Payoffs : PayoffsIn 5 6 (g_root bad_game).
Proof. cbn. repeat constructor; lra. Qed.

Lemma bad_arities pl : Forall (fun a => (a <= 2)%nat) (arities bad_game pl).
Proof. destruct pl; cbn; repeat constructor. Qed.

Lemma bad_iter :
  snd (@vanilla_iter RNum bad_game true bad_draw (@p_vanilla RNum) 1 (@init_state RNum bad_game))
  = (5, 0).
Proof.
  rewrite vanilla_iter_state. cbv zeta. cbn [snd].
  unfold init_state. cbn [bad_game g_chance g_root g_infos1 g_infos2 map pi_actions length].
  cbn -[Rmax Rltb Rleb Reqb Rdiv Rplus Rmult Rminus Ropp INR N.to_nat Rinv].
  replace (INR (N.to_nat 2)) with 2 by (simpl; lra).
  unfold info_bound, Rmaxl. cbn [cum_regret reduce_max fold_left fmax RNum].
  replace (INR (N.to_nat 1)) with 1 by (simpl; lra).
  set (x := 0 + 0 * (1 * 1) - _). set (y := 0 + 5 * (1 * 1) - _).
  assert (Hx : x = - 5 / 2) by (unfold x; lra).
  assert (Hy : y = 5 / 2) by (unfold y; lra).
  rewrite Hx, Hy. rewrite (Rmax_right (- 5 / 2) (5 / 2)) by lra.
  rewrite (Rmax_left (5 / 2) 0) by lra. f_equal. lra.
Qed.

Example out_of_range_draw_breaks_rate (stop : R -> bool) :
  exists strats b1 b2 ran,
    @solve_single RNum bad_game Sampled bad_draw (@p_vanilla RNum) 1 stop
    = (strats, Some (b1, b2), ran) /\
    ~ (b1 * sqrt (INR (N.to_nat ran)) <=
       2 * (6 - 5) * INR (length (g_infos bad_game true)) * sqrt (INR 2)).
Proof.
  rewrite solve_single_loop, loop_S. cbn [one_iter].
  pose proof bad_iter as H.
  destruct (vanilla_iter bad_game true bad_draw p_vanilla 1 (init_state bad_game)) as [st' [r1 r2]].
  cbn [snd] in H. injection H as -> ->.
  assert (Hs : sqrt 2 < 2).
  { rewrite <- (sqrt_square 2) at 2 by lra. apply sqrt_lt_1_alt. lra. }
  assert (Hno : ~ (5 * sqrt (INR (N.to_nat 1)) <=
                   2 * (6 - 5) * INR (length (g_infos bad_game true)) * sqrt (INR 2))).
  { cbn [bad_game g_infos g_infos1 length]. replace (INR (N.to_nat 1)) with 1 by (simpl; lra).
    replace (INR 2) with 2 by (simpl; lra). replace (INR 1) with 1 by (simpl; lra).
    rewrite sqrt_1. lra. }
  destruct (stop _); cbn [solve_loop]; eexists _, 5, 0, 1%N; (split; [reflexivity|exact Hno]).
Qed.

(** with payoffs in [[0, 2]] the rate holds for *every* oracle, in range or not *)
Example seq_rate_sampled_any (draw : oracleR) (p : paramsR) budget (stop : R -> bool) strats b1 b2 ran :
  @solve_single RNum seq_game Sampled draw p budget stop = (strats, Some (b1, b2), ran) ->
  (1 <= ran)%N /\ b1 * sqrt (INR (N.to_nat ran)) <= 8 * sqrt 2 /\ b2 * sqrt (INR (N.to_nat ran)) <= 0.
Proof.
  intros H.
  destruct (sampled_bound_rate_any_draw seq_game draw p 0 2 2 seq_WF seq_PR seq_ChanceOK seq_Payoffs
              seq_arities ltac:(lra) budget stop strats b1 b2 ran H) as (Hr & H1 & H2).
  cbn [seq_game g_infos g_infos1 g_infos2 length INR] in H1, H2.
  replace (sqrt (1 + 1)) with (sqrt 2) in H1, H2 by (f_equal; lra).
  split; [exact Hr|]. split; lra.
Qed.
