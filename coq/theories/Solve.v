(** * Solve: model of [solve/data.rs] ([RegretParams] and its update rules),
    [solve/vanilla.rs] (unsampled and chance-sampled CFR, single-threaded form) and
    [solve/external.rs] (external-sampled CFR, single-threaded form).

    Sampling is an oracle [draw kind id pass weights] — exactly the signature of
    the hook installed in the implementation ([cfr::verif::set_sampler]).  The
    traversal threads the mutable infoset state in the order the code mutates it,
    so that at binary64 the model performs the same operations in the same order. *)
From Coq Require Import List NArith Bool Arith.
From Cfr.theories Require Import Num Tree Strat Eval.
Import ListNotations.

Inductive method := Full | Sampled | External.

Section Solve.
  Context {NN : Num}.
  Local Notation T := (T NN).
  Local Notation node := (@node NN).
  Local Notation game := (@game NN).

  (** ** [RegretParams].  The four parameters are extended numbers: the code gives
      [+-inf] a meaning of their own, and NaN is rejected by [RegretParams::new]. *)
  Inductive ext := NegInf | Fin (x : T) | PosInf.
  Record params := mkParams { a_pos : ext; a_neg : ext; a_strat : ext; a_nopos : ext }.

  (** acceptance condition of [RegretParams::new] (NaN is not representable here:
      the boundary conversion [Exec.ext_of_float] fails on it) *)
  Definition params_ok (p : params) : bool :=
    match a_strat p with
    | Fin x => leb NN (zero NN) x
    | _ => false
    end.

  (** [logaddexp::ln_add_exp] *)
  Definition ln_add_exp (a b : T) : T :=
    if eqb NN a b then add NN a (ln NN two)
    else
      let diff := sub NN a b in
      if is_nan NN diff then diff
      else if ltb NN (zero NN) diff
           then add NN a (ln NN (add NN (one NN) (exp NN (neg NN diff))))
           else add NN b (ln NN (add NN (one NN) (exp NN diff))).

  Definition gen_discount (it : N) (d : ext) : T :=
    match d with
    | NegInf => zero NN
    | PosInf => one NN
    | Fin d =>
        if eqb NN d (zero NN) then div NN (one NN) two
        else
          let numer := mul NN d (ln NN (of_N NN it)) in
          let denom := ln_add_exp numer (zero NN) in
          exp NN (sub NN numer denom)
    end.

  (** [max_by(partial_cmp)]: the *last* maximum; [min_by]: the *first* minimum *)
  Fixpoint argmax_last (l : list T) (i : nat) (bi : nat) (bv : T) : nat :=
    match l with
    | [] => bi
    | v :: r => if ltb NN v bv then argmax_last r (S i) bi bv else argmax_last r (S i) i v
    end.
  Fixpoint argmin_first (l : list T) (i : nat) (bi : nat) (bv : T) : nat :=
    match l with
    | [] => bi
    | v :: r => if ltb NN v bv then argmin_first r (S i) i v else argmin_first r (S i) bi bv
    end.

  Fixpoint one_hot_at (n i k : nat) : list T :=
    match n with
    | O => []
    | S n' => (if Nat.eqb i k then one NN else zero NN) :: one_hot_at n' (S i) k
    end.

  Definition reduce_min (l : list T) : option T :=
    match l with
    | [] => None
    | x :: r => Some (fold_left (fmin NN) r x)
    end.

  (** [regret_match]: the next strategy of an infoset from its cumulative regret *)
  Definition regret_match (p : params) (cum_reg : list T) : list T :=
    let n := length cum_reg in
    let norm := sum (filter (fun v => ltb NN (zero NN) v) cum_reg) in
    if ltb NN (zero NN) norm then
      map (fun r => if ltb NN (zero NN) r then div NN r norm else zero NN) cum_reg
    else
      match a_nopos p with
      | PosInf =>
          match cum_reg with
          | [] => []
          | v :: r => one_hot_at n O (argmax_last r 1 O v)
          end
      | NegInf =>
          match cum_reg with
          | [] => []
          | v :: r => one_hot_at n O (argmin_first r 1 O v)
          end
      | Fin w =>
          if eqb NN w (zero NN) then repeatT (div NN (one NN) (lenT cum_reg)) n
          else
            let shift :=
              match (if ltb NN (zero NN) w then reduce_max cum_reg else reduce_min cum_reg) with
              | Some m => m
              | None => zero NN
              end in
            let e := fun r => exp NN (mul NN (sub NN r shift) w) in
            let norm := sum (map e cum_reg) in
            map (fun r => div NN (e r) norm) cum_reg
      end.

  Definition discount_cum_regret (p : params) (it : N) (cum_reg : list T) : list T :=
    let pos := gen_discount it (a_pos p) in
    let ng := gen_discount it (a_neg p) in
    map (fun r => if ltb NN (zero NN) r then mul NN r pos
                  else if ltb NN r (zero NN) then mul NN r ng else r) cum_reg.

  Definition discount_average_strat (p : params) (it : N) (avg : list T) : list T :=
    match a_strat p with
    | PosInf => map (fun _ => zero NN) avg
    | NegInf => avg
    | Fin gm =>
        if ltb NN (zero NN) gm then
          let f := of_N NN it in
          let ratio := pow NN (div NN f (add NN f (one NN))) gm in
          map (fun a => mul NN a ratio) avg
        else avg
    end.

  Definition cum_regret_bound (it : N) (cum_reg : list T) : T :=
    let m := match reduce_max cum_reg with Some m => m | None => zero NN end in
    div NN (mul NN two (fmax NN m (zero NN))) (of_N NN it).

  (** [avg_strat] *)
  Definition avg_strat (cum_strat : list T) : list T :=
    let norm := sum cum_strat in
    if eqb NN norm (zero NN) then repeatT (div NN (one NN) (lenT cum_strat)) (length cum_strat)
    else map (fun p => div NN p norm) cum_strat.

  (** ** [RegretInfoset] *)
  Record rinfo := mkRinfo { cum_regret : list T; cum_strat : list T; strat : list T }.

  Definition rinfo_new (n : nat) : rinfo :=
    mkRinfo (repeatT (zero NN) n) (repeatT (zero NN) n)
            (repeatT (div NN (one NN) (of_N NN (N.of_nat n))) n).

  (** [PlayerRecurse::advance]; returns the new infoset and its bound contribution *)
  Definition advance (p : params) (it it_avg : N) (ri : rinfo) : rinfo * T :=
    let s := regret_match p (cum_regret ri) in
    let cr := discount_cum_regret p it (cum_regret ri) in
    let cs := discount_average_strat p it_avg (cum_strat ri) in
    (mkRinfo cr cs s, cum_regret_bound it cr).

  Definition pstate := (list rinfo * list rinfo)%type.
  Definition ps_get (st : pstate) (pl : bool) : list rinfo := if pl then fst st else snd st.
  Definition ps_set (st : pstate) (pl : bool) (l : list rinfo) : pstate :=
    if pl then (l, snd st) else (fst st, l).
  Definition ri_get (st : pstate) (pl : bool) (i : nat) : rinfo :=
    nth i (ps_get st pl) (mkRinfo [] [] []).
  Definition ri_set (st : pstate) (pl : bool) (i : nat) (ri : rinfo) : pstate :=
    ps_set st pl (upd (ps_get st pl) i ri).

  Definition init_state (g : game) : pstate :=
    (map (fun pi => rinfo_new (length (pi_actions pi))) (g_infos1 g),
     map (fun pi => rinfo_new (length (pi_actions pi))) (g_infos2 g)).

  (** advance every infoset of a player, summing the bound contributions in order *)
  Fixpoint advance_all (p : params) (it it_avg : N) (l : list rinfo) (acc : T) : list rinfo * T :=
    match l with
    | [] => ([], acc)
    | ri :: r =>
        let (ri', b) := advance p it it_avg ri in
        let (r', acc') := advance_all p it it_avg r (add NN acc b) in
        (ri' :: r', acc')
    end.

  (** ** Sampling oracle: [draw is_chance id pass weights] *)
  Definition oracle := bool -> nat -> N -> list T -> nat.

  (** ** Vanilla / chance-sampled traversal ([recurse_single] + [recurse_player]) *)
  Fixpoint vrec (chance : list (list T)) (sampled : bool) (draw : oracle) (pass : N)
           (n : node) (p_chance p1 p2 : T) (st : pstate) {struct n} : T * pstate :=
    match n with
    | Term x => (x, st)
    | Chance ci kids =>
        if sampled then
          let probs := row chance ci in
          let ind := draw true ci pass probs in
          (* [1.0].zip(outcomes[ind..=ind]) *)
          let fix pick (ks : list node) (k : nat) {struct ks} : T * pstate :=
            match ks with
            | [] => (zero NN, st)
            | c :: r =>
                match k with
                | O => let (pay, st') := vrec chance sampled draw pass c
                                              (mul NN p_chance (one NN)) p1 p2 st in
                       (add NN (zero NN) (mul NN (one NN) pay), st')
                | S k' => pick r k'
                end
            end in
          pick kids ind
        else
          let fix go (ps : list T) (ks : list node) (expected : T) (st : pstate) {struct ks}
            : T * pstate :=
            match ps, ks with
            | p :: ps', c :: ks' =>
                let (pay, st') := vrec chance sampled draw pass c (mul NN p_chance p) p1 p2 st in
                go ps' ks' (add NN expected (mul NN p pay)) st'
            | _, _ => (expected, st)
            end in
          go (row chance ci) kids (zero NN) st
    | Player pl i kids =>
        let ri := ri_get st pl i in
        let mine := if pl then p1 else p2 in
        (* update_cum_strat *)
        let cs := map (fun vc => add NN (snd vc) (mul NN mine (fst vc)))
                      (combine (strat ri) (cum_strat ri)) in
        let st := ri_set st pl i (mkRinfo (cum_regret ri) cs (strat ri)) in
        let mult := if pl then mul NN p_chance p2 else mul NN (neg NN p1) p_chance in
        (* for ((next, prob), cum_reg) in actions.zip(strat).zip(cum_regret) *)
        let fix go (ks : list node) (ss : list T) (ai : nat) (e1 e : T) (st : pstate)
                   {struct ks} : T * T * pstate :=
          match ks, ss with
          | c :: ks', prob :: ss' =>
              let '(q1, q2) := if pl then (mul NN p1 prob, p2) else (p1, mul NN p2 prob) in
              let (util_one, st') := vrec chance sampled draw pass c p_chance q1 q2 st in
              let util := mul NN util_one mult in
              let ri' := ri_get st' pl i in
              let cr := cum_regret ri' in
              let st'' := ri_set st' pl i
                                 (mkRinfo (upd cr ai (add NN (nth ai cr (zero NN)) util))
                                          (cum_strat ri') (strat ri')) in
              go ks' ss' (S ai) (add NN e1 (mul NN prob util_one)) (add NN e (mul NN util prob)) st''
          | _, _ => (e1, e, st)
          end in
        let '(e1, e, st2) := go kids (strat ri) O (zero NN) (zero NN) st in
        let ri2 := ri_get st2 pl i in
        let st3 := ri_set st2 pl i
                          (mkRinfo (map (fun v => sub NN v e) (cum_regret ri2))
                                   (cum_strat ri2) (strat ri2)) in
        (e1, st3)
    end.

  (** one iteration of [solve_generic_single]; [it] is 1-based *)
  Definition vanilla_iter (g : game) (sampled : bool) (draw : oracle) (p : params) (it : N)
             (st : pstate) : pstate * (T * T) :=
    let '(_, st1) := vrec (g_chance g) sampled draw (it - 1)%N (g_root g)
                          (one NN) (one NN) (one NN) st in
    let (l1, r1) := advance_all p it it (fst st1) (zero NN) in
    let (l2, r2) := advance_all p it it (snd st1) (zero NN) in
    ((l1, l2), (r1, r2)).

  (** ** External sampling ([recurse_regret]) for the active player [me] *)
  Fixpoint erec (chance : list (list T)) (draw : oracle) (cpass : N) (ppass : N) (noff : nat)
           (me : bool) (n : node) (st : pstate) {struct n} : T * pstate :=
    match n with
    | Term x => (if me then x else neg NN x, st)
    | Chance ci kids =>
        let ind := draw true ci cpass (row chance ci) in
        let fix pick (ks : list node) (k : nat) {struct ks} : T * pstate :=
          match ks with
          | [] => (zero NN, st)
          | c :: r => match k with
                      | O => erec chance draw cpass ppass noff me c st
                      | S k' => pick r k'
                      end
          end in
        pick kids ind
    | Player pl i kids =>
        let ri := ri_get st pl i in
        if Bool.eqb pl me then
          (* ActiveInfo::recurse *)
          let fix go (ks : list node) (ss : list T) (ai : nat) (e : T) (st : pstate)
                     {struct ks} : T * pstate :=
            match ks, ss with
            | c :: ks', prob :: ss' =>
                let (util, st') := erec chance draw cpass ppass noff me c st in
                let ri' := ri_get st' pl i in
                let cr := cum_regret ri' in
                go ks' ss' (S ai) (add NN e (mul NN prob util))
                   (ri_set st' pl i (mkRinfo (upd cr ai (add NN (nth ai cr (zero NN)) util))
                                             (cum_strat ri') (strat ri')))
            | _, _ => (e, st)
            end in
          let (e, st2) := go kids (strat ri) O (zero NN) st in
          let ri2 := ri_get st2 pl i in
          (e, ri_set st2 pl i (mkRinfo (map (fun v => sub NN v e) (cum_regret ri2))
                                       (cum_strat ri2) (strat ri2)))
        else
          (* ExternalInfo::next_update: cum_strat += strat, then follow the sampled action *)
          let cs := map (fun vc => add NN (snd vc) (fst vc)) (combine (strat ri) (cum_strat ri)) in
          let st := ri_set st pl i (mkRinfo (cum_regret ri) cs (strat ri)) in
          let id := if pl then i else (noff + i)%nat in
          let ind := draw false id ppass (strat ri) in
          let fix pick (ks : list node) (k : nat) {struct ks} : T * pstate :=
            match ks with
            | [] => (zero NN, st)
            | c :: r => match k with
                        | O => erec chance draw cpass ppass noff me c st
                        | S k' => pick r k'
                        end
            end in
          pick kids ind
    end.

  Definition external_iter (g : game) (draw : oracle) (p : params) (it : N)
             (st : pstate) : pstate * (T * T) :=
    let noff := length (g_infos1 g) in
    (* player one's pass: chance cells were reset 2(it-1) times, player two's cells advanced it-1 times *)
    let '(_, st1) := erec (g_chance g) draw (2 * (it - 1))%N (it - 1)%N noff true (g_root g) st in
    let (l1, r1) := advance_all p it (it - 1)%N (fst st1) (zero NN) in
    let st2 := (l1, snd st1) in
    (* player two's pass: player one's cells have been advanced it times *)
    let '(_, st3) := erec (g_chance g) draw (2 * (it - 1) + 1)%N it noff false (g_root g) st2 in
    let (l2, r2) := advance_all p it it (snd st3) (zero NN) in
    ((fst st3, l2), (r1, r2)).

  Definition one_iter (g : game) (m : method) (draw : oracle) (p : params) (it : N) (st : pstate) :=
    match m with
    | Full => vanilla_iter g false draw p it st
    | Sampled => vanilla_iter g true draw p it st
    | External => external_iter g draw p it st
    end.

  (** ** The iteration loop with early termination.  [None] bounds = no iteration ran
      (the code's initial [f64::INFINITY]). Returns the state, the bounds and the
      number of iterations run. *)
  Fixpoint solve_loop (g : game) (m : method) (draw : oracle) (p : params) (stop : T -> bool)
           (remaining : nat) (it : N) (st : pstate) (regs : option (T * T)) (ran : N)
    : pstate * option (T * T) * N :=
    match remaining with
    | O => (st, regs, ran)
    | S r =>
        let '(st', (r1, r2)) := one_iter g m draw p it st in
        if stop (fmax NN r1 r2) then (st', Some (r1, r2), it)
        else solve_loop g m draw p stop r (it + 1)%N st' (Some (r1, r2)) it
    end.

  Definition final_strats (st : pstate) : list T * list T :=
    (concat (map (fun ri => avg_strat (cum_strat ri)) (fst st)),
     concat (map (fun ri => avg_strat (cum_strat ri)) (snd st))).

  (** single-threaded solve; the early-termination test [max(b1,b2) < max_reg] is the
      predicate [stop] (so that NaN and infinite thresholds are covered by theorems
      that quantify over every predicate) *)
  Definition solve_single (g : game) (m : method) (draw : oracle) (p : params)
             (budget : nat) (stop : T -> bool) : (list T * list T) * option (T * T) * N :=
    let '(st, regs, ran) := solve_loop g m draw p stop budget 1%N (init_state g) None 0%N in
    (final_strats st, regs, ran).

  Definition stop_at (max_reg : T) : T -> bool := fun b => ltb NN b max_reg.

  (** ** [Multinomial::sample]: the categorical sampler of the external method.
      [init_probs] is all but the last probability; [u] is the uniform variate. *)
  Fixpoint cat_loop (init : list T) (remaining : T) (res : nat) : nat :=
    match init with
    | [] => res
    | v :: r => if ltb NN v remaining then cat_loop r (sub NN remaining v) (S res) else res
    end.

  Definition categorical (probs : list T) (u : T) : nat := cat_loop (removelast probs) u O.

  (** presets *)
  Definition of_nat_T (n : nat) : T := of_N NN (N.of_nat n).
  Definition p_vanilla := mkParams PosInf PosInf (Fin (zero NN)) (Fin (zero NN)).
  Definition p_lcfr := mkParams (Fin (one NN)) (Fin (one NN)) (Fin (one NN)) PosInf.
  Definition p_cfr_plus := mkParams PosInf NegInf (Fin two) PosInf.
  Definition p_dcfr := mkParams (Fin (div NN (of_nat_T 3) two)) (Fin (zero NN)) (Fin two) PosInf.
  Definition p_dcfr_prune :=
    mkParams (Fin (div NN (of_nat_T 3) two)) (Fin (div NN (one NN) two)) (Fin two) PosInf.
  Definition p_default := p_dcfr.
End Solve.
