(** * SolveApi: the dispatch of [Game::solve] over the reals — one statement that ties
    the single-threaded solvers ([Solve.v]), the multi-threaded models
    ([VanillaMulti.v], [ExternalMulti.v]) and the thread-count error together.

    [Game::solve(method, max_iter, max_reg, num_threads, params)]:
    - [num_threads = 0] means [available_parallelism()] (falling back to 1): the machine's
      parallelism is the parameter [par >= 1] here;
    - one thread: the single-threaded solver of the method;
    - otherwise [target = threads.checked_mul(3)] ([usize], 64 bit): [ThreadOverflow] when
      it does not fit, else the multi-threaded solver with that target.
    The schedules of the parallel phases (permutations of atomic increments), the
    reduction orders of the external solver's bound sums and the fuel of the frontier
    loops are parameters: the theorems quantify over all of them. *)
From Coq Require Import Reals List Bool NArith Permutation Lia.
From Cfr.theories Require Import Num RInst Tree GameWF Strat Eval Solve SolveValidProofs Valid
     Incr VanillaMulti ParallelProofs ExtIncr ExternalMulti ExternalProofs.
Import ListNotations.

Inductive api_result :=
| ApiOk (r : (list R * list R) * option (R * R) * N)
| ApiThreadOverflow.

Record schedules := mkSchedules {
  sch_vanilla : N -> list (@incr RNum) -> list (@incr RNum);
  sch_external : N -> bool -> list e_incr -> list e_incr;
  sch_psums : N -> bool -> list R -> R;
  sch_fuel : nat
}.

Definition schedules_ok (s : schedules) : Prop :=
  (forall it l, Permutation l (sch_vanilla s it l)) /\
  (forall it pl l, Permutation l (sch_external s it pl l)) /\
  (forall it pl l, psum_ok l (sch_psums s it pl l)).

Definition effective_threads (num_threads par : N) : N :=
  if N.eqb num_threads 0 then par else num_threads.

Definition solve_api (g : @game RNum) (m : method) (draw : @oracle RNum) (p : @params RNum)
           (budget : nat) (stop : R -> bool) (num_threads par : N) (s : schedules) : api_result :=
  let threads := effective_threads num_threads par in
  if N.eqb threads 1 then ApiOk (@solve_single RNum g m draw p budget stop)
  else if N.leb (2 ^ 64) (3 * threads) then ApiThreadOverflow
  else
    let target := N.to_nat (3 * threads) in
    ApiOk (match m with
           | Full => @solve_multi RNum g false draw p budget stop target (sch_vanilla s)
           | Sampled => @solve_multi RNum g true draw p budget stop target (sch_vanilla s)
           | External => solve_ext_multi g draw p target (sch_fuel s) (sch_external s) (sch_psums s)
                                         budget stop
           end).

(** the documented thread-count error, exactly *)
Theorem solve_api_overflow_iff g m draw p budget stop num_threads par s :
  solve_api g m draw p budget stop num_threads par s = ApiThreadOverflow <->
  (effective_threads num_threads par <> 1 /\ 2 ^ 64 <= 3 * effective_threads num_threads par)%N.
Proof.
  unfold solve_api. cbv zeta.
  destruct (N.eqb_spec (effective_threads num_threads par) 1) as [E|E].
  - split; [discriminate|]. intros [H _]. now elim H.
  - destruct (N.leb_spec (2 ^ 64) (3 * effective_threads num_threads par)) as [L|L].
    + split; [intros _; split; assumption|reflexivity].
    + split; [discriminate|]. intros [_ H]. lia.
Qed.

(** one thread never errors *)
Theorem solve_api_one_thread g m draw p budget stop par s :
  solve_api g m draw p budget stop 1 par s = ApiOk (@solve_single RNum g m draw p budget stop).
Proof. reflexivity. Qed.

(** the thread count is purely a performance setting: whenever [solve] does not report the
    overflow error it returns what the single-threaded solver returns — for every method,
    oracle, parameter set, budget, stop predicate, machine parallelism, schedule of the
    atomic increments and reduction order *)
Theorem solve_api_thread_independent g m draw p budget stop num_threads par s :
  WFgame g -> schedules_ok s ->
  solve_api g m draw p budget stop num_threads par s <> ApiThreadOverflow ->
  solve_api g m draw p budget stop num_threads par s =
  ApiOk (@solve_single RNum g m draw p budget stop).
Proof.
  intros HWF (Hv & He & Hp) Hne. unfold solve_api in *. cbv zeta in *.
  destruct (N.eqb (effective_threads num_threads par) 1); [reflexivity|].
  destruct (N.leb (2 ^ 64) (3 * effective_threads num_threads par)); [now elim Hne|].
  f_equal. destruct m.
  - exact (solve_multi_eq_single g false draw p budget stop _ (sch_vanilla s) Hv).
  - exact (solve_multi_eq_single g true draw p budget stop _ (sch_vanilla s) Hv).
  - exact (solve_ext_multi_eq_single_WF g draw p _ (sch_fuel s) (sch_external s) (sch_psums s)
                                        budget stop HWF He Hp).
Qed.

(** hence everything proved about [solve_single] (validity of the returned profile, shape of
    the bounds, early termination, rates, domination) holds for every thread count *)
Corollary solve_api_valid g m draw p budget stop num_threads par s strats regs ran :
  WFgame g -> schedules_ok s ->
  solve_api g m draw p budget stop num_threads par s = ApiOk (strats, regs, ran) ->
  @solve_single RNum g m draw p budget stop = (strats, regs, ran).
Proof.
  intros HWF Hs E.
  assert (Hne : solve_api g m draw p budget stop num_threads par s <> ApiThreadOverflow)
    by (rewrite E; discriminate).
  rewrite (solve_api_thread_independent g m draw p budget stop num_threads par s HWF Hs Hne) in E.
  now inversion E.
Qed.
