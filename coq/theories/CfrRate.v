(** * CfrRate: the regret bounds returned by the unsampled solver obey the CFR rate.

    For a well-formed game with perfect recall, payoffs in [[lo, hi]] ([D = hi - lo]),
    at most [A] actions per infoset and [N_pl] infosets of player [pl]: the bound
    [b_pl] returned after [ran] iterations of the unsampled method satisfies
    [b_pl * sqrt ran <= 2 * D * N_pl * sqrt A], for *every* [params]
    ([bound_rate_all_params]), in particular the vanilla one ([bound_rate_vanilla]),
    whatever the early-termination predicate. *)
From Coq Require Import Reals List Lra Lia Bool Arith NArith.
From Cfr.theories Require Import Num RInst Tree GameWF Strat Eval Solve Valid TruncProofs
     SolveValidProofs LoopProofs Incr IterChar RmPotential CfMass.
Import ListNotations.
Open Scope R_scope.

Local Notation nodeR := (@node RNum).
Local Notation gameR := (@game RNum).
Local Notation pstateR := (@pstate RNum).
Local Notation rinfoR := (@rinfo RNum).
Local Notation paramsR := (@params RNum).

(** ** list facts *)
Lemma Rsum_le_const (l : list R) (c : R) :
  Forall (fun x => x <= c) l -> Rsum l <= INR (length l) * c.
Proof.
  induction 1 as [|x l Hx H IH]; [cbn [Rsum length INR]; lra|].
  cbn [Rsum length]. rewrite (S_INR (length l)). lra.
Qed.

Lemma sqsum_le (l : list R) (d : R) :
  Forall (fun x => Rabs x <= d) l -> sqsum l <= INR (length l) * (d * d).
Proof.
  intros H. unfold sqsum.
  replace (length l) with (length (map (fun x => x * x) l)) by apply map_length.
  apply Rsum_le_const. apply Forall_forall. intros y Hy.
  apply in_map_iff in Hy as (x & <- & Hx). rewrite Forall_forall in H. specialize (H x Hx).
  pose proof (Rabs_pos x). assert (x * x = Rabs x * Rabs x).
  { unfold Rabs. destruct (Rcase_abs x); ring. }
  nra.
Qed.

Lemma dot_pos_discount (p : paramsR) it (l r : list R) :
  dot (map pos (@discount_cum_regret RNum p it l)) r =
  @gen_discount RNum it (a_pos p) * dot (map pos l) r.
Proof.
  unfold discount_cum_regret. cbv zeta.
  pose proof (gen_discount_range it (a_pos p)) as H1.
  pose proof (gen_discount_range it (a_neg p)) as H2.
  set (f1 := gen_discount it (a_pos p)) in *. set (f2 := gen_discount it (a_neg p)) in *.
  change (ltb RNum) with Rltb. change (zero RNum) with 0. change (mul RNum) with Rmult.
  revert r; induction l as [|x l IH]; intros r; destruct r as [|y r]; cbn [map dot]; try lra.
  rewrite IH, pos_discount by lra. ring.
Qed.

Lemma dot_pos_zeros n (r : list R) : dot (map pos (@repeatT RNum 0 n)) r = 0.
Proof.
  revert r; induction n as [|n IH]; intros r; destruct r as [|y r]; cbn [repeatT map dot];
    try reflexivity. rewrite IH, pos_of_nonpos by lra. lra.
Qed.

Lemma sqpos_zeros n : sqpos (@repeatT RNum 0 n) = 0.
Proof.
  unfold sqpos. induction n as [|n IH]; cbn [repeatT map Rsum]; [reflexivity|].
  rewrite IH, pos_of_nonpos by lra. lra.
Qed.

(** the new state of one iteration of the vanilla / chance-sampled method *)
Lemma vanilla_iter_fst (g : gameR) sampled draw (p : paramsR) it (st : pstateR) :
  fst (@vanilla_iter RNum g sampled draw p it st) =
  let st1 := snd (@vrec RNum (g_chance g) sampled draw (it - 1)%N (g_root g) 1 1 1 st) in
  (map (fun ri => fst (@advance RNum p it it ri)) (fst st1),
   map (fun ri => fst (@advance RNum p it it ri)) (snd st1)).
Proof. rewrite vanilla_iter_eq. cbv zeta. cbn [fst]. now rewrite !advance_all_map. Qed.

Section Rate.
  Context (g : gameR) (draw : @oracle RNum) (p : paramsR) (lo hi : R) (A : nat).
  Context (HWF : WFgame g) (HPR : PerfectRecall g) (HCO : ChanceOK g)
          (HPay : PayoffsIn lo hi (g_root g))
          (HA : forall pl, Forall (fun a => (a <= A)%nat) (arities g pl)).

  Local Notation D := (hi - lo).

  Lemma WF_arities_pos : arities_pos g.
  Proof.
    destruct HWF as (_ & (_ & H1) & (_ & H2) & _). intros pl. unfold arities.
    apply Forall_forall. intros a Ha. apply in_map_iff in Ha as (pi & <- & Hpi).
    destruct pl; cbn [g_infos] in Hpi; rewrite Forall_forall in H1, H2;
      [destruct (H1 pi Hpi)|destruct (H2 pi Hpi)]; lia.
  Qed.

  Lemma init_InvA : InvA (arities g true) (arities g false) (@init_state RNum g).
  Proof. apply init_state_inv. apply WF_arities_pos. Qed.

  Lemma D_nonneg : 0 <= D.
  Proof.
    destruct HWF as (HS & _).
    pose proof (shaped_ValShaped g (@init_state RNum g) (g_root g) HCO init_InvA HS) as HV.
    pose proof (uval_range _ _ lo hi _ HV HPay). lra.
  Qed.

  (** ** the invariant: potential of every infoset after [t] iterations *)
  Definition KI (t : nat) (ri : rinfoR) : Prop :=
    sqpos (cum_regret ri) <= INR t * (INR A * (D * D)) /\
    forall r, dot (strat ri) r = 0 -> dot (map pos (cum_regret ri)) r = 0.

  Definition K (t : nat) (st : pstateR) : Prop :=
    InvA (arities g true) (arities g false) st /\
    forall pl i, (i < length (ps_get st pl))%nat -> KI t (@ri_get RNum st pl i).

  Lemma K_init : K 0 (@init_state RNum g).
  Proof.
    split; [apply init_InvA|]. intros pl i Hi. unfold ri_get.
    assert (E : exists n, nth i (ps_get (@init_state RNum g) pl) (@mkRinfo RNum [] [] []) =
                          @rinfo_new RNum n).
    { unfold init_state, ps_get in *. destruct pl; cbn [fst snd] in *;
        rewrite map_length in Hi;
        rewrite (nth_indep _ _ (@rinfo_new RNum (length (pi_actions (mkPinfo 0%N [] None)))))
          by (now rewrite map_length);
        rewrite (map_nth (fun pi => @rinfo_new RNum (length (pi_actions pi)))); eauto. }
    destruct E as (n & ->). unfold KI, rinfo_new. cbn [cum_regret strat zero RNum]. split.
    - rewrite sqpos_zeros. cbn [INR]. lra.
    - intros r _. apply dot_pos_zeros.
  Qed.

  Lemma arity_le (st : pstateR) pl i :
    InvA (arities g true) (arities g false) st -> (i < length (ps_get st pl))%nat ->
    (length (strat_view st pl i) <= A)%nat.
  Proof.
    intros HI Hi.
    assert (HF : Forall2 RInvA (arities g pl) (ps_get st pl)) by (destruct HI; destruct pl; assumption).
    pose proof (Forall2_len _ _ _ HF) as HL.
    pose proof (Forall2_nth RInvA _ _ i 0%nat (@mkRinfo RNum [] [] []) HF ltac:(lia)) as H.
    destruct H as (_ & _ & _ & _ & L3). unfold strat_view, ri_get. rewrite L3.
    specialize (HA pl). rewrite Forall_forall in HA. apply HA. apply nth_In. lia.
  Qed.

  (** one iteration *)
  Lemma K_step t it (st : pstateR) :
    K t st -> K (S t) (fst (@vanilla_iter RNum g false draw p it st)).
  Proof.
    intros [HI HK]. split.
    { exact (one_iter_inv _ _ g Full draw p it st HI). }
    pose proof (Inv_of_InvA _ _ _ HI) as HInv.
    rewrite vanilla_iter_fst. cbv zeta.
    set (st1 := snd (vrec _ _ _ _ _ _ _ _ _)).
    set (f := fun ri => fst (@advance RNum p it it ri)).
    intros pl i Hi.
    assert (Hlen1 : length (ps_get st1 pl) = length (ps_get st pl)) by apply vrec_len.
    assert (Hi1 : (i < length (ps_get st1 pl))%nat).
    { unfold ps_get in *. destruct pl; cbn [fst snd] in *; now rewrite map_length in Hi. }
    rewrite ri_get_map by assumption.
    destruct (vrec_state (g_chance g) draw (it - 1)%N (g_root g) 1 1 1 st pl i HInv)
      as (H1 & _ & H3). fold st1 in H1, H3.
    specialize (HK pl i ltac:(lia)). destruct HK as [HK1 HK2].
    set (ri := @ri_get RNum st pl i) in *.
    set (r := cfr_incs (g_chance g) (strat_view st) pl i (g_root g) 1 1 1) in *.
    assert (Hlr : length r = length (strat ri)).
    { unfold r, cfr_incs. now rewrite map_length, seq_length. }
    assert (Hlc : length (cum_regret ri) = length r).
    { rewrite Hlr. apply (Inv_reg_ok st pl i HInv). }
    assert (Horth : dot (strat ri) r = 0).
    { apply cfr_incs_orthogonal_Inv; [assumption|lia]. }
    assert (Hsq : sqsum r <= INR A * (D * D)).
    { apply Rle_trans with (INR (length r) * (D * D)).
      - apply sqsum_le. unfold r, cfr_incs. apply Forall_forall. intros y Hy.
        apply in_map_iff in Hy as (a & <- & Ha). apply in_seq in Ha.
        apply cfr_inc_bounded; try assumption. tR. lia.
      - apply Rmult_le_compat_r; [pose proof D_nonneg; nra|]. apply le_INR.
        rewrite Hlr. apply (arity_le st pl i HI). lia. }
    unfold KI, f, advance. cbn [fst cum_regret strat]. rewrite H1. split.
    - eapply Rle_trans; [apply sqpos_discount|].
      pose proof (pot_step (cum_regret ri) r Hlc (HK2 r Horth)). rewrite S_INR. lra.
    - intros r' Hr'. rewrite dot_pos_discount. apply (rm_dot p) in Hr'. rewrite Hr'. lra.
  Qed.

  (** ** from the potential to the returned bound *)
  Definition NI (pl : bool) : nat := length (g_infos g pl).

  Definition Bnd (t : N) (b1 b2 : R) : Prop :=
    b1 * sqrt (INR (N.to_nat t)) <= 2 * D * INR (NI true) * sqrt (INR A) /\
    b2 * sqrt (INR (N.to_nat t)) <= 2 * D * INR (NI false) * sqrt (INR A).

  Lemma K_bound it (st : pstateR) pl :
    (1 <= it)%N -> K (N.to_nat it) st ->
    Rsum (map (info_bound it) (ps_get st pl)) * sqrt (INR (N.to_nat it)) <=
    2 * D * INR (NI pl) * sqrt (INR A).
  Proof.
    intros Hit [HI HK]. set (t := N.to_nat it) in *.
    assert (Ht : 0 < INR t) by (apply lt_0_INR; unfold t; lia).
    set (s := sqrt (INR t)).
    assert (Hs : 0 < s) by (now apply sqrt_lt_R0).
    assert (Hss : s * s = INR t) by (apply sqrt_sqrt; lra).
    pose proof D_nonneg as HD.
    set (c := 2 * (s * (sqrt (INR A) * D)) / INR t).
    assert (Hc : forall ri, In ri (ps_get st pl) -> info_bound it ri <= c).
    { intros ri Hin. apply In_nth with (d := @mkRinfo RNum [] [] []) in Hin as (i & Hi & <-).
      destruct (HK pl i Hi) as [HK1 _]. unfold ri_get in HK1.
      set (ri := nth i (ps_get st pl) _) in *.
      unfold info_bound, c. fold t.
      pose proof (max_le_sqrt_potential (cum_regret ri)) as Hm.
      assert (Hsq : sqrt (sqpos (cum_regret ri)) <= s * (sqrt (INR A) * D)).
      { eapply Rle_trans; [apply sqrt_le_1_alt; exact HK1|].
        rewrite sqrt_mult_alt by lra. rewrite sqrt_mult_alt by apply pos_INR.
        rewrite sqrt_square by assumption. fold s. lra. }
      unfold Rdiv. apply Rmult_le_compat_r; [left; now apply Rinv_0_lt_compat|]. lra. }
    assert (HN : length (ps_get st pl) = NI pl).
    { assert (HF : Forall2 RInvA (arities g pl) (ps_get st pl))
        by (destruct HI; destruct pl; assumption).
      apply Forall2_len in HF. unfold NI. rewrite <- HF. unfold arities. apply map_length. }
    assert (Hsum : Rsum (map (info_bound it) (ps_get st pl)) <= INR (NI pl) * c).
    { rewrite <- HN. replace (length (ps_get st pl))
        with (length (map (info_bound it) (ps_get st pl))) by apply map_length.
      apply Rsum_le_const. apply Forall_forall. intros y Hy.
      apply in_map_iff in Hy as (ri & <- & Hri). now apply Hc. }
    assert (Hcs : c * s = 2 * D * sqrt (INR A)).
    { unfold c. rewrite <- Hss. field. lra. }
    apply Rle_trans with (INR (NI pl) * c * s).
    - apply Rmult_le_compat_r; [lra|exact Hsum].
    - rewrite Rmult_assoc, Hcs. lra.
  Qed.

  Lemma iter_rate it (st : pstateR) :
    (1 <= it)%N -> K (N.to_nat it - 1) st ->
    let res := @one_iter RNum g Full draw p it st in
    K (N.to_nat it) (fst res) /\ Bnd it (fst (snd res)) (snd (snd res)).
  Proof.
    intros Hit HK. cbv zeta. cbn [one_iter].
    pose proof (K_step _ it st HK) as HK'.
    replace (S (N.to_nat it - 1)) with (N.to_nat it) in HK' by lia.
    split; [exact HK'|].
    rewrite (vanilla_iter_bounds g false draw p it st). cbn [fst snd].
    split; [exact (K_bound it _ true Hit HK')|exact (K_bound it _ false Hit HK')].
  Qed.

  (** ** the loop, with any stop predicate *)
  Lemma loop_rate (stop : R -> bool) rem :
    forall it (st : pstateR) regs ran st' b1 b2 ran',
    (1 <= it)%N -> K (N.to_nat it - 1) st ->
    (forall c1 c2, regs = Some (c1, c2) -> (1 <= ran)%N /\ Bnd ran c1 c2) ->
    @solve_loop RNum g Full draw p stop rem it st regs ran = (st', Some (b1, b2), ran') ->
    (1 <= ran')%N /\ Bnd ran' b1 b2.
  Proof.
    induction rem as [|r IH]; intros it st regs ran st' b1 b2 ran' Hit HK Hregs H.
    - cbn [solve_loop] in H. injection H as _ -> <-. now apply Hregs.
    - rewrite loop_S in H.
      destruct (iter_rate it st Hit HK) as [HK' HB]. cbv zeta in HK', HB.
      destruct (one_iter g Full draw p it st) as [st1 [r1 r2]]. cbn [fst snd] in HK', HB.
      destruct (stop (Rmax r1 r2)).
      + injection H as _ <- <- <-. split; [exact Hit|exact HB].
      + eapply (IH (it + 1)%N st1 (Some (r1, r2)) it); [lia| | |exact H].
        * replace (N.to_nat (it + 1) - 1)%nat with (N.to_nat it) by lia. exact HK'.
        * intros c1 c2 E. injection E as <- <-. split; [exact Hit|exact HB].
  Qed.

  (** ** The theorem, for every [params] *)
  Theorem bound_rate_all_params budget (stop : R -> bool) strats b1 b2 ran :
    @solve_single RNum g Full draw p budget stop = (strats, Some (b1, b2), ran) ->
    (1 <= ran)%N /\
    b1 * sqrt (INR (N.to_nat ran)) <= 2 * D * INR (length (g_infos g true)) * sqrt (INR A) /\
    b2 * sqrt (INR (N.to_nat ran)) <= 2 * D * INR (length (g_infos g false)) * sqrt (INR A).
  Proof.
    rewrite solve_single_loop.
    destruct (solve_loop _ _ _ _ _ _ _ _ _ _) as [[st regs'] ran'] eqn:E.
    intros H; injection H as _ -> ->.
    apply (loop_rate stop budget 1%N (@init_state RNum g) None 0%N st b1 b2 ran) in E;
      [exact E|lia|exact K_init|intros; discriminate].
  Qed.

  (** the same in quotient form, and with the total number of infosets *)
  Corollary bound_rate_div budget (stop : R -> bool) strats b1 b2 ran :
    @solve_single RNum g Full draw p budget stop = (strats, Some (b1, b2), ran) ->
    b1 <= 2 * D * INR (num_infosets g) * sqrt (INR A) / sqrt (INR (N.to_nat ran)) /\
    b2 <= 2 * D * INR (num_infosets g) * sqrt (INR A) / sqrt (INR (N.to_nat ran)).
  Proof.
    intros H. destruct (bound_rate_all_params budget stop strats b1 b2 ran H) as (Hr & H1 & H2).
    assert (Ht : 0 < INR (N.to_nat ran)) by (apply lt_0_INR; lia).
    assert (Hs : 0 < sqrt (INR (N.to_nat ran))) by (now apply sqrt_lt_R0).
    pose proof D_nonneg as HD. pose proof (sqrt_pos (INR A)) as HsA.
    assert (HN1 : INR (length (g_infos g true)) <= INR (num_infosets g)).
    { apply le_INR. unfold num_infosets. cbn [g_infos]. lia. }
    assert (HN2 : INR (length (g_infos g false)) <= INR (num_infosets g)).
    { apply le_INR. unfold num_infosets. cbn [g_infos]. lia. }
    assert (HDA : 0 <= 2 * D * sqrt (INR A)) by nra.
    split; apply (Rmult_le_reg_r (sqrt (INR (N.to_nat ran)))); try assumption;
      unfold Rdiv; rewrite Rmult_assoc, Rinv_l, Rmult_1_r by lra.
    - eapply Rle_trans; [exact H1|]. nra.
    - eapply Rle_trans; [exact H2|]. nra.
  Qed.

  (** every prefix of the unthresholded run: the bound after [t] iterations *)
  Corollary bound_at_rate t b :
    bound_at g Full draw p t = Some b ->
    b * sqrt (INR t) <= 2 * D * INR (num_infosets g) * sqrt (INR A).
  Proof.
    unfold bound_at.
    destruct (@solve_single RNum g Full draw p t never) as [[strats regs] ran] eqn:E.
    cbn [fst snd]. destruct regs as [[b1 b2]|]; [|discriminate].
    cbn [regs_bound]. intros H; injection H as <-.
    pose proof (solve_single_never_ran g Full draw p t) as Hr. rewrite E in Hr. cbn [snd] in Hr.
    subst ran.
    destruct (bound_rate_all_params t never strats b1 b2 _ E) as (_ & H1 & H2).
    rewrite Nat2N.id in H1, H2.
    pose proof D_nonneg as HD. pose proof (sqrt_pos (INR A)) as HsA.
    assert (HN1 : INR (length (g_infos g true)) <= INR (num_infosets g)).
    { apply le_INR. unfold num_infosets. cbn [g_infos]. lia. }
    assert (HN2 : INR (length (g_infos g false)) <= INR (num_infosets g)).
    { apply le_INR. unfold num_infosets. cbn [g_infos]. lia. }
    assert (HDA : 0 <= 2 * D * sqrt (INR A)) by nra.
    unfold Rmax. destruct (Rle_dec b1 b2).
    - eapply Rle_trans; [exact H2|]. nra.
    - eapply Rle_trans; [exact H1|]. nra.
  Qed.
End Rate.

(** ** The property as stated: vanilla [params] *)
Theorem bound_rate_vanilla (g : gameR) draw (lo hi : R) (A : nat) budget (stop : R -> bool)
        strats b1 b2 ran :
  WFgame g -> PerfectRecall g -> ChanceOK g -> PayoffsIn lo hi (g_root g) ->
  (forall pl, Forall (fun a => (a <= A)%nat) (arities g pl)) ->
  @solve_single RNum g Full draw (@p_vanilla RNum) budget stop = (strats, Some (b1, b2), ran) ->
  (1 <= ran)%N /\
  b1 * sqrt (INR (N.to_nat ran)) <= 2 * (hi - lo) * INR (length (g_infos g true)) * sqrt (INR A) /\
  b2 * sqrt (INR (N.to_nat ran)) <= 2 * (hi - lo) * INR (length (g_infos g false)) * sqrt (INR A).
Proof. intros HWF HPR HCO HP HA. now apply bound_rate_all_params. Qed.

Theorem bound_rate_vanilla_div (g : gameR) draw (lo hi : R) (A : nat) budget (stop : R -> bool)
        strats b1 b2 ran :
  WFgame g -> PerfectRecall g -> ChanceOK g -> PayoffsIn lo hi (g_root g) ->
  (forall pl, Forall (fun a => (a <= A)%nat) (arities g pl)) ->
  @solve_single RNum g Full draw (@p_vanilla RNum) budget stop = (strats, Some (b1, b2), ran) ->
  b1 <= 2 * (hi - lo) * INR (num_infosets g) * sqrt (INR A) / sqrt (INR (N.to_nat ran)) /\
  b2 <= 2 * (hi - lo) * INR (num_infosets g) * sqrt (INR A) / sqrt (INR (N.to_nat ran)).
Proof. intros HWF HPR HCO HP HA. now apply bound_rate_div. Qed.

(** ** Example: matching pennies ([mp_game]): D = 2, one infoset per player, two actions *)
Lemma mp_WF : WFgame mp_game.
Proof.
  unfold WFgame, mp_game. cbn [g_root g_infos1 g_infos2 g_singles1 g_singles2].
  split; [|split; [|split; [|split]]].
  - cbn. repeat split; lia.
  - split.
    + cbn. constructor; [intros []|constructor].
    + constructor; [|constructor]. cbn. split; [|lia].
      constructor; [intros [H|[]]; discriminate|]. constructor; [intros []|constructor].
  - split.
    + cbn. constructor; [intros []|constructor].
    + constructor; [|constructor]. cbn. split; [|lia].
      constructor; [intros [H|[]]; discriminate|]. constructor; [intros []|constructor].
  - intros pl i h Hin. cbn in Hin.
    destruct Hin as [E|[E|[E|[]]]]; injection E as <- <- <-; reflexivity.
  - intros pl i j a Hi Hp. destruct pl; cbn in Hi; destruct i as [|i]; try lia;
      cbn in Hp; discriminate.
Qed.

Lemma mp_PR : PerfectRecall mp_game.
Proof.
  exists (fun _ _ => []). intros pl i h Hin. cbn in Hin.
  destruct Hin as [E|[E|[E|[]]]]; injection E as _ _ <-; reflexivity.
Qed.

Lemma mp_ChanceOK : ChanceOK mp_game.
Proof. constructor. Qed.

Lemma mp_Payoffs : PayoffsIn (-1) 1 (g_root mp_game).
Proof. cbn. repeat constructor; lra. Qed.

Lemma mp_arities pl : Forall (fun a => (a <= 2)%nat) (arities mp_game pl).
Proof. destruct pl; cbn; repeat constructor. Qed.

(** after [ran] iterations of vanilla CFR on matching pennies each returned bound is at
    most [4 * sqrt 2 / sqrt ran] *)
Example mp_rate draw budget (stop : R -> bool) strats b1 b2 ran :
  @solve_single RNum mp_game Full draw (@p_vanilla RNum) budget stop = (strats, Some (b1, b2), ran) ->
  (1 <= ran)%N /\
  b1 * sqrt (INR (N.to_nat ran)) <= 4 * sqrt 2 /\
  b2 * sqrt (INR (N.to_nat ran)) <= 4 * sqrt 2.
Proof.
  intros H.
  destruct (bound_rate_vanilla mp_game draw (-1) 1 2 budget stop strats b1 b2 ran
              mp_WF mp_PR mp_ChanceOK mp_Payoffs mp_arities H) as (Hr & H1 & H2).
  cbn [mp_game g_infos g_infos1 g_infos2 length INR] in H1, H2.
  replace (sqrt (1 + 1)) with (sqrt 2) in H1, H2 by (f_equal; lra).
  split; [exact Hr|]. split; lra.
Qed.

(** non-vacuity: with a positive budget the bounds are returned *)
Example mp_rate_exists draw budget (stop : R -> bool) :
  budget <> 0%nat ->
  exists strats b1 b2 ran,
    @solve_single RNum mp_game Full draw (@p_vanilla RNum) budget stop = (strats, Some (b1, b2), ran) /\
    b1 * sqrt (INR (N.to_nat ran)) <= 4 * sqrt 2 /\ b2 * sqrt (INR (N.to_nat ran)) <= 4 * sqrt 2.
Proof.
  intros Hb.
  destruct (@solve_single RNum mp_game Full draw (@p_vanilla RNum) budget stop)
    as [[strats regs] ran] eqn:E.
  pose proof (solve_single_shape mp_game Full draw (@p_vanilla RNum) budget stop) as HS.
  cbv zeta in HS. rewrite E in HS. cbn [fst snd] in HS. destruct HS as (HS & _).
  destruct regs as [[b1 b2]|]; [|exfalso; apply Hb; now apply HS].
  exists strats, b1, b2, ran. split; [reflexivity|].
  destruct (mp_rate draw budget stop strats b1 b2 ran E) as (_ & H1 & H2). split; assumption.
Qed.

(** ** Example with chance and two successive infosets of player one *)
Definition seq_game : gameR :=
  @mkGame RNum [[1 / 2; 1 / 2]]
          [mkPinfo 0 [0%N; 1%N] None; mkPinfo 1 [0%N; 1%N] (Some (0%nat, 0%nat))] [] [] []
          (@Chance RNum 0
             [@Player RNum true 0 [@Player RNum true 1 [@Term RNum 1; @Term RNum 0]; @Term RNum 0];
              @Player RNum true 0 [@Player RNum true 1 [@Term RNum 0; @Term RNum 2]; @Term RNum 1]]).

Lemma seq_WF : WFgame seq_game.
Proof.
  unfold WFgame, seq_game. cbn [g_root g_infos1 g_infos2 g_singles1 g_singles2].
  split; [|split; [|split; [|split]]].
  - cbn. repeat split; lia.
  - split.
    + cbn. constructor; [intros [H|[]]; discriminate|]. constructor; [intros []|constructor].
    + repeat constructor; cbn; try lia; intros H; repeat (destruct H as [H|H]; try discriminate);
        try contradiction.
  - split; constructor.
  - intros pl i h Hin. cbn in Hin.
    destruct Hin as [E|[E|[E|[E|[]]]]]; injection E as <- <- <-; reflexivity.
  - intros pl i j a Hi Hp. destruct pl; cbn in Hi; [|lia].
    destruct i as [|[|i]]; try lia; cbn in Hp; [discriminate|].
    injection Hp as <- <-. lia.
Qed.

Lemma seq_PR : PerfectRecall seq_game.
Proof.
  exists (fun _ i => match i with O => [] | _ => [(0%nat, 0%nat)] end).
  intros pl i h Hin. cbn in Hin.
  destruct Hin as [E|[E|[E|[E|[]]]]]; injection E as _ <- <-; reflexivity.
Qed.

Lemma seq_ChanceOK : ChanceOK seq_game.
Proof.
  constructor; [|constructor]. split; [repeat constructor; lra|cbn [Rsum]; lra].
Qed.

Lemma seq_Payoffs : PayoffsIn 0 2 (g_root seq_game).
Proof. cbn. repeat constructor; lra. Qed.

Lemma seq_arities pl : Forall (fun a => (a <= 2)%nat) (arities seq_game pl).
Proof. destruct pl; cbn; repeat constructor. Qed.

Example seq_rate draw (p : paramsR) budget (stop : R -> bool) strats b1 b2 ran :
  @solve_single RNum seq_game Full draw p budget stop = (strats, Some (b1, b2), ran) ->
  (1 <= ran)%N /\ b1 * sqrt (INR (N.to_nat ran)) <= 8 * sqrt 2 /\ b2 * sqrt (INR (N.to_nat ran)) <= 0.
Proof.
  intros H.
  destruct (bound_rate_all_params seq_game draw p 0 2 2 seq_WF seq_PR seq_ChanceOK seq_Payoffs
              seq_arities budget stop strats b1 b2 ran H) as (Hr & H1 & H2).
  cbn [seq_game g_infos g_infos1 g_infos2 length INR] in H1, H2.
  replace (sqrt (1 + 1)) with (sqrt 2) in H1, H2 by (f_equal; lra).
  split; [exact Hr|]. split; lra.
Qed.
