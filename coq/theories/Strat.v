(** * Strat: model of the [Strategies] layer of [lib.rs]:
    [truncate], [distance], [as_named] (the two iterators with their
    [size_hint]), [from_named] (hash based) and [from_named_eq] (scan based). *)
From Coq Require Import List NArith Bool Arith.
From Cfr.theories Require Import Num Tree.
Import ListNotations.

Inductive serr :=
| InvalidInfoset | InvalidAction | InvalidProbability | UninitializedInfoset.

Inductive sres (A : Type) := SOk (a : A) | SErr (e : serr).
Arguments SOk {A}. Arguments SErr {A}.

Fixpoint upd {A} (l : list A) (i : nat) (v : A) : list A :=
  match l, i with
  | [], _ => []
  | _ :: r, O => v :: r
  | x :: r, S k => x :: upd r k v
  end.

Section Strat.
  Context {NN : Num}.
  Local Notation T := (T NN).
  Local Notation game := (@game NN).

  (** ** [Strategies::truncate] (with the repair: an infoset in which nothing
      exceeds the threshold is left unchanged) *)
  Definition truncate_row_by (above : T -> bool) (row : list T) : list T :=
    let total := sum (filter above row) in
    if ltb NN (zero NN) total
    then map (fun p => if above p then div NN p total else zero NN) row
    else row.

  Definition truncate_row (h : T) : list T -> list T :=
    truncate_row_by (fun p => ltb NN h p).

  Definition truncate_flat (h : T) (ars : list nat) (flat : list T) : list T :=
    concat (map (truncate_row h) (split_by flat ars)).

  Definition truncate (g : game) (h : T) (prof : list T * list T) : list T * list T :=
    (truncate_flat h (arities g true) (fst prof),
     truncate_flat h (arities g false) (snd prof)).

  (** ** [Strategies::distance] (with the repair: halved, zero without infosets).
      [None] models the panic on [!(p > 0)]. *)
  Definition dist_sum (p : T) (l r : list T) : T :=
    fold_left (fun d lr => add NN d (pow NN (absv NN (sub NN (fst lr) (snd lr))) p))
              (combine l r) (zero NN).

  Definition distance_player (p : T) (ninfos : nat) (l r : list T) : T :=
    match ninfos with
    | O => zero NN
    | _ => div NN (dist_sum p l r) (mul NN two (of_N NN (N.of_nat ninfos)))
    end.

  Definition distance (g : game) (p : T) (a b : list T * list T) : option (T * T) :=
    if ltb NN (zero NN) p then
      Some (distance_player p (length (g_infos1 g)) (fst a) (fst b),
            distance_player p (length (g_infos2 g)) (snd a) (snd b))
    else None.

  (** ** [NamedStrategyIter] / [NamedStrategyActionIter] as state machines *)
  Record nsi := mkNsi {
    ns_info : list (@pinfo);
    ns_probs : list T;
    ns_singles : list (N * N)
  }.

  Inductive nsai :=
  | AData (z : list (N * T))       (* [Zip<Iter<A>, Iter<f64>>] *)
  | ASingle (o : option N).        (* [Once<&A>] *)

  Definition nsi_new (g : game) (pl : bool) (flat : list T) : nsi :=
    mkNsi (g_infos g pl) flat (g_singles g pl).

  Definition nsi_next (it : nsi) : option ((N * nsai) * nsi) :=
    match ns_info it with
    | pi :: rest =>
        let k := length (pi_actions pi) in
        Some ((pi_name pi, AData (combine (pi_actions pi) (firstn k (ns_probs it)))),
              mkNsi rest (skipn k (ns_probs it)) (ns_singles it))
    | [] =>
        match ns_singles it with
        | (i, a) :: r => Some ((i, ASingle (Some a)), mkNsi [] (ns_probs it) r)
        | [] => None
        end
    end.

  (** repaired [size_hint]: infosets left, not probabilities left *)
  Definition nsi_len (it : nsi) : nat := length (ns_info it) + length (ns_singles it).

  Fixpoint data_next (z : list (N * T)) : option ((N * T) * list (N * T)) :=
    match z with
    | [] => None
    | (a, p) :: r => if ltb NN (zero NN) p then Some ((a, p), r) else data_next r
    end.

  Definition nsai_next (it : nsai) : option ((N * T) * nsai) :=
    match it with
    | AData z => match data_next z with
                 | Some (x, r) => Some (x, AData r)
                 | None => None
                 end
    | ASingle (Some a) => Some ((a, one NN), ASingle None)
    | ASingle None => None
    end.

  (** repaired [size_hint]: remaining positive entries *)
  Definition nsai_len (it : nsai) : nat :=
    match it with
    | AData z => length (filter (fun ap => ltb NN (zero NN) (snd ap)) z)
    | ASingle (Some _) => 1
    | ASingle None => 0
    end.

  (** draining an iterator with fuel (its own advertised length is enough fuel — proved) *)
  Fixpoint nsai_drain (fuel : nat) (it : nsai) : list (N * T) :=
    match fuel with
    | O => []
    | S f => match nsai_next it with
             | Some (x, it') => x :: nsai_drain f it'
             | None => []
             end
    end.

  Fixpoint nsi_drain (fuel : nat) (it : nsi) : list (N * list (N * T)) :=
    match fuel with
    | O => []
    | S f => match nsi_next it with
             | Some ((name, ai), it') => (name, nsai_drain (S (nsai_len ai)) ai) :: nsi_drain f it'
             | None => []
             end
    end.

  Definition as_named (g : game) (pl : bool) (flat : list T) : list (N * list (N * T)) :=
    let it := nsi_new g pl flat in nsi_drain (S (nsi_len it)) it.

  (** the advertised lengths at every prefix: [len()] before each [next()] of the outer
      iterator, and for each item the [len()] before each [next()] of the inner one *)
  Fixpoint nsai_lens (fuel : nat) (it : nsai) : list nat :=
    match fuel with
    | O => []
    | S f => nsai_len it ::
             match nsai_next it with
             | Some (_, it') => nsai_lens f it'
             | None => []
             end
    end.

  Fixpoint nsi_lens (fuel : nat) (it : nsi) : list (nat * list nat) :=
    match fuel with
    | O => []
    | S f => match nsi_next it with
             | Some ((_, ai), it') => (nsi_len it, nsai_lens (S (S (nsai_len ai))) ai) :: nsi_lens f it'
             | None => [(nsi_len it, [])]
             end
    end.

  (** ** Import *)
  Definition prob_ok (p : T) : bool := leb NN (zero NN) p && is_fin NN p.

  (** normalisation of one infoset's (finite, non-negative, not all zero) weights; when their
      sum overflows binary64 they are first divided by their maximum (repair D17, the same
      shape as D14 for chance weights; over the reals this branch is never taken) *)
  Definition finish_row (row : list T) (total : T) : list T :=
    if is_fin NN total then map (fun v => div NN v total) row
    else
      let m := fold_left (fmax NN) row (zero NN) in
      let row' := map (fun v => div NN v m) row in
      let total' := sum row' in
      map (fun v => div NN v total') row'.

  (** finish: normalise every infoset, fail on an all-zero one, then check singles *)
  Fixpoint finish_rows (rows : list (list T)) : sres (list T) :=
    match rows with
    | [] => SOk []
    | row :: rest =>
        let total := sum row in
        if eqb NN total (zero NN) then SErr UninitializedInfoset
        else match finish_rows rest with
             | SOk r => SOk (finish_row row total ++ r)
             | SErr e => SErr e
             end
    end.

  Definition finish (ars : list nat) (dense : list T) (seen : list bool) : sres (list T) :=
    match finish_rows (split_by dense ars) with
    | SErr e => SErr e
    | SOk d => if forallb (fun b => b) seen then SOk d else SErr UninitializedInfoset
    end.

  (** *** [strat_into_box_slow]: linear scans, first match *)
  Fixpoint offsets (ars : list nat) (start : nat) : list nat :=
    match ars with
    | [] => []
    | a :: r => start :: offsets r (start + a)
    end.

  Fixpoint slow_multi (acts : list N) (base : nat) (entries : list (N * T)) (dense : list T)
    : sres (list T) :=
    match entries with
    | [] => SOk dense
    | (a, p) :: r =>
        if prob_ok p then
          match find_index (N.eqb a) acts with
          | Some (ai, _) => slow_multi acts base r (upd dense (base + ai) p)
          | None => SErr InvalidAction
          end
        else SErr InvalidProbability
    end.

  Fixpoint slow_single (act : N) (entries : list (N * T)) (seen : bool) : sres bool :=
    match entries with
    | [] => SOk seen
    | (a, p) :: r =>
        if negb (N.eqb a act) then SErr InvalidAction
        else if prob_ok p then slow_single act r true
        else SErr InvalidProbability
    end.

  Fixpoint slow_loop (infos : list (@pinfo)) (offs : list nat) (singles : list (N * N))
           (strat : list (N * list (N * T))) (dense : list T) (seen : list bool)
    : sres (list T * list bool) :=
    match strat with
    | [] => SOk (dense, seen)
    | (name, entries) :: rest =>
        match find_index (fun pi => N.eqb (pi_name pi) name) infos with
        | Some (ind, pi) =>
            match slow_multi (pi_actions pi) (nth ind offs O) entries dense with
            | SOk dense' => slow_loop infos offs singles rest dense' seen
            | SErr e => SErr e
            end
        | None =>
            match find_index (fun e => N.eqb (fst e) name) singles with
            | Some (ind, (_, act)) =>
                match slow_single act entries (nth ind seen false) with
                | SOk b => slow_loop infos offs singles rest dense (upd seen ind b)
                | SErr e => SErr e
                end
            | None => SErr InvalidInfoset
            end
        end
    end.

  Definition import_slow_player (infos : list (@pinfo)) (singles : list (N * N))
             (strat : list (N * list (N * T))) : sres (list T) :=
    let ars := map (fun pi => length (pi_actions pi)) infos in
    let n := fold_left Nat.add ars O in
    match slow_loop infos (offsets ars O) singles strat
                    (repeat (zero NN) n) (repeat false (length singles)) with
    | SErr e => SErr e
    | SOk (dense, seen) => finish ars dense seen
    end.

  (** *** [strat_into_box]: hash maps. A [HashMap] is modelled as an association
      list in which the most recent insertion of a key shadows older ones. *)
  Definition amap (V : Type) := list (N * V).
  Definition ains {V} (k : N) (v : V) (m : amap V) : amap V := (k, v) :: m.
  Fixpoint aget {V} (k : N) (m : amap V) : option V :=
    match m with
    | [] => None
    | (k', v) :: r => if N.eqb k k' then Some v else aget k r
    end.

  (** [inds]: infoset -> (action -> dense index); [num_inds] runs over all actions *)
  Fixpoint build_actions (acts : list N) (next : nat) (m : amap nat) : amap nat * nat :=
    match acts with
    | [] => (m, next)
    | a :: r => build_actions r (S next) (ains a next m)
    end.

  Fixpoint build_inds (infos : list (@pinfo)) (next : nat) (m : amap (amap nat))
    : amap (amap nat) * nat :=
    match infos with
    | [] => (m, next)
    | pi :: r =>
        let (am, next') := build_actions (pi_actions pi) next [] in
        build_inds r next' (ains (pi_name pi) am m)
    end.

  (** [singles]: infoset -> (action, seen) *)
  Definition build_singles (raw : list (N * N)) : amap (N * bool) :=
    fold_left (fun m e => ains (fst e) (snd e, false) m) raw [].

  Fixpoint fast_multi (am : amap nat) (entries : list (N * T)) (dense : list T)
    : sres (list T) :=
    match entries with
    | [] => SOk dense
    | (a, p) :: r =>
        if prob_ok p then
          match aget a am with
          | Some ind => fast_multi am r (upd dense ind p)
          | None => SErr InvalidAction
          end
        else SErr InvalidProbability
    end.

  Fixpoint fast_loop (inds : amap (amap nat)) (strat : list (N * list (N * T)))
           (dense : list T) (singles : amap (N * bool)) : sres (list T * amap (N * bool)) :=
    match strat with
    | [] => SOk (dense, singles)
    | (name, entries) :: rest =>
        match aget name inds with
        | Some am =>
            match fast_multi am entries dense with
            | SOk dense' => fast_loop inds rest dense' singles
            | SErr e => SErr e
            end
        | None =>
            match aget name singles with
            | Some (act, seen) =>
                match slow_single act entries seen with
                | SOk b => fast_loop inds rest dense (ains name (act, b) singles)
                | SErr e => SErr e
                end
            | None => SErr InvalidInfoset
            end
        end
    end.

  (** [singles.into_values().all(seen)]: every *key* with its current binding *)
  Fixpoint amap_keys_seen (keys : list N) (m : amap (N * bool)) : list bool :=
    match keys with
    | [] => []
    | k :: r => match aget k m with
                | Some (_, b) => b
                | None => false
                end :: amap_keys_seen r m
    end.

  Definition import_fast_player (infos : list (@pinfo)) (singles : list (N * N))
             (strat : list (N * list (N * T))) : sres (list T) :=
    let ars := map (fun pi => length (pi_actions pi)) infos in
    let (inds, n) := build_inds infos O [] in
    match fast_loop inds strat (repeat (zero NN) n) (build_singles singles) with
    | SErr e => SErr e
    | SOk (dense, sm) => finish ars dense (amap_keys_seen (map fst singles) sm)
    end.

  Definition import2 (f : list (@pinfo) -> list (N * N) -> list (N * list (N * T)) -> sres (list T))
             (g : game) (x : list (N * list (N * T)) * list (N * list (N * T)))
    : sres (list T * list T) :=
    match f (g_infos1 g) (g_singles1 g) (fst x) with
    | SErr e => SErr e
    | SOk a => match f (g_infos2 g) (g_singles2 g) (snd x) with
               | SErr e => SErr e
               | SOk b => SOk (a, b)
               end
    end.

  Definition import_fast := import2 import_fast_player.
  Definition import_slow := import2 import_slow_player.
End Strat.
