(** * DistProofs: [Strategies::distance] (property C19), at the real-number instance.

    The model ([Strat.distance_player]) sums [|l_i - r_i|^p] over the flat vector of a
    player, and divides by [2 * #infosets] (zero for a player without infosets).
    Here: the sum as a recursive real sum, zero / symmetry / sign, the bound by 1 for
    [p >= 1] on valid profiles, its sharpness, and its failure for every [0 < p < 1]. *)
From Coq Require Import Reals List Lra Lia Bool Arith NArith.
From Cfr.theories Require Import Num RInst Tree Strat Valid.
Import ListNotations.
Open Scope R_scope.

Local Ltac vrow := split; [repeat (apply Forall_cons; [lra|]); apply Forall_nil | cbn [Rsum]; lra].
Local Ltac vflat := split; [reflexivity|]; cbn [split_by firstn skipn];
  repeat (apply Forall_cons; [vrow|]); apply Forall_nil.

(* [exp], [ln] also name projections of [Num]: fix them to the real functions here *)
Local Notation exp := Rtrigo_def.exp.
Local Notation ln := Rpower.ln.

(** ** [Rpowf] *)
Lemma Rpowf_nonneg (x p : R) : 0 <= Rpowf x p.
Proof.
  unfold Rpowf. destruct (Req_EM_T p 0); [lra|].
  destruct (Rlt_dec 0 x); [|lra]. unfold Rpower. left; apply exp_pos.
Qed.

Lemma Rpowf_0 (p : R) : p <> 0 -> Rpowf 0 p = 0.
Proof.
  intros Hp. unfold Rpowf. destruct (Req_EM_T p 0); [contradiction|].
  destruct (Rlt_dec 0 0); [lra|reflexivity].
Qed.

Lemma Rpowf_pos (x p : R) : 0 < x -> 0 < Rpowf x p.
Proof.
  intros Hx. unfold Rpowf. destruct (Req_EM_T p 0); [lra|].
  destruct (Rlt_dec 0 x); [|lra]. unfold Rpower. apply exp_pos.
Qed.

Lemma Rpowf_1_l (p : R) : Rpowf 1 p = 1.
Proof.
  unfold Rpowf. destruct (Req_EM_T p 0); [reflexivity|].
  destruct (Rlt_dec 0 1); [|lra]. unfold Rpower. rewrite ln_1, Rmult_0_r. apply exp_0.
Qed.

Lemma exp_le_mono (a b : R) : a <= b -> exp a <= exp b.
Proof. intros [H| ->]; [left; now apply exp_increasing|right; reflexivity]. Qed.

Lemma ln_nonpos (x : R) : 0 < x -> x <= 1 -> ln x <= 0.
Proof.
  intros H0 [H1|H1].
  - rewrite <- ln_1. left. now apply ln_increasing.
  - subst x. rewrite ln_1. lra.
Qed.

(** the key inequality of the range: on [0,1], a power [p >= 1] only decreases *)
Lemma Rpowf_le_base (x p : R) : 0 <= x <= 1 -> 1 <= p -> Rpowf x p <= x.
Proof.
  intros [H0 H1] Hp. unfold Rpowf. destruct (Req_EM_T p 0); [lra|].
  destruct (Rlt_dec 0 x) as [Hx|Hx]; [|lra].
  unfold Rpower. rewrite <- (exp_ln x Hx) at 2. apply exp_le_mono.
  pose proof (ln_nonpos x Hx H1). nra.
Qed.

(** ... and a power [0 < p < 1] strictly increases, strictly inside [(0,1)] *)
Lemma Rpowf_gt_base (x p : R) : 0 < x < 1 -> 0 < p < 1 -> x < Rpowf x p.
Proof.
  intros [H0 H1] [Hp0 Hp1]. unfold Rpowf. destruct (Req_EM_T p 0); [lra|].
  destruct (Rlt_dec 0 x) as [Hx|Hx]; [|lra].
  unfold Rpower. rewrite <- (exp_ln x Hx) at 1. apply exp_increasing.
  assert (ln x < 0) by (rewrite <- ln_1; now apply ln_increasing). nra.
Qed.

(** ** The sum of the model as a recursive sum *)
Definition dterm (p : R) (lr : R * R) : R := Rpowf (Rabs (fst lr - snd lr)) p.

Definition Rdsum (p : R) (l r : list R) : R := Rsum (map (dterm p) (combine l r)).

Lemma fold_left_add_map {A} (f : A -> R) (xs : list A) (a : R) :
  fold_left (fun d x => d + f x) xs a = a + Rsum (map f xs).
Proof.
  revert a; induction xs as [|x xs IH]; intros a; cbn [fold_left map Rsum]; [lra|].
  rewrite IH; lra.
Qed.

Lemma dist_sum_Rdsum (p : R) (l r : list R) : @dist_sum RNum p l r = Rdsum p l r.
Proof.
  unfold dist_sum, Rdsum. cbn [add sub absv pow zero RNum T].
  rewrite (fold_left_add_map (dterm p)). lra.
Qed.

Lemma of_N_nat (n : nat) : of_N RNum (N.of_nat n) = INR n.
Proof. cbn [of_N RNum]. now rewrite Nnat.Nat2N.id. Qed.

Lemma distance_player_S (p : R) (n : nat) (l r : list R) :
  @distance_player RNum p (S n) l r = Rdsum p l r / (2 * INR (S n)).
Proof.
  unfold distance_player. rewrite dist_sum_Rdsum, of_N_nat.
  unfold two. cbn [add mul div one RNum]. replace (1 + 1) with 2 by lra. reflexivity.
Qed.

Lemma two_n_pos (n : nat) : 0 < 2 * INR (S n).
Proof. pose proof (pos_INR n). rewrite S_INR. lra. Qed.

Lemma Rdsum_nil_l p r : Rdsum p [] r = 0.
Proof. reflexivity. Qed.
Lemma Rdsum_nil_r p l : Rdsum p l [] = 0.
Proof. unfold Rdsum. destruct l; reflexivity. Qed.
Lemma Rdsum_cons p x l y r :
  Rdsum p (x :: l) (y :: r) = Rpowf (Rabs (x - y)) p + Rdsum p l r.
Proof. reflexivity. Qed.

Lemma Rdsum_nonneg p l r : 0 <= Rdsum p l r.
Proof.
  unfold Rdsum. apply Rsum_nonneg. apply Forall_forall. intros y Hy.
  apply in_map_iff in Hy as (lr & <- & _). apply Rpowf_nonneg.
Qed.

(** ** 1. Zero on equal arguments *)
Lemma Rdsum_refl p l : p <> 0 -> Rdsum p l l = 0.
Proof.
  intros Hp. induction l as [|x l IH]; [reflexivity|].
  rewrite Rdsum_cons, IH. replace (x - x) with 0 by lra. rewrite Rabs_R0, Rpowf_0 by assumption. lra.
Qed.

Lemma distance_player_refl (p : R) (n : nat) (l : list R) :
  0 < p -> @distance_player RNum p n l l = 0.
Proof.
  intros Hp. destruct n as [|n]; [reflexivity|].
  rewrite distance_player_S, Rdsum_refl by lra. unfold Rdiv. lra.
Qed.

Lemma distance_refl (g : @game RNum) (p : R) (a : list R * list R) :
  0 < p -> @distance RNum g p a a = Some (0, 0).
Proof.
  intros Hp. unfold distance. cbn [ltb zero RNum].
  destruct (Rltb 0 p) eqn:E; [|apply Rltb_false in E; lra].
  now rewrite !distance_player_refl.
Qed.

(** ** 2. Symmetry *)
Lemma Rdsum_sym p l r : Rdsum p l r = Rdsum p r l.
Proof.
  revert r; induction l as [|x l IH]; intros r.
  - now rewrite Rdsum_nil_l, Rdsum_nil_r.
  - destruct r as [|y r]; [now rewrite Rdsum_nil_l, Rdsum_nil_r|].
    rewrite !Rdsum_cons, IH, (Rabs_minus_sym x y). reflexivity.
Qed.

Lemma distance_player_sym (p : R) (n : nat) (l r : list R) :
  @distance_player RNum p n l r = @distance_player RNum p n r l.
Proof.
  destruct n as [|n]; [reflexivity|]. now rewrite !distance_player_S, Rdsum_sym.
Qed.

Lemma distance_sym (g : @game RNum) (p : R) (a b : list R * list R) :
  @distance RNum g p a b = @distance RNum g p b a.
Proof.
  unfold distance. destruct (ltb RNum (zero RNum) p); [|reflexivity].
  now rewrite (distance_player_sym p _ (fst a)), (distance_player_sym p _ (snd a)).
Qed.

(** ** 3. Sign *)
Lemma distance_player_nonneg (p : R) (n : nat) (l r : list R) :
  0 <= @distance_player RNum p n l r.
Proof.
  destruct n as [|n]; [cbn; lra|]. rewrite distance_player_S.
  pose proof (Rdsum_nonneg p l r). pose proof (two_n_pos n).
  apply Rmult_le_pos; [assumption|]. left. now apply Rinv_0_lt_compat.
Qed.

Lemma Rdsum_pos p (l r : list R) : length l = length r -> l <> r -> 0 < Rdsum p l r.
Proof.
  revert r; induction l as [|x l IH]; intros [|y r] Hlen Hne; try discriminate.
  - now contradiction Hne.
  - rewrite Rdsum_cons. pose proof (Rpowf_nonneg (Rabs (x - y)) p).
    destruct (Req_EM_T x y) as [->|Hxy].
    + assert (0 < Rdsum p l r); [|lra].
      apply IH; [now injection Hlen|]. intros ->; now apply Hne.
    + pose proof (Rdsum_nonneg p l r).
      assert (0 < Rpowf (Rabs (x - y)) p); [|lra].
      apply Rpowf_pos, Rabs_pos_lt. lra.
Qed.

Lemma distance_player_pos (p : R) (n : nat) (l r : list R) :
  length l = length r -> (n > 0)%nat -> l <> r -> 0 < @distance_player RNum p n l r.
Proof.
  intros Hlen Hn Hne. destruct n as [|n]; [lia|]. rewrite distance_player_S.
  pose proof (Rdsum_pos p l r Hlen Hne). pose proof (two_n_pos n).
  apply Rmult_lt_0_compat; [assumption|]. now apply Rinv_0_lt_compat.
Qed.

(** conversely a zero distance (with infosets, equal lengths) means equal vectors *)
Lemma distance_player_zero_iff (p : R) (n : nat) (l r : list R) :
  0 < p -> length l = length r -> (n > 0)%nat ->
  (@distance_player RNum p n l r = 0 <-> l = r).
Proof.
  intros Hp Hlen Hn. split.
  - intros H0. destruct (list_eq_dec Req_EM_T l r) as [E|E]; [exact E|].
    pose proof (distance_player_pos p n l r Hlen Hn E). lra.
  - intros ->. now apply distance_player_refl.
Qed.

(** ** 4. Range: at most one for [p >= 1] *)
Lemma Rdsum_split p (a : nat) (l r : list R) :
  Rdsum p l r = Rdsum p (firstn a l) (firstn a r) + Rdsum p (skipn a l) (skipn a r).
Proof.
  revert l r; induction a as [|a IH]; intros l r.
  - cbn [firstn skipn]. rewrite Rdsum_nil_l. lra.
  - destruct l as [|x l]; [cbn [firstn skipn]; rewrite !Rdsum_nil_l; lra|].
    destruct r as [|y r]; [cbn [firstn skipn]; rewrite !Rdsum_nil_r; lra|].
    cbn [firstn skipn]. rewrite !Rdsum_cons, (IH l r). lra.
Qed.

(** one infoset: the p-sum is bounded by the two masses *)
Lemma Rdsum_row_le p (l r : list R) :
  1 <= p ->
  Forall (fun x => 0 <= x) l -> Forall (fun x => 0 <= x) r -> Rsum l <= 1 -> Rsum r <= 1 ->
  Rdsum p l r <= Rsum l + Rsum r.
Proof.
  intros Hp Hl; revert r; induction Hl as [|x l Hx Hl IH]; intros r Hr Sl Sr.
  - rewrite Rdsum_nil_l. pose proof (Rsum_nonneg r Hr). cbn [Rsum]. lra.
  - destruct Hr as [|y r Hy Hr].
    + rewrite Rdsum_nil_r. pose proof (Rsum_nonneg l Hl). cbn [Rsum]. lra.
    + cbn [Rsum] in *. pose proof (Rsum_nonneg l Hl). pose proof (Rsum_nonneg r Hr).
      rewrite Rdsum_cons.
      assert (Rdsum p l r <= Rsum l + Rsum r) by (apply IH; [assumption|lra|lra]).
      assert (Hab : 0 <= Rabs (x - y) <= 1).
      { split; [apply Rabs_pos|]. unfold Rabs. destruct (Rcase_abs (x - y)); lra. }
      assert (Rabs (x - y) <= x + y).
      { unfold Rabs. destruct (Rcase_abs (x - y)); lra. }
      pose proof (Rpowf_le_base _ p Hab Hp). lra.
Qed.

Lemma Rdsum_vrow_le p (l r : list R) : 1 <= p -> VRow l -> VRow r -> Rdsum p l r <= 2.
Proof.
  intros Hp [Hl Sl] [Hr Sr]. pose proof (Rdsum_row_le p l r Hp Hl Hr). lra.
Qed.

(** with the lengths, so that no entries remain after the last infoset *)
Lemma Rdsum_flat_le p ars : 1 <= p ->
  forall l r : list R,
    length l = nsum ars -> length r = nsum ars ->
    Forall VRow (split_by l ars) -> Forall VRow (split_by r ars) ->
    Rdsum p l r <= 2 * INR (length ars).
Proof.
  intros Hp. induction ars as [|a ars IH]; intros l r Ll Lr Hl Hr.
  - destruct l; [|discriminate]. rewrite Rdsum_nil_l. cbn [length INR]. lra.
  - cbn [split_by] in Hl, Hr. inversion Hl as [|? ? Hl1 Hl2]; inversion Hr as [|? ? Hr1 Hr2]; subst.
    cbn [nsum fold_right] in Ll, Lr. fold (nsum ars) in Ll, Lr.
    rewrite (Rdsum_split p a l r).
    pose proof (Rdsum_vrow_le p _ _ Hp Hl1 Hr1).
    assert (Rdsum p (skipn a l) (skipn a r) <= 2 * INR (length ars)).
    { apply IH; try assumption; rewrite skipn_length; lia. }
    change (length (a :: ars)) with (S (length ars)). rewrite S_INR. lra.
Qed.

Lemma distance_player_le_1 (p : R) (ars : list nat) (n : nat) (l r : list R) :
  1 <= p -> VFlat ars l -> VFlat ars r -> n = length ars ->
  @distance_player RNum p n l r <= 1.
Proof.
  intros Hp [Ll Hl] [Lr Hr] ->. destruct (length ars) as [|n] eqn:E; [cbn; lra|].
  rewrite distance_player_S. pose proof (Rdsum_flat_le p ars Hp l r Ll Lr Hl Hr) as H.
  rewrite E in H. pose proof (two_n_pos n).
  apply (Rmult_le_reg_r (2 * INR (S n))); [assumption|].
  unfold Rdiv. rewrite Rmult_assoc, Rinv_l by lra. lra.
Qed.

(** the bound is attained: two different pure strategies in one binary infoset *)
Lemma vrow_10 : VRow [1; 0].
Proof. vrow. Qed.
Lemma vrow_01 : VRow [0; 1].
Proof. vrow. Qed.

Lemma Rabs_1_0 : Rabs (1 - 0) = 1.
Proof. replace (1 - 0) with 1 by lra. apply Rabs_R1. Qed.
Lemma Rabs_0_1 : Rabs (0 - 1) = 1.
Proof. rewrite Rabs_minus_sym. apply Rabs_1_0. Qed.

Lemma distance_player_attains_1 (p : R) :
  VFlat [2%nat] [1; 0] /\ VFlat [2%nat] [0; 1] /\
  @distance_player RNum p 1 [1; 0] [0; 1] = 1.
Proof.
  split; [|split].
  - split; [reflexivity|]. cbn [split_by firstn skipn]. constructor; [apply vrow_10|constructor].
  - split; [reflexivity|]. cbn [split_by firstn skipn]. constructor; [apply vrow_01|constructor].
  - rewrite distance_player_S, !Rdsum_cons, Rdsum_nil_l, Rabs_1_0, Rabs_0_1, !Rpowf_1_l.
    cbn [INR]. change (T RNum) with R. field.
Qed.

(** ** 6. For every [0 < p < 1] the documented range fails with three actions *)
Lemma vflat_100 : VFlat [3%nat] [1; 0; 0].
Proof.
  vflat.
Qed.
Lemma vflat_0hh : VFlat [3%nat] [0; /2; /2].
Proof.
  vflat.
Qed.

Lemma Rabs_0_half : Rabs (0 - /2) = /2.
Proof. rewrite Rabs_minus_sym. replace (/2 - 0) with (/2) by lra. apply Rabs_pos_eq. lra. Qed.

Lemma distance_player_small_p (p : R) :
  0 < p < 1 -> 1 < @distance_player RNum p 1 [1; 0; 0] [0; /2; /2].
Proof.
  intros Hp. rewrite distance_player_S, !Rdsum_cons, Rdsum_nil_l, Rabs_1_0, Rabs_0_half, Rpowf_1_l.
  assert (H : /2 < Rpowf (/2) p) by (apply Rpowf_gt_base; lra).
  cbn [INR]. lra.
Qed.

(** at [p = 1] the same pair is exactly at the bound (so 1 is the threshold exponent) *)
Lemma Rpowf_1_r (x : R) : 0 <= x -> Rpowf x 1 = x.
Proof.
  intros Hx. unfold Rpowf. destruct (Req_EM_T 1 0); [lra|].
  destruct (Rlt_dec 0 x); [now apply Rpower_1|lra].
Qed.

Lemma distance_player_p1_three :
  @distance_player RNum 1 1 [1; 0; 0] [0; /2; /2] = 1.
Proof.
  rewrite distance_player_S, !Rdsum_cons, Rdsum_nil_l, Rabs_1_0, Rabs_0_half, Rpowf_1_l.
  rewrite Rpowf_1_r by lra. cbn [INR]. change (T RNum) with R. field.
Qed.

Lemma distance_player_small_p_exists :
  exists (ars : list nat) (l r : list R) (p : R),
    0 < p < 1 /\ VFlat ars l /\ VFlat ars r /\ 1 < @distance_player RNum p (length ars) l r.
Proof.
  exists [3%nat], [1; 0; 0], [0; /2; /2], (/2).
  split; [lra|]. split; [apply vflat_100|]. split; [apply vflat_0hh|].
  apply distance_player_small_p. lra.
Qed.

(** ** 7. The panic on a non-positive exponent *)
Lemma distance_none_iff (g : @game RNum) (p : R) (a b : list R * list R) :
  @distance RNum g p a b = None <-> ~ 0 < p.
Proof.
  unfold distance. cbn [ltb zero RNum]. destruct (Rltb 0 p) eqn:E.
  - apply Rltb_true in E. split; [discriminate|contradiction].
  - apply Rltb_false in E. split; [intros _; lra|reflexivity].
Qed.

(** ** Whole games *)
Lemma arities_length (g : @game RNum) (pl : bool) :
  length (arities g pl) = length (g_infos g pl).
Proof. unfold arities. apply map_length. Qed.

Lemma distance_game_range (g : @game RNum) (p : R) (a b : list R * list R) :
  1 <= p -> Valid g a -> Valid g b ->
  exists d1 d2, @distance RNum g p a b = Some (d1, d2) /\ 0 <= d1 <= 1 /\ 0 <= d2 <= 1.
Proof.
  intros Hp [Va1 Va2] [Vb1 Vb2]. unfold distance. cbn [ltb zero RNum].
  destruct (Rltb 0 p) eqn:E; [|apply Rltb_false in E; lra].
  eexists; eexists; split; [reflexivity|].
  split; (split; [apply distance_player_nonneg|]).
  - eapply distance_player_le_1; eauto. now rewrite (arities_length g true).
  - eapply distance_player_le_1; eauto. now rewrite (arities_length g false).
Qed.

Lemma vflat_differ_infosets ars (l r : list R) :
  VFlat ars l -> VFlat ars r -> l <> r -> (length ars > 0)%nat /\ length l = length r.
Proof.
  intros [Ll _] [Lr _] Hne. split; [|congruence].
  destruct ars; [|cbn; lia]. destruct l, r; try discriminate. now contradiction Hne.
Qed.

Lemma distance_game_pos (g : @game RNum) (p : R) (a b : list R * list R) :
  0 < p -> Valid g a -> Valid g b ->
  exists d1 d2, @distance RNum g p a b = Some (d1, d2) /\
                (0 < d1 <-> fst a <> fst b) /\ (0 < d2 <-> snd a <> snd b).
Proof.
  intros Hp [Va1 Va2] [Vb1 Vb2]. unfold distance. cbn [ltb zero RNum].
  destruct (Rltb 0 p) eqn:E; [|apply Rltb_false in E; lra].
  eexists; eexists; split; [reflexivity|]. split; split.
  - intros H Heq. change (T RNum) with R in H. rewrite Heq, distance_player_refl in H by assumption. lra.
  - intros Hne. destruct (vflat_differ_infosets _ _ _ Va1 Vb1 Hne) as [Hn Hl].
    rewrite (arities_length g true) in Hn. now apply distance_player_pos.
  - intros H Heq. change (T RNum) with R in H. rewrite Heq, distance_player_refl in H by assumption. lra.
  - intros Hne. destruct (vflat_differ_infosets _ _ _ Va2 Vb2 Hne) as [Hn Hl].
    rewrite (arities_length g false) in Hn. now apply distance_player_pos.
Qed.

(** ** A concrete pair strictly inside the range: two binary infosets, the profiles
    differ (maximally) in the first and agree in the second: distance one half. *)
Lemma vflat_ex_l : VFlat [2%nat; 2%nat] [1; 0; /2; /2].
Proof.
  vflat.
Qed.
Lemma vflat_ex_r : VFlat [2%nat; 2%nat] [0; 1; /2; /2].
Proof.
  vflat.
Qed.

Lemma distance_player_example (p : R) :
  0 < p -> @distance_player RNum p 2 [1; 0; /2; /2] [0; 1; /2; /2] = /2.
Proof.
  intros Hp. rewrite distance_player_S, !Rdsum_cons, Rdsum_nil_l, Rabs_1_0, Rabs_0_1, !Rpowf_1_l.
  replace (/2 - /2) with 0 by lra. rewrite Rabs_R0, Rpowf_0 by lra.
  cbn [INR]. change (T RNum) with R. field.
Qed.
