(** * FInstJ: a second binary64 instance of [Num] whose rounded operations are perturbed by one ulp.

    Used only by the correspondence harness as a *conditioning test of the model itself*
    (DESIGN 4.3): when the model at [FNum] and the implementation disagree on a case, the
    model is evaluated again at [FNumJ]; if its own results move by more than a tenth of the
    comparison tolerance, the case amplifies rounding noise beyond what the comparison can
    absorb (regret matching is discontinuous where a cumulative regret changes sign), and a
    model/implementation difference on it says nothing about the property.  Nothing is proved
    about this instance and no check result is ever taken from it.

    Exact operations stay exact (so structural zeros, [1 * x], [x + 0], [x - x] are kept):
    an addition or subtraction is perturbed only if its TwoSum error term is non-zero, a
    multiplication or division only if neither operand is 0 or +-1 and the result is finite
    and non-zero.  Four instances differ in the direction of the perturbation: by the parity of the
    result's mantissa (two opposite ones), always up, always down; a case is rounding-sensitive
    when any of them moves the model's results. *)
From Coq Require Import Floats ZArith NArith List Uint63 Bool.
From Cfr.theories Require Import Num FInst.
Open Scope float_scope.
Set Warnings "-inexact-float".

Section Jitter.
Context (mode : N).   (* 0 / 1: direction by the parity of the mantissa (opposite for the two); 2: always up; 3: always down *)

Definition jit (x : float) : float :=
  if f_is_fin x then
    if x =? 0 then x
    else
      let (m, _) := Z.frexp (abs x) in
      match mode with
      | 0%N => if Uint63.is_even (normfr_mantissa m) then next_up x else next_down x
      | 1%N => if Uint63.is_even (normfr_mantissa m) then next_down x else next_up x
      | 2%N => next_up x
      | _ => next_down x
      end
  else x.

(** Knuth's TwoSum error term of [s = a + b] (exact in binary64 barring overflow) *)
Definition two_sum_err (a b s : float) : float :=
  let bb := s - a in
  (a - (s - bb)) + (b - bb).

Definition jadd (a b : float) : float :=
  let s := a + b in
  if f_is_fin s then (if two_sum_err a b s =? 0 then s else jit s) else s.
Definition jsub (a b : float) : float := jadd a (- b).

Definition trivial_factor (a : float) : bool := (a =? 0) || (abs a =? 1) || negb (f_is_fin a).

Definition jmul (a b : float) : float :=
  let p := a * b in
  if trivial_factor a || trivial_factor b then p else jit p.
Definition jdiv (a b : float) : float :=
  let q := a / b in
  if trivial_factor a || trivial_factor b || (a =? b) then q else jit q.

Definition FNumJit : Num := {|
  T := float;
  zero := 0; one := 1;
  add := jadd; sub := jsub; mul := jmul; div := jdiv;
  neg := PrimFloat.opp; absv := PrimFloat.abs;
  fmax := f_max; fmin := f_min;
  ltb := PrimFloat.ltb; leb := PrimFloat.leb; eqb := PrimFloat.eqb;
  is_fin := f_is_fin; is_nan := f_is_nan; is_pinf := f_is_pinf; is_ninf := f_is_ninf;
  pinf := infinity;
  exp := fun x => jit (fexp x); ln := fun x => jit (fln x); pow := fun x y => jit (fpow x y);
  of_N := f_of_N
|}.
End Jitter.

Definition FNumJ : Num := FNumJit 0.
Definition FNumK : Num := FNumJit 1.
Definition FNumU : Num := FNumJit 2.
Definition FNumD : Num := FNumJit 3.

Example jit_moves_one_ulp :
  (jit 0 1 =? 1) = false /\ (abs (jit 0 1 - 1) <=? 0x1p-52) = true /\ (jit 0 0 =? 0) = true /\
  (jit 1 1 =? jit 0 1) = false /\ (1 <? jit 2 1) = true /\ (jit 3 1 <? 1) = true.
Proof. vm_compute. repeat split. Qed.
Example exact_ops_stay_exact :
  (jadd 0 1 2 =? 3) = true /\ (jsub 1 0.5 0.5 =? 0) = true /\ (jmul 2 1 0.3 =? 0.3) = true /\
  (jdiv 3 0.3 0.3 =? 1) = true /\ (jadd 0 0x1p-70 1 =? 1) = false.
Proof. vm_compute. repeat split. Qed.
