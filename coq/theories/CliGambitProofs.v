(** * CliGambitProofs: the Gambit reader ([gambit.rs]) — part C of the CLI task
    (properties C15 — utilities of constant-sum files — and C17 — rejection categories).

    Everything is about the real-number instance [RNum]. *)
From Coq Require Import Reals List Lra Lia Bool Arith NArith Sorting.Permutation.
From Cfr.theories Require Import Num RInst Tree GameWF Strat Eval Valid TruncProofs
     Cli CliProofs CliNamesProofs.
Import ListNotations.
Open Scope R_scope.

Local Notation gameR := (@game RNum).
Local Notation nodeR := (@node RNum).
Local Notation gnodeR := (@gnode RNum).
Local Notation enodeR := (@enode RNum).
Local Notation csumR := (@csum RNum).
Local Notation bstR := (@bst RNum).

(** ** C.7  The constant of a constant-sum file *)

(** each player's own payoffs summed along the path, one pair per terminal: the file-level
    reading of the payoffs, independent of the crate *)
Definition own_pairs (root : enodeR) : list (R * R) :=
  terminal_pairs (outcomes_of root) root 0 0.

Lemma half_sum_R (p : R * R) : @half_sum RNum p = (fst p + snd p) / 2.
Proof. change (fst p + (snd p - fst p) / (1 + 1) = (fst p + snd p) / 2). field. Qed.

Lemma scan_step_R (st : option csumR) (p : R * R) :
  @scan_step RNum (Some st) p =
  Some (Some (match st with
              | None => @mkCsum RNum (@half_sum RNum p) (@half_sum RNum p) (fst p) (fst p)
              | Some c => @mkCsum RNum (Rmin (cs_min c) (@half_sum RNum p)) (Rmax (cs_max c) (@half_sum RNum p))
                                 (Rmin (cs_omin c) (fst p)) (Rmax (cs_omax c) (fst p))
              end)).
Proof. reflexivity. Qed.

(** over the reals nothing is non-finite: the scan only fails on a file without terminals *)
Lemma scan_fold_R (pairs : list (R * R)) : forall st,
  exists st', fold_left (@scan_step RNum) pairs (Some st) = Some st' /\
              (st' = None -> st = None /\ pairs = []).
Proof.
  induction pairs as [|p l IH]; intros st; cbn [fold_left].
  - exists st. now split.
  - rewrite scan_step_R. destruct (IH (Some (match st with
              | None => @mkCsum RNum (@half_sum RNum p) (@half_sum RNum p) (fst p) (fst p)
              | Some c => @mkCsum RNum (Rmin (cs_min c) (@half_sum RNum p)) (Rmax (cs_max c) (@half_sum RNum p))
                                 (Rmin (cs_omin c) (fst p)) (Rmax (cs_omax c) (fst p))
              end))) as (st' & H1 & H2).
    exists st'. split; [exact H1|]. intros E. destruct (H2 E) as [C _]. discriminate.
Qed.

Theorem scan_sums_none_iff (pairs : list (R * R)) : @scan_sums RNum pairs = None <-> pairs = [].
Proof.
  unfold scan_sums. destruct (scan_fold_R pairs None) as (st' & H1 & H2). rewrite H1.
  destruct st' as [c|]; split; try discriminate; try reflexivity.
  - intros ->. cbn in H1. discriminate.
  - intros _. now apply H2.
Qed.

Section Constant.
  Context (c : R).

  Definition CInv (st : option csumR) : Prop :=
    match st with
    | None => True
    | Some cs => cs_min cs = c / 2 /\ cs_max cs = c / 2 /\ cs_omin cs <= cs_omax cs
    end.

  Lemma scan_fold_const (pairs : list (R * R)) : forall st,
    (forall p, In p pairs -> fst p + snd p = c) -> CInv st ->
    exists st', fold_left (@scan_step RNum) pairs (Some st) = Some st' /\ CInv st' /\
                (st' = None -> st = None /\ pairs = []).
  Proof.
    induction pairs as [|p l IH]; intros st Hc Hi; cbn [fold_left].
    - exists st. repeat split; auto.
    - rewrite scan_step_R.
      assert (Hp : @half_sum RNum p = c / 2).
      { rewrite half_sum_R, (Hc p (or_introl eq_refl)). reflexivity. }
      rewrite Hp.
      match goal with |- context [fold_left _ l (Some (Some ?x))] => set (cs := x) end.
      assert (Hi' : CInv (Some cs)).
      { unfold cs. destruct st as [c0|]; cbn [CInv cs_min cs_max cs_omin cs_omax].
        - destruct Hi as (H1 & H2 & H3). rewrite H1, H2.
          repeat split.
          + apply Rmin_left; lra.
          + apply Rmax_left; lra.
          + eapply Rle_trans; [apply Rmin_l|]. eapply Rle_trans; [exact H3|apply Rmax_l].
        - repeat split; lra. }
      destruct (IH (Some cs) (fun q Hq => Hc q (or_intror Hq)) Hi') as (st' & H1 & H2 & H3).
      exists st'. split; [exact H1|]. split; [exact H2|].
      intros E. destruct (H3 E) as [C _]. discriminate.
  Qed.

  Theorem scan_sums_constant (pairs : list (R * R)) :
    (forall p, In p pairs -> fst p + snd p = c) -> pairs <> [] ->
    exists cs, @scan_sums RNum pairs = Some cs /\ cs_min cs = c / 2 /\ cs_max cs = c / 2 /\
               not_constant_sum cs = false /\ game_sum cs = c / 2.
  Proof.
    intros Hc Hne. unfold scan_sums.
    destruct (scan_fold_const pairs None Hc I) as (st' & H1 & H2 & H3). rewrite H1.
    destruct st' as [cs|]; [|destruct (H3 eq_refl); contradiction].
    exists cs. destruct H2 as (A & B & C). repeat split; try assumption.
    - change (Rltb (cs_omax cs - cs_omin cs) ((cs_max cs - cs_min cs) * @thousand RNum) = false).
      apply Rltb_false. rewrite A, B. replace (c / 2 - c / 2) with 0 by lra. rewrite Rmult_0_l. lra.
    - change (cs_min cs + (cs_max cs - cs_min cs) / (1 + 1) = c / 2). rewrite A, B. field.
  Qed.

  (** C.7 as stated in the task *)
  Theorem gambit_constant (root : enodeR) :
    (forall p, In p (own_pairs root) -> fst p + snd p = c) -> own_pairs root <> [] ->
    exists cs, @scan_sums RNum (own_pairs root) = Some cs /\
               cs_min cs = c / 2 /\ cs_max cs = c / 2 /\
               not_constant_sum cs = false /\ game_sum cs = c / 2.
  Proof. apply scan_sums_constant. Qed.
End Constant.

(** ** C.8  The raw tree: the subtraction of the constant is a map over the payoffs *)

Fixpoint gmap_payoffs (f : R -> R) (t : gnodeR) : gnodeR :=
  match t with
  | GTerm p => @GTerm RNum (f p)
  | GChance info outs =>
      @GChance RNum info (map (fun pc => (fst pc, gmap_payoffs f (snd pc))) outs)
  | GPlayer pl info acts =>
      @GPlayer RNum pl info (map (fun ac => (fst ac, gmap_payoffs f (snd ac))) acts)
  end.

(** the same on compact games (these two definitions are those of [PayoffEvalProofs]) *)
Fixpoint map_payoffs (f : R -> R) (n : nodeR) : nodeR :=
  match n with
  | Term x => @Term RNum (f x)
  | Chance ci kids => @Chance RNum ci (map (map_payoffs f) kids)
  | Player pl i kids => @Player RNum pl i (map (map_payoffs f) kids)
  end.

Definition game_map_payoffs (f : R -> R) (g : gameR) : gameR :=
  @mkGame RNum (g_chance g) (g_infos1 g) (g_infos2 g) (g_singles1 g) (g_singles2 g)
         (map_payoffs f (g_root g)).

Definition map_res {A B} (f : A -> B) (r : res A) : res B :=
  match r with Ok a => Ok (f a) | Err e => Err e end.

(** *** [joined], constructor by constructor *)
Definition chance_cmp (x y : N * (R * gnodeR)) : bool :=
  N.ltb (fst x) (fst y) || (N.eqb (fst x) (fst y) && Rleb (fst (snd x)) (fst (snd y))).

Section Joined.
  Context (tab : list (N * (R * R))) (n1 n2 : list (N * N)).

  Local Notation jn := (@joined RNum tab n1 n2).

  Lemma joined_ETerm sum oid pay cum :
    jn sum (@ETerm RNum oid pay) cum = @GTerm RNum (cum + fst (@pay_of RNum tab oid) - sum).
  Proof. reflexivity. Qed.

  Lemma joined_EChance sum info (acts : list (N * R * enodeR)) oid pay cum :
    jn sum (@EChance RNum info acts oid pay) cum =
    @GChance RNum (Some info)
      (map snd (sort_by chance_cmp
                  (map (fun e => (fst (fst e),
                                  (snd (fst e), jn sum (snd e) (cum + fst (@pay_of RNum tab oid)))))
                       acts))).
  Proof.
    cbn [joined]. f_equal. f_equal. f_equal.
    induction acts as [|[[a p] c] r IH]; [reflexivity|]. cbn [map fst snd]. now rewrite <- IH.
  Qed.

  Lemma joined_EPlayer sum pl info name (acts : list (N * enodeR)) oid pay cum :
    jn sum (@EPlayer RNum pl info name acts oid pay) cum =
    @GPlayer RNum pl (name_of (if pl then n1 else n2) info)
      (sort_by key_leb
         (map (fun e => (fst e, jn sum (snd e) (cum + fst (@pay_of RNum tab oid)))) acts)).
  Proof.
    cbn [joined]. f_equal.
    unfold key_leb. f_equal.
    induction acts as [|[a c] r IH]; [reflexivity|]. cbn [map fst snd]. now rewrite <- IH.
  Qed.

  (** C.8, first half: at every terminal the cumulative player-one payoff minus [sum] *)
  Theorem gambit_terminal_payoffs sum (root : enodeR) : forall cum,
    jn sum root cum = gmap_payoffs (fun x => x - sum) (jn 0 root cum).
  Proof.
    induction root as [oid pay|info acts oid pay IH|pl info name acts oid pay IH] using enode_ind';
      intros cum.
    - rewrite !joined_ETerm. cbn [gmap_payoffs]. f_equal. lra.
    - rewrite !joined_EChance. cbn [gmap_payoffs]. f_equal.
      set (cum' := cum + fst (@pay_of RNum tab oid)).
      set (h := fun x : N * (R * gnodeR) =>
                  (fst x, (fst (snd x), gmap_payoffs (fun x => x - sum) (snd (snd x))))).
      assert (E : map (fun e : N * R * enodeR => (fst (fst e), (snd (fst e), jn sum (snd e) cum'))) acts
                  = map h (map (fun e : N * R * enodeR =>
                                  (fst (fst e), (snd (fst e), jn 0 (snd e) cum'))) acts)).
      { rewrite map_map. apply map_ext_in. intros e He. unfold h; cbn [fst snd].
        rewrite Forall_forall in IH. now rewrite (IH e He). }
      rewrite E. rewrite (sort_by_map h chance_cmp chance_cmp) by reflexivity.
      rewrite !map_map. apply map_ext. intros x. reflexivity.
    - rewrite !joined_EPlayer. cbn [gmap_payoffs]. f_equal.
      set (cum' := cum + fst (@pay_of RNum tab oid)).
      set (h := fun x : N * gnodeR => (fst x, gmap_payoffs (fun x => x - sum) (snd x))).
      assert (E : map (fun e : N * enodeR => (fst e, jn sum (snd e) cum')) acts
                  = map h (map (fun e : N * enodeR => (fst e, jn 0 (snd e) cum')) acts)).
      { rewrite map_map. apply map_ext_in. intros e He. unfold h; cbn [fst snd].
        rewrite Forall_forall in IH. now rewrite (IH e He). }
      rewrite E. now rewrite (sort_by_map h key_leb key_leb) by reflexivity.
  Qed.
End Joined.

(** *** [from_root] commutes with a map over the payoffs (over the reals every payoff is
    finite, and [init] looks at the payoffs in no other way) *)
Fixpoint gnode_indR (P : gnodeR -> Prop)
         (HT : forall p, P (GTerm p))
         (HC : forall info outs, Forall (fun wc => P (snd wc)) outs -> P (GChance info outs))
         (HP : forall pl info acts, Forall (fun ac => P (snd ac)) acts -> P (GPlayer pl info acts))
         (n : gnodeR) : P n :=
  match n with
  | GTerm p => HT p
  | GChance info outs =>
      HC info outs ((fix go (l : list (R * gnodeR)) : Forall (fun wc => P (snd wc)) l :=
                       match l with
                       | [] => Forall_nil _
                       | wc :: r => Forall_cons wc (gnode_indR P HT HC HP (snd wc)) (go r)
                       end) outs)
  | GPlayer pl info acts =>
      HP pl info acts ((fix go (l : list (N * gnodeR)) : Forall (fun ac => P (snd ac)) l :=
                          match l with
                          | [] => Forall_nil _
                          | ac :: r => Forall_cons ac (gnode_indR P HT HC HP (snd ac)) (go r)
                          end) acts)
  end.

Definition pprev := (option (nat * nat) * option (nat * nat))%type.

(** the two loops of [init], top level, exactly as in [Tree.v] *)
Definition cgoR (prev : pprev) :=
  fix go (outs : list (R * gnodeR)) (s : bstR) (probs : list R) (kids : list nodeR)
    : res (list R * list nodeR * bstR) :=
    match outs with
    | [] => Ok (rev probs, rev kids, s)
    | (p, c) :: r =>
        if Rltb 0 p && true then
          match @init RNum c prev s with
          | Ok (c', s') => go r s' (p :: probs) (c' :: kids)
          | Err e => Err e
          end
        else Err NonPositiveChance
    end.

Definition pgoR (prev : pprev) (pl : bool) (ind : nat) :=
  fix go (acts : list (N * gnodeR)) (ai : nat) (s : bstR) (kids : list nodeR)
    : res (list nodeR * bstR) :=
    match acts with
    | [] => Ok (rev kids, s)
    | (_, c) :: r =>
        match @init RNum c (set_prev prev pl (Some (ind, ai))) s with
        | Ok (c', s') => go r (S ai) s' (c' :: kids)
        | Err e => Err e
        end
    end.

(** what [init] does with the result of the chance loop *)
Definition chance_finish (info : option N) (x : list R * list nodeR * bstR) : res (nodeR * bstR) :=
  let '(probs, kids, s') := x in
  match kids with
  | [] => Err EmptyChance
  | [k] => Ok (k, s')
  | _ =>
      let probs := @normalise RNum probs in
      match info with
      | None =>
          let ind := length (b_chance s') in
          Ok (@Chance RNum ind kids, set_chance s' (b_chance s' ++ [(None, probs)]))
      | Some k =>
          match find_index (opt_key_eqb k) (b_chance s') with
          | Some (ind, (_, old)) =>
              if list_eqb Reqb old probs then Ok (@Chance RNum ind kids, s')
              else Err ProbabilitiesNotEqual
          | None =>
              let ind := length (b_chance s') in
              Ok (@Chance RNum ind kids, set_chance s' (b_chance s' ++ [(Some k, probs)]))
          end
      end
  end.

Lemma init_GTerm p prev s : @init RNum (GTerm p) prev s = Ok (@Term RNum p, s).
Proof. reflexivity. Qed.

Lemma init_GChance info outs prev s :
  @init RNum (GChance info outs) prev s =
  match cgoR prev outs s [] [] with
  | Err e => Err e
  | Ok x => chance_finish info x
  end.
Proof. reflexivity. Qed.

(** the lookup / creation of the infoset of a decision node with at least two actions *)
Definition found_info (pl : bool) (info : N) (actions : list N) (prev : pprev) (s : bstR)
  : res (nat * bstR) :=
  match find_index (fun pi => N.eqb (pi_name pi) info) (b_infos s pl) with
  | Some (ind, pi) =>
      if negb (list_eqb N.eqb (pi_actions pi) actions) then Err ActionsNotEqual
      else if negb (prev_eqb (pi_prev pi) (get_prev prev pl)) then Err ImperfectRecall
      else Ok (ind, s)
  | None =>
      if nodupb actions then
        Ok (length (b_infos s pl),
            set_infos s pl (b_infos s pl ++ [mkPinfo info actions (get_prev prev pl)]))
      else Err ActionsNotUnique
  end.

Lemma init_GPlayer pl info acts prev s :
  @init RNum (GPlayer pl info acts) prev s =
  match acts with
  | [] => Err EmptyPlayer
  | [(a, c)] =>
      if existsb (fun pi => N.eqb (pi_name pi) info) (b_infos s pl)
      then Err ActionsNotEqual
      else
        match find_index (fun e => N.eqb (fst e) info) (b_singles s pl) with
        | Some (_, (_, a')) =>
            if N.eqb a' a then init c prev s else Err ActionsNotEqual
        | None => init c prev (set_singles s pl (b_singles s pl ++ [(info, a)]))
        end
  | _ =>
      if existsb (fun e => N.eqb (fst e) info) (b_singles s pl)
      then Err ActionsNotEqual
      else
        match found_info pl info (map fst acts) prev s with
        | Err e => Err e
        | Ok (ind, s0) =>
            match pgoR prev pl ind acts O s0 [] with
            | Err e => Err e
            | Ok (kids, s') => Ok (@Player RNum pl ind kids, s')
            end
        end
  end.
Proof.
  destruct acts as [|[a c] [|ac2 r]]; reflexivity.
Qed.

Lemma cgoR_nil prev s probs kids : cgoR prev [] s probs kids = Ok (rev probs, rev kids, s).
Proof. reflexivity. Qed.

Lemma cgoR_cons prev p c r s probs kids :
  cgoR prev ((p, c) :: r) s probs kids =
  if Rltb 0 p && true then
    match @init RNum c prev s with
    | Ok (c', s') => cgoR prev r s' (p :: probs) (c' :: kids)
    | Err e => Err e
    end
  else Err NonPositiveChance.
Proof. reflexivity. Qed.

Lemma pgoR_nil prev pl ind ai s kids : pgoR prev pl ind [] ai s kids = Ok (rev kids, s).
Proof. reflexivity. Qed.

Lemma pgoR_cons prev pl ind a c r ai s kids :
  pgoR prev pl ind ((a, c) :: r) ai s kids =
  match @init RNum c (set_prev prev pl (Some (ind, ai))) s with
  | Ok (c', s') => pgoR prev pl ind r (S ai) s' (c' :: kids)
  | Err e => Err e
  end.
Proof. reflexivity. Qed.

Definition gmc (f : R -> R) (pc : R * gnodeR) : R * gnodeR := (fst pc, gmap_payoffs f (snd pc)).
Definition gmp (f : R -> R) (ac : N * gnodeR) : N * gnodeR := (fst ac, gmap_payoffs f (snd ac)).

Lemma gmap_GChance f info outs :
  gmap_payoffs f (GChance info outs) = @GChance RNum info (map (gmc f) outs).
Proof. reflexivity. Qed.

Lemma gmap_GPlayer f pl info acts :
  gmap_payoffs f (GPlayer pl info acts) = @GPlayer RNum pl info (map (gmp f) acts).
Proof. reflexivity. Qed.

Section InitMap.
  Context (f : R -> R).
  Local Notation mp := (map_payoffs f).
  Local Notation gm := (gmap_payoffs f).

  Definition init_map_stmt (n : gnodeR) : Prop :=
    forall prev s,
      @init RNum (gm n) prev s =
      map_res (fun x : nodeR * bstR => (mp (fst x), snd x)) (@init RNum n prev s).

  Lemma cgoR_map prev (outs : list (R * gnodeR)) :
    Forall (fun wc => init_map_stmt (snd wc)) outs ->
    forall s probs kids,
      cgoR prev (map (gmc f) outs) s probs (map mp kids) =
      map_res (fun x : list R * list nodeR * bstR => (fst (fst x), map mp (snd (fst x)), snd x))
              (cgoR prev outs s probs kids).
  Proof.
    induction 1 as [|[p c] r Hc Hr IH]; intros s probs kids.
    - cbn [map]. rewrite !cgoR_nil. cbn [map_res fst snd]. now rewrite map_rev.
    - cbn [map]. unfold gmc at 1. cbn [fst snd]. rewrite !cgoR_cons. destruct (Rltb 0 p && true); [|reflexivity].
      cbn [snd] in Hc. rewrite (Hc prev s).
      destruct (@init RNum c prev s) as [[c' s']|e]; cbn [map_res fst snd]; [|reflexivity].
      change (mp c' :: map mp kids) with (map mp (c' :: kids)). apply IH.
  Qed.

  Lemma pgoR_map prev pl ind (acts : list (N * gnodeR)) :
    Forall (fun ac => init_map_stmt (snd ac)) acts ->
    forall ai s kids,
      pgoR prev pl ind (map (gmp f) acts) ai s (map mp kids) =
      map_res (fun x : list nodeR * bstR => (map mp (fst x), snd x))
              (pgoR prev pl ind acts ai s kids).
  Proof.
    induction 1 as [|[a c] r Hc Hr IH]; intros ai s kids.
    - cbn [map]. rewrite !pgoR_nil. cbn [map_res fst snd]. now rewrite map_rev.
    - cbn [map]. unfold gmp at 1. cbn [fst snd]. rewrite !pgoR_cons.
      cbn [snd] in Hc. rewrite (Hc (set_prev prev pl (Some (ind, ai))) s).
      destruct (@init RNum c (set_prev prev pl (Some (ind, ai))) s) as [[c' s']|e];
        cbn [map_res fst snd]; [|reflexivity].
      change (mp c' :: map mp kids) with (map mp (c' :: kids)). apply IH.
  Qed.

  Lemma chance_finish_map info probs kids s' :
    chance_finish info (probs, map mp kids, s') =
    map_res (fun x : nodeR * bstR => (mp (fst x), snd x)) (chance_finish info (probs, kids, s')).
  Proof.
    destruct kids as [|k [|k2 r]]; cbn [chance_finish map map_res fst snd]; try reflexivity.
    destruct info as [k0|]; [|reflexivity].
    destruct (find_index (opt_key_eqb k0) (b_chance s')) as [[ind [o old]]|]; [|reflexivity].
    destruct (list_eqb Reqb old (@normalise RNum probs)); reflexivity.
  Qed.

  Lemma init_map (n : gnodeR) : init_map_stmt n.
  Proof.
    induction n as [p|info outs IH|pl info acts IH] using gnode_indR; intros prev s.
    - reflexivity.
    - rewrite gmap_GChance, !init_GChance.
      pose proof (cgoR_map prev outs IH s [] []) as H. cbn [map] in H. rewrite H.
      destruct (cgoR prev outs s [] []) as [[[probs kids] s']|e]; cbn [map_res fst snd]; [|reflexivity].
      apply chance_finish_map.
    - rewrite gmap_GPlayer, !init_GPlayer.
      destruct acts as [|[a c] [|[a2 c2] r]].
      + reflexivity.
      + cbn [map]. unfold gmp. cbn [fst snd]. inversion IH as [|? ? Hc _]; subst. cbn [snd] in Hc.
        destruct (existsb _ (b_infos s pl)); [reflexivity|].
        destruct (find_index _ (b_singles s pl)) as [[i [k a']]|].
        * destruct (N.eqb a' a); [apply Hc|reflexivity].
        * apply Hc.
      + set (acts := (a, c) :: (a2, c2) :: r) in *.
        assert (Hm : map fst (map (gmp f) acts) = map fst acts).
        { rewrite map_map. reflexivity. }
        change (map (gmp f) ((a, c) :: (a2, c2) :: r))
          with ((a, gm c) :: (a2, gm c2) :: map (gmp f) r).
        cbv iota.
        change ((a, gm c) :: (a2, gm c2) :: map (gmp f) r) with (map (gmp f) acts).
        rewrite Hm.
        destruct (existsb _ (b_singles s pl)); [reflexivity|].
        destruct (found_info pl info (map fst acts) prev s) as [[ind s0]|e]; [|reflexivity].
        pose proof (pgoR_map prev pl ind acts IH O s0 []) as H. cbn [map] in H. rewrite H.
        destruct (pgoR prev pl ind acts 0 s0 []) as [[kids s']|e]; reflexivity.
  Qed.

  (** C.8, second half *)
  Theorem from_root_gmap (t : gnodeR) :
    @from_root RNum (gm t) = map_res (game_map_payoffs f) (@from_root RNum t).
  Proof.
    unfold from_root. rewrite (init_map t).
    destruct (@init RNum t (None, None) b_empty) as [[root s]|e]; reflexivity.
  Qed.
End InitMap.

(** ** C.10  Rejection categories of the Gambit route (property C17) *)

Lemma thousand_R : @thousand RNum = 1000.
Proof.
  unfold thousand. cbn [of_N RNum]. rewrite INR_IZR_INZ, N_nat_Z. reflexivity.
Qed.

Lemma not_constant_sum_iff (cs : csumR) :
  not_constant_sum cs = true <-> (cs_max cs - cs_min cs) * 1000 > cs_omax cs - cs_omin cs.
Proof.
  change (not_constant_sum cs) with
    (Rltb (cs_omax cs - cs_omin cs) ((cs_max cs - cs_min cs) * @thousand RNum)).
  rewrite thousand_R, Rltb_true. unfold Rgt. reflexivity.
Qed.

Lemma not_constant_sum_false_iff (cs : csumR) :
  not_constant_sum cs = false <-> (cs_max cs - cs_min cs) * 1000 <= cs_omax cs - cs_omin cs.
Proof.
  change (not_constant_sum cs) with
    (Rltb (cs_omax cs - cs_omin cs) ((cs_max cs - cs_min cs) * @thousand RNum)).
  rewrite thousand_R, Rltb_false. reflexivity.
Qed.

Section Categories.
  Context (numname : N -> N) (root : enodeR).

  Definition names_fine : Prop :=
    exists n1 n2, final_names numname true root = Some n1 /\ final_names numname false root = Some n2.

  (** the whole of [gambit_tree], outcome by outcome (total and disjoint by construction:
      it is a function into [loaded]) *)
  Theorem gambit_tree_cases :
    match @gambit_tree RNum numname root with
    | Rejected RDuplicateInfosets =>
        final_names numname true root = None \/ final_names numname false root = None
    | Rejected RNonFinite => names_fine /\ own_pairs root = []
    | Rejected RNotConstantSum =>
        names_fine /\
        exists cs, @scan_sums RNum (own_pairs root) = Some cs /\
                   (cs_max cs - cs_min cs) * 1000 > cs_omax cs - cs_omin cs
    | Rejected (RGame _) => False
    | Loaded (t, s) =>
        exists n1 n2 cs,
          final_names numname true root = Some n1 /\ final_names numname false root = Some n2 /\
          @scan_sums RNum (own_pairs root) = Some cs /\
          (cs_max cs - cs_min cs) * 1000 <= cs_omax cs - cs_omin cs /\
          s = game_sum cs /\
          t = @joined RNum (outcomes_of root) n1 n2 s root 0
    end.
  Proof.
    unfold gambit_tree, names_fine. fold (own_pairs root).
    destruct (final_names numname true root) as [n1|]; [|now left].
    destruct (final_names numname false root) as [n2|]; [|now right].
    cbv beta iota zeta.
    change (@terminal_pairs RNum (outcomes_of root) root (zero RNum) (zero RNum)) with (own_pairs root).
    destruct (@scan_sums RNum (own_pairs root)) as [cs|] eqn:E.
    - destruct (not_constant_sum cs) eqn:Ec; cbv beta iota.
      + split; [now exists n1, n2|]. exists cs. split; [reflexivity|]. now apply not_constant_sum_iff.
      + exists n1, n2, cs. repeat split. now apply not_constant_sum_false_iff.
    - split; [now exists n1, n2|]. now apply scan_sums_none_iff.
  Qed.

  Theorem gambit_not_constant_sum_iff :
    @gambit_tree RNum numname root = Rejected RNotConstantSum <->
    names_fine /\
    exists cs, @scan_sums RNum (own_pairs root) = Some cs /\
               (cs_max cs - cs_min cs) * 1000 > cs_omax cs - cs_omin cs.
  Proof.
    pose proof gambit_tree_cases as H. split.
    - intros E. now rewrite E in H.
    - intros ((n1 & n2 & H1 & H2) & cs & Hs & Hc).
      destruct (@gambit_tree RNum numname root) as [[t s]|[| | |e]].
      + destruct H as (m1 & m2 & cs' & _ & _ & Hs' & Hc' & _). rewrite Hs in Hs'. inversion Hs'; subst. lra.
      + destruct H as [H|H]; congruence.
      + destruct H as [_ H]. rewrite H in Hs. cbn in Hs. discriminate.
      + reflexivity.
      + contradiction.
  Qed.

  (** the duplicate-infosets category, declaratively: for some player, an unnamed infoset
      whose number (as a string) is a name given to another infoset of that player, or
      two infoset numbers with the same final name *)
  Theorem gambit_duplicate_iff :
    @gambit_tree RNum numname root = Rejected RDuplicateInfosets <->
    exists me, numeric_clash numname me root \/ same_name_clash numname me root.
  Proof.
    pose proof gambit_tree_cases as H. split.
    - intros E. rewrite E in H. destruct H as [H|H]; apply final_names_none_iff in H; eauto.
    - intros (me & Hme). apply final_names_none_iff in Hme.
      destruct (@gambit_tree RNum numname root) as [[t s]|[| | |e]].
      + destruct H as (m1 & m2 & cs' & H1 & H2 & _). destruct me; congruence.
      + reflexivity.
      + destruct H as [(m1 & m2 & H1 & H2) _]. destruct me; congruence.
      + destruct H as [(m1 & m2 & H1 & H2) _]. destruct me; congruence.
      + contradiction.
  Qed.

  (** over the reals the non-finite category only catches a file without any terminal
      (which the parser cannot produce) *)
  Theorem gambit_nonfinite_iff :
    @gambit_tree RNum numname root = Rejected RNonFinite <-> names_fine /\ own_pairs root = [].
  Proof.
    pose proof gambit_tree_cases as H. split.
    - intros E. now rewrite E in H.
    - intros ((n1 & n2 & H1 & H2) & Hs).
      destruct (@gambit_tree RNum numname root) as [[t s]|[| | |e]].
      + destruct H as (m1 & m2 & cs' & _ & _ & Hs' & _). rewrite Hs in Hs'. cbn in Hs'. discriminate.
      + destruct H as [H|H]; congruence.
      + reflexivity.
      + destruct H as (_ & cs & Hs' & _). rewrite Hs in Hs'. cbn in Hs'. discriminate.
      + contradiction.
  Qed.

  Theorem gambit_tree_never_game_error e : @gambit_tree RNum numname root <> Rejected (RGame e).
  Proof. intros E. pose proof gambit_tree_cases as H. now rewrite E in H. Qed.

  (** [gambit_load]: the tree stage, then [Game::from_root] *)
  Theorem gambit_load_game_error_iff e :
    @gambit_load RNum numname root = Rejected (RGame e) <->
    exists t s, @gambit_tree RNum numname root = Loaded (t, s) /\ @from_root RNum t = Err e.
  Proof.
    unfold gambit_load, load_tree. pose proof gambit_tree_never_game_error as Hn.
    destruct (@gambit_tree RNum numname root) as [[t s]|r].
    - destruct (@from_root RNum t) as [g|e'] eqn:E.
      + split; [discriminate|]. intros (t' & s' & H1 & H2). inversion H1; subst. congruence.
      + split.
        * intros H; inversion H; subst. now exists t, s.
        * intros (t' & s' & H1 & H2). inversion H1; subst. congruence.
    - split.
      + intros H; inversion H; subst. exfalso. now apply (Hn e).
      + intros (t' & s' & H1 & _). discriminate.
  Qed.

  Theorem gambit_load_loaded_iff g s :
    @gambit_load RNum numname root = Loaded (g, s) <->
    exists t, @gambit_tree RNum numname root = Loaded (t, s) /\ @from_root RNum t = Ok g.
  Proof.
    unfold gambit_load, load_tree.
    destruct (@gambit_tree RNum numname root) as [[t s']|r].
    - destruct (@from_root RNum t) as [g'|e'] eqn:E.
      + split.
        * intros H; inversion H; subst. now exists t.
        * intros (t' & H1 & H2). inversion H1; subst. congruence.
      + split; [discriminate|]. intros (t' & H1 & H2). inversion H1; subst. congruence.
    - split; [discriminate|]. intros (t' & H1 & _). discriminate.
  Qed.

  (** the three file-level categories pass through unchanged *)
  Theorem gambit_load_rejected_iff r :
    (forall e, r <> RGame e) ->
    (@gambit_load RNum numname root = Rejected r <-> @gambit_tree RNum numname root = Rejected r).
  Proof.
    intros Hr. unfold gambit_load, load_tree.
    destruct (@gambit_tree RNum numname root) as [[t s']|r'].
    - destruct (@from_root RNum t) as [g'|e']; split; try discriminate.
      intros H; inversion H; subst. exfalso. now apply (Hr e').
    - split; intros H; inversion H; reflexivity.
  Qed.

  (** totality and disjointness: exactly one of "a game and its constant" / "a rejection
      category" — a rejected file produces no result *)
  Theorem gambit_load_total :
    (exists g s, @gambit_load RNum numname root = Loaded (g, s)) \/
    (exists r, @gambit_load RNum numname root = Rejected r).
  Proof.
    destruct (@gambit_load RNum numname root) as [[g s]|r]; [left; now exists g, s|right; now exists r].
  Qed.

  Theorem gambit_load_rejected_no_result r :
    @gambit_load RNum numname root = Rejected r ->
    forall g s, @gambit_load RNum numname root <> Loaded (g, s).
  Proof. intros H g s C. rewrite H in C. discriminate. Qed.

  (** every rejection of the Gambit route is one of the documented categories, each with
      its cause *)
  Theorem gambit_load_rejected_cases r :
    @gambit_load RNum numname root = Rejected r ->
    (r = RDuplicateInfosets /\
     exists me, numeric_clash numname me root \/ same_name_clash numname me root) \/
    (r = RNotConstantSum /\ names_fine /\
     exists cs, @scan_sums RNum (own_pairs root) = Some cs /\
                (cs_max cs - cs_min cs) * 1000 > cs_omax cs - cs_omin cs) \/
    (r = RNonFinite /\ names_fine /\ own_pairs root = []) \/
    (exists e t s, r = RGame e /\ @gambit_tree RNum numname root = Loaded (t, s) /\
                   @from_root RNum t = Err e).
  Proof.
    intros H. destruct r as [| | |e].
    - left. split; [reflexivity|]. apply gambit_duplicate_iff.
      apply gambit_load_rejected_iff in H; [assumption|discriminate].
    - right; right; left. split; [reflexivity|]. apply gambit_nonfinite_iff.
      apply gambit_load_rejected_iff in H; [assumption|discriminate].
    - right; left. split; [reflexivity|]. apply gambit_not_constant_sum_iff.
      apply gambit_load_rejected_iff in H; [assumption|discriminate].
    - right; right; right. apply gambit_load_game_error_iff in H as (t & s & H1 & H2).
      now exists e, t, s.
  Qed.
End Categories.

(** *** a parsed file has terminals: the non-finite category is impossible over the reals *)
Lemma terminal_pairs_ETerm (tab : list (N * (R * R))) oid pay c1 c2 :
  @terminal_pairs RNum tab (@ETerm RNum oid pay) c1 c2 =
  [(c1 + fst (@pay_of RNum tab oid), c2 + snd (@pay_of RNum tab oid))].
Proof. reflexivity. Qed.

Lemma terminal_pairs_EChance (tab : list (N * (R * R))) info (acts : list (N * R * enodeR)) oid pay c1 c2 :
  @terminal_pairs RNum tab (@EChance RNum info acts oid pay) c1 c2 =
  flat_map (fun e => @terminal_pairs RNum tab (snd e) (c1 + fst (@pay_of RNum tab oid))
                                     (c2 + snd (@pay_of RNum tab oid))) acts.
Proof.
  cbn [terminal_pairs].
  induction acts as [|[[a p] c] r IH]; [reflexivity|]. cbn [flat_map snd]. now rewrite <- IH.
Qed.

Lemma terminal_pairs_EPlayer (tab : list (N * (R * R))) pl info name (acts : list (N * enodeR)) oid pay c1 c2 :
  @terminal_pairs RNum tab (@EPlayer RNum pl info name acts oid pay) c1 c2 =
  flat_map (fun e => @terminal_pairs RNum tab (snd e) (c1 + fst (@pay_of RNum tab oid))
                                     (c2 + snd (@pay_of RNum tab oid))) acts.
Proof.
  cbn [terminal_pairs].
  induction acts as [|[a c] r IH]; [reflexivity|]. cbn [flat_map snd]. now rewrite <- IH.
Qed.

(** every chance and decision node has at least one action (the grammar of the format) *)
Fixpoint eproper (n : enodeR) : Prop :=
  match n with
  | ETerm _ _ => True
  | EChance _ acts _ _ =>
      acts <> [] /\
      (fix go (l : list (N * R * enodeR)) : Prop :=
         match l with [] => True | (_, _, c) :: r => eproper c /\ go r end) acts
  | EPlayer _ _ _ acts _ _ =>
      acts <> [] /\
      (fix go (l : list (N * enodeR)) : Prop :=
         match l with [] => True | (_, c) :: r => eproper c /\ go r end) acts
  end.

Lemma terminal_pairs_nonempty (tab : list (N * (R * R))) (n : enodeR) :
  eproper n -> forall c1 c2, @terminal_pairs RNum tab n c1 c2 <> [].
Proof.
  induction n as [oid pay|info acts oid pay IH|pl info name acts oid pay IH] using enode_ind';
    intros Hp c1 c2.
  - rewrite terminal_pairs_ETerm. discriminate.
  - rewrite terminal_pairs_EChance. destruct Hp as [Hne Hk].
    destruct acts as [|[[a p] c] r]; [contradiction|]. destruct Hk as [Hc _].
    inversion IH as [|? ? IHc _]; subst. cbn [flat_map snd] in *.
    intros C. apply app_eq_nil in C as [C _]. revert C. now apply IHc.
  - rewrite terminal_pairs_EPlayer. destruct Hp as [Hne Hk].
    destruct acts as [|[a c] r]; [contradiction|]. destruct Hk as [Hc _].
    inversion IH as [|? ? IHc _]; subst. cbn [flat_map snd] in *.
    intros C. apply app_eq_nil in C as [C _]. revert C. now apply IHc.
Qed.

Theorem own_pairs_nonempty (root : enodeR) : eproper root -> own_pairs root <> [].
Proof. intros H. now apply terminal_pairs_nonempty. Qed.

Theorem gambit_never_nonfinite numname (root : enodeR) :
  eproper root -> @gambit_tree RNum numname root <> Rejected RNonFinite.
Proof.
  intros Hp E. apply gambit_nonfinite_iff in E as [_ E]. revert E. now apply own_pairs_nonempty.
Qed.

(** a constant-sum file is not rejected for its payoffs *)
Theorem gambit_constant_accepted numname (root : enodeR) c :
  (forall p, In p (own_pairs root) -> fst p + snd p = c) -> own_pairs root <> [] ->
  names_fine numname root ->
  exists n1 n2,
    final_names numname true root = Some n1 /\ final_names numname false root = Some n2 /\
    @gambit_tree RNum numname root =
    Loaded (@joined RNum (outcomes_of root) n1 n2 (c / 2) root 0, c / 2).
Proof.
  intros Hc Hne (n1 & n2 & H1 & H2). exists n1, n2. split; [assumption|]. split; [assumption|].
  destruct (gambit_constant c root Hc Hne) as (cs & Hs & _ & _ & Hn & Hg).
  unfold gambit_tree. rewrite H1, H2. cbv beta iota zeta.
  change (@terminal_pairs RNum (outcomes_of root) root (zero RNum) (zero RNum)) with (own_pairs root).
  rewrite Hs. cbv beta iota. rewrite Hn, Hg. reflexivity.
Qed.

(** ** C.9  The printed utilities of a constant-sum Gambit file (property C15) *)

Lemma map_payoffs_ext (f f' : R -> R) (n : nodeR) :
  (forall x, f x = f' x) -> map_payoffs f n = map_payoffs f' n.
Proof.
  intros H. induction n as [x|ci kids IH|pl i kids IH] using node_ind'; cbn [map_payoffs].
  - now rewrite H.
  - f_equal. rewrite Forall_forall in IH. now apply map_ext_in.
  - f_equal. rewrite Forall_forall in IH. now apply map_ext_in.
Qed.

Lemma game_map_payoffs_ext (f f' : R -> R) (g : gameR) :
  (forall x, f x = f' x) -> game_map_payoffs f g = game_map_payoffs f' g.
Proof. intros H. unfold game_map_payoffs. f_equal. now apply map_payoffs_ext. Qed.

Lemma map_payoffs_id (n : nodeR) : map_payoffs (fun x => x) n = n.
Proof.
  induction n as [x|ci kids IH|pl i kids IH] using node_ind'; cbn [map_payoffs].
  - reflexivity.
  - f_equal. rewrite <- (map_id kids) at 2. rewrite Forall_forall in IH. now apply map_ext_in.
  - f_equal. rewrite <- (map_id kids) at 2. rewrite Forall_forall in IH. now apply map_ext_in.
Qed.

(** the tables, hence the shape of profiles, do not depend on the payoffs *)
Lemma arities_game_map_payoffs f (g : gameR) pl : arities (game_map_payoffs f g) pl = arities g pl.
Proof. destruct pl; reflexivity. Qed.

Lemma Valid_game_map_payoffs f (g : gameR) prof : Valid (game_map_payoffs f g) prof <-> Valid g prof.
Proof. unfold Valid. rewrite !arities_game_map_payoffs. reflexivity. Qed.

(** the utility the library reports for a profile: the expected payoff *)
Lemma si_util_info (g : gameR) prof :
  si_util (@info RNum g prof) =
  @expected RNum g (split_by (fst prof) (arities g true)) (split_by (snd prof) (arities g false)).
Proof. reflexivity. Qed.

Section Utilities.
  (** the evaluation lemma of the payoff-shift property (C12): proved as
      [PayoffEvalProofs.info_shift_util]; [CliUtilityProofs.v] instantiates this section
      with it *)
  Context (shift_util :
             forall (k : R) (g : gameR) (prof : list R * list R),
               ChanceOK g -> shaped g (g_root g) -> Valid g prof ->
               si_util (@info RNum (game_map_payoffs (fun x => x + k) g) prof) =
               si_util (@info RNum g prof) + k).

  (** a file that loads, loads to the game of player one's own payoffs shifted by the
      constant *)
  Theorem gambit_load_shifted numname (root : enodeR) (g : gameR) (sum : R) :
    @gambit_load RNum numname root = Loaded (g, sum) ->
    exists n1 n2 g1,
      final_names numname true root = Some n1 /\ final_names numname false root = Some n2 /\
      @from_root RNum (@joined RNum (outcomes_of root) n1 n2 0 root 0) = Ok g1 /\
      g = game_map_payoffs (fun x => x - sum) g1 /\ own_pairs root <> [].
  Proof.
    intros Hl. apply gambit_load_loaded_iff in Hl as (t & Ht & Hg).
    pose proof (gambit_tree_cases numname root) as Hc. rewrite Ht in Hc.
    destruct Hc as (n1 & n2 & cs & H1 & H2 & Hs & _ & _ & ->).
    exists n1, n2.
    rewrite gambit_terminal_payoffs, from_root_gmap in Hg.
    destruct (@from_root RNum (@joined RNum (outcomes_of root) n1 n2 0 root 0)) as [g1|e];
      cbn [map_res] in Hg; [|discriminate].
    exists g1. inversion Hg; subst. repeat split; try assumption.
    intros C. apply scan_sums_none_iff in C. congruence.
  Qed.

  Theorem cli_gambit_utilities numname (root : enodeR) (c : R) (g : gameR) (sum : R) :
    (forall p, In p (own_pairs root) -> fst p + snd p = c) ->
    @gambit_load RNum numname root = Loaded (g, sum) ->
    exists n1 n2 g1,
      final_names numname true root = Some n1 /\ final_names numname false root = Some n2 /\
      @from_root RNum (@joined RNum (outcomes_of root) n1 n2 0 root 0) = Ok g1 /\
      sum = c / 2 /\ g = game_map_payoffs (fun x => x - c / 2) g1 /\
      (ChanceOK g1 -> shaped g1 (g_root g1) ->
       forall clip prof, Valid g prof ->
         let out := @cli_choose RNum g sum clip prof in
         let e := @expected RNum g1 (split_by (fst (o_prof out)) (arities g1 true))
                            (split_by (snd (o_prof out)) (arities g1 false)) in
         Valid g1 (o_prof out) /\
         o_util1 out = e /\ o_util2 out = c - e /\ o_util1 out + o_util2 out = c).
  Proof.
    intros Hc Hl.
    assert (Hsum : sum = c / 2).
    { pose proof Hl as Hl'. apply gambit_load_loaded_iff in Hl' as (t & Ht & _).
      pose proof (gambit_tree_cases numname root) as Hcs. rewrite Ht in Hcs.
      destruct Hcs as (n1 & n2 & cs & _ & _ & Hs & _ & -> & _).
      assert (Hne : own_pairs root <> []).
      { intros C. apply scan_sums_none_iff in C. congruence. }
      destruct (gambit_constant c root Hc Hne) as (cs' & Hs' & _ & _ & _ & Hg).
      rewrite Hs in Hs'. inversion Hs'; subst. exact Hg. }
    destruct (gambit_load_shifted numname root g sum Hl) as (n1 & n2 & g1 & H1 & H2 & H3 & H4 & _).
    exists n1, n2, g1. subst sum. do 5 (split; [assumption || reflexivity|]).
    intros HC Hsh clip prof HV out e.
    assert (HVout : Valid g (o_prof out)) by (apply cli_printed_valid; exact HV).
    assert (HV1 : Valid g1 (o_prof out)).
    { rewrite H4 in HVout. now apply Valid_game_map_payoffs in HVout. }
    destruct (cli_output_is_info_of_printed g (c / 2) clip prof) as (_ & _ & _ & U1 & U2).
    fold out in U1, U2.
    assert (E : si_util (@info RNum g (o_prof out)) = e - c / 2).
    { rewrite H4.
      rewrite (game_map_payoffs_ext (fun x => x - c / 2) (fun x => x + - (c / 2)) g1)
        by (intros x; lra).
      rewrite (shift_util (- (c / 2)) g1 (o_prof out) HC Hsh HV1). rewrite si_util_info.
      fold e. lra. }
    rewrite E in U1, U2. split; [exact HV1|]. split; [lra|]. split; lra.
  Qed.
End Utilities.

(** ** The terminals of the raw tree are the terminals of the file: player one's own
    cumulative payoff minus the constant (in the order that sorting the actions gives) *)
Fixpoint gterminals (t : gnodeR) : list R :=
  match t with
  | GTerm p => [p]
  | GChance _ outs => flat_map (fun pc => gterminals (snd pc)) outs
  | GPlayer _ _ acts => flat_map (fun ac => gterminals (snd ac)) acts
  end.

Lemma flat_map_map' {A B C} (f : B -> list C) (g : A -> B) l :
  flat_map f (map g l) = flat_map (fun x => f (g x)) l.
Proof. induction l as [|x l IH]; cbn [map flat_map]; [reflexivity|now rewrite IH]. Qed.

Lemma map_flat_map' {A B C} (f : B -> C) (g : A -> list B) l :
  map f (flat_map g l) = flat_map (fun x => map f (g x)) l.
Proof. induction l as [|x l IH]; cbn [map flat_map]; [reflexivity|now rewrite map_app, IH]. Qed.

Lemma Permutation_flat_map_pointwise {A B} (F G : A -> list B) l :
  Forall (fun e => Permutation (F e) (G e)) l -> Permutation (flat_map F l) (flat_map G l).
Proof.
  induction 1 as [|x l Hx Hl IH]; cbn [flat_map]; [constructor|]. now apply Permutation_app.
Qed.

Theorem joined_terminals tab n1 n2 sum (root : enodeR) : forall cum c2,
  Permutation (gterminals (@joined RNum tab n1 n2 sum root cum))
              (map (fun p => fst p - sum) (@terminal_pairs RNum tab root cum c2)).
Proof.
  induction root as [oid pay|info acts oid pay IH|pl info name acts oid pay IH] using enode_ind';
    intros cum c2.
  - rewrite joined_ETerm, terminal_pairs_ETerm. cbn [gterminals map fst]. reflexivity.
  - rewrite joined_EChance, terminal_pairs_EChance. cbn [gterminals].
    rewrite map_flat_map'.
    etransitivity.
    { apply Permutation_flat_map. apply Permutation_map. apply sort_by_perm. }
    rewrite !flat_map_map'. cbn [snd].
    apply Permutation_flat_map_pointwise. eapply Forall_impl; [|exact IH].
    intros e He. apply He.
  - rewrite joined_EPlayer, terminal_pairs_EPlayer. cbn [gterminals].
    rewrite map_flat_map'.
    etransitivity.
    { apply Permutation_flat_map. apply sort_by_perm. }
    rewrite !flat_map_map'. cbn [snd].
    apply Permutation_flat_map_pointwise. eapply Forall_impl; [|exact IH].
    intros e He. apply He.
Qed.

(** the tree without the subtraction carries player one's own payoffs *)
Corollary joined_terminals_own n1 n2 (root : enodeR) :
  Permutation (gterminals (@joined RNum (outcomes_of root) n1 n2 0 root 0))
              (map fst (own_pairs root)).
Proof.
  etransitivity; [apply (joined_terminals _ n1 n2 0 root 0 0)|].
  unfold own_pairs. erewrite map_ext; [reflexivity|]. intros p. cbv beta. apply Rminus_0_r.
Qed.
