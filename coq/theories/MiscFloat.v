(** * MiscFloat: the categorical sampler ([Multinomial::sample]) and the CLI's clip
    decision ([cli_choose]) at binary64 itself (instance [FNum]).

    A. [@categorical FNum]: range, the exact characterisation through the chain of float
       residuals [r_0 = u], [r_(j+1) = r_j - p_j] (float subtraction), its reading in the
       reals for finite non-negative weights, the link with the real-number sampler of C10
       when the subtractions are exact (e.g. weights and variate on the grid 2^-52), and
       monotonicity in the variate.
    B. [@cli_choose FNum]: the printed profile is the solved one or its truncation, chosen
       by the strict float comparison of the two regrets; either way all its entries are
       finite binary64 numbers in [0,1], for every clip threshold (NaN, infinities included).
    C. Examples by [vm_compute].

    Built on [TruncFloat] / [DistFloat] (Flocq reading of the primitive floats). *)
From Coq Require Import List ZArith NArith Reals Floats Bool Lia Lra.
From Flocq Require Import Core IEEE754.BinarySingleNaN IEEE754.PrimFloat.
From Cfr.theories Require Import Num FInst RInst Tree Strat Eval Solve Cli
     TruncFloat DistFloat StratIterProofs SolveValidProofs.
Import ListNotations.

Local Existing Instance Flocq.IEEE754.PrimFloat.Hprec.
Local Existing Instance Flocq.IEEE754.PrimFloat.Hmax.

Local Open Scope R_scope.
Local Notation float := PrimFloat.float.
Local Notation Hp := Flocq.IEEE754.PrimFloat.Hprec.
Local Notation Hm := Flocq.IEEE754.PrimFloat.Hmax.

Local Instance fexp_valid'' : Valid_exp (SpecFloat.fexp prec emax) := fexp_correct prec emax Hp.

(** ** A.0  Generic facts about the loop (every [Num] instance) *)
Section Generic.
  Context {NN : Num}.
  Local Notation T := (T NN).

  Lemma cat_loop_range_gen (init : list T) (rem : T) (res : nat) :
    (res <= cat_loop init rem res <= res + length init)%nat.
  Proof.
    revert rem res; induction init as [|v r IH]; intros rem res; cbn [cat_loop length]; [lia|].
    destruct (ltb NN v rem); [|lia]. specialize (IH (sub NN rem v) (S res)). lia.
  Qed.

  Theorem categorical_range_gen (probs : list T) (u : T) :
    probs <> [] -> (categorical probs u < length probs)%nat.
  Proof.
    intros Hne. unfold categorical.
    pose proof (cat_loop_range_gen (removelast probs) u 0) as H.
    assert (Hl : length (removelast probs) = (length probs - 1)%nat).
    { rewrite removelast_firstn_len, firstn_length. lia. }
    rewrite Hl in H.
    destruct probs as [|x l]; [congruence|]. cbn [length] in *. lia.
  Qed.

  (** the chain of residuals: [resid probs u j = ((u - p_0) - p_1) - ... - p_(j-1)] *)
  Definition resid (probs : list T) (u : T) (j : nat) : T :=
    fold_left (sub NN) (firstn j probs) u.

  Lemma resid_0 (probs : list T) (u : T) : resid probs u 0 = u.
  Proof. reflexivity. Qed.

  Lemma resid_cons (v : T) (l : list T) (u : T) (j : nat) :
    resid (v :: l) u (S j) = resid l (sub NN u v) j.
  Proof. reflexivity. Qed.

  Lemma resid_S (probs : list T) (u : T) (j : nat) (d : T) :
    (j < length probs)%nat ->
    resid probs u (S j) = sub NN (resid probs u j) (nth j probs d).
  Proof.
    revert u j; induction probs as [|v l IH]; intros u j Hj; cbn [length] in Hj; [lia|].
    destruct j as [|j].
    - reflexivity.
    - rewrite resid_cons, (resid_cons v l u j). cbn [nth]. apply IH. lia.
  Qed.

  (** the loop stops at the first position where [p_j < r_j] fails *)
  Lemma cat_loop_spec_gen (d : T) (init : list T) (r : T) (res k : nat) :
    cat_loop init r res = (res + k)%nat <->
    (k <= length init)%nat /\
    (forall j, (j < k)%nat -> ltb NN (nth j init d) (resid init r j) = true) /\
    (k = length init \/ ltb NN (nth k init d) (resid init r k) = false).
  Proof.
    revert r res k; induction init as [|v l IH]; intros r res k.
    - cbn [cat_loop length]. split.
      + intros H. assert (k = 0)%nat by lia. subst k.
        split; [lia|]. split; [intros j Hj; lia | left; reflexivity].
      + intros [H _]. lia.
    - cbn [cat_loop length]. destruct (ltb NN v r) eqn:E.
      + destruct k as [|k].
        * split.
          -- intros H. pose proof (cat_loop_range_gen l (sub NN r v) (S res)). lia.
          -- intros [_ [_ [H|H]]]; [discriminate H|].
             cbn [nth] in H. rewrite resid_0 in H. congruence.
        * replace (res + S k)%nat with (S res + k)%nat by lia.
          rewrite (IH (sub NN r v) (S res) k). split.
          -- intros [H1 [H2 H3]]. split; [lia|]. split.
             ++ intros [|j] Hj; [exact E|]. cbn [nth]. rewrite resid_cons. apply H2. lia.
             ++ destruct H3 as [H3|H3]; [left; lia|right]. cbn [nth]. rewrite resid_cons. exact H3.
          -- intros [H1 [H2 H3]]. split; [lia|]. split.
             ++ intros j Hj. specialize (H2 (S j) ltac:(lia)). cbn [nth] in H2.
                rewrite resid_cons in H2. exact H2.
             ++ destruct H3 as [H3|H3]; [left; lia|right]. cbn [nth] in H3.
                rewrite resid_cons in H3. exact H3.
      + split.
        * intros H. assert (k = 0)%nat by lia. subst k.
          split; [lia|]. split; [intros j Hj; lia|right]. exact E.
        * intros [_ [H2 _]]. destruct k as [|k]; [lia|].
          specialize (H2 0%nat ltac:(lia)). cbn [nth] in H2. rewrite resid_0 in H2. congruence.
  Qed.

  Lemma firstn_removelast {A} (l : list A) (j : nat) :
    (j < length l)%nat -> firstn j (removelast l) = firstn j l.
  Proof.
    revert j; induction l as [|x l IH]; intros j Hj; cbn [length] in Hj; [lia|].
    destruct j as [|j]; [reflexivity|].
    destruct l as [|y l]; [cbn [length] in Hj; lia|].
    change (removelast (x :: y :: l)) with (x :: removelast (y :: l)).
    cbn [firstn]. f_equal. apply IH. cbn [length] in *. lia.
  Qed.

  Lemma nth_removelast {A} (l : list A) (j : nat) (d : A) :
    (S j < length l)%nat -> nth j (removelast l) d = nth j l d.
  Proof.
    revert j; induction l as [|x l IH]; intros j Hj; cbn [length] in Hj; [lia|].
    destruct l as [|y l]; [cbn [length] in Hj; lia|].
    change (removelast (x :: y :: l)) with (x :: removelast (y :: l)).
    destruct j as [|j]; [reflexivity|]. cbn [nth]. apply IH. cbn [length] in *. lia.
  Qed.

  Lemma removelast_length' {A} (l : list A) : length (removelast l) = (length l - 1)%nat.
  Proof. rewrite removelast_firstn_len, firstn_length. lia. Qed.

  (** A.2, generic form: the result is the first [k < n-1] at which the strict test
      [p_k < r_k] fails, or [n-1] *)
  Theorem categorical_resid_spec_gen (d : T) (probs : list T) (u : T) (k : nat) :
    probs <> [] ->
    (categorical probs u = k <->
     (k <= length probs - 1)%nat /\
     (forall j, (j < k)%nat -> ltb NN (nth j probs d) (resid probs u j) = true) /\
     (k = (length probs - 1)%nat \/ ltb NN (nth k probs d) (resid probs u k) = false)).
  Proof.
    intros Hne. unfold categorical.
    assert (Hlen : (0 < length probs)%nat).
    { destruct probs; [congruence|cbn [length]; lia]. }
    rewrite (cat_loop_spec_gen d (removelast probs) u 0 k). rewrite removelast_length'.
    unfold resid. split.
    - intros [H1 [H2 H3]]. split; [exact H1|]. split.
      + intros j Hj. specialize (H2 j Hj).
        rewrite nth_removelast, firstn_removelast in H2 by lia. exact H2.
      + destruct H3 as [H3|H3]; [left; exact H3|].
        destruct (Nat.eq_dec k (length probs - 1)) as [Hk|Hk]; [left; exact Hk|right].
        rewrite nth_removelast, firstn_removelast in H3 by lia. exact H3.
    - intros [H1 [H2 H3]]. split; [exact H1|]. split.
      + intros j Hj. rewrite nth_removelast, firstn_removelast by lia. apply H2. exact Hj.
      + destruct H3 as [H3|H3]; [left; exact H3|].
        destruct (Nat.eq_dec k (length probs - 1)) as [Hk|Hk]; [left; exact Hk|right].
        rewrite nth_removelast, firstn_removelast by lia. exact H3.
  Qed.
End Generic.

(** ** A.1  The sampler at [FNum]: range *)

Lemma cat_loop_FNum_cons : forall (v : float) (l : list float) (r : float) (res : nat),
  @cat_loop FNum (v :: l) r res =
  if PrimFloat.ltb v r then @cat_loop FNum l (PrimFloat.sub r v) (S res) else res.
Proof. reflexivity. Qed.

Lemma cat_loop_float_range : forall (init : list float) (r : float) (res : nat),
  (res <= @cat_loop FNum init r res <= res + @length float init)%nat.
Proof. intros init r res. apply (@cat_loop_range_gen FNum). Qed.

Theorem categorical_float_range : forall (probs : list float) (u : float),
  probs <> [] -> (@categorical FNum probs u < length probs)%nat.
Proof. intros probs u. apply (@categorical_range_gen FNum). Qed.

(** ** A.2  The exact characterisation through the float residuals *)

(** [fresid probs u j] is [r_j]: [r_0 = u], [r_(j+1) = r_j - p_j] in binary64 *)
Definition fresid (probs : list float) (u : float) (j : nat) : float :=
  fold_left PrimFloat.sub (firstn j probs) u.

Lemma fresid_is_resid : forall probs u j, fresid probs u j = @resid FNum probs u j.
Proof. reflexivity. Qed.

Lemma fresid_0 : forall probs u, fresid probs u 0 = u.
Proof. reflexivity. Qed.

Lemma fresid_S : forall probs u j, (j < length probs)%nat ->
  fresid probs u (S j) = PrimFloat.sub (fresid probs u j) (nth j probs 0%float).
Proof. intros probs u j Hj. apply (@resid_S FNum probs u j 0%float Hj). Qed.

(** For all inputs whatsoever (NaN, infinities, negative weights): the index is the first
    [k < n-1] at which the strict float test [p_k <? r_k] is false, or [n-1].  (For finite
    operands "[p_k <? r_k] is false" reads [r_k <= p_k]; a NaN residual also stops the walk.) *)
Theorem categorical_float_resid_spec : forall (probs : list float) (u : float) (k : nat),
  probs <> [] ->
  (@categorical FNum probs u = k <->
   (k <= length probs - 1)%nat /\
   (forall j, (j < k)%nat -> PrimFloat.ltb (nth j probs 0%float) (fresid probs u j) = true) /\
   (k = (length probs - 1)%nat \/
    PrimFloat.ltb (nth k probs 0%float) (fresid probs u k) = false)).
Proof. intros probs u k. apply (@categorical_resid_spec_gen FNum 0%float). Qed.

(** a finite non-negative binary64 number (a weight; it need not be at most 1) *)
Definition fnn (x : float) : Prop := Ffin x /\ 0 <= FR x.

Lemma fin01_fnn : forall x, fin01 x -> fnn x.
Proof. intros x [H1 [H2 _]]. split; assumption. Qed.

Lemma Forall_fin01_fnn : forall l, Forall fin01 l -> Forall fnn l.
Proof. intros l H. eapply Forall_impl; [|exact H]. exact fin01_fnn. Qed.

Lemma FR_lt_emax : forall x, Rabs (FR x) < bpow radix2 emax.
Proof. intros x. unfold FR. apply abs_B2R_lt_emax. Qed.

Lemma rnd_mono : forall x y, x <= y -> rnd x <= rnd y.
Proof. intros x y H. unfold rnd. apply round_le; auto with typeclass_instances. Qed.

(** one step of the walk: subtracting a smaller non-negative weight from a finite residual
    is a correctly rounded subtraction that stays in [0, r] *)
Lemma sub_step : forall r p : float,
  Ffin r -> fnn p -> FR p <= FR r ->
  Ffin (r - p)%float /\ FR (r - p)%float = rnd (FR r - FR p) /\
  0 <= FR (r - p)%float <= FR r.
Proof.
  intros r p Hr [Hpf Hp0] Hpr.
  assert (H0 : 0 <= rnd (FR r - FR p)) by (apply rnd_ge_fmt; [apply fmt_0 | lra]).
  assert (H1 : rnd (FR r - FR p) <= FR r) by (apply rnd_le_fmt; [apply fmt_FR | lra]).
  assert (Hb : Rabs (rnd (FR r - FR p)) < bpow radix2 emax).
  { rewrite Rabs_pos_eq by exact H0. apply Rle_lt_trans with (1 := H1).
    apply Rle_lt_trans with (2 := FR_lt_emax r). apply Rle_abs. }
  destruct (sub_ok r p Hr Hpf Hb) as [Hf He].
  split; [exact Hf|]. split; [exact He|]. rewrite He. split; assumption.
Qed.

Lemma ltb_true_fin : forall x y, Ffin x -> Ffin y ->
  (PrimFloat.ltb x y = true <-> FR x < FR y).
Proof.
  intros x y Hx Hy. rewrite (ltb_fin x y Hx Hy).
  destruct (Rlt_bool_spec (FR x) (FR y)) as [H|H]; split; intro H'; try reflexivity;
    try assumption; try discriminate; lra.
Qed.

Lemma ltb_false_fin : forall x y, Ffin x -> Ffin y ->
  (PrimFloat.ltb x y = false <-> FR y <= FR x).
Proof.
  intros x y Hx Hy. rewrite (ltb_fin x y Hx Hy).
  destruct (Rlt_bool_spec (FR x) (FR y)) as [H|H]; split; intro H'; try reflexivity;
    try assumption; try discriminate; lra.
Qed.

(** the loop in the reals, for finite non-negative weights and a finite variate *)
Lemma cat_loop_float_spec : forall (init : list float) (r : float) (res k : nat),
  Forall fnn init -> Ffin r ->
  (@cat_loop FNum init r res = (res + k)%nat <->
   (k <= length init)%nat /\
   (forall j, (j < k)%nat -> FR (nth j init 0%float) < FR (fresid init r j)) /\
   (k = length init \/ FR (fresid init r k) <= FR (nth k init 0%float))).
Proof.
  induction init as [|v l IH]; intros r res k Hl Hr.
  - cbn [cat_loop length]. split.
    + intros H. assert (k = 0)%nat by lia. subst k.
      split; [lia|]. split; [intros j Hj; lia | left; reflexivity].
    + intros [H _]. lia.
  - inversion Hl as [|v' l' Hv Hl']; subst. destruct Hv as [Hvf Hv0].
    rewrite cat_loop_FNum_cons. cbn [length].
    destruct (PrimFloat.ltb v r) eqn:E.
    + apply (ltb_true_fin v r Hvf Hr) in E.
      destruct (sub_step r v Hr (conj Hvf Hv0) ltac:(lra)) as [Hf _].
      destruct k as [|k].
      * split.
        -- intros H. pose proof (@cat_loop_range_gen FNum l (r - v)%float (S res)). lia.
        -- intros [_ [_ [H|H]]]; [discriminate H|].
           cbn [nth] in H. rewrite fresid_0 in H. lra.
      * replace (res + S k)%nat with (S res + k)%nat by lia.
        rewrite (IH (r - v)%float (S res) k Hl' Hf). split.
        -- intros [H1 [H2 H3]]. split; [lia|]. split.
           ++ intros [|j] Hj; [exact E|]. cbn [nth]. apply H2. lia.
           ++ destruct H3 as [H3|H3]; [left; lia|right]. exact H3.
        -- intros [H1 [H2 H3]]. split; [lia|]. split.
           ++ intros j Hj. exact (H2 (S j) ltac:(lia)).
           ++ destruct H3 as [H3|H3]; [left; lia|right]. exact H3.
    + apply (ltb_false_fin v r Hvf Hr) in E. split.
      * intros H. assert (k = 0)%nat by lia. subst k.
        split; [lia|]. split; [intros j Hj; lia|right]. exact E.
      * intros [_ [H2 _]]. destruct k as [|k]; [lia|].
        specialize (H2 0%nat ltac:(lia)). cbn [nth] in H2. rewrite fresid_0 in H2. lra.
Qed.

(** the residuals actually reached are finite, non-negative after the first step, and
    never above the variate: no NaN, no infinity can appear in the walk *)
Lemma cat_loop_float_reached : forall (init : list float) (r : float) (res j : nat),
  Forall fnn init -> Ffin r ->
  (res + j <= @cat_loop FNum init r res)%nat ->
  Ffin (fresid init r j) /\ FR (fresid init r j) <= FR r /\
  ((1 <= j)%nat -> 0 <= FR (fresid init r j)).
Proof.
  induction init as [|v l IH]; intros r res j Hl Hr Hj.
  - cbn [cat_loop] in Hj. assert (j = 0)%nat by lia. subst j. rewrite fresid_0.
    split; [exact Hr|]. split; [lra | lia].
  - destruct j as [|j].
    { rewrite fresid_0. split; [exact Hr|]. split; [lra | lia]. }
    inversion Hl as [|v' l' Hv Hl']; subst. destruct Hv as [Hvf Hv0].
    rewrite cat_loop_FNum_cons in Hj.
    destruct (PrimFloat.ltb v r) eqn:E; [|lia].
    apply (ltb_true_fin v r Hvf Hr) in E.
    destruct (sub_step r v Hr (conj Hvf Hv0) ltac:(lra)) as [Hf [_ [H0 H1]]].
    destruct (IH (r - v)%float (S res) j Hl' Hf ltac:(lia)) as [G1 [G2 G3]].
    change (fresid (v :: l) r (S j)) with (fresid l (r - v)%float j).
    split; [exact G1|]. split; [lra|]. intros _.
    destruct j as [|j]; [rewrite fresid_0; exact H0 | apply G3; lia].
Qed.

Lemma Forall_removelast : forall (A : Type) (P : A -> Prop) (l : list A),
  Forall P l -> Forall P (removelast l).
Proof.
  intros A P l H. rewrite removelast_firstn_len. apply Forall_firstn'. exact H.
Qed.

(** A.2, in the reals: for finite non-negative weights and a finite variate the index is
    the first [k < n-1] with [r_k <= p_k] (values of the float residuals), or [n-1] *)
Theorem categorical_float_real_spec : forall (probs : list float) (u : float) (k : nat),
  probs <> [] -> Forall fnn probs -> Ffin u ->
  (@categorical FNum probs u = k <->
   (k <= length probs - 1)%nat /\
   (forall j, (j < k)%nat -> FR (nth j probs 0%float) < FR (fresid probs u j)) /\
   (k = (length probs - 1)%nat \/ FR (fresid probs u k) <= FR (nth k probs 0%float))).
Proof.
  intros probs u k Hne Hp Hu. unfold categorical.
  assert (Hlen : (0 < length probs)%nat).
  { destruct probs; [congruence|cbn [length]; lia]. }
  rewrite (cat_loop_float_spec (removelast probs) u 0 k (Forall_removelast _ _ _ Hp) Hu).
  rewrite removelast_length'. unfold fresid. split.
  - intros [H1 [H2 H3]]. split; [exact H1|]. split.
    + intros j Hj. specialize (H2 j Hj).
      rewrite nth_removelast, firstn_removelast in H2 by lia. exact H2.
    + destruct H3 as [H3|H3]; [left; exact H3|].
      destruct (Nat.eq_dec k (length probs - 1)) as [Hk|Hk]; [left; exact Hk|right].
      rewrite nth_removelast, firstn_removelast in H3 by lia. exact H3.
  - intros [H1 [H2 H3]]. split; [exact H1|]. split.
    + intros j Hj. rewrite nth_removelast, firstn_removelast by lia. apply H2. exact Hj.
    + destruct H3 as [H3|H3]; [left; exact H3|].
      destruct (Nat.eq_dec k (length probs - 1)) as [Hk|Hk]; [left; exact Hk|right].
      rewrite nth_removelast, firstn_removelast by lia. exact H3.
Qed.

(** every residual up to the returned index is a finite number in [0, u] (from [r_1] on),
    and each is the correctly rounded difference of the previous one *)
Theorem categorical_float_residuals : forall (probs : list float) (u : float) (j : nat),
  probs <> [] -> Forall fnn probs -> Ffin u ->
  (j <= @categorical FNum probs u)%nat ->
  Ffin (fresid probs u j) /\ FR (fresid probs u j) <= FR u /\
  ((1 <= j)%nat -> 0 <= FR (fresid probs u j)) /\
  ((j < @categorical FNum probs u)%nat ->
     FR (fresid probs u (S j)) = rnd (FR (fresid probs u j) - FR (nth j probs 0%float))).
Proof.
  intros probs u j Hne Hp Hu Hj.
  assert (Hlen : (0 < length probs)%nat).
  { destruct probs; [congruence|cbn [length]; lia]. }
  pose proof (categorical_float_range probs u Hne) as Hrange.
  assert (Hreach : forall i, (i <= @categorical FNum probs u)%nat ->
            Ffin (fresid probs u i) /\ FR (fresid probs u i) <= FR u /\
            ((1 <= i)%nat -> 0 <= FR (fresid probs u i))).
  { intros i Hi.
    pose proof (cat_loop_float_reached (removelast probs) u 0 i
                  (Forall_removelast _ _ _ Hp) Hu Hi) as H.
    unfold fresid in H. rewrite firstn_removelast in H by lia. exact H. }
  destruct (Hreach j Hj) as [G1 [G2 G3]].
  split; [exact G1|]. split; [exact G2|]. split; [exact G3|].
  intros Hlt.
  destruct (proj1 (categorical_float_real_spec probs u _ Hne Hp Hu) eq_refl) as [_ [H2 _]].
  specialize (H2 j Hlt).
  rewrite fresid_S by lia.
  assert (Hpj : fnn (nth j probs 0%float)).
  { rewrite Forall_forall in Hp. apply Hp. apply nth_In. lia. }
  destruct (sub_step (fresid probs u j) (nth j probs 0%float) G1 Hpj ltac:(lra)) as [_ [He _]].
  exact He.
Qed.

(** non-finite variates: a NaN stops the walk at once *)
Lemma ltb_nan_r : forall p h : float, PrimFloat.is_nan h = true -> PrimFloat.ltb p h = false.
Proof.
  intros p h Hh. rewrite is_nan_equiv in Hh. rewrite ltb_equiv.
  destruct (Prim2B h) as [s|s| |s m e He]; try discriminate Hh.
  destruct (Prim2B p) as [s'|s'| |s' m' e' He']; reflexivity.
Qed.

Theorem categorical_float_nan : forall (probs : list float) (u : float),
  PrimFloat.is_nan u = true -> @categorical FNum probs u = 0%nat.
Proof.
  intros probs u Hu. unfold categorical.
  match goal with |- context [cat_loop ?x _ _] => destruct x as [|v l] end; [reflexivity|].
  rewrite cat_loop_FNum_cons, (ltb_nan_r v u Hu). reflexivity.
Qed.

(** ** A.3  When no subtraction rounds, the binary64 sampler is the real-number sampler
    of C10 on the values of its arguments, hence reads through the cumulative sums *)

Lemma Rltb_Rlt_bool : forall a b, Rltb a b = Rlt_bool a b.
Proof.
  intros a b. destruct (Rlt_bool_spec a b) as [H|H].
  - apply Rltb_true. exact H.
  - apply Rltb_false. exact H.
Qed.

(** exactness is only needed while the walk goes on: as long as the exact residual
    [u - (p_0 + ... + p_j)] is positive it must be a binary64 number *)
Lemma cat_loop_exact : forall (init : list float) (r : float) (res : nat),
  Forall fnn init -> Ffin r ->
  (forall j, (j < length init)%nat ->
     Rsum (firstn (S j) (map FR init)) < FR r ->
     fmt (FR r - Rsum (firstn (S j) (map FR init)))) ->
  @cat_loop FNum init r res = @cat_loop RNum (map FR init) (FR r) res.
Proof.
  induction init as [|v l IH]; intros r res Hl Hr Hex; [reflexivity|].
  inversion Hl as [|v' l' Hv Hl']; subst. destruct Hv as [Hvf Hv0].
  rewrite cat_loop_FNum_cons. cbn [map cat_loop].
  change (ltb RNum (FR v) (FR r)) with (Rltb (FR v) (FR r)).
  change (sub RNum (FR r) (FR v)) with (FR r - FR v).
  destruct (PrimFloat.ltb v r) eqn:E.
  - apply (ltb_true_fin v r Hvf Hr) in E.
    rewrite (proj2 (Rltb_true _ _) E).
    destruct (sub_step r v Hr (conj Hvf Hv0) ltac:(lra)) as [Hf [He _]].
    assert (Hx : FR (r - v)%float = FR r - FR v).
    { rewrite He. apply rnd_fmt.
      specialize (Hex 0%nat ltac:(cbn [length]; lia)).
      cbn [map firstn Rsum] in Hex. rewrite Rplus_0_r in Hex. apply Hex. exact E. }
    rewrite <- Hx. apply IH; [exact Hl' | exact Hf |].
    intros j Hj Hlt. rewrite Hx in *.
    specialize (Hex (S j) ltac:(cbn [length]; lia)).
    change (firstn (S (S j)) (map FR (v :: l)))
      with (FR v :: firstn (S j) (map FR l)) in Hex.
    cbn [Rsum] in Hex.
    replace (FR r - FR v - Rsum (firstn (S j) (map FR l)))
      with (FR r - (FR v + Rsum (firstn (S j) (map FR l)))) by ring.
    apply Hex. lra.
  - apply (ltb_false_fin v r Hvf Hr) in E.
    rewrite (proj2 (Rltb_false _ _) E). reflexivity.
Qed.

Lemma map_removelast : forall (A B : Type) (f : A -> B) (l : list A),
  map f (removelast l) = removelast (map f l).
Proof.
  intros A B f l. induction l as [|x l IH]; [reflexivity|].
  destruct l as [|y l]; [reflexivity|].
  change (removelast (x :: y :: l)) with (x :: removelast (y :: l)).
  change (map f (x :: y :: l)) with (f x :: f y :: map f l).
  change (removelast (f x :: f y :: map f l)) with (f x :: removelast (f y :: map f l)).
  cbn [map]. f_equal. exact IH.
Qed.

Theorem categorical_float_exact : forall (probs : list float) (u : float),
  probs <> [] -> Forall fnn probs -> Ffin u ->
  (forall j, (S j < length probs)%nat ->
     cumul (map FR probs) (S j) < FR u -> fmt (FR u - cumul (map FR probs) (S j))) ->
  @categorical FNum probs u = @categorical RNum (map FR probs) (FR u).
Proof.
  intros probs u Hne Hp Hu Hex. unfold categorical.
  assert (Hlen : (0 < length probs)%nat).
  { destruct probs; [congruence|cbn [length]; lia]. }
  change (T RNum) with R. rewrite <- map_removelast.
  apply cat_loop_exact; [apply Forall_removelast; exact Hp | exact Hu |].
  intros j Hj. rewrite removelast_length' in Hj.
  rewrite map_removelast, firstn_removelast by (rewrite map_length; lia).
  apply Hex. lia.
Qed.

Lemma Forall_FR_nonneg : forall l, Forall fnn l -> Forall (fun x => 0 <= x) (map FR l).
Proof.
  intros l H. induction H as [|x l [_ Hx] Hl IH]; cbn [map]; constructor; assumption.
Qed.

(** ... and then index [k] is returned exactly when [cum_k < u <= cum_(k+1)] in the reals
    (first interval without lower end, last without upper end, as in C10) *)
Theorem categorical_float_exact_interval : forall (probs : list float) (u : float) (k : nat),
  probs <> [] -> Forall fnn probs -> Ffin u ->
  (forall j, (S j < length probs)%nat ->
     cumul (map FR probs) (S j) < FR u -> fmt (FR u - cumul (map FR probs) (S j))) ->
  (@categorical FNum probs u = k <->
   (k <= length probs - 1)%nat /\
   (k = 0%nat \/ cumul (map FR probs) k < FR u) /\
   (k = (length probs - 1)%nat \/ FR u <= cumul (map FR probs) (S k))).
Proof.
  intros probs u k Hne Hp Hu Hex.
  rewrite (categorical_float_exact probs u Hne Hp Hu Hex).
  assert (Hne' : map FR probs <> []) by (destruct probs; [congruence | discriminate]).
  rewrite (categorical_spec (map FR probs) (FR u) k Hne' (Forall_FR_nonneg probs Hp)).
  rewrite map_length. reflexivity.
Qed.

(** A sufficient condition ("dyadic probabilities"): weights and variate are integer
    multiples of 2^-53 and the variate is at most 1.  That grid is exactly the range of
    [rng.gen::<f64>()] (rand 0.8, [Standard]: a 53-bit integer times 2^-53, in [0,1)). *)
Definition gridR (x : R) : Prop := exists m : Z, x = IZR m * bpow radix2 (-53).
Definition grid53 (x : float) : Prop := gridR (FR x).

Lemma gridR_0 : gridR 0.
Proof. exists 0%Z. rewrite Rmult_0_l. reflexivity. Qed.

Lemma gridR_plus : forall x y, gridR x -> gridR y -> gridR (x + y).
Proof. intros x y [m ->] [n ->]. exists (m + n)%Z. rewrite plus_IZR. ring. Qed.

Lemma gridR_minus : forall x y, gridR x -> gridR y -> gridR (x - y).
Proof. intros x y [m ->] [n ->]. exists (m - n)%Z. rewrite minus_IZR. ring. Qed.

Lemma gridR_Rsum : forall l, Forall gridR l -> gridR (Rsum l).
Proof.
  intros l H. induction H as [|x l Hx Hl IH]; cbn [Rsum]; [apply gridR_0|].
  apply gridR_plus; assumption.
Qed.

Lemma gridR_fmt : forall x, gridR x -> 0 <= x <= 1 -> fmt x.
Proof.
  intros x [m ->] [H0 H1].
  assert (Hinv : bpow radix2 53 * bpow radix2 (-53) = 1).
  { rewrite <- bpow_plus. reflexivity. }
  assert (Hm0 : (0 <= m)%Z).
  { apply le_IZR. apply Rmult_le_reg_r with (bpow radix2 (-53)); [apply bpow_gt_0|].
    rewrite Rmult_0_l. exact H0. }
  assert (Hm1 : (m <= 2 ^ 53)%Z).
  { apply le_IZR. change (IZR (2 ^ 53)) with (bpow radix2 53).
    apply Rmult_le_reg_r with (bpow radix2 (-53)); [apply bpow_gt_0|].
    rewrite Hinv. exact H1. }
  destruct (Z.eq_dec m (2 ^ 53)) as [->|Hne].
  - change (IZR (2 ^ 53)) with (bpow radix2 53). rewrite Hinv. apply fmt_1.
  - unfold fmt.
    apply (generic_format_FLT radix2 (SpecFloat.emin prec emax) prec).
    apply (FLT_spec radix2 (SpecFloat.emin prec emax) prec _ (Float radix2 m (-53))).
    + reflexivity.
    + cbn [Fnum]. change (radix2 ^ prec)%Z with (2 ^ 53)%Z. lia.
    + cbv. discriminate.
Qed.

Theorem categorical_float_dyadic : forall (probs : list float) (u : float) (k : nat),
  probs <> [] -> Forall fnn probs -> Forall grid53 probs ->
  Ffin u -> FR u <= 1 -> grid53 u ->
  @categorical FNum probs u = @categorical RNum (map FR probs) (FR u) /\
  (@categorical FNum probs u = k <->
   (k <= length probs - 1)%nat /\
   (k = 0%nat \/ cumul (map FR probs) k < FR u) /\
   (k = (length probs - 1)%nat \/ FR u <= cumul (map FR probs) (S k))).
Proof.
  intros probs u k Hne Hp Hg Hu Hu1 Hgu.
  assert (Hex : forall j, (S j < length probs)%nat ->
     cumul (map FR probs) (S j) < FR u -> fmt (FR u - cumul (map FR probs) (S j))).
  { intros j Hj Hlt. apply gridR_fmt.
    - apply gridR_minus; [exact Hgu|]. unfold cumul. apply gridR_Rsum.
      apply Forall_firstn'. clear -Hg.
      induction Hg as [|x l Hx Hl IH]; cbn [map]; constructor; assumption.
    - assert (H0 : 0 <= cumul (map FR probs) (S j)).
      { unfold cumul. apply Rsum_nonneg. apply Forall_firstn'.
        apply Forall_FR_nonneg. exact Hp. }
      lra. }
  split.
  - apply categorical_float_exact; assumption.
  - apply categorical_float_exact_interval; assumption.
Qed.

(** ** A.4  Monotonicity in the variate: it holds for float subtraction chains, because
    correctly rounded subtraction is monotone and the test is the same at every step *)

Lemma cat_loop_mono : forall (init : list float) (r r' : float) (res : nat),
  Forall fnn init -> Ffin r -> Ffin r' -> FR r <= FR r' ->
  (@cat_loop FNum init r res <= @cat_loop FNum init r' res)%nat.
Proof.
  induction init as [|v l IH]; intros r r' res Hl Hr Hr' Hle; [cbn [cat_loop]; lia|].
  inversion Hl as [|v' l' Hv Hl']; subst. destruct Hv as [Hvf Hv0].
  rewrite !cat_loop_FNum_cons.
  destruct (PrimFloat.ltb v r) eqn:E.
  - apply (ltb_true_fin v r Hvf Hr) in E.
    assert (E' : PrimFloat.ltb v r' = true) by (apply (ltb_true_fin v r' Hvf Hr'); lra).
    rewrite E'.
    destruct (sub_step r v Hr (conj Hvf Hv0) ltac:(lra)) as [Hf [He _]].
    destruct (sub_step r' v Hr' (conj Hvf Hv0) ltac:(lra)) as [Hf' [He' _]].
    apply IH; [exact Hl' | exact Hf | exact Hf' |].
    rewrite He, He'. apply rnd_mono. lra.
  - destruct (PrimFloat.ltb v r'); [|lia].
    pose proof (@cat_loop_range_gen FNum l (r' - v)%float (S res)). lia.
Qed.

(** a variate at [+infinity] walks to the end, one at [-infinity] stops at once *)
Lemma cat_loop_pinf : forall (init : list float) (r : float) (res : nat),
  Forall fnn init -> Prim2B r = B754_infinity false ->
  @cat_loop FNum init r res = (res + length init)%nat.
Proof.
  induction init as [|v l IH]; intros r res Hl Hr; [cbn [cat_loop length]; lia|].
  inversion Hl as [|v' l' Hv Hl']; subst. destruct Hv as [Hvf _].
  rewrite cat_loop_FNum_cons. unfold Ffin in Hvf.
  assert (E : PrimFloat.ltb v r = true).
  { rewrite ltb_equiv, Hr.
    destruct (Prim2B v) as [s|s| |s m e He]; try discriminate Hvf; reflexivity. }
  assert (E2 : Prim2B (r - v)%float = B754_infinity false).
  { rewrite sub_equiv, Hr.
    destruct (Prim2B v) as [s|s| |s m e He]; try discriminate Hvf; reflexivity. }
  rewrite E, (IH (r - v)%float (S res) Hl' E2). cbn [length]. lia.
Qed.

Lemma cat_loop_ninf : forall (init : list float) (r : float) (res : nat),
  Prim2B r = B754_infinity true -> @cat_loop FNum init r res = res.
Proof.
  intros [|v l] r res Hr; [reflexivity|].
  rewrite cat_loop_FNum_cons.
  assert (E : PrimFloat.ltb v r = false).
  { rewrite ltb_equiv, Hr.
    destruct (Prim2B v) as [s|s| |s m e He]; try reflexivity; destruct s; reflexivity. }
  rewrite E. reflexivity.
Qed.

(** for every pair of variates ordered by the float comparison [<=?] (so: neither is NaN;
    infinities allowed), finite non-negative weights *)
Theorem categorical_float_mono : forall (probs : list float) (u u' : float),
  Forall fnn probs -> PrimFloat.leb u u' = true ->
  (@categorical FNum probs u <= @categorical FNum probs u')%nat.
Proof.
  intros probs u u' Hp Hle. unfold categorical.
  assert (Hi := Forall_removelast _ _ _ Hp).
  match goal with |- context [cat_loop ?x u 0] => set (init := x) in * end.
  destruct (is_finite (Prim2B u)) eqn:Fu; destruct (is_finite (Prim2B u')) eqn:Fu'.
  - rewrite (leb_fin u u' Fu Fu') in Hle.
    destruct (Rle_bool_spec (FR u) (FR u')) as [H|H]; [|discriminate Hle].
    apply cat_loop_mono; assumption.
  - rewrite leb_equiv in Hle.
    destruct (Prim2B u') as [s'|s'| |s' m' e' He'] eqn:E'; try discriminate Fu'.
    + destruct s'.
      * exfalso. destruct (Prim2B u) as [s|s| |s m e He]; try discriminate Fu;
          try destruct s; discriminate Hle.
      * rewrite (cat_loop_pinf init u' 0 Hi E').
        pose proof (cat_loop_float_range init u 0). lia.
    + exfalso. destruct (Prim2B u) as [s|s| |s m e He]; discriminate Hle.
  - rewrite leb_equiv in Hle.
    destruct (Prim2B u) as [s|s| |s m e He] eqn:E; try discriminate Fu.
    + destruct s.
      * rewrite (cat_loop_ninf init u 0 E). lia.
      * exfalso. destruct (Prim2B u') as [s'|s'| |s' m' e' He']; try discriminate Fu';
          try destruct s'; discriminate Hle.
    + exfalso. discriminate Hle.
  - rewrite leb_equiv in Hle.
    destruct (Prim2B u) as [s|s| |s m e He] eqn:E; try discriminate Fu.
    + destruct s.
      * rewrite (cat_loop_ninf init u 0 E). lia.
      * destruct (Prim2B u') as [s'|s'| |s' m' e' He'] eqn:E'; try discriminate Fu'.
        -- destruct s'; [discriminate Hle|].
           rewrite (cat_loop_pinf init u 0 Hi E), (cat_loop_pinf init u' 0 Hi E'). lia.
        -- discriminate Hle.
    + exfalso. discriminate Hle.
Qed.

(** the finite case in the reals *)
Corollary categorical_float_mono_fin : forall (probs : list float) (u u' : float),
  Forall fnn probs -> Ffin u -> Ffin u' -> FR u <= FR u' ->
  (@categorical FNum probs u <= @categorical FNum probs u')%nat.
Proof.
  intros probs u u' Hp Hu Hu' Hle. apply categorical_float_mono; [exact Hp|].
  rewrite (leb_fin u u' Hu Hu'). apply Rle_bool_true. exact Hle.
Qed.

(** ** B.  The clip decision of the binary at [FNum] *)

(** the two regrets that are compared: of the solved profile and of its truncation *)
Definition regret_orig (g : @game FNum) (prof : list float * list float) : float :=
  @si_regret FNum (@info FNum g prof).
Definition regret_trunc (g : @game FNum) (clip : float) (prof : list float * list float) : float :=
  @si_regret FNum (@info FNum g (@truncate FNum g clip prof)).

(** [pruned] is the strict float comparison of the two regrets, nothing else *)
Theorem cli_float_pruned :
  forall (g : @game FNum) (sum clip : float) (prof : list float * list float),
  o_pruned (@cli_choose FNum g sum clip prof)
  = PrimFloat.ltb (regret_trunc g clip prof) (regret_orig g prof).
Proof. reflexivity. Qed.

Theorem cli_float_pruned_iff :
  forall (g : @game FNum) (sum clip : float) (prof : list float * list float),
  o_pruned (@cli_choose FNum g sum clip prof) = true <->
  PrimFloat.ltb (@si_regret FNum (@info FNum g (@truncate FNum g clip prof)))
                (@si_regret FNum (@info FNum g prof)) = true.
Proof. intros g sum clip prof. rewrite cli_float_pruned. reflexivity. Qed.

(** the printed profile is the truncation if [pruned], the solved profile otherwise *)
Theorem cli_float_prof :
  forall (g : @game FNum) (sum clip : float) (prof : list float * list float),
  o_prof (@cli_choose FNum g sum clip prof)
  = if PrimFloat.ltb (regret_trunc g clip prof) (regret_orig g prof)
    then @truncate FNum g clip prof else prof.
Proof. reflexivity. Qed.

Theorem cli_float_cases :
  forall (g : @game FNum) (sum clip : float) (prof : list float * list float),
  let out := @cli_choose FNum g sum clip prof in
  (PrimFloat.ltb (regret_trunc g clip prof) (regret_orig g prof) = true /\
   o_pruned out = true /\ o_prof out = @truncate FNum g clip prof) \/
  (PrimFloat.ltb (regret_trunc g clip prof) (regret_orig g prof) = false /\
   o_pruned out = false /\ o_prof out = prof).
Proof.
  intros g sum clip prof out. unfold out.
  rewrite cli_float_pruned, cli_float_prof.
  destruct (PrimFloat.ltb (regret_trunc g clip prof) (regret_orig g prof));
    [left | right]; repeat split; reflexivity.
Qed.

(** a NaN regret on either side never selects the truncation *)
Theorem cli_float_nan_regret :
  forall (g : @game FNum) (sum clip : float) (prof : list float * list float),
  PrimFloat.is_nan (regret_trunc g clip prof) = true \/
  PrimFloat.is_nan (regret_orig g prof) = true ->
  o_pruned (@cli_choose FNum g sum clip prof) = false /\
  o_prof (@cli_choose FNum g sum clip prof) = prof.
Proof.
  intros g sum clip prof H.
  rewrite cli_float_pruned, cli_float_prof.
  assert (E : PrimFloat.ltb (regret_trunc g clip prof) (regret_orig g prof) = false).
  { destruct H as [H|H]; [apply ltb_nan_l | apply ltb_nan_r]; exact H. }
  rewrite E. split; reflexivity.
Qed.

(** all the printed numbers are those of the evaluation [info] of the printed profile *)
Theorem cli_float_output_is_info_of_printed :
  forall (g : @game FNum) (sum clip : float) (prof : list float * list float),
  let out := @cli_choose FNum g sum clip prof in
  let i := @info FNum g (o_prof out) in
  o_regret out = @si_regret FNum i /\ o_reg1 out = si_reg1 i /\ o_reg2 out = si_reg2 i /\
  o_util1 out = PrimFloat.add (si_util i) sum /\
  o_util2 out = PrimFloat.add (PrimFloat.opp (si_util i)) sum.
Proof.
  intros g sum clip prof out i. unfold i, out.
  rewrite cli_float_prof. unfold cli_choose.
  cbn [o_regret o_reg1 o_reg2 o_util1 o_util2].
  fold (regret_trunc g clip prof). fold (regret_orig g prof).
  change (ltb FNum) with PrimFloat.ltb.
  destruct (PrimFloat.ltb (regret_trunc g clip prof) (regret_orig g prof));
    repeat split; reflexivity.
Qed.

(** C16, last sentence, at binary64: what is printed is always a profile of finite
    binary64 numbers in [0,1] -- for every clip threshold, NaN and infinities included,
    and whatever the two regrets are (NaN included) *)
Theorem cli_float_printed_valid :
  forall (g : @game FNum) (sum clip : float) (prof : list float * list float),
  Forall fin01 (fst prof) -> Forall fin01 (snd prof) ->
  (Z.of_nat (length (fst prof)) < 2 ^ 53)%Z ->
  (Z.of_nat (length (snd prof)) < 2 ^ 53)%Z ->
  Forall fin01 (fst (o_prof (@cli_choose FNum g sum clip prof))) /\
  Forall fin01 (snd (o_prof (@cli_choose FNum g sum clip prof))).
Proof.
  intros g sum clip prof H1 H2 L1 L2. rewrite cli_float_prof.
  destruct (PrimFloat.ltb (regret_trunc g clip prof) (regret_orig g prof)).
  - apply truncate_float_valid; assumption.
  - split; assumption.
Qed.

(** what is printed for one player ([printed_strategy]: the named view without the
    zero-probability actions): every printed probability is an entry of the printed
    profile (or the constant 1 of a single-action infoset), hence a finite binary64
    number in (0,1] *)
Lemma In_split_by : forall (A : Type) (ars : list nat) (flat row : list A) (x : A),
  In row (split_by flat ars) -> In x row -> In x flat.
Proof.
  intros A ars. induction ars as [|n ars IH]; intros flat row x Hr Hx; cbn [split_by] in Hr.
  - destruct Hr.
  - destruct Hr as [Hr|Hr].
    + subst row. rewrite <- (firstn_skipn n flat). apply in_or_app. left. exact Hx.
    + rewrite <- (firstn_skipn n flat). apply in_or_app. right. apply (IH _ _ _ Hr Hx).
Qed.

Theorem printed_float_valid :
  forall (g : @game FNum) (pl : bool) (prof : list float * list float),
  Forall fin01 (if pl then fst prof else snd prof) ->
  forall (name : N) (l : list (N * float)),
    In (name, l) (@printed_strategy FNum g pl prof) ->
    forall (a : N) (p : float), In (a, p) l -> fin01 p /\ 0 < FR p.
Proof.
  intros g pl prof Hv name l Hin a p Hap.
  unfold printed_strategy in Hin. apply in_map_iff in Hin.
  destruct Hin as [e [He Hin]]. inversion He; subst name l; clear He.
  apply filter_In in Hap. destruct Hap as [Hap Hpos]. cbn [snd] in Hpos.
  change (ltb FNum (zero FNum) p) with (PrimFloat.ltb 0 p) in Hpos.
  assert (Hf : fin01 p).
  { rewrite as_named_items in Hin. apply in_app_or in Hin. destruct Hin as [Hin|Hin].
    - apply in_map_iff in Hin. destruct Hin as [pr [He Hin]]. subst e.
      unfold multi_item in Hap. cbn [snd] in Hap.
      apply filter_In in Hap. destruct Hap as [Hap _].
      apply in_combine_r in Hap. destruct pr as [pi row]. apply in_combine_r in Hin.
      cbn [snd] in Hap. rewrite Forall_forall in Hv. apply Hv.
      apply (In_split_by _ _ _ _ _ Hin Hap).
    - apply in_map_iff in Hin. destruct Hin as [sa [He Hin]]. subst e.
      unfold single_item in Hap. cbn [snd] in Hap.
      destruct Hap as [Hap|[]]. inversion Hap; subst.
      split; [apply Ffin_one|]. change (one FNum) with 1%float. rewrite FR_one. lra. }
  split; [exact Hf|]. destruct Hf as [Hfin _].
  apply (ltb_zero_pos p Hfin). exact Hpos.
Qed.

(** ... in particular for the profile the binary prints *)
Corollary cli_float_printed_strategy_valid :
  forall (g : @game FNum) (sum clip : float) (prof : list float * list float) (pl : bool),
  Forall fin01 (fst prof) -> Forall fin01 (snd prof) ->
  (Z.of_nat (length (fst prof)) < 2 ^ 53)%Z ->
  (Z.of_nat (length (snd prof)) < 2 ^ 53)%Z ->
  forall (name : N) (l : list (N * float)),
    In (name, l) (@printed_strategy FNum g pl (o_prof (@cli_choose FNum g sum clip prof))) ->
    forall (a : N) (p : float), In (a, p) l -> fin01 p /\ 0 < FR p.
Proof.
  intros g sum clip prof pl H1 H2 L1 L2.
  destruct (cli_float_printed_valid g sum clip prof H1 H2 L1 L2) as [V1 V2].
  apply printed_float_valid. destruct pl; assumption.
Qed.

(** ** C.  Examples: the hypotheses are satisfiable, and what comes out *)

(** reading a literal: the value of a float is that of its [Prim2SF] decomposition *)
Lemma FR_SF : forall x, FR x = SF2R radix2 (Prim2SF x).
Proof. intros x. unfold FR, Prim2B. apply B2R_SF2B. Qed.

Lemma FR_scaled : forall (x : float) (k : Z) (m : positive) (e : Z),
  Prim2SF x = S754_finite false m e -> (k <= e)%Z ->
  FR x = IZR (Z.pos m * 2 ^ (e - k)) * bpow radix2 k.
Proof.
  intros x k m e H Hk. rewrite FR_SF, H. cbn [SF2R cond_Zopp].
  rewrite (F2R_change_exp radix2 k _ e Hk). reflexivity.
Qed.

(** a decision procedure for the grid 2^-53 *)
Definition grid53b (x : float) : bool :=
  match Prim2SF x with
  | S754_zero _ => true
  | S754_finite _ m e =>
      if (-53 <=? e)%Z then true else (Z.pos m mod 2 ^ (-53 - e) =? 0)%Z
  | _ => false
  end.

Lemma gridR_F2R : forall z e : Z, (-53 <= e)%Z -> gridR (F2R (Float radix2 z e)).
Proof.
  intros z e He. exists (z * radix2 ^ (e - -53))%Z.
  rewrite (F2R_change_exp radix2 (-53) z e He). reflexivity.
Qed.

Lemma grid53b_spec : forall x, grid53b x = true -> grid53 x.
Proof.
  intros x H. unfold grid53. rewrite FR_SF. unfold grid53b in H.
  destruct (Prim2SF x) as [s|s| |s m e]; try discriminate H.
  - apply gridR_0.
  - cbn [SF2R]. destruct (Z.leb_spec (-53) e) as [He|He].
    + apply gridR_F2R. exact He.
    + apply Z.eqb_eq in H.
      apply Z.mod_divide in H; [|apply Z.pow_nonzero; lia].
      destruct H as [q Hq].
      assert (Hc : cond_Zopp s (Z.pos m) = (cond_Zopp s q * radix2 ^ (-53 - e))%Z).
      { rewrite Hq. change (radix2 ^ (-53 - e))%Z with (2 ^ (-53 - e))%Z.
        destruct s; cbn [cond_Zopp]; ring. }
      rewrite Hc. rewrite <- (F2R_change_exp radix2 e (cond_Zopp s q) (-53)) by lia.
      apply gridR_F2R. lia.
Qed.

Lemma forallb_grid53b : forall l, forallb grid53b l = true -> Forall grid53 l.
Proof.
  intros l H. apply Forall_forall. intros x Hx. apply grid53b_spec.
  rewrite forallb_forall in H. apply H. exact Hx.
Qed.

Definition cat_row : list float := [0.5; 0.25; 0.25]%float.

Example cat_row_fnn : Forall fnn cat_row.
Proof. apply Forall_fin01_fnn. apply forallb_fin01b. vm_compute. reflexivity. Qed.

Example cat_row_grid : Forall grid53 cat_row.
Proof. apply forallb_grid53b. vm_compute. reflexivity. Qed.

(** the intervals of (1/2, 1/4, 1/4): [.., 1/2], (1/2, 3/4], (3/4, ..) *)
Example ex_cat_values :
  map (@categorical FNum cat_row) [0; 0.25; 0.5; 0x1.0000000000001p-1; 0.625; 0.75;
                                   0x1.8000000000001p-1; 0x1.fffffffffffffp-1]%float
  = [0; 0; 0; 1; 1; 1; 2; 2]%nat.
Proof. vm_compute. reflexivity. Qed.

(** NaN, the infinities, a negative variate *)
Example ex_cat_special :
  map (@categorical FNum cat_row) [nan; infinity; neg_infinity; (-1); 2]%float
  = [0; 2; 0; 0; 2]%nat.
Proof. vm_compute. reflexivity. Qed.

(** the dyadic theorem applies to this row and the variate 0.625 = 5/8 *)
Example ex_cat_dyadic_instance :
  @categorical FNum cat_row 0.625%float = @categorical RNum (map FR cat_row) (FR 0.625%float).
Proof.
  apply (categorical_float_dyadic cat_row 0.625%float 0%nat).
  - discriminate.
  - exact cat_row_fnn.
  - exact cat_row_grid.
  - apply fin01b_spec. vm_compute. reflexivity.
  - assert (H : fin01 0.625%float) by (apply fin01b_spec; vm_compute; reflexivity).
    destruct H as [_ [_ H]]. exact H.
  - apply grid53b_spec. vm_compute. reflexivity.
Qed.

(** Rounding matters.  The row (0.2, 0.75, 0.05) as binary64 numbers and the variate
    u = 0x1.e666666666667p-1 (a multiple of 2^-53, so a possible output of the generator):
    exactly, p_0 + p_1 < u, so the real-number sampler of C10 returns index 2 on these very
    numbers; in binary64 u - p_0 rounds down to exactly p_1, the strict test fails and the
    code returns index 1.  (Only this direction is possible: a float residual can round
    onto the weight from above, never past it.) *)
Definition rnd_row : list float :=
  [0x1.999999999999ap-3; 0.75; 0x1.99999999999ap-5]%float.
Definition rnd_u : float := 0x1.e666666666667p-1%float.

(** valid weights, a variate on the generator's grid; only the weights are off the grid *)
Example ex_cat_rounding_hyps :
  Forall fin01 rnd_row /\ fin01 rnd_u /\ grid53 rnd_u /\ forallb grid53b rnd_row = false.
Proof.
  split; [apply forallb_fin01b; vm_compute; reflexivity|].
  split; [apply fin01b_spec; vm_compute; reflexivity|].
  split; [apply grid53b_spec; vm_compute; reflexivity | vm_compute; reflexivity].
Qed.

Example ex_cat_rounding :
  @categorical FNum rnd_row rnd_u = 1%nat /\
  @categorical RNum (map FR rnd_row) (FR rnd_u) = 2%nat.
Proof.
  split; [vm_compute; reflexivity|].
  unfold categorical, rnd_row, rnd_u. cbn [map removelast].
  set (b := bpow radix2 (-55)).
  assert (Hb : 0 < b) by apply bpow_gt_0.
  assert (E0 : FR 0x1.999999999999ap-3%float = IZR 7205759403792794 * b).
  { apply (FR_scaled _ (-55) 7205759403792794%positive (-55)); [vm_compute; reflexivity | lia]. }
  assert (E1 : FR 0.75%float = IZR 27021597764222976 * b).
  { apply (FR_scaled _ (-55) 6755399441055744%positive (-53)); [vm_compute; reflexivity | lia]. }
  assert (Eu : FR 0x1.e666666666667p-1%float = IZR 34227357168015772 * b).
  { apply (FR_scaled _ (-55) 8556839292003943%positive (-53)); [vm_compute; reflexivity | lia]. }
  rewrite E0, E1, Eu.
  rewrite cat_step_lt by lra. rewrite cat_step_lt by lra. apply cat_step_nil.
Qed.

(** monotonicity on a grid of variates, executed *)
Example ex_cat_mono_run :
  map (@categorical FNum rnd_row)
      [0; 0.125; 0x1.999999999999ap-3; 0.25; 0.5; 0x1.e666666666666p-1; rnd_u;
       0x1.e666666666668p-1; 0x1.fffffffffffffp-1]%float
  = [0; 0; 0; 1; 1; 1; 1; 2; 2]%nat.
Proof. vm_compute. reflexivity. Qed.

(** the clip decision on a concrete game: player one has three actions, the third is
    bad for him (-10 whatever player two does), the first two are matching pennies *)
Definition ex_g : @game FNum :=
  @mkGame FNum [] [mkPinfo 1 [1; 2; 3]%N None] [mkPinfo 2 [1; 2]%N None] [] []
    (@Player FNum true 0
       [@Player FNum false 0 [@Term FNum 1%float; @Term FNum (-1)%float];
        @Player FNum false 0 [@Term FNum (-1)%float; @Term FNum 1%float];
        @Player FNum false 0 [@Term FNum (-10)%float; @Term FNum (-10)%float]]).
Definition ex_prof : list float * list float :=
  ([0.5; 0.4375; 0.0625]%float, [0.5; 0.5]%float).

Example ex_prof_fin01 : Forall fin01 (fst ex_prof) /\ Forall fin01 (snd ex_prof).
Proof. split; apply forallb_fin01b; vm_compute; reflexivity. Qed.

(** clipping at 1/8 removes the bad action: regret 0.0666... < 0.625, the truncation is
    printed *)
Example ex_cli_pruned :
  let out := @cli_choose FNum ex_g 0%float 0.125%float ex_prof in
  o_pruned out = true /\
  o_prof out = @truncate FNum ex_g 0.125%float ex_prof /\
  o_prof out = ([0x1.1111111111111p-1; 0x1.ddddddddddddep-2; 0]%float, [0.5; 0.5]%float) /\
  regret_orig ex_g ex_prof = 0.625%float /\
  regret_trunc ex_g 0.125%float ex_prof = 0x1.1111111111110p-4%float.
Proof. vm_compute. repeat split; reflexivity. Qed.

(** clipping at 15/32 leaves a pure strategy with regret 1 > 0.625: the solved profile is
    printed; so it is for a NaN clip, for +infinity and for -infinity (nothing removed,
    equal regrets, and the comparison is strict) *)
Example ex_cli_not_pruned :
  map (fun clip => let out := @cli_choose FNum ex_g 0%float clip ex_prof in
                   (o_pruned out, o_prof out))
      [0.46875; nan; infinity; neg_infinity]%float
  = [(false, ex_prof); (false, ex_prof); (false, ex_prof); (false, ex_prof)].
Proof. vm_compute. reflexivity. Qed.

Example ex_cli_regrets :
  (regret_trunc ex_g 0.46875%float ex_prof, regret_trunc ex_g nan ex_prof)
  = (1%float, 0.625%float).
Proof. vm_compute. reflexivity. Qed.

(** what is printed for player one after the clip at 1/8: the zero entry is omitted *)
Example ex_cli_printed :
  @printed_strategy FNum ex_g true (o_prof (@cli_choose FNum ex_g 0%float 0.125%float ex_prof))
  = [(1%N, [(1%N, 0x1.1111111111111p-1%float); (2%N, 0x1.ddddddddddddep-2%float)])].
Proof. vm_compute. reflexivity. Qed.

(** the validity theorem applied *)
Example ex_cli_valid_instance : forall clip : float,
  Forall fin01 (fst (o_prof (@cli_choose FNum ex_g 0%float clip ex_prof))) /\
  Forall fin01 (snd (o_prof (@cli_choose FNum ex_g 0%float clip ex_prof))).
Proof.
  intros clip. destruct ex_prof_fin01 as [H1 H2].
  apply cli_float_printed_valid; try assumption; vm_compute; reflexivity.
Qed.
