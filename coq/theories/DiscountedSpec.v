(** * DiscountedSpec: the trajectory of the unsampled solve for a params tuple whose
    average-strategy discount is a sequence of positive factors [e 1, e 2, ...] while the
    cumulative regrets are discounted by *two other* sequences — [pf t] for positive
    entries, [nf t] for negative ones ([discount_cum_regret]).  This covers the presets
    [p_cfr_plus] ([pf = 1], [nf = 0]), [p_dcfr] and [p_dcfr_prune]
    ([pf t = t^1.5 / (t^1.5 + 1)], [nf t = 1/2] resp. [sqrt t / (sqrt t + 1)]), all with
    [e t = (t / (t + 1))^2].

    - [scstrat_at_sum] : [cum_strat_T(I,a) = E T * sum_{t<T} pi_t(I) * sigma_t(I,a) / E t]
      with [E T = e 1 * ... * e T] (needs the hypothesis on the average discount only);
    - [sregret_at_S]   : [cum_regret_{k+1}(I,a) = fdisc (k+1) (cum_regret_k(I,a) + r_k(I,a))];
    - [savg_realisation] : the returned average realises the [1 / E t]-weighted average of
      the iterates against every opponent table.

    Everything is about the real-number instance [RNum]. *)
From Coq Require Import Reals List Lra Lia Bool Arith NArith.
From Cfr.theories Require Import Num RInst Tree GameWF Strat Eval Solve Valid
     SolveValidProofs LoopProofs RulesProofs Incr IterChar CfMass CfrRate EvalSpec EvalProofs
     BestResponseProofs CfrSpec Decomposition AvgRealisation BoundDominates LcfrSpec LcfrBound.
Import ListNotations.
Open Scope R_scope.

Local Notation node := (@node RNum).
Local Notation game := (@game RNum).
Local Notation incr := (@incr RNum).
Local Notation oracle := (@oracle RNum).
Local Notation params := (@params RNum).

(** ** The regret discount of iteration [t], entry-wise *)
Definition fdisc (p : params) (t : nat) (r : R) : R :=
  if Rlt_dec 0 r then r * @gen_discount RNum (N.of_nat t) (a_pos p)
  else if Rlt_dec r 0 then r * @gen_discount RNum (N.of_nat t) (a_neg p)
       else r.

Lemma fdisc_0 p t : fdisc p t 0 = 0.
Proof. unfold fdisc. destruct (Rlt_dec 0 0); [lra|]. destruct (Rlt_dec 0 0); [lra|reflexivity]. Qed.

Lemma nth_map_fdisc p t (l : list R) a : nth a (map (fdisc p t) l) 0 = fdisc p t (nth a l 0).
Proof. rewrite <- (fdisc_0 p t) at 1. apply map_nth. Qed.

Section STraj.
  Context (g : game) (draw : oracle) (p : params) (e : nat -> R).
  Context (He_pos : forall t, (1 <= t)%nat -> 0 < e t).
  Context (He_avg : forall t cs, (1 <= t)%nat ->
              @discount_average_strat RNum p (N.of_nat t) cs = map (fun a => a * e t) cs).
  Context (Hpos : arities_pos g).

  Local Notation E := (dprod e).

  Lemma sstate_at_S_cum k pl i :
    (i < ninfos g pl)%nat ->
    cum_regret (@ri_get RNum (dstate_at g draw p (S k)) pl i) =
      map (fdisc p (S k)) (cum_regret (@ri_get RNum (dmid_at g draw p k) pl i)) /\
    cum_strat (@ri_get RNum (dstate_at g draw p (S k)) pl i) =
      map (fun r => r * e (S k)) (cum_strat (@ri_get RNum (dmid_at g draw p k) pl i)).
  Proof.
    intros Hi. rewrite (dstate_at_S_get g draw p Hpos k pl i Hi). unfold advance.
    cbn [fst cum_regret cum_strat]. rewrite He_avg by lia. rewrite discount_cum_regret_spec.
    split; reflexivity.
  Qed.

  (** the cumulative regret: add the increment, then discount by sign *)
  Lemma sregret_at_S k pl i a :
    (i < ninfos g pl)%nat -> (a < arity g pl i)%nat ->
    dregret_at g draw p (S k) pl i a =
    fdisc p (S k) (dregret_at g draw p k pl i a + reg_delta (dincs_at g draw p k) pl i a).
  Proof.
    intros Hi Ha. unfold dregret_at.
    destruct (sstate_at_S_cum k pl i Hi) as [Eq _]. rewrite Eq, nth_map_fdisc. f_equal.
    destruct (dmid_at_Eff g draw p Hpos k pl i Hi) as (_ & _ & _ & A4 & _).
    destruct (dstate_at_RInvA g draw p Hpos k pl i Hi) as (_ & _ & L1 & _ & _).
    apply A4. rewrite L1. exact Ha.
  Qed.

  Lemma sregret_at_0 pl i a : dregret_at g draw p 0 pl i a = 0.
  Proof. unfold dregret_at. cbn [dstate_at]. apply init_zero. Qed.

  Lemma scstrat_at_S k pl i a :
    (i < ninfos g pl)%nat -> (a < arity g pl i)%nat ->
    dcstrat_at g draw p (S k) pl i a =
    (dcstrat_at g draw p k pl i a
     + strat_delta (dincs_at g draw p k) pl i * prob (dsigma_at g draw p (S k) pl) i a) * e (S k).
  Proof.
    intros Hi Ha. unfold dcstrat_at.
    destruct (sstate_at_S_cum k pl i Hi) as [_ Eq]. rewrite Eq, nth_map_scale. f_equal.
    destruct (dmid_at_Eff g draw p Hpos k pl i Hi) as (_ & _ & _ & _ & A5).
    destruct (dstate_at_RInvA g draw p Hpos k pl i Hi) as (_ & _ & _ & _ & L3).
    unfold prob. rewrite (dsigma_at_row g draw p). apply A5. rewrite L3. exact Ha.
  Qed.

  (** the cumulative strategy is the discounted sum of (own reach weight) x strategy *)
  Theorem scstrat_at_sum T pl i a :
    (i < ninfos g pl)%nat -> (a < arity g pl i)%nat ->
    dcstrat_at g draw p T pl i a =
    E T * Rsumn T (fun t => strat_delta (dincs_at g draw p t) pl i
                            * prob (dsigma_at g draw p (S t) pl) i a / E t).
  Proof.
    intros Hi Ha. induction T as [|T IH].
    - unfold dcstrat_at. cbn [dstate_at]. rewrite Rsumn_0, Rmult_0_r. apply init_zero.
    - rewrite scstrat_at_S, Rsumn_S_last, IH by assumption. cbn [dprod].
      pose proof (dprod_pos e T He_pos). field. lra.
  Qed.
End STraj.

(** ** The weighted average-realisation argument ([LcfrBound.davg_realisation]) with the
    hypothesis on the average discount only *)
Section SGame.
  Context (g : game) (Hwf : @WFgame RNum g).
  Context (draw : oracle) (p : params) (e : nat -> R).
  Context (He_pos : forall t, (1 <= t)%nat -> 0 < e t).
  Context (He_avg : forall t cs, (1 <= t)%nat ->
              @discount_average_strat RNum p (N.of_nat t) cs = map (fun a => a * e t) cs).

  Let Hpos : arities_pos g := WFgame_arities_pos g Hwf.

  Local Notation E := (dprod e).
  Local Notation st := (dstate_at g draw p).
  Local Notation sigma := (dsigma_at g draw p).
  Local Notation w := (dweight e).

  Lemma sE_pos t : 0 < E t.
  Proof. now apply dprod_pos. Qed.

  Lemma sweight_pos t : 0 < w t.
  Proof. unfold dweight. apply Rinv_0_lt_compat. apply sE_pos. Qed.

  Lemma swsum_pos T : (1 <= T)%nat -> 0 < dwsum e T.
  Proof.
    intros HT. unfold dwsum. destruct T as [|k]; [lia|]. rewrite Rsumn_S_last.
    assert (0 <= Rsumn k w).
    { apply Rsumn_nonneg. intros b _. left. apply sweight_pos. }
    pose proof (sweight_pos k). lra.
  Qed.

  Lemma ssigma_Fits t : Fits g (sigma (S t) true) (sigma (S t) false).
  Proof.
    intros pl j Hj.
    replace (if pl then sigma (S t) true else sigma (S t) false)
      with (sigma (S t) pl) by (destruct pl; reflexivity).
    now apply dsigma_at_length.
  Qed.

  Lemma sincs_at_cfr t pl i a :
    reg_delta (dincs_at g draw p t) pl i a =
    cfr_inc_of g (sigma (S t) true) (sigma (S t) false) pl i a.
  Proof.
    unfold dincs_at, cfr_inc_of. rewrite (strat_view_dsigma g draw p). f_equal. apply vincs_indep.
  Qed.

  Section TrajAvg.
    Context (me : bool) (H : bool -> nat -> hist) (HPR : PRwit_me g me H).
    Context (T : nat).

    Local Notation sig := (fun t => sigma (S t) me).
    Local Notation A := (davg g draw p T me).
    Local Notation root := (g_root g).

    Lemma sprob_sigma_nonneg t pl i a : 0 <= prob (sigma (S t) pl) i a.
    Proof.
      unfold prob. rewrite (dsigma_at_row g draw p). apply nth_nonneg.
      exact (InvA_strat_nonneg _ _ _ pl i (dstate_at_inv g draw p Hpos t)).
    Qed.

    Lemma sppi_sigma_nonneg t h : 0 <= ppi (sig t) h.
    Proof. apply ppi_nonneg. intros. apply sprob_sigma_nonneg. Qed.

    Lemma ssigma_row_oob t i : (ninfos g me <= i)%nat -> rowR (sig t) i = [].
    Proof.
      intros Hi. unfold rowR. apply nth_overflow. unfold dsigma_at, tbl_strat.
      rewrite map_length, (dstate_at_len g draw p Hpos). exact Hi.
    Qed.

    Lemma savg_row_oob i : (ninfos g me <= i)%nat -> rowR A i = [].
    Proof.
      intros Hi. unfold rowR. apply nth_overflow. unfold davg.
      rewrite map_length, (dstate_at_len g draw p Hpos). exact Hi.
    Qed.

    Lemma savg_row i :
      (i < ninfos g me)%nat ->
      rowR A i = @avg_strat RNum (cum_strat (@ri_get RNum (st T) me i)).
    Proof.
      intros Hi. unfold rowR, davg, ri_get.
      rewrite (nth_indep _ _ ((fun ri => @avg_strat RNum (cum_strat ri)) (@mkRinfo RNum [] [] [])))
        by (rewrite map_length, (dstate_at_len g draw p Hpos); exact Hi).
      now rewrite (map_nth (fun ri => @avg_strat RNum (cum_strat ri))).
    Qed.

    Lemma sstrat_delta_traj t i :
      strat_delta (dincs_at g draw p t) me i = cnt me i root * ppi (sig t) (H me i).
    Proof.
      unfold strat_delta, dincs_at. rewrite (strat_view_dsigma g draw p).
      pose proof (strat_delta_node me i (g_chance g) draw (N.of_nat (S t) - 1)%N
                                   (sigma (S t) true) (sigma (S t) false) H root) as W.
      replace (sigma (S t) me)
        with (if me then sigma (S t) true else sigma (S t) false)
        by (destruct me; reflexivity).
      apply (fun Hok => W Hok [] [] 1 1 1).
      - pose proof Hwf as (Hsh & _). eapply allp_impl; [| |exact (shaped_allp g _ Hsh)].
        + intros ci kids Hc. exact Hc.
        + intros pl j kids (Hj & Hlen & _). unfold OKP', sg_of.
          rewrite (ssigma_Fits t pl j Hj). now symmetry.
      - intros [[pl j] h] Hin. unfold PRme'. intros ->. now apply HPR.
      - unfold ownp, hme. destruct me; reflexivity.
    Qed.

    Lemma savg_eq_traj i h :
      In (me, i, h) (@hists RNum root [] []) ->
      forall b, AvgEq me T w sig A H i b.
    Proof.
      intros Hin b. unfold AvgEq.
      destruct (Nat.lt_ge_cases i (ninfos g me)) as [Hi|Hi].
      2:{ unfold prob at 1. rewrite (savg_row_oob i Hi), nth_nil_R, Rmult_0_r. symmetry.
          apply Rsumn_zero_ext. intros t _. unfold prob. rewrite (ssigma_row_oob t i Hi), nth_nil_R. lra. }
      set (ri := @ri_get RNum (st T) me i).
      destruct (dstate_at_RInvA g draw p Hpos T me i Hi) as (_ & Hnn & _ & L2 & _). fold ri in Hnn, L2.
      set (ar := arity g me i) in *.
      destruct (Nat.lt_ge_cases b ar) as [Hb|Hb].
      2:{ unfold prob at 1. rewrite (savg_row i Hi). fold ri.
          rewrite nth_overflow by (rewrite avg_strat_length; tR; lia). rewrite Rmult_0_r. symmetry.
          apply Rsumn_zero_ext. intros t _. unfold prob.
          rewrite nth_overflow by (rewrite (dsigma_at_length g draw p Hpos t me i Hi); exact Hb). lra. }
      set (c0 := cnt me i root).
      assert (Hc0 : 1 <= c0) by (exact (proj2 (cnt_pos me i root) [] [] h Hin)).
      pose proof (sE_pos T) as HPT.
      set (c := c0 * E T).
      assert (Hc : 0 < c) by (unfold c; nra).
      set (PP := Rsumn T (fun t => w t * ppi (sig t) (H me i))).
      set (Q := fun a => Rsumn T (fun t => w t * ppi (sig t) (H me i) * prob (sig t) i a)).
      change (PP * prob A i b = Q b).
      assert (Ecs : forall a, (a < ar)%nat -> nth a (cum_strat ri) 0 = c * Q a).
      { intros a Ha.
        pose proof (scstrat_at_sum g draw p e He_pos He_avg Hpos T me i a Hi Ha) as Eq.
        unfold dcstrat_at in Eq. fold ri in Eq. rewrite Eq. unfold Q, c.
        rewrite (Rmult_comm c0), Rmult_assoc. f_equal.
        rewrite <- Rsumn_scal. apply Rsumn_ext. intros t _. rewrite sstrat_delta_traj. fold c0.
        unfold dweight, Rdiv. ring. }
      assert (Esum : Rsum (cum_strat ri) = c * PP).
      { rewrite Rsum_nth. tR. rewrite L2. fold ar.
        rewrite (Rsumn_ext ar _ (fun a => c * Q a)) by (intros a Ha; now apply Ecs).
        rewrite Rsumn_scal. f_equal. unfold Q, PP. rewrite Rsumn_exchange.
        apply Rsumn_ext. intros t _. rewrite Rsumn_scal.
        destruct (dsigma_at_VRow g draw p Hpos t me i Hi) as [_ Hone].
        rewrite Rsum_nth, (dsigma_at_length g draw p Hpos t me i Hi) in Hone. fold ar in Hone.
        unfold prob. rewrite Hone. lra. }
      unfold prob at 1. rewrite (savg_row i Hi). fold ri. rewrite avg_strat_unfold, Esum.
      destruct (Reqb (c * PP) 0) eqn:Ez.
      - apply Reqb_true in Ez.
        assert (HP0 : PP = 0) by nra.
        assert (Hz : forall t, (t < T)%nat -> w t * ppi (sig t) (H me i) = 0).
        { apply Rsumn_zero_nonneg; [|exact HP0]. intros t _.
          apply Rmult_le_pos; [left; apply sweight_pos|apply sppi_sigma_nonneg]. }
        rewrite HP0, Rmult_0_l. symmetry. unfold Q. apply Rsumn_zero_ext.
        intros t Ht. rewrite (Hz t Ht). lra.
      - apply Reqb_false in Ez.
        assert (Hcn : c <> 0) by lra.
        assert (HP0 : PP <> 0) by (intros E0; apply Ez; rewrite E0; lra).
        rewrite (nth_indep _ 0 ((fun x => x / (c * PP)) 0)) by (rewrite map_length; tR; lia).
        rewrite (map_nth (fun x => x / (c * PP))). tR. rewrite (Ecs b Hb). field. split; assumption.
    Qed.
  End TrajAvg.

  Theorem savg_realisation (me : bool) (H : bool -> nat -> hist) (T : nat) (tau : list (list R)) :
    PRwit_me g me H -> (1 <= T)%nat ->
    u_me g me (davg g draw p T me) tau =
    / dwsum e T * Rsumn T (fun t => w t * u_me g me (sigma (S t) me) tau).
  Proof.
    intros HPR HT.
    assert (HS : HSub (Good me T w (fun t => sigma (S t) me) (davg g draw p T me) H)
                      (g_root g) [] []).
    { intros [[pl i] h] Hin. unfold Good. intros ->. split; [now apply HPR|].
      exact (savg_eq_traj me H HPR T i h Hin). }
    pose proof (avg_abstract (g_chance g) me tau T w
                             (fun t => sigma (S t) me) (davg g draw p T me) H (g_root g) HS) as Eq.
    fold (dwsum e T) in Eq. pose proof (swsum_pos T HT) as HWpos.
    unfold u_me, u_game. unfold U in Eq. destruct me.
    - rewrite <- Eq. field. lra.
    - rewrite (Rsumn_ext T _ (fun t => -1 * (w t * u (g_chance g) tau (sigma (S t) false) (g_root g))))
        by (intros; lra).
      rewrite Rsumn_scal, <- Eq. field. lra.
  Qed.

  (** *** Theorem 1, with the averaging weights: the weighted external regret against a pure
      strategy is the reach-weighted sum, over the infosets, of the *weighted* sums of the
      per-iteration counterfactual regrets of the chosen actions *)
  Section Decomp.
    Context (H : bool -> nat -> hist) (HPR : PRwit g H).

    Definition sext_regret (T : nat) (pl : bool) (Sp : list (list R)) : R :=
      Rsumn T (fun t => w t *
                        (u_me g pl Sp (sigma (S t) (negb pl))
                         - u_me g pl (sigma (S t) pl) (sigma (S t) (negb pl)))).

    (** the weighted sum of the increments of one entry *)
    Definition swreg (T : nat) (pl : bool) (i a : nat) : R :=
      Rsumn T (fun t => w t * reg_delta (dincs_at g draw p t) pl i a).

    Theorem sregret_decomposition T pl Sp s :
      IsPure g pl Sp s ->
      sext_regret T pl Sp = Rsumn (ninfos g pl) (fun i => reach_s s H pl i * swreg T pl i (s i)).
    Proof.
      intros HP. unfold sext_regret, swreg.
      rewrite (Rsumn_ext (ninfos g pl) _
                 (fun i => Rsumn T (fun t => reach_s s H pl i
                                             * (w t * reg_delta (dincs_at g draw p t) pl i (s i)))))
        by (intros i _; now rewrite Rsumn_scal).
      rewrite Rsumn_exchange. apply Rsumn_ext. intros t _.
      pose proof (regret_decomposition_iter g Hwf H HPR pl (sigma (S t) true) (sigma (S t) false)
                                            Sp s (ssigma_Fits t) HP) as Eq.
      replace (opp_of pl (sigma (S t) true) (sigma (S t) false))
        with (sigma (S t) (negb pl)) in Eq by (destruct pl; reflexivity).
      replace (own_of pl (sigma (S t) true) (sigma (S t) false))
        with (sigma (S t) pl) in Eq by (destruct pl; reflexivity).
      rewrite Eq, <- Rsumn_scal. apply Rsumn_ext. intros i _. rewrite sincs_at_cfr. ring.
    Qed.
  End Decomp.
End SGame.
