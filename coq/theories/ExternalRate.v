(** * ExternalRate: pathwise rate theorem for the external-sampling solver.

    One pass of [erec] for the active player [me] changes the cumulative regrets of
    [me] exactly as an *unsampled* pass does when every chance row is replaced by the
    one-hot row of the chance index drawn and every row of the *other* player by the
    one-hot row of the action drawn ([ext_sg], [ext_reg_sum]); the regrets of the
    other player are untouched ([ext_reg_sum_other]).  The sampled path has
    counterfactual reach 1, everything off the path has reach 0.  Hence orthogonality
    and the bound [|inc| <= hi - lo] are those of [cfr_inc] ([IterChar.v],
    [CfMass.v]) and the potential argument of [CfrRate.v] applies to both passes of
    [external_iter]  ([external_bound_rate]).

    As for the chance-sampled method the draws have to be in range ([DrawsInRange]):
    out of range the implementation panics (slice index) while the model returns 0. *)
From Coq Require Import Reals List Lra Lia Bool Arith NArith.
From Cfr.theories Require Import Num RInst Tree GameWF Strat Eval Solve Valid TruncProofs
     SolveValidProofs LoopProofs Incr IterChar RmPotential CfMass CfrRate ExtIncr SampledRate.
Import ListNotations.
Open Scope R_scope.

Local Notation nodeR := (@node RNum).
Local Notation gameR := (@game RNum).
Local Notation pstateR := (@pstate RNum).
Local Notation rinfoR := (@rinfo RNum).
Local Notation incrR := (@incr RNum).
Local Notation paramsR := (@params RNum).
Local Notation oracleR := (@oracle RNum).

(** ** The increments of [ExtIncr.v] as increments of [Incr.v] *)
Definition tr (x : e_incr) : incrR :=
  match x with
  | E_IStrat pl i => @IStrat RNum pl i 1
  | E_IReg pl i a v => @IReg RNum pl i a v
  | E_IRegAll pl i v => @IRegAll RNum pl i v
  end.

Lemma e_apply_tr (st : pstateR) x : e_apply_incr st x = apply_incr st (tr x).
Proof.
  unfold e_apply_incr, e_modify, apply_incr.
  destruct x as [pl i|pl i a v|pl i v]; cbn [tr e_cell e_fun fst snd incr_pl incr_ix incr_fn];
    try reflexivity.
  f_equal. unfold e_ri_strat. f_equal. apply map_ext. intros vc.
  destruct vc as [x y]. cbn [fst snd add mul RNum]. tR. lra.
Qed.

Lemma e_fold_tr (l : list e_incr) (st : pstateR) :
  fold_left e_apply_incr l st = fold_left apply_incr (map tr l) st.
Proof.
  revert st; induction l as [|x l IH]; intros st; cbn [fold_left map]; [reflexivity|].
  now rewrite e_apply_tr, IH.
Qed.

(** ** Loops over one-hot rows: the player loops *)
Lemma val_player_zeros (f : nodeR -> R) n ks e : @val_player RNum f ks (repeat 0 n) e = e.
Proof.
  revert n e; induction ks as [|c ks IH]; intros n e; destruct n as [|n]; cbn [repeat val_player];
    try reflexivity.
  change (add RNum) with Rplus. change (mul RNum) with Rmult. rewrite IH. lra.
Qed.

Lemma val_player_hot (f : nodeR -> R) ks k e :
  @val_player RNum f ks (hot (length ks) k) e =
  e + match nth_error ks k with Some c => f c | None => 0 end.
Proof.
  revert k e; induction ks as [|c ks IH]; intros k e; cbn [length hot val_player].
  - destruct k; cbn [nth_error]; lra.
  - destruct k as [|k]; cbn [val_player nth_error];
      change (add RNum) with Rplus; change (mul RNum) with Rmult.
    + rewrite val_player_zeros. lra.
    + rewrite IH. lra.
Qed.

Lemma val_pick_nth (f : nodeR -> R) ks k :
  @val_pick RNum f ks k = match nth_error ks k with Some c => f c | None => 0 end.
Proof.
  revert k; induction ks as [|c ks IH]; intros k; destruct k as [|k]; cbn [val_pick nth_error];
    try reflexivity; try apply IH.
  change (add RNum) with Rplus. change (mul RNum) with Rmult.
  change (zero RNum) with 0. change (one RNum) with 1. lra.
Qed.

Lemma sum_player_zeros (f : nodeR -> R -> R -> R -> R) (pl' : bool) pc p1 p2 n ks :
  (forall c : nodeR, (if pl' then f c pc (p1 * 0) p2 else f c pc p1 (p2 * 0)) = 0) ->
  sum_player f pl' pc p1 p2 ks (repeat 0 n) = 0.
Proof.
  intros Hf. revert n; induction ks as [|c ks IH]; intros n; destruct n as [|n];
    cbn [repeat sum_player]; try reflexivity.
  rewrite Hf, IH. lra.
Qed.

Lemma sum_player_hot (f : nodeR -> R -> R -> R -> R) (pl' : bool) pc p1 p2 ks k :
  (forall c : nodeR, (if pl' then f c pc (p1 * 0) p2 else f c pc p1 (p2 * 0)) = 0) ->
  sum_player f pl' pc p1 p2 ks (hot (length ks) k) =
  match nth_error ks k with
  | Some c => if pl' then f c pc (p1 * 1) p2 else f c pc p1 (p2 * 1)
  | None => 0
  end.
Proof.
  intros Hf. revert k; induction ks as [|c ks IH]; intros k; cbn [length hot sum_player].
  - destruct k; reflexivity.
  - destruct k as [|k]; cbn [sum_player nth_error].
    + rewrite sum_player_zeros by assumption. lra.
    + rewrite Hf, IH. lra.
Qed.

(** scaling the value function *)
Lemma val_player_scal (s : R) (f : nodeR -> R) ks ss :
  @val_player RNum (fun c => s * f c) ks ss 0 = s * @val_player RNum f ks ss 0.
Proof.
  revert ss; induction ks as [|c ks IH]; intros ss; destruct ss as [|p ss]; cbn [val_player];
    change (zero RNum) with 0; try lra.
  change (add RNum) with Rplus. change (mul RNum) with Rmult.
  rewrite (val_player_acc (fun c => s * f c)), (val_player_acc f ks ss (0 + _)), IH. lra.
Qed.

Lemma act_val_scal (s : R) (f : nodeR -> R) ks ss a :
  act_val (fun c => s * f c) ks ss a = s * act_val f ks ss a.
Proof.
  revert ss a; induction ks as [|c ks IH]; intros ss a; destruct ss as [|p ss]; cbn [act_val];
    try lra. destruct a as [|a]; [reflexivity|apply IH].
Qed.

Lemma goval_val_player (V : nodeR -> R) ks ss a e :
  goval (fun _ c => V c) ks ss a e = @val_player RNum V ks ss e.
Proof.
  revert ss a e; induction ks as [|c ks IH]; intros ss a e; destruct ss as [|p ss];
    cbn [goval val_player]; try reflexivity. apply IH.
Qed.

(** ** [cfr_inc] vanishes where the counterfactual reach is 0 *)
Definition oppw (pl : bool) (p1 p2 : R) : R := if pl then p2 else p1.

Lemma cfr_inc_zero chance sg pl i a n :
  forall pc p1 p2, pc * oppw pl p1 p2 = 0 -> cfr_inc chance sg pl i a n pc p1 p2 = 0.
Proof.
  induction n as [x|ci kids IH|pl' i' kids IH] using node_ind'; intros pc p1 p2 Hz; cbn [cfr_inc].
  - reflexivity.
  - generalize (@row RNum chance ci) as ps.
    induction IH as [|c ks Hc H IH']; intros ps; destruct ps as [|p ps]; cbn [sum_chance];
      try reflexivity.
    rewrite Hc, IH'; [lra|]. replace (pc * p * oppw pl p1 p2) with (p * (pc * oppw pl p1 p2)) by ring.
    rewrite Hz. lra.
  - assert (E : (if is_info pl' i' pl i
                 then cfw pl' pc p1 p2 * node_regret chance sg kids (sg pl' i') a else 0) = 0).
    { destruct (is_info pl' i' pl i) eqn:Ei; [|reflexivity].
      apply is_info_true in Ei as [-> _]. unfold cfw, oppw in *. destruct pl.
      - rewrite Hz. lra.
      - replace (- p1 * pc) with (- (pc * p1)) by ring. rewrite Hz. lra. }
    rewrite E, Rplus_0_l. clear E. generalize (sg pl' i') as ss.
    induction IH as [|c ks Hc H IH']; intros ss; destruct ss as [|p ss]; cbn [sum_player];
      try reflexivity.
    rewrite IH'. unfold oppw in *.
    destruct pl'; rewrite Hc; try lra; destruct pl; try assumption.
    + replace (pc * (p1 * p)) with (p * (pc * p1)) by ring. rewrite Hz. lra.
    + replace (pc * (p2 * p)) with (p * (pc * p2)) by ring. rewrite Hz. lra.
Qed.

(** ** Unfolding [eval] and [eincs] *)
Section Unfold.
  Context (chance : list (list R)) (draw : oracleR) (cpass ppass : N) (noff : nat) (me : bool)
          (sg : bool -> nat -> list R).
  Local Notation EV := (eval chance draw cpass ppass noff me sg).
  Local Notation EI := (eincs chance draw cpass ppass noff me sg).

  Lemma eval_Chance ci kids :
    EV (Chance ci kids) = pickf EV 0 kids (draw true ci cpass (@row RNum chance ci)).
  Proof. reflexivity. Qed.

  Lemma eval_Player pl i kids :
    EV (Player pl i kids) =
    if Bool.eqb pl me then @val_player RNum EV kids (sg pl i) 0
    else pickf EV 0 kids (pdraw draw ppass noff sg pl i).
  Proof. cbn [eval]. destruct (Bool.eqb pl me); [apply goval_val_player|reflexivity]. Qed.

  Lemma eincs_Term x : EI (Term x) = [].
  Proof. reflexivity. Qed.

  Lemma eincs_Chance ci kids :
    EI (Chance ci kids) = pickf EI [] kids (draw true ci cpass (@row RNum chance ci)).
  Proof. reflexivity. Qed.

  Lemma eincs_Player pl i kids :
    EI (Player pl i kids) =
    if Bool.eqb pl me
    then gotr (fun a c => EI c ++ [E_IReg pl i a (EV c)]) kids (sg pl i) O
         ++ [E_IRegAll pl i (EV (Player pl i kids))]
    else E_IStrat pl i :: pickf EI [] kids (pdraw draw ppass noff sg pl i).
  Proof. unfold eincs. cbn [etr]. destruct (Bool.eqb pl me); reflexivity. Qed.
End Unfold.

(** ** The external pass is the unsampled pass over one-hot tables *)
Definition sgn (me : bool) : R := if me then 1 else -1.

Lemma Rsum_all_zero (l : list R) : Forall (fun x => x = 0) l -> Rsum l = 0.
Proof. induction 1 as [|x l Hx H IH]; cbn [Rsum]; lra. Qed.

Section ExtChar.
  Context (chance : list (list R)) (draw : oracleR) (cpass ppass : N) (noff : nat)
          (sg : bool -> nat -> list R).
  Local Notation chance' := (samp_chance chance draw cpass).

  (** the strategies of the equivalent unsampled pass: the active player's own rows,
      the one-hot row of the sampled action for the other player *)
  Definition ext_sg (me : bool) : bool -> nat -> list R :=
    fun pl i => if Bool.eqb pl me then sg pl i
                else hot (length (sg pl i)) (pdraw draw ppass noff sg pl i).

  Lemma ext_sg_me me i : ext_sg me me i = sg me i.
  Proof. unfold ext_sg. now rewrite Bool.eqb_reflx. Qed.

  Lemma ext_sg_other me pl i :
    Bool.eqb pl me = false ->
    ext_sg me pl i = hot (length (sg pl i)) (pdraw draw ppass noff sg pl i).
  Proof. intros E. unfold ext_sg. now rewrite E. Qed.

  (** the value returned by the pass: the value of the one-hot profile, from the
      point of view of the active player *)
  Lemma eval_uval me n :
    ValShaped chance sg n ->
    eval chance draw cpass ppass noff me sg n = sgn me * uval chance' (ext_sg me) n.
  Proof.
    induction n as [x|ci kids IH|pl i kids IH] using node_ind'; intros HV;
      inversion HV as [|? ? EL HR HVk|? ? ? EL HR HVk]; subst.
    - cbn [eval uval]. unfold sgn. destruct me; lra.
    - rewrite eval_Chance. cbn [uval].
      rewrite pickf_nth, row_samp, <- EL, val_chance_hot, val_pick_nth, Rplus_0_l.
      destruct (nth_error kids _) as [c|] eqn:Ek; [|lra].
      apply nth_error_In in Ek. rewrite Forall_forall in *. apply IH; auto.
    - rewrite eval_Player. cbn [uval].
      destruct (Bool.eqb pl me) eqn:Epl.
      + apply Bool.eqb_prop in Epl. subst pl. rewrite ext_sg_me.
        rewrite <- val_player_scal. apply val_player_ext.
        rewrite Forall_forall in *. intros c Hc. apply IH; auto.
      + rewrite (ext_sg_other me pl i Epl).
        rewrite pickf_nth, <- EL, val_player_hot, Rplus_0_l.
        destruct (nth_error kids _) as [c|] eqn:Ek; [|lra].
        apply nth_error_In in Ek. rewrite Forall_forall in *. apply IH; auto.
  Qed.

  (** *** the regrets of the other player are not touched *)
  Lemma ext_reg_other me pl i a n :
    pl <> me ->
    forall x, In x (eincs chance draw cpass ppass noff me sg n) -> reg_of pl i a (tr x) = 0.
  Proof.
    intros Hne. induction n as [y|ci kids IH|pl' i' kids IH] using node_ind'; intros x Hx;
      try rewrite Forall_forall in IH.
    - destruct Hx.
    - rewrite eincs_Chance, pickf_nth in Hx.
      destruct (nth_error kids _) as [c|] eqn:Ek; [|destruct Hx].
      apply nth_error_In in Ek. eapply IH; eauto.
    - rewrite eincs_Player in Hx. destruct (Bool.eqb pl' me) eqn:Epl.
      + apply Bool.eqb_prop in Epl. subst pl'.
        assert (Eb : Bool.eqb me pl = false) by (apply Bool.eqb_false_iff; congruence).
        apply in_app_or in Hx as [Hx|[<-|[]]].
        * apply gotr_In in Hx as (j & c & Hj & _ & Hx).
          apply in_app_or in Hx as [Hx|[<-|[]]].
          -- apply nth_error_In in Hj. eapply IH; eauto.
          -- cbn [tr reg_of]. rewrite Eb. reflexivity.
        * cbn [tr reg_of]. rewrite Eb. reflexivity.
      + destruct Hx as [<-|Hx]; [reflexivity|]. rewrite pickf_nth in Hx.
        destruct (nth_error kids _) as [c|] eqn:Ek; [|destruct Hx].
        apply nth_error_In in Ek. eapply IH; eauto.
  Qed.

  Theorem ext_reg_sum_other me pl i a n :
    pl <> me -> reg_sum pl i a (map tr (eincs chance draw cpass ppass noff me sg n)) = 0.
  Proof.
    intros Hne. unfold reg_sum. apply Rsum_all_zero. apply Forall_forall. intros y Hy.
    apply in_map_iff in Hy as (z & <- & Hz). apply in_map_iff in Hz as (x & <- & Hx).
    eapply ext_reg_other; eauto.
  Qed.

  (** *** the regrets of the active player *)
  Section Own.
    Context (me : bool) (i a : nat).
    Local Notation EV := (eval chance draw cpass ppass noff me sg).
    Local Notation EI := (eincs chance draw cpass ppass noff me sg).
    Local Notation F := (cfr_inc chance' (ext_sg me) me i a).

    Definition ERS (c : nodeR) : Prop :=
      forall pc p1 p2, pc * oppw me p1 p2 = 1 -> reg_sum me i a (map tr (EI c)) = F c pc p1 p2.

    Lemma ext_reg_sum_loop i' ks :
      Forall ERS ks -> forall ss ai pc p1 p2, pc * oppw me p1 p2 = 1 ->
      reg_sum me i a (map tr (gotr (fun b c => EI c ++ [E_IReg me i' b (EV c)]) ks ss ai)) =
      (if Nat.eqb i' i then (if Nat.leb ai a then act_val EV ks ss (a - ai) else 0) else 0)
      + sum_player F me pc p1 p2 ks ss.
    Proof.
      induction 1 as [|c ks Hc H IH]; intros ss ai pc p1 p2 Hr; destruct ss as [|prob ss];
        cbn [gotr map sum_player act_val].
      1-3: unfold reg_sum; cbn [map Rsum]; destruct (Nat.eqb i' i); [destruct (Nat.leb ai a)|]; lra.
      rewrite !map_app, !reg_sum_app. cbn [map tr].
      rewrite (IH ss (S ai) pc p1 p2 Hr).
      rewrite (Hc pc (if me then p1 * prob else p1) (if me then p2 else p2 * prob))
        by (unfold oppw in *; destruct me; exact Hr).
      unfold reg_sum at 1. cbn [map Rsum reg_of]. rewrite Bool.eqb_reflx. cbn [andb].
      assert (EF : (if me then F c pc (p1 * prob) p2 else F c pc p1 (p2 * prob)) =
                   F c pc (if me then p1 * prob else p1) (if me then p2 else p2 * prob))
        by (destruct me; reflexivity).
      rewrite EF. set (Fc := F c pc _ _).
      destruct (Nat.eqb i' i); cbn [andb]; [|lra].
      destruct (Nat.eqb_spec ai a) as [->|Hne].
      - rewrite Nat.leb_refl, Nat.sub_diag.
        replace (Nat.leb (S a) a) with false by (symmetry; apply Nat.leb_gt; lia). lra.
      - destruct (Nat.leb_spec ai a) as [Hle|Hgt].
        + replace (Nat.leb (S ai) a) with true by (symmetry; apply Nat.leb_le; lia).
          replace (a - ai)%nat with (S (a - S ai)) by lia. lra.
        + replace (Nat.leb (S ai) a) with false by (symmetry; apply Nat.leb_gt; lia). lra.
    Qed.

    Theorem ext_reg_sum n : ValShaped chance sg n -> ERS n.
    Proof.
      induction n as [x|ci kids IH|pl' i' kids IH] using node_ind'; intros HV pc p1 p2 Hr;
        inversion HV as [|? ? EL HR HVk|? ? ? EL HR HVk]; subst.
      - reflexivity.
      - rewrite eincs_Chance, pickf_nth. cbn [cfr_inc]. rewrite row_samp, <- EL.
        rewrite sum_chance_hot by (intros; apply cfr_inc_zero_pc).
        destruct (nth_error kids _) as [c|] eqn:Ek; [|reflexivity].
        apply nth_error_In in Ek. rewrite Forall_forall in *. apply IH; auto.
        rewrite Rmult_1_r. exact Hr.
      - rewrite eincs_Player. cbn [cfr_inc]. destruct (Bool.eqb pl' me) eqn:Epl.
        + apply Bool.eqb_prop in Epl. subst pl'.
          rewrite map_app, reg_sum_app.
          rewrite (ext_reg_sum_loop i' kids) with (pc := pc) (p1 := p1) (p2 := p2); try assumption.
          2:{ rewrite Forall_forall in *. intros c Hc. apply IH; auto. }
          unfold reg_sum at 1. cbn [map tr Rsum reg_of]. rewrite Bool.eqb_reflx. cbn [andb].
          rewrite ext_sg_me. rewrite eval_Player, Bool.eqb_reflx.
          assert (EVk : Forall (fun c => EV c = sgn me * uval chance' (ext_sg me) c) kids).
          { rewrite Forall_forall in *. intros c Hc. apply eval_uval; auto. }
          rewrite (val_player_ext _ _ kids (sg me i') 0 EVk), val_player_scal.
          rewrite (act_val_ext _ _ kids (sg me i') _ EVk), act_val_scal.
          cbn [Nat.leb]. rewrite Nat.sub_0_r.
          unfold is_info. rewrite Bool.eqb_reflx. cbn [andb].
          assert (Ecfw : cfw me pc p1 p2 = sgn me).
          { unfold cfw, sgn, oppw in *. destruct me; lra. }
          rewrite Ecfw. unfold node_regret.
          destruct (Nat.eqb i' i); lra.
        + replace (is_info pl' i' me i) with false.
          2:{ symmetry. unfold is_info. now rewrite Epl. }
          rewrite Rplus_0_l. cbn [map tr]. unfold reg_sum. cbn [map Rsum reg_of].
          rewrite Rplus_0_l. fold (reg_sum me i a (map tr (pickf EI [] kids (pdraw draw ppass noff sg pl' i')))).
          rewrite (ext_sg_other me pl' i' Epl), <- EL, pickf_nth.
          assert (Hne : pl' <> me) by (now apply Bool.eqb_false_iff).
          rewrite sum_player_hot.
          2:{ intros c. destruct pl'; apply cfr_inc_zero; unfold oppw in *;
                destruct me; try congruence; ring. }
          destruct (nth_error kids _) as [c|] eqn:Ek; [|reflexivity].
          apply nth_error_In in Ek. rewrite Forall_forall in *.
          destruct pl'; apply IH; auto; unfold oppw in *; destruct me; try congruence;
            rewrite Rmult_1_r; exact Hr.
    Qed.
  End Own.
End ExtChar.

(** ** In-range draws *)
Definition DrawsInRange (draw : oracleR) : Prop :=
  forall kind id pass (w : list R), w <> [] -> (draw kind id pass w < length w)%nat.

Lemma VRow_ne (r : list R) : VRow r -> r <> [].
Proof. intros H E. apply (VRow_nonempty _ H). now rewrite E. Qed.

Lemma ValShaped_ext chance draw cpass ppass noff sg me n :
  DrawsInRange draw -> ValShaped chance sg n ->
  ValShaped (samp_chance chance draw cpass) (ext_sg draw ppass noff sg me) n.
Proof.
  intros HD. induction n as [x|ci kids IH|pl i kids IH] using node_ind'; intros HV;
    inversion HV as [|? ? EL HR HVk|? ? ? EL HR HVk]; subst.
  - constructor.
  - constructor.
    + rewrite row_samp, hot_length. exact EL.
    + rewrite row_samp. apply hot_VRow. apply HD. now apply VRow_ne.
    + rewrite Forall_forall in *. intros c Hc. apply IH; auto.
  - constructor.
    + unfold ext_sg. destruct (Bool.eqb pl me); [exact EL|now rewrite hot_length].
    + unfold ext_sg. destruct (Bool.eqb pl me); [exact HR|].
      apply hot_VRow. unfold pdraw. apply HD. now apply VRow_ne.
    + rewrite Forall_forall in *. intros c Hc. apply IH; auto.
Qed.

Lemma ext_sg_rows draw ppass noff sg me :
  (forall pl i, Forall (fun p => 0 <= p) (sg pl i) /\ Rsum (sg pl i) <= 1) ->
  forall pl i, Forall (fun p => 0 <= p) (ext_sg draw ppass noff sg me pl i) /\
               Rsum (ext_sg draw ppass noff sg me pl i) <= 1.
Proof.
  intros H pl i. unfold ext_sg. destruct (Bool.eqb pl me); [apply H|].
  split; [apply hot_nonneg|apply hot_sum_le].
Qed.

Lemma SubShaped_ext chance draw cpass ppass noff sg me n :
  ValShaped chance sg n ->
  SubShaped (samp_chance chance draw cpass) (ext_sg draw ppass noff sg me) n.
Proof.
  induction n as [x|ci kids IH|pl i kids IH] using node_ind'; intros HV;
    inversion HV as [|? ? EL HR HVk|? ? ? EL HR HVk]; subst.
  - constructor.
  - constructor.
    + rewrite row_samp, hot_length. exact EL.
    + rewrite row_samp. apply hot_SRow.
    + rewrite Forall_forall in *. intros c Hc. apply IH; auto.
  - constructor.
    + unfold ext_sg. destruct (Bool.eqb pl me); [exact EL|now rewrite hot_length].
    + unfold ext_sg. destruct (Bool.eqb pl me); [now apply VRow_SRow|apply hot_SRow].
    + rewrite Forall_forall in *. intros c Hc. apply IH; auto.
Qed.

(** ** The state after one pass *)
Section ExtState.
  Context (chance : list (list R)) (draw : oracleR) (cpass ppass : N) (noff : nat) (me : bool)
          (n : nodeR) (st : pstateR).
  Local Notation st' := (snd (@erec RNum chance draw cpass ppass noff me n st)).

  Lemma erec_state_strat pl i : strat (ri_get st' pl i) = strat (ri_get st pl i).
  Proof. exact (erec_strat_view chance draw cpass ppass noff me n st pl i). Qed.

  Theorem erec_state_other pl i :
    pl <> me -> cum_regret (ri_get st' pl i) = cum_regret (ri_get st pl i).
  Proof.
    intros Hne. rewrite erec_incs. cbn [snd]. rewrite e_fold_tr.
    apply (nth_ext _ _ 0 0).
    - apply fold_incr_regret_len.
    - intros a Ha. rewrite fold_incr_regret_len in Ha.
      rewrite fold_incr_regret_nth by assumption.
      rewrite ext_reg_sum_other by assumption. apply Rplus_0_r.
  Qed.

  Theorem erec_state_regret i :
    reg_ok st me i -> ValShaped chance (strat_view st) n ->
    cum_regret (ri_get st' me i) =
    vadd (cum_regret (ri_get st me i))
         (cfr_incs (samp_chance chance draw cpass) (ext_sg draw ppass noff (strat_view st) me)
                   me i n 1 1 1).
  Proof.
    unfold reg_ok. intros E HV.
    set (r := cfr_incs _ _ me i n 1 1 1).
    assert (EL : length (cum_regret (ri_get st me i)) = length r).
    { unfold r, cfr_incs. rewrite map_length, seq_length, ext_sg_me. exact E. }
    rewrite erec_incs. cbn [snd]. rewrite e_fold_tr.
    change (e_strat_view st) with (strat_view st).
    apply (nth_ext _ _ 0 0).
    - rewrite fold_incr_regret_len, vadd_length; auto.
    - intros a Ha. rewrite fold_incr_regret_len in Ha.
      rewrite fold_incr_regret_nth, vadd_nth by assumption. f_equal.
      rewrite (ext_reg_sum chance draw cpass ppass noff (strat_view st) me i a n HV 1 1 1)
        by (unfold oppw; destruct me; lra).
      unfold r, cfr_incs. symmetry. apply nth_map_seq. rewrite ext_sg_me.
      unfold strat_view. tR. lia.
  Qed.
End ExtState.

(** ** The external-sampling method *)
Lemma KI_ext (lo hi : R) (A t : nat) (ri ri' : rinfoR) :
  KI lo hi A t ri -> cum_regret ri' = cum_regret ri -> strat ri' = strat ri -> KI lo hi A t ri'.
Proof. unfold KI. intros H -> ->. exact H. Qed.

Lemma nth_map_lt {X Y} (f : X -> Y) (l : list X) i d d' :
  (i < length l)%nat -> nth i (map f l) d' = f (nth i l d).
Proof.
  intros Hi. rewrite (nth_indep _ d' (f d)) by (now rewrite map_length). apply map_nth.
Qed.

Section ExternalRateGen.
  Context (g : gameR) (draw : oracleR) (p : paramsR) (lo hi : R) (A : nat).
  Context (HWF : WFgame g) (HPR : PerfectRecall g) (HCO : ChanceOK g)
          (HPay : PayoffsIn lo hi (g_root g))
          (HA : forall pl, Forall (fun a => (a <= A)%nat) (arities g pl)).

  Local Notation D := (hi - lo).
  Local Notation IA := (InvA (arities g true) (arities g false)).
  Local Notation noff := (length (g_infos1 g)).

  Lemma IA_len (st : pstateR) pl : IA st -> length (ps_get st pl) = NI g pl.
  Proof.
    intros HI.
    assert (HF : Forall2 RInvA (arities g pl) (ps_get st pl)) by (destruct HI; destruct pl; assumption).
    apply Forall2_len in HF. unfold NI. rewrite <- HF. unfold arities. apply map_length.
  Qed.

  (** what is needed of the oracle: every regret increment of a pass is bounded by the
      payoff range *)
  Definition ExtIncBounded : Prop :=
    forall (st : pstateR) cpass ppass me i a,
      IA st -> (a < length (strat_view st me i))%nat ->
      Rabs (cfr_inc (samp_chance (g_chance g) draw cpass)
                    (ext_sg draw ppass noff (strat_view st) me) me i a (g_root g) 1 1 1) <= D.

  (** in-range draws *)
  Lemma ext_inc_bounded : DrawsInRange draw -> ExtIncBounded.
  Proof.
    intros HDraw st cpass ppass me i a HI Ha. destruct HWF as (HS & _). destruct HPR as (H & HH).
    apply (cfr_inc_bound_tree _ _ lo hi me i a (g_root g) (H me i)).
    - apply samp_rows.
    - apply ext_sg_rows. apply Inv_rows. eapply Inv_of_InvA; eauto.
    - intros h Hh. now apply HH.
    - apply ValShaped_ext; [assumption|]. now apply shaped_ValShaped.
    - exact HPay.
    - rewrite ext_sg_me. exact Ha.
  Qed.

  (** any draws, when 0 is in the payoff range *)
  Lemma ext_inc_bounded_zero : lo <= 0 <= hi -> ExtIncBounded.
  Proof.
    intros H0 st cpass ppass me i a HI Ha. destruct HWF as (HS & _). destruct HPR as (H & HH).
    apply (cfr_inc_bound_tree_sub _ _ lo hi me i a (g_root g) (H me i) H0).
    - apply samp_rows.
    - apply ext_sg_rows. apply Inv_rows. eapply Inv_of_InvA; eauto.
    - intros h Hh. now apply HH.
    - apply SubShaped_ext. now apply shaped_ValShaped.
    - exact HPay.
    - rewrite ext_sg_me. exact Ha.
  Qed.

  Context (HB : ExtIncBounded).

  (** one pass followed by [advance]: the potential of the active player's infosets *)
  Lemma pass_KI (st : pstateR) me cpass ppass t it ia i :
    IA st -> (i < length (ps_get st me))%nat -> KI lo hi A t (@ri_get RNum st me i) ->
    KI lo hi A (S t)
       (fst (@advance RNum p it ia
               (@ri_get RNum (snd (@erec RNum (g_chance g) draw cpass ppass noff me (g_root g) st))
                        me i))).
  Proof.
    intros HI Hi HK.
    pose proof (Inv_of_InvA _ _ _ HI) as HInv.
    assert (HV : ValShaped (g_chance g) (strat_view st) (g_root g)).
    { destruct HWF as (HS & _). now apply shaped_ValShaped. }
    pose proof (erec_state_regret (g_chance g) draw cpass ppass noff me (g_root g) st i
                  (Inv_reg_ok st me i HInv) HV) as H1.
    pose proof (erec_state_strat (g_chance g) draw cpass ppass noff me (g_root g) st me i) as H3.
    set (ri := @ri_get RNum st me i) in *.
    set (ch := samp_chance (g_chance g) draw cpass) in *.
    set (sg' := ext_sg draw ppass noff (strat_view st) me) in *.
    set (r := cfr_incs ch sg' me i (g_root g) 1 1 1) in *.
    assert (Esg : sg' me i = strat ri) by (unfold sg'; now rewrite ext_sg_me).
    assert (Hlr : length r = length (strat ri)).
    { unfold r, cfr_incs. now rewrite map_length, seq_length, Esg. }
    assert (Hlc : length (cum_regret ri) = length r).
    { rewrite Hlr. apply (Inv_reg_ok st me i HInv). }
    assert (Horth : dot (strat ri) r = 0).
    { rewrite <- Esg. apply cfr_inc_orthogonal. rewrite Esg.
      apply (Inv_strat_sum st me i HInv Hi). }
    assert (Hsq : sqsum r <= INR A * (D * D)).
    { apply sqsum_le_A.
      - exact (D_nonneg g lo hi HWF HCO HPay).
      - rewrite Hlr. apply (arity_le g A HA st me i HI Hi).
      - unfold r, cfr_incs. apply Forall_forall. intros y Hy.
        apply in_map_iff in Hy as (a & <- & Ha). apply in_seq in Ha. rewrite Esg in Ha.
        apply HB; try assumption. unfold strat_view. fold ri. tR. lia. }
    eapply KI_advance; eauto.
  Qed.

  (** ... and of the other player's infosets (unchanged) *)
  Lemma pass_other (st : pstateR) me cpass ppass t pl i :
    pl <> me -> KI lo hi A t (@ri_get RNum st pl i) ->
    KI lo hi A t (@ri_get RNum (snd (@erec RNum (g_chance g) draw cpass ppass noff me (g_root g) st))
                          pl i).
  Proof.
    intros Hne HK. eapply KI_ext; [exact HK| |].
    - now apply erec_state_other.
    - apply erec_state_strat.
  Qed.

  Lemma KI_sqpos t (l : list rinfoR) :
    (forall i, (i < length l)%nat -> KI lo hi A t (nth i l (@mkRinfo RNum [] [] []))) ->
    forall ri, In ri l -> sqpos (cum_regret ri) <= INR t * (INR A * (D * D)).
  Proof.
    intros H ri Hin. apply In_nth with (d := @mkRinfo RNum [] [] []) in Hin as (i & Hi & <-).
    exact (proj1 (H i Hi)).
  Qed.

  Lemma iter_rate_external it (st : pstateR) :
    (1 <= it)%N -> K g lo hi A (N.to_nat it - 1) st ->
    K g lo hi A (N.to_nat it) (fst (@one_iter RNum g External draw p it st)) /\
    Bnd g lo hi A it (fst (snd (@one_iter RNum g External draw p it st)))
        (snd (snd (@one_iter RNum g External draw p it st))).
  Proof.
    intros Hit [HI HK].
    pose proof (one_iter_inv _ _ g External draw p it st HI) as HIf.
    cbn [one_iter] in *. rewrite external_iter_eq in *. cbv zeta in *. cbn [fst snd] in *.
    set (t := (N.to_nat it - 1)%nat) in *.
    replace (N.to_nat it) with (S t) by (unfold t; lia).
    set (d := @mkRinfo RNum [] [] []).
    set (st1 := snd (erec _ _ _ _ _ true _ st)) in *.
    assert (HI1 : IA st1) by (apply erec_inv; assumption).
    rewrite (advance_all_map p it (it - 1)%N (fst st1) 0) in *. cbn [fst snd] in *.
    set (f1 := fun ri => fst (@advance RNum p it (it - 1)%N ri)) in *.
    set (st2 := (map f1 (fst st1), snd st1)) in *.
    assert (HI2 : IA st2).
    { destruct HI1 as [H1 H2]. split; cbn [fst snd]; [|assumption].
      pose proof (advance_all_inv _ p it (it - 1)%N (fst st1) 0 H1) as H.
      rewrite advance_all_map in H. exact H. }
    set (st3 := snd (erec _ _ _ _ _ false _ st2)) in *.
    assert (HI3 : IA st3) by (apply erec_inv; assumption).
    rewrite (advance_all_map p it it (snd st3) 0) in *. cbn [fst snd] in *.
    set (f2 := fun ri => fst (@advance RNum p it it ri)) in *.
    (* lengths *)
    pose proof (IA_len st true HI) as L0t. pose proof (IA_len st false HI) as L0f.
    pose proof (IA_len st1 true HI1) as L1t. pose proof (IA_len st1 false HI1) as L1f.
    pose proof (IA_len st2 true HI2) as L2t. pose proof (IA_len st2 false HI2) as L2f.
    pose proof (IA_len st3 true HI3) as L3t. pose proof (IA_len st3 false HI3) as L3f.
    cbn [ps_get fst snd] in L0t, L0f, L1t, L1f, L2t, L2f, L3t, L3f.
    (* pass one *)
    assert (P1 : forall i, (i < NI g true)%nat -> KI lo hi A (S t) (f1 (@ri_get RNum st1 true i))).
    { intros i Hi. apply pass_KI; [assumption|cbn [ps_get]; lia|apply HK; cbn [ps_get]; lia]. }
    assert (Q1 : forall i, (i < NI g false)%nat -> KI lo hi A t (@ri_get RNum st1 false i)).
    { intros i Hi. apply pass_other; [discriminate|apply HK; cbn [ps_get]; lia]. }
    assert (P1' : forall i, (i < NI g true)%nat -> KI lo hi A (S t) (@ri_get RNum st2 true i)).
    { intros i Hi. unfold st2, ri_get, ps_get. cbn [fst].
      rewrite (nth_map_lt f1 (fst st1) i d) by lia. apply P1. exact Hi. }
    (* pass two *)
    assert (P2 : forall i, (i < NI g false)%nat -> KI lo hi A (S t) (f2 (@ri_get RNum st3 false i))).
    { intros i Hi. apply pass_KI; [assumption|cbn [ps_get]; lia|]. apply Q1. exact Hi. }
    assert (Q2 : forall i, (i < NI g true)%nat -> KI lo hi A (S t) (@ri_get RNum st3 true i)).
    { intros i Hi. apply pass_other; [discriminate|now apply P1']. }
    pose proof (D_nonneg g lo hi HWF HCO HPay) as HD.
    split; [split|split].
    - exact HIf.
    - intros pl i Hi. destruct pl; cbn [ps_get fst snd] in Hi.
      + apply Q2. lia.
      + rewrite map_length in Hi. unfold ri_get, ps_get. cbn [snd].
        rewrite (nth_map_lt f2 (snd st3) i d) by lia. apply P2. lia.
    - rewrite Rplus_0_l.
      replace (map (fun ri => snd (@advance RNum p it (it - 1)%N ri)) (fst st1))
        with (map (info_bound it) (map f1 (fst st1)))
        by (rewrite map_map; apply map_ext; intros ri; symmetry; apply advance_bound).
      replace (S t) with (N.to_nat it) by (unfold t; lia).
      apply (list_bound lo hi A it _ (NI g true) HD Hit); [now rewrite map_length|].
      replace (N.to_nat it) with (S t) by (unfold t; lia).
      apply KI_sqpos. intros i Hi. rewrite map_length in Hi.
      rewrite (nth_map_lt f1 (fst st1) i d) by lia. apply P1. lia.
    - rewrite Rplus_0_l.
      replace (map (fun ri => snd (@advance RNum p it it ri)) (snd st3))
        with (map (info_bound it) (map f2 (snd st3)))
        by (rewrite map_map; apply map_ext; intros ri; symmetry; apply advance_bound).
      replace (S t) with (N.to_nat it) by (unfold t; lia).
      apply (list_bound lo hi A it _ (NI g false) HD Hit); [now rewrite map_length|].
      replace (N.to_nat it) with (S t) by (unfold t; lia).
      apply KI_sqpos. intros i Hi. rewrite map_length in Hi.
      rewrite (nth_map_lt f2 (snd st3) i d) by lia. apply P2. lia.
  Qed.

  Theorem external_bound_rate_gen budget (stop : R -> bool) strats b1 b2 ran :
    @solve_single RNum g External draw p budget stop = (strats, Some (b1, b2), ran) ->
    (1 <= ran)%N /\
    b1 * sqrt (INR (N.to_nat ran)) <= 2 * D * INR (length (g_infos g true)) * sqrt (INR A) /\
    b2 * sqrt (INR (N.to_nat ran)) <= 2 * D * INR (length (g_infos g false)) * sqrt (INR A).
  Proof. apply (solve_rate_gen g External draw p lo hi A iter_rate_external HWF). Qed.
End ExternalRateGen.

(** *** The theorem: every [params], every in-range oracle, every stop predicate *)
Theorem external_bound_rate (g : gameR) (draw : oracleR) (p : paramsR) (lo hi : R) (A : nat) :
  WFgame g -> PerfectRecall g -> ChanceOK g -> PayoffsIn lo hi (g_root g) ->
  (forall pl, Forall (fun a => (a <= A)%nat) (arities g pl)) ->
  DrawsInRange draw ->
  forall budget (stop : R -> bool) strats b1 b2 ran,
  @solve_single RNum g External draw p budget stop = (strats, Some (b1, b2), ran) ->
  (1 <= ran)%N /\
  b1 * sqrt (INR (N.to_nat ran)) <= 2 * (hi - lo) * INR (length (g_infos g true)) * sqrt (INR A) /\
  b2 * sqrt (INR (N.to_nat ran)) <= 2 * (hi - lo) * INR (length (g_infos g false)) * sqrt (INR A).
Proof.
  intros HWF HPR HCO HPay HA HD. apply external_bound_rate_gen; try assumption.
  now apply ext_inc_bounded.
Qed.

(** *** ... and literally every oracle when the payoff range contains 0 *)
Theorem external_bound_rate_any_draw (g : gameR) (draw : oracleR) (p : paramsR) (lo hi : R) (A : nat) :
  WFgame g -> PerfectRecall g -> ChanceOK g -> PayoffsIn lo hi (g_root g) ->
  (forall pl, Forall (fun a => (a <= A)%nat) (arities g pl)) ->
  lo <= 0 <= hi ->
  forall budget (stop : R -> bool) strats b1 b2 ran,
  @solve_single RNum g External draw p budget stop = (strats, Some (b1, b2), ran) ->
  (1 <= ran)%N /\
  b1 * sqrt (INR (N.to_nat ran)) <= 2 * (hi - lo) * INR (length (g_infos g true)) * sqrt (INR A) /\
  b2 * sqrt (INR (N.to_nat ran)) <= 2 * (hi - lo) * INR (length (g_infos g false)) * sqrt (INR A).
Proof.
  intros HWF HPR HCO HPay HA H0. apply external_bound_rate_gen; try assumption.
  now apply ext_inc_bounded_zero.
Qed.

Corollary external_bound_rate_div (g : gameR) (draw : oracleR) (p : paramsR) (lo hi : R) (A : nat) :
  WFgame g -> PerfectRecall g -> ChanceOK g -> PayoffsIn lo hi (g_root g) ->
  (forall pl, Forall (fun a => (a <= A)%nat) (arities g pl)) ->
  DrawsInRange draw \/ lo <= 0 <= hi ->
  forall budget (stop : R -> bool) strats b1 b2 ran,
  @solve_single RNum g External draw p budget stop = (strats, Some (b1, b2), ran) ->
  b1 <= 2 * (hi - lo) * INR (num_infosets g) * sqrt (INR A) / sqrt (INR (N.to_nat ran)) /\
  b2 <= 2 * (hi - lo) * INR (num_infosets g) * sqrt (INR A) / sqrt (INR (N.to_nat ran)).
Proof.
  intros HWF HPR HCO HPay HA HD budget stop strats b1 b2 ran H.
  assert (HR : (1 <= ran)%N /\
    b1 * sqrt (INR (N.to_nat ran)) <= 2 * (hi - lo) * INR (length (g_infos g true)) * sqrt (INR A) /\
    b2 * sqrt (INR (N.to_nat ran)) <= 2 * (hi - lo) * INR (length (g_infos g false)) * sqrt (INR A)).
  { destruct HD as [HD|HD].
    - eapply external_bound_rate; eauto.
    - eapply external_bound_rate_any_draw; eauto. }
  destruct HR as (Hr & H1 & H2).
  apply rate_div_form; try assumption. exact (D_nonneg g lo hi HWF HCO HPay).
Qed.

(** ** Examples (non-vacuity) *)
Example mp_rate_external (draw : oracleR) (p : paramsR) budget (stop : R -> bool) strats b1 b2 ran :
  DrawsInRange draw ->
  @solve_single RNum mp_game External draw p budget stop = (strats, Some (b1, b2), ran) ->
  (1 <= ran)%N /\
  b1 * sqrt (INR (N.to_nat ran)) <= 4 * sqrt 2 /\
  b2 * sqrt (INR (N.to_nat ran)) <= 4 * sqrt 2.
Proof.
  intros HD H.
  destruct (external_bound_rate mp_game draw p (-1) 1 2 mp_WF mp_PR mp_ChanceOK mp_Payoffs
              mp_arities HD budget stop strats b1 b2 ran H) as (Hr & H1 & H2).
  cbn [mp_game g_infos g_infos1 g_infos2 length INR] in H1, H2.
  replace (sqrt (1 + 1)) with (sqrt 2) in H1, H2 by (f_equal; lra).
  split; [exact Hr|]. split; lra.
Qed.

Example seq_rate_external (draw : oracleR) (p : paramsR) budget (stop : R -> bool) strats b1 b2 ran :
  DrawsInRange draw ->
  @solve_single RNum seq_game External draw p budget stop = (strats, Some (b1, b2), ran) ->
  (1 <= ran)%N /\ b1 * sqrt (INR (N.to_nat ran)) <= 8 * sqrt 2 /\ b2 * sqrt (INR (N.to_nat ran)) <= 0.
Proof.
  intros HD H.
  destruct (external_bound_rate seq_game draw p 0 2 2 seq_WF seq_PR seq_ChanceOK seq_Payoffs
              seq_arities HD budget stop strats b1 b2 ran H) as (Hr & H1 & H2).
  cbn [seq_game g_infos g_infos1 g_infos2 length INR] in H1, H2.
  replace (sqrt (1 + 1)) with (sqrt 2) in H1, H2 by (f_equal; lra).
  split; [exact Hr|]. split; lra.
Qed.

(** two in-range oracles: always the first alternative; alternate with the pass number *)
Definition first_draw : oracleR := fun _ _ _ _ => 0%nat.
Definition mod_draw : oracleR := fun _ _ pass w => (N.to_nat pass mod length w)%nat.

Lemma first_draw_ok : DrawsInRange first_draw.
Proof. intros kind id pass w Hw. unfold first_draw. destruct w; [congruence|cbn [length]; lia]. Qed.

Lemma mod_draw_ok : DrawsInRange mod_draw.
Proof.
  intros kind id pass w Hw. unfold mod_draw. apply Nat.mod_upper_bound.
  destruct w; [congruence|cbn [length]; lia].
Qed.

Example mp_rate_external_exists (p : paramsR) budget (stop : R -> bool) :
  budget <> 0%nat ->
  exists strats b1 b2 ran,
    @solve_single RNum mp_game External mod_draw p budget stop = (strats, Some (b1, b2), ran) /\
    b1 * sqrt (INR (N.to_nat ran)) <= 4 * sqrt 2 /\ b2 * sqrt (INR (N.to_nat ran)) <= 4 * sqrt 2.
Proof.
  intros Hb.
  destruct (@solve_single RNum mp_game External mod_draw p budget stop)
    as [[strats regs] ran] eqn:E.
  pose proof (solve_single_shape mp_game External mod_draw p budget stop) as HS.
  cbv zeta in HS. rewrite E in HS. cbn [fst snd] in HS. destruct HS as (HS & _).
  destruct regs as [[b1 b2]|]; [|exfalso; apply Hb; now apply HS].
  exists strats, b1, b2, ran. split; [reflexivity|].
  destruct (mp_rate_external mod_draw p budget stop strats b1 b2 ran mod_draw_ok E) as (_ & H1 & H2).
  split; assumption.
Qed.

(** with payoffs in [[-1, 1]] the rate holds for *every* oracle, in range or not *)
Example mp_rate_external_any (draw : oracleR) (p : paramsR) budget (stop : R -> bool) strats b1 b2 ran :
  @solve_single RNum mp_game External draw p budget stop = (strats, Some (b1, b2), ran) ->
  (1 <= ran)%N /\
  b1 * sqrt (INR (N.to_nat ran)) <= 4 * sqrt 2 /\
  b2 * sqrt (INR (N.to_nat ran)) <= 4 * sqrt 2.
Proof.
  intros H.
  destruct (external_bound_rate_any_draw mp_game draw p (-1) 1 2 mp_WF mp_PR mp_ChanceOK mp_Payoffs
              mp_arities ltac:(lra) budget stop strats b1 b2 ran H) as (Hr & H1 & H2).
  cbn [mp_game g_infos g_infos1 g_infos2 length INR] in H1, H2.
  replace (sqrt (1 + 1)) with (sqrt 2) in H1, H2 by (f_equal; lra).
  split; [exact Hr|]. split; lra.
Qed.
