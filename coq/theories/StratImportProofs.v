(** * StratImportProofs: what the scan-based import ([strat_into_box_slow], model
    [import_slow_player]) computes, declaratively.

    The dense vector under construction is represented by a *weight function*
    [F : infoset -> action -> T] ([rows_of infos F]); an input entry [(I, a, w)] updates
    [F] at [(I, a)].  With unique infoset names and unique actions this representation
    is exact, and the result of the whole loop is "the last weight given to [(I, a)]"
    ([w_from], [w_last]).

    This file is generic in the arithmetic ([NN : Num]); the normalisation step and the
    theorems over the reals are in [StratImportRProofs.v]. *)
From Coq Require Import List NArith Bool Arith Lia.
From Cfr.theories Require Import Num Tree Strat StratIterProofs StratAgreeProofs.
Import ListNotations.

(** ** list lemmas *)
Lemma upd_app_r {A} (pre l : list A) i v : upd (pre ++ l) (length pre + i) v = pre ++ upd l i v.
Proof. induction pre as [|x pre IH]; cbn [app length Nat.add upd]; [reflexivity|now rewrite IH]. Qed.

Lemma upd_app_l {A} (l post : list A) i v : i < length l -> upd (l ++ post) i v = upd l i v ++ post.
Proof.
  revert i; induction l as [|x l IH]; intros [|i] H; cbn [length] in H; try lia; cbn [app upd]; [reflexivity|].
  rewrite IH by lia. reflexivity.
Qed.

Lemma upd_nth_same {A} (l : list A) i d : upd l i (nth i l d) = l.
Proof. revert i; induction l as [|x l IH]; intros [|i]; cbn [upd nth]; try reflexivity. now rewrite IH. Qed.

Lemma nth_map_lt {A B} (G : A -> B) l i d d' : i < length l -> nth i (map G l) d' = G (nth i l d).
Proof.
  revert i; induction l as [|x l IH]; intros [|i] H; cbn [length] in H; try lia; cbn [map nth]; [reflexivity|].
  apply IH; lia.
Qed.

Lemma map_const_repeat {A B} (z : B) (l : list A) : map (fun _ => z) l = repeat z (length l).
Proof. induction l as [|x l IH]; cbn [map length repeat]; [reflexivity|now rewrite IH]. Qed.

Lemma fold_left_add_acc l a : fold_left Nat.add l a = a + fold_left Nat.add l 0.
Proof.
  revert a; induction l as [|x l IH]; intros a; cbn [fold_left]; [lia|].
  rewrite (IH (a + x)), (IH (0 + x)). lia.
Qed.

Lemma upd_concat {A} (rows : list (list A)) : forall pre ind ai v,
  ind < length rows -> ai < length (nth ind rows []) ->
  upd (pre ++ concat rows) (nth ind (offsets (map (@length A) rows) (length pre)) 0 + ai) v =
  pre ++ concat (upd rows ind (upd (nth ind rows []) ai v)).
Proof.
  induction rows as [|r rows IH]; intros pre ind ai v Hi Ha; cbn [length] in Hi; [lia|].
  destruct ind as [|k]; cbn [map offsets nth concat upd] in *.
  - rewrite upd_app_r, upd_app_l by assumption. reflexivity.
  - rewrite <- app_length. rewrite app_assoc. rewrite IH by (assumption || lia).
    now rewrite <- app_assoc.
Qed.

(** updating the image of the unique element with key [k] *)
Lemma upd_map_key {A B} (key : A -> N) (k : N) (f : A -> bool) (G G' : A -> B) (v : B) :
  (forall y, f y = true <-> key y = k) ->
  forall l, NoDup (map key l) ->
  forall i x, find_index f l = Some (i, x) ->
  G' x = v -> (forall y, In y l -> f y = false -> G' y = G y) ->
  upd (map G l) i v = map G' l.
Proof.
  intros Hf; induction l as [|y r IH]; intros Hnd i x Hfi Hx Hy; cbn [find_index] in Hfi; [discriminate|].
  cbn [map] in Hnd. apply NoDup_cons_iff in Hnd as [Hk Hr]. cbn [map].
  destruct (f y) eqn:E.
  - inversion Hfi; subst i x. cbn [upd]. rewrite Hx. f_equal.
    apply map_ext_in. intros z Hz. symmetry. apply Hy; [now right|].
    destruct (f z) eqn:Ez; [|reflexivity]. exfalso. apply Hk.
    apply Hf in E, Ez. rewrite E, <- Ez. now apply in_map.
  - destruct (find_index f r) as [[j z]|] eqn:Er; [|discriminate]. inversion Hfi; subst i x.
    cbn [upd]. rewrite (Hy y (or_introl eq_refl) E). f_equal.
    apply (IH Hr j z eq_refl Hx). intros w Hw. apply Hy. now right.
Qed.

Section Import.
  Context {NN : Num}.
  Local Notation T := (T NN).

  (** ** the input as a flat list of (infoset, action, weight) triples *)
  Definition tr (name : N) (es : list (N * T)) : list (N * N * T) :=
    map (fun e => (name, fst e, snd e)) es.

  Definition triples (strat : list (N * list (N * T))) : list (N * N * T) :=
    flat_map (fun it => tr (fst it) (snd it)) strat.

  Definition hits (I a : N) (t : N * N * T) : bool :=
    N.eqb (fst (fst t)) I && N.eqb (snd (fst t)) a.

  (** the weight of [(I, a)] after the triples [ts], starting from [d]: every triple for
      [(I, a)] overwrites the previous value *)
  Definition w_from (ts : list (N * N * T)) (I a : N) (d : T) : T :=
    fold_left (fun acc t => if hits I a t then snd t else acc) ts d.

  (** the final weight of [(I, a)] in an input: the last one given, zero if none *)
  Definition w_last (strat : list (N * list (N * T))) (I a : N) : T :=
    w_from (triples strat) I a (zero NN).

  Lemma w_from_app ts1 ts2 I a d : w_from (ts1 ++ ts2) I a d = w_from ts2 I a (w_from ts1 I a d).
  Proof. unfold w_from. apply fold_left_app. Qed.

  (** the same, read off the reversed list: the *last* entry for [(I, a)] *)
  Lemma w_from_find ts I a d :
    w_from ts I a d = match find (hits I a) (rev ts) with Some t => snd t | None => d end.
  Proof.
    induction ts as [|t ts IH] using rev_ind; [reflexivity|].
    rewrite w_from_app, rev_app_distr. cbn [rev app find w_from fold_left].
    destruct (hits I a t); [reflexivity|exact IH].
  Qed.

  Lemma w_from_nohit ts I a d : (forall t, In t ts -> hits I a t = false) -> w_from ts I a d = d.
  Proof.
    revert d; induction ts as [|t ts IH]; intros d H; [reflexivity|].
    cbn [w_from fold_left]. rewrite (H t (or_introl eq_refl)). apply IH. intros u Hu. apply H. now right.
  Qed.

  Lemma w_from_cases ts I a d :
    w_from ts I a d = d \/ exists t, In t ts /\ hits I a t = true /\ w_from ts I a d = snd t.
  Proof.
    rewrite w_from_find. destruct (find (hits I a) (rev ts)) as [t|] eqn:E; [right|now left].
    apply find_some in E as [Hin Hh]. exists t. rewrite <- in_rev in Hin. auto.
  Qed.

  Lemma triples_app s1 s2 : triples (s1 ++ s2) = triples s1 ++ triples s2.
  Proof. unfold triples. apply flat_map_app. Qed.

  Lemma triples_cons name es rest : triples ((name, es) :: rest) = tr name es ++ triples rest.
  Proof. reflexivity. Qed.

  Lemma in_triples t strat :
    In t (triples strat) <-> exists it e, In it strat /\ In e (snd it) /\ t = (fst it, fst e, snd e).
  Proof.
    unfold triples. rewrite in_flat_map. split.
    - intros (it & Hit & Ht). unfold tr in Ht. apply in_map_iff in Ht as (e & <- & He). now exists it, e.
    - intros (it & e & Hit & He & ->). exists it. split; [assumption|]. unfold tr. apply in_map_iff. now exists e.
  Qed.

  Lemma hits_tr_other name es I a t : In t (tr name es) -> name <> I -> hits I a t = false.
  Proof.
    unfold tr; intros Ht Hne. apply in_map_iff in Ht as (e & <- & _). unfold hits; cbn [fst snd].
    apply N.eqb_neq in Hne. now rewrite Hne.
  Qed.

  (** ** weight functions and the dense vector *)
  Definition rows_of (infos : list pinfo) (F : N -> N -> T) : list (list T) :=
    map (fun pi => map (F (pi_name pi)) (pi_actions pi)) infos.

  Lemma rows_of_ext infos F F' :
    (forall pi a, In pi infos -> In a (pi_actions pi) -> F (pi_name pi) a = F' (pi_name pi) a) ->
    rows_of infos F = rows_of infos F'.
  Proof.
    intros H. unfold rows_of. apply map_ext_in. intros pi Hpi. apply map_ext_in. intros a Ha. now apply H.
  Qed.

  Lemma rows_of_lengths infos F : map (@length T) (rows_of infos F) = map arity infos.
  Proof. unfold rows_of. rewrite map_map. apply map_ext. intros pi. apply map_length. Qed.

  Lemma rows_of_const infos z :
    concat (rows_of infos (fun _ _ => z)) = repeat z (fold_left Nat.add (map arity infos) 0).
  Proof.
    induction infos as [|pi r IH]; [reflexivity|].
    cbn [rows_of map concat fold_left]. fold (rows_of r (fun _ _ => z)). rewrite IH.
    rewrite map_const_repeat, <- repeat_app. f_equal.
    rewrite (fold_left_add_acc _ (0 + _)). unfold arity. lia.
  Qed.

  Definition Fupd (F : N -> N -> T) (t : N * N * T) : N -> N -> T :=
    fun I a => if hits I a t then snd t else F I a.

  Lemma upd_dense infos F name a p ind pi ai x :
    NoDup (map pi_name infos) -> Forall (fun pi => NoDup (pi_actions pi)) infos ->
    find_index (fun pi => N.eqb (pi_name pi) name) infos = Some (ind, pi) ->
    find_index (N.eqb a) (pi_actions pi) = Some (ai, x) ->
    upd (concat (rows_of infos F)) (nth ind (offsets (map arity infos) 0) 0 + ai) p =
    concat (rows_of infos (Fupd F (name, a, p))).
  Proof.
    intros Hnd Hacts Hfi Hfa.
    destruct (find_index_some _ _ _ _ pi Hfi) as (Hind & Hnth & Hname). apply N.eqb_eq in Hname.
    destruct (find_index_some _ _ _ _ 0%N Hfa) as (Hai & _ & _).
    pose proof (find_index_In _ _ _ _ Hfi) as Hpi.
    assert (Hrow : nth ind (rows_of infos F) [] = map (F (pi_name pi)) (pi_actions pi)).
    { unfold rows_of. rewrite nth_map_lt with (d := pi) by assumption. now rewrite Hnth. }
    rewrite <- rows_of_lengths with (F := F).
    pose proof (upd_concat (rows_of infos F) [] ind ai p) as H. cbn [app length] in H.
    rewrite H; clear H.
    2:{ unfold rows_of. now rewrite map_length. }
    2:{ rewrite Hrow, map_length. assumption. }
    f_equal. rewrite Hrow. unfold rows_of.
    apply upd_map_key with (key := pi_name) (k := name) (f := fun pi => N.eqb (pi_name pi) name) (x := pi);
      try assumption.
    - intros y. apply N.eqb_eq.
    - symmetry. apply upd_map_key with (key := fun a => a) (k := a) (f := N.eqb a) (x := x).
      + intros y. rewrite N.eqb_eq. split; congruence.
      + rewrite map_id. rewrite Forall_forall in Hacts. now apply Hacts.
      + assumption.
      + destruct (find_index_some _ _ _ _ 0%N Hfa) as (_ & _ & Hx). apply N.eqb_eq in Hx. subst x.
        unfold Fupd, hits; cbn [fst snd]. rewrite Hname, !N.eqb_refl. reflexivity.
      + intros y _ Hy. unfold Fupd, hits; cbn [fst snd]. rewrite Hy, andb_false_r. reflexivity.
    - intros y _ Hy. apply map_ext. intros b. unfold Fupd, hits; cbn [fst snd].
      rewrite N.eqb_sym, Hy. reflexivity.
  Qed.

  (** ** one multi-action infoset *)
  Lemma slow_multi_spec infos name ind pi :
    NoDup (map pi_name infos) -> Forall (fun pi => NoDup (pi_actions pi)) infos ->
    find_index (fun pi => N.eqb (pi_name pi) name) infos = Some (ind, pi) ->
    forall (es : list (N * T)) F,
      match slow_multi (pi_actions pi) (nth ind (offsets (map arity infos) 0) 0) es
                       (concat (rows_of infos F)) with
      | SOk d => d = concat (rows_of infos (fun I a => w_from (tr name es) I a (F I a))) /\
                 Forall (fun e => In (fst e) (pi_actions pi) /\ prob_ok (snd e) = true) es
      | SErr e => (e = InvalidAction /\ exists x, In x es /\ ~ In (fst x) (pi_actions pi)) \/
                  (e = InvalidProbability /\ exists x, In x es /\ prob_ok (snd x) = false)
      end.
  Proof.
    intros Hnd Hacts Hfi. induction es as [|[a p] es IH]; intros F; cbn [slow_multi].
    - split; [reflexivity|constructor].
    - destruct (prob_ok p) eqn:Ep.
      2:{ right. split; [reflexivity|]. exists (a, p). split; [now left|exact Ep]. }
      destruct (find_index (N.eqb a) (pi_actions pi)) as [[ai x]|] eqn:Ea.
      2:{ left. split; [reflexivity|]. exists (a, p). split; [now left|]. cbn [fst]. intros Hin.
          rewrite find_index_none in Ea. specialize (Ea a Hin). rewrite N.eqb_refl in Ea. discriminate. }
      rewrite (upd_dense infos F name a p ind pi ai x) by assumption.
      specialize (IH (Fupd F (name, a, p))).
      destruct (slow_multi _ _ es _) as [d|e].
      + destruct IH as [-> Hall]. split; [reflexivity|]. constructor; [|assumption]. cbn [fst snd].
        split; [|assumption].
        destruct (find_index_some _ _ _ _ 0%N Ea) as (_ & _ & Hx). apply N.eqb_eq in Hx. subst x.
        eapply find_index_In; eassumption.
      + destruct IH as [[-> (x0 & Hx0 & Hn)]|[-> (x0 & Hx0 & Hn)]]; [left|right];
          (split; [reflexivity|]); exists x0; (split; [now right|assumption]).
  Qed.

  (** ** one single-action infoset *)
  Definition nonnil {A} (l : list A) : bool := match l with [] => false | _ => true end.

  Lemma slow_single_spec act : forall (es : list (N * T)) seen,
    match slow_single act es seen with
    | SOk b => b = seen || nonnil es /\ Forall (fun e => fst e = act /\ prob_ok (snd e) = true) es
    | SErr e => (e = InvalidAction /\ exists x, In x es /\ fst x <> act) \/
                (e = InvalidProbability /\ exists x, In x es /\ prob_ok (snd x) = false)
    end.
  Proof.
    induction es as [|[a p] es IH]; intros seen; cbn [slow_single].
    - split; [now rewrite orb_false_r|constructor].
    - destruct (N.eqb a act) eqn:Ea; cbn [negb].
      2:{ left. split; [reflexivity|]. exists (a, p). split; [now left|]. cbn [fst]. now apply N.eqb_neq. }
      destruct (prob_ok p) eqn:Ep.
      2:{ right. split; [reflexivity|]. exists (a, p). split; [now left|exact Ep]. }
      specialize (IH true). destruct (slow_single act es true) as [b|e].
      + destruct IH as [-> Hall]. cbn [orb nonnil]. split; [now rewrite orb_true_r|].
        constructor; [|assumption]. cbn [fst snd]. apply N.eqb_eq in Ea. now split.
      + destruct IH as [[-> (x0 & Hx0 & Hn)]|[-> (x0 & Hx0 & Hn)]]; [left|right];
          (split; [reflexivity|]); exists x0; (split; [now right|assumption]).
  Qed.

  (** ** the loop *)
  Section Loop.
    Context (infos : list pinfo) (singles : list (N * N)).

    (** an input item names an existing infoset and only legal actions of it *)
    Definition KnownItem (it : N * list (N * T)) : Prop :=
      (exists pi, In pi infos /\ pi_name pi = fst it /\
                  Forall (fun e => In (fst e) (pi_actions pi)) (snd it)) \/
      (exists act, In (fst it, act) singles /\ Forall (fun e => fst e = act) (snd it)).

    Definition ProbsOk (strat : list (N * list (N * T))) : Prop :=
      Forall (fun it => Forall (fun e => prob_ok (snd e) = true) (snd it)) strat.

    (** some item names an infoset that does not exist *)
    Definition BadInfoset (strat : list (N * list (N * T))) : Prop :=
      exists it, In it strat /\ ~ In (fst it) (map pi_name infos) /\ ~ In (fst it) (map fst singles).

    (** some entry names an action that its (existing) infoset does not have *)
    Definition BadAction (strat : list (N * list (N * T))) : Prop :=
      exists it e, In it strat /\ In e (snd it) /\
        ((exists pi, In pi infos /\ pi_name pi = fst it /\ ~ In (fst e) (pi_actions pi)) \/
         (exists act, In (fst it, act) singles /\ fst e <> act)).

    (** some weight is negative or not finite *)
    Definition BadProb (strat : list (N * list (N * T))) : Prop :=
      exists it e, In it strat /\ In e (snd it) /\ prob_ok (snd e) = false.

    Definition LoopErr (e : serr) (strat : list (N * list (N * T))) : Prop :=
      match e with
      | InvalidInfoset => BadInfoset strat
      | InvalidAction => BadAction strat
      | InvalidProbability => BadProb strat
      | UninitializedInfoset => False
      end.

    Lemma LoopErr_cons e it strat : LoopErr e strat -> LoopErr e (it :: strat).
    Proof.
      destruct e; cbn [LoopErr]; [intros (x & H & R)|intros (x & y & H & R)|intros (x & y & H & R)|auto].
      - exists x. split; [now right|assumption].
      - exists x, y. split; [now right|assumption].
      - exists x, y. split; [now right|assumption].
    Qed.

    (** a single-action infoset is mentioned with at least one (action, weight) entry *)
    Definition mentioned (strat : list (N * list (N * T))) (k : N) : bool :=
      existsb (fun t => N.eqb (fst (fst t)) k) (triples strat).

    Lemma mentioned_tr name (es : list (N * T)) k :
      existsb (fun t : N * N * T => N.eqb (fst (fst t)) k) (tr name es) = N.eqb name k && nonnil es.
    Proof.
      destruct es as [|e es]; cbn [tr map existsb nonnil fst]; [now rewrite andb_false_r|].
      destruct (N.eqb name k) eqn:E; cbn [orb andb]; [reflexivity|].
      induction es as [|e' es IH]; cbn [map existsb fst]; [reflexivity|].
      rewrite E. cbn [orb]. exact IH.
    Qed.

    Context (Hwf : WFnames_tables infos singles).

    Lemma name_not_single pi e : In pi infos -> In e singles -> pi_name pi <> fst e.
    Proof.
      destruct Hwf as [Hnd _]. apply NoDup_app_inv in Hnd as (_ & _ & Hd).
      intros Hpi He Heq. apply (Hd (pi_name pi)); [now apply in_map|]. rewrite Heq. now apply in_map.
    Qed.

    Lemma slow_loop_spec : forall (strat : list (N * list (N * T))) F S,
      match slow_loop infos (offsets (map arity infos) 0) singles strat
                      (concat (rows_of infos F)) (map (fun e => S (fst e)) singles) with
      | SOk (d, seen) =>
          Forall KnownItem strat /\ ProbsOk strat /\
          d = concat (rows_of infos (fun I a => w_from (triples strat) I a (F I a))) /\
          seen = map (fun e => S (fst e) || mentioned strat (fst e)) singles
      | SErr e => LoopErr e strat
      end.
    Proof.
      destruct (WFtables_names _ _ Hwf) as [Hn Hs]. pose proof (WFtables_actions _ _ Hwf) as Ha.
      induction strat as [|[name es] rest IH]; intros F S; cbn [slow_loop].
      - repeat split; try constructor.
        apply map_ext. intros e. unfold mentioned; cbn [triples flat_map existsb]. now rewrite orb_false_r.
      - destruct (find_index (fun pi => N.eqb (pi_name pi) name) infos) as [[ind pi]|] eqn:Ef.
        + (* a multi-action infoset *)
          pose proof (slow_multi_spec infos name ind pi Hn Ha Ef es F) as Hm.
          destruct (find_index_some _ _ _ _ pi Ef) as (_ & _ & Hname). apply N.eqb_eq in Hname.
          pose proof (find_index_In _ _ _ _ Ef) as Hpi.
          destruct (slow_multi _ _ es _) as [d1|e].
          * destruct Hm as [-> Hall].
            specialize (IH (fun I a => w_from (tr name es) I a (F I a)) S).
            destruct (slow_loop _ _ _ rest _ _) as [[d seen]|e]; [|now apply LoopErr_cons].
            destruct IH as (Hk & Hp & -> & ->). repeat split.
            -- constructor; [|assumption]. left. exists pi. cbn [fst snd]. repeat split; try assumption.
               eapply Forall_impl; [|exact Hall]. now intros e [? _].
            -- constructor; [|assumption]. cbn [snd]. eapply Forall_impl; [|exact Hall]. now intros e [_ ?].
            -- f_equal. apply rows_of_ext. intros pi' a _ _. rewrite triples_cons, w_from_app. reflexivity.
            -- apply map_ext_in. intros e He. f_equal. unfold mentioned.
               rewrite triples_cons, existsb_app, mentioned_tr.
               assert (N.eqb name (fst e) = false) as ->; [|reflexivity].
               apply N.eqb_neq. rewrite <- Hname. now apply name_not_single.
          * destruct Hm as [[-> (x & Hx & Hbad)]|[-> (x & Hx & Hbad)]]; cbn [LoopErr].
            -- exists (name, es), x. split; [now left|]. split; [assumption|]. left. exists pi. now repeat split.
            -- exists (name, es), x. split; [now left|]. now split.
        + (* not a multi-action infoset *)
          fold (key_is name).
          destruct (find_index (key_is name) singles) as [[ind [i act]]|] eqn:Es.
          2:{ cbn [LoopErr]. exists (name, es). split; [now left|]. cbn [fst]. split.
              - intros Hin. apply in_map_iff in Hin as (pi & Hpn & Hpi).
                rewrite find_index_none in Ef. specialize (Ef pi Hpi). cbn in Ef. rewrite Hpn, N.eqb_refl in Ef.
                discriminate.
              - intros Hin. apply in_map_iff in Hin as (e & Hen & He).
                rewrite find_index_none in Es. specialize (Es e He). unfold key_is in Es.
                rewrite Hen, N.eqb_refl in Es. discriminate. }
          destruct (find_index_some _ _ _ _ (i, act) Es) as (Hind & Hnth & Hkey).
          unfold key_is in Hkey; cbn [fst] in Hkey. apply N.eqb_eq in Hkey. subst i.
          pose proof (find_index_In _ _ _ _ Es) as Hin.
          rewrite nth_map_lt with (d := (name, act)) by assumption. rewrite Hnth. cbn [fst].
          pose proof (slow_single_spec act es (S name)) as Hsg.
          destruct (slow_single act es (S name)) as [b|e].
          * destruct Hsg as [-> Hall].
            set (S1 := fun k => if N.eqb name k then S name || nonnil es else S k).
            assert (Hupd : upd (map (fun e => S (fst e)) singles) ind (S name || nonnil es) =
                           map (fun e => S1 (fst e)) singles).
            { apply upd_map_key with (key := fst) (k := name) (f := key_is name) (x := (name, act));
                try assumption.
              - intros y. unfold key_is. apply N.eqb_eq.
              - unfold S1; cbn [fst]. now rewrite N.eqb_refl.
              - intros y _ Hy. unfold S1. unfold key_is in Hy. now rewrite N.eqb_sym, Hy. }
            rewrite Hupd. specialize (IH F S1).
            destruct (slow_loop _ _ _ rest _ _) as [[d seen]|e]; [|now apply LoopErr_cons].
            destruct IH as (Hk & Hp & -> & ->). repeat split.
            -- constructor; [|assumption]. right. exists act. cbn [fst snd]. split; [assumption|].
               eapply Forall_impl; [|exact Hall]. now intros e [? _].
            -- constructor; [|assumption]. cbn [snd]. eapply Forall_impl; [|exact Hall]. now intros e [_ ?].
            -- f_equal. apply rows_of_ext. intros pi' a Hpi' _. rewrite triples_cons, w_from_app.
               f_equal. symmetry. apply w_from_nohit. intros t Ht. eapply hits_tr_other; [eassumption|].
               intros Heq. rewrite find_index_none in Ef. specialize (Ef pi' Hpi'). cbn beta in Ef.
               rewrite Heq, N.eqb_refl in Ef. discriminate.
            -- apply map_ext. intros e. unfold mentioned.
               rewrite triples_cons, existsb_app, mentioned_tr. unfold S1.
               destruct (N.eqb name (fst e)) eqn:E; cbn [andb orb]; [|reflexivity].
               apply N.eqb_eq in E. rewrite <- E. now rewrite <- orb_assoc.
          * destruct Hsg as [[-> (x & Hx & Hbad)]|[-> (x & Hx & Hbad)]]; cbn [LoopErr].
            -- exists (name, es), x. split; [now left|]. split; [assumption|]. right. exists act. now split.
            -- exists (name, es), x. split; [now left|]. now split.
    Qed.
  End Loop.
End Import.
