(** * PayoffShiftBRProofs: adding a constant to the payoffs leaves both regrets of a
    valid profile unchanged (property C12, part A2, best-response half).

    The best-response value of player [me] moves by [k] (player one) or [-k]
    (player two).  Besides validity of the opponent's strategy, normalised chance
    rows and shape, this needs the infoset indices of [me] to increase along every
    path ([Incr]): [resolve_from] computes the values from the last index down and
    reads the value of an infoset met below infoset [i] from the part already
    computed.  Games built by [from_root] number infosets in first-visit order and
    have this property. *)
From Coq Require Import Reals List Lra Lia Bool Arith NArith.
From Cfr.theories Require Import Num RInst Tree GameWF Strat Eval Solve Valid TruncProofs
     SolveValidProofs PayoffEvalProofs.
Import ListNotations.
Open Scope R_scope.

Local Notation nodeR := (@node RNum).
Local Notation gameR := (@game RNum).
Local Notation cnode := (nat * (list nodeR * R))%type.

(** positions of two lists read in parallel *)
Inductive ZipIn {X Y} (x : X) (y : Y) : list X -> list Y -> Prop :=
| ZipIn_here xs ys : ZipIn x y (x :: xs) (y :: ys)
| ZipIn_next x' y' xs ys : ZipIn x y xs ys -> ZipIn x y (x' :: xs) (y' :: ys).

Lemma ZipIn_In_l {X Y} (x : X) (y : Y) xs ys : ZipIn x y xs ys -> In x xs.
Proof. induction 1; [now left|now right]. Qed.

Lemma ZipIn_In_r {X Y} (x : X) (y : Y) xs ys : ZipIn x y xs ys -> In y ys.
Proof. induction 1; [now left|now right]. Qed.

(** own indices increase along every path: all own infosets in [n] have index at least [b] *)
Fixpoint Incr (me : bool) (b : nat) (n : nodeR) : Prop :=
  match n with
  | Term _ => True
  | Chance _ kids =>
      (fix go (ks : list nodeR) : Prop := match ks with [] => True | c :: r => Incr me b c /\ go r end) kids
  | Player pl i kids =>
      if Bool.eqb pl me then
        (b <= i)%nat /\
        (fix go (ks : list nodeR) : Prop := match ks with [] => True | c :: r => Incr me (S i) c /\ go r end) kids
      else
        (fix go (ks : list nodeR) : Prop := match ks with [] => True | c :: r => Incr me b c /\ go r end) kids
  end.

Lemma Incr_kids me b (ks : list nodeR) :
  (fix go (ks : list nodeR) : Prop := match ks with [] => True | c :: r => Incr me b c /\ go r end) ks ->
  Forall (Incr me b) ks.
Proof. induction ks as [|c ks IH]; intros H; constructor; [apply H|apply IH, H]. Qed.

Section Shift.
  Context (g : gameR) (so : list (list R)) (me : bool) (k : R).
  Local Notation ch := (g_chance g).
  Local Notation kap := (if me then k else - k).
  Local Notation tn := (tnode false (aff 1 k)).
  Local Notation K := (length (arities g me)).

  (** [Front n j]: an own node of infoset [j] is met from [n] before any other own
      node, through chance and opponent actions of positive probability *)
  Inductive Front : nodeR -> nat -> Prop :=
  | F_own pl i kids : Bool.eqb pl me = true -> Front (Player pl i kids) i
  | F_chance ci kids p c j :
      ZipIn p c (@row RNum ch ci) kids -> Front c j -> Front (Chance ci kids) j
  | F_opp pl i kids p c j :
      Bool.eqb pl me = false -> ZipIn p c (@row RNum so i) kids -> 0 < p -> Front c j ->
      Front (Player pl i kids) j.

  (** [Coll n reach e]: [collect] started at [n] with reach [reach] records [e] *)
  Inductive Coll : nodeR -> R -> cnode -> Prop :=
  | C_here pl i kids reach : Bool.eqb pl me = true -> Coll (Player pl i kids) reach (i, (kids, reach))
  | C_below pl i kids reach c e :
      Bool.eqb pl me = true -> In c kids -> Coll c reach e -> Coll (Player pl i kids) reach e
  | C_chance ci kids reach p c e :
      ZipIn p c (@row RNum ch ci) kids -> Coll c (p * reach) e -> Coll (Chance ci kids) reach e
  | C_opp pl i kids reach p c e :
      Bool.eqb pl me = false -> ZipIn p c (@row RNum so i) kids -> 0 < p -> Coll c (p * reach) e ->
      Coll (Player pl i kids) reach e.

  Local Notation CL := (@collect RNum ch so me).

  (** *** [collect] records exactly the [Coll] entries *)
  Definition CollP (c : nodeR) : Prop :=
    forall reach acc e, In e (CL c reach acc) <-> In e acc \/ Coll c reach e.

  Lemma xchance_coll reach ks :
    Forall CollP ks -> forall ps acc e,
    In e (xchance CL reach ps ks acc) <->
    In e acc \/ exists p c, ZipIn p c ps ks /\ Coll c (p * reach) e.
  Proof.
    induction 1 as [|c ks Hc HK IH]; intros ps acc e; [|unfold CollP in Hc].
    - destruct ps; cbn [xchance]; (split; [now left|]); intros [H|(p & c & H & _)]; try assumption; inversion H.
    - destruct ps as [|p ps]; cbn [xchance].
      + split; [now left|]. intros [H|(p & c' & H & _)]; [assumption|inversion H].
      + rewrite Hc, IH. split.
        * intros [[H|(p' & c' & HZ & HCo)]|H]; [now left| |].
          -- right. exists p', c'. split; [now constructor|assumption].
          -- right. exists p, c. split; [constructor|assumption].
        * intros [H|(p' & c' & HZ & HCo)]; [now left; left|].
          inversion HZ; subst; [now right|]. left; right. eauto.
  Qed.

  Lemma xplayer_coll reach ks :
    Forall CollP ks -> forall ps acc e,
    In e (xplayer CL reach ps ks acc) <->
    In e acc \/ exists p c, ZipIn p c ps ks /\ 0 < p /\ Coll c (p * reach) e.
  Proof.
    induction 1 as [|c ks Hc HK IH]; intros ps acc e; [|unfold CollP in Hc].
    - destruct ps; cbn [xplayer]; (split; [now left|]); intros [H|(p & c & H & _)]; try assumption; inversion H.
    - destruct ps as [|p ps]; cbn [xplayer].
      + split; [now left|]. intros [H|(p & c' & H & _)]; [assumption|inversion H].
      + destruct (Rltb 0 p) eqn:Ep.
        * apply Rltb_true in Ep. rewrite Hc, IH. split.
          -- intros [[H|(p' & c' & HZ & Hp & HCo)]|H]; [now left| |].
             ++ right. exists p', c'. split; [now constructor|split; assumption].
             ++ right. exists p, c. split; [constructor|split; assumption].
          -- intros [H|(p' & c' & HZ & Hp & HCo)]; [now left; left|].
             inversion HZ; subst; [now right|]. left; right. eauto.
        * apply Rltb_false in Ep. rewrite IH. split.
          -- intros [H|(p' & c' & HZ & Hp & HCo)]; [now left|].
             right. exists p', c'. split; [now constructor|split; assumption].
          -- intros [H|(p' & c' & HZ & Hp & HCo)]; [now left|].
             inversion HZ; subst; [lra|]. right. eauto.
  Qed.

  Lemma xown_coll reach ks :
    Forall CollP ks -> forall acc e,
    In e (xown CL reach ks acc) <-> In e acc \/ exists c, In c ks /\ Coll c reach e.
  Proof.
    induction 1 as [|c ks Hc HK IH]; intros acc e; cbn [xown]; [|unfold CollP in Hc].
    - split; [now left|]. intros [H|(c & [] & _)]. assumption.
    - rewrite Hc, IH. split.
      + intros [[H|(c' & Hin & HCo)]|H]; [now left| |].
        * right. exists c'. split; [now right|assumption].
        * right. exists c. split; [now left|assumption].
      + intros [H|(c' & [->|Hin] & HCo)]; [now left; left|now right|]. left; right; eauto.
  Qed.

  Lemma collect_coll n : CollP n.
  Proof.
    induction n as [x|ci kids IH|pl i kids IH] using node_ind'; intros reach acc e.
    - rewrite collect_Term. split; [now left|]. intros [H|H]; [assumption|inversion H].
    - rewrite collect_Chance, (xchance_coll reach kids IH). split.
      + intros [H|(p & c & HZ & HCo)]; [now left|right]. econstructor; eassumption.
      + intros [H|H]; [now left|right]. inversion H; subst. eauto.
    - rewrite collect_Player. destruct (Bool.eqb pl me) eqn:Epl.
      + rewrite (xown_coll reach kids IH), in_app_iff. cbn [In]. split.
        * intros [[H|[<-|[]]]|(c & Hin & HCo)]; [now left| |]; right.
          -- now constructor.
          -- eapply C_below; eassumption.
        * intros [H|H]; [now left; left|]. inversion H; subst; try congruence.
          -- left; right; now left.
          -- right; eauto.
      + rewrite (xplayer_coll reach kids IH). split.
        * intros [H|(p & c & HZ & Hp & HCo)]; [now left|right]. eapply C_opp; eassumption.
        * intros [H|H]; [now left|right]. inversion H; subst; try congruence. eauto.
  Qed.

  (** *** structure of the recorded entries *)
  Lemma Coll_trans n reach i kids p c e :
    Coll n reach (i, (kids, p)) -> In c kids -> Coll c p e -> Coll n reach e.
  Proof.
    intros H. remember (i, (kids, p)) as e0 eqn:E0. revert E0.
    induction H as [pl i0 kids0 reach Hpl|pl i0 kids0 reach c0 e1 Hpl Hin H IH
                   |ci kids0 reach p0 c0 e1 HZ H IH|pl i0 kids0 reach p0 c0 e1 Hpl HZ Hp H IH];
      intros E0 Hc HCo.
    - injection E0 as -> -> ->. eapply C_below; eassumption.
    - eapply C_below; [assumption|exact Hin|]. now apply IH.
    - eapply C_chance; [exact HZ|]. now apply IH.
    - eapply C_opp; [assumption|exact HZ|assumption|]. now apply IH.
  Qed.

  Lemma Front_Coll n j reach : Front n j -> exists kids p, Coll n reach (j, (kids, p)).
  Proof.
    intros H. revert reach.
    induction H as [pl i kids Hpl|ci kids p c j HZ H IH|pl i kids p c j Hpl HZ Hp H IH]; intros reach.
    - exists kids, reach. now constructor.
    - destruct (IH (p * reach)) as (ks & q & HCo). exists ks, q. eapply C_chance; eassumption.
    - destruct (IH (p * reach)) as (ks & q & HCo). exists ks, q. eapply C_opp; eassumption.
  Qed.

  Context (HC : ChanceOK g).

  Lemma chance_row_pos ci p : In p (@row RNum ch ci) -> 0 < p.
  Proof.
    unfold row. intros Hin. destruct (Nat.lt_ge_cases ci (length ch)) as [Hlt|Hge].
    - unfold ChanceOK in HC. rewrite Forall_forall in HC.
      destruct (HC _ (nth_In _ [] Hlt)) as [Hpos _]. rewrite Forall_forall in Hpos. now apply Hpos.
    - rewrite nth_overflow in Hin by assumption. destruct Hin.
  Qed.

  Lemma Coll_pos n reach e : Coll n reach e -> 0 < reach -> 0 < snd (snd e).
  Proof.
    induction 1 as [pl i kids reach Hpl|pl i kids reach c e Hpl Hin H IH
                   |ci kids reach p c e HZ H IH|pl i kids reach p c e Hpl HZ Hp H IH]; intros Hr.
    - exact Hr.
    - now apply IH.
    - apply IH. apply Rmult_lt_0_compat; [|assumption]. eapply chance_row_pos, ZipIn_In_l, HZ.
    - apply IH. now apply Rmult_lt_0_compat.
  Qed.

  Lemma shaped_kids'' (ks : list nodeR) :
    (fix go (ks : list nodeR) : Prop := match ks with [] => True | c :: r => shaped g c /\ go r end) ks ->
    Forall (shaped g) ks.
  Proof. induction ks as [|c ks IH]; intros H; constructor; [apply H|apply IH, H]. Qed.

  Lemma shaped_sub n : shaped g n ->
    match n with
    | Term _ => True
    | Chance _ kids => Forall (shaped g) kids
    | Player _ _ kids => Forall (shaped g) kids
    end.
  Proof. destruct n as [x|ci kids|pl i kids]; [trivial| |]; intros (_ & _ & _ & H); now apply shaped_kids''. Qed.

  Lemma me_of_eqb pl : Bool.eqb pl me = true -> pl = me.
  Proof. apply eqb_prop. Qed.

  Lemma arity_nth i :
    nth i (arities g me) 0%nat = length (pi_actions (nth i (g_infos g me) (mkPinfo 0 [] None))).
  Proof.
    unfold arities.
    exact (map_nth (fun pi => length (pi_actions pi)) (g_infos g me) (mkPinfo 0 [] None) i).
  Qed.

  Lemma Coll_shaped n reach e :
    Coll n reach e -> shaped g n ->
    (fst e < K)%nat /\ length (fst (snd e)) = nth (fst e) (arities g me) 0%nat /\
    (2 <= length (fst (snd e)))%nat /\ Forall (shaped g) (fst (snd e)).
  Proof.
    induction 1 as [pl i kids reach Hpl|pl i kids reach c e Hpl Hin H IH
                   |ci kids reach p c e HZ H IH|pl i kids reach p c e Hpl HZ Hp H IH]; intros Hsh.
    - apply me_of_eqb in Hpl. subst pl. pose proof (shaped_sub _ Hsh) as HF.
      destruct Hsh as (H1 & H2 & H3 & _). cbn [fst snd].
      unfold arities. rewrite map_length. split; [exact H1|]. split; [|split; assumption].
      rewrite H2. symmetry. apply arity_nth.
    - apply IH. pose proof (shaped_sub _ Hsh) as HF. cbn in HF. rewrite Forall_forall in HF. now apply HF.
    - apply IH. pose proof (shaped_sub _ Hsh) as HF. cbn in HF. rewrite Forall_forall in HF.
      apply HF. eapply ZipIn_In_r, HZ.
    - apply IH. pose proof (shaped_sub _ Hsh) as HF. cbn in HF. rewrite Forall_forall in HF.
      apply HF. eapply ZipIn_In_r, HZ.
  Qed.

  Lemma Incr_sub b n : Incr me b n ->
    match n with
    | Term _ => True
    | Chance _ kids => Forall (Incr me b) kids
    | Player pl i kids =>
        if Bool.eqb pl me then (b <= i)%nat /\ Forall (Incr me (S i)) kids else Forall (Incr me b) kids
    end.
  Proof.
    destruct n as [x|ci kids|pl i kids]; cbn [Incr]; [trivial|apply Incr_kids|].
    destruct (Bool.eqb pl me); [intros [H1 H2]; split; [assumption|now apply Incr_kids]|apply Incr_kids].
  Qed.

  Lemma Coll_incr n reach e b :
    Coll n reach e -> Incr me b n -> (b <= fst e)%nat /\ Forall (Incr me (S (fst e))) (fst (snd e)).
  Proof.
    intros H. revert b.
    induction H as [pl i kids reach Hpl|pl i kids reach c e Hpl Hin H IH
                   |ci kids reach p c e HZ H IH|pl i kids reach p c e Hpl HZ Hp H IH]; intros b HI;
      apply Incr_sub in HI.
    - rewrite Hpl in HI. exact HI.
    - rewrite Hpl in HI. destruct HI as [Hb HF]. rewrite Forall_forall in HF.
      destruct (IH (S i) (HF _ Hin)) as [H1 H2]. split; [lia|assumption].
    - rewrite Forall_forall in HI. apply IH, HI. eapply ZipIn_In_r, HZ.
    - rewrite Hpl in HI. rewrite Forall_forall in HI. apply IH, HI. eapply ZipIn_In_r, HZ.
  Qed.

  Lemma Front_incr n j b : Front n j -> Incr me b n -> (b <= j)%nat.
  Proof.
    intros H. destruct (Front_Coll n j 1 H) as (kids & p & HCo). intros HI.
    now destruct (Coll_incr _ _ _ _ HCo HI).
  Qed.
End Shift.

(** ** The search up to the next own infosets moves by [kap * reach] *)
Section Shift2.
  Context (g : gameR) (so : list (list R)) (me : bool) (k : R).
  Context (HC : ChanceOK g).
  Context (HSO : Forall2 (fun a r => length r = a /\ VRow r) (arities g (negb me)) so).
  Local Notation ch := (g_chance g).
  Local Notation kap := (if me then k else - k).
  Local Notation tn := (tnode false (aff 1 k)).
  Local Notation K := (length (arities g me)).
  Local Notation SR mu := (@search RNum (g_chance g) so me mu).
  Local Notation FrontG := (Front g so me).

  Definition SP (mu mu' : nat -> R) (c : nodeR) : Prop :=
    (forall j, FrontG c j -> mu' j = mu j + kap) -> shaped g c ->
    forall reach acc acc',
      SR mu' (tn c) reach acc' - acc' = SR mu c reach acc - acc + kap * reach.

  Lemma xchance_shift mu mu' reach ks :
    Forall (SP mu mu') ks -> Forall (shaped g) ks -> forall ps,
    (forall p c j, ZipIn p c ps ks -> FrontG c j -> mu' j = mu j + kap) ->
    forall acc acc',
    xchance (SR mu') reach ps (map tn ks) acc' - acc' =
    xchance (SR mu) reach ps ks acc - acc + kap * reach * Rsum (firstn (length ks) ps).
  Proof.
    induction 1 as [|c ks Hc HK IH]; intros Hsh ps HF acc acc'.
    - destruct ps; cbn [xchance map length firstn Rsum]; lra.
    - destruct ps as [|p ps]; cbn [xchance map length firstn Rsum]; [lra|].
      inversion Hsh as [|? ? Hshc Hshk]; subst.
      assert (HFc : forall j, FrontG c j -> mu' j = mu j + kap).
      { intros j Hj. eapply HF; [constructor|exact Hj]. }
      assert (HFk : forall p' c' j, ZipIn p' c' ps ks -> FrontG c' j -> mu' j = mu j + kap).
      { intros p' c' j HZ Hj. eapply HF; [constructor; exact HZ|exact Hj]. }
      specialize (IH Hshk ps HFk acc acc').
      specialize (Hc HFc Hshc (p * reach) (xchance (SR mu) reach ps ks acc)
                     (xchance (SR mu') reach ps (map tn ks) acc')).
      lra.
  Qed.

  Lemma xplayer_shift mu mu' reach ks :
    Forall (SP mu mu') ks -> Forall (shaped g) ks -> forall ps,
    Forall (fun x => 0 <= x) ps ->
    (forall p c j, ZipIn p c ps ks -> 0 < p -> FrontG c j -> mu' j = mu j + kap) ->
    forall acc acc',
    xplayer (SR mu') reach ps (map tn ks) acc' - acc' =
    xplayer (SR mu) reach ps ks acc - acc + kap * reach * Rsum (firstn (length ks) ps).
  Proof.
    induction 1 as [|c ks Hc HK IH]; intros Hsh ps Hnn HF acc acc'.
    - destruct ps; cbn [xplayer map length firstn Rsum]; lra.
    - destruct ps as [|p ps]; cbn [xplayer map length firstn Rsum]; [lra|].
      inversion Hsh as [|? ? Hshc Hshk]; subst. inversion Hnn as [|? ? Hp Hnn']; subst.
      assert (HFk : forall p' c' j, ZipIn p' c' ps ks -> 0 < p' -> FrontG c' j -> mu' j = mu j + kap).
      { intros p' c' j HZ Hp' Hj. eapply HF; [constructor; exact HZ|exact Hp'|exact Hj]. }
      specialize (IH Hshk ps Hnn' HFk acc acc').
      destruct (Rltb 0 p) eqn:Ep.
      + apply Rltb_true in Ep.
        assert (HFc : forall j, FrontG c j -> mu' j = mu j + kap).
        { intros j Hj. eapply HF; [constructor|exact Ep|exact Hj]. }
        specialize (Hc HFc Hshc (p * reach) (xplayer (SR mu) reach ps ks acc)
                       (xplayer (SR mu') reach ps (map tn ks) acc')).
        lra.
      + apply Rltb_false in Ep. assert (p = 0) by lra. subst p. lra.
  Qed.

  Lemma opp_row pl i kids :
    Bool.eqb pl me = false -> shaped g (Player pl i kids) ->
    length (@row RNum so i) = length kids /\ VRow (@row RNum so i).
  Proof.
    intros Hpl (H1 & H2 & _). assert (pl = negb me) by (destruct pl, me; try discriminate; reflexivity).
    subst pl.
    pose proof (Forall2_nth' _ _ _ i (length (pi_actions (mkPinfo 0 [] None))) [] HSO) as Hn.
    unfold arities in Hn. rewrite map_length in Hn. specialize (Hn H1).
    rewrite (map_nth (fun pi => length (pi_actions pi))) in Hn.
    unfold row. destruct Hn as [Hl Hv]. split; [exact (eq_trans Hl (eq_sym H2))|exact Hv].
  Qed.

  Lemma search_shift mu mu' n : SP mu mu' n.
  Proof.
    induction n as [x|ci kids IH|pl i kids IH] using node_ind'; intros HF Hsh reach acc acc'.
    - cbn [tnode]. rewrite !search_Term. unfold aff. destruct me; lra.
    - cbn [tnode]. rewrite !search_Chance.
      pose proof (shaped_sub g _ Hsh) as Hk. cbn in Hk.
      rewrite (xchance_shift mu mu' reach kids IH Hk (@row RNum ch ci)) with (acc := acc).
      + destruct Hsh as (H1 & H2 & _). unfold row. rewrite H2, firstn_all.
        unfold ChanceOK in HC. rewrite Forall_forall in HC.
        destruct (HC _ (nth_In _ [] H1)) as [_ ->]. lra.
      + intros p c j HZ Hj. apply HF. eapply F_chance; eassumption.
    - cbn [tnode fl]. rewrite !search_Player. destruct (Bool.eqb pl me) eqn:Epl.
      + rewrite (HF i) by now constructor. lra.
      + pose proof (shaped_sub g _ Hsh) as Hk. cbn in Hk.
        destruct (opp_row pl i kids Epl Hsh) as [Hl [Hnn Hsum]].
        rewrite (xplayer_shift mu mu' reach kids IH Hk (@row RNum so i) Hnn) with (acc := acc).
        * rewrite <- Hl, firstn_all, Hsum. lra.
        * intros p c j HZ Hp Hj. apply HF. eapply F_opp; eassumption.
  Qed.

  Lemma search_shift0 mu mu' n :
    (forall j, FrontG n j -> mu' j = mu j + kap) -> shaped g n ->
    SR mu' (tn n) 1 0 = SR mu n 1 0 + kap.
  Proof. intros HF Hsh. pose proof (search_shift mu mu' n HF Hsh 1 0 0). lra. Qed.

  (** ** One infoset *)
  Local Notation tk := (tnk false (aff 1 k)).
  Local Notation PS mu := (paystep (g_chance g) so me mu).

  Lemma paystep_shift mu mu' (e : cnode) pays off :
    (forall c, In c (fst (snd e)) -> SR mu' (tn c) 1 0 = SR mu c 1 0 + kap) ->
    PS mu' (map (fun x => x + off) pays) (tk e) =
    map (fun x => x + (off + kap * snd (snd e))) (PS mu pays e).
  Proof.
    destruct e as [i [kids p]]. cbn [tnk fst snd paystep]. revert kids.
    induction pays as [|a pays IH]; intros [|c kids] HS; cbn [map combine]; try reflexivity.
    rewrite IH by (intros c' Hc'; apply HS; now right). f_equal. cbn [fst snd].
    rewrite (HS c) by now left. lra.
  Qed.

  Lemma payfold_shift mu mu' (mine : list cnode) :
    (forall e c, In e mine -> In c (fst (snd e)) -> SR mu' (tn c) 1 0 = SR mu c 1 0 + kap) ->
    forall pays off,
    fold_left (PS mu') (map tk mine) (map (fun x => x + off) pays) =
    map (fun x => x + (off + kap * Rsum (map (fun e : cnode => snd (snd e)) mine)))
        (fold_left (PS mu) mine pays).
  Proof.
    induction mine as [|e mine IH]; intros HS pays off; cbn [map fold_left Rsum].
    - apply map_ext. intros x. lra.
    - rewrite (paystep_shift mu mu') by (intros c Hc; apply (HS e c); [now left|exact Hc]).
      rewrite IH by (intros e' c He' Hc; apply (HS e' c); [now right|exact Hc]).
      apply map_ext. intros x. lra.
  Qed.

  Lemma paystep_length mu (e : cnode) pays :
    length (fst (snd e)) = length pays -> length (PS mu pays e) = length pays.
  Proof.
    destruct e as [i [kids p]]. cbn [fst snd paystep]. intros H.
    rewrite map_length, combine_length. lia.
  Qed.

  Lemma payfold_length mu (mine : list cnode) pays :
    (forall e, In e mine -> length (fst (snd e)) = length pays) ->
    length (fold_left (PS mu) mine pays) = length pays.
  Proof.
    revert pays. induction mine as [|e mine IH]; intros pays H; cbn [fold_left]; [reflexivity|].
    assert (He : length (PS mu pays e) = length pays) by (apply paystep_length, H; now left).
    rewrite IH; [exact He|]. intros e' He'. rewrite He. apply H. now right.
  Qed.

  Lemma Rmax_plus_r a b d : Rmax (a + d) (b + d) = Rmax a b + d.
  Proof. unfold Rmax. destruct (Rle_dec (a + d) (b + d)), (Rle_dec a b); lra. Qed.

  Lemma fold_max_plus d (r : list R) x :
    fold_left Rmax (map (fun v => v + d) r) (x + d) = fold_left Rmax r x + d.
  Proof.
    revert x. induction r as [|v r IH]; intros x; cbn [map fold_left]; [reflexivity|].
    rewrite Rmax_plus_r. apply IH.
  Qed.

  Lemma reduce_max_plus d (l : list R) :
    @reduce_max RNum (map (fun v => v + d) l) = option_map (fun v => v + d) (@reduce_max RNum l).
  Proof.
    destruct l as [|x r]; cbn [map reduce_max option_map]; [reflexivity|].
    f_equal. apply fold_max_plus.
  Qed.

  Lemma existsb_filter {X} (f : X -> bool) l :
    existsb f l = match filter f l with [] => false | _ :: _ => true end.
  Proof.
    induction l as [|x l IH]; cbn [existsb filter]; [reflexivity|].
    destruct (f x); [reflexivity|exact IH].
  Qed.

  Lemma map_plus_0 (l : list R) : map (fun x => x + 0) l = l.
  Proof. induction l as [|x l IH]; cbn [map]; [reflexivity|]. now rewrite IH, Rplus_0_r. Qed.

  Lemma resolve_one_shift (nodes : list cnode) arity mu mu' i :
    (forall e c, In e nodes -> fst e = i -> In c (fst (snd e)) ->
                 SR mu' (tn c) 1 0 = SR mu c 1 0 + kap) ->
    (forall e, In e nodes -> fst e = i ->
               0 < snd (snd e) /\ length (fst (snd e)) = arity /\ (1 <= arity)%nat) ->
    @resolve_one RNum ch so me (map tk nodes) arity mu' i =
    @resolve_one RNum ch so me nodes arity mu i +
    (if existsb (fun e : cnode => Nat.eqb (fst e) i) nodes then kap else 0).
  Proof.
    intros HS HP. rewrite !resolve_one_eq. cbv zeta. change (T RNum) with R.
    rewrite filter_tnk, existsb_filter.
    assert (Hmine : forall e, In e (filter (fun e : cnode => Nat.eqb (fst e) i) nodes) ->
                              In e nodes /\ fst e = i).
    { intros e He. apply filter_In in He. destruct He as [H1 H2]. split; [exact H1|now apply Nat.eqb_eq]. }
    revert Hmine. generalize (filter (fun e : cnode => Nat.eqb (fst e) i) nodes). intros mine Hmine.
    rewrite match_map.
    destruct mine as [|e0 mine0]; [lra|].
    assert (Har : (1 <= arity)%nat).
    { destruct (Hmine e0 (or_introl eq_refl)) as [H1 H2]. now apply (HP e0). }
    set (mine := e0 :: mine0) in *.
    assert (HF : fold_left (PS mu') (map tk mine) (@repeatT RNum 0 arity) =
                 map (fun x => x + (0 + kap * Rsum (map (fun e : cnode => snd (snd e)) mine)))
                     (fold_left (PS mu) mine (@repeatT RNum 0 arity))).
    { rewrite <- (payfold_shift mu mu'); [now rewrite map_plus_0|].
      intros e c He Hc. destruct (Hmine e He) as [H1 H2]. now apply (HS e c). }
    rewrite HF, reduce_max_plus.
    replace (map (fun e : cnode => snd (snd e)) (map tk mine))
      with (map (fun e : cnode => snd (snd e)) mine) by (rewrite map_map; reflexivity).
    rewrite sum_Rsum.
    assert (Hlen : length (fold_left (PS mu) mine (@repeatT RNum 0 arity)) = arity).
    { rewrite payfold_length; [apply repeatT_length|]. intros e He. rewrite repeatT_length.
      destruct (Hmine e He) as [H1 H2]. now apply HP. }
    assert (Htot : 0 < Rsum (map (fun e : cnode => snd (snd e)) mine)).
    { apply Rsum_pos_nonempty; [discriminate|]. apply Forall_forall. intros y Hy.
      apply in_map_iff in Hy as (e & <- & He). destruct (Hmine e He) as [H1 H2]. now apply HP. }
    rewrite (proj2 (Rltb_true _ _) Htot).
    destruct (@reduce_max RNum (fold_left (PS mu) mine (@repeatT RNum 0 arity))) as [m|] eqn:Em.
    - cbn [option_map]. field. lra.
    - exfalso. destruct (fold_left (PS mu) mine (@repeatT RNum 0 arity)); [cbn [length] in Hlen; lia|discriminate].
  Qed.
End Shift2.

(** ** All infosets, the best-response value and the regrets *)
Section Shift3.
  Context (g : gameR) (so : list (list R)) (me : bool) (k : R).
  Context (HC : ChanceOK g).
  Context (HSO : Forall2 (fun a r => length r = a /\ VRow r) (arities g (negb me)) so).
  Context (Hsh : shaped g (g_root g)) (HI : Incr me 0 (g_root g)).
  Local Notation ch := (g_chance g).
  Local Notation kap := (if me then k else - k).
  Local Notation tn := (tnode false (aff 1 k)).
  Local Notation tk := (tnk false (aff 1 k)).
  Local Notation K := (length (arities g me)).
  Local Notation nodes := (@collect RNum (g_chance g) so me (g_root g) 1 []).
  Local Notation CollG := (Coll g so me (g_root g) 1).

  Definition lv (j : nat) : R :=
    if existsb (fun e : cnode => Nat.eqb (fst e) j) nodes then kap else 0.

  Lemma nodes_Coll e : In e nodes <-> CollG e.
  Proof.
    pose proof (collect_coll g so me (g_root g) 1 [] e) as H. cbn [In] in H. tauto.
  Qed.

  Lemma lv_live j kids p : CollG (j, (kids, p)) -> lv j = kap.
  Proof.
    intros H. apply nodes_Coll in H. unfold lv.
    replace (existsb _ nodes) with true; [reflexivity|].
    symmetry. apply existsb_exists. exists (j, (kids, p)). split; [exact H|]. cbn [fst]. apply Nat.eqb_refl.
  Qed.

  Lemma resolve_from_shift cnt :
    forall i, (i + cnt = K)%nat -> forall m, (m < cnt)%nat ->
    nth m (@resolve_from RNum ch so me (map tk nodes) (arities g me) i cnt) 0 =
    nth m (@resolve_from RNum ch so me nodes (arities g me) i cnt) 0 + lv (i + m).
  Proof.
    induction cnt as [|cnt IH]; intros i Hik m Hm; [lia|].
    cbn [resolve_from]. change (zero RNum) with 0.
    set (rest := @resolve_from RNum ch so me nodes (arities g me) (S i) cnt).
    set (rest' := @resolve_from RNum ch so me (map tk nodes) (arities g me) (S i) cnt).
    destruct m as [|m]; cbn [nth].
    - rewrite Nat.add_0_r. unfold lv. apply (resolve_one_shift g so me k).
      + intros e c He Hei Hc. destruct e as [i0 [kids p]]. cbn [fst snd] in Hei, Hc. subst i0.
        apply nodes_Coll in He.
        destruct (Coll_shaped g so me _ _ _ He Hsh) as (_ & _ & _ & HF). cbn [fst snd] in HF.
        destruct (Coll_incr g so me _ _ _ _ He HI) as (_ & HF2). cbn [fst snd] in HF2.
        rewrite Forall_forall in HF, HF2.
        apply (search_shift0 g so me k HC HSO); [|now apply HF].
        intros j Hj.
        pose proof (Front_incr g so me c j (S i) Hj (HF2 c Hc)) as Hij.
        destruct (Front_Coll g so me c j p Hj) as (ks & q & HCo).
        pose proof (Coll_trans g so me _ _ _ _ _ _ _ He Hc HCo) as HCj.
        destruct (Coll_shaped g so me _ _ _ HCj Hsh) as (HjK & _). cbn [fst] in HjK.
        fold rest rest'. unfold rest'. rewrite (IH (S i)) by lia. fold rest.
        replace (S i + (j - S i))%nat with j by lia. now rewrite (lv_live j ks q HCj).
      + intros e He Hei. destruct e as [i0 [kids p]]. cbn [fst snd] in *. subst i0.
        apply nodes_Coll in He.
        destruct (Coll_shaped g so me _ _ _ He Hsh) as (_ & HL & H2 & _). cbn [fst snd] in HL, H2.
        split; [apply (Coll_pos g so me HC _ _ _ He); lra|]. split; [exact HL|lia].
    - fold rest rest'. unfold rest'. rewrite (IH (S i)) by lia. fold rest.
      now replace (S i + m)%nat with (i + S m)%nat by lia.
  Qed.

  Lemma br_value_shift :
    @br_value RNum (shift k g) me so = @br_value RNum g me so + kap.
  Proof.
    rewrite shift_tgame. unfold br_value. cbv zeta. cbn [tgame g_chance g_root].
    pose proof (arities_tgame false (aff 1 k) g me) as HA. cbn [fl] in HA. rewrite HA.
    pose proof (collect_sim false (aff 1 k) (g_chance g) so me (g_root g) 1 []) as HCs.
    cbn [map fl] in HCs. change (one RNum) with 1. change (zero RNum) with 0.
    change (T RNum) with R in *. rewrite HCs.
    apply (search_shift0 g so me k HC HSO); [|exact Hsh].
    intros j Hj.
    destruct (Front_Coll g so me _ j 1 Hj) as (ks & q & HCo).
    destruct (Coll_shaped g so me _ _ _ HCo Hsh) as (HjK & _). cbn [fst] in HjK.
    rewrite (resolve_from_shift K 0%nat) by lia. cbn [Nat.add].
    now rewrite (lv_live j ks q HCo).
  Qed.
End Shift3.

(** A2. adding [k] to the payoffs: utility [+ k], both regrets unchanged *)
Theorem info_shift k (g : gameR) (prof : list R * list R) :
  ChanceOK g -> shaped g (g_root g) -> Valid g prof ->
  Incr true 0 (g_root g) -> Incr false 0 (g_root g) ->
  @info RNum (shift k g) prof =
  let i := @info RNum g prof in
  @mkSinfo RNum (si_util i + k) (si_reg1 i) (si_reg2 i).
Proof.
  intros HC Hsh HV HI1 HI2. pose proof (Valid_RowsOK g prof HV) as HR.
  unfold info. cbv zeta. cbn [si_util si_reg1 si_reg2].
  replace (arities (shift k g) true) with (arities g true) by reflexivity.
  replace (arities (shift k g) false) with (arities g false) by reflexivity.
  change (T RNum) with R in *.
  set (s1 := split_by (fst prof) (arities g true)) in *.
  set (s2 := split_by (snd prof) (arities g false)) in *.
  rewrite (expected_shift k g s1 s2 HC Hsh HR).
  rewrite (br_value_shift g s2 true k HC (HR false) Hsh HI1).
  rewrite (br_value_shift g s1 false k HC (HR true) Hsh HI2).
  change (fmax RNum) with Rmax. change (sub RNum) with Rminus. change (add RNum) with Rplus.
  change (zero RNum) with 0. change (T RNum) with R.
  f_equal; f_equal; lra.
Qed.

Corollary info_shift_regret k (g : gameR) prof :
  ChanceOK g -> shaped g (g_root g) -> Valid g prof ->
  Incr true 0 (g_root g) -> Incr false 0 (g_root g) ->
  si_regret (@info RNum (shift k g) prof) = si_regret (@info RNum g prof).
Proof. intros. rewrite info_shift by assumption. reflexivity. Qed.

(** ** Well-formed games number the infosets of a player increasingly along
    every path ([Incr] follows from [shaped], [prev_consistent], [index_order]) *)
Section WFIncr.
  Context (g : gameR) (me : bool).
  Context (HPC : prev_consistent g) (HIO : index_order g).
  Local Notation dflt := (mkPinfo 0 [] None).

  Definition bnd (h : list (nat * nat)) : nat :=
    match last (map Some h) None with Some (j, _) => S j | None => 0%nat end.

  Lemma bnd_snoc h x : bnd (h ++ [x]) = S (fst x).
  Proof. unfold bnd. rewrite map_app. cbn [map]. rewrite last_last. now destruct x. Qed.

  Definition PrevOK (x : bool * nat * list (nat * nat)) : Prop :=
    let '(pl, i, h) := x in pi_prev (nth i (g_infos g pl) dflt) = last (map Some h) None.

  Lemma Incr_of_Forall_Chance b ci kids : Forall (Incr me b) kids -> Incr me b (Chance ci kids).
  Proof. cbn [Incr]. induction 1; [exact I|split; assumption]. Qed.

  Lemma Incr_of_Forall_own b pl i kids :
    Bool.eqb pl me = true -> (b <= i)%nat -> Forall (Incr me (S i)) kids -> Incr me b (Player pl i kids).
  Proof. intros E Hb H. cbn [Incr]. rewrite E. split; [exact Hb|]. induction H; [exact I|split; assumption]. Qed.

  Lemma Incr_of_Forall_opp b pl i kids :
    Bool.eqb pl me = false -> Forall (Incr me b) kids -> Incr me b (Player pl i kids).
  Proof. intros E H. cbn [Incr]. rewrite E. induction H; [exact I|split; assumption]. Qed.

  Definition HP (c : nodeR) : Prop :=
    forall h1 h2, shaped g c -> (forall x, In x (hists c h1 h2) -> PrevOK x) ->
                  Incr me (bnd (if me then h1 else h2)) c.

  Lemma hists_Chance ci kids h1 h2 :
    @hists RNum (Chance ci kids) h1 h2 =
    (fix go (ks : list nodeR) := match ks with [] => [] | c :: r => hists c h1 h2 ++ go r end) kids.
  Proof. reflexivity. Qed.

  Lemma hists_Player pl i kids h1 h2 :
    @hists RNum (Player pl i kids) h1 h2 =
    (pl, i, if pl then h1 else h2) ::
    (fix go (ks : list nodeR) (a : nat) :=
       match ks with
       | [] => []
       | c :: r => hists c (if pl then h1 ++ [(i, a)] else h1) (if pl then h2 else h2 ++ [(i, a)])
                   ++ go r (S a)
       end) kids O.
  Proof. reflexivity. Qed.

  Lemma chance_kids h1 h2 ks :
    Forall HP ks -> Forall (shaped g) ks ->
    (forall x, In x ((fix go (ks : list nodeR) : list (bool * nat * list (nat * nat)) :=
                        match ks with [] => [] | c :: r => hists c h1 h2 ++ go r end) ks)
               -> PrevOK x) ->
    Forall (Incr me (bnd (if me then h1 else h2))) ks.
  Proof.
    induction 1 as [|c ks Hc HK IH]; intros Hsh HX; constructor; inversion Hsh; subst.
    - apply Hc; [assumption|]. intros x Hx. apply HX. apply in_or_app. now left.
    - apply IH; [assumption|]. intros x Hx. apply HX. apply in_or_app. now right.
  Qed.

  Lemma player_kids (pl : bool) (i : nat) (h1 h2 : list (nat * nat)) b ks :
    Forall HP ks -> Forall (shaped g) ks ->
    (forall a, bnd (if me then (if pl then h1 ++ [(i, a)] else h1)
                          else (if pl then h2 else h2 ++ [(i, a)])) = b) ->
    forall a0,
    (forall x, In x ((fix go (ks : list nodeR) (a : nat) : list (bool * nat * list (nat * nat)) :=
                        match ks with
                        | [] => []
                        | c :: r => hists c (if pl then h1 ++ [(i, a)] else h1)
                                          (if pl then h2 else h2 ++ [(i, a)]) ++ go r (S a)
                        end) ks a0) -> PrevOK x) ->
    Forall (Incr me b) ks.
  Proof.
    induction 1 as [|c ks Hc HK IH]; intros Hsh Hb a0 HX; constructor; inversion Hsh; subst.
    - rewrite <- (Hb a0). apply Hc; [assumption|]. intros x Hx. apply HX. apply in_or_app. now left.
    - apply (IH H2 Hb (S a0)). intros x Hx. apply HX. apply in_or_app. now right.
  Qed.

  Lemma incr_of_hists n : HP n.
  Proof.
    induction n as [x|ci kids IH|pl i kids IH] using node_ind'; intros h1 h2 Hsh HX.
    - exact I.
    - apply Incr_of_Forall_Chance. rewrite hists_Chance in HX.
      apply chance_kids; [exact IH| |exact HX]. apply (shaped_sub g _ Hsh).
    - rewrite hists_Player in HX. pose proof (shaped_sub g _ Hsh) as Hk. cbn in Hk.
      destruct (Bool.eqb pl me) eqn:Epl.
      + apply eqb_prop in Epl. subst pl.
        apply Incr_of_Forall_own; [apply eqb_reflx| |].
        * pose proof (HX _ (or_introl eq_refl)) as H0. cbn [PrevOK] in H0.
          unfold bnd. destruct (last (map Some (if me then h1 else h2)) None) as [[j a]|]; [|lia].
          destruct Hsh as (Hi & _). pose proof (HIO me i j a Hi H0). lia.
        * apply (player_kids me i h1 h2 (S i) kids IH Hk) with (a0 := O).
          -- intros a. destruct me; apply bnd_snoc.
          -- intros x Hx. apply HX. now right.
      + apply Incr_of_Forall_opp; [exact Epl|].
        apply (player_kids pl i h1 h2 _ kids IH Hk) with (a0 := O).
        * intros a. destruct pl, me; try discriminate; reflexivity.
        * intros x Hx. apply HX. now right.
  Qed.

  Lemma WF_Incr : shaped g (g_root g) -> Incr me 0 (g_root g).
  Proof.
    intros Hsh. pose proof (incr_of_hists (g_root g) [] [] Hsh) as H.
    replace (bnd (if me then [] else [])) with 0%nat in H by (destruct me; reflexivity).
    apply H. intros [[pl i] h] Hx. cbn [PrevOK]. now apply HPC.
  Qed.
End WFIncr.

Lemma WFgame_Incr (g : gameR) me : WFgame g -> Incr me 0 (g_root g).
Proof. intros (Hsh & _ & _ & HPC & HIO). now apply WF_Incr. Qed.

(** A2 for well-formed games (what [from_root] produces) *)
Theorem info_shift_WF k (g : gameR) (prof : list R * list R) :
  ChanceOK g -> WFgame g -> Valid g prof ->
  @info RNum (shift k g) prof =
  let i := @info RNum g prof in
  @mkSinfo RNum (si_util i + k) (si_reg1 i) (si_reg2 i).
Proof.
  intros HC HW HV. apply info_shift; try assumption; [apply HW| |]; now apply WFgame_Incr.
Qed.
