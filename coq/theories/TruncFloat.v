(** * TruncFloat: [Strategies::truncate] at binary64 itself (instance [FNum]).

    Everything else in the development is proved over the real-number instance
    [RNum].  This file proves the validity half of property C18 for the very
    function that the correspondence check executes: [@truncate_row FNum].
    No NaN, no infinity, no entry outside [0,1] can come out of a valid binary64
    row, for every threshold (finite, infinite or NaN).

    The proofs go through Flocq: [Prim2B] maps a primitive float to a
    [binary_float prec emax], [B2R] gives its real value, and the [_equiv]
    theorems of [Flocq.IEEE754.PrimFloat] together with [Bplus_correct],
    [Bdiv_correct], [Bltb_correct] describe the operations as correctly rounded
    (to nearest, ties to even) real operations. *)
From Coq Require Import List ZArith Reals Floats Bool Lia Lra.
From Flocq Require Import Core IEEE754.BinarySingleNaN IEEE754.PrimFloat Plus_error Relative.
From Cfr.theories Require Import Num FInst Tree Strat.
Import ListNotations.

Local Existing Instance Flocq.IEEE754.PrimFloat.Hprec.
Local Existing Instance Flocq.IEEE754.PrimFloat.Hmax.

Local Open Scope R_scope.
Local Notation float := PrimFloat.float.
Local Notation Hp := Flocq.IEEE754.PrimFloat.Hprec.
Local Notation Hm := Flocq.IEEE754.PrimFloat.Hmax.

Local Instance fexp_valid : Valid_exp (SpecFloat.fexp prec emax) := fexp_correct prec emax Hp.

(** ** Reading a primitive float *)

(** binary64 rounding to nearest, ties to even *)
Definition rnd (x : R) : R := round radix2 (SpecFloat.fexp prec emax) ZnearestE x.
(** representable in binary64 (ignoring overflow) *)
Definition fmt (x : R) : Prop := generic_format radix2 (SpecFloat.fexp prec emax) x.

(** real value of a float (0 for NaN and the infinities) *)
Definition FR (x : float) : R := B2R (Prim2B x).
(** finite: neither NaN nor an infinity *)
Definition Ffin (x : float) : Prop := is_finite (Prim2B x) = true.

(** a finite binary64 number in [0,1] *)
Definition fin01 (x : float) : Prop := Ffin x /\ 0 <= FR x <= 1.

(** The boolean reading with primitive comparisons agrees. *)
Definition fin01b (x : float) : bool := PrimFloat.leb 0 x && PrimFloat.leb x 1.

Lemma fmt_FR : forall x, fmt (FR x).
Proof. intros x. apply generic_format_B2R. Qed.

Lemma fmt_0 : fmt 0.
Proof. apply generic_format_0. Qed.

Lemma fmt_1 : fmt 1.
Proof.
  unfold fmt. rewrite <- (Bone_correct prec emax Hp Hm). apply generic_format_B2R.
Qed.

Lemma fmt_IZR : forall n : Z, (Z.abs n < 2 ^ 53)%Z -> fmt (IZR n).
Proof.
  intros n Hn. unfold fmt.
  apply (generic_format_FLT radix2 (SpecFloat.emin prec emax) prec).
  apply (FLT_spec radix2 (SpecFloat.emin prec emax) prec (IZR n) (Float radix2 n 0)).
  - unfold F2R. cbn [Fnum Fexp bpow]. ring.
  - exact Hn.
  - cbv. discriminate.
Qed.

Lemma bpow53_lt_emax : IZR (2 ^ 53) < bpow radix2 emax.
Proof.
  change (2 ^ 53)%Z with (Zpower radix2 53).
  rewrite IZR_Zpower by lia. apply bpow_lt. reflexivity.
Qed.

Lemma Prim2B_zero : Prim2B 0%float = B754_zero false.
Proof. change 0%float with PrimFloat.zero. rewrite zero_equiv. apply Prim2B_B2Prim. Qed.

Lemma Prim2B_one : Prim2B 1%float = Bone.
Proof. change 1%float with PrimFloat.one. rewrite one_equiv. apply Prim2B_B2Prim. Qed.

Lemma Ffin_zero : Ffin 0%float.
Proof. unfold Ffin. rewrite Prim2B_zero. reflexivity. Qed.

Lemma FR_zero : FR 0%float = 0.
Proof. unfold FR. rewrite Prim2B_zero. reflexivity. Qed.

Lemma Ffin_one : Ffin 1%float.
Proof. unfold Ffin. rewrite Prim2B_one. apply is_finite_Bone. Qed.

Lemma FR_one : FR 1%float = 1.
Proof. unfold FR. rewrite Prim2B_one. apply Bone_correct. Qed.

Lemma fin01_zero : fin01 0%float.
Proof. split. apply Ffin_zero. rewrite FR_zero. lra. Qed.

(** ** The three operations used by [truncate_row] *)

Lemma add_ok : forall x y,
  Ffin x -> Ffin y ->
  Rabs (rnd (FR x + FR y)) < bpow radix2 emax ->
  Ffin (x + y)%float /\ FR (x + y)%float = rnd (FR x + FR y).
Proof.
  intros x y Hx Hy Hb. unfold Ffin, FR. rewrite add_equiv.
  generalize (Bplus_correct prec emax Hp Hm mode_NE (Prim2B x) (Prim2B y) Hx Hy).
  change (round_mode mode_NE) with ZnearestE.
  fold (FR x) (FR y). fold (rnd (FR x + FR y)).
  rewrite Rlt_bool_true by exact Hb.
  intros [H1 [H2 _]]. split; assumption.
Qed.

Lemma div_ok : forall x y,
  Ffin x -> FR y <> 0 ->
  Rabs (rnd (FR x / FR y)) < bpow radix2 emax ->
  Ffin (x / y)%float /\ FR (x / y)%float = rnd (FR x / FR y).
Proof.
  intros x y Hx Hy Hb. unfold Ffin, FR. rewrite div_equiv.
  generalize (Bdiv_correct prec emax Hp Hm mode_NE (Prim2B x) (Prim2B y) Hy).
  change (round_mode mode_NE) with ZnearestE.
  fold (FR x) (FR y). fold (rnd (FR x / FR y)).
  rewrite Rlt_bool_true by exact Hb.
  intros [H1 [H2 _]]. split. rewrite H2. exact Hx. exact H1.
Qed.

Lemma ltb_fin : forall x y, Ffin x -> Ffin y ->
  PrimFloat.ltb x y = Rlt_bool (FR x) (FR y).
Proof.
  intros x y Hx Hy. rewrite ltb_equiv. apply Bltb_correct; assumption.
Qed.

Lemma leb_fin : forall x y, Ffin x -> Ffin y ->
  PrimFloat.leb x y = Rle_bool (FR x) (FR y).
Proof.
  intros x y Hx Hy. rewrite leb_equiv. apply Bleb_correct; assumption.
Qed.

Lemma ltb_zero_pos : forall t, Ffin t ->
  (PrimFloat.ltb 0 t = true <-> 0 < FR t).
Proof.
  intros t Ht. rewrite (ltb_fin 0 t Ffin_zero Ht), FR_zero.
  destruct (Rlt_bool_spec 0 (FR t)) as [H|H]; split; intro H'; try reflexivity;
    try assumption; try discriminate; lra.
Qed.

(** ** Monotone rounding facts *)

Lemma rnd_le_fmt : forall x y, fmt y -> x <= y -> rnd x <= y.
Proof. intros x y Hy Hxy. unfold rnd. apply round_le_generic; auto with typeclass_instances. Qed.

Lemma rnd_ge_fmt : forall x y, fmt x -> x <= y -> x <= rnd y.
Proof. intros x y Hx Hxy. unfold rnd. apply round_ge_generic; auto with typeclass_instances. Qed.

Lemma rnd_fmt : forall x, fmt x -> rnd x = x.
Proof. intros x Hx. unfold rnd. apply round_generic; auto with typeclass_instances. Qed.

(** ** The float sum of a list of [fin01] numbers *)

Lemma add_step : forall acc p (n : Z),
  Ffin acc -> fin01 p -> 0 <= FR acc <= IZR n -> (0 <= n)%Z -> (n + 1 < 2 ^ 53)%Z ->
  Ffin (acc + p)%float /\
  FR (acc + p)%float = rnd (FR acc + FR p) /\
  FR acc <= FR (acc + p)%float /\
  FR p <= FR (acc + p)%float /\
  FR (acc + p)%float <= IZR (n + 1).
Proof.
  intros acc p n Ha [Hp [Hp0 Hp1]] [Ha0 Han] Hn0 Hn.
  assert (Hs : FR acc + FR p <= IZR (n + 1)) by (rewrite plus_IZR; lra).
  assert (Hup : rnd (FR acc + FR p) <= IZR (n + 1)).
  { apply rnd_le_fmt; [apply fmt_IZR; lia | exact Hs]. }
  assert (Hlo1 : FR acc <= rnd (FR acc + FR p)).
  { apply rnd_ge_fmt; [apply fmt_FR | lra]. }
  assert (Hlo2 : FR p <= rnd (FR acc + FR p)).
  { apply rnd_ge_fmt; [apply fmt_FR | lra]. }
  assert (Hb : Rabs (rnd (FR acc + FR p)) < bpow radix2 emax).
  { rewrite Rabs_pos_eq by lra.
    apply Rle_lt_trans with (1 := Hup).
    apply Rlt_trans with (2 := bpow53_lt_emax).
    apply IZR_lt. lia. }
  destruct (add_ok acc p Ha Hp Hb) as [Hf He].
  rewrite He. repeat split; assumption.
Qed.

Lemma fsum_inv : forall (l : list float) (acc : float) (n : Z),
  Forall fin01 l ->
  Ffin acc -> 0 <= FR acc <= IZR n -> (0 <= n)%Z ->
  (n + Z.of_nat (length l) < 2 ^ 53)%Z ->
  Ffin (fold_left PrimFloat.add l acc) /\
  FR acc <= FR (fold_left PrimFloat.add l acc) /\
  FR (fold_left PrimFloat.add l acc) <= IZR (n + Z.of_nat (length l)) /\
  Forall (fun p => FR p <= FR (fold_left PrimFloat.add l acc)) l.
Proof.
  induction l as [|p l IH]; intros acc n Hl Ha Hb Hn0 Hn.
  - cbn [fold_left length]. rewrite Z.add_0_r.
    repeat split; try assumption; try lra. constructor.
  - inversion Hl as [|p' l' Hp Hl']; subst.
    change (length (p :: l)) with (S (length l)) in *.
    rewrite Nat2Z.inj_succ in *.
    cbn [fold_left].
    destruct (add_step acc p n Ha Hp Hb Hn0 ltac:(lia)) as [Hf [_ [H1 [H2 H3]]]].
    assert (Hb' : 0 <= FR (acc + p)%float <= IZR (n + 1)) by (split; [lra | exact H3]).
    destruct (IH (acc + p)%float (n + 1)%Z Hl' Hf Hb' ltac:(lia) ltac:(lia))
      as [G1 [G2 [G3 G4]]].
    replace (n + Z.succ (Z.of_nat (length l)))%Z with (n + 1 + Z.of_nat (length l))%Z by lia.
    repeat split; try assumption; try lra.
    constructor; [lra | exact G4].
Qed.

(** ** The boolean reading of [fin01] *)

Lemma fin01b_spec : forall x, fin01b x = true <-> fin01 x.
Proof.
  intros x. unfold fin01b, fin01.
  assert (Hnf : is_finite (Prim2B x) = false ->
                (PrimFloat.leb 0 x && PrimFloat.leb x 1)%bool = false).
  { intros Hx. rewrite !leb_equiv, Prim2B_zero, Prim2B_one.
    destruct (Prim2B x) as [s|s| |s m e He]; try discriminate Hx.
    - destruct s; vm_compute; reflexivity.
    - vm_compute; reflexivity. }
  destruct (is_finite (Prim2B x)) eqn:Hx.
  - rewrite (leb_fin 0 x Ffin_zero Hx), (leb_fin x 1 Hx Ffin_one), FR_zero, FR_one.
    destruct (Rle_bool_spec 0 (FR x)) as [H0|H0];
      destruct (Rle_bool_spec (FR x) 1) as [H1|H1]; cbn [andb]; split;
      try (intros [_ [G0 G1]]; exfalso; lra); try discriminate; try reflexivity.
    intros _. split; [exact Hx | split; assumption].
  - rewrite (Hnf eq_refl). split; [discriminate|].
    intros [Hf _]. unfold Ffin in Hf. rewrite Hx in Hf. discriminate.
Qed.

(** ** [truncate_row] at [FNum], unfolded once *)

Lemma truncate_row_FNum : forall (h : float) (row : list float),
  @truncate_row FNum h row =
  let total := fold_left PrimFloat.add (filter (fun p => PrimFloat.ltb h p) row) 0%float in
  if PrimFloat.ltb 0 total
  then map (fun p => if PrimFloat.ltb h p then PrimFloat.div p total else 0%float) row
  else row.
Proof. reflexivity. Qed.

Lemma sum_FNum : forall l : list float, @sum FNum l = fold_left PrimFloat.add l 0%float.
Proof. reflexivity. Qed.

Lemma Forall_filter : forall (A : Type) (P : A -> Prop) (f : A -> bool) (l : list A),
  Forall P l -> Forall P (filter f l).
Proof.
  intros A P f l H. induction H as [|x l Hx Hl IH]; cbn [filter].
  - constructor.
  - destruct (f x); [constructor; assumption | assumption].
Qed.

Lemma filter_length_le : forall (A : Type) (f : A -> bool) (l : list A),
  (length (filter f l) <= length l)%nat.
Proof.
  intros A f l. induction l as [|x l IH]; cbn [filter length]; [lia|].
  destruct (f x); cbn [length]; lia.
Qed.

(** ** 1. The total *)

Theorem truncate_row_total_ok : forall (h : float) (row : list float),
  Forall fin01 row ->
  (Z.of_nat (length row) < 2 ^ 53)%Z ->
  let kept := filter (fun p => ltb FNum h p) row in
  let total := @sum FNum kept in
  Ffin total /\
  0 <= FR total <= INR (length row) /\
  Forall (fun p => FR p <= FR total) kept.
Proof.
  intros h row Hrow Hlen kept total.
  assert (Hk : Forall fin01 kept) by (apply Forall_filter; exact Hrow).
  assert (Hkl : (length kept <= length row)%nat) by apply filter_length_le.
  assert (H0 : 0 <= FR 0%float <= IZR 0) by (rewrite FR_zero; lra).
  assert (Hb : (0 + Z.of_nat (length kept) < 2 ^ 53)%Z) by lia.
  destruct (fsum_inv kept 0%float 0%Z Hk Ffin_zero H0 (Z.le_refl 0) Hb)
    as [G1 [G2 [G3 G4]]].
  rewrite FR_zero in G2.
  unfold total. rewrite sum_FNum.
  split; [exact G1|]. split; [|exact G4].
  split; [exact G2|].
  apply Rle_trans with (1 := G3).
  rewrite INR_IZR_INZ. apply IZR_le. rewrite Z.add_0_l.
  apply Nat2Z.inj_le. exact Hkl.
Qed.

(** ** Division of a part by the whole *)

Lemma div_part_ok : forall p t,
  Ffin p -> Ffin t -> 0 <= FR p <= FR t -> 0 < FR t ->
  fin01 (p / t)%float /\ FR (p / t)%float = rnd (FR p / FR t).
Proof.
  intros p t Hp Ht [Hp0 Hpt] Ht0.
  assert (Hq0 : 0 <= FR p / FR t).
  { apply Rmult_le_pos; [exact Hp0 | left; apply Rinv_0_lt_compat; exact Ht0]. }
  assert (Hq1 : FR p / FR t <= 1).
  { replace 1 with (FR t / FR t) by (field; lra).
    unfold Rdiv. apply Rmult_le_compat_r; [|exact Hpt].
    left; apply Rinv_0_lt_compat; exact Ht0. }
  assert (Hr0 : 0 <= rnd (FR p / FR t)) by (apply rnd_ge_fmt; [apply fmt_0 | exact Hq0]).
  assert (Hr1 : rnd (FR p / FR t) <= 1) by (apply rnd_le_fmt; [apply fmt_1 | exact Hq1]).
  assert (Hb : Rabs (rnd (FR p / FR t)) < bpow radix2 emax).
  { rewrite Rabs_pos_eq by exact Hr0.
    apply Rle_lt_trans with (1 := Hr1).
    apply Rlt_trans with (2 := bpow53_lt_emax). apply IZR_lt. lia. }
  destruct (div_ok p t Hp ltac:(lra) Hb) as [Hf He].
  split; [|exact He]. split; [exact Hf|]. rewrite He. split; assumption.
Qed.

(** ** 2. Every entry of the result is a finite number in [0,1] *)

Theorem truncate_row_float_valid : forall (h : float) (row : list float),
  Forall fin01 row ->
  (Z.of_nat (length row) < 2 ^ 53)%Z ->
  Forall fin01 (@truncate_row FNum h row).
Proof.
  intros h row Hrow Hlen.
  destruct (truncate_row_total_ok h row Hrow Hlen) as [Hf [[Ht0 _] Hge]].
  rewrite sum_FNum in Hf, Ht0, Hge. cbn [ltb FNum] in Hf, Ht0, Hge.
  rewrite truncate_row_FNum. cbv zeta.
  set (total := fold_left PrimFloat.add (filter (fun p => PrimFloat.ltb h p) row) 0%float) in *.
  destruct (PrimFloat.ltb 0 total) eqn:Hpos; [|exact Hrow].
  apply (ltb_zero_pos total Hf) in Hpos.
  rewrite Forall_forall in Hge. rewrite Forall_forall in Hrow.
  apply Forall_forall. intros y Hy.
  apply in_map_iff in Hy. destruct Hy as [p [Hy Hin]]. subst y.
  destruct (PrimFloat.ltb h p) eqn:Hab; [|apply fin01_zero].
  destruct (Hrow p Hin) as [Hpf [Hp0 _]].
  assert (Hpt : FR p <= FR total).
  { apply Hge. apply filter_In. split; assumption. }
  apply (div_part_ok p total Hpf Hf (conj Hp0 Hpt) Hpos).
Qed.

(** ** 3. The support *)

(** Comparison against an arbitrary threshold (NaN and infinities included) is
    monotone in the finite right-hand side. *)
Lemma Bltb_mono_r : forall h q p : binary_float prec emax,
  is_finite q = true -> is_finite p = true -> B2R q <= B2R p ->
  Bltb h q = true -> Bltb h p = true.
Proof.
  intros h q p Hq Hp Hqp Hhq.
  destruct (is_finite h) eqn:Hh.
  - rewrite (Bltb_correct prec emax h q Hh Hq) in Hhq.
    rewrite (Bltb_correct prec emax h p Hh Hp).
    destruct (Rlt_bool_spec (B2R h) (B2R q)) as [H|H]; [|discriminate].
    apply Rlt_bool_true. lra.
  - destruct h as [s|s| |s m e He]; try discriminate Hh.
    + destruct s.
      * destruct p as [sp|sp| |sp mp ep Hep]; try discriminate Hp; reflexivity.
      * destruct q as [sq|sq| |sq mq eq Heq]; try discriminate Hq; discriminate Hhq.
    + destruct q as [sq|sq| |sq mq eq Heq]; discriminate Hhq.
Qed.

Lemma ltb_mono_r : forall h q p : float,
  Ffin q -> Ffin p -> FR q <= FR p ->
  PrimFloat.ltb h q = true -> PrimFloat.ltb h p = true.
Proof.
  intros h q p Hq Hp Hqp. rewrite !ltb_equiv.
  apply Bltb_mono_r; assumption.
Qed.

Lemma ltb_nan_l : forall h p : float, PrimFloat.is_nan h = true -> PrimFloat.ltb h p = false.
Proof.
  intros h p Hh. rewrite is_nan_equiv in Hh. rewrite ltb_equiv.
  destruct (Prim2B h) as [s|s| |s m e He]; try discriminate Hh. reflexivity.
Qed.

Lemma ltb_pinf_l : forall p : float, PrimFloat.ltb infinity p = false.
Proof.
  intros p. rewrite ltb_equiv, infinity_equiv, Prim2B_B2Prim.
  destruct (Prim2B p) as [s|s| |s m e He]; try reflexivity. destruct s; reflexivity.
Qed.

Lemma ltb_ge1_l : forall h p : float, Ffin h -> 1 <= FR h -> fin01 p -> PrimFloat.ltb h p = false.
Proof.
  intros h p Hh H1 [Hp [_ Hp1]]. rewrite (ltb_fin h p Hh Hp).
  apply Rlt_bool_false. lra.
Qed.

Lemma filter_existsb_false : forall (A : Type) (f : A -> bool) (l : list A),
  existsb f l = false -> filter f l = [].
Proof.
  intros A f l. induction l as [|x l IH]; cbn [existsb filter]; [reflexivity|].
  destruct (f x); cbn [orb]; [discriminate | exact IH].
Qed.

(** Nothing exceeds the threshold: the row is returned unchanged (any row at all,
    no validity assumption on the row needed). *)
Theorem truncate_row_float_unchanged : forall (h : float) (row : list float),
  existsb (fun p => ltb FNum h p) row = false ->
  @truncate_row FNum h row = row.
Proof.
  intros h row Hex. rewrite truncate_row_FNum. cbv zeta.
  change (@existsb float (fun p => PrimFloat.ltb h p) row = false) in Hex.
  rewrite (filter_existsb_false float _ _ Hex). cbn [fold_left].
  reflexivity.
Qed.

Lemma existsb_all_false : forall (A : Type) (f : A -> bool) (l : list A),
  (forall x, In x l -> f x = false) -> existsb f l = false.
Proof.
  intros A f l H. induction l as [|x l IH]; cbn [existsb]; [reflexivity|].
  rewrite (H x (or_introl eq_refl)). cbn [orb].
  apply IH. intros y Hy. apply H. right. exact Hy.
Qed.

Theorem truncate_row_float_nan : forall (h : float) (row : list float),
  PrimFloat.is_nan h = true -> @truncate_row FNum h row = row.
Proof.
  intros h row Hh. apply truncate_row_float_unchanged.
  apply existsb_all_false. intros p _. apply ltb_nan_l. exact Hh.
Qed.

Theorem truncate_row_float_pinf : forall row : list float,
  @truncate_row FNum infinity row = row.
Proof.
  intros row. apply truncate_row_float_unchanged.
  apply existsb_all_false. intros p _. apply ltb_pinf_l.
Qed.

Theorem truncate_row_float_ge1 : forall (h : float) (row : list float),
  Forall fin01 row -> Ffin h -> 1 <= FR h -> @truncate_row FNum h row = row.
Proof.
  intros h row Hrow Hh H1. apply truncate_row_float_unchanged.
  apply existsb_all_false. intros p Hp. apply ltb_ge1_l; try assumption.
  rewrite Forall_forall in Hrow. apply Hrow. exact Hp.
Qed.

Lemma truncate_row_float_length : forall (h : float) (row : list float),
  length (@truncate_row FNum h row) = length row.
Proof.
  intros h row. rewrite truncate_row_FNum. cbv zeta.
  destruct (PrimFloat.ltb 0 _); [apply map_length | reflexivity].
Qed.

Lemma nth_map_lt : forall (A B : Type) (f : A -> B) (l : list A) (k : nat) (da : A) (db : B),
  (k < length l)%nat -> nth k (map f l) db = f (nth k l da).
Proof.
  intros A B f l k da db Hk.
  rewrite (nth_indep (map f l) db (f da)) by (rewrite map_length; exact Hk).
  apply map_nth.
Qed.

Lemma fmt_bpow_emin : fmt (bpow radix2 (-1074)).
Proof.
  unfold fmt.
  apply (generic_format_FLT_bpow radix2 (SpecFloat.emin prec emax) prec).
  cbv. discriminate.
Qed.

(** The entries of the result, position by position.  [total] is the float sum
    of the entries above [h]. *)
Theorem truncate_row_float_support : forall (h : float) (row : list float),
  Forall fin01 row ->
  (Z.of_nat (length row) < 2 ^ 53)%Z ->
  existsb (fun p => ltb FNum h p) row = true ->
  let out := @truncate_row FNum h row in
  let total := @sum FNum (filter (fun p => ltb FNum h p) row) in
  length out = length row /\
  forall k, (k < length row)%nat ->
    let p := nth k row 0%float in
    let y := nth k out 0%float in
    (* not above the threshold: exactly +0 *)
    (ltb FNum h p = false -> y = 0%float) /\
    (* above the threshold: the correctly rounded quotient by the total *)
    (ltb FNum h p = true ->
       FR p <= FR total /\
       (0 < FR total -> y = (p / total)%float /\ FR y = rnd (FR p / FR total)) /\
       (FR total = 0 -> y = p)) /\
    (* above and zero: zero *)
    (ltb FNum h p = true -> FR p = 0 -> FR y = 0) /\
    (* above and not tiny: not zero *)
    (ltb FNum h p = true -> bpow radix2 (-1021) <= FR p -> bpow radix2 (-1074) <= FR y).
Proof.
  intros h row Hrow Hlen Hex out total.
  split; [apply truncate_row_float_length|].
  destruct (truncate_row_total_ok h row Hrow Hlen) as [Hf [[Ht0 Htn] Hge]].
  fold total in Hf, Ht0, Htn, Hge.
  assert (Hout : out = if PrimFloat.ltb 0 total
            then map (fun p => if PrimFloat.ltb h p then PrimFloat.div p total else 0%float) row
            else row) by reflexivity.
  cbn [ltb FNum] in *.
  rewrite Forall_forall in Hge. rewrite Forall_forall in Hrow.
  apply existsb_exists in Hex. destruct Hex as [q [Hq Hhq]].
  assert (Hqk : In q (filter (fun p => PrimFloat.ltb h p) row))
    by (apply filter_In; split; assumption).
  destruct (Hrow q Hq) as [Hqf [Hq0 _]].
  assert (Hqt := Hge q Hqk).
  intros k Hk.
  set (p := nth k row 0%float). set (y := nth k out 0%float).
  assert (Hp : In p row) by (apply nth_In; exact Hk).
  destruct (Hrow p Hp) as [Hpf [Hp0 Hp1]].
  destruct (PrimFloat.ltb 0 total) eqn:Hpos.
  - (* total > 0 *)
    apply (ltb_zero_pos total Hf) in Hpos.
    assert (Hy : y = if PrimFloat.ltb h p then PrimFloat.div p total else 0%float).
    { unfold y. rewrite Hout.
      apply (nth_map_lt _ _ (fun p => if PrimFloat.ltb h p then PrimFloat.div p total else 0%float)).
      exact Hk. }
    destruct (PrimFloat.ltb h p) eqn:Hab.
    + assert (Hpt : FR p <= FR total) by (apply Hge; apply filter_In; split; assumption).
      destruct (div_part_ok p total Hpf Hf (conj Hp0 Hpt) Hpos) as [_ He].
      rewrite <- Hy in He.
      split; [discriminate|].
      split; [intros _; split; [exact Hpt|]; split; [intros _; split; assumption | intros Hc; exfalso; lra]|].
      split.
      * intros _ Hz. rewrite He, Hz. unfold Rdiv. rewrite Rmult_0_l.
        apply rnd_fmt. apply fmt_0.
      * intros _ Hbig. rewrite He. apply rnd_ge_fmt; [apply fmt_bpow_emin|].
        assert (Ht53 : FR total <= bpow radix2 53).
        { apply Rle_trans with (1 := Htn). rewrite INR_IZR_INZ.
          change (bpow radix2 53) with (IZR (2 ^ 53)). apply IZR_le. lia. }
        apply Rmult_le_reg_r with (FR total); [exact Hpos|].
        unfold Rdiv. rewrite Rmult_assoc, Rinv_l, Rmult_1_r by lra.
        apply Rle_trans with (2 := Hbig).
        apply Rle_trans with (bpow radix2 (-1074) * bpow radix2 53).
        { apply Rmult_le_compat_l; [apply bpow_ge_0 | exact Ht53]. }
        rewrite <- bpow_plus. apply bpow_le. lia.
    + split; [intros _; exact Hy|].
      split; [discriminate|]. split; discriminate.
  - (* total = 0: every entry is above [h], the row is unchanged *)
    assert (Hz : FR total <= 0).
    { destruct (Rlt_or_le 0 (FR total)) as [H|H]; [|exact H].
      apply (ltb_zero_pos total Hf) in H. rewrite H in Hpos. discriminate. }
    assert (Hab : PrimFloat.ltb h p = true).
    { apply (ltb_mono_r h q p Hqf Hpf); [lra | exact Hhq]. }
    assert (Hy : y = p) by (unfold y; rewrite Hout; reflexivity).
    rewrite Hab.
    assert (Hpt : FR p <= FR total) by (apply Hge; apply filter_In; split; assumption).
    split; [discriminate|]. split; [|split].
    + intros _. split; [exact Hpt|]. split; [intros Hc; exfalso; lra | intros _; exact Hy].
    + intros _ Hz'. rewrite Hy. exact Hz'.
    + intros _ Hbig. exfalso. 
      assert (0 < bpow radix2 (-1021)) by apply bpow_gt_0. lra.
Qed.

(** The support in "iff" form, for rows whose non-zero entries are not tiny
    (at least 2^-1021; below that a quotient can underflow to zero, see
    [ex_trunc_underflow]). *)
Corollary truncate_row_float_support_iff : forall (h : float) (row : list float),
  Forall fin01 row ->
  (Z.of_nat (length row) < 2 ^ 53)%Z ->
  existsb (fun p => ltb FNum h p) row = true ->
  (forall p, In p row -> FR p = 0 \/ bpow radix2 (-1021) <= FR p) ->
  forall k, (k < length row)%nat ->
    (FR (nth k (@truncate_row FNum h row) 0%float) = 0 <->
     (ltb FNum h (nth k row 0%float) = false \/ FR (nth k row 0%float) = 0)).
Proof.
  intros h row Hrow Hlen Hex Hbig k Hk.
  destruct (truncate_row_float_support h row Hrow Hlen Hex) as [_ Hs].
  destruct (Hs k Hk) as [S1 [_ [S3 S4]]]. clear Hs.
  assert (Hin : In (nth k row 0%float) row) by (apply nth_In; exact Hk).
  split.
  - intros Hy. destruct (ltb FNum h (nth k row 0%float)) eqn:Hab; [|left; reflexivity].
    right. destruct (Hbig _ Hin) as [Hz|Hb]; [exact Hz|].
    exfalso. specialize (S4 eq_refl Hb).
    assert (0 < bpow radix2 (-1074)) by apply bpow_gt_0. lra.
  - intros [Hna|Hz].
    + rewrite (S1 Hna). apply FR_zero.
    + destruct (ltb FNum h (nth k row 0%float)) eqn:Hab.
      * apply S3; [reflexivity | exact Hz].
      * rewrite (S1 eq_refl). apply FR_zero.
Qed.

(** ** Lifting to the flat profile vectors: [truncate_flat], [truncate] *)

Lemma Forall_firstn' : forall (A : Type) (P : A -> Prop) (n : nat) (l : list A),
  Forall P l -> Forall P (firstn n l).
Proof.
  intros A P n. induction n as [|n IH]; intros l Hl; cbn [firstn]; [constructor|].
  destruct Hl as [|x l Hx Hl]; constructor; [exact Hx | apply IH; exact Hl].
Qed.

Lemma Forall_skipn' : forall (A : Type) (P : A -> Prop) (n : nat) (l : list A),
  Forall P l -> Forall P (skipn n l).
Proof.
  intros A P n. induction n as [|n IH]; intros l Hl; cbn [skipn]; [exact Hl|].
  destruct Hl as [|x l Hx Hl]; [constructor | apply IH; exact Hl].
Qed.

Theorem truncate_flat_float_valid : forall (h : float) (ars : list nat) (flat : list float),
  Forall fin01 flat ->
  (Z.of_nat (length flat) < 2 ^ 53)%Z ->
  Forall fin01 (@truncate_flat FNum h ars flat).
Proof.
  intros h ars. unfold truncate_flat.
  induction ars as [|n ars IH]; intros flat Hf Hlen; cbn [split_by map concat]; [constructor|].
  apply Forall_app. split.
  - apply truncate_row_float_valid; [apply Forall_firstn'; exact Hf|].
    assert (Hl : (length (firstn n flat) <= length flat)%nat).
    { rewrite firstn_length. apply Nat.le_min_r. }
    apply Nat2Z.inj_le in Hl.
    apply Z.le_lt_trans with (1 := Hl). exact Hlen.
  - apply IH; [apply Forall_skipn'; exact Hf|].
    assert (Hl : (length (skipn n flat) <= length flat)%nat).
    { rewrite skipn_length. apply Nat.le_sub_l. }
    apply Nat2Z.inj_le in Hl.
    apply Z.le_lt_trans with (1 := Hl). exact Hlen.
Qed.

Theorem truncate_float_valid : forall (g : @game FNum) (h : float) (prof : list float * list float),
  Forall fin01 (fst prof) -> Forall fin01 (snd prof) ->
  (Z.of_nat (length (fst prof)) < 2 ^ 53)%Z ->
  (Z.of_nat (length (snd prof)) < 2 ^ 53)%Z ->
  Forall fin01 (fst (@truncate FNum g h prof)) /\
  Forall fin01 (snd (@truncate FNum g h prof)).
Proof.
  intros g h prof H1 H2 L1 L2. unfold truncate. cbn [fst snd].
  split; apply truncate_flat_float_valid; assumption.
Qed.

(** ** 4. The sum of the result is 1 up to rounding *)

Definition u53 : R := bpow radix2 (-53).
Definition eta1075 : R := bpow radix2 (-1075).

(** exact real sum of the values of a list of floats *)
Definition RS (l : list float) : R := fold_right Rplus 0 (map FR l).

Lemma RS_nil : RS [] = 0.
Proof. reflexivity. Qed.

Lemma RS_cons : forall x l, RS (x :: l) = FR x + RS l.
Proof. reflexivity. Qed.

Lemma u53_pos : 0 < u53.
Proof. apply bpow_gt_0. Qed.

Lemma eta_pos : 0 < eta1075.
Proof. apply bpow_gt_0. Qed.

Lemma eta_le_u53 : eta1075 <= u53.
Proof. apply bpow_le. lia. Qed.

Lemma half_bpow : forall e : Z, / 2 * bpow radix2 e = bpow radix2 (e - 1).
Proof.
  intros e. unfold Zminus. rewrite bpow_plus. rewrite Rmult_comm. reflexivity.
Qed.

Lemma add_err : forall x y, fmt x -> fmt y ->
  Rabs (rnd (x + y) - (x + y)) <= u53 * Rabs (rnd (x + y)).
Proof.
  intros x y Hx Hy.
  destruct (FLT_plus_error_N_round_ex radix2 (SpecFloat.emin prec emax) prec
              (fun n => negb (Z.even n)) x y Hx Hy) as [e [He Heq]].
  change (round radix2 (FLT_exp (SpecFloat.emin prec emax) prec)
            (Znearest (fun n => negb (Z.even n))) (x + y)) with (rnd (x + y)) in Heq.
  unfold u_ro in He. rewrite half_bpow in He.
  change (bpow radix2 (- prec + 1 - 1)) with u53 in He.
  set (r := rnd (x + y)) in *.
  rewrite Heq.
  replace (r - r * (1 + e)) with (- (r * e)) by ring.
  rewrite Rabs_Ropp, Rabs_mult, Rmult_comm.
  apply Rmult_le_compat_r; [apply Rabs_pos | exact He].
Qed.

Lemma div_err : forall x, Rabs (rnd x - x) <= u53 * Rabs x + eta1075.
Proof.
  intros x.
  destruct (error_N_FLT radix2 (SpecFloat.emin prec emax) prec eq_refl
              (fun n => negb (Z.even n)) x) as [e [et [He [Het [_ Heq]]]]].
  change (round radix2 (FLT_exp (SpecFloat.emin prec emax) prec)
            (Znearest (fun n => negb (Z.even n))) x) with (rnd x) in Heq.
  rewrite half_bpow in He, Het.
  change (bpow radix2 (- prec + 1 - 1)) with u53 in He.
  change (bpow radix2 (SpecFloat.emin prec emax - 1)) with eta1075 in Het.
  rewrite Heq.
  replace (x * (1 + e) + et - x) with (x * e + et) by ring.
  apply Rle_trans with (1 := Rabs_triang _ _).
  apply Rplus_le_compat; [|exact Het].
  rewrite Rabs_mult, Rmult_comm.
  apply Rmult_le_compat_r; [apply Rabs_pos | exact He].
Qed.

(** The float sum of non-negative terms against the exact sum: relative error
    at most [length * 2^-53], relative to the computed sum. *)
Lemma fsum_err : forall (l : list float) (acc : float) (n : Z),
  Forall fin01 l ->
  Ffin acc -> 0 <= FR acc <= IZR n -> (0 <= n)%Z ->
  (n + Z.of_nat (length l) < 2 ^ 53)%Z ->
  Rabs (FR (fold_left PrimFloat.add l acc) - (FR acc + RS l))
  <= INR (length l) * u53 * FR (fold_left PrimFloat.add l acc).
Proof.
  induction l as [|p l IH]; intros acc n Hl Ha Hb Hn0 Hn.
  - cbn [fold_left length INR]. rewrite RS_nil.
    replace (FR acc - (FR acc + 0)) with 0 by ring. rewrite Rabs_R0. lra.
  - inversion Hl as [|p' l' Hp Hl']; subst.
    change (length (p :: l)) with (S (length l)) in *.
    rewrite Nat2Z.inj_succ in Hn.
    rewrite S_INR, RS_cons. cbn [fold_left].
    destruct (add_step acc p n Ha Hp Hb Hn0 ltac:(lia)) as [Hf [He [H1 [H2 H3]]]].
    assert (Hb' : 0 <= FR (acc + p)%float <= IZR (n + 1)) by (split; [lra | exact H3]).
    assert (Hn' : (n + 1 + Z.of_nat (length l) < 2 ^ 53)%Z) by lia.
    assert (Hn0' : (0 <= n + 1)%Z) by lia.
    destruct (fsum_inv l (acc + p)%float (n + 1)%Z Hl' Hf Hb' Hn0' Hn') as [_ [G2 _]].
    specialize (IH (acc + p)%float (n + 1)%Z Hl' Hf Hb' Hn0' Hn').
    assert (Hadd := add_err (FR acc) (FR p) (fmt_FR acc) (fmt_FR p)).
    rewrite <- He in Hadd.
    rewrite (Rabs_pos_eq (FR (acc + p)%float)) in Hadd by lra.
    set (F := FR (fold_left PrimFloat.add l (acc + p)%float)) in *.
    set (a' := FR (acc + p)%float) in *.
    assert (Hu := u53_pos).
    assert (HuF : u53 * a' <= u53 * F) by (apply Rmult_le_compat_l; lra).
    apply Rabs_le_inv in IH. apply Rabs_le_inv in Hadd.
    apply Rabs_le. 
    replace ((INR (length l) + 1) * u53 * F) with (INR (length l) * u53 * F + u53 * F) by ring.
    lra.
Qed.

(** The rounded quotients against the exact quotients. *)
Lemma out_err : forall (h t : float) (l : list float),
  Ffin t -> 0 < FR t ->
  (forall p, In p l -> Ffin p /\ 0 <= FR p /\ (PrimFloat.ltb h p = true -> FR p <= FR t)) ->
  Rabs (RS (map (fun p => if PrimFloat.ltb h p then PrimFloat.div p t else 0%float) l)
        - RS (filter (fun p => PrimFloat.ltb h p) l) / FR t)
  <= u53 * (RS (filter (fun p => PrimFloat.ltb h p) l) / FR t)
     + INR (length (filter (fun p => PrimFloat.ltb h p) l)) * eta1075.
Proof.
  intros h t l Ht Ht0. induction l as [|p l IH]; intros Hl.
  - cbn [map filter length INR]. rewrite RS_nil. unfold Rdiv.
    rewrite Rmult_0_l, Rminus_0_r, Rabs_R0. lra.
  - assert (IH' := IH (fun q Hq => Hl q (or_intror Hq))). clear IH.
    destruct (Hl p (or_introl eq_refl)) as [Hpf [Hp0 Hpt]].
    cbn [map filter].
    destruct (PrimFloat.ltb h p) eqn:Hab.
    + specialize (Hpt eq_refl).
      destruct (div_part_ok p t Hpf Ht (conj Hp0 Hpt) Ht0) as [_ He].
      change (length (p :: ?x)) with (S (length x)).
      cbn [length]. rewrite S_INR, !RS_cons, He.
      assert (Hq0 : 0 <= FR p / FR t).
      { apply Rmult_le_pos; [exact Hp0 | left; apply Rinv_0_lt_compat; exact Ht0]. }
      assert (Hd := div_err (FR p / FR t)).
      rewrite (Rabs_pos_eq _ Hq0) in Hd.
      unfold Rdiv in *. rewrite Rmult_plus_distr_r.
      set (q := FR p * / FR t) in *.
      set (Kt := RS (filter (fun p0 : float => PrimFloat.ltb h p0) l) * / FR t) in *.
      set (O' := RS (map (fun p0 : float => if PrimFloat.ltb h p0 then PrimFloat.div p0 t else 0%float) l)) in *.
      set (M := INR (length (filter (fun p0 : float => PrimFloat.ltb h p0) l))) in *.
      apply Rabs_le_inv in IH'. apply Rabs_le_inv in Hd. apply Rabs_le.
      replace ((M + 1) * eta1075) with (M * eta1075 + eta1075) by ring.
      replace (u53 * (q + Kt)) with (u53 * q + u53 * Kt) by ring.
      lra.
    + rewrite RS_cons, FR_zero, Rplus_0_l. exact IH'.
Qed.

Theorem truncate_row_float_sum : forall (h : float) (row : list float),
  Forall fin01 row ->
  (Z.of_nat (length row) < 2 ^ 53)%Z ->
  0 < FR (@sum FNum (filter (fun p => ltb FNum h p) row)) ->
  Rabs (RS (@truncate_row FNum h row) - 1)
  <= (2 * INR (length row) + 2) * bpow radix2 (-53).
Proof.
  intros h row Hrow Hlen Hpos.
  destruct (truncate_row_total_ok h row Hrow Hlen) as [Hf [[Ht0 Htn] Hge]].
  rewrite truncate_row_FNum. cbv zeta.
  rewrite sum_FNum in Hpos, Hf, Ht0, Htn, Hge. cbn [ltb FNum] in Hpos, Hf, Ht0, Htn, Hge.
  set (kept := filter (fun p : float => PrimFloat.ltb h p) row) in *.
  set (total := fold_left PrimFloat.add kept 0%float) in *.
  change (Ffin total) in Hf. change (0 < FR total) in Hpos.
  change (0 <= FR total) in Ht0. change (FR total <= INR (length row)) in Htn.
  change (Forall (fun p => FR p <= FR total) kept) in Hge.
  assert (Hlt : PrimFloat.ltb 0 total = true) by (apply (ltb_zero_pos total Hf); exact Hpos).
  rewrite Hlt.
  rewrite Forall_forall in Hge. rewrite Forall_forall in Hrow.
  (* the divisions *)
  assert (HA := out_err h total row Hf Hpos).
  fold kept in HA.
  assert (HA' : forall p, In p row ->
             Ffin p /\ 0 <= FR p /\ (PrimFloat.ltb h p = true -> FR p <= FR total)).
  { intros p Hp. destruct (Hrow p Hp) as [Hpf [Hp0 _]].
    split; [exact Hpf|]. split; [exact Hp0|].
    intros Hab. apply Hge. apply filter_In. split; assumption. }
  specialize (HA HA'). clear HA'.
  (* the sum *)
  assert (Hk : Forall fin01 kept).
  { apply Forall_filter. apply Forall_forall. exact Hrow. }
  assert (Hkl : (length kept <= length row)%nat) by apply filter_length_le.
  assert (H0 : 0 <= FR 0%float <= IZR 0) by (rewrite FR_zero; lra).
  assert (Hb : (0 + Z.of_nat (length kept) < 2 ^ 53)%Z) by lia.
  assert (HB := fsum_err kept 0%float 0%Z Hk Ffin_zero H0 (Z.le_refl 0) Hb).
  fold total in HB. rewrite FR_zero, Rplus_0_l in HB.
  set (Ox := RS (map (fun p : float => if PrimFloat.ltb h p then PrimFloat.div p total else 0%float) row)) in *.
  set (Sx := RS kept) in *.
  set (t := FR total) in *.
  set (M := INR (length kept)) in *.
  set (N := INR (length row)) in *.
  change (bpow radix2 (-53)) with u53.
  assert (Hu := u53_pos). assert (Heta := eta_pos). assert (Heu := eta_le_u53).
  assert (HM0 : 0 <= M) by apply pos_INR.
  assert (HMN : M <= N) by (apply le_INR; exact Hkl).
  assert (HMu : M * u53 <= 1).
  { unfold M. rewrite INR_IZR_INZ.
    apply Rle_trans with (IZR (2 ^ 53) * u53).
    - apply Rmult_le_compat_r; [lra | apply IZR_le; lia].
    - change (IZR (2 ^ 53)) with (bpow radix2 53). unfold u53.
      rewrite <- bpow_plus. right. reflexivity. }
  (* |S/t - 1| <= M u *)
  assert (HQ : Rabs (Sx / t - 1) <= M * u53).
  { assert (Hti : t * / t = 1) by (apply Rinv_r; lra).
    assert (Heq : Sx / t - 1 = - (t - Sx) * / t).
    { unfold Rdiv. transitivity (Sx * / t - t * / t); [rewrite Hti; reflexivity | ring]. }
    rewrite Heq.
    rewrite Rabs_mult, Rabs_Ropp, (Rabs_pos_eq (/ t)) by (left; apply Rinv_0_lt_compat; exact Hpos).
    apply Rmult_le_reg_r with t; [exact Hpos|].
    rewrite Rmult_assoc, Rinv_l, Rmult_1_r by lra. exact HB. }
  set (Q := Sx / t) in *.
  apply Rabs_le_inv in HQ. apply Rabs_le_inv in HA. apply Rabs_le.
  assert (HuQ : u53 * Q <= u53 + u53).
  { apply Rle_trans with (u53 * (1 + M * u53)).
    - apply Rmult_le_compat_l; lra.
    - assert (Hx : u53 * (M * u53) <= u53 * 1) by (apply Rmult_le_compat_l; lra).
      rewrite Rmult_plus_distr_l. lra. }
  assert (HMe : M * eta1075 <= M * u53) by (apply Rmult_le_compat_l; lra).
  assert (HMN' : M * u53 <= N * u53) by (apply Rmult_le_compat_r; lra).
  replace ((2 * N + 2) * u53) with (2 * (N * u53) + 2 * u53) by ring.
  lra.
Qed.

(** A positive entry above the threshold makes the total positive. *)
Lemma total_pos_of_entry : forall (h : float) (row : list float) (q : float),
  Forall fin01 row ->
  (Z.of_nat (length row) < 2 ^ 53)%Z ->
  In q row -> ltb FNum h q = true -> 0 < FR q ->
  0 < FR (@sum FNum (filter (fun p => ltb FNum h p) row)).
Proof.
  intros h row q Hrow Hlen Hq Hab Hq0.
  destruct (truncate_row_total_ok h row Hrow Hlen) as [_ [_ Hge]].
  rewrite Forall_forall in Hge.
  apply Rlt_le_trans with (1 := Hq0). apply Hge.
  apply filter_In. split; assumption.
Qed.

(** ** 5. Examples: the hypotheses are satisfiable, and what comes out *)

Lemma forallb_fin01b : forall row : list float,
  forallb fin01b row = true -> Forall fin01 row.
Proof.
  intros row H. apply Forall_forall. intros x Hx.
  apply fin01b_spec. rewrite forallb_forall in H. apply H. exact Hx.
Qed.

(** bound on the length in the form asked for (2^20 entries) *)
Corollary truncate_row_float_valid_2p20 : forall (h : float) (row : list float),
  Forall fin01 row ->
  (Z.of_nat (length row) <= 2 ^ 20)%Z ->
  Forall fin01 (@truncate_row FNum h row).
Proof.
  intros h row Hrow Hlen. apply truncate_row_float_valid; [exact Hrow | lia].
Qed.

Definition ex_row : list float := [0.5; 0.25; 0.25]%float.
(* 0.3 and 0.2 are not binary64 numbers; the nearest ones are written exactly *)
Definition ex_row2 : list float :=
  [0.5; 0x1.3333333333333p-2; 0x1.999999999999ap-3]%float.

Example ex_row_fin01 : Forall fin01 ex_row.
Proof. apply forallb_fin01b. vm_compute. reflexivity. Qed.

Example ex_row2_fin01 : Forall fin01 ex_row2.
Proof. apply forallb_fin01b. vm_compute. reflexivity. Qed.

Example ex_trunc_03 :
  @truncate_row FNum 0x1.3333333333333p-2%float ex_row = [1; 0; 0]%float.
Proof. vm_compute. reflexivity. Qed.

Example ex_trunc_nan : @truncate_row FNum nan ex_row = ex_row.
Proof. vm_compute. reflexivity. Qed.

Example ex_trunc_pinf : @truncate_row FNum infinity ex_row = ex_row.
Proof. vm_compute. reflexivity. Qed.

Example ex_trunc_ninf :
  @truncate_row FNum neg_infinity ex_row = ex_row.
Proof. vm_compute. reflexivity. Qed.

(** 0.5 + 0.3 rounds to 0.8; 0.3/0.8 rounds below 0.375: the row sums to
    1 - 2^-54, not to 1 *)
Example ex_trunc2 :
  @truncate_row FNum 0.25%float ex_row2 = [0.625; 0x1.7ffffffffffffp-2; 0]%float.
Proof. vm_compute. reflexivity. Qed.

(** all entries zero and a negative threshold: total is 0, row unchanged
    (signed zeros included) *)
Example ex_trunc_zero :
  @truncate_row FNum (-1)%float [0; 0; -0]%float = [0; 0; -0]%float.
Proof. vm_compute. reflexivity. Qed.

(** underflow of a surviving entry: 2^-1074 / 4 rounds to +0, so the support of
    the result can be smaller than "the entries above the threshold" *)
Example ex_trunc_underflow :
  @truncate_row FNum 0%float [0x1p-1074; 1; 1; 1; 1]%float = [0; 0.25; 0.25; 0.25; 0.25]%float.
Proof. vm_compute. reflexivity. Qed.

Example ex_valid_instance : Forall fin01 (@truncate_row FNum 0.25%float ex_row2).
Proof.
  apply truncate_row_float_valid; [exact ex_row2_fin01 | vm_compute; reflexivity].
Qed.
