(** * Valid: what a valid behavioural strategy profile is (over the reals), and the
    list lemmas about [split_by] shared by the strategy-layer proofs. *)
From Coq Require Import Reals List Lra Lia Bool Arith.
From Cfr.theories Require Import Num RInst Tree.
Import ListNotations.
Open Scope R_scope.

(** ** Validity of rows and flat profiles *)
Definition VRow (r : list R) : Prop := Forall (fun x => 0 <= x) r /\ Rsum r = 1.

Definition nsum (l : list nat) : nat := fold_right Nat.add O l.

Definition VFlat (ars : list nat) (flat : list R) : Prop :=
  length flat = nsum ars /\ Forall VRow (split_by flat ars).

(** ** Lists *)
Lemma split_by_concat {A} (rows : list (list A)) :
  split_by (concat rows) (map (@length A) rows) = rows.
Proof.
  induction rows as [|r rows IH]; cbn [concat map split_by]; [reflexivity|].
  rewrite firstn_app, Nat.sub_diag, firstn_all, firstn_O, app_nil_r.
  rewrite skipn_app, Nat.sub_diag, skipn_all, skipn_O. cbn [app]. now rewrite IH.
Qed.

Lemma split_by_length {A} (l : list A) ars :
  length l = nsum ars -> map (@length A) (split_by l ars) = ars.
Proof.
  revert l; induction ars as [|a ars IH]; intros l H; cbn [split_by map]; [reflexivity|].
  cbn [nsum fold_right] in H. fold (nsum ars) in H.
  rewrite firstn_length, IH; [f_equal; lia|]. rewrite skipn_length; lia.
Qed.

Lemma concat_split_by {A} (l : list A) ars :
  length l = nsum ars -> concat (split_by l ars) = l.
Proof.
  revert l; induction ars as [|a ars IH]; intros l H; cbn [split_by concat].
  - destruct l; [reflexivity|discriminate].
  - cbn [nsum fold_right] in H. fold (nsum ars) in H.
    rewrite IH; [apply firstn_skipn|]. rewrite skipn_length; lia.
Qed.

Lemma length_concat_map {A} (f : list A -> list A) rows :
  (forall r, length (f r) = length r) ->
  map (@length A) (map f rows) = map (@length A) rows.
Proof. intros H; rewrite map_map; apply map_ext; intros; apply H. Qed.


(** A profile of game [g] is valid when each player's flat vector has one
    distribution per multi-action infoset. *)
Definition Valid (g : @game RNum) (prof : list R * list R) : Prop :=
  VFlat (arities g true) (fst prof) /\ VFlat (arities g false) (snd prof).

(** chance tables of an accepted game: positive probabilities that sum to one *)
Definition ChanceOK (g : @game RNum) : Prop :=
  Forall (fun row => Forall (fun p => 0 < p) row /\ Rsum row = 1) (g_chance g).
